/-
  Props/C19DecodedLinearLen.lean — C19 / C16 on IEEE floats for LINEAR sliders WITH a requested length (what decoded
  sliders have): `Curve::new fuel mode pts (some L) bufs`.

  1. `calculateLength_some_shape` (every arithmetic): the path `calculate_length` returns for a non-empty path and a
     requested length keeps, in every position but the last, a vertex of the natural path; the last vertex is a natural
     vertex or the re-projected end point `cutPoint`; path and lengths have the same number of entries EXCEPT in the
     equal-tail outcome (last two path points equal, `L > calculated`), where `calculated_len` is pushed once more and the
     lengths are one longer than the path.
  2. **`linear_curve_len_shape`**: control points `AllLinear`, finite; `L` finite: the lengths are `Sorted`, start with
     `0.0`, are all finite; every vertex but possibly the last is a control-point position; the path is non-empty; the
     last vertex is a control-point position or `cutPoint`; `path.length = lengths.length` or the equal-tail outcome.
     **FINDING (`linear_len_length_mismatch`)**: the clause "`c.path.length = c.lengths.length`" is FALSE for linear control
     points in general — control points `(100,200) L, (107,224), (107,224)` with `L = 60` give 3 path points and 4 lengths
     (kernel-evaluated). It is the documented equal-tail exception of `calculate_length`.
  3. **`linear_curve_len_position_err_float32_partial`**: hence the hypotheses of `positionAt_progress_err_float32_nofin`
     hold and `position_at(q)` is within `1/4` px per coordinate of a point of the polyline through the ADJUSTED path's
     vertices. PARTIAL in two named hypotheses:
       * `LenAdjOk c.path` — the LAST vertex of the adjusted path is finite and bounded by `2¹⁹` (every other vertex is a
         control-point position, for which this is assumed). `lenAdjOk_of_near_segment` derives it from "within `11/16` px
         of a point `pp + ρ (pe − pp)`, `0 ≤ ρ ≤ 2`, `pp`, `pe` bounded by `2¹⁷`", which is the conclusion of
         `C16.cut_end_point_near_segment_float` (cut, `ρ ≤ 1`, `1/2` px) resp. `C16.ext_end_point_near_ray` (extension)
         — the hypotheses of those theorems (no overflow, `2⁻¹⁰⁰ ≤ ℓ`, `len_k ≤ 2²⁷ ℓ`, …) are NOT derived from the
         control points here: that is what is missing for the full statement `linear_curve_len_position_err_float32_statement`.
       * `hlen : c.path.length = c.lengths.length` — fails exactly in the equal-tail outcome (see the finding).
     `linear_curve_len_lenAdjOk` reduces `LenAdjOk` to "`cutPoint 0 path L` of the NATURAL path is finite and bounded by
     `2¹⁹` in the main outcome"; `cutPoint_base_vertices`: the two points it is re-projected from are control-point
     positions; `linear_curve_len_position_err_float32_of_cutPoint`: the position theorem with hypotheses on the natural
     path only (`hnt`: no equal tail; `hcut`). Part 3 of the task (through the decoder) is NOT done.
  Kernel-evaluated examples: control points `(100,200) L, (107,224), (100,200)` with `L = 40` (cut inside the second
  segment) and `L = 60` (extension): all hypotheses hold.
-/
import RosuModel.Props.C19IeeeFinal
import RosuModel.Props.C16IeeeCut2
namespace Rosu.C19
open Rosu Rosu.Curve

/-! ## 1. the shape of `calculate_length` with a requested length (every arithmetic) -/

section Generic
variable {P F : Type} [Scalar P] [Scalar F] [Cvt P F]
open Rosu.C16

/-- the main outcome of `calculate_length`: neither near nor equal tail, at least two points, something is `< L`. -/
def MainOutcome (opt : F) (path : List (Pos P)) (L : F) : Prop :=
  near opt path L = false ∧ equalTail opt path L = false ∧ 2 ≤ path.length ∧ cutIdx opt path L ≠ 0

theorem calculateLength_some_shape (path : List (Pos P)) (L opt : F) (p' : List (Pos P)) (ls : List F)
    (hne : path ≠ []) (h : calculateLength path (some L) opt = .ok (p', ls)) :
    (∀ k v, p'[k]? = some v → k + 1 < p'.length → v ∈ path) ∧ p' ≠ [] ∧
    (∀ v, p'.getLast? = some v → v ∈ path ∨ (v = cutPoint opt path L ∧ MainOutcome opt path L)) ∧
    (p'.length = ls.length ∨
      (equalTail opt path L = true ∧ p' = path ∧ ls.length = p'.length + 1)) := by
  have hnat : (natLens opt path).length = path.length := natLens_length opt path hne
  have hN : (∀ k v, path[k]? = some v → k + 1 < path.length → v ∈ path) ∧ path ≠ [] ∧
      (∀ v, path.getLast? = some v → v ∈ path ∨ (v = cutPoint opt path L ∧ MainOutcome opt path L)) :=
    ⟨fun k v hk _ => List.mem_of_getElem? hk, hne, fun v hv => Or.inl (List.mem_of_getLast? hv)⟩
  rw [calculateLength_some] at h
  split at h
  · cases h; exact ⟨hN.1, hN.2.1, hN.2.2, Or.inl hnat.symm⟩
  split at h
  · rename_i _ heq
    cases h
    exact ⟨hN.1, hN.2.1, hN.2.2, Or.inr ⟨heq, rfl, by simp [hnat]⟩⟩
  split at h
  · cases h; exact ⟨hN.1, hN.2.1, hN.2.2, Or.inl hnat.symm⟩
  split at h
  · rename_i _ _ h1 _
    cases h
    have h2 : 2 ≤ path.length := by omega
    refine ⟨fun k v hk _ => List.mem_of_mem_take (List.mem_of_getElem? hk), ?_,
      fun v hv => Or.inl (List.mem_of_mem_take (List.mem_of_getLast? hv)), Or.inl ?_⟩
    · intro h0
      have := congrArg List.length h0
      simp only [List.length_take, List.length_nil] at this; omega
    · simp only [List.length_take, List.length_singleton]; omega
  · rename_i hn he h1 hk
    cases h
    have h2 : 2 ≤ path.length := by omega
    have hle : cutIdx opt path L ≤ path.length - 1 := by
      have := lastValid_le (natLens opt path).dropLast L
      rw [List.length_dropLast, hnat] at this
      exact this
    refine ⟨?_, by simp, ?_, Or.inl ?_⟩
    · intro k v hkv hlt
      simp only [List.length_append, List.length_take, List.length_singleton] at hlt
      rw [List.getElem?_append_left (by simp; omega)] at hkv
      exact List.mem_of_mem_take (List.mem_of_getElem? hkv)
    · intro v hv
      rw [List.getLast?_append] at hv
      simp only [List.getLast?_singleton, Option.some_or, Option.some.injEq] at hv
      exact Or.inr ⟨hv.symm, by simpa using hn, by simpa using he, h2, hk⟩
    · simp only [List.length_append, List.length_take, List.length_singleton, List.length_dropLast, hnat]
      omega

end Generic

/-! ## 2. `Curve::new` with a requested length on all-linear control points, IEEE floats -/

section FloatSec
open Rosu.C16 Rosu.FErr
open Float.Model Float.Model.UnpackedFloat

/-- **the hypothesis the C16 end-point theorems should provide**: the LAST vertex of the adjusted path — the re-projected
end point `p_k + dir · ((L − len_k) as f32)` in the cut / extension outcome — has finite coordinates bounded by `2¹⁹`.
Provider: `lenAdjOk_of_near_segment` below from the conclusion of `C16.cut_end_point_near_segment_float` (cut: within `1/2`
px of the segment `p_k p_{k+1}`) or of `C16.ext_end_point_near_ray` (extension: within `11/16` px of the ray, parameter
`ρ = τ/ℓ`; bounded when `L ≤ 131072`, the decoder's limit). In the other outcomes (near / equal tail / single point / collapsed)
the last vertex is a control-point position and `LenAdjOk` follows from the hypotheses on the control points
(`linear_curve_len_shape`, clause 6). -/
structure LenAdjOk (path : List (Pos Float32)) : Prop where
  last_ok : ∀ v, path.getLast? = some v → FinitePos v ∧ Bounded19 v

/-- a point within `11/16` px (per coordinate) of `pp + ρ (pe − pp)`, `0 ≤ ρ ≤ 2`, with `pp`, `pe` bounded by `2¹⁷`, is
bounded by `2¹⁹` (`|(1 − ρ) pp + ρ pe| ≤ 2¹⁷ + 2·2¹⁷`): the conclusions of `cut_end_point_near_segment_float` (`ρ ≤ 1`, `1/2`)
and `ext_end_point_near_ray` (`11/16`) are of this form. -/
theorem bounded19_of_near_segment (v pp pe : Pos Float32) (ρ : ℚ) (h0 : 0 ≤ ρ) (h2 : ρ ≤ 2)
    (bpx : |toRat32 pp.x| ≤ 131072) (bpy : |toRat32 pp.y| ≤ 131072)
    (bex : |toRat32 pe.x| ≤ 131072) (bey : |toRat32 pe.y| ≤ 131072)
    (hx : |toRat32 v.x - (toRat32 pp.x + ρ * (toRat32 pe.x - toRat32 pp.x))| ≤ 11 / 16)
    (hy : |toRat32 v.y - (toRat32 pp.y + ρ * (toRat32 pe.y - toRat32 pp.y))| ≤ 11 / 16) : Bounded19 v := by
  have key : ∀ a e x : ℚ, |a| ≤ 131072 → |e| ≤ 131072 → |x - (a + ρ * (e - a))| ≤ 11 / 16 → |x| ≤ 524288 := by
    intro a e x ba be hx
    rw [abs_le] at ba be hx ⊢
    obtain ⟨ba1, ba2⟩ := ba
    obtain ⟨be1, be2⟩ := be
    obtain ⟨hx1, hx2⟩ := hx
    have hd1 : ρ * e ≤ 262144 := by nlinarith
    have hd2 : -262144 ≤ ρ * e := by nlinarith
    have hd3 : |(1 - ρ) * a| ≤ 131072 := by
      rw [abs_mul]
      have h1 : |1 - ρ| ≤ 1 := by rw [abs_le]; constructor <;> linarith
      have h3 : |a| ≤ 131072 := by rw [abs_le]; exact ⟨ba1, ba2⟩
      calc |1 - ρ| * |a| ≤ 1 * 131072 := mul_le_mul h1 h3 (abs_nonneg _) (by norm_num)
        _ = 131072 := by norm_num
    obtain ⟨hd4, hd5⟩ := abs_le.mp hd3
    have he : a + ρ * (e - a) = (1 - ρ) * a + ρ * e := by ring
    rw [he] at hx1 hx2
    constructor <;> linarith
  exact ⟨key _ _ _ bpx bex hx, key _ _ _ bpy bey hy⟩

theorem lenAdjOk_of_near_segment (path : List (Pos Float32)) (pp pe : Pos Float32) (ρ : ℚ) (h0 : 0 ≤ ρ) (h2 : ρ ≤ 2)
    (bpx : |toRat32 pp.x| ≤ 131072) (bpy : |toRat32 pp.y| ≤ 131072)
    (bex : |toRat32 pe.x| ≤ 131072) (bey : |toRat32 pe.y| ≤ 131072)
    (hnear : ∀ v, path.getLast? = some v → FinitePos v ∧
      |toRat32 v.x - (toRat32 pp.x + ρ * (toRat32 pe.x - toRat32 pp.x))| ≤ 11 / 16 ∧
      |toRat32 v.y - (toRat32 pp.y + ρ * (toRat32 pe.y - toRat32 pp.y))| ≤ 11 / 16) : LenAdjOk path :=
  ⟨fun v hv => ⟨(hnear v hv).1, bounded19_of_near_segment v pp pe ρ h0 h2 bpx bpy bex bey (hnear v hv).2.1 (hnear v hv).2.2⟩⟩

section New
variable [Trig Float32]

/-- **`linear_curve_len_shape`**: the curve `Curve::new` builds WITH a finite requested length from all-linear control
points with finite coordinates. (1) every vertex but possibly the last is a control-point position; (2) the path is
non-empty; (3) the lengths are `Sorted`; (4) start with `0.0`; (5) are all finite; (6) the last vertex is a control-point
position, or it is the re-projected end point `cutPoint` of the natural path `b1.path` in the main (cut / extension)
outcome; (7) there are as many lengths as vertices — or the equal-tail outcome occurred: the natural path ends in two
equal points, `L > calculated_len`, every vertex is a control-point position, and there is ONE MORE length than
vertices (`linear_len_length_mismatch`: this does occur). -/
theorem linear_curve_len_shape (fuel : Nat) (mode : GameMode) (pts : List (PathControlPoint Float32)) (L : Float)
    (b b' : CurveBuffers Float32 Float) (c : Curve Float32 Float)
    (hl : AllLinear pts) (hne : pts ≠ []) (hfp : ∀ cp ∈ pts, FinitePos cp.pos) (hL : FX.Finite64 L)
    (h : Curve.new fuel mode pts (some L) b = .ok (c, b')) :
    (∀ k v, c.path[k]? = some v → k + 1 < c.path.length → ∃ cp ∈ pts, cp.pos = v) ∧
    c.path ≠ [] ∧ Sorted c.lengths ∧ c.lengths[0]? = some (0 : Float) ∧ (∀ v ∈ c.lengths, FX.Finite64 v) ∧
    (∃ b1, calculatePath fuel mode pts b = .ok (b1, (0 : Float)) ∧
      (∀ v, c.path.getLast? = some v →
        (∃ cp ∈ pts, cp.pos = v) ∨ (v = cutPoint (0 : Float) b1.path L ∧ MainOutcome (0 : Float) b1.path L)) ∧
      (c.path.length = c.lengths.length ∨
        (equalTail (0 : Float) b1.path L = true ∧ c.path = b1.path ∧ (∀ v ∈ c.path, ∃ cp ∈ pts, cp.pos = v) ∧
          c.lengths.length = c.path.length + 1))) := by
  obtain ⟨b1, opt, hp, hlen⟩ := C16.new_is_calculateLength fuel mode pts (some L) b b' c h
  obtain ⟨hmem, hnon, rfl⟩ := linear_path_vertices fuel mode pts b b1 opt hl hp
  have hfp1 : ∀ p ∈ b1.path, FinitePos p := by
    intro p hp'; obtain ⟨cp, hcp, rfl⟩ := hmem p hp'; exact hfp cp hcp
  obtain ⟨s1, s2, s3, s4⟩ := calculateLength_some_shape b1.path L 0 c.path c.lengths (hnon hne) hlen
  have hg := calculateLength_good_of_natural b1.path (some L) 0 (natLens_good_float 0 b1.path zero_le_zero_float hfp1)
    c.path c.lengths hlen
  have hh := lengths_head_zero b1.path (some L) 0 c.path c.lengths hlen
  refine ⟨fun k v hk hlt => hmem v (s1 k v hk hlt), s2, ?_, ?_, ?_, b1, hp, ?_, ?_⟩
  · refine sorted_of_adjacent _ ?_ ((mono_get _).mp hg.1)
    intro i x hx; exact hg.not_nan x (List.mem_of_getElem? hx)
  · rw [← hh]; cases c.lengths <;> rfl
  · exact calculateLength_finite_float b1.path L 0 zero_le_zero_float hfp1 hL c.path c.lengths hlen
  · intro v hv
    rcases s3 v hv with h1 | h1
    · exact Or.inl (hmem v h1)
    · exact Or.inr h1
  · rcases s4 with h1 | ⟨h1, h2, h3⟩
    · exact Or.inl h1
    · exact Or.inr ⟨h1, h2, fun v hv => hmem v (h2 ▸ hv), h3⟩

/-- the conclusion of the position theorems: `position_at(q)` is within `1/4` px per coordinate of a point of a segment
between two consecutive vertices of the ADJUSTED path (each a control-point position or the last vertex). -/
def NearAdjustedPolyline (pts : List (PathControlPoint Float32)) (c : Curve Float32 Float) (q : Float) : Prop :=
  ∃ (p : Pos Float32) (k : Nat) (p0 p1 : Pos Float32) (w : ℚ),
    positionAt c.path c.lengths q = .ok p ∧
    c.path[k]? = some p0 ∧ (c.path[k + 1]? = some p1 ∨ p1 = p0) ∧
    ((∃ cp ∈ pts, cp.pos = p0) ∨ c.path.getLast? = some p0) ∧
    ((∃ cp ∈ pts, cp.pos = p1) ∨ c.path.getLast? = some p1) ∧ 0 ≤ w ∧ w ≤ 1 ∧
    |toRat32 p.x - (toRat32 p0.x + w * (toRat32 p1.x - toRat32 p0.x))| < 1 / 4 ∧
    |toRat32 p.y - (toRat32 p0.y + w * (toRat32 p1.y - toRat32 p0.y))| < 1 / 4

omit [Trig Float32] in
theorem vertex_cp_or_last (pts : List (PathControlPoint Float32)) (path : List (Pos Float32))
    (h1 : ∀ k v, path[k]? = some v → k + 1 < path.length → ∃ cp ∈ pts, cp.pos = v)
    (k : Nat) (v : Pos Float32) (hk : path[k]? = some v) :
    (∃ cp ∈ pts, cp.pos = v) ∨ path.getLast? = some v := by
  by_cases hlt : k + 1 < path.length
  · exact Or.inl (h1 k v hk hlt)
  · right
    have hk' := (List.getElem?_eq_some_iff.mp hk).1
    rw [List.getLast?_eq_getElem?, ← hk]
    congr 1; omega

/-- **`linear_curve_len_position_err_float32_partial`**: control points all linear, finite, bounded by `2¹⁹`; a finite
requested length `L`; the curve `Curve::new` computes; any progress that is a number. PARTIAL in `hok` (the last vertex of
the adjusted path is finite and bounded by `2¹⁹`: `LenAdjOk`) and `hlen` (as many lengths as vertices: fails exactly in the
equal-tail outcome, `linear_curve_len_shape` (7)). Then `position_at(q)` is within `1/4` px per coordinate of a point of
the polyline through the adjusted path's vertices. -/
theorem linear_curve_len_position_err_float32_partial (fuel : Nat) (mode : GameMode)
    (pts : List (PathControlPoint Float32)) (L : Float)
    (b b' : CurveBuffers Float32 Float) (c : Curve Float32 Float) (q : Float)
    (hl : AllLinear pts) (hne : pts ≠ [])
    (hbd : ∀ cp ∈ pts, Bounded19 cp.pos) (hfp : ∀ cp ∈ pts, FinitePos cp.pos) (hL : FX.Finite64 L)
    (h : Curve.new fuel mode pts (some L) b = .ok (c, b'))
    (hok : LenAdjOk c.path) (hlen : c.path.length = c.lengths.length)
    (hq : Scalar.isNaN q = false) : NearAdjustedPolyline pts c q := by
  obtain ⟨h1, h2, hs, h0, hfin, _⟩ := linear_curve_len_shape fuel mode pts L b b' c hl hne hfp hL h
  have hv : ∀ p ∈ c.path, FinitePos p ∧ Bounded19 p := by
    intro p hp
    obtain ⟨k, hk⟩ := List.getElem?_of_mem hp
    rcases vertex_cp_or_last pts c.path h1 k p hk with ⟨cp, hcp, rfl⟩ | hlast
    · exact ⟨hfp cp hcp, hbd cp hcp⟩
    · exact hok.last_ok p hlast
  cases hb : c.lengths.getLast? with
  | none =>
    rw [List.getLast?_eq_none_iff] at hb
    rw [hb] at h0; cases h0
  | some bl =>
    obtain ⟨_, _, p, k, p0, p1, w, hpos, hk0, hk1, hw0, hw1, hx, hy⟩ :=
      positionAt_progress_err_float32_nofin c.path c.lengths q 0 bl hq hlen hs (fun p hp => (hv p hp).2)
        (fun p hp => (hv p hp).1) h0 hb zero_le_zero_float zero_le_zero_float (hfin bl (List.mem_of_getLast? hb))
    refine ⟨p, k, p0, p1, w, hpos, hk0, hk1, vertex_cp_or_last pts c.path h1 k p0 hk0, ?_, hw0, hw1, hx, hy⟩
    rcases hk1 with hk1 | hk1
    · exact vertex_cp_or_last pts c.path h1 (k + 1) p1 hk1
    · rw [hk1]; exact vertex_cp_or_last pts c.path h1 k p0 hk0

/-- **`LenAdjOk` reduced to the re-projected end point of the NATURAL path**: under the hypotheses of the shape theorem and
bounded control points, the last vertex of the adjusted path is fine as soon as, in the main (cut / extension) outcome, the
point `cutPoint 0 path L = reproject p_k p_{k+1} ((L − len_k) as f32)` (`C16.cutPoint_eq_reproject`) is finite and bounded by
`2¹⁹` — the statement the C16 end-point theorems are about. -/
theorem linear_curve_len_lenAdjOk (fuel : Nat) (mode : GameMode) (pts : List (PathControlPoint Float32)) (L : Float)
    (b b' : CurveBuffers Float32 Float) (c : Curve Float32 Float)
    (hl : AllLinear pts) (hne : pts ≠ [])
    (hbd : ∀ cp ∈ pts, Bounded19 cp.pos) (hfp : ∀ cp ∈ pts, FinitePos cp.pos) (hL : FX.Finite64 L)
    (h : Curve.new fuel mode pts (some L) b = .ok (c, b'))
    (hcut : ∀ b1, calculatePath fuel mode pts b = .ok (b1, (0 : Float)) → MainOutcome (0 : Float) b1.path L →
      FinitePos (cutPoint (0 : Float) b1.path L) ∧ Bounded19 (cutPoint (0 : Float) b1.path L)) :
    LenAdjOk c.path := by
  obtain ⟨_, _, _, _, _, b1, hp, h6, _⟩ := linear_curve_len_shape fuel mode pts L b b' c hl hne hfp hL h
  refine ⟨fun v hv => ?_⟩
  rcases h6 v hv with ⟨cp, hcp, rfl⟩ | ⟨rfl, hm⟩
  · exact ⟨hfp cp hcp, hbd cp hcp⟩
  · exact hcut b1 hp hm

/-- in the main outcome the two points the end point is re-projected from, `p_k = path[cutIdx − 1]` and
`p_{k+1} = path[cutIdx]`, are vertices of the natural path — control-point positions for all-linear control points, so the
hypotheses `Bounded19 pp`, `Bounded19 pe` of `C16.cut_end_point_near_segment_float` / `C16.ext_end_point_near_ray` hold. -/
theorem cutPoint_base_vertices (fuel : Nat) (mode : GameMode) (pts : List (PathControlPoint Float32)) (L : Float)
    (b b1 : CurveBuffers Float32 Float) (hl : AllLinear pts)
    (hp : calculatePath fuel mode pts b = .ok (b1, (0 : Float))) (hm : MainOutcome (0 : Float) b1.path L) :
    (∃ cp ∈ pts, cp.pos = b1.path.getD (cutIdx (0 : Float) b1.path L - 1) Pos.zero) ∧
    (∃ cp ∈ pts, cp.pos = b1.path.getD (cutIdx (0 : Float) b1.path L) Pos.zero) := by
  obtain ⟨hmem, _, _⟩ := linear_path_vertices fuel mode pts b b1 0 hl hp
  obtain ⟨_, _, h2, hk⟩ := hm
  have hne : b1.path ≠ [] := by intro h0; rw [h0] at h2; simp at h2
  have hle : cutIdx (0 : Float) b1.path L ≤ b1.path.length - 1 := by
    have := lastValid_le (natLens (0 : Float) b1.path).dropLast L
    rw [List.length_dropLast, natLens_length 0 b1.path hne] at this
    exact this
  have key : ∀ i, i < b1.path.length → b1.path.getD i Pos.zero ∈ b1.path := by
    intro i hi
    rw [List.getD_eq_getElem?_getD, List.getElem?_eq_getElem hi]
    exact List.getElem_mem hi
  exact ⟨hmem _ (key _ (by omega)), hmem _ (key _ (by omega))⟩

/-- **`linear_curve_len_position_err_float32_of_cutPoint`** — the position theorem with every hypothesis on the NATURAL
path / the control points: `hnt` excludes the equal-tail outcome (last two path points equal and `L >` natural length),
`hcut` is the C16 statement about the re-projected end point. -/
theorem linear_curve_len_position_err_float32_of_cutPoint (fuel : Nat) (mode : GameMode)
    (pts : List (PathControlPoint Float32)) (L : Float)
    (b b' : CurveBuffers Float32 Float) (c : Curve Float32 Float) (q : Float)
    (hl : AllLinear pts) (hne : pts ≠ [])
    (hbd : ∀ cp ∈ pts, Bounded19 cp.pos) (hfp : ∀ cp ∈ pts, FinitePos cp.pos) (hL : FX.Finite64 L)
    (h : Curve.new fuel mode pts (some L) b = .ok (c, b'))
    (hnt : ∀ b1, calculatePath fuel mode pts b = .ok (b1, (0 : Float)) → equalTail (0 : Float) b1.path L = false)
    (hcut : ∀ b1, calculatePath fuel mode pts b = .ok (b1, (0 : Float)) → MainOutcome (0 : Float) b1.path L →
      FinitePos (cutPoint (0 : Float) b1.path L) ∧ Bounded19 (cutPoint (0 : Float) b1.path L))
    (hq : Scalar.isNaN q = false) : NearAdjustedPolyline pts c q := by
  have hok := linear_curve_len_lenAdjOk fuel mode pts L b b' c hl hne hbd hfp hL h hcut
  obtain ⟨_, _, _, _, _, b1, hp, _, h7⟩ := linear_curve_len_shape fuel mode pts L b b' c hl hne hfp hL h
  refine linear_curve_len_position_err_float32_partial fuel mode pts L b b' c q hl hne hbd hfp hL h hok ?_ hq
  rcases h7 with h7 | ⟨h7, _⟩
  · exact h7
  · rw [hnt b1 hp] at h7; cases h7

/-- the full statement: no `LenAdjOk`; instead the decoder's range of the length field `0 < L ≤ 131072`, control points
bounded by `2¹⁷`, and the equal-tail outcome excluded by "the last two control points differ or `L ≤` natural length" —
stated through the natural path. NOT proved: the hypotheses of `C16.cut_end_point_near_segment_float` /
`C16.ext_end_point_near_ray` (no overflow in the re-projection, `2⁻¹⁰⁰ ≤ ℓ`, `len_k ≤ 2²⁷ ℓ`, parameter range of the
extension) are not derived from the control points. -/
def linear_curve_len_position_err_float32_statement : Prop :=
  ∀ (fuel : Nat) (mode : GameMode) (pts : List (PathControlPoint Float32)) (L : Float)
    (b b' : CurveBuffers Float32 Float) (c : Curve Float32 Float) (q : Float),
    AllLinear pts → pts ≠ [] →
    (∀ cp ∈ pts, |toRat32 cp.pos.x| ≤ 131072 ∧ |toRat32 cp.pos.y| ≤ 131072) → (∀ cp ∈ pts, FinitePos cp.pos) →
    FX.Finite64 L → Scalar.lt (0 : Float) L = true → Scalar.le L (131072 : Float) = true →
    Curve.new fuel mode pts (some L) b = .ok (c, b') →
    (∀ b1 opt, calculatePath fuel mode pts b = .ok (b1, opt) → equalTail opt b1.path L = false) →
    Scalar.isNaN q = false → NearAdjustedPolyline pts c q

end New

/-! ## non-vacuity: control points `(100,200) L, (107,224), (100,200)`, `L = 40` (cut) and `L = 60` (extension) -/

section Examples

attribute [local instance] C16.trigStub32
attribute [local instance] posDecEq32

/-- the end point of the cut at `L = 40`: `(107,224) + dir·15 = (102.80000305…, 209.60000610…)`. -/
def cut40 : Pos Float32 := ⟨Float32.ofBits 0x42CD999A, Float32.ofBits 0x4351999A⟩
/-- the end point of the extension to `L = 60`: `(107,224) + dir·35 = (97.19999695…, 190.39999390…)`, BEYOND the last
control point `(100,200)`. -/
def ext60 : Pos Float32 := ⟨Float32.ofBits 0x42C26666, Float32.ofBits 0x433E6666⟩

theorem demo_c60x : toRat32 (Float32.ofBits 0x42C26666) = 12740198 / 131072 := by
  rw [toRat32_bits (s := .positive) (m := 12740198) (e := -17) (hm := by decide) (by decide) rfl]; norm_num [sgnQ]
theorem demo_c60y : toRat32 (Float32.ofBits 0x433E6666) = 12478054 / 65536 := by
  rw [toRat32_bits (s := .positive) (m := 12478054) (e := -16) (hm := by decide) (by decide) rfl]; norm_num [sgnQ]

theorem new_eval (L : Float) (pts : List (PathControlPoint Float32)) (path : List (Pos Float32)) (lens : List Float)
    (key : ((Curve.new 10 GameMode.osu pts (some L) ({} : CurveBuffers Float32 Float)).toOption.map
      fun r => decide (r.1.path = path ∧ r.1.lengths = lens)) = some true) :
    ∃ c b', Curve.new 10 GameMode.osu pts (some L) ({} : CurveBuffers Float32 Float) = .ok (c, b') ∧
      c.path = path ∧ c.lengths = lens := by
  cases h : Curve.new 10 GameMode.osu pts (some L) ({} : CurveBuffers Float32 Float) with
  | error e => rw [h] at key; simp [Except.toOption] at key
  | ok r =>
    rw [h] at key
    obtain ⟨c, b'⟩ := r
    simp [Except.toOption] at key
    exact ⟨c, b', rfl, key.1, key.2⟩

/-- `Curve::new` with `L = 40` on the demo control points: the natural lengths are `[0, 25, 50]`; the cut keeps
`[0, 25]`, pushes `40`, and moves the last vertex to `cut40`, inside the second segment. -/
theorem linCps_curve40 : ∃ c b', Curve.new 10 GameMode.osu linCps (some 40) ({} : CurveBuffers Float32 Float) = .ok (c, b') ∧
    c.path = [demoPP, demoPE, cut40] ∧ c.lengths = [0, 25, 40] :=
  new_eval 40 linCps _ _ (by decide +kernel)

/-- `Curve::new` with `L = 60` on the demo control points: an EXTENSION, the last vertex moves to `ext60`, `10` px beyond
the last control point in the direction of the last segment; lengths `[0, 25, 60]`. -/
theorem linCps_curve60 : ∃ c b', Curve.new 10 GameMode.osu linCps (some 60) ({} : CurveBuffers Float32 Float) = .ok (c, b') ∧
    c.path = [demoPP, demoPE, ext60] ∧ c.lengths = [0, 25, 60] :=
  new_eval 60 linCps _ _ (by decide +kernel)

theorem lenAdjOk_cut40 : LenAdjOk [demoPP, demoPE, cut40] := by
  refine ⟨fun v hv => ?_⟩
  cases hv
  refine ⟨⟨by decide +kernel, by decide +kernel⟩, ?_, ?_⟩
  · show |toRat32 (Float32.ofBits 0x42CD999A)| ≤ _; rw [demo_ex]; norm_num
  · show |toRat32 (Float32.ofBits 0x4351999A)| ≤ _; rw [demo_ey]; norm_num

theorem lenAdjOk_ext60 : LenAdjOk [demoPP, demoPE, ext60] := by
  refine ⟨fun v hv => ?_⟩
  cases hv
  refine ⟨⟨by decide +kernel, by decide +kernel⟩, ?_, ?_⟩
  · show |toRat32 (Float32.ofBits 0x42C26666)| ≤ _; rw [demo_c60x]; norm_num
  · show |toRat32 (Float32.ofBits 0x433E6666)| ≤ _; rw [demo_c60y]; norm_num

/-- **every hypothesis of `linear_curve_len_position_err_float32_partial` holds for `L = 40` (cut), progress `0.9`.** -/
example : ∃ c b', Curve.new 10 GameMode.osu linCps (some 40) ({} : CurveBuffers Float32 Float) = .ok (c, b') ∧
    c.path = [demoPP, demoPE, cut40] ∧ NearAdjustedPolyline linCps c 0.9 := by
  obtain ⟨c, b', h, hp, hls⟩ := linCps_curve40
  refine ⟨c, b', h, hp, ?_⟩
  exact linear_curve_len_position_err_float32_partial 10 GameMode.osu linCps 40 {} b' c 0.9 linCps_allLinear
    (by simp [linCps]) linCps_bounded linCps_finite (by decide +kernel) h (by rw [hp]; exact lenAdjOk_cut40)
    (by rw [hp, hls]; rfl) (by decide +kernel)

/-- **every hypothesis of `linear_curve_len_position_err_float32_partial` holds for `L = 60` (extension), progress `0.9`.** -/
example : ∃ c b', Curve.new 10 GameMode.osu linCps (some 60) ({} : CurveBuffers Float32 Float) = .ok (c, b') ∧
    c.path = [demoPP, demoPE, ext60] ∧ NearAdjustedPolyline linCps c 0.9 := by
  obtain ⟨c, b', h, hp, hls⟩ := linCps_curve60
  refine ⟨c, b', h, hp, ?_⟩
  exact linear_curve_len_position_err_float32_partial 10 GameMode.osu linCps 60 {} b' c 0.9 linCps_allLinear
    (by simp [linCps]) linCps_bounded linCps_finite (by decide +kernel) h (by rw [hp]; exact lenAdjOk_ext60)
    (by rw [hp, hls]; rfl) (by decide +kernel)

/-- the extension end point is NOT a control-point position and lies outside the bounding box of the control points
(`x < 100`): a bound on the control points alone does not bound the curve — the requested length enters. -/
example : toRat32 ext60.x < 100 ∧ toRat32 ext60.y < 200 := by
  constructor
  · show toRat32 (Float32.ofBits 0x42C26666) < _; rw [demo_c60x]; norm_num
  · show toRat32 (Float32.ofBits 0x433E6666) < _; rw [demo_c60y]; norm_num

/-- control points `(100,200) L, (107,224), (107,224)`: all linear, the last two equal. -/
def tailCps : List (PathControlPoint Float32) :=
  [⟨demoPP, some PathType.linear⟩, ⟨demoPE, none⟩, ⟨demoPE, none⟩]

theorem tailCps_allLinear : AllLinear tailCps := by
  intro cp hcp t ht
  simp only [tailCps, List.mem_cons, List.not_mem_nil, or_false] at hcp
  rcases hcp with rfl | rfl | rfl
  · cases ht; rfl
  · cases ht
  · cases ht

/-- **FINDING — "`c.path.length = c.lengths.length`" is FALSE for linear control points with a requested length**: the
control points `(100,200) L, (107,224), (107,224)` (all linear, finite, bounded) with `L = 60 >` natural length `25` give the
path `(100,200), (107,224), (107,224)` — THREE vertices — and the lengths `[0, 25, 25, 25]` — FOUR entries: the equal-tail
exception of `calculate_length` (`lengths.push(calculated_len)` without a path point). The clause therefore appears in
`linear_curve_len_shape` as a disjunction and in the position theorem as the hypothesis `hlen`. -/
theorem linear_len_length_mismatch :
    ∃ c b', Curve.new 10 GameMode.osu tailCps (some 60) ({} : CurveBuffers Float32 Float) = .ok (c, b') ∧
      AllLinear tailCps ∧ c.path.length = 3 ∧ c.lengths.length = 4 ∧ ¬ c.path.length = c.lengths.length := by
  obtain ⟨c, b', h, hp, hls⟩ := new_eval 60 tailCps [demoPP, demoPE, demoPE] [0, 25, 25, 25] (by decide +kernel)
  exact ⟨c, b', h, tailCps_allLinear, by rw [hp]; rfl, by rw [hls]; rfl, by rw [hp, hls]; decide⟩

end Examples

end FloatSec

end Rosu.C19
