/-
  Props/C01Full.lean — the module audited for C01: Props/C01.lean together with Props/C01Ieee.lean and
  Props/C01IeeeWitness.lean (the IEEE instantiation of the encoder's no-panic condition) and Props/C01IeeeSurplus.lean
  (the Catmull hypothesis weakened to one covered debt; two-debt counterexample). All in namespace Rosu.C01.
-/
import RosuModel.Props.C01
import RosuModel.Props.C01Ieee
import RosuModel.Props.C01IeeeWitness
import RosuModel.Props.C01IeeeFuel
import RosuModel.Props.C01IeeeSurplus
import RosuModel.Props.C01IeeeSurplusLoop
