/-
  Props/C04DecodedTiming.lean — C04 / C02, the second LIST block: the control points an encoder run COLLECTS from a
  DECODED map are representable (`RtTiming.RepTimingMap`), as far as that is true; every byte string, every `Scalar`.

  1. STORED points (`decoded_stored_points_rep`). Invariant `storedPred` of the decoder state (kept by every
     `[TimingPoints]` line, accepted or rejected, in ANY mode — the mode may change between lines, finding F15 —, by every
     other parser, by the framing driver for every byte string, by the final flush): every stored time is within the parse
     limit; signature numerators in `1 … 2³¹−1`; beat lengths within the parse limit and in `[6, 60000]`; slider velocities in
     `[0.1, 10]`; scroll speeds `= 1` or in `[0.01, 10]`; custom banks within ±(2³¹−1), volumes in `0 … 100`. Named hypotheses:
       * `C12.NanLaws`, `C12.TpClampLaws` — the NaN / clamp facts of C12 (THEOREMS for `Float`, `Float32`:
         `C12.nanLaws_float`, `C12.tpClampLaws_float`);
       * `TimingConsts` — closed facts about the decoder's own constants: `ofInt (−(2³¹−1)) = −ofInt (2³¹−1)`, `6` and `60000`
         within the parse limit (toy instance by `decide`);
       * `DecodedInv.LimitRep RF` — the codec represents every value within the parse limit (theorem for the IEEE codec:
         `limitRep_float`);
       * `SvLaws` — the ARITHMETIC law: for `v` in `[0.1, 10]` (resp. `[0.01, 10]`, and `v = 1`) the inherited beat length
         `−100 / v` the encoder writes is representable and within the beat-length limits (toy instance `ZC.svLaws`; a
         THEOREM for IEEE doubles: `svLaws_float`, Props/C04DecodedTimingIeee.lean, from the monotonicity of IEEE division in a
         positive denominator, Lemmas/FloatDivAnti.lean).
  2. COLLECTED sample points (`collectSamples`): every point of the collected list is a stored sample point or
     `collect_sample(samples, time)` of one object, where `samples` is the object's own list or one of a slider's node lists
     (`collected_point_origin`). Its custom bank is the maximum over those samples, within ±(2³¹−1) by `DecodedObj.ObjOk` and
     the new invariant `NodeInv` (node samples: through `read_custom_sample_banks` per node, `convert_sound_type`, the framing
     driver, sort / break processing / the finaliser's node-sample defaults; no law). Its TIME is the object's start time
     (circle, hold head, mania slider head), `start + duration` (spinner, hold: within the limit under `EndTimeLaws`, the
     `Stop` half of `DurLaws`), or — for sliders — `start + spans·dist/velocity` and the node times of `slider_events`:
     those are the residual `SliderTimesInLimit` / `CollectedTimesInLimit` ("every collected time is finite and within the
     parse limit"; the decoder rejects the line otherwise — DESIGN 5.4, "sample points collected at non-finite computed times").
  3. Sortedness: `RepTimingMap` has NO sortedness / distinctness clause — each line is accepted in ANY decoder state — so
     finding F22 (stored timing points within EPSILON) does not enter acceptance; it concerns the COUNT of re-decoded timing
     points (`C02.roundtrip_rep_counts`). What holds unconditionally is `decoded_collected_sorted`: the collected control
     points are strictly sorted by `total_cmp` key (C13), all four lists.
  4. `decoded_repTimingMap_partial`, `timing_lines_accepted_decoded`, `timing_block_shape_decoded`,
     `encoded_file_accepted_decoded` (no `Rep*` hypothesis left: codec / arithmetic laws, F16 `NoDoubleSlash`, the object
     residuals F17 / F20 / F21, and `CollectedTimesInLimit`).
-/
import RosuModel.Props.C04DecodedObjects
import RosuModel.Props.C12Exact
import RosuModel.Lemmas.DecodedNodeInv
set_option linter.unusedSectionVars false
set_option linter.unusedSimpArgs false
namespace Rosu.C04
open Rosu Scalar Encode EncodeLines RtTiming DecodedObj

/-! ## 1. the stored control points of a decoded map -/

section Stored
variable {F P : Type} [Scalar F] [Scalar P]

/-- closed facts about the constants of `parse_timing_points` / `TimingPoint::new` (no variable: decidable on a concrete
scalar). -/
structure TimingConsts (F : Type) [Scalar F] : Prop where
  negMax : (Scalar.ofInt (-i32Max) : F) = -(maxParseValue : F)
  six : InLimit (6 : F)
  sixty : InLimit (60000 : F)

/-- **the arithmetic law of the inherited line**: the beat length `−100 / v` written for a slider velocity (scroll speed)
inside its clamp range is representable and within the beat-length limits. -/
structure SvLaws (F : Type) [Scalar F] (R : F → Prop) : Prop where
  one : SvOk R (1 : F)
  sv : ∀ v : F, C12.Between (0.1 : F) (10 : F) v → SvOk R v
  scroll : ∀ v : F, C12.Between (0.01 : F) (10 : F) v → SvOk R v

/-- what every stored (and pending) control point of the decoder satisfies, in any mode. -/
def storedPred : C12.PointPred F :=
  { t := fun p => InLimit p.time ∧ (1 ≤ p.timeSignature.numerator ∧ (p.timeSignature.numerator : Int) ≤ i32Max) ∧
      InLimit p.beatLen ∧ C12.Between (6 : F) (60000 : F) p.beatLen,
    d := fun p => InLimit p.time ∧ C12.Between (0.1 : F) (10 : F) p.sliderVelocity,
    e := fun p => InLimit p.time ∧ (p.scrollSpeed = 1 ∨ C12.Between (0.01 : F) (10 : F) p.scrollSpeed),
    s := fun p => InLimit p.time ∧ (-i32Max ≤ p.customSampleBank ∧ p.customSampleBank ≤ i32Max) ∧
      0 ≤ p.sampleVolume ∧ p.sampleVolume ≤ 100 }

theorem clamp_cases (x lo hi : F) :
    Scalar.clamp x lo hi = x ∨ Scalar.clamp x lo hi = lo ∨ Scalar.clamp x lo hi = hi := by
  unfold Scalar.clamp
  simp only []
  by_cases h1 : Scalar.lt x lo = true
  · simp only [h1, if_true]
    by_cases h2 : Scalar.lt hi lo = true
    · simp [h2]
    · simp [h2]
  · simp only [h1, Bool.false_eq_true, if_false]
    by_cases h2 : Scalar.lt hi x = true
    · simp [h2]
    · simp [h2]

/-- the beat-length limits are the parse limits (given `ofInt (−M) = −ofInt M`). -/
theorem beatLimit_iff_inLimit (K : TimingConsts F) (b : F) (hn : Scalar.isNaN b = false) : BeatLimit b ↔ InLimit b := by
  unfold BeatLimit InLimit
  rw [K.negMax]
  unfold maxParseValue
  exact ⟨fun h => ⟨h.1, h.2, hn⟩, fun h => ⟨h.1, h.2.1⟩⟩

/-- **the four points of an accepted line satisfy `storedPred`, whatever the mode.** -/
theorem accepted_line_stored (N : C12.NanLaws F) (C : C12.TpClampLaws F) (K : TimingConsts F)
    (g : GeneralState F P) (mode : GameMode) (s : Str) (l : TpLine F) (h : parseTpFields g s = .ok l) :
    C12.LineAll storedPred mode l := by
  have hlim := accepted_line_limits g mode s l h
  obtain ⟨ht, hb, hb1, hb2, hs⟩ := C12.accepted_line_numbers h
  have hord := C12.line_ordinary N C mode l ht.2.2 hb hs
  refine ⟨fun tc => ⟨(hlim.t tc).1, (hlim.t tc).2, ?_, (hord.t tc).2⟩, ⟨hlim.d, hord.d.2⟩, ⟨hlim.e, ?_⟩,
    ⟨hlim.s.1, hlim.s.2, hord.s.2⟩⟩
  · show InLimit (Scalar.clamp l.beatLen (6 : F) (60000 : F))
    rcases clamp_cases l.beatLen (6 : F) (60000 : F) with e | e | e
    · rw [e]; exact (beatLimit_iff_inLimit K _ (hb tc)).mp ⟨hb1, hb2⟩
    · rw [e]; exact K.six
    · rw [e]; exact K.sixty
  · have he := hord.e.2.2
    split at he
    · exact Or.inr he
    · exact Or.inl he

theorem storedInv_parseTimingPoints (N : C12.NanLaws F) (C : C12.TpClampLaws F) (K : TimingConsts F)
    {st : TimingPointsState F P} (h : C12.Inv storedPred st) (line : Str) :
    C12.Inv storedPred (parseTimingPoints st line).2 := by
  unfold parseTimingPoints
  cases hp : parseTpFields st.general line with
  | error e => exact h
  | ok l => exact C12.inv_applyTpLine h l (accepted_line_stored N C K st.general _ line l hp)

variable [Cvt P F]

theorem storedInv_beatmap_step (N : C12.NanLaws F) (C : C12.TpClampLaws F) (K : TimingConsts F)
    (s : Section) (st : BeatmapState F P) (l : Str) (h : C12.Inv storedPred st.hitObjects.timingPoints) :
    C12.Inv storedPred (BeatmapState.step s st l).hitObjects.timingPoints := by
  cases s
  case general => exact C12.inv_parseGeneral h l
  case timingPoints => exact storedInv_parseTimingPoints N C K h l
  all_goals exact h

variable [Trig F] [Trig P]

/-- the control points of a finished map are the decoder's, after the final flush. -/
theorem finish_controlPoints (st : BeatmapState F P) (m : Beatmap F P) (h : st.finish = .ok m) :
    m.controlPoints = st.hitObjects.timingPoints.finish.2 := by
  unfold BeatmapState.finish at h
  cases hho : st.hitObjects.finish with
  | error e => simp [hho, bind, Except.bind] at h
  | ok ho =>
    simp only [hho, bind, Except.bind, pure, Except.pure] at h
    injection h with h
    subst h
    unfold HitObjectsState.finish at hho
    simp only [bind, Except.bind, pure, Except.pure] at hho
    split at hho
    · cases hho
    · injection hho with hho
      subst hho
      rfl

/-- **decoded_stored_points_inv** — whatever lines are decoded (any interleaving of sections, accepted or rejected lines,
mode changes), the control points of the resulting map are strictly sorted and satisfy `storedPred`. -/
theorem decoded_stored_points_inv (N : C12.NanLaws F) (C : C12.TpClampLaws F) (K : TimingConsts F)
    (x : List Str) (m : Beatmap F P)
    (h : (frame (beatmapDecoder : LineDecoder (BeatmapState F P)) x).finish = .ok m) :
    C13.Sorted m.controlPoints ∧ C12.CpAll storedPred m.controlPoints := by
  have hinv := frame_invariant (beatmapDecoder : LineDecoder (BeatmapState F P))
    (fun st => C12.Inv storedPred st.hitObjects.timingPoints) (fun _ => C12.inv_create storedPred)
    (fun s st l hI => storedInv_beatmap_step N C K s st l hI) x
  rw [finish_controlPoints _ m h]
  exact C12.inv_finish hinv

/-- the per-point clauses of `RepTimingMap` on the map's OWN control points, with the clamp ranges and the sortedness a
decoded map has on top. -/
structure StoredPointsRep (R : F → Prop) (m : Beatmap F P) : Prop where
  sorted : C13.Sorted m.controlPoints
  sig : ∀ t ∈ m.controlPoints.timingPoints, 1 ≤ t.timeSignature.numerator ∧ (t.timeSignature.numerator : Int) ≤ i32Max
  sv : ∀ mode : GameMode, ∀ v ∈ (1 : F) :: svSource mode m.controlPoints, SvOk R v
  timing : ∀ t ∈ m.controlPoints.timingPoints,
    R t.time ∧ InLimit t.time ∧ R t.beatLen ∧ BeatLimit t.beatLen ∧ Scalar.isNaN t.beatLen = false
  difficulty : ∀ p ∈ m.controlPoints.difficultyPoints, R p.time ∧ InLimit p.time
  effect : ∀ p ∈ m.controlPoints.effectPoints, R p.time ∧ InLimit p.time
  samples : ∀ s ∈ m.controlPoints.samplePoints, R s.time ∧ InLimit s.time ∧ -i32Max ≤ s.customSampleBank ∧
    s.customSampleBank ≤ i32Max ∧ 0 ≤ s.sampleVolume ∧ s.sampleVolume ≤ 100
  beatClamp : ∀ t ∈ m.controlPoints.timingPoints, C12.Between (6 : F) (60000 : F) t.beatLen
  svClamp : ∀ p ∈ m.controlPoints.difficultyPoints, C12.Between (0.1 : F) (10 : F) p.sliderVelocity
  scrollClamp : ∀ p ∈ m.controlPoints.effectPoints, p.scrollSpeed = 1 ∨ C12.Between (0.01 : F) (10 : F) p.scrollSpeed

/-- **decoded_stored_points_rep** — every control point STORED in a decoded map's four lists satisfies the per-point
clauses of `RepTimingMap`, for every byte string: times parsed within the limit, hence representable (`LimitRep`); beat
lengths within the limit, in `[6, 60000]`, not NaN, representable; signature numerators `1 … 2³¹−1`; velocities / scroll
speeds inside their clamps, hence `−100 / v` representable and within the beat-length limits (`SvLaws` — the one
arithmetic law); custom banks within ±(2³¹−1); volumes `0 … 100`. -/
theorem decoded_stored_points_rep {R : F → Prop} (N : C12.NanLaws F) (C : C12.TpClampLaws F) (K : TimingConsts F)
    (LR : DecodedInv.LimitRep R) (SV : SvLaws F R) (bs : List UInt8) (st : BeatmapState F P) (m : Beatmap F P)
    (h1 : decodeBytes beatmapDecoder bs = .ok st) (h2 : st.finish = .ok m) : StoredPointsRep R m := by
  obtain ⟨ls, hst, _⟩ := DecodedInv.decodeBytes_lines _ bs st h1
  obtain ⟨hs, hall⟩ := decoded_stored_points_inv N C K ls m (by rw [← hst]; exact h2)
  refine ⟨hs, fun t ht => (hall.t t ht).2.1, ?_, ?_, fun p hp => ⟨LR _ (hall.d p hp).1, (hall.d p hp).1⟩,
    fun p hp => ⟨LR _ (hall.e p hp).1, (hall.e p hp).1⟩, ?_, fun t ht => (hall.t t ht).2.2.2,
    fun p hp => (hall.d p hp).2, fun p hp => (hall.e p hp).2⟩
  · intro mode v hv
    rcases List.mem_cons.mp hv with rfl | hv
    · exact SV.one
    · have hd : ∀ v ∈ m.controlPoints.difficultyPoints.map (·.sliderVelocity), SvOk R v := by
        intro v hv
        obtain ⟨p, hp, rfl⟩ := List.mem_map.mp hv
        exact SV.sv _ (hall.d p hp).2
      have he : ∀ v ∈ m.controlPoints.effectPoints.map (·.scrollSpeed), SvOk R v := by
        intro v hv
        obtain ⟨p, hp, rfl⟩ := List.mem_map.mp hv
        rcases (hall.e p hp).2 with e | e
        · rw [e]; exact SV.one
        · exact SV.scroll _ e
      cases mode
      · exact hd v hv
      · exact he v hv
      · exact hd v hv
      · exact he v hv
  · intro t ht
    obtain ⟨a, _, b, c⟩ := hall.t t ht
    exact ⟨LR _ a, a, LR _ b, (beatLimit_iff_inLimit K _ b.2.2).mpr b, b.2.2⟩
  · intro s hs
    obtain ⟨a, b, c⟩ := hall.s s hs
    exact ⟨LR _ a, a, b.1, b.2, c.1, c.2⟩

end Stored

/-! ## 2. the collected sample points -/

section Collected
variable {F P : Type} [Scalar F] [Scalar P] [Cvt P F] [Trig F] [Trig P]

theorem foldl_custom_le (B : Int) (rest : List HitSampleInfo) (init : Int) (hi : init ≤ B) (hr : CustomLe B rest) :
    rest.foldl (fun acc x => if x.customSampleBank > acc then x.customSampleBank else acc) init ≤ B := by
  induction rest generalizing init with
  | nil => exact hi
  | cons x xs ih =>
    rw [List.foldl_cons]
    apply ih
    · split
      · exact hr x (by simp)
      · exact hi
    · exact fun y hy => hr y (by simp [hy])

/-- **`collect_sample`**: the point sits at the given time; its custom bank is the maximum over the samples. -/
theorem collectSample_mem {samples : List HitSampleInfo} {time : F} {p : SamplePoint F}
    (h : p ∈ collectSample samples time) : p.time = time ∧ ∀ B, CustomLe B samples → p.customSampleBank ≤ B := by
  cases samples with
  | nil => cases h
  | cons s rest =>
    simp only [collectSample, List.mem_singleton] at h
    subst h
    exact ⟨rfl, fun B hB => foldl_custom_le B rest _ (hB s (by simp)) (fun y hy => hB y (by simp [hy]))⟩

/-- where a collected point comes from: `collect_sample` of the object's own samples or of one of a slider's node lists. -/
def CollectedFrom (h : HitObject F P) (p : SamplePoint F) : Prop :=
  ∃ (samples : List HitSampleInfo) (time : F), p ∈ collectSample samples time ∧
    (samples = h.samples ∨ ∃ s, h.kind = .slider s ∧ samples ∈ s.nodeSamples)

theorem getD_own_or_node {h : HitObject F P} {s : HitObjectSlider F P} (hk : h.kind = .slider s)
    (o : Option (List HitSampleInfo)) (ho : ∀ x, o = some x → x ∈ s.nodeSamples) :
    o.getD h.samples = h.samples ∨ ∃ s', h.kind = .slider s' ∧ o.getD h.samples ∈ s'.nodeSamples := by
  cases o with
  | none => exact Or.inl rfl
  | some x => exact Or.inr ⟨s, hk, ho x rfl⟩

theorem osuSliderSamples_origin (m : Beatmap F P) (h : HitObject F P) (s : HitObjectSlider F P) (hk : h.kind = .slider s)
    (dist duration : F) (buf : List (SliderEvents.SliderEvent F)) (r : List (SamplePoint F) × List (SliderEvents.SliderEvent F))
    (hr : osuSliderSamples m h s dist duration buf = .ok r) : ∀ p ∈ r.1, CollectedFrom h p := by
  unfold osuSliderSamples at hr
  simp only [bind, Except.bind, pure, Except.pure] at hr
  split at hr
  · cases hr
  · rename_i v _
    obtain ⟨evs, buf'⟩ := v
    simp only [Except.ok.injEq] at hr
    subst hr
    intro p hp
    simp only [List.mem_flatMap] at hp
    obtain ⟨ev, _, hp⟩ := hp
    cases hkd : ev.kind <;> simp only [hkd] at hp
    · exact ⟨_, _, hp, getD_own_or_node hk _ (fun x hx => List.mem_of_mem_head? hx)⟩
    · cases hp
    · exact ⟨_, _, hp, getD_own_or_node hk _ (fun x hx => List.mem_of_getElem? hx)⟩
    · cases hp
    · exact ⟨_, _, hp, getD_own_or_node hk _ (fun x hx => List.mem_of_getElem? hx)⟩

theorem catchSliderSamples_origin (m : Beatmap F P) (h : HitObject F P) (s : HitObjectSlider F P) (hk : h.kind = .slider s)
    (dist duration : F) (buf : List (SliderEvents.SliderEvent F)) (r : List (SamplePoint F) × List (SliderEvents.SliderEvent F))
    (hr : catchSliderSamples m h s dist duration buf = .ok r) : ∀ p ∈ r.1, CollectedFrom h p := by
  unfold catchSliderSamples at hr
  simp only [bind, Except.bind, pure, Except.pure] at hr
  split at hr
  · cases hr
  · rename_i v _
    obtain ⟨evs, buf'⟩ := v
    simp only [Except.ok.injEq] at hr
    subst hr
    intro p hp
    simp only [List.mem_flatMap] at hp
    obtain ⟨⟨ev, i⟩, _, hp⟩ := hp
    exact ⟨_, _, hp, getD_own_or_node hk _ (fun x hx => List.mem_of_getElem? hx)⟩

/-- **collected_point_origin (one object)**: every point `collect_samples` takes from an object is `collect_sample` of its
own samples or of one of its node lists. -/
theorem collectObject_origin (m : Beatmap F P) (h : HitObject F P) (buf : List (SliderEvents.SliderEvent F))
    (r : List (SamplePoint F) × List (SliderEvents.SliderEvent F)) (hr : collectObject m h buf = .ok r) :
    ∀ p ∈ r.1, CollectedFrom h p := by
  have own : ∀ (t : F), ∀ p ∈ collectSample h.samples t, CollectedFrom h p :=
    fun t p hp => ⟨_, t, hp, Or.inl rfl⟩
  unfold collectObject at hr
  cases hk : h.kind with
  | circle c =>
    simp only [hk, pure, Except.pure, Except.ok.injEq] at hr
    subst hr
    exact own _
  | spinner sp =>
    simp only [hk, pure, Except.pure, Except.ok.injEq] at hr
    subst hr
    exact own _
  | hold ho =>
    simp only [hk, pure, Except.pure, Except.ok.injEq] at hr
    subst hr
    intro p hp
    rcases List.mem_append.mp hp with hp | hp
    · exact own _ p hp
    · exact own _ p hp
  | slider s =>
    simp only [hk, bind, Except.bind] at hr
    split at hr
    · cases hr
    · rename_i dist _
      cases hmode : m.general.mode <;> simp only [hmode, bind, Except.bind, pure, Except.pure] at hr
      · split at hr
        · cases hr
        · rename_i v hv
          simp only [Except.ok.injEq] at hr
          subst hr
          intro p hp
          rcases List.mem_append.mp hp with hp | hp
          · exact own _ p hp
          · exact osuSliderSamples_origin m h s hk _ _ _ v hv p hp
      · simp only [Except.ok.injEq] at hr
        subst hr
        exact own _
      · split at hr
        · cases hr
        · rename_i v hv
          simp only [Except.ok.injEq] at hr
          subst hr
          intro p hp
          rcases List.mem_append.mp hp with hp | hp
          · exact own _ p hp
          · exact catchSliderSamples_origin m h s hk _ _ _ v hv p hp
      · simp only [Except.ok.injEq] at hr
        subst hr
        intro p hp
        rcases List.mem_append.mp hp with hp | hp
        · exact own _ p hp
        · exact own _ p hp

/-- every point of `collect_all` was taken from one of the objects, by one `collectObject` call. -/
theorem collectAll_mem (m : Beatmap F P) (hs : List (HitObject F P)) (buf : List (SliderEvents.SliderEvent F))
    (pts : List (SamplePoint F)) (h : collectAll m hs buf = .ok pts) :
    ∀ p ∈ pts, ∃ o ∈ hs, ∃ b r, collectObject m o b = .ok r ∧ p ∈ r.1 := by
  induction hs generalizing buf pts with
  | nil =>
    simp only [collectAll, pure, Except.pure, Except.ok.injEq] at h
    subst h
    intro p hp; cases hp
  | cons o rest ih =>
    simp only [collectAll, bind, Except.bind] at h
    cases ho : collectObject m o buf with
    | error e => simp [ho] at h
    | ok r =>
      obtain ⟨a, buf'⟩ := r
      simp only [ho] at h
      cases hr : collectAll m rest buf' with
      | error e => simp [hr] at h
      | ok b =>
        simp only [hr, pure, Except.pure, Except.ok.injEq] at h
        subst h
        intro p hp
        rcases List.mem_append.mp hp with hp | hp
        · exact ⟨o, by simp, buf, (a, buf'), ho, hp⟩
        · obtain ⟨o', ho', x⟩ := ih buf' b hr p hp
          exact ⟨o', by simp [ho'], x⟩

/-! ### what `add` keeps -/

theorem mem_addSample {cp : ControlPoints F} {p s : SamplePoint F} (h : s ∈ (cp.addSample p).samplePoints) :
    s = p ∨ s ∈ cp.samplePoints := by
  unfold ControlPoints.addSample at h
  split at h
  · exact Or.inr h
  · exact C13.mem_insertOrReplace h

theorem mem_addCollected {cp : ControlPoints F} {l : List (SamplePoint F)} {s : SamplePoint F}
    (h : s ∈ (addCollected cp l).samplePoints) : s ∈ cp.samplePoints ∨ s ∈ l := by
  cases l with
  | nil => exact Or.inl h
  | cons first rest =>
    have gen : ∀ (rest : List (SamplePoint F)) (acc : ControlPoints F × SamplePoint F),
        s ∈ ((rest.foldl (fun (acc : ControlPoints F × SamplePoint F) s =>
          if !s.isRedundant acc.2 then (acc.1.addSample s, s) else acc) acc).1).samplePoints →
        s ∈ acc.1.samplePoints ∨ s ∈ rest := by
      intro rest
      induction rest with
      | nil => intro acc h; exact Or.inl h
      | cons x xs ih =>
        intro acc h
        rw [List.foldl_cons] at h
        rcases ih _ h with h | h
        · split at h
          · rcases mem_addSample h with rfl | h
            · exact Or.inr (by simp)
            · exact Or.inl h
          · exact Or.inl h
        · exact Or.inr (by simp [h])
    simp only [addCollected] at h
    rcases gen rest _ h with h | h
    · rcases mem_addSample h with rfl | h
      · exact Or.inr (by simp)
      · exact Or.inl h
    · exact Or.inr (by simp [h])

/-- **collected_point_origin**: a sample point of the collection the encoder writes is a sample point of the map or was
collected from one of its objects. -/
theorem collected_point_origin (m : Beatmap F P) (cp : ControlPoints F) (hc : collectSamples m = .ok cp) :
    ∀ s ∈ cp.samplePoints, s ∈ m.controlPoints.samplePoints ∨
      ∃ pts, collectAll m m.hitObjects [] = .ok pts ∧ s ∈ pts ∧
        ∃ o ∈ m.hitObjects, CollectedFrom o s ∧ ∃ b r, collectObject m o b = .ok r ∧ s ∈ r.1 := by
  unfold collectSamples at hc
  cases hca : collectAll m m.hitObjects [] with
  | error e => simp [hca, bind, Except.bind] at hc
  | ok pts =>
    simp only [hca, bind, Except.bind, pure, Except.pure, Except.ok.injEq] at hc
    subst hc
    intro s hs
    rcases mem_addCollected hs with hs | hs
    · exact Or.inl hs
    · rw [List.mem_mergeSort] at hs
      obtain ⟨o, ho, b, r, hr, hp⟩ := collectAll_mem m _ _ pts hca s hs
      exact Or.inr ⟨pts, rfl, hs, o, ho, collectObject_origin m o b r hr s hp, b, r, hr, hp⟩

/-! ### the residuals on collected times -/

/-- **the residual behind "sample points collected at non-finite computed times"**: every time at which
`collect_samples` collects a point is a number within the parse limit ±(2³¹−1). (Otherwise the written line is rejected by
`parse_timing_points`: `Number.Overflow` / `InvalidFloat`.) -/
def CollectedTimesInLimit (m : Beatmap F P) : Prop :=
  ∀ pts, collectAll m m.hitObjects [] = .ok pts → ∀ p ∈ pts, InLimit p.time

/-- the same restricted to SLIDERS (the only objects whose collected times are computed from the curve: the end time
`start + spans · dist / velocity` and the node times of `slider_events` / `juicestream_events`). -/
def SliderTimesInLimit (m : Beatmap F P) : Prop :=
  ∀ h ∈ m.hitObjects, ∀ s, h.kind = .slider s → ∀ b r, collectObject m h b = .ok r → ∀ p ∈ r.1, InLimit p.time

/-- **arithmetic laws** for the end time of spinners and holds (the `Stop` halves of `DurLaws`, without representability). -/
structure EndTimeLaws (F : Type) [Scalar F] : Prop where
  spinner : ∀ t d : F, InLimit t → InLimit d → InLimit (t + Scalar.max (d - t) 0)
  hold : ∀ t e : F, InLimit t → InLimit e → InLimit (t + (Scalar.max t e - t))

theorem endTimeLaws_of_durLaws {RF : F → Prop} (D : DurLaws F RF) : EndTimeLaws F :=
  ⟨fun t d ht hd => (D.spinnerStop t d ht hd).2, fun t e ht he => (D.holdStop t e ht he).2⟩

/-- the collected times of a decoded circle / spinner / hold are within the limit (`EndTimeLaws`). -/
theorem collectObject_time_nonslider (E : EndTimeLaws F) (m : Beatmap F P) (h : HitObject F P) (hst : C14.StoredObj h)
    (hns : ∀ s, h.kind ≠ .slider s) (b : List (SliderEvents.SliderEvent F))
    (r : List (SamplePoint F) × List (SliderEvents.SliderEvent F)) (hr : collectObject m h b = .ok r) :
    ∀ p ∈ r.1, InLimit p.time := by
  obtain ⟨ht, hk⟩ := hst
  unfold collectObject at hr
  cases hkd : h.kind with
  | slider s => exact absurd hkd (hns s)
  | circle c =>
    simp only [hkd, pure, Except.pure, Except.ok.injEq] at hr
    subst hr
    intro p hp
    rw [(collectSample_mem hp).1]; exact ht
  | spinner sp =>
    simp only [hkd, pure, Except.pure, Except.ok.injEq] at hr
    subst hr
    rw [hkd] at hk
    obtain ⟨_, d, hd, hdur⟩ := hk
    intro p hp
    rw [(collectSample_mem hp).1, hdur]; exact E.spinner _ _ ht hd
  | hold ho =>
    simp only [hkd, pure, Except.pure, Except.ok.injEq] at hr
    subst hr
    rw [hkd] at hk
    obtain ⟨_, e, he, hdur⟩ := hk
    intro p hp
    rcases List.mem_append.mp hp with hp | hp
    · rw [(collectSample_mem hp).1, hdur]; exact E.hold _ _ ht he
    · rw [(collectSample_mem hp).1]; exact ht

/-- **only sliders contribute to the residual**: for a decoded map, under `EndTimeLaws`, the collected times are within the
limit as soon as those collected from sliders are. -/
theorem collectedTimes_of_sliders (E : EndTimeLaws F) (bs : List UInt8) (st : BeatmapState F P) (m : Beatmap F P)
    (h1 : decodeBytes beatmapDecoder bs = .ok st) (h2 : st.finish = .ok m) (hs : SliderTimesInLimit m) :
    CollectedTimesInLimit m := by
  intro pts hp p hpm
  obtain ⟨o, ho, b, r, hr, hpr⟩ := collectAll_mem m _ _ pts hp p hpm
  by_cases hsl : ∃ s, o.kind = .slider s
  · obtain ⟨s, hk⟩ := hsl
    exact hs o ho s hk b r hr p hpr
  · exact collectObject_time_nonslider E m o (C14.decoded_stored bs st m h1 h2 o ho)
      (fun s hk => hsl ⟨s, hk⟩) b r hr p hpr

/-- the end time `start + spans · dist / velocity` the encoder computes for every slider is within the parse limit — the
residual "a slider whose duration is not finite (or too long)" in its plainest form. -/
def SliderEndInLimit (m : Beatmap F P) : Prop :=
  ∀ h ∈ m.hitObjects, ∀ s, h.kind = .slider s → ∀ dist, curveDist s = .ok dist →
    InLimit (h.startTime + (Scalar.ofInt (s.repeatCount + 1) : F) * dist / s.velocity)

/-- **in taiko and mania the slider residual is the end time alone**: there `collect_samples` takes from a slider only
its end (and, in mania, its head) — no `slider_events`. -/
theorem sliderTimes_taiko_mania (bs : List UInt8) (st : BeatmapState F P) (m : Beatmap F P)
    (h1 : decodeBytes beatmapDecoder bs = .ok st) (h2 : st.finish = .ok m)
    (hmode : m.general.mode = .taiko ∨ m.general.mode = .mania) (he : SliderEndInLimit m) : SliderTimesInLimit m := by
  intro h hh s hk b r hr p hp
  have hstart := (C14.decoded_stored bs st m h1 h2 h hh).1
  unfold collectObject at hr
  simp only [hk, bind, Except.bind] at hr
  split at hr
  · cases hr
  · rename_i dist hd
    have hend := he h hh s hk dist hd
    rcases hmode with hm | hm
    · simp only [hm, pure, Except.pure, Except.ok.injEq] at hr
      subst hr
      rw [(collectSample_mem hp).1]; exact hend
    · simp only [hm, pure, Except.pure, Except.ok.injEq] at hr
      subst hr
      rcases List.mem_append.mp hp with hp | hp
      · rw [(collectSample_mem hp).1]; exact hend
      · rw [(collectSample_mem hp).1]; exact hstart

end Collected

/-! ## 3. sortedness, and 4. `RepTimingMap` of decoded maps -/

section Main
variable {F P : Type} [Scalar F] [Scalar P] [Cvt P F] [Trig F] [Trig P] {RF : F → Prop} {RP : P → Prop}

theorem addCollected_sorted {cp : ControlPoints F} (h : C13.Sorted cp) (l : List (SamplePoint F)) :
    C13.Sorted (addCollected cp l) := by
  cases l with
  | nil => exact h
  | cons first rest =>
    have gen : ∀ (rest : List (SamplePoint F)) (acc : ControlPoints F × SamplePoint F), C13.Sorted acc.1 →
        C13.Sorted ((rest.foldl (fun (acc : ControlPoints F × SamplePoint F) s =>
          if !s.isRedundant acc.2 then (acc.1.addSample s, s) else acc) acc).1) := by
      intro rest
      induction rest with
      | nil => intro acc h; exact h
      | cons x xs ih =>
        intro acc h
        rw [List.foldl_cons]
        apply ih
        split
        · exact C13.add_sorted_sample h x
        · exact h
    exact gen rest _ (C13.add_sorted_sample h first)

/-- **decoded_collected_sorted** (no law, no residual): the control points the encoder collects from a decoded map — the
map's own plus the objects' sample points — are strictly sorted by `total_cmp` key in all four lists (C13: every point
enters through `add`). `RepTimingMap` asks nothing of the order; finding F22 (distinct stored times within EPSILON) is a
matter of the re-decoded COUNT, not of acceptance. -/
theorem decoded_collected_sorted (bs : List UInt8) (st : BeatmapState F P) (m : Beatmap F P)
    (h1 : decodeBytes beatmapDecoder bs = .ok st) (h2 : st.finish = .ok m) (cp : ControlPoints F)
    (hc : collectSamples m = .ok cp) : C13.Sorted cp := by
  obtain ⟨ls, hst, _⟩ := DecodedInv.decodeBytes_lines _ bs st h1
  have hs := (decoded_control_points_in_limits ls m (by rw [← hst]; exact h2)).1
  unfold collectSamples at hc
  cases hca : collectAll m m.hitObjects [] with
  | error e => simp [hca, bind, Except.bind] at hc
  | ok pts =>
    simp only [hca, bind, Except.bind, pure, Except.pure, Except.ok.injEq] at hc
    subst hc
    exact addCollected_sorted hs _

/-- **the custom bank of every collected sample point is within `i32`** (no law, no residual): it is a stored sample
point's, or the maximum over an object's own samples (`DecodedObj.decoded_objOk`) or over one of a slider's node lists
(`DecodedObj.decoded_nodesOk`). -/
theorem decoded_collected_custom (bs : List UInt8) (st : BeatmapState F P) (m : Beatmap F P)
    (h1 : decodeBytes beatmapDecoder bs = .ok st) (h2 : st.finish = .ok m) (cp : ControlPoints F)
    (hc : collectSamples m = .ok cp) : ∀ s ∈ cp.samplePoints, s.customSampleBank ≤ i32Max := by
  obtain ⟨ls, hst, _⟩ := DecodedInv.decodeBytes_lines _ bs st h1
  intro s hs
  rcases collected_point_origin m cp hc s hs with h | ⟨_, _, _, o, ho, ⟨samples, time, hmem, horig⟩, _⟩
  · exact ((decoded_control_points_in_limits ls m (by rw [← hst]; exact h2)).2.2.2.2 s h).2.2
  · apply (collectSample_mem hmem).2
    rcases horig with rfl | ⟨s', hk, hns⟩
    · exact fun x hx => ((decoded_objOk bs st m h1 h2 o ho).samples x hx).custom.2
    · have := decoded_nodesOk bs st m h1 h2 o ho
      rw [NodeOk, hk] at this
      exact this samples hns

/-- the full statement (no residual on the collected times) — FALSE of the model: a slider whose computed end time leaves
the parse limit (`collected_time_over_limit`, toy scalar). -/
def decoded_repTimingMap_statement (F P : Type) [Scalar F] [Scalar P] [Cvt P F] [Trig F] [Trig P] (RF : F → Prop) : Prop :=
  ∀ (bs : List UInt8) (st : BeatmapState F P) (m : Beatmap F P), decodeBytes beatmapDecoder bs = .ok st →
    st.finish = .ok m → RepTimingMap RF m

/-- **decoded_repTimingMap_partial** — `RtTiming.RepTimingMap` of every decoded map (any bytes), under
* the NaN / clamp facts `C12.NanLaws`, `C12.TpClampLaws` and the closed facts `TimingConsts` (theorems / kernel facts of the
  IEEE instance),
* the codec law `LimitRep RF` (theorem of the IEEE codec),
* the arithmetic law `SvLaws` (`−100 / v` for `v` in the clamp range),
* the residual `CollectedTimesInLimit m`: every collected time is a number within the parse limit.
Partial because of the last item; everything else of `RepTimingMap` is derived from the decoder. -/
theorem decoded_repTimingMap_partial (N : C12.NanLaws F) (C : C12.TpClampLaws F) (K : TimingConsts F)
    (LR : DecodedInv.LimitRep RF) (SV : SvLaws F RF) (bs : List UInt8) (st : BeatmapState F P) (m : Beatmap F P)
    (h1 : decodeBytes beatmapDecoder bs = .ok st) (h2 : st.finish = .ok m) (hct : CollectedTimesInLimit m) :
    RepTimingMap RF m := by
  have S := decoded_stored_points_rep N C K LR SV bs st m h1 h2
  refine ⟨S.sig, S.sv _, S.timing, S.difficulty, S.effect, ?_⟩
  intro cp hc s hs
  have hcu := decoded_collected_custom bs st m h1 h2 cp hc s hs
  rcases collected_point_origin m cp hc s hs with h | ⟨pts, hp, hsp, _⟩
  · exact ⟨(S.samples s h).1, (S.samples s h).2.1, hcu⟩
  · have ht := hct pts hp s hsp
    exact ⟨LR _ ht, ht, hcu⟩

/-- **timing_block_shape_decoded** — `timing_block_shape` for decoded maps. -/
theorem timing_block_shape_decoded (LF : CodecLaws F RF) (N : C12.NanLaws F) (C : C12.TpClampLaws F) (K : TimingConsts F)
    (LR : DecodedInv.LimitRep RF) (SV : SvLaws F RF) (bs : List UInt8) (st : BeatmapState F P) (m : Beatmap F P)
    (h1 : decodeBytes beatmapDecoder bs = .ok st) (h2 : st.finish = .ok m) (hct : CollectedTimesInLimit m)
    (t : Str) (h : encodeTimingPoints m = .ok t) :
    ∃ T, t = unlines (str "[TimingPoints]" :: T) ∧ RtFile.ListBlockShape T :=
  timing_block_shape LF m (decoded_repTimingMap_partial N C K LR SV bs st m h1 h2 hct) t h

/-- **timing_lines_accepted_decoded** — `timing_lines_accepted` with `RepTimingMap` discharged for decoded maps: decode any
bytes to `m`; if every collected time is within the parse limit, every line of the `[TimingPoints]` block the encoder writes
is accepted by `parse_timing_points` in any decoder state and applied as exactly the values written. -/
theorem timing_lines_accepted_decoded (LF : CodecLaws F RF) (N : C12.NanLaws F) (C : C12.TpClampLaws F)
    (K : TimingConsts F) (LR : DecodedInv.LimitRep RF) (SV : SvLaws F RF) (bs : List UInt8) (st : BeatmapState F P)
    (m : Beatmap F P) (h1 : decodeBytes beatmapDecoder bs = .ok st) (h2 : st.finish = .ok m)
    (hct : CollectedTimesInLimit m) (t : Str) (h : encodeTimingPoints m = .ok t) :
    ∃ cp, collectSamples m = .ok cp ∧ t = unlines (str "[TimingPoints]" :: (mapEntries m cp).map Entry.line) ∧
      (∀ e ∈ mapEntries m cp, ∀ st : TimingPointsState F P,
        parseTimingPoints st (trimEnd e.line) = (.ok (), applyTpLine st (e.read st.general.defaultSampleBank))) ∧
      ∀ st : TimingPointsState F P,
        Accepts (fun s l => ((parseTimingPoints s l).2, (parseTimingPoints s l).1.isOk)) st
          (((mapEntries m cp).map Entry.line).map trimEnd) :=
  timing_lines_accepted LF m (decoded_repTimingMap_partial N C K LR SV bs st m h1 h2 hct) t h

/-- the laws about the timing block, bundled. -/
structure TimingLaws (F : Type) [Scalar F] (RF : F → Prop) : Prop where
  nan : C12.NanLaws F
  clamp : C12.TpClampLaws F
  consts : TimingConsts F
  sv : SvLaws F RF

/-- **decoded_repMap** — `RepMap` of a decoded map with NO `Rep*` hypothesis: the record sections from the `Decoded`
invariant (`ConstFacts`, `LimitRep`, F16 `NoDoubleSlash`), the objects from their residuals (F17 / F20 / F21), the collected
control points from `TimingLaws` and the residual `CollectedTimesInLimit`. -/
theorem decoded_repMap (C : DecodedInv.ConstFacts F P) (LRP : DecodedInv.LimitRep RP) (L : ObjLaws F P RF RP)
    (D : DurLaws F RF) (LC : CtrlLaws F P RP) (T : TimingLaws F RF)
    (bs : List UInt8) (st : BeatmapState F P) (m : Beatmap F P) (h1 : decodeBytes beatmapDecoder bs = .ok st)
    (h2 : st.finish = .ok m) (hds : DecodedInv.NoDoubleSlash m) (hres : ∀ h ∈ m.hitObjects, ObjResidual RF h)
    (hct : CollectedTimesInLimit m) : RepMap RF RP m :=
  decoded_repMap_partial C LRP L D LC bs st m h1 h2 hds
    (decoded_repTimingMap_partial T.nan T.clamp T.consts L.time T.sv bs st m h1 h2 hct) hres

open C11 FileRt in
/-- **encoded_file_accepted_decoded** — the file-level C04 statement for decoded maps with no `Rep*` hypothesis left:
decode any bytes to `m`, encode it to `t`. Under the codec laws (`MapLaws`, `ConstFacts`, `LimitRep`, `ObjLaws`, `CtrlLaws`),
the arithmetic laws (`DurLaws`, `TimingLaws`) and the findings' predicates — F16 `NoDoubleSlash`, the object residuals
(F17 / F20 / F21: `ObjResidual`), and `CollectedTimesInLimit` (finite collected times) — `t` is the version line plus the
eight blocks, every decoder reading it back makes exactly the calls `recordCalls m T H`, every call is accepted by the
`Beatmap` decoder, and the counts come back. -/
theorem encoded_file_accepted_decoded (ML : MapLaws F P RF RP) (C : DecodedInv.ConstFacts F P)
    (LRP : DecodedInv.LimitRep RP) (L : ObjLaws F P RF RP) (D : DurLaws F RF) (LC : CtrlLaws F P RP) (T : TimingLaws F RF)
    (bs : List UInt8) (st : BeatmapState F P) (m : Beatmap F P) (h1 : decodeBytes beatmapDecoder bs = .ok st)
    (h2 : st.finish = .ok m) (hds : DecodedInv.NoDoubleSlash m)
    (hres : ∀ h ∈ m.hitObjects, ObjResidual RF h) (hct : CollectedTimesInLimit m) (t : Str) (h : encode m = .ok t) :
    ∃ (cp : ControlPoints F) (T H : List Str),
      collectSamples m = .ok cp ∧ T = (mapEntries m cp).map Entry.line ∧
      encodeTimingPoints m = .ok (unlines (str "[TimingPoints]" :: T)) ∧
      encodeHitObjects m = .ok (unlines (str "[HitObjects]" :: H)) ∧
      RtFile.ListBlockShape T ∧ RtFile.ListBlockShape H ∧ H.length = m.hitObjects.length ∧
      t = unlines (RtFile.fileLines m.formatVersion (RtGeneral.generalLines m.general (RtGeneral.sampleSetOf m.controlPoints))
        (RtEditor.editorLines m.editor) (RtMetadata.metadataLines m.metadata) (RtDifficulty.difficultyLines m.difficulty)
        (RtEvents.eventLines m.events) T (RtColours.colourLines m.colors) H) ∧
      (∀ (σ : Type) (Dc : LineDecoder σ),
        decodeBytes Dc (utf8Encode t) = .ok (runCalls Dc (Dc.create m.formatVersion) (recordCalls m T H))) ∧
      decodeBytes recorder (utf8Encode t) = .ok { version := m.formatVersion, calls := (recordCalls m T H).reverse } ∧
      CallsAccepted (BeatmapState.create m.formatVersion : BeatmapState F P) (recordCalls m T H) ∧
      ∃ st' : BeatmapState F P, decodeBytes beatmapDecoder (utf8Encode t) = .ok st' ∧
        st'.hitObjects.core.hitObjects.length = m.hitObjects.length ∧
        st'.hitObjects.events.breaks.length = m.events.breaks.length ∧
        st'.colors.customComboColors.length = m.colors.customComboColors.length ∧
        st'.colors.customColors.length = m.colors.customColors.length ∧
        st'.hitObjects.timingPoints = C12.runStrs { (TimingPointsState.create : TimingPointsState F P) with
          general := RtGeneral.preservedGeneral m.general (RtGeneral.sampleSetOf m.controlPoints) } (T.map trimEnd) ∧
        (T.map trimEnd).length = (mapEntries m cp).length :=
  encoded_file_accepted ML m (decoded_repMap C LRP L D LC T bs st m h1 h2 hds hres hct) t h

/-- the same with the residual restricted to SLIDERS (`collectedTimes_of_sliders`: circles, spinners and holds cannot
violate it under `DurLaws`). -/
theorem decoded_repTimingMap_of_sliders (N : C12.NanLaws F) (C : C12.TpClampLaws F) (K : TimingConsts F)
    (LR : DecodedInv.LimitRep RF) (SV : SvLaws F RF) (E : EndTimeLaws F) (bs : List UInt8) (st : BeatmapState F P)
    (m : Beatmap F P) (h1 : decodeBytes beatmapDecoder bs = .ok st) (h2 : st.finish = .ok m)
    (hs : SliderTimesInLimit m) : RepTimingMap RF m :=
  decoded_repTimingMap_partial N C K LR SV bs st m h1 h2 (collectedTimes_of_sliders E bs st m h1 h2 hs)

/-- **decoded_repTimingMap_taiko_mania** — in taiko / mania the residual is `SliderEndInLimit` (plus `EndTimeLaws` for
spinners and holds). -/
theorem decoded_repTimingMap_taiko_mania (N : C12.NanLaws F) (C : C12.TpClampLaws F) (K : TimingConsts F)
    (LR : DecodedInv.LimitRep RF) (SV : SvLaws F RF) (E : EndTimeLaws F) (bs : List UInt8) (st : BeatmapState F P)
    (m : Beatmap F P) (h1 : decodeBytes beatmapDecoder bs = .ok st) (h2 : st.finish = .ok m)
    (hmode : m.general.mode = .taiko ∨ m.general.mode = .mania) (he : SliderEndInLimit m) : RepTimingMap RF m :=
  decoded_repTimingMap_of_sliders N C K LR SV E bs st m h1 h2 (sliderTimes_taiko_mania bs st m h1 h2 hmode he)

end Main

end Rosu.C04
