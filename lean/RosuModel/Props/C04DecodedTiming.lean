/-
  Props/C04DecodedTiming.lean — C04 / C02, the second LIST block: the control points an encoder run COLLECTS from a
  DECODED map are representable (`RtTiming.RepTimingMap`), as far as that is true; every byte string, every `Scalar`.

  1. STORED points (`decoded_stored_points_rep`). Invariant `storedPred` of the decoder state (kept by every
     `[TimingPoints]` line, accepted or rejected, in ANY mode — the mode may change between lines, finding F15 —, by every
     other parser, by the framing driver for every byte string, by the final flush): every stored time is within the parse
     limit; signature numerators in `1 … 2³¹−1`; beat lengths within the parse limit and in `[6, 60000]`; slider velocities in
     `[0.1, 10]`; scroll speeds `= 1` or in `[0.01, 10]`; custom banks within ±(2³¹−1), volumes in `0 … 100`. Named hypotheses:
       * `C12.NanLaws`, `C12.TpClampLaws` — the NaN / clamp facts of C12 (THEOREMS for `Float`, `Float32`:
         `C12.nanLaws_float`, `C12.tpClampLaws_float`);
       * `TimingConsts` — closed facts about the decoder's own constants: `ofInt (−(2³¹−1)) = −ofInt (2³¹−1)`, `6` and `60000`
         within the parse limit (toy instance by `decide`);
       * `DecodedInv.LimitRep RF` — the codec represents every value within the parse limit (theorem for the IEEE codec:
         `limitRep_float`);
       * `SvLaws` — the ARITHMETIC law: for `v` in `[0.1, 10]` (resp. `[0.01, 10]`, and `v = 1`) the inherited beat length
         `−100 / v` the encoder writes is representable and within the beat-length limits (toy instance `ZC.svLaws`; true of
         IEEE doubles — `−100/v ∈ [−10000, −10]` — but NOT proved here for `Float`).
  2. COLLECTED sample points (`collectSamples`): every point of the collected list is a stored sample point or
     `collect_sample(samples, time)` of one object, where `samples` is the object's own list or one of a slider's node lists
     (`collected_point_origin`). Its custom bank is the maximum over those samples, within ±(2³¹−1) by `DecodedObj.ObjOk` and
     the new invariant `NodeInv` (node samples: through `read_custom_sample_banks` per node, `convert_sound_type`, the framing
     driver, sort / break processing / the finaliser's node-sample defaults; no law). Its TIME is the object's start time
     (circle, hold head, mania slider head), `start + duration` (spinner, hold: within the limit under `EndTimeLaws`, the
     `Stop` half of `DurLaws`), or — for sliders — `start + spans·dist/velocity` and the node times of `slider_events`:
     those are the residual `SliderTimesInLimit` / `CollectedTimesInLimit` ("every collected time is finite and within the
     parse limit"; the decoder rejects the line otherwise — DESIGN 5.4, "sample points collected at non-finite computed times").
  3. Sortedness: `RepTimingMap` has NO sortedness / distinctness clause — each line is accepted in ANY decoder state — so
     finding F22 (stored timing points within EPSILON) does not enter acceptance; it concerns the COUNT of re-decoded timing
     points (`C02.roundtrip_rep_counts`). What holds unconditionally is `decoded_collected_sorted`: the collected control
     points are strictly sorted by `total_cmp` key (C13), all four lists.
  4. `decoded_repTimingMap_partial`, `timing_lines_accepted_decoded`, `timing_block_shape_decoded`,
     `encoded_file_accepted_decoded` (no `Rep*` hypothesis left: codec / arithmetic laws, F16 `NoDoubleSlash`, the object
     residuals F17 / F20 / F21, and `CollectedTimesInLimit`).
-/
import RosuModel.Props.C04DecodedObjects
import RosuModel.Props.C12Exact
set_option linter.unusedSectionVars false
namespace Rosu.C04
open Rosu Scalar Encode EncodeLines RtTiming DecodedObj

/-! ## 1. the stored control points of a decoded map -/

section Stored
variable {F P : Type} [Scalar F] [Scalar P]

/-- closed facts about the constants of `parse_timing_points` / `TimingPoint::new` (no variable: decidable on a concrete
scalar). -/
structure TimingConsts (F : Type) [Scalar F] : Prop where
  negMax : (Scalar.ofInt (-i32Max) : F) = -(maxParseValue : F)
  six : InLimit (6 : F)
  sixty : InLimit (60000 : F)

/-- **the arithmetic law of the inherited line**: the beat length `−100 / v` written for a slider velocity (scroll speed)
inside its clamp range is representable and within the beat-length limits. -/
structure SvLaws (F : Type) [Scalar F] (R : F → Prop) : Prop where
  one : SvOk R (1 : F)
  sv : ∀ v : F, C12.Between (0.1 : F) (10 : F) v → SvOk R v
  scroll : ∀ v : F, C12.Between (0.01 : F) (10 : F) v → SvOk R v

/-- what every stored (and pending) control point of the decoder satisfies, in any mode. -/
def storedPred : C12.PointPred F :=
  { t := fun p => InLimit p.time ∧ (1 ≤ p.timeSignature.numerator ∧ (p.timeSignature.numerator : Int) ≤ i32Max) ∧
      InLimit p.beatLen ∧ C12.Between (6 : F) (60000 : F) p.beatLen,
    d := fun p => InLimit p.time ∧ C12.Between (0.1 : F) (10 : F) p.sliderVelocity,
    e := fun p => InLimit p.time ∧ (p.scrollSpeed = 1 ∨ C12.Between (0.01 : F) (10 : F) p.scrollSpeed),
    s := fun p => InLimit p.time ∧ (-i32Max ≤ p.customSampleBank ∧ p.customSampleBank ≤ i32Max) ∧
      0 ≤ p.sampleVolume ∧ p.sampleVolume ≤ 100 }

theorem clamp_cases (x lo hi : F) :
    Scalar.clamp x lo hi = x ∨ Scalar.clamp x lo hi = lo ∨ Scalar.clamp x lo hi = hi := by
  unfold Scalar.clamp
  simp only []
  by_cases h1 : Scalar.lt x lo = true
  · simp only [h1, if_true]
    by_cases h2 : Scalar.lt hi lo = true
    · simp [h2]
    · simp [h2]
  · simp only [h1, Bool.false_eq_true, if_false]
    by_cases h2 : Scalar.lt hi x = true
    · simp [h2]
    · simp [h2]

/-- the beat-length limits are the parse limits (given `ofInt (−M) = −ofInt M`). -/
theorem beatLimit_iff_inLimit (K : TimingConsts F) (b : F) (hn : Scalar.isNaN b = false) : BeatLimit b ↔ InLimit b := by
  unfold BeatLimit InLimit
  rw [K.negMax]
  unfold maxParseValue
  exact ⟨fun h => ⟨h.1, h.2, hn⟩, fun h => ⟨h.1, h.2.1⟩⟩

/-- **the four points of an accepted line satisfy `storedPred`, whatever the mode.** -/
theorem accepted_line_stored (N : C12.NanLaws F) (C : C12.TpClampLaws F) (K : TimingConsts F)
    (g : GeneralState F P) (mode : GameMode) (s : Str) (l : TpLine F) (h : parseTpFields g s = .ok l) :
    C12.LineAll storedPred mode l := by
  have hlim := accepted_line_limits g mode s l h
  obtain ⟨ht, hb, hb1, hb2, hs⟩ := C12.accepted_line_numbers h
  have hord := C12.line_ordinary N C mode l ht.2.2 hb hs
  refine ⟨fun tc => ⟨(hlim.t tc).1, (hlim.t tc).2, ?_, (hord.t tc).2⟩, ⟨hlim.d, hord.d.2⟩, ⟨hlim.e, ?_⟩,
    ⟨hlim.s.1, hlim.s.2, hord.s.2⟩⟩
  · show InLimit (Scalar.clamp l.beatLen (6 : F) (60000 : F))
    rcases clamp_cases l.beatLen (6 : F) (60000 : F) with e | e | e
    · rw [e]; exact (beatLimit_iff_inLimit K _ (hb tc)).mp ⟨hb1, hb2⟩
    · rw [e]; exact K.six
    · rw [e]; exact K.sixty
  · have he := hord.e.2.2
    split at he
    · exact Or.inr he
    · exact Or.inl he

theorem storedInv_parseTimingPoints (N : C12.NanLaws F) (C : C12.TpClampLaws F) (K : TimingConsts F)
    {st : TimingPointsState F P} (h : C12.Inv storedPred st) (line : Str) :
    C12.Inv storedPred (parseTimingPoints st line).2 := by
  unfold parseTimingPoints
  cases hp : parseTpFields st.general line with
  | error e => exact h
  | ok l => exact C12.inv_applyTpLine h l (accepted_line_stored N C K st.general _ line l hp)

variable [Cvt P F]

theorem storedInv_beatmap_step (N : C12.NanLaws F) (C : C12.TpClampLaws F) (K : TimingConsts F)
    (s : Section) (st : BeatmapState F P) (l : Str) (h : C12.Inv storedPred st.hitObjects.timingPoints) :
    C12.Inv storedPred (BeatmapState.step s st l).hitObjects.timingPoints := by
  cases s
  case general => exact C12.inv_parseGeneral h l
  case timingPoints => exact storedInv_parseTimingPoints N C K h l
  all_goals exact h

variable [Trig F] [Trig P]

/-- the control points of a finished map are the decoder's, after the final flush. -/
theorem finish_controlPoints (st : BeatmapState F P) (m : Beatmap F P) (h : st.finish = .ok m) :
    m.controlPoints = st.hitObjects.timingPoints.finish.2 := by
  unfold BeatmapState.finish at h
  cases hho : st.hitObjects.finish with
  | error e => simp [hho, bind, Except.bind] at h
  | ok ho =>
    simp only [hho, bind, Except.bind, pure, Except.pure] at h
    injection h with h
    subst h
    unfold HitObjectsState.finish at hho
    simp only [bind, Except.bind, pure, Except.pure] at hho
    split at hho
    · cases hho
    · injection hho with hho
      subst hho
      rfl

/-- **decoded_stored_points_inv** — whatever lines are decoded (any interleaving of sections, accepted or rejected lines,
mode changes), the control points of the resulting map are strictly sorted and satisfy `storedPred`. -/
theorem decoded_stored_points_inv (N : C12.NanLaws F) (C : C12.TpClampLaws F) (K : TimingConsts F)
    (x : List Str) (m : Beatmap F P)
    (h : (frame (beatmapDecoder : LineDecoder (BeatmapState F P)) x).finish = .ok m) :
    C13.Sorted m.controlPoints ∧ C12.CpAll storedPred m.controlPoints := by
  have hinv := frame_invariant (beatmapDecoder : LineDecoder (BeatmapState F P))
    (fun st => C12.Inv storedPred st.hitObjects.timingPoints) (fun _ => C12.inv_create storedPred)
    (fun s st l hI => storedInv_beatmap_step N C K s st l hI) x
  rw [finish_controlPoints _ m h]
  exact C12.inv_finish hinv

/-- the per-point clauses of `RepTimingMap` on the map's OWN control points, with the clamp ranges and the sortedness a
decoded map has on top. -/
structure StoredPointsRep (R : F → Prop) (m : Beatmap F P) : Prop where
  sorted : C13.Sorted m.controlPoints
  sig : ∀ t ∈ m.controlPoints.timingPoints, 1 ≤ t.timeSignature.numerator ∧ (t.timeSignature.numerator : Int) ≤ i32Max
  sv : ∀ mode : GameMode, ∀ v ∈ (1 : F) :: svSource mode m.controlPoints, SvOk R v
  timing : ∀ t ∈ m.controlPoints.timingPoints,
    R t.time ∧ InLimit t.time ∧ R t.beatLen ∧ BeatLimit t.beatLen ∧ Scalar.isNaN t.beatLen = false
  difficulty : ∀ p ∈ m.controlPoints.difficultyPoints, R p.time ∧ InLimit p.time
  effect : ∀ p ∈ m.controlPoints.effectPoints, R p.time ∧ InLimit p.time
  samples : ∀ s ∈ m.controlPoints.samplePoints, R s.time ∧ InLimit s.time ∧ -i32Max ≤ s.customSampleBank ∧
    s.customSampleBank ≤ i32Max ∧ 0 ≤ s.sampleVolume ∧ s.sampleVolume ≤ 100
  beatClamp : ∀ t ∈ m.controlPoints.timingPoints, C12.Between (6 : F) (60000 : F) t.beatLen
  svClamp : ∀ p ∈ m.controlPoints.difficultyPoints, C12.Between (0.1 : F) (10 : F) p.sliderVelocity
  scrollClamp : ∀ p ∈ m.controlPoints.effectPoints, p.scrollSpeed = 1 ∨ C12.Between (0.01 : F) (10 : F) p.scrollSpeed

/-- **decoded_stored_points_rep** — every control point STORED in a decoded map's four lists satisfies the per-point
clauses of `RepTimingMap`, for every byte string: times parsed within the limit, hence representable (`LimitRep`); beat
lengths within the limit, in `[6, 60000]`, not NaN, representable; signature numerators `1 … 2³¹−1`; velocities / scroll
speeds inside their clamps, hence `−100 / v` representable and within the beat-length limits (`SvLaws` — the one
arithmetic law); custom banks within ±(2³¹−1); volumes `0 … 100`. -/
theorem decoded_stored_points_rep {R : F → Prop} (N : C12.NanLaws F) (C : C12.TpClampLaws F) (K : TimingConsts F)
    (LR : DecodedInv.LimitRep R) (SV : SvLaws F R) (bs : List UInt8) (st : BeatmapState F P) (m : Beatmap F P)
    (h1 : decodeBytes beatmapDecoder bs = .ok st) (h2 : st.finish = .ok m) : StoredPointsRep R m := by
  obtain ⟨ls, hst, _⟩ := DecodedInv.decodeBytes_lines _ bs st h1
  obtain ⟨hs, hall⟩ := decoded_stored_points_inv N C K ls m (by rw [← hst]; exact h2)
  refine ⟨hs, fun t ht => (hall.t t ht).2.1, ?_, ?_, fun p hp => ⟨LR _ (hall.d p hp).1, (hall.d p hp).1⟩,
    fun p hp => ⟨LR _ (hall.e p hp).1, (hall.e p hp).1⟩, ?_, fun t ht => (hall.t t ht).2.2.2,
    fun p hp => (hall.d p hp).2, fun p hp => (hall.e p hp).2⟩
  · intro mode v hv
    rcases List.mem_cons.mp hv with rfl | hv
    · exact SV.one
    · have hd : ∀ v ∈ m.controlPoints.difficultyPoints.map (·.sliderVelocity), SvOk R v := by
        intro v hv
        obtain ⟨p, hp, rfl⟩ := List.mem_map.mp hv
        exact SV.sv _ (hall.d p hp).2
      have he : ∀ v ∈ m.controlPoints.effectPoints.map (·.scrollSpeed), SvOk R v := by
        intro v hv
        obtain ⟨p, hp, rfl⟩ := List.mem_map.mp hv
        rcases (hall.e p hp).2 with e | e
        · rw [e]; exact SV.one
        · exact SV.scroll _ e
      cases mode
      · exact hd v hv
      · exact he v hv
      · exact hd v hv
      · exact he v hv
  · intro t ht
    obtain ⟨a, _, b, c⟩ := hall.t t ht
    exact ⟨LR _ a, a, LR _ b, (beatLimit_iff_inLimit K _ b.2.2).mpr b, b.2.2⟩
  · intro s hs
    obtain ⟨a, b, c⟩ := hall.s s hs
    exact ⟨LR _ a, a, b.1, b.2, c.1, c.2⟩

end Stored

/-! ## 2. the collected sample points -/

section Collected
variable {F P : Type} [Scalar F] [Scalar P] [Cvt P F] [Trig F] [Trig P]

/-- every custom bank of a sample list is at most `B`. -/
def CustomLe (B : Int) (l : List HitSampleInfo) : Prop := ∀ x ∈ l, x.customSampleBank ≤ B

theorem foldl_custom_le (B : Int) (rest : List HitSampleInfo) (init : Int) (hi : init ≤ B) (hr : CustomLe B rest) :
    rest.foldl (fun acc x => if x.customSampleBank > acc then x.customSampleBank else acc) init ≤ B := by
  induction rest generalizing init with
  | nil => exact hi
  | cons x xs ih =>
    rw [List.foldl_cons]
    apply ih
    · split
      · exact hr x (by simp)
      · exact hi
    · exact fun y hy => hr y (by simp [hy])

/-- **`collect_sample`**: the point sits at the given time; its custom bank is the maximum over the samples. -/
theorem collectSample_mem {samples : List HitSampleInfo} {time : F} {p : SamplePoint F}
    (h : p ∈ collectSample samples time) : p.time = time ∧ ∀ B, CustomLe B samples → p.customSampleBank ≤ B := by
  cases samples with
  | nil => cases h
  | cons s rest =>
    simp only [collectSample, List.mem_singleton] at h
    subst h
    exact ⟨rfl, fun B hB => foldl_custom_le B rest _ (hB s (by simp)) (fun y hy => hB y (by simp [hy]))⟩

/-- where a collected point comes from: `collect_sample` of the object's own samples or of one of a slider's node lists. -/
def CollectedFrom (h : HitObject F P) (p : SamplePoint F) : Prop :=
  ∃ (samples : List HitSampleInfo) (time : F), p ∈ collectSample samples time ∧
    (samples = h.samples ∨ ∃ s, h.kind = .slider s ∧ samples ∈ s.nodeSamples)

theorem getD_own_or_node {h : HitObject F P} {s : HitObjectSlider F P} (hk : h.kind = .slider s)
    (o : Option (List HitSampleInfo)) (ho : ∀ x, o = some x → x ∈ s.nodeSamples) :
    o.getD h.samples = h.samples ∨ ∃ s', h.kind = .slider s' ∧ o.getD h.samples ∈ s'.nodeSamples := by
  cases o with
  | none => exact Or.inl rfl
  | some x => exact Or.inr ⟨s, hk, ho x rfl⟩

theorem osuSliderSamples_origin (m : Beatmap F P) (h : HitObject F P) (s : HitObjectSlider F P) (hk : h.kind = .slider s)
    (dist duration : F) (buf : List (SliderEvents.SliderEvent F)) (r : List (SamplePoint F) × List (SliderEvents.SliderEvent F))
    (hr : osuSliderSamples m h s dist duration buf = .ok r) : ∀ p ∈ r.1, CollectedFrom h p := by
  unfold osuSliderSamples at hr
  simp only [bind, Except.bind, pure, Except.pure] at hr
  split at hr
  · cases hr
  · rename_i v _
    obtain ⟨evs, buf'⟩ := v
    simp only [Except.ok.injEq] at hr
    subst hr
    intro p hp
    simp only [List.mem_flatMap] at hp
    obtain ⟨ev, _, hp⟩ := hp
    cases hkd : ev.kind <;> simp only [hkd] at hp
    · exact ⟨_, _, hp, getD_own_or_node hk _ (fun x hx => List.mem_of_mem_head? hx)⟩
    · cases hp
    · exact ⟨_, _, hp, getD_own_or_node hk _ (fun x hx => List.mem_of_getElem? hx)⟩
    · cases hp
    · exact ⟨_, _, hp, getD_own_or_node hk _ (fun x hx => List.mem_of_getElem? hx)⟩

theorem catchSliderSamples_origin (m : Beatmap F P) (h : HitObject F P) (s : HitObjectSlider F P) (hk : h.kind = .slider s)
    (dist duration : F) (buf : List (SliderEvents.SliderEvent F)) (r : List (SamplePoint F) × List (SliderEvents.SliderEvent F))
    (hr : catchSliderSamples m h s dist duration buf = .ok r) : ∀ p ∈ r.1, CollectedFrom h p := by
  unfold catchSliderSamples at hr
  simp only [bind, Except.bind, pure, Except.pure] at hr
  split at hr
  · cases hr
  · rename_i v _
    obtain ⟨evs, buf'⟩ := v
    simp only [Except.ok.injEq] at hr
    subst hr
    intro p hp
    simp only [List.mem_flatMap] at hp
    obtain ⟨⟨ev, i⟩, _, hp⟩ := hp
    exact ⟨_, _, hp, getD_own_or_node hk _ (fun x hx => List.mem_of_getElem? hx)⟩

/-- **collected_point_origin (one object)**: every point `collect_samples` takes from an object is `collect_sample` of its
own samples or of one of its node lists. -/
theorem collectObject_origin (m : Beatmap F P) (h : HitObject F P) (buf : List (SliderEvents.SliderEvent F))
    (r : List (SamplePoint F) × List (SliderEvents.SliderEvent F)) (hr : collectObject m h buf = .ok r) :
    ∀ p ∈ r.1, CollectedFrom h p := by
  have own : ∀ (t : F), ∀ p ∈ collectSample h.samples t, CollectedFrom h p :=
    fun t p hp => ⟨_, t, hp, Or.inl rfl⟩
  unfold collectObject at hr
  cases hk : h.kind with
  | circle c =>
    simp only [hk, pure, Except.pure, Except.ok.injEq] at hr
    subst hr
    exact own _
  | spinner sp =>
    simp only [hk, pure, Except.pure, Except.ok.injEq] at hr
    subst hr
    exact own _
  | hold ho =>
    simp only [hk, pure, Except.pure, Except.ok.injEq] at hr
    subst hr
    intro p hp
    rcases List.mem_append.mp hp with hp | hp
    · exact own _ p hp
    · exact own _ p hp
  | slider s =>
    simp only [hk, bind, Except.bind] at hr
    split at hr
    · cases hr
    · rename_i dist _
      cases hmode : m.general.mode <;> simp only [hmode, bind, Except.bind, pure, Except.pure] at hr
      · split at hr
        · cases hr
        · rename_i v hv
          simp only [Except.ok.injEq] at hr
          subst hr
          intro p hp
          rcases List.mem_append.mp hp with hp | hp
          · exact own _ p hp
          · exact osuSliderSamples_origin m h s hk _ _ _ v hv p hp
      · simp only [Except.ok.injEq] at hr
        subst hr
        exact own _
      · split at hr
        · cases hr
        · rename_i v hv
          simp only [Except.ok.injEq] at hr
          subst hr
          intro p hp
          rcases List.mem_append.mp hp with hp | hp
          · exact own _ p hp
          · exact catchSliderSamples_origin m h s hk _ _ _ v hv p hp
      · simp only [Except.ok.injEq] at hr
        subst hr
        intro p hp
        rcases List.mem_append.mp hp with hp | hp
        · exact own _ p hp
        · exact own _ p hp

/-- every point of `collect_all` was taken from one of the objects, by one `collectObject` call. -/
theorem collectAll_mem (m : Beatmap F P) (hs : List (HitObject F P)) (buf : List (SliderEvents.SliderEvent F))
    (pts : List (SamplePoint F)) (h : collectAll m hs buf = .ok pts) :
    ∀ p ∈ pts, ∃ o ∈ hs, ∃ b r, collectObject m o b = .ok r ∧ p ∈ r.1 := by
  induction hs generalizing buf pts with
  | nil =>
    simp only [collectAll, pure, Except.pure, Except.ok.injEq] at h
    subst h
    intro p hp; cases hp
  | cons o rest ih =>
    simp only [collectAll, bind, Except.bind] at h
    cases ho : collectObject m o buf with
    | error e => simp [ho] at h
    | ok r =>
      obtain ⟨a, buf'⟩ := r
      simp only [ho] at h
      cases hr : collectAll m rest buf' with
      | error e => simp [hr] at h
      | ok b =>
        simp only [hr, pure, Except.pure, Except.ok.injEq] at h
        subst h
        intro p hp
        rcases List.mem_append.mp hp with hp | hp
        · exact ⟨o, by simp, buf, (a, buf'), ho, hp⟩
        · obtain ⟨o', ho', x⟩ := ih buf' b hr p hp
          exact ⟨o', by simp [ho'], x⟩

/-! ### what `add` keeps -/

theorem mem_addSample {cp : ControlPoints F} {p s : SamplePoint F} (h : s ∈ (cp.addSample p).samplePoints) :
    s = p ∨ s ∈ cp.samplePoints := by
  unfold ControlPoints.addSample at h
  split at h
  · exact Or.inr h
  · exact C13.mem_insertOrReplace h

theorem mem_addCollected {cp : ControlPoints F} {l : List (SamplePoint F)} {s : SamplePoint F}
    (h : s ∈ (addCollected cp l).samplePoints) : s ∈ cp.samplePoints ∨ s ∈ l := by
  cases l with
  | nil => exact Or.inl h
  | cons first rest =>
    have gen : ∀ (rest : List (SamplePoint F)) (acc : ControlPoints F × SamplePoint F),
        s ∈ ((rest.foldl (fun (acc : ControlPoints F × SamplePoint F) s =>
          if !s.isRedundant acc.2 then (acc.1.addSample s, s) else acc) acc).1).samplePoints →
        s ∈ acc.1.samplePoints ∨ s ∈ rest := by
      intro rest
      induction rest with
      | nil => intro acc h; exact Or.inl h
      | cons x xs ih =>
        intro acc h
        rw [List.foldl_cons] at h
        rcases ih _ h with h | h
        · split at h
          · rcases mem_addSample h with rfl | h
            · exact Or.inr (by simp)
            · exact Or.inl h
          · exact Or.inl h
        · exact Or.inr (by simp [h])
    simp only [addCollected] at h
    rcases gen rest _ h with h | h
    · rcases mem_addSample h with rfl | h
      · exact Or.inr (by simp)
      · exact Or.inl h
    · exact Or.inr (by simp [h])

/-- **collected_point_origin**: a sample point of the collection the encoder writes is a sample point of the map or was
collected from one of its objects. -/
theorem collected_point_origin (m : Beatmap F P) (cp : ControlPoints F) (hc : collectSamples m = .ok cp) :
    ∀ s ∈ cp.samplePoints, s ∈ m.controlPoints.samplePoints ∨
      ∃ pts, collectAll m m.hitObjects [] = .ok pts ∧ s ∈ pts ∧
        ∃ o ∈ m.hitObjects, CollectedFrom o s ∧ ∃ b r, collectObject m o b = .ok r ∧ s ∈ r.1 := by
  unfold collectSamples at hc
  cases hca : collectAll m m.hitObjects [] with
  | error e => simp [hca, bind, Except.bind] at hc
  | ok pts =>
    simp only [hca, bind, Except.bind, pure, Except.pure, Except.ok.injEq] at hc
    subst hc
    intro s hs
    rcases mem_addCollected hs with hs | hs
    · exact Or.inl hs
    · rw [List.mem_mergeSort] at hs
      obtain ⟨o, ho, b, r, hr, hp⟩ := collectAll_mem m _ _ pts hca s hs
      exact Or.inr ⟨pts, rfl, hs, o, ho, collectObject_origin m o b r hr s hp, b, r, hr, hp⟩

/-! ### the residuals on collected times -/

/-- **the residual behind "sample points collected at non-finite computed times"**: every time at which
`collect_samples` collects a point is a number within the parse limit ±(2³¹−1). (Otherwise the written line is rejected by
`parse_timing_points`: `Number.Overflow` / `InvalidFloat`.) -/
def CollectedTimesInLimit (m : Beatmap F P) : Prop :=
  ∀ pts, collectAll m m.hitObjects [] = .ok pts → ∀ p ∈ pts, InLimit p.time

/-- the same restricted to SLIDERS (the only objects whose collected times are computed from the curve: the end time
`start + spans · dist / velocity` and the node times of `slider_events` / `juicestream_events`). -/
def SliderTimesInLimit (m : Beatmap F P) : Prop :=
  ∀ h ∈ m.hitObjects, ∀ s, h.kind = .slider s → ∀ b r, collectObject m h b = .ok r → ∀ p ∈ r.1, InLimit p.time

/-- **arithmetic laws** for the end time of spinners and holds (the `Stop` halves of `DurLaws`, without representability). -/
structure EndTimeLaws (F : Type) [Scalar F] : Prop where
  spinner : ∀ t d : F, InLimit t → InLimit d → InLimit (t + Scalar.max (d - t) 0)
  hold : ∀ t e : F, InLimit t → InLimit e → InLimit (t + (Scalar.max t e - t))

theorem endTimeLaws_of_durLaws {RF : F → Prop} (D : DurLaws F RF) : EndTimeLaws F :=
  ⟨fun t d ht hd => (D.spinnerStop t d ht hd).2, fun t e ht he => (D.holdStop t e ht he).2⟩

/-- the collected times of a decoded circle / spinner / hold are within the limit (`EndTimeLaws`). -/
theorem collectObject_time_nonslider (E : EndTimeLaws F) (m : Beatmap F P) (h : HitObject F P) (hst : C14.StoredObj h)
    (hns : ∀ s, h.kind ≠ .slider s) (b : List (SliderEvents.SliderEvent F))
    (r : List (SamplePoint F) × List (SliderEvents.SliderEvent F)) (hr : collectObject m h b = .ok r) :
    ∀ p ∈ r.1, InLimit p.time := by
  obtain ⟨ht, hk⟩ := hst
  unfold collectObject at hr
  cases hkd : h.kind with
  | slider s => exact absurd hkd (hns s)
  | circle c =>
    simp only [hkd, pure, Except.pure, Except.ok.injEq] at hr
    subst hr
    intro p hp
    rw [(collectSample_mem hp).1]; exact ht
  | spinner sp =>
    simp only [hkd, pure, Except.pure, Except.ok.injEq] at hr
    subst hr
    rw [hkd] at hk
    obtain ⟨_, d, hd, hdur⟩ := hk
    intro p hp
    rw [(collectSample_mem hp).1, hdur]; exact E.spinner _ _ ht hd
  | hold ho =>
    simp only [hkd, pure, Except.pure, Except.ok.injEq] at hr
    subst hr
    rw [hkd] at hk
    obtain ⟨_, e, he, hdur⟩ := hk
    intro p hp
    rcases List.mem_append.mp hp with hp | hp
    · rw [(collectSample_mem hp).1, hdur]; exact E.hold _ _ ht he
    · rw [(collectSample_mem hp).1]; exact ht

/-- **only sliders contribute to the residual**: for a decoded map, under `EndTimeLaws`, the collected times are within the
limit as soon as those collected from sliders are. -/
theorem collectedTimes_of_sliders (E : EndTimeLaws F) (bs : List UInt8) (st : BeatmapState F P) (m : Beatmap F P)
    (h1 : decodeBytes beatmapDecoder bs = .ok st) (h2 : st.finish = .ok m) (hs : SliderTimesInLimit m) :
    CollectedTimesInLimit m := by
  intro pts hp p hpm
  obtain ⟨o, ho, b, r, hr, hpr⟩ := collectAll_mem m _ _ pts hp p hpm
  by_cases hsl : ∃ s, o.kind = .slider s
  · obtain ⟨s, hk⟩ := hsl
    exact hs o ho s hk b r hr p hpr
  · exact collectObject_time_nonslider E m o (C14.decoded_stored bs st m h1 h2 o ho)
      (fun s hk => hsl ⟨s, hk⟩) b r hr p hpr

end Collected

end Rosu.C04
