/-
  Props/C20IeeeFormsOrder.lean — C20 on IEEE doubles: which **order facts** between head, repeats, last tick and tail
  (`stream_ordering_exact`, Props/C20Exact.lean, exact arithmetic: strictly increasing, `head < last tick ≤ tail`)
  **survive rounding**, and which do not.

  Times as the model evaluates them (`A` start, `D` span duration, `n` span count, `fl` one rounding):
  `span_start s = fl(A + fl(s·D))`, repeat of `s` `= fl(span_start s + D)`, tail `= span_start n`,
  last tick `= max (fl(A + fl(fl(n·D)/2))) (fl(fl(span_start (n−1) + D) + (−36)))`.

  SURVIVE (IEEE `<=`, from the monotonicity of rounded `+`, `*` — Lemmas/FloatArithMono.lean, FloatTickLaws.lean; the only
  hypotheses are `0 ≤ D`, `0 ≤ s`, finiteness of the later time):
  * `span_start_mono_float`: `0 ≤ s ≤ s'` ⟹ `span_start s ≤ span_start s'`;
  * `head_le_span_start_float`, `span_start_le_repeat_float`, **`head_le_repeat_float`**, **`head_le_tail_float`**,
    `span_start_le_tail_float` (every span starts no later than the tail);
  * `head_le_last_tick_float` (weak), `last_tick_half_le_tail_float` (the half-way operand is `≤` the tail).
  NEED A MAGNITUDE HYPOTHESIS (via the error bounds of Props/C20IeeeForms.lean and `le_of_toRat_le`, the converse of
  `toRat_le_of_le` proved here):
  * **`last_tick_le_tail_float`**: `last tick ≤ tail` when `|A| + n·D ≤ 2⁵⁴`;
  * `repeat_le_tail_partial`: `repeat of s ≤ tail` when `8u·(|A| + n·D) + 2⁻¹⁰⁷² ≤ (n − s − 1)·D` (the span duration is not
    tiny against the start). The unconditional statement for the repeats of the stream (`s + 2 ≤ n`) is
    `repeat_le_tail_statement`; it is NOT proved here (the two times are computed along different rounding paths), no
    counterexample was found by random search either.
  FAIL (kernel-evaluated witnesses):
  * `final_span_end_gt_tail_float`: the end of the final span as the last-tick arm computes it,
    `fl(span_start (n−1) + D)`, can EXCEED the tail's time `span_start n` (start `4315109256246861`, `D = 1.875`, `n = 11`:
    one ulp above) — so "repeat of `s` ≤ tail" is false for `s = n − 1` (not a repeat of the stream, but the
    expression inside the last tick);
  * **`last_tick_gt_tail_float`**: consequently `last tick ≤ tail` is FALSE on doubles for huge start times (the same
    parameters scaled by `2¹⁰`: start `≈ 4.4e18`, `D = 1920`, `n = 11`; the `−36` is absorbed by the rounding, ulp `512`);
  * `strict_order_fails_float`: the strict claims fail — start `2⁵³`, `D = 0.25`, `n = 2`: head, repeat, last tick and tail
    all have the same time.
-/
import RosuModel.Props.C20IeeeForms
import RosuModel.Lemmas.FloatTickLaws
import RosuModel.Lemmas.FloatExactOps
namespace Rosu.C20
open Rosu Rosu.SliderEvents Rosu.FErr
open Float.Model Float.Model.UnpackedFloat Rosu.FMR Rosu.FAM

local notation "u₅₃" => ((2 : ℚ) ^ (-53 : Int))
local notation "η₆₄" => ((2 : ℚ) ^ (-1075 : Int))

/-! ## the value order gives the IEEE order (converse of `toRat_le_of_le`) -/

theorem valLE_of_rat {m₁ m₂ : Nat} {e₁ e₂ : Int} (h : (m₁ : ℚ) * (2 : ℚ) ^ e₁ ≤ (m₂ : ℚ) * (2 : ℚ) ^ e₂) :
    ValLE m₁ e₁ m₂ e₂ := by
  unfold ValLE
  have h1 : (2 : ℚ) ^ e₁ = (2 : ℚ) ^ (min e₁ e₂) * (2 : ℚ) ^ (e₁ - min e₁ e₂).toNat := by
    rw [← zpow_natCast, ← zpow_add₀ (two_ne_zero)]; congr 1; omega
  have h2 : (2 : ℚ) ^ e₂ = (2 : ℚ) ^ (min e₁ e₂) * (2 : ℚ) ^ (e₂ - min e₁ e₂).toNat := by
    rw [← zpow_natCast, ← zpow_add₀ (two_ne_zero)]; congr 1; omega
  have hP := two_zpow_pos (min e₁ e₂)
  rw [h1, h2] at h
  have hc : ((m₁ : ℚ) * (2 : ℚ) ^ (e₁ - min e₁ e₂).toNat) ≤ (m₂ : ℚ) * (2 : ℚ) ^ (e₂ - min e₁ e₂).toNat := by
    have e1 : (m₁ : ℚ) * ((2 : ℚ) ^ (min e₁ e₂) * (2 : ℚ) ^ (e₁ - min e₁ e₂).toNat) =
        ((m₁ : ℚ) * (2 : ℚ) ^ (e₁ - min e₁ e₂).toNat) * (2 : ℚ) ^ (min e₁ e₂) := by ring
    have e2 : (m₂ : ℚ) * ((2 : ℚ) ^ (min e₁ e₂) * (2 : ℚ) ^ (e₂ - min e₁ e₂).toNat) =
        ((m₂ : ℚ) * (2 : ℚ) ^ (e₂ - min e₁ e₂).toNat) * (2 : ℚ) ^ (min e₁ e₂) := by ring
    rw [e1, e2] at h
    exact le_of_mul_le_mul_right h hP
  exact_mod_cast hc

/-- on canonical finite floats the order of the values is the IEEE order. -/
theorem ule_of_uval_le (spec : Format) (a b : UnpackedFloat) (ha : Canon spec a) (hb : Canon spec b)
    (fa : a.isFinite = true) (fb : b.isFinite = true) (h : uval a ≤ uval b) : a.le b = true := by
  match a, b, ha, hb, fa, fb, h with
  | .zero s, .zero s', _, _, _, _, _ => cases s <;> cases s' <;> rfl
  | .zero _, .finite .positive m e hm, _, _, _, _, _ => rfl
  | .zero _, .finite .negative m e hm, _, _, _, _, h =>
    have := uval_fin_neg m e hm
    have h0 : uval (.zero ‹_›) = 0 := rfl
    rw [h0] at h; linarith
  | .finite .negative m e hm, .zero _, _, _, _, _, _ => rfl
  | .finite .positive m e hm, .zero _, _, _, _, _, h =>
    have := uval_fin_pos m e hm
    have h0 : uval (.zero ‹_›) = 0 := rfl
    rw [h0] at h; linarith
  | .finite .negative m e hm, .finite .positive m' e' hm', _, _, _, _, _ => rfl
  | .finite .positive m e hm, .finite .negative m' e' hm', _, _, _, _, h =>
    have := uval_fin_pos m e hm
    have := uval_fin_neg m' e' hm'
    linarith
  | .finite .positive m e hm, .finite .positive m' e' hm', ha, hb, _, _, h =>
    refine (le_fin_pos_iff_valLE hm hm' ha hb).mpr (valLE_of_rat ?_)
    simpa only [uval, sgnQ, one_mul] using h
  | .finite .negative m e hm, .finite .negative m' e' hm', ha, hb, _, _, h =>
    refine (le_fin_neg_iff_valLE hm hm' ha hb).mpr (valLE_of_rat ?_)
    simp only [uval, sgnQ] at h
    linarith

/-- **le_of_toRat_le**: between finite doubles, `≤` of the exact values gives IEEE `<=`. -/
theorem le_of_toRat_le (x y : Float) (hx : x.isFinite = true) (hy : y.isFinite = true) (h : toRat x ≤ toRat y) :
    Scalar.le x y = true := by
  rw [FMO.le_float]
  exact ule_of_uval_le Format.binary64 _ _ (float_canon x) (float_canon y) hx hy h

/-- IEEE `<` between finite doubles is `<` of the values (strict monotonicity of `toRat`). -/
theorem toRat_lt_of_lt (x y : Float) (hx : x.isFinite = true) (hy : y.isFinite = true)
    (h : Scalar.lt x y = true) : toRat x < toRat y := by
  by_contra hc
  have := le_of_toRat_le y x hy hx (not_lt.mp hc)
  rw [FMO.not_lt_of_le y x this] at h
  cases h

/-- the smallest positive double is `2⁻¹⁰⁷⁴`. -/
theorem toRat_ge_min_of_pos (x : Float) (h : 0 < toRat x) : (2 : ℚ) ^ (-1074 : Int) ≤ toRat x := by
  have hc := float_canon x
  unfold toRat at h ⊢
  generalize x.toModel.unpack = ux at *
  match ux, hc, h with
  | .finite .positive m e hm, hc, _ =>
    have hge : Format.binary64.minExponent ≤ e := CanonFin.ge hc
    rw [b64_minExponent] at hge
    simp only [uval, sgnQ, one_mul]
    have h1 : (2 : ℚ) ^ (-1074 : Int) ≤ (2 : ℚ) ^ e := zpow_le_zpow_right₀ (by norm_num) hge
    have h2 : (1 : ℚ) ≤ (m : ℚ) := by exact_mod_cast hm
    have := two_zpow_pos e
    nlinarith
  | .finite .negative m e hm, _, h =>
    have := uval_fin_neg m e hm
    linarith
  | .zero _, _, h => exact absurd h (lt_irrefl _)
  | .infinity _, _, h => exact absurd h (lt_irrefl _)
  | .notANumber, _, h => exact absurd h (lt_irrefl _)

/-! ## rounded `+`, `*`, `/ 2` keep the sign and the order -/

/-- adding a non-negative double does not decrease (after rounding). -/
theorem le_add_nonneg_float (a x : Float) (hx : Scalar.le (0 : Float) x = true) (hfin : (a + x).isFinite = true) :
    Scalar.le a (a + x) = true := by
  obtain ⟨fa, _⟩ := finite_of_add_finite _ _ hfin
  have h0 : Scalar.le a (a + 0) = true ∧ Scalar.isNaN (a + 0) = false := by
    by_cases h : a = FX.nzero64
    · subst h; constructor <;> decide +kernel
    · rw [FX.add_zero_float a h]
      exact ⟨FMO.le_refl a (not_nan_of_finite a fa), not_nan_of_finite a fa⟩
  exact FMO.le_trans _ _ _ h0.1 (FTL.add_le_add_left_float a 0 x hx h0.2 (not_nan_of_finite _ hfin))

theorem zero64_not_nan (s : Sign) : Scalar.isNaN (FX.zero64 s) = false := by cases s <;> decide +kernel

theorem le_zero64_iff (s : Sign) (y : Float) : Scalar.le (FX.zero64 s) y = Scalar.le (0 : Float) y := by
  rw [FMO.le_float, FMO.le_float, FX.unpack_zero64, float_zero_unpack]
  exact zero_le_irrel _ _ _

/-- a finite product of non-negative doubles is non-negative. -/
theorem mul_nonneg_float (a b : Float) (ha : Scalar.le (0 : Float) a = true) (hb : Scalar.le (0 : Float) b = true)
    (hfin : (a * b).isFinite = true) : Scalar.le (0 : Float) (a * b) = true := by
  obtain ⟨_, fb⟩ := finite_of_mul_finite _ _ hfin
  have hz : (0 : Float) * b = FX.zero64 (FX.sign64 b) := FX.zero_mul_float b fb
  have h := FTL.mul_le_mul_right_float 0 a b ha hb (by rw [hz]; exact zero64_not_nan _) (not_nan_of_finite _ hfin)
  rwa [hz, le_zero64_iff] at h

theorem two_finite : (2 : Float).isFinite = true := by decide +kernel

/-- half of a non-negative double is non-negative. -/
theorem half_nonneg_float (t : Float) (h0 : Scalar.le (0 : Float) t = true) (hf : (t / 2).isFinite = true) :
    Scalar.le (0 : Float) (t / 2) = true := by
  have hz : (0 : Float) / 2 = 0 := by decide +kernel
  have h := FTL.div_le_div_right_float 0 t 2 h0 (by decide +kernel) (by rw [hz]; decide +kernel)
    (not_nan_of_finite _ hf)
  rwa [hz] at h

/-- half of a non-negative double is at most that double (after rounding, underflow included). -/
theorem half_le_self_float (t : Float) (ft : t.isFinite = true) (h0 : Scalar.le (0 : Float) t = true)
    (hf : (t / 2).isFinite = true) : Scalar.le (t / 2) t = true := by
  refine le_of_toRat_le _ _ hf ft ?_
  have hT := toRat_nonneg t h0 ft
  have hr := (div_rnd_float t 2 ft two_finite hf).abs_max
  rw [toRat_lit 2 (by norm_num)] at hr
  have hV : |toRat t / ((2 : Nat) : ℚ)| = toRat t / 2 := by
    rw [abs_of_nonneg (by positivity)]; norm_num
  rw [hV] at hr
  have hu := u53_le_one
  have h75 : (2 : ℚ) ^ (-1075 : Int) = (2 : ℚ) ^ (-1074 : Int) / 2 := by
    rw [show (-1075 : Int) = -1074 - 1 by norm_num, zpow_sub₀ (two_ne_zero), zpow_one]
  have hpos74 := two_zpow_pos (-1074 : Int)
  have hle := (abs_le.mp hr).2
  rcases hT.eq_or_lt with h | h
  · -- t = ±0: the quotient is a double of absolute value ≤ 2⁻¹⁰⁷⁵, hence not positive
    rw [← h] at hle ⊢
    by_contra hc
    have := toRat_ge_min_of_pos _ (not_le.mp hc)
    have hm : max (u₅₃ * ((0 : ℚ) / 2)) ((2 : ℚ) ^ (-1075 : Int)) = (2 : ℚ) ^ (-1075 : Int) :=
      max_eq_right (by rw [zero_div, mul_zero]; exact (two_zpow_pos _).le)
    have hz : (0 : ℚ) / ((2 : Nat) : ℚ) = 0 := by norm_num
    rw [hm, h75, hz] at hle
    linarith
  · have hmin := toRat_ge_min_of_pos t h
    have hm : max (u₅₃ * (toRat t / 2)) ((2 : ℚ) ^ (-1075 : Int)) ≤ toRat t / 2 := by
      apply max_le
      · have : u₅₃ * (toRat t / 2) ≤ 1 * (toRat t / 2) := mul_le_mul_of_nonneg_right hu (by linarith)
        linarith
      · rw [h75]; linarith
    have e : toRat t / ((2 : Nat) : ℚ) = toRat t / 2 := by norm_num
    rw [e] at hle
    linarith

/-! ## what survives -/

theorem ofInt_nonneg_float (s : Int) (hs0 : 0 ≤ s) (hs : s < 2 ^ 31) :
    Scalar.le (0 : Float) (Float.ofInt s) = true := by
  have := FIE.le_ofInt 0 s (by decide) (natAbs_lt_of_range s hs0 hs)
  rw [show Float.ofInt 0 = (0 : Float) from rfl] at this
  rw [this]; exact decide_eq_true hs0

theorem spanStart_eq (p : Params Float) (s : Int) : spanStart p s = p.startTime + Float.ofInt s * p.spanDuration := rfl

/-- the product `f64::from(s) · D` is non-negative. -/
theorem span_offset_nonneg_float (p : Params Float) (s : Int) (hs0 : 0 ≤ s) (hs : s < 2 ^ 31)
    (hdur : Scalar.le (0 : Float) p.spanDuration = true) (hfin : (spanStart p s).isFinite = true) :
    Scalar.le (0 : Float) (Float.ofInt s * p.spanDuration) = true := by
  rw [spanStart_eq] at hfin
  exact mul_nonneg_float _ _ (ofInt_nonneg_float s hs0 hs) hdur (finite_of_add_finite _ _ hfin).2

/-- **span starts are weakly increasing on doubles**: `0 ≤ s ≤ s' < 2³¹`, `0 ≤ D`, finite ⟹ `span_start s ≤ span_start s'`. -/
theorem span_start_mono_float (p : Params Float) (s s' : Int) (hs0 : 0 ≤ s) (hss : s ≤ s') (hs' : s' < 2 ^ 31)
    (hdur : Scalar.le (0 : Float) p.spanDuration = true)
    (hf : (spanStart p s).isFinite = true) (hf' : (spanStart p s').isFinite = true) :
    Scalar.le (spanStart p s) (spanStart p s') = true := by
  rw [spanStart_eq] at hf hf' ⊢
  have h1 : Scalar.le (Float.ofInt s) (Float.ofInt s') = true := by
    rw [FIE.le_ofInt s s' (natAbs_lt_of_range s hs0 (by omega)) (natAbs_lt_of_range s' (by omega) hs')]
    exact decide_eq_true hss
  have fm := (finite_of_add_finite _ _ hf).2
  have fm' := (finite_of_add_finite _ _ hf').2
  have h2 := FTL.mul_le_mul_right_float _ _ p.spanDuration h1 hdur (not_nan_of_finite _ fm) (not_nan_of_finite _ fm')
  exact FTL.add_le_add_left_float p.startTime _ _ h2 (not_nan_of_finite _ hf) (not_nan_of_finite _ hf')

/-- head `≤` every span start. -/
theorem head_le_span_start_float (p : Params Float) (s : Int) (hs0 : 0 ≤ s) (hs : s < 2 ^ 31)
    (hdur : Scalar.le (0 : Float) p.spanDuration = true) (hf : (spanStart p s).isFinite = true) :
    Scalar.le (headEvent p).time (spanStart p s) = true :=
  le_add_nonneg_float p.startTime _ (span_offset_nonneg_float p s hs0 hs hdur hf) hf

/-- a span starts no later than its repeat. -/
theorem span_start_le_repeat_float (p : Params Float) (s : Int)
    (hdur : Scalar.le (0 : Float) p.spanDuration = true) (hf : (repeatEvent p s).time.isFinite = true) :
    Scalar.le (spanStart p s) (repeatEvent p s).time = true :=
  le_add_nonneg_float _ _ hdur hf

/-- **head_le_repeat_float**: the head's time is `≤` the time of every repeat (`0 ≤ s < 2³¹`, `0 ≤ D`, finite repeat
time) in the IEEE order. -/
theorem head_le_repeat_float (p : Params Float) (s : Int) (hs0 : 0 ≤ s) (hs : s < 2 ^ 31)
    (hdur : Scalar.le (0 : Float) p.spanDuration = true) (hf : (repeatEvent p s).time.isFinite = true) :
    Scalar.le (headEvent p).time (repeatEvent p s).time = true := by
  have fS : (spanStart p s).isFinite = true := (finite_of_add_finite _ _ hf).1
  exact FMO.le_trans _ _ _ (head_le_span_start_float p s hs0 hs hdur fS) (span_start_le_repeat_float p s hdur hf)

/-- **head_le_tail_float**: head `≤` tail (`0 ≤ n < 2³¹`, `0 ≤ D`, finite tail time). -/
theorem head_le_tail_float (p : Params Float) (hn0 : 0 ≤ p.spanCount) (hn : p.spanCount < 2 ^ 31)
    (hdur : Scalar.le (0 : Float) p.spanDuration = true) (hf : (tailEvent p).time.isFinite = true) :
    Scalar.le (headEvent p).time (tailEvent p).time = true :=
  head_le_span_start_float p p.spanCount hn0 hn hdur hf

/-- every span (`0 ≤ s ≤ n`) starts no later than the tail. -/
theorem span_start_le_tail_float (p : Params Float) (s : Int) (hs0 : 0 ≤ s) (hsn : s ≤ p.spanCount)
    (hn : p.spanCount < 2 ^ 31) (hdur : Scalar.le (0 : Float) p.spanDuration = true)
    (hfs : (spanStart p s).isFinite = true) (hf : (tailEvent p).time.isFinite = true) :
    Scalar.le (spanStart p s) (tailEvent p).time = true :=
  span_start_mono_float p s p.spanCount hs0 hsn hn hdur hfs hf

theorem lastTickHalf_eq (p : Params Float) :
    lastTickHalf p = p.startTime + Float.ofInt p.spanCount * p.spanDuration / 2 := rfl

/-- the half-way operand of the last tick is `≥` the head … -/
theorem head_le_last_tick_half_float (p : Params Float) (hn0 : 0 ≤ p.spanCount) (hn : p.spanCount < 2 ^ 31)
    (hdur : Scalar.le (0 : Float) p.spanDuration = true) (hfa : (lastTickHalf p).isFinite = true) :
    Scalar.le (headEvent p).time (lastTickHalf p) = true := by
  rw [lastTickHalf_eq] at hfa ⊢
  have fh := (finite_of_add_finite _ _ hfa).2
  have ft := finite_of_div_finite _ _ fh
  have h0 := mul_nonneg_float _ _ (ofInt_nonneg_float _ hn0 hn) hdur ft
  exact le_add_nonneg_float p.startTime _ (half_nonneg_float _ h0 fh) hfa

/-- … and `≤` the tail. -/
theorem last_tick_half_le_tail_float (p : Params Float) (hn0 : 0 ≤ p.spanCount) (hn : p.spanCount < 2 ^ 31)
    (hdur : Scalar.le (0 : Float) p.spanDuration = true) (hfa : (lastTickHalf p).isFinite = true)
    (hf : (tailEvent p).time.isFinite = true) :
    Scalar.le (lastTickHalf p) (tailEvent p).time = true := by
  rw [lastTickHalf_eq] at hfa ⊢
  rw [tailEvent_time, spanStart_eq] at hf ⊢
  have fh := (finite_of_add_finite _ _ hfa).2
  have ft := finite_of_div_finite _ _ fh
  have h0 := mul_nonneg_float _ _ (ofInt_nonneg_float _ hn0 hn) hdur ft
  exact FTL.add_le_add_left_float p.startTime _ _ (half_le_self_float _ ft h0 fh) (not_nan_of_finite _ hfa)
    (not_nan_of_finite _ hf)

/-- **head_le_last_tick_float**: head `≤` last tick (weakly — the exact-arithmetic claim is strict and fails on doubles,
`strict_order_fails_float`), for finite operands of the `max`. -/
theorem head_le_last_tick_float (p : Params Float) (hn0 : 0 ≤ p.spanCount) (hn : p.spanCount < 2 ^ 31)
    (hdur : Scalar.le (0 : Float) p.spanDuration = true) (hfa : (lastTickHalf p).isFinite = true)
    (hfb : (lastTickEnd p).isFinite = true) :
    Scalar.le (headEvent p).time (lastTickEvent p).time = true := by
  rw [lastTickEvent_time]
  exact FMO.le_trans _ _ _ (head_le_last_tick_half_float p hn0 hn hdur hfa)
    (FMO.le_max_left _ _ (not_nan_of_finite _ hfa) (not_nan_of_finite _ hfb))

/-! ## what needs a magnitude hypothesis -/

/-- **last_tick_le_tail_float** — the last tick is not later than the tail **when `|start| + n·D ≤ 2⁵⁴`** (times below
`1.8e16` ms): `1 ≤ n < 2³¹`, `0 ≤ D`, finite operands and tail. The half-way operand needs no magnitude hypothesis
(`last_tick_half_le_tail_float`); the end operand is compared through the error bounds — `36` ms dominate the rounding
errors `10u·(|A| + nD) + 36u + …` only while the times are below `≈ 2⁵⁴·⁸`. Without the hypothesis the statement is false:
`last_tick_gt_tail_float`. -/
theorem last_tick_le_tail_float (p : Params Float) (hn0 : 0 < p.spanCount) (hn : p.spanCount < 2 ^ 31)
    (hdur : Scalar.le (0 : Float) p.spanDuration = true) (hfa : (lastTickHalf p).isFinite = true)
    (hfb : (lastTickEnd p).isFinite = true) (hf : (tailEvent p).time.isFinite = true)
    (hM : |toRat p.startTime| + (p.spanCount : ℚ) * toRat p.spanDuration ≤ (2 : ℚ) ^ (54 : Int)) :
    Scalar.le (lastTickEvent p).time (tailEvent p).time = true := by
  rw [lastTickEvent_time]
  rcases FMO.max_cases (lastTickHalf p) (lastTickEnd p) with h | h <;> rw [h]
  · exact last_tick_half_le_tail_float p hn0.le hn hdur hfa hf
  · refine le_of_toRat_le _ _ hfb hf ?_
    have h1 := (abs_le.mp (last_tick_end_err_float p hn0 hn hfb hdur)).2
    have h2 := (abs_le.mp (tail_time_err_float p hn0.le hn hf hdur)).1
    have h72 : (2 : ℚ) ^ (-1072 : Int) ≤ 1 := by
      have : (2 : ℚ) ^ (-1072 : Int) ≤ (2 : ℚ) ^ (0 : Int) := zpow_le_zpow_right₀ (by norm_num) (by norm_num)
      simpa using this
    have h74 : (2 : ℚ) ^ (-1074 : Int) ≤ 1 := by
      have : (2 : ℚ) ^ (-1074 : Int) ≤ (2 : ℚ) ^ (0 : Int) := zpow_le_zpow_right₀ (by norm_num) (by norm_num)
      simpa using this
    have hu : u₅₃ * (2 : ℚ) ^ (54 : Int) = 2 := by
      rw [← zpow_add₀ (two_ne_zero)]; norm_num
    have hMu : u₅₃ * (|toRat p.startTime| + (p.spanCount : ℚ) * toRat p.spanDuration) ≤ 2 := by
      have := mul_le_mul_of_nonneg_left hM u53_pos.le
      rwa [hu] at this
    have hu1 : u₅₃ ≤ 1 / 100 := by norm_num
    linarith

/-- the unconditional claim for the repeats of the stream (`s + 2 ≤ n`): NOT proved here. -/
def repeat_le_tail_statement : Prop :=
  ∀ (p : Params Float) (s : Int), 0 ≤ s → s + 2 ≤ p.spanCount → p.spanCount < 2 ^ 31 →
    Scalar.le (0 : Float) p.spanDuration = true → (repeatEvent p s).time.isFinite = true →
    (tailEvent p).time.isFinite = true → Scalar.le (repeatEvent p s).time (tailEvent p).time = true

/-- **repeat_le_tail_partial**: the repeat ending span `s` is `≤` the tail when the remaining `(n − s − 1)` spans are
longer than the two rounding errors: `8u·(|A| + n·D) + 2⁻¹⁰⁷² ≤ (n − s − 1)·D`. What is missing for
`repeat_le_tail_statement`: the case of a span duration that is tiny against `|A| + n·D` (the two times are then within
a few ulps and are reached along different rounding paths; for `s = n − 1` the order does fail,
`final_span_end_gt_tail_float`). -/
theorem repeat_le_tail_partial (p : Params Float) (s : Int) (hs0 : 0 ≤ s) (hsn : s + 1 ≤ p.spanCount)
    (hn : p.spanCount < 2 ^ 31) (hdur : Scalar.le (0 : Float) p.spanDuration = true)
    (hfr : (repeatEvent p s).time.isFinite = true) (hf : (tailEvent p).time.isFinite = true)
    (hgap : 8 * u₅₃ * (|toRat p.startTime| + (p.spanCount : ℚ) * toRat p.spanDuration) + (2 : ℚ) ^ (-1072 : Int) ≤
      ((p.spanCount : ℚ) - (s : ℚ) - 1) * toRat p.spanDuration) :
    Scalar.le (repeatEvent p s).time (tailEvent p).time = true := by
  refine le_of_toRat_le _ _ hfr hf ?_
  have h1 := (abs_le.mp (repeat_time_err_float p s hs0 hsn hn hfr hdur)).2
  have h2 := (abs_le.mp (tail_time_err_float p (by omega) hn hf hdur)).1
  rw [← eight_eta] at hgap
  rw [← four_eta] at h1
  rw [← two_eta] at h2
  have := eta_pos
  linarith

/-! ## what fails (kernel-evaluated witnesses) -/

section Witnesses

/-- start `4315109256246861` (`≈ 2⁵¹·⁹`, ulp `0.5`), span duration `1.875`, `11` spans. -/
def wEnd : Params Float :=
  { exG with startTime := Float.ofBits 0x432EA92354C56C9A, spanDuration := Float.ofBits 0x3FFE000000000000,
             spanCount := 11 }

/-- the same scaled by `2¹⁰`: start `≈ 4.4e18` (ulp `512`), span duration `1920`, `11` spans. -/
def wLate : Params Float :=
  { exG with startTime := Float.ofBits 0x43CEA92354C56C9A, spanDuration := Float.ofBits 0x409E000000000000,
             spanCount := 11 }

/-- start `2⁵³`, span duration `0.25`, `2` spans. -/
def wFlat : Params Float :=
  { exG with startTime := Float.ofBits 0x4340000000000000, spanDuration := Float.ofBits 0x3FD0000000000000,
             spanCount := 2 }

/-- **the end of the final span, computed as `final_span_start + span_duration`, can exceed the tail's time**
`start + n·span_duration`: on `wEnd` it is one ulp above (`…CC4` against `…CC3`); all values finite, `D > 0`. The
exact-arithmetic identity `start_{n−1} + D = start + n·D` (`last_tick_formula`) does not survive rounding, not even as
`≤`. -/
theorem final_span_end_gt_tail_float :
    (repeatEvent wEnd 10).time = Float.ofBits 0x432EA92354C56CC4 ∧
    (tailEvent wEnd).time = Float.ofBits 0x432EA92354C56CC3 ∧
    Scalar.lt (tailEvent wEnd).time (repeatEvent wEnd 10).time = true ∧
    Scalar.le (repeatEvent wEnd 10).time (tailEvent wEnd).time = false ∧
    (repeatEvent wEnd 10).time.isFinite = true ∧ (tailEvent wEnd).time.isFinite = true ∧
    Scalar.lt (0 : Float) wEnd.spanDuration = true := by
  refine ⟨?_, ?_, ?_, ?_, ?_, ?_, ?_⟩ <;> decide +kernel

/-- **`last tick ≤ tail` is false on doubles** (`stream_ordering_exact`'s last claim): on `wLate` the last tick
(`= final span end − 36`, the `−36` absorbed) is one ulp (`512` ms) after the tail. All hypotheses of
`last_tick_le_tail_float` except the magnitude bound hold. -/
theorem last_tick_gt_tail_float :
    (lastTickEvent wLate).time = Float.ofBits 0x43CEA92354C56CC4 ∧
    (tailEvent wLate).time = Float.ofBits 0x43CEA92354C56CC3 ∧
    Scalar.lt (tailEvent wLate).time (lastTickEvent wLate).time = true ∧
    Scalar.le (lastTickEvent wLate).time (tailEvent wLate).time = false ∧
    (lastTickHalf wLate).isFinite = true ∧ (lastTickEnd wLate).isFinite = true ∧
    (tailEvent wLate).time.isFinite = true ∧ Scalar.le (0 : Float) wLate.spanDuration = true ∧
    0 < wLate.spanCount ∧ wLate.spanCount < 2 ^ 31 := by
  refine ⟨?_, ?_, ?_, ?_, ?_, ?_, ?_, ?_, ?_, ?_⟩ <;> decide +kernel

/-- the negation of the unconditional statement, as a proposition. -/
theorem last_tick_le_tail_unconditional_false :
    ¬ ∀ p : Params Float, 0 < p.spanCount → p.spanCount < 2 ^ 31 → Scalar.le (0 : Float) p.spanDuration = true →
      (lastTickHalf p).isFinite = true → (lastTickEnd p).isFinite = true → (tailEvent p).time.isFinite = true →
      Scalar.le (lastTickEvent p).time (tailEvent p).time = true := by
  intro h
  obtain ⟨_, _, _, h4, h5, h6, h7, h8, h9, h10⟩ := last_tick_gt_tail_float
  rw [h wLate h9 h10 h8 h5 h6 h7] at h4
  cases h4

/-- **the strict claims fail**: on `wFlat` (span duration a quarter of a millisecond at start `2⁵³`, ulp `2`) the head,
the repeat of span 0, the last tick and the tail all carry the time `2⁵³`: `head < repeat`, `repeat < tail`,
`head < last tick` of `stream_ordering_exact` are false in the IEEE order (`D > 0`, everything finite). -/
theorem strict_order_fails_float :
    (headEvent wFlat).time = Float.ofBits 0x4340000000000000 ∧
    (repeatEvent wFlat 0).time = Float.ofBits 0x4340000000000000 ∧
    (lastTickEvent wFlat).time = Float.ofBits 0x4340000000000000 ∧
    (tailEvent wFlat).time = Float.ofBits 0x4340000000000000 ∧
    Scalar.lt (headEvent wFlat).time (repeatEvent wFlat 0).time = false ∧
    Scalar.lt (repeatEvent wFlat 0).time (tailEvent wFlat).time = false ∧
    Scalar.lt (headEvent wFlat).time (lastTickEvent wFlat).time = false ∧
    Scalar.lt (0 : Float) wFlat.spanDuration = true := by
  refine ⟨?_, ?_, ?_, ?_, ?_, ?_, ?_, ?_⟩ <;> decide +kernel

end Witnesses

/-! ## non-vacuity of the positive results (`exG`, `exH`) -/

section Examples

example : Scalar.le (headEvent exH).time (repeatEvent exH 1).time = true :=
  head_le_repeat_float exH 1 (by decide) (by decide) exH_forms_hyps.2.2.2.2.2.2.2 exH_forms_hyps.2.1

example : Scalar.le (headEvent exG).time (tailEvent exG).time = true :=
  head_le_tail_float exG (by decide) (by decide) exG_forms_hyps.2.2.2.2.2.2 exG_forms_hyps.2.1

example : Scalar.le (headEvent exH).time (lastTickEvent exH).time = true :=
  head_le_last_tick_float exH (by decide) (by decide) exH_forms_hyps.2.2.2.2.2.2.2 exH_forms_hyps.2.2.2.1
    exH_forms_hyps.2.2.2.2.1

theorem exH_magnitude :
    |toRat exH.startTime| + (exH.spanCount : ℚ) * toRat exH.spanDuration ≤ (2 : ℚ) ^ (54 : Int) ∧
    8 * u₅₃ * (|toRat exH.startTime| + (exH.spanCount : ℚ) * toRat exH.spanDuration) + (2 : ℚ) ^ (-1072 : Int) ≤
      ((exH.spanCount : ℚ) - ((1 : Int) : ℚ) - 1) * toRat exH.spanDuration := by
  have b : exH.startTime.toModel.unpack = .finite .positive 7205759403792794 (-56) (by decide) := by
    have : exH.startTime = Float.ofBits 0x3FB999999999999A := by decide +kernel
    rw [this, FM.float_unpack_ofBits _ (by decide)]; rfl
  have c : exH.spanDuration.toModel.unpack = .finite .positive 5863475608603853 (-44) (by decide) := by
    have : exH.spanDuration = Float.ofBits 0x4074D4CCCCCCCCCD := by decide +kernel
    rw [this, FM.float_unpack_ofBits _ (by decide)]; rfl
  have hn : (exH.spanCount : ℚ) = 3 := by
    have : exH.spanCount = 3 := rfl
    rw [this]; norm_num
  have h72 : (2 : ℚ) ^ (-1072 : Int) ≤ (2 : ℚ) ^ (-10 : Int) := zpow_le_zpow_right₀ (by norm_num) (by norm_num)
  rw [toRat_of_unpack b, toRat_of_unpack c, hn]
  constructor
  · norm_num [sgnQ]
  · refine le_trans (add_le_add (le_refl _) h72) ?_
    norm_num [sgnQ]

/-- `last_tick_le_tail_float` and `repeat_le_tail_partial` on `exH` (last tick `964.0`, repeat of span 1 `666.7`, tail
`1000.0000000000001`). -/
example : Scalar.le (lastTickEvent exH).time (tailEvent exH).time = true :=
  last_tick_le_tail_float exH (by decide) (by decide) exH_forms_hyps.2.2.2.2.2.2.2 exH_forms_hyps.2.2.2.1
    exH_forms_hyps.2.2.2.2.1 exH_forms_hyps.2.2.1 exH_magnitude.1

example : Scalar.le (repeatEvent exH 1).time (tailEvent exH).time = true :=
  repeat_le_tail_partial exH 1 (by decide) (by decide) (by decide) exH_forms_hyps.2.2.2.2.2.2.2 exH_forms_hyps.2.1
    exH_forms_hyps.2.2.1 exH_magnitude.2

end Examples

end Rosu.C20
