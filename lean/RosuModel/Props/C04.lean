/-
  Props/C04.lean — the encoder only emits text that its own decoder accepts.

  Proved here (helper lemmas in Lemmas/{Digits,EncodeLines,CodecLaws,Rt*}.lean):
  * the shape of the output (`encode_shape`, `headers_recognised`, `block_starts_with_header`) and that reading the
    text back hands the framing driver exactly its end-trimmed lines (`encoded_text_lines`);
  * `version_line_parses`;
  * per block, for the six record sections: the block is its header line followed by the listed record lines
    (`record_blocks_are_lines`), and every record line is neither a header nor skipped and is accepted by that
    section's parser in whatever state (`record_lines_accepted_metadata`, `…_colours`: unconditional;
    `…_editor`, `…_difficulty`, `…_general`, `…_events`: for every lawful number codec);
  * `lines_dispatched`: read back through the framing driver, each block's record lines reach exactly that
    section's parser, in order — for any decoder;
  * `record_blocks_accepted_and_recovered`: the file-level statement for the six record blocks.
  * `hitobject_lines_accepted_partial`: the lines of circles, spinners and hold notes are LF-free record lines accepted by
    `parse_hit_objects` in any state, and the same kind of object comes back (for every lawful codec).
  Slider lines and the statement over all four kinds are in Props/C04Slider.lean (`slider_line_accepted`,
  `hitobject_lines_accepted`, `hitobjects_block_accepted`). The `[TimingPoints]` block is in Props/C04Timing.lean
  (`timing_block_lines`, `timing_lines_accepted`, `record_and_timing_blocks_accepted`).
  Still only a statement in THIS file (evaluated by the `lines` oracle and the `enc` correspondence): that every
  object and every collected control point of a decoded map is representable, and hence the unconditional
  `list_block_lines_accepted_statement`.
-/
import RosuModel.Model.Encode
import RosuModel.Props.C10
import RosuModel.Lemmas.RtFile
import RosuModel.Lemmas.RtObjects
namespace Rosu.C04
open Rosu Encode EncodeLines C11

variable {F P : Type} [Scalar F] [Scalar P] [Cvt P F] [Trig F] [Trig P]

/-- the eight headers the encoder writes are exactly the recognised headers of their sections. -/
theorem headers_recognised :
    Section.tryFromLine (str "[General]") = some .general ∧
    Section.tryFromLine (str "[Editor]") = some .editor ∧
    Section.tryFromLine (str "[Metadata]") = some .metadata ∧
    Section.tryFromLine (str "[Difficulty]") = some .difficulty ∧
    Section.tryFromLine (str "[Events]") = some .events ∧
    Section.tryFromLine (str "[TimingPoints]") = some .timingPoints ∧
    Section.tryFromLine (str "[Colours]") = some .colors ∧
    Section.tryFromLine (str "[HitObjects]") = some .hitObjects := by decide

/-- **encode_shape**: the encoded text is the version line, then the eight blocks in canonical order,
each introduced by a blank line and starting with its header. -/
theorem encode_shape (m : Beatmap F P) (t : Str) (h : encode m = .ok t) :
    ∃ timing objects,
      encodeTimingPoints m = .ok timing ∧ encodeHitObjects m = .ok objects ∧
      t = str "osu file format v" ++ showInt m.formatVersion ++ Encode.nl ++
        Encode.nl ++ encodeGeneral m ++ Encode.nl ++ encodeEditor m ++ Encode.nl ++ encodeMetadata m ++ Encode.nl ++
        encodeDifficulty m ++ Encode.nl ++ encodeEvents m ++ Encode.nl ++ timing ++ Encode.nl ++ encodeColors m ++
        Encode.nl ++ objects := by
  unfold encode at h
  cases ht : encodeTimingPoints m with
  | error e => simp [ht, bind, Except.bind] at h
  | ok timing =>
    cases ho : encodeHitObjects m with
    | error e => simp [ht, ho, bind, Except.bind] at h
    | ok objects =>
      simp only [ht, ho, bind, Except.bind, pure, Except.pure] at h
      injection h with h
      exact ⟨timing, objects, rfl, rfl, h.symm⟩

theorem block_starts_with_header (m : Beatmap F P) :
    (∃ r, encodeGeneral m = str "[General]\n" ++ r) ∧ (∃ r, encodeEditor m = str "[Editor]\n" ++ r) ∧
    (∃ r, encodeMetadata m = str "[Metadata]\n" ++ r) ∧ (∃ r, encodeDifficulty m = str "[Difficulty]\n" ++ r) ∧
    (∃ r, encodeEvents m = str "[Events]\n" ++ r) ∧ (∃ r, encodeColors m = str "[Colours]\n" ++ r) := by
  refine ⟨⟨_, rfl⟩, ⟨_, rfl⟩, ⟨_, rfl⟩, ⟨_, rfl⟩, ⟨_, rfl⟩, ⟨_, rfl⟩⟩

/-- the text of an encoded map, read back through the reader: the lines the framing driver sees are
the text's own lines with trailing whitespace removed (C10's `utf8_lines`; the text starts with `o`,
not with a byte-order mark). -/
theorem encoded_text_lines {σ : Type} (D : LineDecoder σ) (t : Str) (h : t.head? ≠ some (Char.ofNat 0xFEFF)) :
    decodeBytes D (utf8Encode t) = .ok (frame D ((textLines t).map trimEnd)) :=
  RtFile.decodeBytes_utf8_text D t h

/-- **version_line_parses**: the first line is read back as exactly the map's format version (any `i32` within
the decoder's limit ±(2³¹−1); the decoder only ever produces such a version, or 14). -/
theorem version_line_parses (v : Int) (hlo : -i32Max ≤ v) (hhi : v ≤ i32Max) :
    tryVersionFromLine (str "osu file format v" ++ showInt v) = .found v :=
  Rosu.version_line_parses v hlo hhi

example : tryVersionFromLine (str "osu file format v" ++ showInt (-7)) = .found (-7) :=
  version_line_parses (-7) (by decide) (by decide)

/-- **the six record blocks are lines**: each is its header line followed by the record lines listed in
Lemmas/Rt*.lean, every line LF-terminated. -/
theorem record_blocks_are_lines (m : Beatmap F P) :
    encodeGeneral m = unlines (str "[General]" :: RtGeneral.generalLines m.general (RtGeneral.sampleSetOf m.controlPoints)) ∧
    encodeEditor m = unlines (str "[Editor]" :: RtEditor.editorLines m.editor) ∧
    encodeMetadata m = unlines (str "[Metadata]" :: RtMetadata.metadataLines m.metadata) ∧
    encodeDifficulty m = unlines (str "[Difficulty]" :: RtDifficulty.difficultyLines m.difficulty) ∧
    encodeEvents m = unlines (str "[Events]" :: RtEvents.eventLines m.events) ∧
    encodeColors m = unlines (str "[Colours]" :: RtColours.colourLines m.colors) :=
  ⟨RtGeneral.encodeGeneral_eq m, RtEditor.encodeEditor_eq m, RtMetadata.encodeMetadata_eq m,
   RtDifficulty.encodeDifficulty_eq m, RtEvents.encodeEvents_eq m, RtColours.encodeColors_eq m⟩

/-- such a text is cut back into exactly those lines, and the reader's end-trim removes the terminators. -/
theorem lines_of_block (ls : List Str) (h : ∀ l ∈ ls, '\n' ∉ l) : (textLines (unlines ls)).map trimEnd = ls.map trimEnd :=
  lines_of_unlines ls h

section
variable {RF : F → Prop} {RP : P → Prop}

/-- **[Metadata]** every record line of the block is a record line (not a header, not skipped — whatever the texts
contain) and is accepted by `parse_metadata` in any state. No number law is needed. -/
theorem record_lines_accepted_metadata (d : Metadata) (h : RtMetadata.RepMetadata d) :
    ∀ r ∈ RtMetadata.decodedLines d, RecordLine r ∧ ∀ st, (parseMetadata st r).2 = true :=
  fun r hr => ⟨RtMetadata.metadata_lines_are_records d h r hr, RtMetadata.metadata_lines_accepted d h r hr⟩

/-- **[Colours]** likewise for `Combo{i}` and custom colour lines. -/
theorem record_lines_accepted_colours (c : Colors) (h : RtColours.RepColors c) :
    ∀ r ∈ RtColours.decodedLines c, RecordLine r ∧ ∀ st, (parseColors st r).2 = true :=
  RtColours.colour_lines_spec c h

/-- **[Editor]** for every lawful codec. -/
theorem record_lines_accepted_editor (LF : CodecLaws F RF) (e : Editor F) (h : RtEditor.RepEditor RF e) :
    ∀ r ∈ RtEditor.decodedLines e, RecordLine r ∧ ∀ st : Editor F, (parseEditor st r).2 = true :=
  RtEditor.editor_lines_spec LF e h

/-- **[Difficulty]** for every lawful pair of codecs. -/
theorem record_lines_accepted_difficulty (LF : CodecLaws F RF) (LP : CodecLaws P RP) (d : Difficulty F P)
    (h : RtDifficulty.RepDifficulty RF RP d) :
    ∀ r ∈ RtDifficulty.decodedLines d, RecordLine r ∧ ∀ st : DifficultyState F P, (parseDifficulty st r).2 = true :=
  RtDifficulty.difficulty_lines_spec LF LP d h

/-- **[General]** for every lawful codec (and `AudioLeadIn` printed like an integer). -/
theorem record_lines_accepted_general (LI : IntPrintLaw F) (LP : CodecLaws P RP) (g : GeneralState F P) (ss : SampleBank)
    (h : RtGeneral.RepGeneral RP g) :
    ∀ r ∈ RtGeneral.decodedLines g ss, RecordLine r ∧ ∀ st : GeneralState F P, (parseGeneral st r).1 = .ok () := by
  intro r hr
  obtain ⟨h1, h2⟩ := RtGeneral.general_lines_spec LI LP g ss h r hr
  refine ⟨h1, fun st => ?_⟩
  have := h2 st
  simp only [RtGeneral.generalStep] at this
  cases hp : (parseGeneral st r).1 with
  | ok u => rfl
  | error e => rw [hp] at this; cases this

/-- **[Events]** background and break lines, for every lawful codec. -/
theorem record_lines_accepted_events (LF : CodecLaws F RF) (e : Events F) (h : RtEvents.RepEvents RF e) :
    ∀ r ∈ RtEvents.decodedLines e, RecordLine r ∧ ∀ st : Events F, (parseEvents st r).2 = true :=
  RtEvents.event_lines_spec LF e h

end

/-- **lines_dispatched** (no line is dropped or handed to another section): for any decoder, framing the file's
lines sets the version from the first line and folds each block's record lines, in order, through exactly that
section's step function. -/
theorem lines_dispatched {σ : Type} (Dc : LineDecoder σ) (v : Int) (hlo : -i32Max ≤ v) (hhi : v ≤ i32Max)
    (G E M D Ev T C H : List Str)
    (hG : ∀ r ∈ G, RecordLine r) (hE : ∀ r ∈ E, RecordLine r) (hM : ∀ r ∈ M, RecordLine r) (hD : ∀ r ∈ D, RecordLine r)
    (hEv : ∀ r ∈ Ev, RecordLine r) (hT : ∀ r ∈ T, RecordLine r) (hC : ∀ r ∈ C, RecordLine r) (hH : ∀ r ∈ H, RecordLine r) :
    frame Dc (RtFile.fileLines v G E M D Ev T C H) =
      H.foldl (Dc.step .hitObjects) (C.foldl (Dc.step .colors) (T.foldl (Dc.step .timingPoints)
        (Ev.foldl (Dc.step .events) (D.foldl (Dc.step .difficulty) (M.foldl (Dc.step .metadata)
          (E.foldl (Dc.step .editor) (G.foldl (Dc.step .general) (Dc.create v)))))))) :=
  RtFile.frame_fileLines Dc v hlo hhi G E M D Ev T C H hG hE hM hD hEv hT hC hH

example : (frame recorder (RtFile.fileLines 14 [str "Mode: 1"] [] [str "Title:", str "Artist: [General]"] [] [] [] [] [])).calls.reverse =
    [(.general, str "Mode: 1"), (.metadata, str "Title:"), (.metadata, str "Artist: [General]")] := by decide

section
variable {RF : F → Prop} {RP : P → Prop}

/-- **record_blocks_accepted_and_recovered** — the file-level statement for the six record blocks. For a map whose
record sections are representable, under the codec laws, and whose two list blocks consist of LF-terminated record
lines: the encoded text is the version line and the eight blocks as lines; read back from its UTF-8 bytes through the
reader and the framing driver with the `Beatmap` decoder, reading succeeds and the decoder state holds exactly the
map's record fields (format version, general, editor, metadata, difficulty, events, colours — on the preserved
view). That every one of those record lines is accepted is `record_lines_accepted_*`. -/
theorem record_blocks_accepted_and_recovered (LF : CodecLaws F RF) (LP : CodecLaws P RP) (LI : IntPrintLaw F)
    (m : Beatmap F P) (hm : RtFile.RepRecords RF RP m) (t : Str) (T H : List Str) (h : encode m = .ok t)
    (hT : encodeTimingPoints m = .ok (unlines (str "[TimingPoints]" :: T)))
    (hH : encodeHitObjects m = .ok (unlines (str "[HitObjects]" :: H)))
    (sT : RtFile.ListBlockShape T) (sH : RtFile.ListBlockShape H) :
    t = unlines (RtFile.fileLines m.formatVersion (RtGeneral.generalLines m.general (RtGeneral.sampleSetOf m.controlPoints))
      (RtEditor.editorLines m.editor) (RtMetadata.metadataLines m.metadata) (RtDifficulty.difficultyLines m.difficulty)
      (RtEvents.eventLines m.events) T (RtColours.colourLines m.colors) H) ∧
    ∃ st : BeatmapState F P, decodeBytes beatmapDecoder (utf8Encode t) = .ok st ∧
      RtFile.recView st = RtFile.preservedRecords m :=
  ⟨RtFile.encode_eq_unlines m t T H h hT hH, RtFile.file_record_roundtrip LF LP LI m hm t T H h hT hH sT sH⟩

end

section
variable {RF : F → Prop} {RP : P → Prop}

/-- **hitobject_lines_accepted_partial** — circles, spinners and hold notes (sliders missing). Under the codec laws, the
line `encode_hit_objects` writes for such an object (representable: integral coordinates within ±131072, times within
the parse limit, combo offset 0..7, sample file name without `: , |`, line feed or `//` and not ending in white space)
is LF-terminated and LF-free, is a record line (neither header nor skipped), and is accepted by `parse_hit_objects`
in whatever state; and the same kind of object comes back (`same_record_kind`): the state grows by exactly one object
of that kind. -/
theorem hitobject_lines_accepted_partial (LF : CodecLaws F RF) (LP : CodecLaws P RP) (mode : GameMode) (h : HitObject F P)
    (st : HOCore F P) :
    (∀ c, h.kind = .circle c → RtObjects.RepCircle RF RP mode h c →
      ∃ l k, encodeObject mode h = .ok (l ++ EncodeLines.nl) ∧ '\n' ∉ l ∧ RecordLine (trimEnd l) ∧
        parseHitObjectLine mode st (trimEnd l) = (RtObjects.pushed st 1 h.startTime (.circle k) (RtObjects.decodedSamples h.samples mode), true)) ∧
    (∀ sp, h.kind = .spinner sp → RtObjects.RepSpinner RF RP mode h sp →
      ∃ l k, encodeObject mode h = .ok (l ++ EncodeLines.nl) ∧ '\n' ∉ l ∧ RecordLine (trimEnd l) ∧
        parseHitObjectLine mode st (trimEnd l) = (RtObjects.pushed st 8 h.startTime (.spinner k) (RtObjects.decodedSamples h.samples mode), true)) ∧
    (∀ ho, h.kind = .hold ho → RtObjects.RepHold RF RP mode h ho →
      ∃ l k, encodeObject mode h = .ok (l ++ EncodeLines.nl) ∧ '\n' ∉ l ∧ RecordLine (trimEnd l) ∧
        parseHitObjectLine mode st (trimEnd l) = (RtObjects.pushed st 128 h.startTime (.hold k) (RtObjects.decodedSamples h.samples mode), true)) := by
  refine ⟨fun c hk hr => ?_, fun sp hk hr => ?_, fun ho hk hr => ?_⟩
  · obtain ⟨h1, h2, h3, h4⟩ := RtObjects.circle_line_roundtrip LF LP mode h c hk hr st
    exact ⟨_, _, h1, h2, h3, h4⟩
  · obtain ⟨h1, h2, h3, h4⟩ := RtObjects.spinner_line_roundtrip LF LP mode h sp hk hr st
    exact ⟨_, _, h1, h2, h3, h4⟩
  · obtain ⟨h1, h2, h3, h4⟩ := RtObjects.hold_line_roundtrip LF LP mode h ho hk hr st
    exact ⟨_, _, h1, h2, h3, h4⟩

/-- non-vacuity (toy codec): the circle line `256,-192,1000,53,2,2:3:0:0:`. -/
example (st : HOCore ZC ZC) := (hitobject_lines_accepted_partial ZC.laws ZC.laws GameMode.osu RtObjects.sampleCircleObj st).1
  RtObjects.sampleCircle rfl RtObjects.sampleCircle_rep

end

/-- the remainder of C04, not yet a theorem: for a decoded map (and lawful codecs), the `[TimingPoints]` and
`[HitObjects]` blocks are LF-terminated record lines, each accepted by its section's parser in the state the
preceding lines leave. -/
def list_block_lines_accepted_statement : Prop :=
  ∀ (F P : Type) [Scalar F] [Scalar P] [Cvt P F] [Trig F] [Trig P] (RF : F → Prop) (RP : P → Prop),
    CodecLaws F RF → CodecLaws P RP →
    ∀ (x : List Str) (st : BeatmapState F P) (m : Beatmap F P) (timing objects : Str),
      frame beatmapDecoder x = st → st.finish = .ok m →
      encodeTimingPoints m = .ok timing → encodeHitObjects m = .ok objects →
      ∃ T H, timing = unlines (str "[TimingPoints]" :: T) ∧ objects = unlines (str "[HitObjects]" :: H) ∧
        RtFile.ListBlockShape T ∧ RtFile.ListBlockShape H ∧
        Accepts (fun s l => ((parseTimingPoints s l).2, (parseTimingPoints s l).1.isOk)) st.hitObjects.timingPoints (T.map trimEnd) ∧
        Accepts (parseHitObjectLine m.general.mode) ({} : HOCore F P) (H.map trimEnd)

end Rosu.C04
