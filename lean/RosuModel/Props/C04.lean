/-
  Props/C04.lean — the encoder only emits text that its own decoder accepts.
  (The line-level round-trip lemmas shared with C02/C03 are in Lemmas/EncodeLines.lean.)
-/
import RosuModel.Model.Encode
import RosuModel.Props.C10
namespace Rosu.C04
open Rosu Encode

variable {F P : Type} [Scalar F] [Scalar P] [Cvt P F] [Trig F] [Trig P]

/-- the eight headers the encoder writes are exactly the recognised headers of their sections. -/
theorem headers_recognised :
    Section.tryFromLine (str "[General]") = some .general ∧
    Section.tryFromLine (str "[Editor]") = some .editor ∧
    Section.tryFromLine (str "[Metadata]") = some .metadata ∧
    Section.tryFromLine (str "[Difficulty]") = some .difficulty ∧
    Section.tryFromLine (str "[Events]") = some .events ∧
    Section.tryFromLine (str "[TimingPoints]") = some .timingPoints ∧
    Section.tryFromLine (str "[Colours]") = some .colors ∧
    Section.tryFromLine (str "[HitObjects]") = some .hitObjects := by decide

/-- **encode_shape**: the encoded text is the version line, then the eight blocks in canonical order,
each introduced by a blank line and starting with its header. -/
theorem encode_shape (m : Beatmap F P) (t : Str) (h : encode m = .ok t) :
    ∃ timing objects,
      encodeTimingPoints m = .ok timing ∧ encodeHitObjects m = .ok objects ∧
      t = str "osu file format v" ++ showInt m.formatVersion ++ nl ++
        nl ++ encodeGeneral m ++ nl ++ encodeEditor m ++ nl ++ encodeMetadata m ++ nl ++ encodeDifficulty m ++
        nl ++ encodeEvents m ++ nl ++ timing ++ nl ++ encodeColors m ++ nl ++ objects := by
  unfold encode at h
  cases ht : encodeTimingPoints m with
  | error e => simp [ht, bind, Except.bind] at h
  | ok timing =>
    cases ho : encodeHitObjects m with
    | error e => simp [ht, ho, bind, Except.bind] at h
    | ok objects =>
      simp only [ht, ho, bind, Except.bind, pure, Except.pure] at h
      injection h with h
      exact ⟨timing, objects, rfl, rfl, h.symm⟩

theorem block_starts_with_header (m : Beatmap F P) :
    (∃ r, encodeGeneral m = str "[General]\n" ++ r) ∧ (∃ r, encodeEditor m = str "[Editor]\n" ++ r) ∧
    (∃ r, encodeMetadata m = str "[Metadata]\n" ++ r) ∧ (∃ r, encodeDifficulty m = str "[Difficulty]\n" ++ r) ∧
    (∃ r, encodeEvents m = str "[Events]\n" ++ r) ∧ (∃ r, encodeColors m = str "[Colours]\n" ++ r) := by
  refine ⟨⟨_, rfl⟩, ⟨_, rfl⟩, ⟨_, rfl⟩, ⟨_, rfl⟩, ⟨_, rfl⟩, ⟨_, rfl⟩⟩

/-- the text of an encoded map, read back through the reader: the lines the framing driver sees are
the text's own lines with trailing whitespace removed (C10's `utf8_lines`; the text starts with `o`,
not with a byte-order mark). -/
theorem encoded_text_lines {σ : Type} (D : LineDecoder σ) (t : Str) (h : t.head? ≠ some (Char.ofNat 0xFEFF)) :
    decodeBytes D (utf8Encode t) = .ok (frame D ((textLines t).map trimEnd)) := by
  have hb := C10.fromBom_utf8Encode t h
  rw [C10.decodeBytes_eq, hb, C10.fromBom_none_utf8 _ hb, List.drop_zero, C10.utf8_lines]
  rfl

end Rosu.C04
