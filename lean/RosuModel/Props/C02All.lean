/-
  Props/C02All.lean — the module audited for C02: Props/C02.lean (record sections, circles, spinners, hold notes),
  Props/C02Slider.lean (path strings, slider lines, the [HitObjects] block), Props/C02Timing.lean (timing-point
  lines, redundancy suppression, the timing round trip in exact arithmetic), Props/C02Codec.lean (the model's IEEE
  number codec satisfies the codec laws), Props/C02File.lean (the parts composed: `roundtrip_rep_partial`, one
  statement about one decode of `encode m` for maps satisfying `RepMap`) and Props/C02Decoded.lean (record sections of
  every decoded map), and the map-level step "(a)": Props/C02FinalParts.lean (sort / breaks / velocity ingredients),
  Props/C02Final.lean (`Finalized`, `roundtrip_objects_rep_core`, `roundtrip_objects_rep_partial`), Props/C02FinalDecoded.lean
  (`decoded_finalized`; Props/C02FinalUnordered.lean: its chronological hypothesis is needed), Props/C02FinalMania.lean (taiko / mania, all modes), Props/C02FinalToy.lean (non-vacuity),
  Props/C02FinalCurves.lean (gap (e): the computed curves of re-decoded sliders, `roundtrip_curves_partial`) and
  Props/C02FinalScroll.lean (gap (d): `ScrollDrivesSv` of decoded taiko / mania maps, `decoded_scrollDrivesSv`; false for out-of-order timing lines).
  Props/C02IeeeTiming.lean: the timing clause on IEEE doubles — the drift of a stored slider velocity / scroll speed over
  decode → encode → decode (`sv_roundtrip_err_float`, `sv_roundtrip_not_exact_float`).
  Props/C02Capstone.lean — the CAPSTONE: `ExactLaws`, `DecodedDomain`, `PreservedEq`, `roundtrip_decoded_capstone` (one theorem about
  decoded maps, every exclusion a named field), `roundtrip_statement_full`; Props/C02CapstoneToy.lean / C02CapstoneToyRt.lean: non-vacuity on a decoded file; Props/C02CapstoneFalse.lean:
  `roundtrip_statement_full_false` (the statement without the domain is refuted on the F16 file).
  All in namespace `Rosu.C02`.
-/
import RosuModel.Props.C02Slider
import RosuModel.Props.C02Timing
import RosuModel.Props.C02Codec
import RosuModel.Props.C02File
import RosuModel.Props.C02Decoded
import RosuModel.Props.C02CodecIeee
import RosuModel.Props.IeeeFalse
import RosuModel.Props.C02DecodedIeee
import RosuModel.Props.C02FinalParts
import RosuModel.Props.C02Final
import RosuModel.Props.C02FinalDecoded
import RosuModel.Props.C02FinalMania
import RosuModel.Props.C02FinalToy
import RosuModel.Props.C02FinalUnordered
import RosuModel.Props.C02FinalCurves
import RosuModel.Props.C02FinalScroll
import RosuModel.Props.C02FinalScrollToy
import RosuModel.Props.C02FinalScrollExact
import RosuModel.Props.C02IeeeTiming
import RosuModel.Props.C02IeeeTiming2
import RosuModel.Props.C02Capstone
import RosuModel.Props.C02CapstoneToy
import RosuModel.Props.C02CapstoneToyRt
import RosuModel.Props.C02CapstoneFalse
