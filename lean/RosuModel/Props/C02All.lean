/-
  Props/C02All.lean — the module audited for C02: Props/C02.lean (record sections, circles, spinners, hold notes),
  Props/C02Slider.lean (path strings, slider lines, the [HitObjects] block) and Props/C02Timing.lean (timing-point
  lines, redundancy suppression, the timing round trip in exact arithmetic) and Props/C02Decoded.lean (the record round trip
  for every decoded map). All four are in namespace `Rosu.C02`.
-/
import RosuModel.Props.C02Slider
import RosuModel.Props.C02Timing
import RosuModel.Props.C02Decoded
