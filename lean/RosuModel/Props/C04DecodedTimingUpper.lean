/-
  Props/C04DecodedTimingUpper.lean — C04, timing clause on IEEE doubles: the slider hypothesis of
  Props/C04DecodedTimingEvents.lean with the UPPER bounds alone (`SliderTailUpper`: end `A + dur` within the limit, tail
  `A + n·D` and span ends `(A + k·D) + D` `≤ limit`; no clause `0 ≤ D`, no finiteness clause). `sliderTimes_upper_statement`
  (open there) is proved under `C01.DistOk` — "no computed curve length is a negative number" — and thereby reduced to the
  open statement of C01 (`sliderTimes_upper_statement_of_dist`), which is a theorem for every decoded slider that is not an
  osu!-path-mode Catmull slider.

  1. SIGN FACTS WITHOUT FINITENESS (`div_nonneg_float`, `le_add_nonneg_of_finite`, `le_ofInt_mul`; from the monotone rounded
     `*`, `/`, `+` of Lemmas/FloatArithMono.lean): a rounded quotient of a number `≥ 0` by a positive one is `≥ 0` or a NaN.
     **`span_nonneg_float`**: `0 ≤ d`, `0 < v`, `1 ≤ n < 2³¹` ⟹ `D = (n·d/v)/n` is `≥ 0` unless it is a NaN (`∞/∞`).
  2. ONE SLIDER, **`sliderTailOk_of_upper`**: start within the limit, `NotNeg d` (a NaN or `≥ 0`), `v > 0`, `1 ≤ n < 2³¹`:
     `SliderTailUpper → SliderTailOk`.
     * a NaN / infinite `d` is excluded by the hypothesis itself (`dist_finite_of_end`: the end `A + n·d/v` within the limit
       is finite, so are `n·d/v`, `n·d`, `d`); hence `0 ≤ d`;
     * `D` is not a NaN because the tail is `≤ limit`; so `0 ≤ D` (1.), `D ≤ n·D`, `A ≤ A + n·D`: the tail is between the
       finite start and the limit — FINITE, `−∞` excluded (`finite_of_le_le`);
     * then `D` is finite, `0 ≤ k·D ≤ n·D`, `A ≤ A + k·D ≤ tail` finite, `A + k·D ≤ (A + k·D) + D ≤ limit`: finite.
     The sign hypothesis CANNOT be dropped: `upper_needs_sign` (start `0`, `d = −2147483647`, `v = 13`, `n = 13`: all of
     `SliderTailUpper` holds, the tail is one ulp below `−limit`). `SliderTailUpper` bounds tail and span ends from above only.
  3. DECODED MAPS: `sliderTailInLimit_of_upper`, **`sliderTimes_upper_float_partial`** (hypothesis `C01.DistOk m.hitObjects`),
     `sliderTimes_upper_float_catmull_partial` (`C01.CatmullSurplusOk m`), `sliderTimes_upper_float_no_catmull`
     (unconditional without osu!-path-mode Catmull sliders), `sliderTimes_upper_statement_of_dist`; `ObjEndUpper` /
     `ObjEndsUpper`, `objEnds_iff_upper`, **`collectedTimes_upper_float_partial`**, `decoded_repTimingMap_ieee_upper_partial`,
     **`timing_lines_accepted_decoded_ieee_upper_partial`** (+ `…_catmull_partial`).
     MISSING for the full `sliderTimes_upper_statement`: `DistOk` of decoded maps with an osu!-path-mode Catmull slider (the
     rounding-error analysis of `optimized_len`, C01). No counterexample of a decoded map is known.
  4. Non-vacuity / sharpness, kernel-evaluated on the decoded files of Props/C04DecodedTimingEvents.lean: `evU_accepted`,
     `evOverU_not_collectedTimes`.
-/
import RosuModel.Props.C04DecodedTimingEvents
import RosuModel.Props.C01IeeeFuel
set_option linter.unusedSectionVars false
set_option linter.unusedSimpArgs false
set_option linter.unusedVariables false
namespace Rosu.C04
open Rosu Scalar Encode EncodeLines RtTiming DecodedObj SliderEvents
open Rosu.FErr Rosu.FDL Rosu.TDB

/-! ## 1. IEEE sign facts without finiteness hypotheses -/

section Sign

/-- `f64::from(n)` for `1 ≤ n < 2³¹` is a positive finite double. -/
theorem ofInt_posFin (n : Int) (hn1 : 1 ≤ n) (hn : n < 2 ^ 31) : PosFin (Float.ofInt n) := by
  have h0 : Scalar.lt (Float.ofInt 0) (Float.ofInt n) = true := by
    rw [FIE.lt_ofInt 0 n (by decide) (C20.natAbs_lt_of_range n (by omega) hn)]
    exact decide_eq_true (by omega)
  have h1 : Scalar.le (Float.ofInt n) (Float.ofInt (2 ^ 31)) = true := by
    rw [FIE.le_ofInt n (2 ^ 31) (C20.natAbs_lt_of_range n (by omega) hn) (by decide)]
    exact decide_eq_true (by omega)
  exact posFin_of_bounds _ _ h0 h1 (by decide +kernel)

theorem one_le_ofInt (n : Int) (hn1 : 1 ≤ n) (hn : n < 2 ^ 31) : Scalar.le (1 : Float) (Float.ofInt n) = true := by
  have h1 : Scalar.le (Float.ofInt 1) (Float.ofInt n) = true := by
    rw [FIE.le_ofInt 1 n (by decide) (C20.natAbs_lt_of_range n (by omega) hn)]
    exact decide_eq_true hn1
  have e : Float.ofInt 1 = (1 : Float) := by decide +kernel
  rwa [e] at h1

/-- `0 / v` is a zero for a positive `v`; so it is `≥ 0`-equivalent to `0`. -/
theorem zero_div_pos (v : Float) (hv : Scalar.lt (0 : Float) v = true) : ∃ s, (0 : Float) / v = FX.zero64 s := by
  refine ⟨_, FX.zero_div_float v ?_⟩
  rw [FMO.lt_float, FAM.float_zero_unpack] at hv
  rcases FAM.pos_cases _ hv with ⟨m, e, hm, h⟩ | h <;> rw [h] <;> rfl

/-- **the rounded quotient of a non-negative number by a positive one is non-negative** (or a NaN: `∞/∞`). -/
theorem div_nonneg_float (a v : Float) (ha : Scalar.le (0 : Float) a = true) (hv : Scalar.lt (0 : Float) v = true)
    (hn : Scalar.isNaN (a / v) = false) : Scalar.le (0 : Float) (a / v) = true := by
  obtain ⟨s, hz⟩ := zero_div_pos v hv
  have h := FTL.div_le_div_right_float 0 a v ha hv (by rw [hz]; exact C20.zero64_not_nan _) hn
  rwa [hz, C20.le_zero64_iff] at h

/-- adding a non-negative double to a FINITE one does not decrease — the sum may be `+∞`. -/
theorem le_add_nonneg_of_finite (a x : Float) (fa : a.isFinite = true) (hx : Scalar.le (0 : Float) x = true)
    (hn : Scalar.isNaN (a + x) = false) : Scalar.le a (a + x) = true := by
  have h0 : Scalar.le a (a + 0) = true ∧ Scalar.isNaN (a + 0) = false := by
    by_cases h : a = FX.nzero64
    · subst h; constructor <;> decide +kernel
    · rw [FX.add_zero_float a h]
      exact ⟨FMO.le_refl a (not_nan_of_finite a fa), not_nan_of_finite a fa⟩
  exact FMO.le_trans _ _ _ h0.1 (FTL.add_le_add_left_float a 0 x hx h0.2 hn)

/-- `D ≤ n·D` for `0 ≤ D`, `1 ≤ n` (no finiteness: both sides may be `+∞`). -/
theorem le_ofInt_mul (n : Int) (hn1 : 1 ≤ n) (hn : n < 2 ^ 31) (D : Float) (hD : Scalar.le (0 : Float) D = true)
    (hnn : Scalar.isNaN (Float.ofInt n * D) = false) : Scalar.le D (Float.ofInt n * D) = true := by
  have h := FTL.mul_le_mul_right_float 1 (Float.ofInt n) D (one_le_ofInt n hn1 hn) hD
    (by rw [FX.one_mul_float]; exact (FMO.not_nan_of_le hD).2) hnn
  rwa [FX.one_mul_float] at h

theorem finite_of_inLimit (x : Float) (h : InLimit x) : x.isFinite = true :=
  FMO.finite_of_bounds_float (-(maxParseValue : Float)) (maxParseValue : Float) x (by decide +kernel) (by decide +kernel)
    h.2.2 h.1 h.2.1

/-- between a finite double and the parse limit (IEEE `<=`): finite. -/
theorem finite_of_between (A X : Float) (fA : A.isFinite = true) (h1 : Scalar.le A X = true)
    (h2 : Scalar.le X (maxParseValue : Float) = true) : X.isFinite = true :=
  FMO.finite_of_bounds_float A (maxParseValue : Float) X fA (by decide +kernel) (FMO.not_nan_of_le h1).2
    (FMO.not_lt_of_le _ _ h1) (FMO.not_lt_of_le _ _ h2)

end Sign

/-! ## 2. one slider: the upper bounds give `SliderTailOk` -/

section One

theorem finite_of_le_le (lo hi X : Float) (flo : lo.isFinite = true) (fhi : hi.isFinite = true)
    (h1 : Scalar.le lo X = true) (h2 : Scalar.le X hi = true) : X.isFinite = true :=
  FMO.finite_of_bounds_float lo hi X flo fhi (FMO.not_nan_of_le h1).2 (FMO.not_lt_of_le _ _ h1) (FMO.not_lt_of_le _ _ h2)

/-- what the end clause of `SliderTailUpper` already gives: `A + n·d/v` within the limit makes the distance `d` FINITE — a
NaN (or infinite) curve length is excluded by the hypothesis, not by the decoder. -/
theorem dist_finite_of_end (A d v : Float) (n : Int) (hend : InLimit (A + (Scalar.ofInt n : Float) * d / v)) :
    d.isFinite = true ∧ ((Scalar.ofInt n : Float) * d / v).isFinite = true := by
  have fdur := (finite_of_add_finite _ _ (finite_of_inLimit _ hend)).2
  exact ⟨(finite_of_mul_finite _ _ (finite_of_div_finite _ _ fdur)).2, fdur⟩

/-- **span_nonneg_float** — the sign of the span duration survives the three roundings: for a distance `d` that is not a NaN
and `≥ 0`, a velocity `v > 0` (finite or `+∞`) and `1 ≤ n < 2³¹` spans, `D = (f64::from(n)·d / v) / f64::from(n)` is `≥ 0`
unless it is a NaN (`∞/∞`: `n·d` overflows or `d = ∞`, and `v = ∞`). -/
theorem span_nonneg_float (d v : Float) (n : Int) (hn1 : 1 ≤ n) (hn : n < 2 ^ 31)
    (hd : Scalar.le (0 : Float) d = true) (hv : Scalar.lt (0 : Float) v = true)
    (hD : Scalar.isNaN ((Scalar.ofInt n : Float) * d / v / (Scalar.ofInt n : Float)) = false) :
    Scalar.le (0 : Float) ((Scalar.ofInt n : Float) * d / v / (Scalar.ofInt n : Float)) = true := by
  have hN := ofInt_posFin n hn1 hn
  have ndur := (FAM.not_nan_of_div_float _ _ hD).1
  have nnd := (FAM.not_nan_of_div_float _ _ ndur).1
  have nd0 : Scalar.le (0 : Float) ((Scalar.ofInt n : Float) * d) = true := by
    have h := FTL.mul_le_mul_right_float 1 (Float.ofInt n) d (one_le_ofInt n hn1 hn) hd
      (by rw [FX.one_mul_float]; exact (FMO.not_nan_of_le hd).2) nnd
    rw [FX.one_mul_float] at h
    exact FMO.le_trans _ _ _ hd h
  exact div_nonneg_float _ _ (div_nonneg_float _ v nd0 hv ndur) hN.pos hD

/-- **tail_finite_of_upper / sliderTailOk_of_upper** — one slider on doubles: start `A` within the limit, `1 ≤ n < 2³¹` spans,
velocity `v > 0`, a curve length `d` that is a NaN or `≥ 0` (`NotNeg`): the upper bounds `SliderTailUpper` give the whole of
`SliderTailOk` — the span duration is `≥ 0`, tail and span ends are FINITE (`−∞` is excluded). -/
theorem sliderTailOk_of_upper (A d v : Float) (n : Int) (hA : InLimit A) (hn1 : 1 ≤ n) (hn : n < 2 ^ 31)
    (hd : NotNeg d) (hv : Scalar.lt (0 : Float) v = true)
    (up : SliderTailUpper A ((Scalar.ofInt n : Float) * d / v) n) :
    SliderTailOk A ((Scalar.ofInt n : Float) * d / v) n := by
  obtain ⟨hend, htail, hspans⟩ := up
  have hN := ofInt_posFin n hn1 hn
  have fA := finite_of_inLimit A hA
  obtain ⟨fd, fdur⟩ := dist_finite_of_end A d v n hend
  have d0 : Scalar.le (0 : Float) d = true := by
    rcases hd with h | h
    · rw [not_nan_of_finite d fd] at h; cases h
    · exact h
  have nT := (FMO.not_nan_of_le htail).1
  have nND := (FAM.not_nan_of_add_float _ _ nT).2
  have nD := (FAM.not_nan_of_mul_float _ _ nND).2
  have D0 := span_nonneg_float d v n hn1 hn d0 hv nD
  have ND0 := FMO.le_trans _ _ _ D0 (le_ofInt_mul n hn1 hn _ D0 nND)
  have hAT := le_add_nonneg_of_finite A _ fA ND0 nT
  have fT := finite_of_le_le A _ _ fA (by decide +kernel) hAT htail
  refine ⟨hend, D0, ⟨fT, htail⟩, fun k hk0 hk2 => ?_⟩
  have hX := hspans k hk0 hk2
  have nX := (FMO.not_nan_of_le hX).1
  have nS := (FAM.not_nan_of_add_float _ _ nX).1
  have nKD := (FAM.not_nan_of_add_float _ _ nS).2
  have fD := (finite_of_mul_finite _ _ (finite_of_add_finite _ _ fT).2).2
  have hK0 : Scalar.le (0 : Float) (Float.ofInt k) = true := C20.ofInt_nonneg_float k hk0 (by omega)
  have hKN : Scalar.le (Float.ofInt k) (Float.ofInt n) = true := by
    rw [FIE.le_ofInt k n (C20.natAbs_lt_of_range k hk0 (by omega)) (C20.natAbs_lt_of_range n (by omega) hn)]
    exact decide_eq_true (by omega)
  have KD0 : Scalar.le (0 : Float) (Float.ofInt k * ((Scalar.ofInt n : Float) * d / v / (Scalar.ofInt n : Float))) = true := by
    have hz : (0 : Float) * ((Scalar.ofInt n : Float) * d / v / (Scalar.ofInt n : Float)) = FX.zero64 (FX.sign64 ((Scalar.ofInt n : Float) * d / v / (Scalar.ofInt n : Float))) := FX.zero_mul_float _ fD
    have h := FTL.mul_le_mul_right_float 0 (Float.ofInt k) _ hK0 D0 (by rw [hz]; exact C20.zero64_not_nan _) nKD
    rwa [hz, C20.le_zero64_iff] at h
  have KDND := FTL.mul_le_mul_right_float (Float.ofInt k) (Float.ofInt n) _ hKN D0 nKD nND
  have hAS := le_add_nonneg_of_finite A _ fA KD0 nS
  have hST := FTL.add_le_add_left_float A _ _ KDND nS nT
  have fS := finite_of_le_le A _ _ fA fT hAS hST
  have hSX := le_add_nonneg_of_finite _ _ fS D0 nX
  exact ⟨finite_of_le_le A _ _ fA (by decide +kernel) (FMO.le_trans _ _ _ hAS hSX) hX, hX⟩

end One

/-! ## 3. decoded maps -/

section Maps
variable [Trig Float32]

/-- `SliderTailUpper` of every slider of the map, for the length the curve code returns — the hypothesis of
`sliderTimes_upper_statement`. -/
def SliderTailUpperAll (m : Beatmap Float Float32) : Prop :=
  ∀ h ∈ m.hitObjects, ∀ s, h.kind = .slider s → ∀ dist, curveDist s = .ok dist →
    SliderTailUpper h.startTime ((Scalar.ofInt (s.repeatCount + 1) : Float) * dist / s.velocity) (s.repeatCount + 1)

theorem sliderTailUpperAll_of_inLimit {m : Beatmap Float Float32} (h : SliderTailInLimit m) : SliderTailUpperAll m :=
  fun x hx s hk d hd => (h x hx s hk d hd).upper

/-- for a decoded map whose curve lengths are not negative numbers (`C01.DistOk`: the `clamp` assertion of
`SliderEventsIter::new` holds), the upper bounds give `SliderTailInLimit`: start within the limit (`C14.decoded_stored`),
`0 ≤ repeat_count < 2³¹ − 1` (`decoded_objOk`), velocity positive and finite (`C01.decoded_velocity_range_float`). -/
theorem sliderTailInLimit_of_upper (bs : List UInt8) (st : BeatmapState Float Float32) (m : Beatmap Float Float32)
    (h1 : decodeBytes beatmapDecoder bs = .ok st) (h2 : st.finish = .ok m) (hd : C01.DistOk m.hitObjects)
    (hu : SliderTailUpperAll m) : SliderTailInLimit m := by
  intro h hh s hk dist hdist
  have hstart := (C14.decoded_stored bs st m h1 h2 h hh).1
  have hok := (decoded_objOk bs st m h1 h2 h hh).kind
  rw [hk] at hok
  obtain ⟨_, ⟨hr0, hr1⟩, _⟩ := hok
  have hv := C01.decoded_velocity_range_float bs st m h1 h2 h hh s hk
  have hnn : NotNeg dist := (C01.distOk_iff_not_negative m.hitObjects).mp hd h hh s hk dist hdist
  exact sliderTailOk_of_upper _ dist _ _ hstart (by omega) (by omega) hnn hv.x_pos (hu h hh s hk dist hdist)

/-- **sliderTimes_upper_float_partial** — `sliderTimes_upper_statement` under the additional hypothesis
`C01.DistOk m.hitObjects` (no computed curve length is a negative number). What is missing for the full statement is exactly
`C01.decoded_dist_nonneg_statement Float Float32` — the osu!-path-mode Catmull sliders (`sliderTimes_upper_statement_of_dist`). -/
theorem sliderTimes_upper_float_partial (bs : List UInt8) (st : BeatmapState Float Float32) (m : Beatmap Float Float32)
    (h1 : decodeBytes beatmapDecoder bs = .ok st) (h2 : st.finish = .ok m) (hd : C01.DistOk m.hitObjects)
    (hu : SliderTailUpperAll m) : SliderTimesInLimit m :=
  sliderTimes_osu_catch_float bs st m h1 h2 (sliderTailInLimit_of_upper bs st m h1 h2 hd hu)

/-- … under `C01.CatmullSurplusOk` (a hypothesis about the osu!-path-mode Catmull sliders only). -/
theorem sliderTimes_upper_float_catmull_partial (bs : List UInt8) (st : BeatmapState Float Float32)
    (m : Beatmap Float Float32) (h1 : decodeBytes beatmapDecoder bs = .ok st) (h2 : st.finish = .ok m)
    (hc : C01.CatmullSurplusOk m) (hu : SliderTailUpperAll m) : SliderTimesInLimit m :=
  sliderTimes_upper_float_partial bs st m h1 h2 (C01.decoded_dist_nonneg_float_partial bs st m h1 h2 hc) hu

/-- … **unconditionally for maps without an osu!-path-mode Catmull slider**. -/
theorem sliderTimes_upper_float_no_catmull (bs : List UInt8) (st : BeatmapState Float Float32)
    (m : Beatmap Float Float32) (h1 : decodeBytes beatmapDecoder bs = .ok st) (h2 : st.finish = .ok m)
    (hno : ∀ h ∈ m.hitObjects, ∀ s, h.kind = .slider s →
      s.path.mode ≠ GameMode.osu ∨ NoCatmull s.path.controlPoints)
    (hu : SliderTailUpperAll m) : SliderTimesInLimit m :=
  sliderTimes_upper_float_catmull_partial bs st m h1 h2 (C01.catmullSurplusOk_of_none m hno) hu

/-- **the open statement is reduced to the open statement of C01** (`C01.decoded_dist_nonneg_statement Float Float32`: every decoded
map satisfies `DistOk`, open for osu!-path-mode Catmull sliders only). -/
theorem sliderTimes_upper_statement_of_dist (h : C01.decoded_dist_nonneg_statement Float Float32) :
    sliderTimes_upper_statement :=
  fun bs st m h1 h2 hu => sliderTimes_upper_float_partial bs st m h1 h2 (h bs st m h1 h2) hu

/-- **the checkable condition on one decoded object, upper bounds alone**: like `ObjEndOk`, with `SliderTailUpper` for a
slider (end within the limit; tail and span ends `≤ limit` — no sign clause, no finiteness clause). -/
def ObjEndUpper (h : HitObject Float Float32) : Prop :=
  match h.kind with
  | .circle _ => True
  | .spinner sp => EndOk h.startTime sp.duration
  | .hold ho => EndOk h.startTime ho.duration
  | .slider s => ∀ dist, curveDist s = .ok dist →
      SliderTailUpper h.startTime ((Scalar.ofInt (s.repeatCount + 1) : Float) * dist / s.velocity) (s.repeatCount + 1)

def ObjEndsUpper (m : Beatmap Float Float32) : Prop := ∀ h ∈ m.hitObjects, ObjEndUpper h

theorem ObjEndOk.upper {h : HitObject Float Float32} (he : ObjEndOk h) : ObjEndUpper h := by
  unfold ObjEndOk at he
  unfold ObjEndUpper
  cases hk : h.kind with
  | circle c => trivial
  | spinner sp => rw [hk] at he; exact he
  | hold ho => rw [hk] at he; exact he
  | slider s => rw [hk] at he; exact fun d hd => (he d hd).upper

theorem objEndsUpper_of_inLimit {m : Beatmap Float Float32} (h : ObjEndsInLimit m) : ObjEndsUpper m :=
  fun x hx => (h x hx).upper

theorem sliderTailUpper_of_objEnds {m : Beatmap Float Float32} (he : ObjEndsUpper m) : SliderTailUpperAll m := by
  intro h hh s hk
  have := he h hh
  unfold ObjEndUpper at this
  rw [hk] at this
  exact this

/-- for decoded maps with `DistOk` the two conditions coincide. -/
theorem objEndsInLimit_of_upper (bs : List UInt8) (st : BeatmapState Float Float32) (m : Beatmap Float Float32)
    (h1 : decodeBytes beatmapDecoder bs = .ok st) (h2 : st.finish = .ok m) (hd : C01.DistOk m.hitObjects)
    (he : ObjEndsUpper m) : ObjEndsInLimit m := by
  intro h hh
  have hu := he h hh
  unfold ObjEndUpper at hu
  unfold ObjEndOk
  cases hk : h.kind with
  | circle c => trivial
  | spinner sp => rw [hk] at hu; exact hu
  | hold ho => rw [hk] at hu; exact hu
  | slider s =>
    exact sliderTailInLimit_of_upper bs st m h1 h2 hd (sliderTailUpper_of_objEnds he) h hh s hk

theorem objEnds_iff_upper (bs : List UInt8) (st : BeatmapState Float Float32) (m : Beatmap Float Float32)
    (h1 : decodeBytes beatmapDecoder bs = .ok st) (h2 : st.finish = .ok m) (hd : C01.DistOk m.hitObjects) :
    ObjEndsInLimit m ↔ ObjEndsUpper m :=
  ⟨objEndsUpper_of_inLimit, objEndsInLimit_of_upper bs st m h1 h2 hd⟩

/-- **collectedTimes_upper_float_partial** — any mode, no `EndTimeLaws`: for a decoded `Beatmap<f64/f32>` with `DistOk`, every
collected time is within the parse limit as soon as no object's computed end time (sliders: end, tail, span ends) EXCEEDS the
limit (and the slider end `A + dur` is not below `−limit`). -/
theorem collectedTimes_upper_float_partial (bs : List UInt8) (st : BeatmapState Float Float32)
    (m : Beatmap Float Float32) (h1 : decodeBytes beatmapDecoder bs = .ok st) (h2 : st.finish = .ok m)
    (hd : C01.DistOk m.hitObjects) (he : ObjEndsUpper m) : CollectedTimesInLimit m :=
  collectedTimes_all_modes_float bs st m h1 h2 (objEndsInLimit_of_upper bs st m h1 h2 hd he)

theorem decoded_repTimingMap_ieee_upper_partial (bs : List UInt8) (st : BeatmapState Float Float32)
    (m : Beatmap Float Float32) (h1 : decodeBytes beatmapDecoder bs = .ok st) (h2 : st.finish = .ok m)
    (hd : C01.DistOk m.hitObjects) (he : ObjEndsUpper m) : RepTimingMap IeeeRep64 m :=
  decoded_repTimingMap_ieee_ends bs st m h1 h2 (objEndsInLimit_of_upper bs st m h1 h2 hd he)

/-- **timing_lines_accepted_decoded_ieee_upper_partial** — C04 for the `[TimingPoints]` block on the IEEE instances, all
modes, with the upper bounds alone: decode any bytes to `m`; if no computed curve length is a negative number (`DistOk`; a
theorem under `C01.CatmullSurplusOk`, unconditional without osu!-path-mode Catmull sliders) and no object's computed end time
(sliders: end, tail, span ends) exceeds the limit, every line of the block `encode_timing_points` writes is accepted by
`parse_timing_points` in any decoder state and applied as exactly the values written. -/
theorem timing_lines_accepted_decoded_ieee_upper_partial (bs : List UInt8)
    (st : BeatmapState Float Float32) (m : Beatmap Float Float32) (h1 : decodeBytes beatmapDecoder bs = .ok st)
    (h2 : st.finish = .ok m) (hd : C01.DistOk m.hitObjects) (he : ObjEndsUpper m) (t : Str)
    (h : encodeTimingPoints m = .ok t) :
    ∃ cp, collectSamples m = .ok cp ∧ t = unlines (str "[TimingPoints]" :: (mapEntries m cp).map Entry.line) ∧
      (∀ e ∈ mapEntries m cp, ∀ st : TimingPointsState Float Float32,
        parseTimingPoints st (trimEnd e.line) = (.ok (), applyTpLine st (e.read st.general.defaultSampleBank))) ∧
      ∀ st : TimingPointsState Float Float32,
        Accepts (fun s l => ((parseTimingPoints s l).2, (parseTimingPoints s l).1.isOk)) st
          (((mapEntries m cp).map Entry.line).map trimEnd) :=
  timing_lines_accepted_decoded_ieee_ends bs st m h1 h2 (objEndsInLimit_of_upper bs st m h1 h2 hd he) t h

/-- the same under `C01.CatmullSurplusOk`. -/
theorem timing_lines_accepted_decoded_ieee_upper_catmull_partial (bs : List UInt8)
    (st : BeatmapState Float Float32) (m : Beatmap Float Float32) (h1 : decodeBytes beatmapDecoder bs = .ok st)
    (h2 : st.finish = .ok m) (hc : C01.CatmullSurplusOk m) (he : ObjEndsUpper m) (t : Str)
    (h : encodeTimingPoints m = .ok t) :
    ∃ cp, collectSamples m = .ok cp ∧ t = unlines (str "[TimingPoints]" :: (mapEntries m cp).map Entry.line) ∧
      (∀ e ∈ mapEntries m cp, ∀ st : TimingPointsState Float Float32,
        parseTimingPoints st (trimEnd e.line) = (.ok (), applyTpLine st (e.read st.general.defaultSampleBank))) ∧
      ∀ st : TimingPointsState Float Float32,
        Accepts (fun s l => ((parseTimingPoints s l).2, (parseTimingPoints s l).1.isOk)) st
          (((mapEntries m cp).map Entry.line).map trimEnd) :=
  timing_lines_accepted_decoded_ieee_upper_partial bs st m h1 h2
    (C01.decoded_dist_nonneg_float_partial bs st m h1 h2 hc) he t h

end Maps

/-! ## 4. non-vacuity and sharpness (kernel-evaluated) -/

section Examples
set_option maxRecDepth 100000

/-- `SliderTailUpper` as a check (the span ends `k = 0 … n − 2`). -/
def sliderTailUpperB (A dur : Float) (n : Int) : Bool :=
  inLimitB (A + dur) &&
    Scalar.le (A + (Scalar.ofInt n : Float) * (dur / (Scalar.ofInt n : Float))) (maxParseValue : Float) &&
    (List.range (n.toNat - 1)).all (fun k =>
      Scalar.le ((A + (Scalar.ofInt (k : Int) : Float) * (dur / (Scalar.ofInt n : Float))) + dur / (Scalar.ofInt n : Float))
        (maxParseValue : Float))

theorem sliderTailUpper_of_check {A dur : Float} {n : Int} (h : sliderTailUpperB A dur n = true) :
    SliderTailUpper A dur n := by
  unfold sliderTailUpperB at h
  simp only [Bool.and_eq_true] at h
  obtain ⟨⟨a1, a2⟩, a3⟩ := h
  refine ⟨inLimit_of_check a1, a2, fun k hk0 hk2 => ?_⟩
  have hm : k.toNat ∈ List.range (n.toNat - 1) := List.mem_range.mpr (by omega)
  have := List.all_eq_true.mp a3 k.toNat hm
  rw [Int.toNat_of_nonneg hk0] at this
  exact this

/-- the hypotheses of `sliderTailOk_of_upper` / `span_nonneg_float` on closed doubles: start `1000`, length `100`, velocity
`0.28`, three spans. -/
example : InLimit (1000 : Float) ∧ NotNeg (100 : Float) ∧ Scalar.lt (0 : Float) (0.28 : Float) = true ∧
    SliderTailUpper (1000 : Float) ((Scalar.ofInt 3 : Float) * 100 / 0.28) 3 :=
  ⟨inLimit_of_check (by decide +kernel), Or.inr (by decide +kernel), by decide +kernel,
    sliderTailUpper_of_check (by decide +kernel)⟩

example : SliderTailOk (1000 : Float) ((Scalar.ofInt 3 : Float) * 100 / 0.28) 3 :=
  sliderTailOk_of_upper 1000 100 0.28 3 (inLimit_of_check (by decide +kernel)) (by decide) (by decide)
    (Or.inr (by decide +kernel)) (by decide +kernel) (sliderTailUpper_of_check (by decide +kernel))

/-- **the sign hypothesis `NotNeg d` cannot be dropped from `sliderTailOk_of_upper`** (nor from "every node time is within the
limit"): start `0`, a NEGATIVE length `d = −2147483647`, velocity `13` (inside the decoded range `[velLo, velHi]`), `13` spans.
The duration is `13·d/13 = −2147483647` exactly, the end `A + dur = −limit` is within the limit, the tail and all span ends
are `≤ limit` — `SliderTailUpper` holds —, but the tail `A + 13·(dur/13) = −2147483647.0000005` (one ulp below `−limit`:
`dur/13` is rounded) is NOT within the limit. `SliderTailUpper` bounds the tail and the span ends from above only; with a
negative span duration the times decrease and can leave the range at the lower end. (Whether a decoded map can have a
negative curve length is the open C01 question — only osu!-path-mode Catmull sliders could.) -/
theorem upper_needs_sign :
    ∃ (A d v : Float) (n : Int), InLimit A ∧ 1 ≤ n ∧ n < 2 ^ 31 ∧ Btw velLo velHi v ∧
      SliderTailUpper A ((Scalar.ofInt n : Float) * d / v) n ∧
      ¬ InLimit (A + (Scalar.ofInt n : Float) * (((Scalar.ofInt n : Float) * d / v) / (Scalar.ofInt n : Float))) ∧
      ¬ SliderTailOk A ((Scalar.ofInt n : Float) * d / v) n := by
  have hnot : ¬ InLimit ((0 : Float) + (Scalar.ofInt 13 : Float) *
      (((Scalar.ofInt 13 : Float) * (-2147483647) / 13) / (Scalar.ofInt 13 : Float))) := by
    intro h
    have : Scalar.lt ((0 : Float) + (Scalar.ofInt 13 : Float) *
      (((Scalar.ofInt 13 : Float) * (-2147483647) / 13) / (Scalar.ofInt 13 : Float))) (-(maxParseValue : Float)) = true := by
      decide +kernel
    rw [h.1] at this; cases this
  refine ⟨0, -2147483647, 13, 13, inLimit_of_check (by decide +kernel), by decide, by decide,
    Btw.of_le (by decide +kernel) (by decide +kernel) (by decide +kernel),
    sliderTailUpper_of_check (by decide +kernel), hnot, fun ok => ?_⟩
  exact hnot (nodeTime_inLimit_float _ _ _ (inLimit_of_check (by decide +kernel)) (by decide) (by decide) ok _
    (Or.inr (Or.inr (Or.inl rfl))))

section
variable [Trig Float32]

/-- `ObjEndUpper` as a check. -/
def objEndUpperB (h : HitObject Float Float32) : Bool :=
  match h.kind with
  | .circle _ => true
  | .spinner sp => endOkB h.startTime sp.duration
  | .hold ho => endOkB h.startTime ho.duration
  | .slider s =>
    match curveDist s with
    | .ok dist => sliderTailUpperB h.startTime ((Scalar.ofInt (s.repeatCount + 1) : Float) * dist / s.velocity) (s.repeatCount + 1)
    | .error _ => true

theorem objEndUpper_of_check (h : HitObject Float Float32) (hb : objEndUpperB h = true) : ObjEndUpper h := by
  unfold objEndUpperB at hb
  unfold ObjEndUpper
  cases hk : h.kind with
  | circle c => trivial
  | spinner sp => rw [hk] at hb; exact endOk_of_check hb
  | hold ho => rw [hk] at hb; exact endOk_of_check hb
  | slider s =>
    rw [hk] at hb
    intro dist hd
    simp only [hd] at hb
    exact sliderTailUpper_of_check hb

/-- `DistOk` as a check: the `clamp` assertion on the computed curve length of every slider. -/
def distOkB (h : HitObject Float Float32) : Bool :=
  match h.kind with
  | .slider s =>
    match curveDist s with
    | .ok d => Scalar.le (0 : Float) (Scalar.min (100000 : Float) d)
    | .error _ => true
  | _ => true

theorem distOk_of_check (hs : List (HitObject Float Float32)) (h : hs.all distOkB = true) : C01.DistOk hs := by
  intro x hx s hk d hd
  have := List.all_eq_true.mp h x hx
  unfold distOkB at this
  rw [hk] at this
  simp only [hd] at this
  exact this

end

/-- what the kernel computes for `evLine` (osu! mode, the two-span linear slider at `1000`): `DistOk` and `ObjEndUpper` hold. -/
theorem evU_checked :
    (decodeFinish (evFileOf evLine)).map (fun m => (m.general.mode, m.hitObjects.length, m.hitObjects.all distOkB,
      m.hitObjects.all objEndUpperB)) = some (GameMode.osu, 1, true, true) := by
  decide +kernel

/-- **the hypotheses of `sliderTimes_upper_float_partial`, `collectedTimes_upper_float_partial`,
`timing_lines_accepted_decoded_ieee_upper_partial` are satisfiable on a decoded osu!-mode map with a slider**, and their
conclusions for it. -/
theorem evU_accepted :
    ∃ (st : BeatmapState Float Float32) (m : Beatmap Float Float32),
      decodeBytes beatmapDecoder (evFileOf evLine) = .ok st ∧ st.finish = .ok m ∧ m.general.mode = .osu ∧
      m.hitObjects.length = 1 ∧ C01.DistOk m.hitObjects ∧ ObjEndsUpper m ∧ SliderTailUpperAll m ∧ ObjEndsInLimit m ∧
      SliderTimesInLimit m ∧ CollectedTimesInLimit m ∧ RepTimingMap IeeeRep64 m ∧
      ∀ t, encodeTimingPoints m = .ok t →
        ∃ cp, collectSamples m = .ok cp ∧ t = unlines (str "[TimingPoints]" :: (mapEntries m cp).map Entry.line) ∧
          ∀ st : TimingPointsState Float Float32,
            Accepts (fun s l => ((parseTimingPoints s l).2, (parseTimingPoints s l).1.isOk)) st
              (((mapEntries m cp).map Entry.line).map trimEnd) := by
  have hc := evU_checked
  cases hm : decodeFinish (evFileOf evLine) with
  | none => rw [hm] at hc; cases hc
  | some m =>
    rw [hm] at hc
    simp only [Option.map_some, Option.some.injEq, Prod.mk.injEq] at hc
    obtain ⟨c1, c2, c3, c4⟩ := hc
    obtain ⟨st, h1, h2⟩ := decodeFinish_spec hm
    have hd : C01.DistOk m.hitObjects := distOk_of_check _ c3
    have he : ObjEndsUpper m := fun h hh => objEndUpper_of_check h (List.all_eq_true.mp c4 h hh)
    refine ⟨st, m, h1, h2, c1, c2, hd, he, sliderTailUpper_of_objEnds he, objEndsInLimit_of_upper _ st m h1 h2 hd he,
      sliderTimes_upper_float_partial _ st m h1 h2 hd (sliderTailUpper_of_objEnds he),
      collectedTimes_upper_float_partial _ st m h1 h2 hd he, decoded_repTimingMap_ieee_upper_partial _ st m h1 h2 hd he,
      fun t ht => ?_⟩
    obtain ⟨cp, e1, e2, _, e4⟩ := timing_lines_accepted_decoded_ieee_upper_partial _ st m h1 h2 hd he t ht
    exact ⟨cp, e1, e2, e4⟩

/-- what the kernel computes for `evOverLine` (the same slider `647` ms before the limit): `DistOk` holds, `ObjEndUpper`
FAILS, a collected time is beyond the limit. -/
theorem evOverU_checked :
    (decodeFinish (evFileOf evOverLine)).map (fun m => (m.general.mode, m.hitObjects.length, m.hitObjects.all distOkB,
      m.hitObjects.any objEndUpperB, collectedInLimitB m)) = some (GameMode.osu, 1, true, false, false) := by
  decide +kernel

/-- **the upper-bound hypothesis is needed**: the slider near the limit decodes and finalises with `DistOk`, its tail is beyond
the parse limit: `ObjEndsUpper` fails — and so does `CollectedTimesInLimit`. -/
theorem evOverU_not_collectedTimes :
    ∃ (st : BeatmapState Float Float32) (m : Beatmap Float Float32),
      decodeBytes beatmapDecoder (evFileOf evOverLine) = .ok st ∧ st.finish = .ok m ∧ m.general.mode = .osu ∧
      m.hitObjects.length = 1 ∧ C01.DistOk m.hitObjects ∧ ¬ CollectedTimesInLimit m ∧ ¬ ObjEndsUpper m := by
  have hc := evOverU_checked
  cases hm : decodeFinish (evFileOf evOverLine) with
  | none => rw [hm] at hc; cases hc
  | some m =>
    rw [hm] at hc
    simp only [Option.map_some, Option.some.injEq, Prod.mk.injEq] at hc
    obtain ⟨c1, c2, c3, _, c5⟩ := hc
    obtain ⟨st, h1, h2⟩ := decodeFinish_spec hm
    have hd : C01.DistOk m.hitObjects := distOk_of_check _ c3
    have hnot : ¬ CollectedTimesInLimit m := by
      intro hct
      unfold collectedInLimitB at c5
      cases hca : collectAll m m.hitObjects [] with
      | error e => rw [hca] at c5; cases c5
      | ok pts =>
        rw [hca] at c5
        have hall : pts.all (fun (p : SamplePoint Float) => inLimitB p.time) = true := by
          apply List.all_eq_true.mpr
          intro p hp
          obtain ⟨a, b, c⟩ := hct pts hca p hp
          unfold inLimitB
          rw [a, b, c]; rfl
        simp only [] at c5
        rw [hall] at c5; cases c5
    exact ⟨st, m, h1, h2, c1, c2, hd, hnot, fun he => hnot (collectedTimes_upper_float_partial _ st m h1 h2 hd he)⟩

end Examples

end Rosu.C04
