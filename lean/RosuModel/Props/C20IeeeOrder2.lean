/-
  Props/C20IeeeOrder2.lean — C20 on IEEE doubles: the open statement `repeat_le_tail_statement`
  (Props/C20IeeeFormsOrder.lean: "the repeat that ends span `s`, `s + 2 ≤ n`, is not later than the tail") is DECIDED: it is
  **FALSE**, for either sign of the start time.

  Times as the code computes them (`fl` one rounding): repeat of `s` `= fl(fl(A + fl(s·D)) + D)`, tail `= fl(A + fl(n·D))`.

  FAIL (kernel-evaluated witnesses, everything finite, `D > 0`, `s + 2 = n`):
  * `repeat_gt_tail_neg_float` — NEGATIVE start, small span count: `A = −2 − 2⁻⁵¹`, `D = 2⁻⁵³·(1 + 2⁻¹⁰)`, `n = 4`, `s = 2`.
    `A + 2D` rounds to `−2` (a binade boundary: the doubles above `−2` are twice as dense as those below), then
    `−2 + D` rounds UP to `−2 + 2⁻⁵²` (`D` is more than half the small gap), while `A + 4D = −2 + 2⁻⁶¹` rounds to `−2`:
    the repeat is one ulp AFTER the tail. ⟹ `repeat_le_tail_statement_false`.
  * `repeat_gt_tail_pos_float` — POSITIVE start (within the parse limit), huge span count: `A = 2147483582.9999995`,
    `D = 2⁻²³·(1 + 2⁻²⁷)` (half an ulp of the times, plus a little), `n = 536870913 = 2²⁹ + 1`, `s = n − 2`: the tail is
    `2147483647` (the parse limit, exactly), the repeat `2147483647 + 2⁻²²`. The rounding errors of the two products
    `fl(s·D)`, `fl(n·D)` (relative `2⁻⁵³`, i.e. `≈ 2⁻²⁴·D` each) decide. ⟹ `repeat_le_tail_nonneg_statement_false`: the
    hypothesis `0 ≤ A` does not rescue the statement. (A numerical search — python, `> 10⁷` structured cases — found no
    counterexample with `0 ≤ A` and `s < 2²⁷`; an analysis of the mechanism suggests `s ≳ 2²⁷` is needed when `0 ≤ A`; this
    is NOT proved.)

  TRUE replacements:
  * `repeat_zero_le_tail_float` — the repeat of span `0` is `≤` the tail (`1 ≤ n`), no magnitude hypothesis
    (monotonicity of rounded `+`, `*` only);
  * `repeat_le_repeat_float`, `repeat_le_tail_plus_span_float` — `repeat s ≤ repeat s'` for `s ≤ s'`; in particular
    `repeat s ≤ fl(tail + D)`: one span duration of slack always suffices;
  * `repeat_le_tail_of_span_ge` — ONE condition on the span duration for ALL repeats of the stream:
    `8u·(|A| + n·D) + 2⁻¹⁰⁷² ≤ D` (`u = 2⁻⁵³`) ⟹ every repeat `s` (`s + 2 ≤ n`) is `≤` the tail. For times within the parse
    limit (`|A| + n·D ≤ 2³³`) this is `D ≥ 2⁻¹⁷` ms (`repeat_le_tail_of_span_ge_limit`, stated with `2⁻¹⁶`).
-/
import RosuModel.Props.C20IeeeFormsOrder
import RosuModel.Lemmas.FloatDebt
namespace Rosu.C20
open Rosu Rosu.SliderEvents Rosu.FErr
open Float.Model Float.Model.UnpackedFloat Rosu.FMR Rosu.FAM

local notation "u₅₃" => ((2 : ℚ) ^ (-53 : Int))
local notation "η₆₄" => ((2 : ℚ) ^ (-1075 : Int))

/-! ## 1. the statement is false -/

section Witnesses

/-- start `−2 − 2⁻⁵¹` (the double below `−2`), span duration `2⁻⁵³·(1 + 2⁻¹⁰)`, `4` spans. -/
def wNeg : Params Float :=
  { exG with startTime := Float.ofBits 0xC000000000000001, spanDuration := Float.ofBits 0x3CA0040000000000,
             spanCount := 4 }

/-- start `2147483582.9999995`, span duration `2⁻²³·(1 + 2⁻²⁷)`, `2²⁹ + 1` spans. -/
def wPos : Params Float :=
  { exG with startTime := Float.ofBits 0x41DFFFFFEFBFFFFE, spanDuration := Float.ofBits 0x3E80000002000000,
             spanCount := 536870913 }

/-- **a repeat of the stream after the tail, negative start**: on `wNeg` the repeat ending span `2` (of `4`) has the time
`−2 + 2⁻⁵²`, the tail `−2`. All values finite, `D > 0`, `s + 2 = n`. -/
theorem repeat_gt_tail_neg_float :
    (repeatEvent wNeg 2).time = Float.ofBits 0xBFFFFFFFFFFFFFFF ∧
    (tailEvent wNeg).time = Float.ofBits 0xC000000000000000 ∧
    Scalar.lt (tailEvent wNeg).time (repeatEvent wNeg 2).time = true ∧
    Scalar.le (repeatEvent wNeg 2).time (tailEvent wNeg).time = false ∧
    (repeatEvent wNeg 2).time.isFinite = true ∧ (tailEvent wNeg).time.isFinite = true ∧
    Scalar.le (0 : Float) wNeg.spanDuration = true ∧ Scalar.lt (0 : Float) wNeg.spanDuration = true := by
  refine ⟨?_, ?_, ?_, ?_, ?_, ?_, ?_, ?_⟩ <;> decide +kernel

/-- **`repeat_le_tail_statement` is false.** -/
theorem repeat_le_tail_statement_false : ¬ repeat_le_tail_statement := by
  intro h
  obtain ⟨_, _, _, h4, h5, h6, h7, _⟩ := repeat_gt_tail_neg_float
  rw [h wNeg 2 (by decide) (by decide) (by decide) h7 h5 h6] at h4
  cases h4

/-- **a repeat of the stream after the tail, positive start within the parse limit**: on `wPos` the repeat ending span
`n − 2 = 536870911` has the time `2147483647 + 2⁻²²`, the tail `2147483647` exactly. -/
theorem repeat_gt_tail_pos_float :
    (repeatEvent wPos 536870911).time = Float.ofBits 0x41DFFFFFFFC00001 ∧
    (tailEvent wPos).time = Float.ofBits 0x41DFFFFFFFC00000 ∧
    (tailEvent wPos).time = (2147483647 : Float) ∧
    Scalar.lt (tailEvent wPos).time (repeatEvent wPos 536870911).time = true ∧
    Scalar.le (repeatEvent wPos 536870911).time (tailEvent wPos).time = false ∧
    (repeatEvent wPos 536870911).time.isFinite = true ∧ (tailEvent wPos).time.isFinite = true ∧
    Scalar.le (0 : Float) wPos.spanDuration = true ∧ Scalar.le (0 : Float) wPos.startTime = true := by
  refine ⟨?_, ?_, ?_, ?_, ?_, ?_, ?_, ?_, ?_⟩ <;> decide +kernel

/-- the statement restricted to non-negative start times. -/
def repeat_le_tail_nonneg_statement : Prop :=
  ∀ (p : Params Float) (s : Int), 0 ≤ s → s + 2 ≤ p.spanCount → p.spanCount < 2 ^ 31 →
    Scalar.le (0 : Float) p.startTime = true →
    Scalar.le (0 : Float) p.spanDuration = true → (repeatEvent p s).time.isFinite = true →
    (tailEvent p).time.isFinite = true → Scalar.le (repeatEvent p s).time (tailEvent p).time = true

/-- **… false as well** (span counts `≥ 2²⁹`; nothing is claimed for smaller counts). -/
theorem repeat_le_tail_nonneg_statement_false : ¬ repeat_le_tail_nonneg_statement := by
  intro h
  obtain ⟨_, _, _, _, h4, h5, h6, h7, h8⟩ := repeat_gt_tail_pos_float
  rw [h wPos 536870911 (by decide) (by decide) (by decide) h8 h7 h5 h6] at h4
  cases h4

end Witnesses

/-! ## 2. what is true without a magnitude hypothesis (monotonicity of the rounded operations) -/

/-- binary64 addition is monotone in its LEFT operand. -/
theorem add_le_add_right_float (x y d : Float) (hxy : Scalar.le x y = true)
    (hnx : Scalar.isNaN (x + d) = false) (hny : Scalar.isNaN (y + d) = false) :
    Scalar.le (x + d) (y + d) = true := by
  rw [FDebt.add_comm_float x d, FDebt.add_comm_float y d] at *
  exact FTL.add_le_add_left_float d x y hxy hnx hny

/-- **repeats are weakly increasing**: `0 ≤ s ≤ s' < 2³¹`, `0 ≤ D`, finite ⟹ `repeat s ≤ repeat s'`. -/
theorem repeat_le_repeat_float (p : Params Float) (s s' : Int) (hs0 : 0 ≤ s) (hss : s ≤ s') (hs' : s' < 2 ^ 31)
    (hdur : Scalar.le (0 : Float) p.spanDuration = true)
    (hf : (repeatEvent p s).time.isFinite = true) (hf' : (repeatEvent p s').time.isFinite = true) :
    Scalar.le (repeatEvent p s).time (repeatEvent p s').time = true := by
  rw [repeatEvent_time] at hf hf' ⊢
  rw [repeatEvent_time]
  exact add_le_add_right_float _ _ _
    (span_start_mono_float p s s' hs0 hss hs' hdur (finite_of_add_finite _ _ hf).1 (finite_of_add_finite _ _ hf').1)
    (not_nan_of_finite _ hf) (not_nan_of_finite _ hf')

/-- **one span duration of slack always suffices**: `repeat s ≤ fl(tail + D)` (`0 ≤ s ≤ n < 2³¹`, `0 ≤ D`, finite). -/
theorem repeat_le_tail_plus_span_float (p : Params Float) (s : Int) (hs0 : 0 ≤ s) (hsn : s ≤ p.spanCount)
    (hn : p.spanCount < 2 ^ 31) (hdur : Scalar.le (0 : Float) p.spanDuration = true)
    (hf : (repeatEvent p s).time.isFinite = true) (hf' : ((tailEvent p).time + p.spanDuration).isFinite = true) :
    Scalar.le (repeatEvent p s).time ((tailEvent p).time + p.spanDuration) = true :=
  repeat_le_repeat_float p s p.spanCount hs0 hsn hn hdur hf hf'

theorem ofInt_one : Float.ofInt 1 = (1 : Float) := by decide +kernel
theorem ofInt_zero : Float.ofInt 0 = (0 : Float) := rfl

/-- the sum of a finite value and a number is a number (it may be `±∞`). -/
theorem uadd_finite_not_nan' (spec : Format) (a b : UnpackedFloat) (ha : a.isFinite = true) (hb : b.isNaN = false) :
    (UnpackedFloat.add spec a b).isNaN = false := by
  rcases a with s | _ | s | ⟨s, m, e, hm⟩
  · cases ha
  · cases ha
  · rcases b with s' | _ | s' | ⟨s', m', e', hm'⟩
    · rfl
    · cases hb
    · simp only [UnpackedFloat.add]; split <;> rfl
    · rfl
  · rcases b with s' | _ | s' | ⟨s', m', e', hm'⟩
    · rfl
    · cases hb
    · rfl
    · simp only [UnpackedFloat.add]; exact FB.normalize_not_nan _ _ _ _

theorem add_not_nan_of_finite_float (a b : Float) (ha : a.isFinite = true) (hb : Scalar.isNaN b = false) :
    Scalar.isNaN (a + b) = false := by
  show (a + b).toModel.unpack.isNaN = false
  rw [FAM.float_add_unpack, FB.repack_isNaN]
  exact uadd_finite_not_nan' _ _ _ ha hb

/-- `A + 0·D` is `≤ A` (equal up to the sign of a zero). -/
theorem span_start_zero_le (p : Params Float) (fA : p.startTime.isFinite = true) (fD : p.spanDuration.isFinite = true) :
    Scalar.le (spanStart p 0) p.startTime = true := by
  rw [spanStart_eq, ofInt_zero, FX.zero_mul_float _ fD]
  have hz : Scalar.le (FX.zero64 (FX.sign64 p.spanDuration)) (0 : Float) = true := by
    cases FX.sign64 p.spanDuration <;> decide +kernel
  have h0 : Scalar.le (p.startTime + 0) p.startTime = true ∧ Scalar.isNaN (p.startTime + 0) = false := by
    by_cases h : p.startTime = FX.nzero64
    · rw [h]; constructor <;> decide +kernel
    · rw [FX.add_zero_float _ h]
      exact ⟨FMO.le_refl _ (not_nan_of_finite _ fA), not_nan_of_finite _ fA⟩
  exact FMO.le_trans _ _ _
    (FTL.add_le_add_left_float p.startTime _ 0 hz
      (add_not_nan_of_finite_float _ _ fA (zero64_not_nan _)) h0.2) h0.1

/-- **repeat_zero_le_tail_float**: the repeat that ends the FIRST span is `≤` the tail (`1 ≤ n < 2³¹`, `0 ≤ D`, both
finite) — no magnitude hypothesis: `fl(fl(A + 0·D) + D) ≤ fl(A + D) ≤ fl(A + fl(n·D))` since `A + 0·D` is `A` (up to the
sign of a zero) and `D = 1·D ≤ fl(n·D)`. -/
theorem repeat_zero_le_tail_float (p : Params Float) (hn1 : 1 ≤ p.spanCount) (hn : p.spanCount < 2 ^ 31)
    (hdur : Scalar.le (0 : Float) p.spanDuration = true)
    (hfr : (repeatEvent p 0).time.isFinite = true) (hf : (tailEvent p).time.isFinite = true) :
    Scalar.le (repeatEvent p 0).time (tailEvent p).time = true := by
  have hfr' := hfr
  rw [repeatEvent_time] at hfr'
  have fS0 : (spanStart p 0).isFinite = true := (finite_of_add_finite _ _ hfr').1
  have fD : p.spanDuration.isFinite = true := (finite_of_add_finite _ _ hfr').2
  have fA : p.startTime.isFinite = true := by
    rw [spanStart_eq] at fS0; exact (finite_of_add_finite _ _ fS0).1
  have nAD : Scalar.isNaN (p.startTime + p.spanDuration) = false :=
    add_not_nan_of_finite_float _ _ fA (not_nan_of_finite _ fD)
  have step1 : Scalar.le (repeatEvent p 0).time (p.startTime + p.spanDuration) = true := by
    rw [repeatEvent_time]
    exact add_le_add_right_float _ _ _ (span_start_zero_le p fA fD) (not_nan_of_finite _ hfr') nAD
  have hf' := hf
  rw [tailEvent_time, spanStart_eq] at hf'
  have fm := (finite_of_add_finite _ _ hf').2
  have h1n : Scalar.le (Float.ofInt 1) (Float.ofInt p.spanCount) = true := by
    rw [FIE.le_ofInt 1 p.spanCount (by decide) (natAbs_lt_of_range _ (by omega) hn)]
    exact decide_eq_true hn1
  have hD : Scalar.le p.spanDuration (Float.ofInt p.spanCount * p.spanDuration) = true := by
    have := FTL.mul_le_mul_right_float _ _ p.spanDuration h1n hdur
      (by rw [ofInt_one, FX.one_mul_float]; exact not_nan_of_finite _ fD) (not_nan_of_finite _ fm)
    rwa [ofInt_one, FX.one_mul_float] at this
  have step2 : Scalar.le (p.startTime + p.spanDuration) (tailEvent p).time = true := by
    rw [tailEvent_time, spanStart_eq]
    exact FTL.add_le_add_left_float p.startTime _ _ hD nAD (not_nan_of_finite _ hf')
  exact FMO.le_trans _ _ _ step1 step2

/-! ## 3. one condition on the span duration for all repeats -/

/-- **repeat_le_tail_of_span_ge**: if the span duration dominates the rounding errors,
`8u·(|A| + n·D) + 2⁻¹⁰⁷² ≤ D`, EVERY repeat of the stream (`0 ≤ s`, `s + 2 ≤ n`) is `≤` the tail. -/
theorem repeat_le_tail_of_span_ge (p : Params Float) (s : Int) (hs0 : 0 ≤ s) (hsn : s + 2 ≤ p.spanCount)
    (hn : p.spanCount < 2 ^ 31) (hdur : Scalar.le (0 : Float) p.spanDuration = true)
    (hfr : (repeatEvent p s).time.isFinite = true) (hf : (tailEvent p).time.isFinite = true)
    (hgap : 8 * u₅₃ * (|toRat p.startTime| + (p.spanCount : ℚ) * toRat p.spanDuration) + (2 : ℚ) ^ (-1072 : Int) ≤
      toRat p.spanDuration) :
    Scalar.le (repeatEvent p s).time (tailEvent p).time = true := by
  refine repeat_le_tail_partial p s hs0 (by omega) hn hdur hfr hf (le_trans hgap ?_)
  have fD : p.spanDuration.isFinite = true := by
    rw [repeatEvent_time] at hfr; exact (finite_of_add_finite _ _ hfr).2
  have hD := toRat_nonneg _ hdur fD
  have h1 : (1 : ℚ) ≤ (p.spanCount : ℚ) - (s : ℚ) - 1 := by
    have : ((s + 2 : Int) : ℚ) ≤ (p.spanCount : ℚ) := by exact_mod_cast hsn
    push_cast at this; linarith
  nlinarith

/-- … for times within the parse limit (`|A| + n·D ≤ 2³³`): `D ≥ 2⁻¹⁶` ms suffices. -/
theorem repeat_le_tail_of_span_ge_limit (p : Params Float) (s : Int) (hs0 : 0 ≤ s) (hsn : s + 2 ≤ p.spanCount)
    (hn : p.spanCount < 2 ^ 31) (hdur : Scalar.le (0 : Float) p.spanDuration = true)
    (hfr : (repeatEvent p s).time.isFinite = true) (hf : (tailEvent p).time.isFinite = true)
    (hM : |toRat p.startTime| + (p.spanCount : ℚ) * toRat p.spanDuration ≤ (2 : ℚ) ^ (33 : Int))
    (hD : (2 : ℚ) ^ (-16 : Int) ≤ toRat p.spanDuration) :
    Scalar.le (repeatEvent p s).time (tailEvent p).time = true := by
  refine repeat_le_tail_of_span_ge p s hs0 hsn hn hdur hfr hf (le_trans ?_ hD)
  have h72 : (2 : ℚ) ^ (-1072 : Int) ≤ (2 : ℚ) ^ (-17 : Int) := zpow_le_zpow_right₀ (by norm_num) (by norm_num)
  have hu : 8 * u₅₃ * (2 : ℚ) ^ (33 : Int) = (2 : ℚ) ^ (-17 : Int) := by norm_num
  have := mul_le_mul_of_nonneg_left hM (by positivity : (0 : ℚ) ≤ 8 * u₅₃)
  have h16 : (2 : ℚ) ^ (-16 : Int) = 2 * (2 : ℚ) ^ (-17 : Int) := by norm_num
  linarith

/-! ## 4. non-vacuity -/

section Examples

/-- `repeat_zero_le_tail_float`, `repeat_le_repeat_float` on `exH` (`A = 0.1`, `D = 333.3`, `n = 3`). -/
example : Scalar.le (repeatEvent exH 0).time (tailEvent exH).time = true :=
  repeat_zero_le_tail_float exH (by decide) (by decide) exH_forms_hyps.2.2.2.2.2.2.2 exH_forms_hyps.1 exH_forms_hyps.2.2.1

example : Scalar.le (repeatEvent exH 0).time (repeatEvent exH 1).time = true :=
  repeat_le_repeat_float exH 0 1 (by decide) (by decide) (by decide) exH_forms_hyps.2.2.2.2.2.2.2 exH_forms_hyps.1
    exH_forms_hyps.2.1

/-- the hypotheses of `repeat_le_tail_of_span_ge_limit` hold on `exH` (and the witness `wNeg` violates `2⁻¹⁶ ≤ D`). -/
example : Scalar.le (repeatEvent exH 1).time (tailEvent exH).time = true := by
  have b : exH.startTime.toModel.unpack = .finite .positive 7205759403792794 (-56) (by decide) := by
    have : exH.startTime = Float.ofBits 0x3FB999999999999A := by decide +kernel
    rw [this, FM.float_unpack_ofBits _ (by decide)]; rfl
  have c : exH.spanDuration.toModel.unpack = .finite .positive 5863475608603853 (-44) (by decide) := by
    have : exH.spanDuration = Float.ofBits 0x4074D4CCCCCCCCCD := by decide +kernel
    rw [this, FM.float_unpack_ofBits _ (by decide)]; rfl
  have hn : (exH.spanCount : ℚ) = 3 := by
    have : exH.spanCount = 3 := rfl
    rw [this]; norm_num
  refine repeat_le_tail_of_span_ge_limit exH 1 (by decide) (by decide) (by decide) exH_forms_hyps.2.2.2.2.2.2.2
    exH_forms_hyps.2.1 exH_forms_hyps.2.2.1 ?_ ?_
  · rw [toRat_of_unpack b, toRat_of_unpack c, hn]; norm_num [sgnQ]
  · rw [toRat_of_unpack c]; norm_num [sgnQ]

end Examples

end Rosu.C20
