/-
  Props/C01Ieee.lean — C01 `encode_total` on decoded maps, for the arithmetic the driver runs (`Float` lengths,
  `Float32` points): how much of `decoded_dist_nonneg_statement Float Float32` (Props/C01.lean) is a theorem.

  `Beatmap::encode` can panic only in the `f64::clamp` assertion of `SliderEventsIter::new`, exactly when a slider
  distance `d` has `¬ (0 <= min(100000, d))` (C01). Here:

  * `distOk_iff_not_negative` — for `Float` that is exactly "`d` is a negative number": a NaN distance is harmless
    (`f64::min` ignores it), and so is every `d ≥ 0` including `+∞` (Lemmas/FloatDistLaws.lean);
  * the encoder builds the slider-event iterator in osu! and catch mode only: `encode_no_panic_taiko_mania` (any map,
    any arithmetic);
  * a slider's distance is `0.0`, its stored expected distance — `max(l, 0) ≥ 0` for decoded sliders
    (`decoded_expected_nonneg_float`, Lemmas/DecodedSliders.lean + C14Ieee) — or its natural length
    `optimized_len + Σ |pᵢ₊₁ − pᵢ|`, which is a NaN or `≥ 0` whenever `optimized_len` is (`natTotal_notNeg_float`:
    every path, NaN / infinite coordinates included);
  * `optimized_len` is `0.0` unless the slider's **path mode** is osu! and a control point has the Catmull type
    (Lemmas/OptLenZero.lean): **`decoded_dist_nonneg_float_non_catmull`**, **`encode_decoded_no_panic_float_no_catmull`**
    — unconditional for every byte string whose decoded sliders are of that kind;
  * for osu!-path-mode Catmull sliders `optimized_len = Σ (removed − chord)` is computed with rounding and IS negative
    on ordinary inputs (`optLen_negative_witness`, Props/C01IeeeWitness.lean: control points `(0,0) C, (1,2)` give `−2.4e-8`; the exact-arithmetic
    theorem `C16.calculatePath_optLen_nonneg` does not transfer to IEEE). That the following chord lengths outweigh it
    is a rounding-error analysis that is NOT done here; it is the hypothesis `CatmullSurplusOk` of
    **`decoded_dist_nonneg_float_partial`** / **`encode_decoded_no_panic_float_partial`**, and
    `decoded_dist_nonneg_statement_of_catmull` reduces the open statement of Props/C01.lean to it.

  The path mode of a decoded slider is the mode in force when its line was parsed, NOT the map's final mode
  (`decoded_mode_mismatch_witness`: `[HitObjects]` before `Mode: 2` gives an osu!-mode path inside a catch map), so the
  unconditional theorems are stated per slider path; `encode_decoded_no_panic_float_modes` is the corollary for maps
  whose slider paths carry the map's (non-osu!) mode.
-/
import RosuModel.Props.C01
import RosuModel.Props.C14Ieee
import RosuModel.Lemmas.FloatDistLaws
import RosuModel.Lemmas.OptLenZero
import RosuModel.Lemmas.DecodedSliders
import RosuModel.Model.Cmds.Curve
namespace Rosu.C01
open Rosu Rosu.Curve Rosu.Encode Rosu.FDL Rosu.DecodedSliders
set_option linter.unusedSectionVars false

/-! ### the slider-event iterator is built in osu! and catch mode only (any arithmetic) -/

section Modes
variable {F P : Type} [Scalar F] [Scalar P] [Cvt P F] [Trig F] [Trig P]

/-- the modes in which `collect_samples` builds a `SliderEventsIter` (`slider_events` / `juicestream_events`). -/
def UsesSliderEvents (mode : GameMode) : Prop := mode = GameMode.osu ∨ mode = GameMode.catch

theorem collectObject_safe_mode (m : Beatmap F P) (h : HitObject F P) (buf : List (SliderEvents.SliderEvent F))
    (hd : UsesSliderEvents m.general.mode → ∀ s, h.kind = .slider s → ∀ d : F, curveDist s = .ok d →
      Scalar.le (0 : F) (Scalar.min (100000 : F) d) = true) :
    Safe (fun _ => True) (collectObject m h buf) := by
  unfold collectObject
  cases hk : h.kind with
  | circle c => exact True.intro
  | spinner c => exact True.intro
  | hold c => exact True.intro
  | slider s =>
    simp only []
    refine Safe.bind' (curveDist_safe s) ?_
    intro d hdist _
    cases hm : m.general.mode with
    | taiko => exact True.intro
    | mania => exact True.intro
    | osu =>
      have hle := hd (Or.inl hm) s hk d hdist
      simp only []
      have : Safe (fun _ => True) (osuSliderSamples m h s d
          ((Scalar.ofInt (s.repeatCount + 1) : F) * d / s.velocity) buf) := by
        unfold osuSliderSamples
        simp only []
        refine Safe.bind (sliderEventList_safe _ _ _ d _ _ buf hle) ?_
        rintro ⟨evs, b⟩ _
        exact True.intro
      refine Safe.bind this ?_
      rintro ⟨pts, b⟩ _
      exact True.intro
    | «catch» =>
      have hle := hd (Or.inr hm) s hk d hdist
      simp only []
      have : Safe (fun _ => True) (catchSliderSamples m h s d
          ((Scalar.ofInt (s.repeatCount + 1) : F) * d / s.velocity) buf) := by
        unfold catchSliderSamples
        simp only []
        refine Safe.bind (sliderEventList_safe _ _ _ d _ _ buf hle) ?_
        rintro ⟨evs, b⟩ _
        exact True.intro
      refine Safe.bind this ?_
      rintro ⟨pts, b⟩ _
      exact True.intro

theorem collectAll_safe_mode (m : Beatmap F P) (hs : List (HitObject F P))
    (hd : UsesSliderEvents m.general.mode → DistOk hs) :
    ∀ buf, Safe (fun _ => True) (collectAll m hs buf) := by
  induction hs with
  | nil => intro _; exact True.intro
  | cons x rest ih =>
    intro buf
    unfold collectAll
    refine Safe.bind (collectObject_safe_mode m x buf (fun hu s hk d hc => hd hu x (by simp) s hk d hc)) ?_
    rintro ⟨a, b⟩ _
    simp only []
    exact Safe.bind (ih (fun hu h hh => hd hu h (by simp [hh])) b) (fun _ _ => True.intro)

/-- **`encode_no_panic_of_nonneg_dist` with the mode taken into account**: the `clamp` hypothesis is needed in osu!
and catch mode only. -/
theorem encode_no_panic_of_mode_dist (m : Beatmap F P) (hd : UsesSliderEvents m.general.mode → DistOk m.hitObjects) :
    encode m ≠ .error .panic := by
  have hs : Safe (fun _ => True) (encode m) := by
    unfold encode
    have ht : Safe (fun _ => True) (encodeTimingPoints m) := by
      unfold encodeTimingPoints
      have hc : Safe (fun _ => True) (collectSamples m) := by
        unfold collectSamples
        exact Safe.bind (collectAll_safe_mode m m.hitObjects hd []) (fun _ _ => True.intro)
      exact Safe.bind hc (fun _ _ => True.intro)
    refine Safe.bind ht ?_
    intro t _
    exact Safe.bind (Safe.of_no_panic (encodeHitObjects_no_panic m)) (fun _ _ => True.intro)
  exact hs.no_panic

/-- **taiko and mania maps never panic in `encode`** — any map (decoded or hand-built), any arithmetic, whatever the
slider distances are: no slider-event iterator is built. -/
theorem encode_no_panic_taiko_mania (m : Beatmap F P)
    (hm : m.general.mode = GameMode.taiko ∨ m.general.mode = GameMode.mania) : encode m ≠ .error .panic := by
  refine encode_no_panic_of_mode_dist m (fun hu => ?_)
  rcases hu with hu | hu <;> rcases hm with hm | hm <;> rw [hu] at hm <;> cases hm

end Modes

/-! ### binary64 distances: the assertion fails exactly for a negative number -/

section Float64
variable [Trig Float32]

/-- every computed slider distance is a NaN or `≥ 0` — is not a negative number. -/
def DistNotNeg (hs : List (HitObject Float Float32)) : Prop :=
  ∀ h ∈ hs, ∀ s, h.kind = .slider s → ∀ d : Float, curveDist s = .ok d → NotNeg d

/-- **`DistOk` holds as soon as no slider distance is a negative number.** -/
theorem distOk_of_not_negative (hs : List (HitObject Float Float32)) (h : DistNotNeg hs) : DistOk hs :=
  fun x hx s hk d hd => le_zero_min_of_notNeg_float d (h x hx s hk d hd)

/-- … and only then. -/
theorem distOk_iff_not_negative (hs : List (HitObject Float Float32)) : DistOk hs ↔ DistNotNeg hs :=
  ⟨fun h x hx s hk d hd => (le_zero_min_iff_notNeg d zero_le_maxLen_float).mp (h x hx s hk d hd),
   distOk_of_not_negative hs⟩

/-! ### the three kinds of distance -/

/-- a stored expected distance is `max(l, 0)`: `≥ 0` and not a NaN (even for a NaN `l`: IEEE maxNum). -/
theorem expStored_nonneg_float (e : Option Float) (h : ExpStored e) (L : Float) (hL : e = some L) :
    Scalar.le (0 : Float) L = true ∧ Scalar.isNaN L = false := by
  obtain ⟨l, rfl, _⟩ := h L hL
  exact C14.max_zero_ge_float l

/-- the natural length of the slider's path is not a negative number. -/
def NatOk (s : HitObjectSlider Float Float32) : Prop := ∀ d : Float, naturalDist s = .ok d → NotNeg d

/-- `NatOk` depends on the `SliderPath` data only. -/
theorem natOk_congr (s s' : HitObjectSlider Float Float32) (hp : s'.path = s.path) (h : NatOk s) : NatOk s' := by
  intro d hd
  apply h d
  unfold naturalDist at hd ⊢
  rw [← hp]; exact hd

/-- it is so whenever `optimized_len` is not negative (the sum of the segment lengths never is). -/
theorem natOk_of_optLen_notNeg (s : HitObjectSlider Float Float32)
    (h : ∀ (b : CurveBuffers Float32 Float) (opt : Float),
      calculatePath curveFuel s.path.mode s.path.controlPoints (emptyBuffers : CurveBuffers Float32 Float) = .ok (b, opt) →
        NotNeg opt) : NatOk s := by
  intro d hd
  unfold naturalDist at hd
  cases hc : calculatePath curveFuel s.path.mode s.path.controlPoints (emptyBuffers : CurveBuffers Float32 Float) with
  | error e => rw [hc] at hd; cases hd
  | ok r =>
    obtain ⟨b, opt⟩ := r
    rw [hc] at hd
    simp only [Outcome.ok_bind, Outcome.pure_eq_ok, Except.ok.injEq] at hd
    subst hd
    exact natTotal_notNeg_float opt b.path (h b opt hc)

/-- **without an osu!-mode Catmull segment the natural length is a NaN or `≥ 0`**: `optimized_len` is `0.0`. -/
theorem natOk_of_no_osu_catmull (s : HitObjectSlider Float Float32)
    (h : s.path.mode ≠ GameMode.osu ∨ NoCatmull s.path.controlPoints) : NatOk s :=
  natOk_of_optLen_notNeg s (fun b opt hc => by
    rw [calculatePath_optLen_zero curveFuel s.path.mode s.path.controlPoints _ b opt h hc]
    exact notNeg_zero_float)

/-- a slider whose expected distance has the stored form and whose natural length is not negative has no negative
distance. -/
theorem curveDist_notNeg (s : HitObjectSlider Float Float32) (he : ExpStored s.path.expectedDist) (hn : NatOk s)
    (d : Float) (hd : curveDist s = .ok d) : NotNeg d := by
  rcases curveDist_cases s d hd with h0 | h0 | h0
  · rw [h0]; exact notNeg_zero_float
  · exact hn d h0
  · exact Or.inr (expStored_nonneg_float _ he d h0).1

/-! ### decoded maps -/

/-- **the expected distance of every decoded slider is `≥ 0` and a number** — every byte string. -/
theorem decoded_expected_nonneg_float (bs : List UInt8) (st : BeatmapState Float Float32) (m : Beatmap Float Float32)
    (h1 : decodeBytes beatmapDecoder bs = .ok st) (h2 : st.finish = .ok m) :
    ∀ h ∈ m.hitObjects, ∀ s, h.kind = .slider s → ∀ L, s.path.expectedDist = some L →
      Scalar.le (0 : Float) L = true ∧ Scalar.isNaN L = false :=
  fun h hh s hk L hL => expStored_nonneg_float _ (decoded_expected_stored bs st m h1 h2 h hh s hk) L hL

/-- **`decoded_dist_nonneg_float_non_catmull`**: for every byte string decoded to a map, every slider whose path mode
is not osu! or whose control points carry no Catmull type has a distance that is a NaN or `≥ 0` — it cannot trip
the `clamp` assertion. NaN / infinite coordinates, any expected distance, any fuel outcome. -/
theorem decoded_dist_nonneg_float_non_catmull (bs : List UInt8) (st : BeatmapState Float Float32)
    (m : Beatmap Float Float32) (h1 : decodeBytes beatmapDecoder bs = .ok st) (h2 : st.finish = .ok m)
    (h : HitObject Float Float32) (hh : h ∈ m.hitObjects) (s : HitObjectSlider Float Float32) (hk : h.kind = .slider s)
    (hno : s.path.mode ≠ GameMode.osu ∨ NoCatmull s.path.controlPoints) (d : Float) (hd : curveDist s = .ok d) :
    NotNeg d ∧ Scalar.le (0 : Float) (Scalar.min (100000 : Float) d) = true := by
  have hn := curveDist_notNeg s (decoded_expected_stored bs st m h1 h2 h hh s hk) (natOk_of_no_osu_catmull s hno) d hd
  exact ⟨hn, le_zero_min_of_notNeg_float d hn⟩

/-- **what remains of `decoded_dist_nonneg_statement Float Float32`**: for the sliders of the map whose path mode is
osu! and that have a Catmull control point, the natural length `optimized_len + Σ |pᵢ₊₁ − pᵢ|` of the simplified
path is a NaN or `≥ 0`. (`optimized_len = Σ (removed − chord)` can be slightly negative in IEEE —
`optLen_negative_witness` — while every chord subtracted there is added again by the sum; that the total stays `≥ 0`
needs a rounding-error bound, which is not proved.) -/
def CatmullSurplusOk (m : Beatmap Float Float32) : Prop :=
  ∀ h ∈ m.hitObjects, ∀ s, h.kind = .slider s → s.path.mode = GameMode.osu → ¬ NoCatmull s.path.controlPoints → NatOk s

/-- the obligation is discharged by `0 ≤ optimized_len` (or NaN) for those sliders. -/
theorem catmullSurplusOk_of_optLen (m : Beatmap Float Float32)
    (h : ∀ x ∈ m.hitObjects, ∀ s, x.kind = .slider s → s.path.mode = GameMode.osu → ¬ NoCatmull s.path.controlPoints →
      ∀ (b : CurveBuffers Float32 Float) (opt : Float),
        calculatePath curveFuel s.path.mode s.path.controlPoints (emptyBuffers : CurveBuffers Float32 Float) = .ok (b, opt) →
          NotNeg opt) : CatmullSurplusOk m :=
  fun x hx s hk hm hc => natOk_of_optLen_notNeg s (h x hx s hk hm hc)

/-- maps without osu!-path-mode Catmull sliders satisfy it trivially. -/
theorem catmullSurplusOk_of_none (m : Beatmap Float Float32)
    (hno : ∀ h ∈ m.hitObjects, ∀ s, h.kind = .slider s → s.path.mode ≠ GameMode.osu ∨ NoCatmull s.path.controlPoints) :
    CatmullSurplusOk m := by
  intro h hh s hk hm hc
  rcases hno h hh s hk with h' | h'
  · exact absurd hm h'
  · exact absurd h' hc

/-- **`decoded_dist_nonneg_statement Float Float32`, partial**: every decoded map satisfies `DistOk` under
`CatmullSurplusOk`. -/
theorem decoded_dist_nonneg_float_partial (bs : List UInt8) (st : BeatmapState Float Float32)
    (m : Beatmap Float Float32) (h1 : decodeBytes beatmapDecoder bs = .ok st) (h2 : st.finish = .ok m)
    (hc : CatmullSurplusOk m) : DistOk m.hitObjects := by
  refine distOk_of_not_negative _ ?_
  intro h hh s hk d hd
  refine curveDist_notNeg s (decoded_expected_stored bs st m h1 h2 h hh s hk) ?_ d hd
  by_cases hm : s.path.mode = GameMode.osu
  · by_cases hcat : NoCatmull s.path.controlPoints
    · exact natOk_of_no_osu_catmull s (Or.inr hcat)
    · exact hc h hh s hk hm hcat
  · exact natOk_of_no_osu_catmull s (Or.inl hm)

/-- the open statement of Props/C01.lean is reduced to the Catmull obligation on decoded maps. -/
theorem decoded_dist_nonneg_statement_of_catmull
    (h : ∀ (bs : List UInt8) (st : BeatmapState Float Float32) (m : Beatmap Float Float32),
      decodeBytes beatmapDecoder bs = .ok st → st.finish = .ok m → CatmullSurplusOk m) :
    decoded_dist_nonneg_statement Float Float32 :=
  fun bs st m h1 h2 => decoded_dist_nonneg_float_partial bs st m h1 h2 (h bs st m h1 h2)

/-- **`encode_total` modulo fuel on decoded maps, partial**: re-encoding a decoded map does not panic, provided — in
osu! and catch mode — the osu!-path-mode Catmull sliders satisfy `CatmullSurplusOk`. -/
theorem encode_decoded_no_panic_float_partial (bs : List UInt8) (st : BeatmapState Float Float32)
    (m : Beatmap Float Float32) (h1 : decodeBytes beatmapDecoder bs = .ok st) (h2 : st.finish = .ok m)
    (hc : UsesSliderEvents m.general.mode → CatmullSurplusOk m) : encode m ≠ .error .panic :=
  encode_no_panic_of_mode_dist m (fun hu => decoded_dist_nonneg_float_partial bs st m h1 h2 (hc hu))

/-- **unconditional, no osu!-mode Catmull**: for every byte string whose decoded sliders have a non-osu! path mode or
no Catmull control point, re-encoding the decoded map does not panic. -/
theorem encode_decoded_no_panic_float_no_catmull (bs : List UInt8) (st : BeatmapState Float Float32)
    (m : Beatmap Float Float32) (h1 : decodeBytes beatmapDecoder bs = .ok st) (h2 : st.finish = .ok m)
    (hno : ∀ h ∈ m.hitObjects, ∀ s, h.kind = .slider s → s.path.mode ≠ GameMode.osu ∨ NoCatmull s.path.controlPoints) :
    encode m ≠ .error .panic :=
  encode_decoded_no_panic_float_partial bs st m h1 h2 (fun _ => catmullSurplusOk_of_none m hno)

/-- **unconditional, taiko / mania** (decoded or not). -/
theorem encode_decoded_no_panic_float_taiko_mania (bs : List UInt8) (st : BeatmapState Float Float32)
    (m : Beatmap Float Float32) (_ : decodeBytes beatmapDecoder bs = .ok st) (_ : st.finish = .ok m)
    (hm : m.general.mode = GameMode.taiko ∨ m.general.mode = GameMode.mania) : encode m ≠ .error .panic :=
  encode_no_panic_taiko_mania m hm

/-- **unconditional, modes taiko / catch / mania** when the slider paths carry the map's mode (true of every file whose
`Mode:` line precedes its `[HitObjects]` lines and is not changed afterwards; not of every file:
`decoded_mode_mismatch_witness`). -/
theorem encode_decoded_no_panic_float_modes (bs : List UInt8) (st : BeatmapState Float Float32)
    (m : Beatmap Float Float32) (h1 : decodeBytes beatmapDecoder bs = .ok st) (h2 : st.finish = .ok m)
    (hm : m.general.mode ≠ GameMode.osu)
    (hagree : ∀ h ∈ m.hitObjects, ∀ s, h.kind = .slider s → s.path.mode = m.general.mode) :
    encode m ≠ .error .panic :=
  encode_decoded_no_panic_float_no_catmull bs st m h1 h2
    (fun h hh s hk => Or.inl (by rw [hagree h hh s hk]; exact hm))

/-! ### closed instances: checkers evaluated by the kernel -/

/-- bytes of an ASCII text. -/
def asciiBytes (s : String) : List UInt8 := (str s).map (fun c => c.toNat.toUInt8)

/-- `Beatmap::from_bytes` followed by the finaliser. -/
def decodeMap (bs : List UInt8) : Option (Beatmap Float Float32) :=
  match decodeBytes (beatmapDecoder : LineDecoder (BeatmapState Float Float32)) bs with
  | .ok st => match st.finish with
    | .ok m => some m
    | .error _ => none
  | .error _ => none

theorem decodeMap_spec (bs : List UInt8) (m : Beatmap Float Float32) (h : decodeMap bs = some m) :
    ∃ st : BeatmapState Float Float32, decodeBytes beatmapDecoder bs = .ok st ∧ st.finish = .ok m := by
  unfold decodeMap at h
  split at h
  · rename_i st hst
    split at h
    · rename_i m' hm
      cases h
      exact ⟨st, hst, hm⟩
    · cases h
  · cases h

/-- the `SliderPath` data of the sliders of a map, in order. -/
def sliderPaths (m : Beatmap Float Float32) : List (SliderPathData Float Float32) :=
  m.hitObjects.filterMap fun h => match h.kind with
    | .slider s => some s.path
    | _ => none

theorem mem_sliderPaths (m : Beatmap Float Float32) (h : HitObject Float Float32) (hh : h ∈ m.hitObjects)
    (s : HitObjectSlider Float Float32) (hk : h.kind = .slider s) : s.path ∈ sliderPaths m := by
  unfold sliderPaths
  rw [List.mem_filterMap]
  exact ⟨h, hh, by rw [hk]⟩

def noCatmullB (cps : List (PathControlPoint Float32)) : Bool :=
  cps.all fun cp => match cp.pathType with
    | none => true
    | some t => t.kind != SplineType.catmull

theorem noCatmullB_spec (cps : List (PathControlPoint Float32)) : noCatmullB cps = true ↔ NoCatmull cps := by
  unfold noCatmullB NoCatmull
  rw [List.all_eq_true]
  constructor
  · intro h cp hcp t ht
    have := h cp hcp
    rw [ht] at this
    simpa using this
  · intro h cp hcp
    cases ht : cp.pathType with
    | none => rfl
    | some t => simpa using h cp hcp t ht

/-- "non-osu! path mode or no Catmull control point", as a check on a path. -/
def pathPlainB (p : SliderPathData Float Float32) : Bool := (p.mode != GameMode.osu) || noCatmullB p.controlPoints

theorem pathPlainB_spec (p : SliderPathData Float Float32) (h : pathPlainB p = true) :
    p.mode ≠ GameMode.osu ∨ NoCatmull p.controlPoints := by
  unfold pathPlainB at h
  rw [Bool.or_eq_true] at h
  rcases h with h | h
  · exact Or.inl (by simpa using h)
  · exact Or.inr ((noCatmullB_spec _).mp h)

/-- a slider carrying the given path (the other fields do not enter the curve). -/
def sliderOfPath (p : SliderPathData Float Float32) : HitObjectSlider Float Float32 :=
  { pos := ⟨0, 0⟩, newCombo := false, comboOffset := 0, path := p, nodeSamples := [], repeatCount := 0, velocity := 1 }

/-- the natural length of the path is a NaN or `≥ 0` (or the curve ran out of fuel), as a check. -/
def natOkB (p : SliderPathData Float Float32) : Bool :=
  match naturalDist (sliderOfPath p) with
  | .ok d => Scalar.isNaN d || Scalar.le (0 : Float) d
  | .error _ => true

theorem natOkB_spec (s : HitObjectSlider Float Float32) (h : natOkB s.path = true) : NatOk s := by
  refine natOk_congr (sliderOfPath s.path) s rfl ?_
  intro d hd
  unfold natOkB at h
  rw [hd] at h
  simp only [Bool.or_eq_true] at h
  exact h

/-- `CatmullSurplusOk`, as a check on the slider paths of the map. -/
theorem catmullSurplusOk_of_check (m : Beatmap Float Float32)
    (h : (sliderPaths m).all (fun p => pathPlainB p || natOkB p) = true) : CatmullSurplusOk m := by
  intro x hx s hk hm hc
  have := (List.all_eq_true.mp h) s.path (mem_sliderPaths m x hx s hk)
  rw [Bool.or_eq_true] at this
  rcases this with h' | h'
  · rcases pathPlainB_spec _ h' with h'' | h''
    · exact absurd hm h''
    · exact absurd h'' hc
  · exact natOkB_spec s h'

end Float64

/-! ### non-vacuity and witnesses (closed files decoded by the kernel; `Trig Float32` of Model/Cmds/Curve.lean)

The Catmull instances (about 20 s of kernel arithmetic each) are in Props/C01IeeeWitness.lean. -/

section Examples

/-- a linear slider in an osu! map. -/
def fileLinear : List UInt8 := asciiBytes "osu file format v14\n\n[HitObjects]\n0,0,0,2,0,L|100:0,1,100\n"

/-- `[HitObjects]` first, `Mode: 2` afterwards. -/
def fileModeAfter : List UInt8 := asciiBytes "[HitObjects]\n0,0,0,2,0,L|100:0,1\n[General]\nMode: 2\n"

/-- a taiko map with a slider whose stored length is below the path's. -/
def fileTaiko : List UInt8 := asciiBytes "[General]\nMode: 1\n[HitObjects]\n0,0,0,2,0,B|30:40|60:0,2,7.5\n"

/-- a catch map (mode line first) with a two-segment linear slider and no length field. -/
def fileCatch : List UInt8 := asciiBytes "[General]\nMode: 2\n[HitObjects]\n10,20,0,2,0,L|13:24|13:30,1\n"

/-- the decoded map's mode and the path modes of its sliders. -/
def modesOf (m : Beatmap Float Float32) : GameMode × List GameMode := (m.general.mode, (sliderPaths m).map (·.mode))

/-- **the path mode of a decoded slider need not be the map's mode**: a slider line parsed before `Mode: 2` keeps the
default osu! path mode inside a catch map (decode.rs builds the `SliderPath` with `state.timing_points.mode()` at that
moment). So osu!-mode Catmull simplification — and a possibly negative `optimized_len` — also occurs in catch maps,
where the encoder does build the slider-event iterator. -/
theorem decoded_mode_mismatch_witness : (decodeMap fileModeAfter).map modesOf = some (GameMode.catch, [GameMode.osu]) := by
  decide +kernel

/-- all hypotheses of `encode_decoded_no_panic_float_no_catmull` (and of `decoded_dist_nonneg_float_non_catmull`) on a
decoded file, and its conclusion. -/
example : ∃ m, decodeMap fileLinear = some m ∧ (sliderPaths m).length = 1 ∧ DistOk m.hitObjects ∧
    encode m ≠ .error .panic := by
  have hchk : (decodeMap fileLinear).map (fun m => ((sliderPaths m).length, (sliderPaths m).all pathPlainB)) =
      some (1, true) := by decide +kernel
  cases hm : decodeMap fileLinear with
  | none => rw [hm] at hchk; cases hchk
  | some m =>
    rw [hm] at hchk
    simp only [Option.map_some, Option.some.injEq, Prod.mk.injEq] at hchk
    obtain ⟨st, h1, h2⟩ := decodeMap_spec _ m hm
    have hno : ∀ h ∈ m.hitObjects, ∀ s, h.kind = .slider s →
        s.path.mode ≠ GameMode.osu ∨ NoCatmull s.path.controlPoints :=
      fun x hx s hk => pathPlainB_spec _ ((List.all_eq_true.mp hchk.2) s.path (mem_sliderPaths m x hx s hk))
    exact ⟨m, rfl, hchk.1, decoded_dist_nonneg_float_partial _ st m h1 h2 (catmullSurplusOk_of_none m hno),
      encode_decoded_no_panic_float_no_catmull _ st m h1 h2 hno⟩

/-- the mode-mismatch file is covered as well (its osu!-mode path is linear). -/
example : ∃ m, decodeMap fileModeAfter = some m ∧ encode m ≠ .error .panic := by
  have hchk : (decodeMap fileModeAfter).map (fun m => (sliderPaths m).all pathPlainB) = some true := by decide +kernel
  cases hm : decodeMap fileModeAfter with
  | none => rw [hm] at hchk; cases hchk
  | some m =>
    rw [hm] at hchk
    simp only [Option.map_some, Option.some.injEq] at hchk
    obtain ⟨st, h1, h2⟩ := decodeMap_spec _ m hm
    exact ⟨m, rfl, encode_decoded_no_panic_float_no_catmull _ st m h1 h2
      (fun x hx s hk => pathPlainB_spec _ ((List.all_eq_true.mp hchk) s.path (mem_sliderPaths m x hx s hk)))⟩

/-- hypotheses of `encode_decoded_no_panic_float_taiko_mania` / `encode_no_panic_taiko_mania`. -/
example : ∃ m, decodeMap fileTaiko = some m ∧ (sliderPaths m).length = 1 ∧ encode m ≠ .error .panic := by
  have hchk : (decodeMap fileTaiko).map (fun m => (decide (m.general.mode = GameMode.taiko), (sliderPaths m).length)) =
      some (true, 1) := by decide +kernel
  cases hm : decodeMap fileTaiko with
  | none => rw [hm] at hchk; cases hchk
  | some m =>
    rw [hm] at hchk
    simp only [Option.map_some, Option.some.injEq, Prod.mk.injEq, decide_eq_true_eq] at hchk
    obtain ⟨st, h1, h2⟩ := decodeMap_spec _ m hm
    exact ⟨m, rfl, hchk.2, encode_decoded_no_panic_float_taiko_mania _ st m h1 h2 (Or.inl hchk.1)⟩

/-- hypotheses of `encode_decoded_no_panic_float_modes`: a catch map whose slider path carries the catch mode. -/
example : ∃ m, decodeMap fileCatch = some m ∧ UsesSliderEvents m.general.mode ∧ encode m ≠ .error .panic := by
  have hchk : (decodeMap fileCatch).map modesOf = some (GameMode.catch, [GameMode.catch]) := by decide +kernel
  cases hm : decodeMap fileCatch with
  | none => rw [hm] at hchk; cases hchk
  | some m =>
    rw [hm] at hchk
    simp only [Option.map_some, Option.some.injEq, modesOf, Prod.mk.injEq] at hchk
    obtain ⟨st, h1, h2⟩ := decodeMap_spec _ m hm
    refine ⟨m, rfl, Or.inr hchk.1, encode_decoded_no_panic_float_modes _ st m h1 h2 (by rw [hchk.1]; decide) ?_⟩
    intro x hx s hk
    have hmem : s.path.mode ∈ (sliderPaths m).map (·.mode) := List.mem_map.mpr ⟨s.path, mem_sliderPaths m x hx s hk, rfl⟩
    rw [hchk.2] at hmem
    rw [hchk.1]
    simpa using hmem

end Examples

end Rosu.C01
