/-
  Props/C04All.lean — the module audited for C04: Props/C04.lean (shape, record sections), Props/C04Slider.lean
  (hit-object lines of all four kinds, the [HitObjects] block), Props/C04Timing.lean (the [TimingPoints] block),
  Props/C04File.lean (the three composed: `encoded_file_accepted`, no shape assumption left) and Props/C04Toy.lean (the toy
  map satisfying `RepMap`). All are in namespace `Rosu.C04`.
-/
import RosuModel.Props.C04Slider
import RosuModel.Props.C04Timing
import RosuModel.Props.C04File
import RosuModel.Props.C04Toy
