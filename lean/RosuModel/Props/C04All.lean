/-
  Props/C04All.lean — the module audited for C04: Props/C04.lean (shape, record sections), Props/C04Slider.lean
  (hit-object lines of all four kinds, the [HitObjects] block) and Props/C04Timing.lean (the [TimingPoints] block) and
  Props/C04Decoded.lean (the `Decoded` invariant of the record sections; the record theorems for every decoded map).
  All four are in namespace `Rosu.C04`.
-/
import RosuModel.Props.C04Slider
import RosuModel.Props.C04Timing
import RosuModel.Props.C04Decoded
