/-
  Props/C04All.lean — the module audited for C04: Props/C04.lean (shape, record sections), Props/C04Slider.lean
  (hit-object lines of all four kinds, the [HitObjects] block), Props/C04Timing.lean (the [TimingPoints] block),
  Props/C04File.lean + C04Toy.lean (all parts composed: `encoded_file_accepted`) and Props/C04Decoded.lean (the
  `Decoded` invariant: every decoded map's record sections are representable), Props/C04DecodedObjects.lean (the hit objects
  of decoded maps are representable up to named residuals), Props/C04DecodedTiming.lean + C04DecodedTimingToy.lean (the control
  points collected from decoded maps are representable up to the residual `CollectedTimesInLimit`; `encoded_file_accepted_decoded`).
  Props/C04DecodedPaths.lean (the shape half of `RepPath` derived
  from `convert_path_str`: for decoded sliders `PathShapeOk` is exactly `F17Free`; Props/C04DecodedPathsIeee.lean: its laws are
  theorems of the IEEE instances); on the IEEE instances also Props/C04DecodedObjectsIeee.lean and
  Props/C04DecodedObjectsIeee2.lean; Props/C04DecodedTimingEvents.lean (`CollectedTimesInLimit` reduced to the objects' computed
  end times / slider tails and span ends, all modes, IEEE doubles); Props/C04DecodedTimingUpper.lean (the same with the upper
  bounds alone, under `C01.DistOk`). All in namespace `Rosu.C04`.
-/
import RosuModel.Props.C04Slider
import RosuModel.Props.C04Timing
import RosuModel.Props.C04File
import RosuModel.Props.C04Toy
import RosuModel.Props.C04Decoded
import RosuModel.Props.C04Ieee
import RosuModel.Props.C04DecodedIeee
import RosuModel.Props.C04DecodedObjects
import RosuModel.Props.C04DecodedObjectsToy
import RosuModel.Props.C04DecodedObjectsIeee
import RosuModel.Props.C04DecodedTiming
import RosuModel.Props.C04DecodedTimingToy
import RosuModel.Props.C04DecodedTimingIeee
import RosuModel.Props.C04DecodedPaths
import RosuModel.Props.C04DecodedPathsIeee
import RosuModel.Props.C04DecodedObjectsIeee2
import RosuModel.Props.C04DecodedTimingEvents
import RosuModel.Props.C04DecodedTimingUpper
import RosuModel.Props.C04DecodedTimingOrder
