/-
  Props/C16IeeeCut2.lean — C16 on IEEE floats, the RANGE OF THE PARAMETER of the cut, with the two conversion facts
  that Props/C16IeeeCut.lean (`cut_param_range_float_partial`) had to assume now PROVED (Lemmas/FloatErrCvt.lean):
  `f64::from(ell)` is exact on values (`toRat_up`), `(L − len_k) as f32` is one correct rounding (`down_rnd`) and keeps
  the sign (`down_nonneg_val`).

  * `cut_param_range_float` (= `cut_param_range_float_statement`, full strength): `τ ≤ ℓ (1 + 2⁻²³)`;
  * `cut_param_nonneg_float`: `len_k ≤ L ⟹ 0 ≤ τ`;
  * `cut_end_point_near_segment_float`: `cut_end_point_near_segment` with `0 ≤ τ ≤ ℓ(1 + κ)`, `κ = 2⁻²³` DERIVED from the
    booking `len_k ≤ L ≤ len_k ⊕ f64::from(ell)` instead of assumed; kernel-evaluated demo;
  * `sqrt_len_err` (uses Lemmas/FloatErrSqrt.lean): the length `ell = f64::from(s).sqrt() as f32` of `Pos::length` satisfies
    `ℓ² (1 − 2⁻²²) ≤ s ≤ ℓ² (1 + 2⁻²²)` — the `f64` square root is now covered by the error layer.
-/
import RosuModel.Props.C16IeeeCut
import RosuModel.Lemmas.FloatErrCvt
import RosuModel.Lemmas.FloatErrSqrt
namespace Rosu.C16
open Rosu Rosu.FErr

/-- **the range of the parameter of the cut** (`cut_param_range_float_statement`, no conversion hypothesis left):
in the cut regime `len_k ≤ L ≤ len_{k+1} = len_k ⊕ f64::from(ell)` the `f32` parameter `t = (L − len_k) as f32` satisfies
`τ ≤ ℓ (1 + 2⁻²³)`. Hypotheses: the two `f64` results and the `f32` result are finite (no overflow), `ell` is a finite
`f32` with `ℓ ≥ 2⁻¹⁰⁰`, the booked length so far is `0 ≤ len_k ≤ 2²⁷ ℓ`. -/
theorem cut_param_range_float (L lk : Float) (ell : Float32)
    (hfs : (lk + (Cvt.up ell : Float)).isFinite = true) (hfd : (L - lk).isFinite = true)
    (hell : ell.isFinite = true) (hdf : (Cvt.down (L - lk) : Float32).isFinite = true)
    (hlL : Scalar.le lk L = true) (hLs : Scalar.le L (lk + (Cvt.up ell : Float)) = true)
    (hl0 : 0 ≤ toRat lk) (hlℓ : toRat lk ≤ 134217728 * toRat32 ell)
    (hℓmin : (2 : ℚ) ^ (-100 : Int) ≤ toRat32 ell) :
    toRat32 (Cvt.down (L - lk) : Float32) ≤ toRat32 ell * (1 + 1 / 8388608) :=
  cut_param_range_float_partial L lk ell (toRat_up ell hell) (down_rnd _ hfd hdf) hfs hfd hlL hLs hl0 hlℓ
    (lt_of_lt_of_le (two_zpow_pos _) hℓmin) hℓmin

/-- the full statement of Props/C16IeeeCut.lean holds. -/
theorem cut_param_range_float_full : cut_param_range_float_statement :=
  fun L lk ell hfs hfd hell hdf hlL hLs hl0 hlℓ hℓmin =>
    cut_param_range_float L lk ell hfs hfd hell hdf hlL hLs hl0 hlℓ hℓmin

/-- **the parameter of the cut is `≥ 0`**: `len_k ≤ L` (IEEE order) ⟹ `0 ≤ τ`, `τ` the value of `(L − len_k) as f32`:
the `f64` difference has the sign of the exact difference (`sub_err_float`), the conversion keeps the sign. -/
theorem cut_param_nonneg_float (L lk : Float)
    (hfd : (L - lk).isFinite = true) (hdf : (Cvt.down (L - lk) : Float32).isFinite = true)
    (hlL : Scalar.le lk L = true) : 0 ≤ toRat32 (Cvt.down (L - lk) : Float32) := by
  obtain ⟨fL, fl⟩ := finite_of_sub_finite _ _ hfd
  obtain ⟨δ, hδ, hy⟩ := sub_err_float L lk fL fl hfd
  have h2 := toRat_le_of_le _ _ fl fL hlL
  refine down_nonneg_val _ hfd hdf ?_
  rw [hy]
  have u1 : (2 : ℚ) ^ (-53 : Int) ≤ 1 := by norm_num
  have := (abs_le.mp hδ).1
  exact mul_nonneg (by linarith) (by linarith)

/-- a finite coordinate of the re-projection has a finite parameter. -/
theorem coordReproject_param_finite (a b ell t : Float32) (h : (coordReproject a b ell t).isFinite = true) :
    t.isFinite = true := by
  unfold coordReproject at h
  exact (finite_of_mul_finite32 _ _ (finite_of_add_finite32 _ _ h).2).2

/-- **(3), cut regime, with the parameter range DERIVED**: segment `k` with end points `pp = p_k`, `pe = p_{k+1}` bounded
by `2¹⁹`, `ell` = the `f32` length the code computes for it (finite, `2⁻¹⁰⁰ ≤ ℓ ≤ 2²¹`), `lk = len_k` the booked length so far
(`0 ≤ len_k ≤ 2²⁷ ℓ`), `L` the requested length inside the booked segment, `len_k ≤ L ≤ len_k ⊕ f64::from(ell)` (IEEE
order, what the search loop of `calculate_length` establishes), no overflow in the two `f64` operations, finite result
coordinates. Then the new end point `p_k + dir · ((L − len_k) as f32)` is within `1/2` px, in each coordinate, of a point
`p_k + ρ' (p_{k+1} − p_k)`, `ρ' ∈ [0, 1]`, of the segment. No hypothesis on the conversions or on `τ` is left. -/
theorem cut_end_point_near_segment_float (pp pe : Pos Float32) (L lk : Float)
    (hfx : (reproject pp pe (Cvt.down (L - lk))).x.isFinite = true)
    (hfy : (reproject pp pe (Cvt.down (L - lk))).y.isFinite = true)
    (hell : (Pos.length Float (pe - pp)).isFinite = true)
    (hpp : Bounded19 pp) (hpe : Bounded19 pe)
    (hle : toRat32 (Pos.length Float (pe - pp)) ≤ 2097152)
    (hℓmin : (2 : ℚ) ^ (-100 : Int) ≤ toRat32 (Pos.length Float (pe - pp)))
    (hfs : (lk + (Cvt.up (Pos.length Float (pe - pp)) : Float)).isFinite = true)
    (hfd : (L - lk).isFinite = true)
    (hlL : Scalar.le lk L = true)
    (hLs : Scalar.le L (lk + (Cvt.up (Pos.length Float (pe - pp)) : Float)) = true)
    (hl0 : 0 ≤ toRat lk) (hlℓ : toRat lk ≤ 134217728 * toRat32 (Pos.length Float (pe - pp))) :
    ∃ ρ' : ℚ, 0 ≤ ρ' ∧ ρ' ≤ 1 ∧
      |toRat32 (reproject pp pe (Cvt.down (L - lk))).x - (toRat32 pp.x + ρ' * (toRat32 pe.x - toRat32 pp.x))| ≤ 1 / 2 ∧
      |toRat32 (reproject pp pe (Cvt.down (L - lk))).y - (toRat32 pp.y + ρ' * (toRat32 pe.y - toRat32 pp.y))| ≤ 1 / 2 := by
  have hdf : (Cvt.down (L - lk) : Float32).isFinite = true := by
    rw [reproject_x] at hfx; exact coordReproject_param_finite _ _ _ _ hfx
  exact cut_end_point_near_segment pp pe _ (1 / 8388608) hfx hfy hell hpp hpe
    (lt_of_lt_of_le (two_zpow_pos _) hℓmin) hle (cut_param_nonneg_float L lk hfd hdf hlL)
    (cut_param_range_float L lk _ hfs hfd hell hdf hlL hLs hl0 hlℓ hℓmin) (by norm_num) (le_refl _)

/-! ### the length `ell` the code computes: `f64::from(s).sqrt() as f32` -/

/-- **the `f32` length of `Pos::length`**, `ℓ = (f64::from(s).sqrt()) as f32` for the `f32` sum of squares `s ≥ 2⁻²⁵⁰`:
an exact conversion, one correctly rounded `f64` square root (`sqrt_sq_err_float`) and one correct rounding to `f32`
(`down_rnd`) give `ℓ ≥ 0` and `ℓ² (1 − 2⁻²²) ≤ s ≤ ℓ² (1 + 2⁻²²)` — the parameter `ell` of Props/C16IeeeCut.lean is the
square root of the `f32` sum of squares up to a relative error `< 2⁻²³` (all three conversions / roundings covered by
the error layer). -/
theorem sqrt_len_err (s : Float32) (hs : s.isFinite = true) (hs0 : Scalar.le (0 : Float32) s = true)
    (hy : (Scalar.sqrt (Cvt.up s : Float) : Float).isFinite = true)
    (hl : (Cvt.down (Scalar.sqrt (Cvt.up s : Float) : Float) : Float32).isFinite = true)
    (hn : (2 : ℚ) ^ (-250 : Int) ≤ toRat32 s) :
    0 ≤ toRat32 (Cvt.down (Scalar.sqrt (Cvt.up s : Float) : Float) : Float32) ∧
    toRat32 (Cvt.down (Scalar.sqrt (Cvt.up s : Float) : Float) : Float32) ^ 2 * (1 - (2 : ℚ) ^ (-22 : Int)) ≤ toRat32 s ∧
    toRat32 s ≤ toRat32 (Cvt.down (Scalar.sqrt (Cvt.up s : Float) : Float) : Float32) ^ 2 * (1 + (2 : ℚ) ^ (-22 : Int)) := by
  obtain ⟨hy0, hlo, hhi⟩ := sqrt_sq_err_float (Cvt.up s) (up_finite s hs) (FB.up_nonneg s hs0) hy
  rw [toRat_up s hs] at hlo hhi
  have hyn : (2 : ℚ) ^ (-126 : Int) ≤ |toRat (Scalar.sqrt (Cvt.up s : Float) : Float)| := by
    rw [abs_of_nonneg hy0]
    by_contra hc
    rw [not_le] at hc
    have h1 : toRat (Scalar.sqrt (Cvt.up s : Float) : Float) ^ 2 < ((2 : ℚ) ^ (-126 : Int)) ^ 2 :=
      pow_lt_pow_left₀ hc hy0 (by norm_num)
    have h2 : ((2 : ℚ) ^ (-126 : Int)) ^ 2 * (1 + (2 : ℚ) ^ (-53 : Int)) ^ 2 ≤ (2 : ℚ) ^ (-250 : Int) / 2 := by norm_num
    have h3 : toRat (Scalar.sqrt (Cvt.up s : Float) : Float) ^ 2 * (1 + (2 : ℚ) ^ (-53 : Int)) ^ 2 ≤
        ((2 : ℚ) ^ (-126 : Int)) ^ 2 * (1 + (2 : ℚ) ^ (-53 : Int)) ^ 2 :=
      mul_le_mul_of_nonneg_right h1.le (by positivity)
    have h4 : (0 : ℚ) < (2 : ℚ) ^ (-250 : Int) := two_zpow_pos _
    have h5 := le_trans hn (le_trans hhi (le_trans h3 h2))
    generalize (2 : ℚ) ^ (-250 : Int) = c at h4 h5
    linarith
  obtain ⟨δ, hδ, hℓ⟩ := (down_rnd _ hy hl).rel hyn
  rw [hℓ]
  generalize toRat (Scalar.sqrt (Cvt.up s : Float) : Float) = y at *
  obtain ⟨d1, d2⟩ := abs_le.mp hδ
  have u1 : (2 : ℚ) ^ (-24 : Int) < 1 := by norm_num
  have hY : 0 ≤ y ^ 2 := sq_nonneg y
  have b1 : (1 + δ) ^ 2 ≤ (1 + (2 : ℚ) ^ (-24 : Int)) ^ 2 := pow_le_pow_left₀ (by linarith) (by linarith) 2
  have b2 : (1 - (2 : ℚ) ^ (-24 : Int)) ^ 2 ≤ (1 + δ) ^ 2 := pow_le_pow_left₀ (by linarith) (by linarith) 2
  refine ⟨mul_nonneg hy0 (by linarith), ?_, ?_⟩
  · have c : (1 + (2 : ℚ) ^ (-24 : Int)) ^ 2 * (1 - (2 : ℚ) ^ (-22 : Int)) ≤ 1 - (2 : ℚ) ^ (-52 : Int) := by norm_num
    calc (y * (1 + δ)) ^ 2 * (1 - (2 : ℚ) ^ (-22 : Int)) = y ^ 2 * ((1 + δ) ^ 2 * (1 - (2 : ℚ) ^ (-22 : Int))) := by ring
      _ ≤ y ^ 2 * ((1 + (2 : ℚ) ^ (-24 : Int)) ^ 2 * (1 - (2 : ℚ) ^ (-22 : Int))) :=
          mul_le_mul_of_nonneg_left (mul_le_mul_of_nonneg_right b1 (by norm_num)) hY
      _ ≤ y ^ 2 * (1 - (2 : ℚ) ^ (-52 : Int)) := mul_le_mul_of_nonneg_left c hY
      _ ≤ _ := hlo
  · have c : (1 + (2 : ℚ) ^ (-53 : Int)) ^ 2 ≤ (1 - (2 : ℚ) ^ (-24 : Int)) ^ 2 * (1 + (2 : ℚ) ^ (-22 : Int)) := by norm_num
    calc toRat32 s ≤ y ^ 2 * (1 + (2 : ℚ) ^ (-53 : Int)) ^ 2 := hhi
      _ ≤ y ^ 2 * ((1 - (2 : ℚ) ^ (-24 : Int)) ^ 2 * (1 + (2 : ℚ) ^ (-22 : Int))) := mul_le_mul_of_nonneg_left c hY
      _ ≤ y ^ 2 * ((1 + δ) ^ 2 * (1 + (2 : ℚ) ^ (-22 : Int))) :=
          mul_le_mul_of_nonneg_left (mul_le_mul_of_nonneg_right b2 (by norm_num)) hY
      _ = (y * (1 + δ)) ^ 2 * (1 + (2 : ℚ) ^ (-22 : Int)) := by ring

/-- `Pos::length` is that computation on the `f32` sum of squares. -/
theorem length_eq (a : Pos Float32) :
    Pos.length Float a = Cvt.down (Scalar.sqrt (Cvt.up (a.x * a.x + a.y * a.y) : Float) : Float) := rfl

/-! ### non-vacuity: the demo of Props/C16IeeeCut.lean, evaluated by the kernel -/

section Examples
open Float.Model Float.Model.UnpackedFloat

theorem toRat_100 : toRat (100 : Float) = 100 := by
  have h : (100 : Float).toModel.unpack = .finite .positive 7036874417766400 (-46) (by decide) := by
    have : (100 : Float) = Float.ofBits 0x4059000000000000 := by decide +kernel
    rw [this, FM.float_unpack_ofBits _ (by decide)]; rfl
  rw [toRat_of_unpack h]; norm_num [sgnQ]

/-- the hypotheses of `cut_param_range_float` / `cut_param_nonneg_float` hold on the demo (`L = 110`, `len_k = 100`,
`ell = 25`: `100 ≤ 110 ≤ 100 ⊕ 25`), so `0 ≤ τ ≤ 25 (1 + 2⁻²³)` (in fact `τ = 10`). -/
example : 0 ≤ toRat32 demoT ∧ toRat32 demoT ≤ 25 * (1 + 1 / 8388608) := by
  have h := cut_param_range_float (110 : Float) 100 (Float32.ofBits 0x41C80000)
    (by decide +kernel) (by decide +kernel) (by decide +kernel) (by decide +kernel) (by decide +kernel)
    (by decide +kernel) (by rw [toRat_100]; norm_num) (by rw [toRat_100, demo_25]; norm_num)
    (by rw [demo_25]; norm_num)
  rw [demo_25] at h
  exact ⟨cut_param_nonneg_float (110 : Float) 100 (by decide +kernel) (by decide +kernel) (by decide +kernel), h⟩

/-- **`cut_end_point_near_segment_float` on the demo**: every hypothesis is checked by the kernel on the closed values
(`p_k = (100, 200)`, `p_{k+1} = (107, 224)`, `len_k = 100`, `L = 110`), none is about the conversions. -/
example : ∃ ρ' : ℚ, 0 ≤ ρ' ∧ ρ' ≤ 1 ∧
    |toRat32 (reproject demoPP demoPE demoT).x - (100 + ρ' * (107 - 100))| ≤ 1 / 2 ∧
    |toRat32 (reproject demoPP demoPE demoT).y - (200 + ρ' * (224 - 200))| ≤ 1 / 2 := by
  obtain ⟨bx, bY, bl, bt⟩ := demo_bits
  have h := cut_end_point_near_segment_float demoPP demoPE (110 : Float) 100
    (show (reproject demoPP demoPE demoT).x.isFinite = true by rw [bx]; decide +kernel)
    (show (reproject demoPP demoPE demoT).y.isFinite = true by rw [bY]; decide +kernel)
    (by rw [bl]; decide +kernel)
    ⟨by show |toRat32 (Float32.ofBits 0x42C80000)| ≤ _; rw [demo_100]; norm_num,
     by show |toRat32 (Float32.ofBits 0x43480000)| ≤ _; rw [demo_200]; norm_num⟩
    ⟨by show |toRat32 (Float32.ofBits 0x42D60000)| ≤ _; rw [demo_107]; norm_num,
     by show |toRat32 (Float32.ofBits 0x43600000)| ≤ _; rw [demo_224]; norm_num⟩
    (by rw [bl, demo_25]; norm_num) (by rw [bl, demo_25]; norm_num)
    (by rw [bl]; decide +kernel) (by decide +kernel) (by decide +kernel) (by rw [bl]; decide +kernel)
    (by rw [toRat_100]; norm_num) (by rw [toRat_100, bl, demo_25]; norm_num)
  have a1 : toRat32 demoPP.x = 100 := demo_100
  have a2 : toRat32 demoPP.y = 200 := demo_200
  have a3 : toRat32 demoPE.x = 107 := demo_107
  have a4 : toRat32 demoPE.y = 224 := demo_224
  rw [a1, a2, a3, a4] at h
  exact h

/-- the hypotheses of `sqrt_len_err` hold on the demo segment (`s = 7² + 24² = 625`), so its conclusion does:
`ℓ² (1 − 2⁻²²) ≤ 625 ≤ ℓ² (1 + 2⁻²²)` for `ℓ = Pos::length = 25`. -/
example : toRat32 (Pos.length Float (demoPE - demoPP)) ^ 2 * (1 - (2 : ℚ) ^ (-22 : Int)) ≤ 625 ∧
    625 ≤ toRat32 (Pos.length Float (demoPE - demoPP)) ^ 2 * (1 + (2 : ℚ) ^ (-22 : Int)) := by
  have hs : (demoPE - demoPP).x * (demoPE - demoPP).x + (demoPE - demoPP).y * (demoPE - demoPP).y =
      Float32.ofBits 0x441C4000 := by decide +kernel
  have h625 : toRat32 (Float32.ofBits 0x441C4000) = 625 := by
    rw [toRat32_bits (s := .positive) (m := 10240000) (e := -14) (hm := by decide) (by decide) rfl]; norm_num [sgnQ]
  have h := sqrt_len_err (Float32.ofBits 0x441C4000) (by decide +kernel) (by decide +kernel) (by decide +kernel)
    (by decide +kernel) (by rw [h625]; norm_num)
  rw [h625] at h
  rw [length_eq, hs]
  exact h.2

end Examples

end Rosu.C16
