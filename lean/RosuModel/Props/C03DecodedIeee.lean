/-
  Props/C03DecodedIeee.lean — C03 for DECODED maps (Props/C03Decoded.lean) at the instances the driver runs, `F = Float`
  (`f64`), `P = Float32` (`f32`), with every LAW hypothesis discharged:
    * `ConstFacts` — `C04.constFacts_float`; `CodecLaws` (both types), `IntPrintLaw` — Props/C02CodecIeee.lean;
    * `FloatsRep m` of a decoded map — `C04.decoded_floatsRep_float` (within the parse limit ⇒ no NaN ⇒ represented);
    * `Edit.CodecRep` (the codec represents the edit's own float) — HERE, `codecRep_of_representable_float`: a representable
      float edit sets a value within the parse limit (`Edit.Representable`), which is not a NaN. So "representable" is the
      ONLY condition on an edit, and it is decidable (`Edit.decRepresentable`).
  What remains are premises about the run: the bytes decode to `m` (`DecodesTo`); the edits are `Representable`; no `//` in
  the two file names (finding F16) of the EDITED map (survival) resp. of the decoded map (frame clauses, which compare with
  the unedited round trip); the encoder's two list blocks are LF-free record lines (`ListBlockShape`).
  `edits_roundtrip_decoded_rep` (frame edits, hit objects and control points in the frame) takes `MapLaws`, whose fourth field
  `SliderRt.CoordLaws Float Float32` (cross-codec law for path coordinates) is proved in Lemmas/FloatCoordLaws.lean; its remaining
  premises are representability of the decoded map's two LIST blocks (`RepTimingMap`, `RepObject`).
  The last section edits a decoded hostile file with the real instances and re-reads it in the kernel.
-/
import RosuModel.Props.C03Decoded
import RosuModel.Props.C02CodecIeee
import RosuModel.Props.C04Ieee
import RosuModel.Props.C04DecodedIeee
import RosuModel.Lemmas.FloatCoordLaws
namespace Rosu.C03
open Rosu Encode EncodeLines C11 RtFile FrameEnc FrameDec Scalar DecodedInv
open _root_.Rosu.C04 (IeeeRep64 IeeeRep32)
set_option linter.unusedSectionVars false

/-! ### the edit's own float: `Representable` implies `CodecRep` under `LimitRep` -/

section
variable {F P : Type} [Scalar F] [Scalar P] {RF : F → Prop} {RP : P → Prop}

/-- for a codec that represents every value within the parse limit, a representable edit is codec-representable: every
float an edit may set is required to be within the limit. -/
theorem codecRep_of_limitRep (LRF : LimitRep RF) (LRP : LimitRep RP) (e : Edit F P) (he : e.Representable) :
    e.CodecRep RF RP := by
  cases e
  case distanceSpacing x => exact LRF x he
  case timelineZoom x => exact LRF x he
  case sliderMultiplier x => exact LRF x he.1
  case sliderTickRate x => exact LRF x he.1
  case stackLeniency y => exact LRP y he
  case hpDrainRate y => exact LRP y he
  case circleSize y => exact LRP y he
  case overallDifficulty y => exact LRP y he
  case approachRate y => exact LRP y he
  case breaks l => exact fun b hb => ⟨LRF _ (he b hb).1, LRF _ (he b hb).2.1⟩
  all_goals trivial

end

/-- **`Edit.CodecRep` is a theorem for `f64` / `f32`** edits that are representable. -/
theorem codecRep_of_representable_float (e : Edit Float Float32) (he : e.Representable) : e.CodecRep IeeeRep64 IeeeRep32 :=
  codecRep_of_limitRep C04.limitRep_float C04.limitRep_float32 e he

theorem edits_codecRep_float (es : List (Edit Float Float32)) (hes : ∀ e ∈ es, e.Representable) :
    ∀ e ∈ es, e.Representable ∧ e.CodecRep IeeeRep64 IeeeRep32 :=
  fun e he => ⟨hes e he, codecRep_of_representable_float e (hes e he)⟩

section
variable [Trig Float32]

/-- `FloatsRep` of a decoded map, from `DecodesTo`. -/
theorem floatsRep_of_decodesTo_float (bytes : List UInt8) (m : Beatmap Float Float32) (hdec : DecodesTo bytes m) :
    FloatsRep IeeeRep64 IeeeRep32 m := by
  obtain ⟨st, h, hf⟩ := hdec
  exact C04.decoded_floatsRep_float bytes st m h hf

/-- **decoded_rep** for `f64` / `f32`: every decoded map without `//` in its file names (F16) has representable record
sections, and alpha 255 in every colour — no law hypothesis. -/
theorem decoded_rep_float (bytes : List UInt8) (m : Beatmap Float Float32) (hdec : DecodesTo bytes m)
    (hds : NoDoubleSlash m) : RepRecords IeeeRep64 IeeeRep32 m ∧ ColorsOpaque m.colors :=
  decoded_rep C04.constFacts_float bytes m hdec (floatsRep_of_decodesTo_float bytes m hdec) hds

/-- **edits_keep_rep_decoded** for `f64` / `f32`: the record sections of a decoded map after any representable edits are
representable as soon as the EDITED map's file names are free of `//`. -/
theorem edits_keep_rep_decoded_float (bytes : List UInt8) (m : Beatmap Float Float32) (hdec : DecodesTo bytes m)
    (es : List (Edit Float Float32)) (hes : ∀ e ∈ es, e.Representable) (hds : NoDoubleSlash (applyEdits es m)) :
    RepRecords IeeeRep64 IeeeRep32 (applyEdits es m) ∧ ColorsOpaque m.colors :=
  edits_keep_rep_decoded C04.constFacts_float bytes m hdec (floatsRep_of_decodesTo_float bytes m hdec) es
    (edits_codecRep_float es hes) hds

/-- **edits_survive_decoded** for `f64` / `f32`, no law hypothesis — decode ANY byte string to a map `m`; apply any
sequence of representable edits; encode; decode again. If the EDITED map has no `//` in its two file names (F16) and its two
list blocks are written as LF-free record lines: encoding succeeds, the text is read back without I/O error, and
* the record view of the new decoder state is exactly the preserved view of the edited map;
* whenever the new state finalises, the re-decoded MAP has exactly these record fields;
* for every edit `e` of the sequence that no later edit touches, the field of `e` shows exactly the value of `e` — a float
  as the very same IEEE datum. -/
theorem edits_survive_decoded_float (bytes : List UInt8) (m : Beatmap Float Float32) (hdec : DecodesTo bytes m)
    (es : List (Edit Float Float32)) (hes : ∀ e ∈ es, e.Representable)
    (hds : NoDoubleSlash (applyEdits es m)) (T H : List Str)
    (hT : encodeTimingPoints (applyEdits es m) = .ok (unlines (str "[TimingPoints]" :: T)))
    (hH : encodeHitObjects (applyEdits es m) = .ok (unlines (str "[HitObjects]" :: H)))
    (sT : ListBlockShape T) (sH : ListBlockShape H) :
    ∃ (t : Str) (st' : BeatmapState Float Float32), encode (applyEdits es m) = .ok t ∧
      decodeBytes beatmapDecoder (utf8Encode t) = .ok st' ∧
      recView st' = preservedRecords (applyEdits es m) ∧
      (∀ m2 : Beatmap Float Float32, st'.finish = .ok m2 → mapView m2 = preservedRecords (applyEdits es m)) ∧
      (∀ (pre post : List (Edit Float Float32)) (e : Edit Float Float32), es = pre ++ e :: post →
        (∀ e' ∈ post, e'.touches e.field = false) → e.field.get (recView st') = e.shown (applyEdits pre m)) :=
  edits_survive_decoded C04.constFacts_float C02.codecLaws_float_ieee C02.codecLaws_float32_ieee C02.intPrintLaw_float_ieee
    bytes m hdec (floatsRep_of_decodesTo_float bytes m hdec) es (edits_codecRep_float es hes) hds T H hT hH sT sH

/-- **edit_survives_decoded** for `f64` / `f32` — one representable edit: the re-decoded record fields show exactly the
edited value in the edited field. -/
theorem edit_survives_decoded_float (bytes : List UInt8) (m : Beatmap Float Float32) (hdec : DecodesTo bytes m)
    (e : Edit Float Float32) (he : e.Representable) (hds : NoDoubleSlash (applyEdit e m)) (T H : List Str)
    (hT : encodeTimingPoints (applyEdit e m) = .ok (unlines (str "[TimingPoints]" :: T)))
    (hH : encodeHitObjects (applyEdit e m) = .ok (unlines (str "[HitObjects]" :: H)))
    (sT : ListBlockShape T) (sH : ListBlockShape H) :
    ∃ (t : Str) (st' : BeatmapState Float Float32), encode (applyEdit e m) = .ok t ∧
      decodeBytes beatmapDecoder (utf8Encode t) = .ok st' ∧
      e.field.get (recView st') = e.shown m ∧
      (∀ m2 : Beatmap Float Float32, st'.finish = .ok m2 → e.field.get (mapView m2) = e.shown m) :=
  edit_survives_decoded C04.constFacts_float C02.codecLaws_float_ieee C02.codecLaws_float32_ieee C02.intPrintLaw_float_ieee
    bytes m hdec (floatsRep_of_decodesTo_float bytes m hdec) e he (codecRep_of_representable_float e he) hds T H hT hH sT sH

/-- **edits_frame_decoded** for `f64` / `f32` — the frame clause for the record fields against the UNEDITED round trip:
both the decoded map and the edited map are encoded and decoded again; every record field that no edit of the sequence
touches reads the same in both — in the decoder states, and in the finalised maps whenever both finalise. For ALL edits.
Remaining: no `//` in the decoded map's file names (F16), shape of the list blocks of both maps. -/
theorem edits_frame_decoded_float (bytes : List UInt8) (m : Beatmap Float Float32) (hdec : DecodesTo bytes m)
    (hds : NoDoubleSlash m) (es : List (Edit Float Float32)) (hes : ∀ e ∈ es, e.Representable) (T H T0 H0 : List Str)
    (hT : encodeTimingPoints (applyEdits es m) = .ok (unlines (str "[TimingPoints]" :: T)))
    (hH : encodeHitObjects (applyEdits es m) = .ok (unlines (str "[HitObjects]" :: H)))
    (sT : ListBlockShape T) (sH : ListBlockShape H)
    (hT0 : encodeTimingPoints m = .ok (unlines (str "[TimingPoints]" :: T0)))
    (hH0 : encodeHitObjects m = .ok (unlines (str "[HitObjects]" :: H0)))
    (sT0 : ListBlockShape T0) (sH0 : ListBlockShape H0) :
    ∃ (t0 t : Str) (st0 st' : BeatmapState Float Float32), encode m = .ok t0 ∧ encode (applyEdits es m) = .ok t ∧
      decodeBytes beatmapDecoder (utf8Encode t0) = .ok st0 ∧ decodeBytes beatmapDecoder (utf8Encode t) = .ok st' ∧
      (∀ f : Field, (∀ e ∈ es, e.touches f = false) → f.get (recView st') = f.get (recView st0)) ∧
      (∀ m0 m2 : Beatmap Float Float32, st0.finish = .ok m0 → st'.finish = .ok m2 →
        ∀ f : Field, (∀ e ∈ es, e.touches f = false) → f.get (mapView m2) = f.get (mapView m0)) :=
  edits_frame_decoded C04.constFacts_float C02.codecLaws_float_ieee C02.codecLaws_float32_ieee C02.intPrintLaw_float_ieee
    bytes m hdec (floatsRep_of_decodesTo_float bytes m hdec) hds es (edits_codecRep_float es hes) T H T0 H0
    hT hH sT sH hT0 hH0 sT0 sH0

/-- **edit_frame_decoded** for `f64` / `f32` — one representable edit: every other preserved record field is unchanged. -/
theorem edit_frame_decoded_float (bytes : List UInt8) (m : Beatmap Float Float32) (hdec : DecodesTo bytes m)
    (hds : NoDoubleSlash m) (e : Edit Float Float32) (he : e.Representable) (T H T0 H0 : List Str)
    (hT : encodeTimingPoints (applyEdit e m) = .ok (unlines (str "[TimingPoints]" :: T)))
    (hH : encodeHitObjects (applyEdit e m) = .ok (unlines (str "[HitObjects]" :: H)))
    (sT : ListBlockShape T) (sH : ListBlockShape H)
    (hT0 : encodeTimingPoints m = .ok (unlines (str "[TimingPoints]" :: T0)))
    (hH0 : encodeHitObjects m = .ok (unlines (str "[HitObjects]" :: H0)))
    (sT0 : ListBlockShape T0) (sH0 : ListBlockShape H0) :
    ∃ (t0 t : Str) (st0 st' : BeatmapState Float Float32), encode m = .ok t0 ∧ encode (applyEdit e m) = .ok t ∧
      decodeBytes beatmapDecoder (utf8Encode t0) = .ok st0 ∧ decodeBytes beatmapDecoder (utf8Encode t) = .ok st' ∧
      (∀ f : Field, e.touches f = false → f.get (recView st') = f.get (recView st0)) ∧
      (∀ m0 m2 : Beatmap Float Float32, st0.finish = .ok m0 → st'.finish = .ok m2 →
        ∀ f : Field, e.touches f = false → f.get (mapView m2) = f.get (mapView m0)) :=
  edit_frame_decoded C04.constFacts_float C02.codecLaws_float_ieee C02.codecLaws_float32_ieee C02.intPrintLaw_float_ieee
    bytes m hdec (floatsRep_of_decodesTo_float bytes m hdec) hds e he (codecRep_of_representable_float e he) T H T0 H0
    hT hH sT sH hT0 hH0 sT0 sH0

/-! ### frame edits with hit objects and control points in the frame -/

/-- **`MapLaws` for the driver's instances** — all four fields are theorems: the codec laws of both types and `IntPrintLaw`
(Props/C02CodecIeee.lean), and the cross-codec law for path coordinates `SliderRt.CoordLaws` (`FCO.coordLaws_float`,
Lemmas/FloatCoordLaws.lean: an integral `f32` coordinate within ±131072 prints as its decimal integer, which `f64`'s `FromStr`
reads exactly; needs the bit pattern of `Float32.ofInt`, `FM.float32_ofInt_bits`). -/
theorem mapLaws_float : MapLaws Float Float32 IeeeRep64 IeeeRep32 :=
  ⟨C02.codecLaws_float_ieee, C02.codecLaws_float32_ieee, C02.intPrintLaw_float_ieee, FCO.coordLaws_float⟩

/-- **edits_roundtrip_decoded_rep** for `f64` / `f32` — frame edits (everything but mode, slider multiplier, tick rate,
breaks) of a decoded map whose LIST blocks are representable (`RepTimingMap`, `RepObject`) and whose encoding succeeds:
encoding the edited map succeeds; both texts are read back; the edited fields show the edited values; every untouched
record field reads as in the unedited round trip; the hit-object / control-point part of the decoder state is the same, with
the same finalised hit objects and control points (or the same failure). No law hypothesis; `RepTimingMap` / `RepObject` are
premises about the decoded map (false in general: findings F17, F18, F20, F21, F22). -/
theorem edits_roundtrip_decoded_rep_float
    (bytes : List UInt8) (m : Beatmap Float Float32) (hdec : DecodesTo bytes m) (hds : NoDoubleSlash m)
    (htim : RtTiming.RepTimingMap IeeeRep64 m)
    (hobj : ∀ h ∈ m.hitObjects, SliderRt.RepObject IeeeRep64 IeeeRep32 m.general.mode h)
    (es : List (Edit Float Float32)) (hes : ∀ e ∈ es, e.Representable) (hfr : ∀ e ∈ es, e.IsFrame = true)
    (t0 : Str) (h0 : encode m = .ok t0) :
    ∃ (t : Str) (st0 st' : BeatmapState Float Float32), encode (applyEdits es m) = .ok t ∧
      decodeBytes beatmapDecoder (utf8Encode t0) = .ok st0 ∧ decodeBytes beatmapDecoder (utf8Encode t) = .ok st' ∧
      recView st' = preservedRecords (applyEdits es m) ∧
      (∀ (pre post : List (Edit Float Float32)) (e : Edit Float Float32), es = pre ++ e :: post →
        (∀ e' ∈ post, e'.touches e.field = false) → e.field.get (recView st') = e.shown (applyEdits pre m)) ∧
      (∀ f : Field, (∀ e ∈ es, e.touches f = false) → f.get (recView st') = f.get (recView st0)) ∧
      objView st' = objView st0 ∧ st'.finish.map listView = st0.finish.map listView :=
  edits_roundtrip_decoded_rep C04.constFacts_float mapLaws_float bytes m hdec
    (floatsRep_of_decodesTo_float bytes m hdec) hds htim hobj es (edits_codecRep_float es hes) hfr t0 h0

end

/-! ### non-vacuity on the REAL instances: the hostile file of Props/C04Decoded.lean, decoded, edited, encoded, re-read -/

/-- seven edits, four of them floats (an `f32`, three `f64`s incl. a non-frame one and a break list with a fraction and `1e9`). -/
def sampleEditsF : List (Edit Float Float32) :=
  [.title (str "Re:Zero // x: y"), .backgroundFile (str "dir/bg 2.png"), .hpDrainRate 7.5, .sliderMultiplier 1.7,
   .timelineZoom 0.1, .breaks [⟨10.5, 2000⟩, ⟨3000, 1e9⟩], .comboColors [⟨10, 20, 30, 255⟩, ⟨255, 0, 128, 255⟩]]

/-- "representable" is decided by the kernel with IEEE comparisons (limit and clamp tests, `max(start, end) = end`). -/
theorem sampleEditsF_representable : ∀ e ∈ sampleEditsF, e.Representable := by decide +kernel

/-- an edit that is NOT representable: a slider multiplier outside the clamp, a NaN zoom, an infinite break end. -/
example : ¬ (Edit.sliderMultiplier (3.7 : Float) : Edit Float Float32).Representable ∧
    ¬ (Edit.timelineZoom ((0 : Float) / 0) : Edit Float Float32).Representable ∧
    ¬ (Edit.breaks [⟨0, (1 : Float) / 0⟩] : Edit Float Float32).Representable := by decide +kernel

def sampleEditedF : Beatmap Float Float32 := applyEdits sampleEditsF C04.decodedSampleMapF

/-- the sample map IS a decoded map: the bytes of `C04.decodedSampleText` decode to it with the real instances. -/
theorem decodedSampleF_decodesTo : DecodesTo (utf8Encode C04.decodedSampleText) C04.decodedSampleMapF :=
  ⟨_, C04.decodedSampleF_decodes, C04.decodedSampleF_finishes⟩

theorem sampleEditedF_timing_text : encodeTimingPoints sampleEditedF = .ok (unlines [str "[TimingPoints]"]) := by
  have h1 : sampleEditedF.hitObjects = [] := rfl
  have h2 : sampleEditedF.controlPoints = {} := rfl
  unfold encodeTimingPoints collectSamples
  rw [h1, h2]
  simp [collectAll, addCollected, bind, Except.bind, pure, Except.pure, encodeGroups]
  rfl

theorem sampleEditedF_objects_text : encodeHitObjects sampleEditedF = .ok (unlines [str "[HitObjects]"]) := by rfl

theorem sampleEditedF_noDoubleSlash : NoDoubleSlash sampleEditedF := ⟨by decide +kernel, by decide +kernel⟩

/-- every premise of `edits_survive_decoded_float` holds of the sample, so its conclusion does: the seven edited values are
read back — the floats as the very same IEEE values. -/
theorem sampleEditedF_survives :
    ∃ (t : Str) (st' : BeatmapState Float Float32), encode sampleEditedF = .ok t ∧
      decodeBytes beatmapDecoder (utf8Encode t) = .ok st' ∧
      st'.metadata.title = str "Re:Zero // x: y" ∧ st'.hitObjects.events.backgroundFile = str "dir/bg 2.png" ∧
      st'.hitObjects.difficulty.difficulty.hpDrainRate = 7.5 ∧
      st'.hitObjects.difficulty.difficulty.sliderMultiplier = 1.7 ∧
      st'.editor.timelineZoom = 0.1 ∧
      st'.hitObjects.events.breaks = [⟨10.5, 2000⟩, ⟨3000, 1e9⟩] ∧
      st'.colors.customComboColors = [⟨10, 20, 30, 255⟩, ⟨255, 0, 128, 255⟩] := by
  obtain ⟨t, st', h1, h2, _, _, h5⟩ := edits_survive_decoded_float _ _ decodedSampleF_decodesTo sampleEditsF
    sampleEditsF_representable sampleEditedF_noDoubleSlash [] [] sampleEditedF_timing_text sampleEditedF_objects_text
    (fun _ h => absurd h List.not_mem_nil) (fun _ h => absurd h List.not_mem_nil)
  have a := h5 [] _ _ rfl (by decide)
  have b := h5 [_] _ _ rfl (by decide)
  have c := h5 [_, _] _ _ rfl (by decide)
  have d := h5 [_, _, _] _ _ rfl (by decide)
  have e := h5 [_, _, _, _] _ _ rfl (by decide)
  have f := h5 [_, _, _, _, _] _ _ rfl (by decide)
  have g := h5 [_, _, _, _, _, _] [] _ rfl (by decide)
  simp only [Edit.field, Field.get, Edit.shown, FieldVal.text.injEq, FieldVal.colours.injEq, FieldVal.f64.injEq,
    FieldVal.f32.injEq, FieldVal.breaks.injEq] at a b c d e f g
  exact ⟨t, st', h1, h2, a, b, c, d, e, f, g⟩

/-- … and of `edits_frame_decoded_float` (the unedited sample is encoded and read back too). -/
example := edits_frame_decoded_float _ _ decodedSampleF_decodesTo C04.decodedSampleF_noDoubleSlash sampleEditsF
  sampleEditsF_representable [] [] [] [] sampleEditedF_timing_text sampleEditedF_objects_text
  (fun _ h => absurd h List.not_mem_nil) (fun _ h => absurd h List.not_mem_nil) C04.decodedSampleF_timing_text
  C04.decodedSampleF_objects_text (fun _ h => absurd h List.not_mem_nil) (fun _ h => absurd h List.not_mem_nil)

/-- the same run EVALUATED by the kernel on the model's own functions with the real instances (`C04.rereadWithF`: encode —
Rust's `Display` —, reader lines, framing driver, `Beatmap` decoder — Rust's `FromStr`, the limit and clamp tests): the seven
edited values as edited (`1.7`, `0.1`, `7.5`, `10.5`, `1e9` bit for bit), the audio file, tick rate and custom colours as decoded. -/
theorem sampleRereadF_eq :
    C04.rereadWithF sampleEditedF (fun st => decide (
      st.metadata.title = str "Re:Zero // x: y" ∧ st.hitObjects.events.backgroundFile = str "dir/bg 2.png" ∧
      st.hitObjects.difficulty.difficulty.hpDrainRate = 7.5 ∧
      st.hitObjects.difficulty.difficulty.sliderMultiplier = 1.7 ∧
      st.editor.timelineZoom = 0.1 ∧
      st.hitObjects.events.breaks.map (fun b => (b.startTime, b.endTime)) = [(10.5, 2000), (3000, 1e9)] ∧
      st.colors.customComboColors = [⟨10, 20, 30, 255⟩, ⟨255, 0, 128, 255⟩] ∧
      st.hitObjects.timingPoints.general.audioFile = str "dir/a b.mp3" ∧
      st.hitObjects.difficulty.difficulty.sliderTickRate = 0.5 ∧
      st.colors.customColors = [⟨str "foo bar", ⟨7, 8, 9, 255⟩⟩])) = some true := by decide +kernel

/-- the edit is not the identity: before it, the decoded values were different. -/
example : C04.decodedSampleMapF.metadata.title = str "Re:Zero // x" ∧
    C04.decodedSampleMapF.difficulty.sliderMultiplier = 3.6 ∧ C04.decodedSampleMapF.difficulty.hpDrainRate = 5 ∧
    C04.decodedSampleMapF.editor.timelineZoom = 1 ∧
    C04.decodedSampleMapF.colors.customComboColors = [⟨1, 2, 3, 255⟩] := by decide +kernel

/-! ### an edit can repair finding F16 — on the real instances -/

/-- the map decoded from a file whose audio name decodes to `a//b.mp3` (`C04.f16_decoded_witness_float`). -/
def f16StateF : BeatmapState Float Float32 := frame beatmapDecoder f16Lines
def f16MapF : Beatmap Float Float32 := C04.noObjectsMap f16StateF

theorem f16F_decodesTo : DecodesTo (utf8Encode f16Text) f16MapF := by
  refine ⟨f16StateF, ?_, C04.finish_of_no_objects f16StateF (by decide +kernel)⟩
  have hl : (textLines f16Text).map trimEnd = f16Lines := (lines_of_unlines _ (by decide)).trans (by decide)
  rw [RtFile.decodeBytes_utf8_text _ _ (by decide), hl]
  rfl

/-- the decoded map violates `NoDoubleSlash` — its own round trip loses the name (F16) … -/
theorem f16F_hasDS : f16MapF.general.audioFile = str "a//b.mp3" ∧ ¬ NoDoubleSlash f16MapF :=
  ⟨by decide +kernel, fun h => absurd h.audio (by decide +kernel)⟩

/-- … but the edit that sets a clean audio name is covered: every premise of `edit_survives_decoded_float` holds. -/
theorem f16F_repaired :
    ∃ (t : Str) (st' : BeatmapState Float Float32), encode (applyEdit (.audioFile (str "a/b.mp3")) f16MapF) = .ok t ∧
      decodeBytes beatmapDecoder (utf8Encode t) = .ok st' ∧ st'.hitObjects.timingPoints.general.audioFile = str "a/b.mp3" := by
  have hT : encodeTimingPoints (applyEdit (.audioFile (str "a/b.mp3")) f16MapF) = .ok (unlines [str "[TimingPoints]"]) := by
    have h1 : (applyEdit (.audioFile (str "a/b.mp3")) f16MapF).hitObjects = [] := rfl
    have h2 : (applyEdit (.audioFile (str "a/b.mp3")) f16MapF).controlPoints = {} := rfl
    unfold encodeTimingPoints collectSamples
    rw [h1, h2]
    simp [collectAll, addCollected, bind, Except.bind, pure, Except.pure, encodeGroups]
    rfl
  obtain ⟨t, st', h1, h2, h3, _⟩ := edit_survives_decoded_float _ _ f16F_decodesTo
    (.audioFile (str "a/b.mp3")) (by decide) ⟨by decide +kernel, by decide +kernel⟩ [] [] hT rfl
    (fun _ h => absurd h List.not_mem_nil) (fun _ h => absurd h List.not_mem_nil)
  simp only [Edit.field, Field.get, Edit.shown, FieldVal.text.injEq] at h3
  exact ⟨t, st', h1, h2, h3⟩

/-! ### non-vacuity with list blocks on the real instances: a decoded map with a timing point and a hit object -/

set_option maxRecDepth 100000

/-- the hostile file with a timing point and a circle (`sample2Lines`, Props/C03Decoded.lean), decoded with the real instances. -/
def sample2StateF : BeatmapState Float Float32 := frame beatmapDecoder sample2Lines
def sample2MapF : Beatmap Float Float32 :=
  match sample2StateF.finish with | .ok m => m | .error _ => C04.noObjectsMap sample2StateF

theorem sample2F_decodes :
    decodeBytes (beatmapDecoder : LineDecoder (BeatmapState Float Float32)) (utf8Encode sample2Text) = .ok sample2StateF := by
  rw [RtFile.decodeBytes_utf8_text _ _ (by decide), sample2_lines]
  rfl

theorem sample2F_finishes : sample2StateF.finish = .ok sample2MapF := by
  have hok : sample2StateF.finish.toOption.isSome = true := by decide +kernel
  unfold sample2MapF
  cases h : sample2StateF.finish with
  | error e => rw [h] at hok; cases hok
  | ok m => rfl

theorem sample2F_decodesTo : DecodesTo (utf8Encode sample2Text) sample2MapF := ⟨_, sample2F_decodes, sample2F_finishes⟩

theorem sample2F_objects : sample2MapF.hitObjects =
    [⟨1000, .circle ⟨⟨256, 192⟩, true, 0⟩, sample2Samples⟩] := by with_unfolding_all rfl


theorem sample2F_controlPoints : sample2MapF.controlPoints =
    { timingPoints := [⟨0, 500, false, ⟨4⟩⟩], samplePoints := [⟨0, .normal, 100, 0⟩] } := by with_unfolding_all rfl

theorem sample2F_collect : collectSamples sample2MapF = .ok sample2MapF.controlPoints := by
  with_unfolding_all rfl

theorem sample2F_mode : sample2MapF.general.mode = GameMode.osu := by with_unfolding_all rfl

/- decidability of the representability predicates at the real instances (comparisons of `Float.Model`), for `decide +kernel`. -/
attribute [local instance] decInLimit
local instance : DecidablePred IeeeRep64 := fun x => inferInstanceAs (Decidable (x.isNaN = false))
local instance : DecidablePred IeeeRep32 := fun x => inferInstanceAs (Decidable (x.isNaN = false))

local instance (b : Float) : Decidable (RtTiming.BeatLimit b) := by unfold RtTiming.BeatLimit; infer_instance
local instance (v : Float) : Decidable (RtTiming.SvOk IeeeRep64 v) := by unfold RtTiming.SvOk; infer_instance

theorem sample2F_timing : RtTiming.RepTimingMap IeeeRep64 sample2MapF where
  sig := by rw [sample2F_controlPoints]; decide +kernel
  sv := by rw [sample2F_controlPoints, sample2F_mode]; decide +kernel
  timing := by rw [sample2F_controlPoints]; decide +kernel
  difficulty := by rw [sample2F_controlPoints]; decide +kernel
  effect := by rw [sample2F_controlPoints]; decide +kernel
  samples := by
    intro cp hc
    rw [sample2F_collect] at hc
    cases hc
    rw [sample2F_controlPoints]
    decide +kernel

theorem sample2F_objects_rep :
    ∀ h ∈ sample2MapF.hitObjects, SliderRt.RepObject IeeeRep64 IeeeRep32 sample2MapF.general.mode h := by
  intro h hh
  rw [sample2F_objects, List.mem_singleton] at hh
  subst hh
  exact .circle _ rfl ⟨⟨by decide +kernel, by decide +kernel, by decide +kernel⟩,
    ⟨by decide +kernel, by decide +kernel, by decide +kernel⟩, ⟨by decide +kernel, by decide +kernel⟩, by decide,
    sample2_samples_rep _⟩

theorem sample2F_noDoubleSlash : NoDoubleSlash sample2MapF := ⟨by with_unfolding_all decide, by with_unfolding_all decide⟩

theorem sample2F_encodes : ∃ t0, encode sample2MapF = .ok t0 := by
  have h : (encode sample2MapF).toOption.isSome = true := by decide +kernel
  cases h' : encode sample2MapF with
  | error e => rw [h'] at h; cases h
  | ok t => exact ⟨t, rfl⟩


/-- twelve frame edits, four of them floats (`f32`: `7.5`, `0.3`; `f64`: `0.1`, `1.25`). -/
def sample2EditsF : List (Edit Float Float32) :=
  [.title (str "Re:Zero // x: y"), .tags (str "[HitObjects] osu file format v9"), .audioFile (str "dir/new song.mp3"),
   .backgroundFile (str "dir/bg 2.png"), .previewTime (-5), .hpDrainRate 7.5, .stackLeniency 0.3, .timelineZoom 0.1,
   .distanceSpacing 1.25, .bookmarks [0, -5, 2147483647, -2147483648],
   .comboColors [⟨10, 20, 30, 255⟩, ⟨255, 0, 128, 255⟩], .customColor (str "foo bar") ⟨1, 1, 1, 255⟩]

theorem sample2EditsF_representable : ∀ e ∈ sample2EditsF, e.Representable := by decide +kernel

/-- every premise of `edits_roundtrip_decoded_rep_float` holds of the decoded sample and these edits: the conclusion — edited
values shown, untouched fields as in the unedited round trip, same hit objects and control points — holds of them. -/
example (t0 : Str) (h0 : encode sample2MapF = .ok t0) :=
  edits_roundtrip_decoded_rep_float _ _ sample2F_decodesTo sample2F_noDoubleSlash
    sample2F_timing sample2F_objects_rep sample2EditsF sample2EditsF_representable (by decide) t0 h0

/-- the same run evaluated by the kernel on the model's own functions with the real instances: edited numbers bit for bit, the
untouched slider multiplier (clamped to `3.6` when the file was first decoded), one hit object read back. -/
theorem sample2F_reread_numbers :
    C04.rereadWithF (applyEdits sample2EditsF sample2MapF) (fun st => decide (
      st.hitObjects.timingPoints.general.previewTime = -5 ∧
      st.hitObjects.difficulty.difficulty.hpDrainRate = 7.5 ∧
      st.hitObjects.timingPoints.general.stackLeniency = 0.3 ∧
      st.editor.timelineZoom = 0.1 ∧ st.editor.distanceSpacing = 1.25 ∧
      st.hitObjects.difficulty.difficulty.sliderMultiplier = 3.6 ∧
      st.hitObjects.core.hitObjects.length = 1 ∧
      st.metadata.title = str "Re:Zero // x: y" ∧ st.hitObjects.timingPoints.general.audioFile = str "dir/new song.mp3" ∧
      st.editor.bookmarks = [0, -5, 2147483647, -2147483648] ∧
      st.colors.customColors = [⟨str "foo bar", ⟨1, 1, 1, 255⟩⟩])) = some true := by decide +kernel

end Rosu.C03
