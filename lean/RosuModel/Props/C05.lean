/-
  Props/C05.lean — file framing: which lines reach which section parser.
  Theorems only; the model is in Model/Framing.lean.
-/
import RosuModel.Model.Framing
namespace Rosu.C05
open Rosu

variable {σ : Type}

/-- The version a line announces: it carries the prefix and the text after the last `v`
parses as an `i32` within ±(2³¹−1). -/
def versionOf (l : Str) : Option Int :=
  if startsWith l versionPrefix then i32Parse (afterLast 'v' l) else none

/-- One step of the declarative reading of the property. The accumulator is the most recent
recognised header (`none` = none seen yet) and the decoder state. -/
def feedStep (D : LineDecoder σ) (acc : Option Section × σ) (l : Str) : Option Section × σ :=
  match Section.tryFromLine l with
  | some s => (some s, acc.2)
  | none =>
    if shouldSkipLine l then acc
    else
      match acc.1 with
      | some s => (acc.1, D.step s acc.2 l)
      | none => acc

/-- the declarative reading: a left fold over the lines. -/
def feedAll (D : LineDecoder σ) (acc : Option Section × σ) (ls : List Str) : Option Section × σ :=
  ls.foldl (feedStep D) acc

def feed (D : LineDecoder σ) (sec : Option Section) (st : σ) (ls : List Str) : σ :=
  (feedAll D (sec, st) ls).2

/-- drop leading blank lines. -/
def dropBlank : List Str → List Str
  | [] => []
  | l :: rest => if l.isEmpty then dropBlank rest else l :: rest

/-- the specification of `decode` on the lines delivered by the reader. -/
def spec (D : LineDecoder σ) (ls : List Str) : σ :=
  match dropBlank ls with
  | [] => D.create latestVersion
  | l :: rest =>
    match versionOf l with
    | some v => feed D none (D.create v) rest
    | none => feed D none (D.create latestVersion) (l :: rest)

/-! ### helper facts -/

@[simp] theorem feedAll_nil (D : LineDecoder σ) (acc : Option Section × σ) : feedAll D acc [] = acc := rfl

@[simp] theorem feedAll_cons (D : LineDecoder σ) (acc : Option Section × σ) (l : Str) (rest : List Str) :
    feedAll D acc (l :: rest) = feedAll D (feedStep D acc l) rest := rfl

theorem feedAll_append (D : LineDecoder σ) (acc : Option Section × σ) (a b : List Str) :
    feedAll D acc (a ++ b) = feedAll D (feedAll D acc a) b := by
  simp [feedAll, List.foldl_append]

theorem header_not_skipped {l : Str} {s : Section} (h : Section.tryFromLine l = some s) :
    shouldSkipLine l = false := by
  cases l with
  | nil => simp [Section.tryFromLine] at h
  | cons c rest =>
    by_cases hc : c = '['
    · subst hc; simp [shouldSkipLine, trimStart, isWs, startsWith, str]
    · simp [Section.tryFromLine, hc] at h

theorem skipped_not_header {l : Str} (h : shouldSkipLine l = true) : Section.tryFromLine l = none := by
  cases ht : Section.tryFromLine l with
  | none => rfl
  | some s => rw [header_not_skipped ht] at h; cases h

theorem feedStep_skip (D : LineDecoder σ) (acc : Option Section × σ) {c : Str}
    (h : shouldSkipLine c = true) : feedStep D acc c = acc := by
  simp [feedStep, skipped_not_header h, h]

theorem tryVersion_empty : tryVersionFromLine [] = .cont := by
  simp [tryVersionFromLine, startsWith, versionPrefix, str]

theorem tryVersion_nonempty {l : Str} (h : l.isEmpty = false) :
    tryVersionFromLine l = match versionOf l with | some v => .found v | none => .bad := by
  unfold tryVersionFromLine versionOf
  by_cases hp : startsWith l versionPrefix = true
  · simp [hp]; cases i32Parse (afterLast 'v' l) <;> rfl
  · simp [hp, h]

theorem parseVersion_eq (ls : List Str) :
    parseVersion ls =
      match dropBlank ls with
      | [] => (none, false, [], [])
      | l :: rest =>
        match versionOf l with
        | some v => (some v, false, l, rest)
        | none => (none, true, l, rest) := by
  induction ls with
  | nil => rfl
  | cons l rest ih =>
    by_cases he : l.isEmpty = true
    · have : l = [] := by cases l <;> simp_all
      subst this
      simp [parseVersion, tryVersion_empty, dropBlank, ih]
    · have he' : l.isEmpty = false := by simpa using he
      simp only [parseVersion, tryVersion_nonempty he', dropBlank, he', Bool.false_eq_true, if_false]
      cases versionOf l <;> rfl

theorem findFirst_feed (D : LineDecoder σ) (st : σ) (ls : List Str) :
    feedAll D (none, st) ls =
      match findFirstSection ls with
      | (none, _) => (none, st)
      | (some s, rest) => feedAll D (some s, st) rest := by
  induction ls with
  | nil => rfl
  | cons l rest ih =>
    rw [feedAll_cons, findFirstSection, feedStep]
    cases h : Section.tryFromLine l with
    | some s => rfl
    | none =>
      simp only
      by_cases hs : shouldSkipLine l = true <;> simp [hs, ih]

theorem parseSection_length_lt (f : σ → Str → σ) (st : σ) (ls : List Str) (next : Section)
    (h : (parseSection f st ls).2.1 = some next) :
    (parseSection f st ls).2.2.length < ls.length := by
  induction ls generalizing st with
  | nil => simp [parseSection] at h
  | cons l rest ih =>
    unfold parseSection at h ⊢
    by_cases hs : shouldSkipLine l = true
    · simp only [hs, if_true] at h ⊢; exact Nat.lt_succ_of_lt (ih st h)
    · simp only [hs] at h ⊢
      cases ht : Section.tryFromLine l with
      | some s => simp
      | none => simp only [ht] at h ⊢; exact Nat.lt_succ_of_lt (ih _ h)

theorem parseSection_feed (D : LineDecoder σ) (sec : Section) (st : σ) (ls : List Str) :
    (feedAll D (some sec, st) ls).2 =
      match parseSection (D.step sec) st ls with
      | (st', some next, rest) => (feedAll D (some next, st') rest).2
      | (st', none, _) => st' := by
  induction ls generalizing st with
  | nil => rfl
  | cons l rest ih =>
    rw [feedAll_cons, parseSection, feedStep]
    cases ht : Section.tryFromLine l with
    | some s => simp only [header_not_skipped ht]; rfl
    | none =>
      by_cases hs : shouldSkipLine l = true
      · simp [hs, ih]
      · simp [hs, ih]

theorem sectionLoop_feed (D : LineDecoder σ) (fuel : Nat) (sec : Section) (st : σ) (ls : List Str)
    (h : ls.length < fuel) :
    sectionLoop D fuel sec st ls = feed D (some sec) st ls := by
  induction fuel generalizing sec st ls with
  | zero => omega
  | succ n ih =>
    unfold feed
    rw [parseSection_feed]
    unfold sectionLoop
    generalize hp : parseSection (D.step sec) st ls = r
    obtain ⟨st', nx, rest⟩ := r
    cases nx with
    | none => rfl
    | some next =>
      simp only
      apply ih
      have := parseSection_length_lt (D.step sec) st ls next (by rw [hp])
      rw [hp] at this
      simp at this
      omega

theorem firstSection_then_loop (D : LineDecoder σ) (st : σ) (ls : List Str) :
    (match findFirstSection ls with
      | (none, _) => st
      | (some sec, rest') => sectionLoop D (rest'.length + 1) sec st rest') = feed D none st ls := by
  unfold feed
  rw [findFirst_feed]
  cases hf : findFirstSection ls with
  | mk o r =>
    cases o with
    | none => rfl
    | some s => exact sectionLoop_feed D _ s _ r (by omega)

/-! ### the property -/

/-- **C05, main theorem.** The three Rust loops (`parse_version`, `parse_first_section`,
`parse_section` inside the outer `loop`) compute exactly the declarative fold. -/
theorem frame_eq_spec (D : LineDecoder σ) (ls : List Str) : frame D ls = spec D ls := by
  unfold frame spec
  rw [parseVersion_eq]
  cases hd : dropBlank ls with
  | nil => rfl
  | cons l rest =>
    simp only []
    cases hv : versionOf l with
    | some v =>
      simp only [parseFirstSection, Option.getD]
      exact firstSection_then_loop D _ rest
    | none =>
      simp only [parseFirstSection, Option.getD, if_true]
      cases ht : Section.tryFromLine l with
      | some s =>
        simp only [feed, feedAll_cons, feedStep, ht]
        exact sectionLoop_feed D _ s _ rest (by omega)
      | none =>
        simp only
        have : feed D none (D.create latestVersion) (l :: rest) = feed D none (D.create latestVersion) rest := by
          simp only [feed, feedAll_cons, feedStep, ht]
          split <;> rfl
        rw [this]
        exact firstSection_then_loop D _ rest

/-- The fold is compositional: any prefix can be processed first. Sections may therefore repeat
or appear in any order, each line going to the most recent recognised header. -/
theorem feed_append (D : LineDecoder σ) (sec : Option Section) (st : σ) (a b : List Str) :
    feed D sec st (a ++ b) =
      feed D (feedAll D (sec, st) a).1 (feed D sec st a) b := by
  simp [feed, feedAll_append]

/-- A line the driver skips (blank, or `//` comment after optional indentation) has no effect
wherever it is inserted in the body. -/
theorem feed_skip (D : LineDecoder σ) (sec : Option Section) (st : σ) (a b : List Str) (c : Str)
    (hc : shouldSkipLine c = true) :
    feed D sec st (a ++ c :: b) = feed D sec st (a ++ b) := by
  simp [feed, feedAll_append, feedStep_skip D _ hc]

/-- An unrecognised bracketed line neither opens nor closes a section: inside a section it is
handed to that section's parser like any other record, and before the first header it is dropped. -/
theorem unknown_header_is_record (D : LineDecoder σ) (s : Section) (st : σ) (l : Str) (rest : List Str)
    (hu : Section.tryFromLine l = none) (hn : shouldSkipLine l = false) :
    feed D (some s) st (l :: rest) = feed D (some s) (D.step s st l) rest ∧
    feed D none st (l :: rest) = feed D none st rest := by
  simp [feed, feedStep, hu, hn]

/-- Parser errors are ignored and every non-skipped, non-header line of a section reaches exactly
that section's parser: the recorder sees precisely those lines, in order. -/
theorem recorder_sees (acc : Option Section × Rec) (l : Str) :
    feedStep recorder acc l =
      match Section.tryFromLine l with
      | some s => (some s, acc.2)
      | none =>
        if shouldSkipLine l then acc
        else match acc.1 with
          | some s => (some s, { acc.2 with calls := (s, l) :: acc.2.calls })
          | none => acc := by
  unfold feedStep
  cases Section.tryFromLine l with
  | some s => rfl
  | none =>
    simp only
    split
    · rfl
    · cases h : acc.1 <;> simp [recorder]

theorem dropBlank_append_nonblank (a b : List Str) (h : ∃ l ∈ a, l.isEmpty = false) :
    ∃ l a', dropBlank a = l :: a' ∧ l.isEmpty = false ∧ dropBlank (a ++ b) = l :: (a' ++ b) := by
  induction a with
  | nil => obtain ⟨l, hl, _⟩ := h; cases hl
  | cons x rest ih =>
    by_cases hx : x.isEmpty = true
    · obtain ⟨l, hl, hle⟩ := h
      have : l ∈ rest := by
        cases hl with
        | head => simp_all
        | tail _ h' => exact h'
      obtain ⟨l', a', h1, h2, h3⟩ := ih ⟨l, this, hle⟩
      exact ⟨l', a', by simp [dropBlank, hx, h1], h2, by simp [dropBlank, hx, h3]⟩
    · exact ⟨x, rest, by simp [dropBlank, hx], by simpa using hx, by simp [dropBlank, hx]⟩

theorem dropBlank_all_blank (a b : List Str) (h : ∀ l ∈ a, l.isEmpty = true) :
    dropBlank (a ++ b) = dropBlank b := by
  induction a with
  | nil => rfl
  | cons x rest ih =>
    have hx : x.isEmpty = true := h x (by simp)
    simp only [List.cons_append, dropBlank, hx, if_true]
    exact ih (fun l hl => h l (by simp [hl]))

/-- Inserting a skipped line (blank or comment) after the version slot — i.e. after some
non-blank line — never changes the outcome. -/
theorem skip_irrelevant_after_first (D : LineDecoder σ) (a b : List Str) (c : Str)
    (hc : shouldSkipLine c = true) (ha : ∃ l ∈ a, l.isEmpty = false) :
    frame D (a ++ c :: b) = frame D (a ++ b) := by
  rw [frame_eq_spec, frame_eq_spec]
  obtain ⟨l, a', h1, _, h3⟩ := dropBlank_append_nonblank a (c :: b) ha
  obtain ⟨l2, a2, h1', _, h3'⟩ := dropBlank_append_nonblank a b ha
  have : l2 = l ∧ a2 = a' := by simp_all
  obtain ⟨rfl, rfl⟩ := this
  unfold spec
  rw [h3, h3']
  simp only []
  cases versionOf l2 with
  | some v => simp only; exact feed_skip D none _ a2 b c hc
  | none => simp only; exact feed_skip D none _ (l2 :: a2) b c hc

/-- **Blank lines never change the outcome**, wherever they are inserted. -/
theorem blank_irrelevant (D : LineDecoder σ) (a b : List Str) :
    frame D (a ++ [] :: b) = frame D (a ++ b) := by
  by_cases ha : ∃ l ∈ a, l.isEmpty = false
  · exact skip_irrelevant_after_first D a b [] (by simp [shouldSkipLine]) ha
  · have hall : ∀ l ∈ a, l.isEmpty = true := by
      intro l hl
      cases h : l.isEmpty with
      | true => rfl
      | false => exact absurd ⟨l, hl, h⟩ ha
    rw [frame_eq_spec, frame_eq_spec]
    unfold spec
    rw [dropBlank_all_blank a _ hall, dropBlank_all_blank a _ hall]
    simp [dropBlank]

theorem feed_none_dropBlank (D : LineDecoder σ) (st : σ) (x : List Str) :
    feed D none st x = feed D none st (dropBlank x) := by
  induction x with
  | nil => rfl
  | cons y ys ih =>
    by_cases hy : y.isEmpty = true
    · have : y = [] := by cases y <;> simp_all
      subst this
      simp only [dropBlank, List.isEmpty_nil, if_true]
      rw [← ih]
      simp [feed, feedStep, Section.tryFromLine, shouldSkipLine]
    · simp [dropBlank, hy]

/-- A comment in the version slot (before any non-blank line) *is*, by the property's first
sentence, the first non-blank line: it fails to be a version line and is then skipped, and the
line after it is no longer in the version slot. It is irrelevant whenever that next non-blank
line does not itself announce a version. -/
theorem comment_in_version_slot (D : LineDecoder σ) (a b : List Str) (c : Str)
    (hc : shouldSkipLine c = true) (hne : c.isEmpty = false)
    (ha : ∀ l ∈ a, l.isEmpty = true)
    (hb : ∀ l rest, dropBlank b = l :: rest → versionOf l = none) :
    frame D (a ++ c :: b) = frame D (a ++ b) := by
  rw [frame_eq_spec, frame_eq_spec]
  unfold spec
  rw [dropBlank_all_blank a _ ha, dropBlank_all_blank a _ ha]
  have hcv : versionOf c = none := by
    unfold versionOf
    have : startsWith c versionPrefix = false := by
      unfold shouldSkipLine at hc
      simp [hne] at hc
      cases c with
      | nil => simp at hne
      | cons x xs =>
        by_cases hx : x = 'o'
        · subst hx; simp [trimStart, isWs, startsWith, str] at hc
        · simp [startsWith, versionPrefix, str, hx]
    simp [this]
  simp only [dropBlank, hne, Bool.false_eq_true, if_false, hcv]
  have h1 : feed D none (D.create latestVersion) (c :: b) = feed D none (D.create latestVersion) b := by
    simp [feed, feedStep_skip D _ hc]
  rw [h1, feed_none_dropBlank]
  cases hd : dropBlank b with
  | nil => rfl
  | cons l rest => simp [hb l rest hd]

/-- and when the next non-blank line *does* announce a version, the comment matters: this is the
stated corner of the property ("take the format version from the first non-blank line"). -/
theorem comment_before_version_matters :
    (frame recorder [str "// c", str "osu file format v9"]).version = 14 ∧
    (frame recorder [str "osu file format v9"]).version = 9 := by
  decide

/-- non-vacuity: a concrete file on which every clause is exercised. -/
example :
    (frame recorder [str "osu file format v9", [], str "[General]", str "Mode: 1", str "  // c",
      str "[Foo]", str "[Metadata]", str "Title: x", str "[General]", str "A"]).calls.reverse
    = [(.general, str "Mode: 1"), (.general, str "[Foo]"), (.metadata, str "Title: x"), (.general, str "A")] := by
  decide

end Rosu.C05
