/-
  Props/C04Toy.lean — non-vacuity of the composed file-level theorems (`C04.encoded_file_accepted`,
  `C03.edit_frame_objects_rep`, `C02.roundtrip_rep_partial`): one concrete map on the toy codec `ZC` that satisfies `RepMap`.

  `toyMap` = `C04.sampleMap` (mania; the sample record sections of Lemmas/Rt*.lean; two timing points, a difficulty point, two
  effect points with scroll speeds 2 and 4 and kiai, a sample point — so the `[TimingPoints]` block has two timing lines and
  three inherited lines, one inherited line being suppressed as redundant) with four hit objects: a circle, a slider with a
  two-segment path (`L|150:150|200:100|200:100|250:150`: the second segment start written implicitly as a doubled point), a
  spinner and a hold note. `toyMap_rep : RepMap ZC.Rep ZC.Rep toyMap`; `toyMap_lines`: its encoding, evaluated, as the
  version line plus the eight blocks of explicit lines.
-/
import RosuModel.Props.C04File
set_option linter.unusedSectionVars false
set_option maxRecDepth 100000
namespace Rosu.C04
open Rosu Encode EncodeLines C11 RtTiming FileRt

/-- a two-segment path: a linear segment `(0,0) → (50,50)`, then a second linear segment starting at the typed point
`(100,0)` — same type as the running segment, so the encoder writes it implicitly as a doubled point. -/
def toyPath : List (PathControlPoint ZC) :=
  [SliderRt.zc 0 0 (some PathType.linear), SliderRt.zc 50 50, SliderRt.zc 100 0 (some PathType.linear), SliderRt.zc 150 50]

/-- a slider at (100,100) with that path, expected length 140, one span, two node sample lists. -/
def toySlider : HitObjectSlider ZC ZC :=
  { pos := SliderRt.exPos, newCombo := false, comboOffset := 0,
    path := { mode := GameMode.mania, controlPoints := toyPath, expectedDist := some ⟨140⟩ },
    nodeSamples := [RtObjects.sampleSamples, [HitSampleInfo.new (.default .normal) (some .drum) 0 0]], repeatCount := 0, velocity := ⟨1⟩ }

/-- a circle, the slider, a spinner (duration 500) and a hold note (duration 250). -/
def toyObjects : List (HitObject ZC ZC) :=
  [⟨⟨1000⟩, .circle RtObjects.sampleCircle, RtObjects.sampleSamples⟩,
   ⟨⟨1200⟩, .slider toySlider, RtObjects.sampleSamples⟩,
   ⟨⟨1600⟩, .spinner RtObjects.sampleSpinner, RtObjects.sampleSamples⟩,
   ⟨⟨2400⟩, .hold RtObjects.sampleHold, RtObjects.sampleSamples⟩]

/-- `C04.sampleMap` (Props/C04Timing.lean) with these four objects. -/
def toyMap : Beatmap ZC ZC := { sampleMap with hitObjects := toyObjects }

/-- the curve code runs on the toy scalar: the computed curve has the expected length. -/
theorem toy_curveDist : curveDist toySlider = .ok (⟨140⟩ : ZC) := by rfl

/-- the sample points `collect_samples` gathers from the four objects (mania: the slider contributes its end and its
head), in object order — not sorted: the hold note contributes its end before its start. -/
def toyCollectedList : List (SamplePoint ZC) :=
  [⟨⟨1000⟩, .normal, 0, 0⟩, ⟨⟨1340⟩, .normal, 0, 0⟩, ⟨⟨1200⟩, .normal, 0, 0⟩, ⟨⟨2100⟩, .normal, 0, 0⟩, ⟨⟨2650⟩, .normal, 0, 0⟩, ⟨⟨2400⟩, .normal, 0, 0⟩]

theorem toy_collectAll : collectAll toyMap toyObjects [] = .ok toyCollectedList := by
  simp only [collectAll, toyObjects, collectObject, toy_curveDist, bind, Except.bind, pure, Except.pure,
    toyMap, sampleMap, RtGeneral.sample]
  rfl

theorem toy_sorted : toyCollectedList.mergeSort (fun a b => decide (Scalar.totalKey a.time ≤ Scalar.totalKey b.time)) =
    [⟨⟨1000⟩, .normal, 0, 0⟩, ⟨⟨1200⟩, .normal, 0, 0⟩, ⟨⟨1340⟩, .normal, 0, 0⟩, ⟨⟨2100⟩, .normal, 0, 0⟩, ⟨⟨2400⟩, .normal, 0, 0⟩, ⟨⟨2650⟩, .normal, 0, 0⟩] := by
  have tk : ∀ a : ZC, Scalar.totalKey a = a.v := fun _ => rfl
  simp [toyCollectedList, List.mergeSort, List.MergeSort.Internal.splitInTwo, tk]

/-- after the stable sort the first (time 1000) is added and the other five are redundant to it: the collection is the one
`C04.sampleMap` gets from its single circle. -/
theorem toy_collect : collectSamples toyMap = .ok sampleCollected := by
  unfold collectSamples
  rw [show toyMap.hitObjects = toyObjects from rfl, toy_collectAll]
  simp only [bind, Except.bind, pure, Except.pure, toy_sorted]
  rfl

theorem toyMap_records : RtFile.RepRecords ZC.Rep ZC.Rep toyMap :=
  ⟨sample_records_rep.version, sample_records_rep.general, sample_records_rep.editor, sample_records_rep.metadata,
   sample_records_rep.difficulty, sample_records_rep.events, sample_records_rep.colors⟩

theorem toyMap_timing : RepTimingMap ZC.Rep toyMap where
  sig := sample_timing_rep.sig
  sv := sample_timing_rep.sv
  timing := sample_timing_rep.timing
  difficulty := sample_timing_rep.difficulty
  effect := sample_timing_rep.effect
  samples := by
    intro cp hc
    rw [toy_collect] at hc
    cases hc
    decide

theorem toyMap_objects : ∀ h ∈ toyMap.hitObjects, SliderRt.RepObject ZC.Rep ZC.Rep toyMap.general.mode h := by
  intro h hh
  have hh' : h ∈ toyObjects := hh
  simp only [toyObjects, List.mem_cons, List.not_mem_nil, or_false] at hh'
  rcases hh' with rfl | rfl | rfl | rfl
  · exact .circle _ rfl ⟨⟨by decide, by decide, rfl⟩, ⟨by decide, by decide, rfl⟩, ⟨by decide, by decide⟩, by decide,
      RtObjects.sampleSamples_rep _⟩
  · exact .slider _ ⟨140⟩ rfl ⟨⟨by decide, by decide, rfl⟩, ⟨by decide, by decide, rfl⟩, ⟨by decide, by decide⟩, by decide,
      by decide, by decide, ⟨by decide, by decide⟩, Or.inl rfl, RtObjects.sampleSamples_rep _⟩
  · exact .spinner _ rfl ⟨⟨by decide, by decide, rfl⟩, ⟨by decide, by decide, rfl⟩, ⟨by decide, by decide⟩,
      ⟨by decide, by decide⟩, by decide, RtObjects.sampleSamples_rep _⟩
  · exact .hold _ rfl ⟨⟨by decide, by decide, rfl⟩, ⟨by decide, by decide, rfl⟩, ⟨by decide, by decide⟩,
      ⟨by decide, by decide⟩, by decide, RtObjects.sampleSamples_rep _⟩

/-- **the toy map satisfies `RepMap`.** -/
theorem toyMap_rep : RepMap ZC.Rep ZC.Rep toyMap := ⟨toyMap_records, toyMap_timing, toyMap_objects⟩

def toyTimingLines : List Str :=
  [str "0,500,4,2,2,70,1,0", str "500,-50,4,2,2,70,0,1", str "1000,400,3,1,0,0,1,9", str "1000,-50,3,1,0,0,0,9",
   str "1500,-25,3,1,0,0,0,8"]

def toyObjectLines : List Str :=
  [str "256,-192,1000,53,2,2:3:0:0:", str "100,100,1200,2,2,L|150:150|200:100|200:100|250:150,1,140,2|0,2:3|3:0,2:3:0:0:",
   str "256,192,1600,8,2,2100,2:3:0:0:", str "64,192,2400,128,2,2650:2:3:0:0:"]

theorem toyMap_timing_text : encodeTimingPoints toyMap = .ok (unlines (str "[TimingPoints]" :: toyTimingLines)) := by
  cases h : encodeTimingPoints toyMap with
  | error e =>
    unfold encodeTimingPoints at h
    simp [toy_collect, bind, Except.bind, pure, Except.pure] at h
  | ok t =>
    obtain ⟨cp, hc, ht⟩ := encodeTimingPoints_eq toyMap t h
    rw [toy_collect] at hc
    cases hc
    rw [ht]
    exact congrArg (fun x => Except.ok (unlines (str "[TimingPoints]" :: x))) sample_lines

theorem toyMap_objects_text : encodeHitObjects toyMap = .ok (unlines (str "[HitObjects]" :: toyObjectLines)) := by rfl


theorem toyMap_encodes : ∃ t, encode toyMap = .ok t := by
  unfold encode
  rw [toyMap_timing_text, toyMap_objects_text]
  exact ⟨_, rfl⟩

def toyGeneralLines : List Str := [str "AudioFilename: dir/a b:c.mp3", str "AudioLeadIn: -2147483647", str "PreviewTime: 2147483647", str "Countdown: 3", str "SampleSet: 2", str "StackLeniency: 7", str "Mode: 3", str "LetterboxInBreaks: 1", str "EpilepsyWarning: 1", str "CountdownOffset: 3", str "SpecialStyle: 1", str "WidescreenStoryboard: 0"]
def toyEditorLines : List Str := [str "Bookmarks: 0,-5,2147483647,-2147483648", str "DistanceSpacing: 1", str "BeatDivisor: 4", str "GridSize: -2147483647", str "TimelineZoom: -3"]
def toyMetadataLines : List Str := [str "Title: Re:Zero // [General]", str "TitleUnicode: osu file format v9", str "Artist: ", str "Creator: a: b", str "Version: [HitObjects]", str "Tags: x  y", str "BeatmapID: 2147483647"]
def toyDifficultyLines : List Str := [str "HPDrainRate: 5", str "CircleSize: 4", str "OverallDifficulty: 8", str "ApproachRate: 9", str "SliderMultiplier: 2", str "SliderTickRate: 1"]
def toyEventLines : List Str := [str "0,0,\" dir/b g:1.png \",0,0", str "2,-50,-50", str "2,1000,2147483647"]
def toyColourLines : List Str := [str "Combo1: 255,0,0,255", str "Combo2: 0,128,255,255", str "SliderBorder: 1,2,3,255", str "[Colours]: 4,5,6,255", str "x/y z: 7,8,9,255"]

theorem toy_general_lines : RtGeneral.generalLines toyMap.general (RtGeneral.sampleSetOf toyMap.controlPoints) = toyGeneralLines := by decide
theorem toy_editor_lines : RtEditor.editorLines toyMap.editor = toyEditorLines := by decide
theorem toy_metadata_lines : RtMetadata.metadataLines toyMap.metadata = toyMetadataLines := by decide
theorem toy_difficulty_lines : RtDifficulty.difficultyLines toyMap.difficulty = toyDifficultyLines := by decide
theorem toy_event_lines : RtEvents.eventLines toyMap.events = toyEventLines := by decide
theorem toy_colour_lines : RtColours.colourLines toyMap.colors = toyColourLines := by decide

/-- **the encoding of the toy map, evaluated**: the version line and the eight blocks of explicit lines (47 record lines). -/
theorem toyMap_lines : encode toyMap = .ok (unlines (RtFile.fileLines 14 toyGeneralLines toyEditorLines toyMetadataLines
    toyDifficultyLines toyEventLines toyTimingLines toyColourLines toyObjectLines)) := by
  obtain ⟨t, ht⟩ := toyMap_encodes
  have := RtFile.encode_eq_unlines toyMap t _ _ ht toyMap_timing_text toyMap_objects_text
  rw [toy_general_lines, toy_editor_lines, toy_metadata_lines, toy_difficulty_lines, toy_event_lines, toy_colour_lines] at this
  rw [ht, this]
  rfl


/-- every hypothesis of `encoded_file_accepted` holds of `toyMap`, so its conclusion does: the 47 record lines of the text
above reach their parsers in order and every one is accepted. -/
example := encoded_file_accepted ZC.mapLaws toyMap toyMap_rep _ toyMap_lines

example := encoded_file_sections_accepted ZC.mapLaws toyMap toyMap_rep _ toyMap_lines

end Rosu.C04
