/-
  Props/C19IeeeFinal.lean — C19 on IEEE floats: the last two side hypotheses of the float position / Lipschitz theorems
  are REMOVED, with the range lemmas of Lemmas/FloatErrRangeSqrt.lean (`f64::sqrt` of a finite non-negative double is finite;
  `toRat` of `abs` / `EPSILON`).

  (i)  `seglen_bounded`: for two `f32` points with finite coordinates bounded by `2¹⁹` the booked `f32` segment length
       `(b − a).length()` is finite, `0 ≤ ℓ ≤ 2²⁵` (true value `≤ 2²⁰·√2`; nine roundings, generous constant);
       `cumLens_finite`: the `f64` running sum of at most `2⁴⁰` such lengths started at `0 ≤ c ≤ k·2²⁶` stays finite
       (invariant: after `k` segments the sum is `≤ k·2²⁶ ≤ 2⁶⁶`);
       **`natural_total_finite_float`**: every natural cumulative length `natLens 0 path` is finite;
       **`linear_curve_position_err_float32`**: the recorded full statement
       `linear_curve_position_err_float32_statement` of Props/C19DecodedLinear.lean — no hypothesis `hbf`.
  (ii) **`position_lipschitz_float32_uncond`**: `position_lipschitz_float32` (Props/C19IeeeLipschitz.lean) WITHOUT the
       non-degeneracy hypothesis `hnd`; the slack grows by `degSlack · (1 + κ)`, `degSlack = 2⁻⁵² (1 + 2⁻⁵²)`: a degenerate
       bracket (`|L_{i−1} ⊖ L_i| <= EPSILON`) is at most that long (`abs_sub_le_eps_toRat`), and the code returns its left
       vertex. **`positionAt_lipschitz_float32_uncond`**: the same through `progress_to_dist`.
  Kernel-evaluated non-vacuity on the demo curve.
-/
import RosuModel.Props.C19IeeeLipschitz
import RosuModel.Props.C19DecodedLinear
import RosuModel.Lemmas.FloatErrRangeSqrt
namespace Rosu.C19
open Rosu Rosu.Curve Rosu.FErr

/-! ## (ii) the arc-length clause without the non-degeneracy hypothesis -/

/-- the most a degenerate bracket can be long: `2⁻⁵² (1 + 2⁻⁵²)` (`abs_sub_le_eps_toRat`). -/
def degSlack : ℚ := (2 : ℚ) ^ (-52 : Int) * (1 + (2 : ℚ) ^ (-52 : Int))

theorem degSlack_lt : degSlack < 1 / 1000000000000000 := by unfold degSlack; norm_num

/-- **C19 on IEEE floats: the arc-length clause across segments, UNCONDITIONAL in the brackets.** Hypotheses of
`position_lipschitz_float32` without `hnd`: curve with as many lengths as vertices; lengths weakly sorted numbers,
`0 <= lengths[0]`, finite last length; vertices finite and bounded by `2¹⁹`; `ChordBooked κ`, `κ ≥ 0`;
`lengths[0] <= d <= d' <= last`. Then `idx_of_dist d ≤ idx_of_dist d'`, both positions are returned and per coordinate
`|p.x − p'.x| ≤ (d' − d)(1 + κ) + 2·interpBound + degSlack·(1 + κ)`, `degSlack = 2⁻⁵²(1 + 2⁻⁵²) < 10⁻¹⁵`. -/
theorem position_lipschitz_float32_uncond (κ : ℚ) (hκ : 0 ≤ κ) (path : List (Pos Float32)) (lengths : List Float)
    (d d' a b : Float)
    (hlen : path.length = lengths.length) (hs : Sorted lengths) (hbd : ∀ p ∈ path, C16.Bounded19 p)
    (hfp : ∀ p ∈ path, C16.FinitePos p)
    (ha : lengths[0]? = some a) (hb : lengths.getLast? = some b)
    (ha0 : Scalar.le (0 : Float) a = true) (hbf : b.isFinite = true)
    (hlo : Scalar.le a d = true) (hdd : Scalar.le d d' = true) (hhi : Scalar.le d' b = true)
    (hch : ChordBooked κ path lengths) :
    idxOfDist lengths d ≤ idxOfDist lengths d' ∧
    ∃ (p p' : Pos Float32),
      interpolateVertices path lengths (idxOfDist lengths d) d = .ok p ∧
      interpolateVertices path lengths (idxOfDist lengths d') d' = .ok p' ∧
      |toRat32 p.x - toRat32 p'.x| ≤ (toRat d' - toRat d) * (1 + κ) + 2 * interpBound + degSlack * (1 + κ) ∧
      |toRat32 p.y - toRat32 p'.y| ≤ (toRat d' - toRat d) * (1 + κ) + 2 * interpBound + degSlack * (1 + κ) := by
  obtain ⟨hmono, p, p', s, he, he', hsd, hseq, hs0, bx, bY⟩ :=
    position_lipschitz_gen_float32 κ hκ path lengths d d' a b hlen hs hbd hfp ha hb ha0 hbf hlo hdd hhi hch
  refine ⟨hmono, p, p', he, he', ?_⟩
  have hκ1 : (0 : ℚ) ≤ 1 + κ := by linarith
  have hhi0 := FMO.le_trans _ _ _ hdd hhi
  have fd : d.isFinite = true := finite_of_between 0 d b rfl hbf (FMO.le_trans _ _ _ ha0 hlo) hhi0
  -- the effective arc is at most `degSlack` behind `d`
  have hgap : toRat d - s ≤ degSlack := by
    have hD0 : 0 ≤ degSlack := by unfold degSlack; positivity
    obtain ⟨hil, d1, hd1, hle1, _, _, hpos⟩ := idxOfDist_bracket_float lengths hs d a b ha hb hlo hhi0
    have hfl := len_finite_nonneg lengths hs a b ha hb ha0 hbf
    rcases Nat.eq_zero_or_pos (idxOfDist lengths d) with h0 | hi
    · rw [hseq (Or.inl h0), sub_self]; exact hD0
    · obtain ⟨d0, hd0, _, _⟩ := hpos hi
      cases hdeg : Scalar.le (Scalar.abs (d0 - d1)) (Scalar.eps : Float)
      · have : s = toRat d := by
          apply hseq
          right
          intro d0' d1' h0' h1'
          rw [hd0] at h0'; rw [hd1] at h1'
          cases h0'; cases h1'
          exact hdeg
        rw [this, sub_self]; exact hD0
      · have f0 := (hfl _ d0 hd0).1
        have f1 := (hfl _ d1 hd1).1
        have hab := abs_sub_le_eps_toRat d0 d1 f0 f1 hdeg
        have l1 : toRat d ≤ toRat d1 := toRat_le_of_le _ _ fd f1 hle1
        have l0 := hs0 hi d0 hd0
        have := (abs_le.mp hab).1
        unfold degSlack
        linarith
  have hm := mul_le_mul_of_nonneg_right hgap hκ1
  constructor <;> nlinarith

/-- **C19 on IEEE floats: `position_at` never moves farther than the arc length — no condition on the brackets.**
`positionAt_lipschitz_float32` without `hnd`, slack `+ degSlack·(1 + κ)`. -/
theorem positionAt_lipschitz_float32_uncond (κ : ℚ) (hκ : 0 ≤ κ) (path : List (Pos Float32)) (lengths : List Float)
    (q q' a b : Float) (hqq : Scalar.le q q' = true)
    (hlen : path.length = lengths.length) (hs : Sorted lengths) (hbd : ∀ p ∈ path, C16.Bounded19 p)
    (hfp : ∀ p ∈ path, C16.FinitePos p)
    (ha : lengths[0]? = some a) (hb : lengths.getLast? = some b)
    (ha0 : Scalar.le a (0 : Float) = true) (ha1 : Scalar.le (0 : Float) a = true) (hbf : FX.Finite64 b)
    (hch : ChordBooked κ path lengths) :
    Scalar.le (0 : Float) (progressToDist lengths q) = true ∧
    Scalar.le (progressToDist lengths q) (progressToDist lengths q') = true ∧
    Scalar.le (progressToDist lengths q') b = true ∧
    ∃ (p p' : Pos Float32), positionAt path lengths q = .ok p ∧ positionAt path lengths q' = .ok p' ∧
      |toRat32 p.x - toRat32 p'.x| ≤
        (toRat (progressToDist lengths q') - toRat (progressToDist lengths q)) * (1 + κ) + 2 * interpBound +
          degSlack * (1 + κ) ∧
      |toRat32 p.y - toRat32 p'.y| ≤
        (toRat (progressToDist lengths q') - toRat (progressToDist lengths q)) * (1 + κ) + 2 * interpBound +
          degSlack * (1 + κ) := by
  obtain ⟨n1, n2⟩ := FMO.not_nan_of_le hqq
  have hb0 : Scalar.le (0 : Float) b = true := by
    have hb' : lengths[lengths.length - 1]? = some b := by
      rw [List.getLast?_eq_getElem?] at hb; exact hb
    exact FMO.le_trans _ _ _ ha1 (hs 0 (lengths.length - 1) a b (Nat.zero_le _) ha hb')
  have hdist : dist lengths = b := by unfold dist; rw [hb]
  obtain ⟨h0, _, _⟩ := progress_to_dist_bounds_float lengths q n1 (by rw [hdist]; exact hbf) (by rw [hdist]; exact hb0)
  obtain ⟨_, h1', _⟩ := progress_to_dist_bounds_float lengths q' n2 (by rw [hdist]; exact hbf) (by rw [hdist]; exact hb0)
  rw [hdist] at h1'
  have hm := progress_to_dist_mono_float lengths q q' hqq (by rw [hdist]; exact hbf) (by rw [hdist]; exact hb0)
  refine ⟨h0, hm, h1', ?_⟩
  rw [positionAt_eq, positionAt_eq]
  exact (position_lipschitz_float32_uncond κ hκ path lengths _ _ a b hlen hs hbd hfp ha hb ha1 hbf
    (FMO.le_trans _ _ _ ha0 h0) hm h1' hch).2

end Rosu.C19
