/-
  Props/C19IeeeFinal.lean — C19 on IEEE floats: the last two side hypotheses of the float position / Lipschitz theorems
  are REMOVED, with the range lemmas of Lemmas/FloatErrRangeSqrt.lean (`f64::sqrt` of a finite non-negative double is finite;
  `toRat` of `abs` / `EPSILON`).

  (i)  `seglen_bounded`: for two `f32` points with finite coordinates bounded by `2¹⁹` the booked `f32` segment length
       `(b − a).length()` is finite, `0 ≤ ℓ ≤ 2²⁵` (true value `≤ 2²⁰·√2`; nine roundings, generous constant);
       `cumLens_finite`: the `f64` running sum of at most `2⁴⁰` such lengths started at `0 ≤ c ≤ k·2²⁶` stays finite
       (invariant: after `k` segments the sum is `≤ k·2²⁶ ≤ 2⁶⁶`);
       **`natural_total_finite_float`**: every natural cumulative length `natLens 0 path` is finite;
       **`linear_curve_position_err_float32`**: the recorded full statement
       `linear_curve_position_err_float32_statement` of Props/C19DecodedLinear.lean — no hypothesis `hbf`.
  (ii) **`position_lipschitz_float32_uncond`**: `position_lipschitz_float32` (Props/C19IeeeLipschitz.lean) WITHOUT the
       non-degeneracy hypothesis `hnd`; the slack grows by `degSlack · (1 + κ)`, `degSlack = 2⁻⁵² (1 + 2⁻⁵²)`: a degenerate
       bracket (`|L_{i−1} ⊖ L_i| <= EPSILON`) is at most that long (`abs_sub_le_eps_toRat`), and the code returns its left
       vertex. **`positionAt_lipschitz_float32_uncond`**: the same through `progress_to_dist`.
  Kernel-evaluated non-vacuity on the demo curve.
-/
import RosuModel.Props.C19IeeeLipschitz
import RosuModel.Props.C19DecodedLinear
import RosuModel.Lemmas.FloatErrRangeSqrt
namespace Rosu.C19
open Rosu Rosu.Curve Rosu.FErr

/-! ## (i) the natural cumulative lengths of a bounded finite path are finite -/

theorem lt127_of_le60 (x : ℚ) (h : x ≤ 1152921504606846976) : x < (2 : ℚ) ^ (127 : Int) := by
  have h1 : (2 : ℚ) ^ (60 : Int) < (2 : ℚ) ^ (127 : Int) := zpow_lt_zpow_right₀ (by norm_num) (by norm_num)
  have h2 : (2 : ℚ) ^ (60 : Int) = 1152921504606846976 := by norm_num
  linarith

theorem lt1023_of_le70 (x : ℚ) (h : x ≤ 1180591620717411303424) : x < (2 : ℚ) ^ (1023 : Int) := by
  have h1 : (2 : ℚ) ^ (70 : Int) < (2 : ℚ) ^ (1023 : Int) := zpow_lt_zpow_right₀ (by norm_num) (by norm_num)
  have h2 : (2 : ℚ) ^ (70 : Int) = 1180591620717411303424 := by norm_num
  exact lt_of_le_of_lt (le_trans h (le_of_eq h2.symm)) h1

/-- the difference of two finite `f32`s bounded by `2¹⁹` is finite and bounded by `2²¹`. -/
theorem coordDiff_bounded (u v : Float32) (fu : u.isFinite = true) (fv : v.isFinite = true)
    (bu : |toRat32 u| ≤ 524288) (bv : |toRat32 v| ≤ 524288) :
    (u - v).isFinite = true ∧ |toRat32 (u - v)| ≤ 2097152 := by
  have hX : |toRat32 u - toRat32 v| ≤ 1048576 := by
    rw [abs_le] at *; constructor <;> linarith
  have ff := sub_finite_float32 u v fu fv (lt127_of_le60 _ (by linarith))
  obtain ⟨δ, hδ, hv⟩ := sub_err_float32 u v fu fv ff
  refine ⟨ff, ?_⟩
  have h24 : (2 : ℚ) ^ (-24 : Int) ≤ 1 := by norm_num
  have h1 : |1 + δ| ≤ 2 := by
    rw [abs_le] at hδ ⊢; constructor <;> linarith
  rw [hv, abs_mul]
  calc |toRat32 u - toRat32 v| * |1 + δ| ≤ 1048576 * 2 := mul_le_mul hX h1 (abs_nonneg _) (by norm_num)
    _ = 2097152 := by norm_num

/-- the square of a finite `f32` bounded by `2²¹` is finite and bounded by `2⁴⁴`. -/
theorem coordSq_bounded (w : Float32) (fw : w.isFinite = true) (bw : |toRat32 w| ≤ 2097152) :
    (w * w).isFinite = true ∧ |toRat32 (w * w)| ≤ 17592186044416 := by
  have hP : |toRat32 w * toRat32 w| ≤ 4398046511104 := by
    rw [abs_mul]
    calc |toRat32 w| * |toRat32 w| ≤ 2097152 * 2097152 := mul_le_mul bw bw (abs_nonneg _) (by norm_num)
      _ = 4398046511104 := by norm_num
  have ff := mul_finite_float32 w w fw fw (lt127_of_le60 _ (by linarith))
  have he := mul_err_abs_float32 w w fw fw ff
  refine ⟨ff, ?_⟩
  have h150 : (2 : ℚ) ^ (-150 : Int) ≤ 1 := by norm_num
  have h24 : (2 : ℚ) ^ (-24 : Int) * |toRat32 w * toRat32 w| ≤ 1 * |toRat32 w * toRat32 w| :=
    mul_le_mul_of_nonneg_right (by norm_num) (abs_nonneg _)
  have := abs_le_add_of_sub _ _ _ he
  linarith

/-- **the booked `f32` length of a segment between two finite points bounded by `2¹⁹` is finite, `0 ≤ ℓ ≤ 2²⁶`** (nine
roundings, none overflows: differences `≤ 2²¹`, squares `≤ 2⁴⁴`, their sum `≤ 2⁴⁶`, its `f64` root — finite by
`sqrt_finite_float` — `≤ 2²⁴`, the cast `≤ 2²⁶`; the true value is `≤ 2²⁰·√2`). -/
theorem seglen_bounded (a b : Pos Float32) (ha : C16.FinitePos a) (hb : C16.FinitePos b)
    (hba : C16.Bounded19 a) (hbb : C16.Bounded19 b) :
    (Pos.length Float (b - a)).isFinite = true ∧ 0 ≤ toRat32 (Pos.length Float (b - a)) ∧
      toRat32 (Pos.length Float (b - a)) ≤ 67108864 := by
  obtain ⟨fax, fay⟩ := ha
  obtain ⟨fbx, fby⟩ := hb
  obtain ⟨bax, bay⟩ := hba
  obtain ⟨bbx, bby⟩ := hbb
  obtain ⟨fdx, bdx⟩ := coordDiff_bounded b.x a.x fbx fax bbx bax
  obtain ⟨fdy, bdy⟩ := coordDiff_bounded b.y a.y fby fay bby bay
  have ex : (b - a).x = b.x - a.x := rfl
  have ey : (b - a).y = b.y - a.y := rfl
  rw [← ex] at fdx bdx; rw [← ey] at fdy bdy
  obtain ⟨fsx, bsx⟩ := coordSq_bounded _ fdx bdx
  obtain ⟨fsy, bsy⟩ := coordSq_bounded _ fdy bdy
  have hsum : |toRat32 ((b - a).x * (b - a).x) + toRat32 ((b - a).y * (b - a).y)| ≤ 35184372088832 := by
    rw [abs_le] at *; constructor <;> linarith
  have fs := add_finite_float32 _ _ fsx fsy (lt127_of_le60 _ (by linarith))
  obtain ⟨δ, hδ, hv⟩ := add_err_float32 _ _ fsx fsy fs
  have hs0 : Scalar.le (0 : Float32) ((b - a).x * (b - a).x + (b - a).y * (b - a).y) = true :=
    C16.sumsq_nonneg (b - a) (not_nan_of_finite32 _ fdx) (not_nan_of_finite32 _ fdy)
  have hsv0 := toRat32_nonneg _ hs0 fs
  have hsle : toRat32 ((b - a).x * (b - a).x + (b - a).y * (b - a).y) ≤ 70368744177664 := by
    have h1 : |1 + δ| ≤ 2 := by
      have h24 : (2 : ℚ) ^ (-24 : Int) ≤ 1 := by norm_num
      rw [abs_le] at hδ ⊢; constructor <;> linarith
    have := le_abs_self (toRat32 ((b - a).x * (b - a).x + (b - a).y * (b - a).y))
    rw [hv, abs_mul] at this
    rw [hv]
    calc _ ≤ _ := this
      _ ≤ 35184372088832 * 2 := mul_le_mul hsum h1 (abs_nonneg _) (by norm_num)
      _ = 70368744177664 := by norm_num
  rw [C16.length_eq]
  generalize (b - a).x * (b - a).x + (b - a).y * (b - a).y = s at *
  have fU := up_finite s fs
  have vU := toRat_up s fs
  have hU0 : 0 ≤ toRat (Cvt.up s : Float) := by rw [vU]; exact hsv0
  obtain ⟨fR, hR0, _, _⟩ := sqrt_sq_err_float' _ fU hU0
  have hRle := sqrt_le_float _ fU hU0 8388608 (by norm_num) (by rw [vU]; norm_num; exact hsle)
  have hR16 : toRat (Scalar.sqrt (Cvt.up s : Float) : Float) ≤ 16777216 := by
    have : (8388608 : ℚ) * (1 + (2 : ℚ) ^ (-52 : Int)) ≤ 16777216 := by norm_num
    linarith
  have fL := down_finite_of_lt _ fR (lt127_of_le60 _ (by rw [abs_of_nonneg hR0]; linarith))
  have hL0 := down_nonneg_val _ fR fL hR0
  have hrnd := (down_rnd _ fR fL).abs_add
  refine ⟨fL, hL0, ?_⟩
  rw [abs_of_nonneg hR0] at hrnd
  have h150 : (2 : ℚ) ^ (-150 : Int) ≤ 1 := by norm_num
  have h24 : (2 : ℚ) ^ (-24 : Int) * toRat (Scalar.sqrt (Cvt.up s : Float) : Float) ≤
      1 * toRat (Scalar.sqrt (Cvt.up s : Float) : Float) := mul_le_mul_of_nonneg_right (by norm_num) hR0
  have := (abs_le.mp hrnd).2
  linarith

/-- **the `f64` running sum of at most `2⁴⁰` booked lengths does not overflow**: started at a finite `0 ≤ c ≤ k·2²⁷` (`k`
segments already booked), every cumulative length `calculate_length` pushes for `path` is finite, as long as
`k + path.length ≤ 2⁴⁰ + 1` (invariant: `≤ k·2²⁷` after `k` segments, each addition loses at most `2⁶⁸·2⁻⁵³`). -/
theorem cumLens_finite (path : List (Pos Float32)) :
    ∀ (k : Nat) (c : Float), c.isFinite = true → 0 ≤ toRat c → toRat c ≤ (k : ℚ) * 134217728 →
      k + path.length ≤ 2 ^ 40 + 1 →
      (∀ p ∈ path, C16.FinitePos p) → (∀ p ∈ path, C16.Bounded19 p) →
      ∀ v ∈ (cumLens c path).1, v.isFinite = true := by
  induction path with
  | nil => intro k c _ _ _ _ _ _ v hv; cases hv
  | cons a t ih =>
    cases t with
    | nil => intro k c _ _ _ _ _ _ v hv; cases hv
    | cons b t' =>
      intro k c fc hc0 hck hk hfp hbd v hv
      obtain ⟨fℓ, hℓ0, hℓle⟩ := seglen_bounded a b (hfp a (by simp)) (hfp b (by simp)) (hbd a (by simp)) (hbd b (by simp))
      have fu := up_finite _ fℓ
      have vu := toRat_up _ fℓ
      have hk' : (k : ℚ) ≤ 1099511627776 := by
        have : k ≤ 2 ^ 40 := by simp only [List.length_cons] at hk; omega
        exact_mod_cast this
      have hS0 : 0 ≤ toRat c + toRat (Cvt.up (Pos.length Float (b - a)) : Float) := by rw [vu]; linarith
      have hS : toRat c + toRat (Cvt.up (Pos.length Float (b - a)) : Float) ≤ 295147905179352825856 := by
        rw [vu]; linarith
      have fc' := add_finite_float c _ fc fu (lt1023_of_le70 _ (by rw [abs_of_nonneg hS0]; linarith))
      obtain ⟨δ, hδ, hv'⟩ := add_err_float c _ fc fu fc'
      obtain ⟨d1, d2⟩ := abs_le.mp hδ
      have hu1 : (2 : ℚ) ^ (-53 : Int) ≤ 1 := by norm_num
      have hc0' : 0 ≤ toRat (c + (Cvt.up (Pos.length Float (b - a)) : Float)) := by
        rw [hv']; exact mul_nonneg hS0 (by linarith)
      have hck' : toRat (c + (Cvt.up (Pos.length Float (b - a)) : Float)) ≤ ((k + 1 : Nat) : ℚ) * 134217728 := by
        rw [hv']
        have e1 : (toRat c + toRat (Cvt.up (Pos.length Float (b - a)) : Float)) * δ ≤
            (toRat c + toRat (Cvt.up (Pos.length Float (b - a)) : Float)) * (2 : ℚ) ^ (-53 : Int) :=
          mul_le_mul_of_nonneg_left d2 hS0
        have e2 : (toRat c + toRat (Cvt.up (Pos.length Float (b - a)) : Float)) * (2 : ℚ) ^ (-53 : Int) ≤
            295147905179352825856 * (2 : ℚ) ^ (-53 : Int) := mul_le_mul_of_nonneg_right hS (by positivity)
        have e3 : (295147905179352825856 : ℚ) * (2 : ℚ) ^ (-53 : Int) ≤ 67108864 := by norm_num
        rw [vu] at e1 e2 ⊢
        push_cast
        linarith
      rw [C16.cumLens_cons2] at hv
      rcases List.mem_cons.mp hv with rfl | hv
      · exact fc'
      · refine ih (k + 1) _ fc' hc0' hck' (by simp only [List.length_cons] at hk ⊢; omega)
          (fun p hp => hfp p (List.mem_cons_of_mem _ hp)) (fun p hp => hbd p (List.mem_cons_of_mem _ hp)) v hv

/-- **`natural_total_finite_float`**: for a path of at most `2⁴⁰` vertices with finite coordinates bounded by `2¹⁹`, every
natural cumulative length (`natLens 0 path`, what `calculate_length` stores without a requested length) is finite — the
total in particular. -/
theorem natural_total_finite_float (path : List (Pos Float32)) (hfp : ∀ p ∈ path, C16.FinitePos p)
    (hbd : ∀ p ∈ path, C16.Bounded19 p) (hlen : path.length ≤ 2 ^ 40) :
    ∀ v ∈ C16.natLens (0 : Float) path, FX.Finite64 v := by
  intro v hv
  unfold C16.natLens at hv
  rcases List.mem_cons.mp hv with rfl | hv
  · exact C16.zero_finite_float
  · exact cumLens_finite path 0 0 rfl (by rw [toRat_zero]) (by rw [toRat_zero]; norm_num) (by omega) hfp hbd v hv

section New
variable [Trig Float32]

/-- **C19 / C16 on IEEE floats, end to end for linear sliders — the recorded full statement, no overflow hypothesis.**
Control points all linear, finite, bounded by `2¹⁹`; the curve `Curve::new` computes without a requested length has at most
`2⁴⁰` path points; any progress that is a number: `position_at(progress)` is within `1/4` px per coordinate of a point of a
segment between two consecutive path vertices, both control-point positions. -/
theorem linear_curve_position_err_float32 : linear_curve_position_err_float32_statement := by
  intro fuel mode pts b b' c q hl hne hbd hfp h hlen hq
  obtain ⟨hmem, _, hlens⟩ := linear_curve_shape fuel mode pts b b' c hl hne h
  have hbd' : ∀ p ∈ c.path, C16.Bounded19 p := by
    intro p hp; obtain ⟨cp, hcp, rfl⟩ := hmem p hp; exact hbd cp hcp
  have hfp' : ∀ p ∈ c.path, C16.FinitePos p := by
    intro p hp; obtain ⟨cp, hcp, rfl⟩ := hmem p hp; exact hfp cp hcp
  refine linear_curve_position_err_float32_partial fuel mode pts b b' c q hl hne hbd hfp h ?_ hq
  intro x hx
  have := natural_total_finite_float c.path hfp' hbd' hlen
  rw [← hlens] at this
  exact this x (List.mem_of_getLast? hx)

end New

/-! ## (ii) the arc-length clause without the non-degeneracy hypothesis -/

/-- the most a degenerate bracket can be long: `2⁻⁵² (1 + 2⁻⁵²)` (`abs_sub_le_eps_toRat`). -/
def degSlack : ℚ := (2 : ℚ) ^ (-52 : Int) * (1 + (2 : ℚ) ^ (-52 : Int))

theorem degSlack_lt : degSlack < 1 / 1000000000000000 := by unfold degSlack; norm_num

/-- **C19 on IEEE floats: the arc-length clause across segments, UNCONDITIONAL in the brackets.** Hypotheses of
`position_lipschitz_float32` without `hnd`: curve with as many lengths as vertices; lengths weakly sorted numbers,
`0 <= lengths[0]`, finite last length; vertices finite and bounded by `2¹⁹`; `ChordBooked κ`, `κ ≥ 0`;
`lengths[0] <= d <= d' <= last`. Then `idx_of_dist d ≤ idx_of_dist d'`, both positions are returned and per coordinate
`|p.x − p'.x| ≤ (d' − d)(1 + κ) + 2·interpBound + degSlack·(1 + κ)`, `degSlack = 2⁻⁵²(1 + 2⁻⁵²) < 10⁻¹⁵`. -/
theorem position_lipschitz_float32_uncond (κ : ℚ) (hκ : 0 ≤ κ) (path : List (Pos Float32)) (lengths : List Float)
    (d d' a b : Float)
    (hlen : path.length = lengths.length) (hs : Sorted lengths) (hbd : ∀ p ∈ path, C16.Bounded19 p)
    (hfp : ∀ p ∈ path, C16.FinitePos p)
    (ha : lengths[0]? = some a) (hb : lengths.getLast? = some b)
    (ha0 : Scalar.le (0 : Float) a = true) (hbf : b.isFinite = true)
    (hlo : Scalar.le a d = true) (hdd : Scalar.le d d' = true) (hhi : Scalar.le d' b = true)
    (hch : ChordBooked κ path lengths) :
    idxOfDist lengths d ≤ idxOfDist lengths d' ∧
    ∃ (p p' : Pos Float32),
      interpolateVertices path lengths (idxOfDist lengths d) d = .ok p ∧
      interpolateVertices path lengths (idxOfDist lengths d') d' = .ok p' ∧
      |toRat32 p.x - toRat32 p'.x| ≤ (toRat d' - toRat d) * (1 + κ) + 2 * interpBound + degSlack * (1 + κ) ∧
      |toRat32 p.y - toRat32 p'.y| ≤ (toRat d' - toRat d) * (1 + κ) + 2 * interpBound + degSlack * (1 + κ) := by
  obtain ⟨hmono, p, p', s, he, he', hsd, hseq, hs0, bx, bY⟩ :=
    position_lipschitz_gen_float32 κ hκ path lengths d d' a b hlen hs hbd hfp ha hb ha0 hbf hlo hdd hhi hch
  refine ⟨hmono, p, p', he, he', ?_⟩
  have hκ1 : (0 : ℚ) ≤ 1 + κ := by linarith
  have hhi0 := FMO.le_trans _ _ _ hdd hhi
  have fd : d.isFinite = true := finite_of_between 0 d b rfl hbf (FMO.le_trans _ _ _ ha0 hlo) hhi0
  -- the effective arc is at most `degSlack` behind `d`
  have hgap : toRat d - s ≤ degSlack := by
    have hD0 : 0 ≤ degSlack := by unfold degSlack; positivity
    obtain ⟨hil, d1, hd1, hle1, _, _, hpos⟩ := idxOfDist_bracket_float lengths hs d a b ha hb hlo hhi0
    have hfl := len_finite_nonneg lengths hs a b ha hb ha0 hbf
    rcases Nat.eq_zero_or_pos (idxOfDist lengths d) with h0 | hi
    · rw [hseq (Or.inl h0), sub_self]; exact hD0
    · obtain ⟨d0, hd0, _, _⟩ := hpos hi
      cases hdeg : Scalar.le (Scalar.abs (d0 - d1)) (Scalar.eps : Float)
      · have : s = toRat d := by
          apply hseq
          right
          intro d0' d1' h0' h1'
          rw [hd0] at h0'; rw [hd1] at h1'
          cases h0'; cases h1'
          exact hdeg
        rw [this, sub_self]; exact hD0
      · have f0 := (hfl _ d0 hd0).1
        have f1 := (hfl _ d1 hd1).1
        have hab := abs_sub_le_eps_toRat d0 d1 f0 f1 hdeg
        have l1 : toRat d ≤ toRat d1 := toRat_le_of_le _ _ fd f1 hle1
        have l0 := hs0 hi d0 hd0
        have := (abs_le.mp hab).1
        unfold degSlack
        linarith
  have hm := mul_le_mul_of_nonneg_right hgap hκ1
  constructor <;> nlinarith

/-- **C19 on IEEE floats: `position_at` never moves farther than the arc length — no condition on the brackets.**
`positionAt_lipschitz_float32` without `hnd`, slack `+ degSlack·(1 + κ)`. -/
theorem positionAt_lipschitz_float32_uncond (κ : ℚ) (hκ : 0 ≤ κ) (path : List (Pos Float32)) (lengths : List Float)
    (q q' a b : Float) (hqq : Scalar.le q q' = true)
    (hlen : path.length = lengths.length) (hs : Sorted lengths) (hbd : ∀ p ∈ path, C16.Bounded19 p)
    (hfp : ∀ p ∈ path, C16.FinitePos p)
    (ha : lengths[0]? = some a) (hb : lengths.getLast? = some b)
    (ha0 : Scalar.le a (0 : Float) = true) (ha1 : Scalar.le (0 : Float) a = true) (hbf : FX.Finite64 b)
    (hch : ChordBooked κ path lengths) :
    Scalar.le (0 : Float) (progressToDist lengths q) = true ∧
    Scalar.le (progressToDist lengths q) (progressToDist lengths q') = true ∧
    Scalar.le (progressToDist lengths q') b = true ∧
    ∃ (p p' : Pos Float32), positionAt path lengths q = .ok p ∧ positionAt path lengths q' = .ok p' ∧
      |toRat32 p.x - toRat32 p'.x| ≤
        (toRat (progressToDist lengths q') - toRat (progressToDist lengths q)) * (1 + κ) + 2 * interpBound +
          degSlack * (1 + κ) ∧
      |toRat32 p.y - toRat32 p'.y| ≤
        (toRat (progressToDist lengths q') - toRat (progressToDist lengths q)) * (1 + κ) + 2 * interpBound +
          degSlack * (1 + κ) := by
  obtain ⟨n1, n2⟩ := FMO.not_nan_of_le hqq
  have hb0 : Scalar.le (0 : Float) b = true := by
    have hb' : lengths[lengths.length - 1]? = some b := by
      rw [List.getLast?_eq_getElem?] at hb; exact hb
    exact FMO.le_trans _ _ _ ha1 (hs 0 (lengths.length - 1) a b (Nat.zero_le _) ha hb')
  have hdist : dist lengths = b := by unfold dist; rw [hb]
  obtain ⟨h0, _, _⟩ := progress_to_dist_bounds_float lengths q n1 (by rw [hdist]; exact hbf) (by rw [hdist]; exact hb0)
  obtain ⟨_, h1', _⟩ := progress_to_dist_bounds_float lengths q' n2 (by rw [hdist]; exact hbf) (by rw [hdist]; exact hb0)
  rw [hdist] at h1'
  have hm := progress_to_dist_mono_float lengths q q' hqq (by rw [hdist]; exact hbf) (by rw [hdist]; exact hb0)
  refine ⟨h0, hm, h1', ?_⟩
  rw [positionAt_eq, positionAt_eq]
  exact (position_lipschitz_float32_uncond κ hκ path lengths _ _ a b hlen hs hbd hfp ha hb ha1 hbf
    (FMO.le_trans _ _ _ ha0 h0) hm h1' hch).2

/-! ## non-vacuity: the demo curve `(100,200) → (107,224) → (100,200)`, lengths `[0, 25, 50]`, kernel-evaluated -/

section Examples
open Rosu.C16

/-- `seglen_bounded` on the demo segment: hypotheses hold, the booked length is `25`. -/
example : (Pos.length Float (demoPE - demoPP)).isFinite = true ∧ 0 ≤ toRat32 (Pos.length Float (demoPE - demoPP)) ∧
    toRat32 (Pos.length Float (demoPE - demoPP)) ≤ 67108864 :=
  seglen_bounded demoPP demoPE (demo_finitePos _ (by simp [demoPath])) (demo_finitePos _ (by simp [demoPath]))
    (demo_bounded _ (by simp [demoPath])) (demo_bounded _ (by simp [demoPath]))

/-- `natural_total_finite_float` on the demo path (its natural lengths are `[0, 25, 50]`, `demo_natLens`). -/
example : ∀ v ∈ natLens (0 : Float) demoPath, FX.Finite64 v :=
  natural_total_finite_float demoPath demo_finitePos demo_bounded (by simp [demoPath])

attribute [local instance] C16.trigStub32

/-- **every hypothesis of `linear_curve_position_err_float32` holds on the demo control points** `(100,200) L, (107,224),
(100,200)`, progress `0.2` — no finiteness of the lengths is checked any more. -/
example : ∃ c b', Curve.new 10 GameMode.osu linCps none ({} : CurveBuffers Float32 Float) = .ok (c, b') ∧
    ∃ (p : Pos Float32) (k : Nat) (p0 p1 : Pos Float32) (w : ℚ),
      positionAt c.path c.lengths 0.2 = .ok p ∧
      c.path[k]? = some p0 ∧ (c.path[k + 1]? = some p1 ∨ p1 = p0) ∧
      (∃ cp ∈ linCps, cp.pos = p0) ∧ (∃ cp ∈ linCps, cp.pos = p1) ∧ 0 ≤ w ∧ w ≤ 1 ∧
      |toRat32 p.x - (toRat32 p0.x + w * (toRat32 p1.x - toRat32 p0.x))| < 1 / 4 ∧
      |toRat32 p.y - (toRat32 p0.y + w * (toRat32 p1.y - toRat32 p0.y))| < 1 / 4 := by
  obtain ⟨c, b', h, hp, _⟩ := linCps_curve
  refine ⟨c, b', h, ?_⟩
  exact linear_curve_position_err_float32 10 GameMode.osu linCps {} b' c 0.2 linCps_allLinear (by simp [linCps])
    linCps_bounded linCps_finite h (by rw [hp]; simp [demoPath]) (by decide +kernel)

/-- **every hypothesis of `position_lipschitz_float32_uncond` holds on the demo curve for `d = 10`, `d' = 30`** (two
different segments) — nothing about the brackets is checked. -/
example : ∃ (p p' : Pos Float32),
      interpolateVertices demoPath demoLens (idxOfDist demoLens 10) 10 = .ok p ∧
      interpolateVertices demoPath demoLens (idxOfDist demoLens 30) 30 = .ok p' ∧
      |toRat32 p.x - toRat32 p'.x| ≤ (30 - 10) * (1 + (2 : ℚ) ^ (-20 : Int)) + 2 * interpBound +
        degSlack * (1 + (2 : ℚ) ^ (-20 : Int)) ∧
      |toRat32 p.y - toRat32 p'.y| ≤ (30 - 10) * (1 + (2 : ℚ) ^ (-20 : Int)) + 2 * interpBound +
        degSlack * (1 + (2 : ℚ) ^ (-20 : Int)) := by
  have h := (position_lipschitz_float32_uncond ((2 : ℚ) ^ (-20 : Int)) (by positivity) demoPath demoLens 10 30 0 50 rfl
    demo_sorted demo_bounded demo_finitePos rfl rfl (by decide +kernel) (by decide +kernel) (by decide +kernel)
    (by decide +kernel) (by decide +kernel) demo_chordBooked).2
  rw [toRat_10, toRat_30] at h
  exact h

/-- `positionAt_lipschitz_float32_uncond` on the demo curve, progress `0.2 <= 0.6`. -/
example : ∃ (p p' : Pos Float32), positionAt demoPath demoLens 0.2 = .ok p ∧ positionAt demoPath demoLens 0.6 = .ok p' ∧
    |toRat32 p.x - toRat32 p'.x| ≤
      (toRat (progressToDist demoLens 0.6) - toRat (progressToDist demoLens 0.2)) * (1 + (2 : ℚ) ^ (-20 : Int)) +
        2 * interpBound + degSlack * (1 + (2 : ℚ) ^ (-20 : Int)) ∧
    |toRat32 p.y - toRat32 p'.y| ≤
      (toRat (progressToDist demoLens 0.6) - toRat (progressToDist demoLens 0.2)) * (1 + (2 : ℚ) ^ (-20 : Int)) +
        2 * interpBound + degSlack * (1 + (2 : ℚ) ^ (-20 : Int)) :=
  (positionAt_lipschitz_float32_uncond ((2 : ℚ) ^ (-20 : Int)) (by positivity) demoPath demoLens 0.2 0.6 0 50
    (by decide +kernel) rfl demo_sorted demo_bounded demo_finitePos rfl rfl (by decide +kernel) (by decide +kernel)
    (by decide +kernel) demo_chordBooked).2.2.2

/-- a DEGENERATE bracket on which the old hypothesis `hnd` fails but the unconditional theorem applies: lengths
`[0, 25, 25, 50]` — the middle bracket has `|25 ⊖ 25| = 0 <= EPSILON`. -/
example : Scalar.le (Scalar.abs ((25 : Float) - 25)) (Scalar.eps : Float) = true := by decide +kernel

end Examples

end Rosu.C19
