/-
  Props/C03Edit.lean — C03: the edits of the property as a type, and what they do to a map (no decoding here; the
  theorems about DECODED maps are in Props/C03Decoded.lean).

  * `Edit F P`: one constructor per field the `edit` request of the harness (`harness/src/roundtrip.rs: apply_edit`) and of
    the driver (`Model/Cmds/Whole.lean: applyEdit`) can set through the public fields of `Beatmap` — 37 fields.
    `applyEdit e m` is the edited map, `applyEdits es m` a sequence of edits applied left to right.
  * `Edit.Representable e` (decidable): the value is one the format can represent, spelled out per field as the property
    words it. `Edit.CodecRep RF RP e`: the number codec represents the edit's own float value (the codec-side half of
    "numbers the format can represent"; trivially true of every edit without a float).
  * `Field` (41 record fields = everything the record view `RtFile.RecView` of a decoded file shows), `Field.get`,
    `Edit.field`, `Edit.touches` (the edited field; a mode edit also touches `special_style`, which is written in mania
    only), `Edit.shown e m` — the value the edited field shows after the edit.
  * `edit_keeps_rep` / `edits_keep_rep`: a representable edit of a map with representable record sections gives a map with
    representable record sections. `edit_keeps_opaque`: … and all alphas stay 255.
  * `edit_shows_value`: the preserved record view of the edited map shows exactly the edited value in the edited field;
    `edit_leaves_field`: every field the edit does not touch shows what it shows for the unedited map (law-free, for every
    edit, representable or not). `fields_complete`: a record view is determined by its 41 fields.
  * `frameEdit_applyEdit(s)`: every edit except mode / slider multiplier / tick rate / breaks is a `FrameEdit`.
-/
import RosuModel.Props.C03All
import RosuModel.Props.C04Decoded
import RosuModel.Model.Cmds.Whole
namespace Rosu.C03
open Rosu Encode EncodeLines C11 RtFile FrameEnc FrameDec Scalar DecodedInv

set_option linter.unusedSectionVars false

/-- **one edit through the public fields of `Beatmap`.** The ten metadata fields, the two file names, the integer and
float fields of `[General]`, `[Editor]`, `[Difficulty]`, the five flags, mode, countdown, bookmarks, breaks, the combo
colours, and one custom colour (set by name: replaced if the name exists, appended otherwise — as `apply_edit` does).
`audio_lead_in` is an `f64` in the crate but the format carries it as an `i32` text, so a representable value is `n as f64`
and the edit is given by `n`. -/
inductive Edit (F P : Type)
  | title (v : Str) | titleUnicode (v : Str) | artist (v : Str) | artistUnicode (v : Str) | creator (v : Str)
  | version (v : Str) | source (v : Str) | tags (v : Str) | beatmapId (n : Int) | beatmapSetId (n : Int)
  | audioFile (v : Str) | backgroundFile (v : Str)
  | previewTime (n : Int) | countdownOffset (n : Int) | beatDivisor (n : Int) | gridSize (n : Int) | audioLeadIn (n : Int)
  | distanceSpacing (x : F) | timelineZoom (x : F) | sliderMultiplier (x : F) | sliderTickRate (x : F)
  | stackLeniency (y : P) | hpDrainRate (y : P) | circleSize (y : P) | overallDifficulty (y : P) | approachRate (y : P)
  | letterboxInBreaks (b : Bool) | widescreenStoryboard (b : Bool) | epilepsyWarning (b : Bool)
  | samplesMatchPlaybackRate (b : Bool) | specialStyle (b : Bool)
  | mode (g : GameMode) | countdown (c : CountdownType)
  | bookmarks (l : List Int) | breaks (l : List (BreakPeriod F)) | comboColors (l : List Color)
  | customColor (name : Str) (c : Color)

/-- the record fields a decoded file shows (`RtFile.RecView`): format version, the fourteen `[General]` fields, the five
`[Editor]` fields, the ten `[Metadata]` fields, the `[Difficulty]` state (six values and the "approach rate seen" flag), the
two `[Events]` fields, the two colour lists. -/
inductive Field
  | formatVersion
  | audioFile | audioLeadIn | previewTime | countdown | sampleSet | sampleVolume | stackLeniency | mode
  | letterboxInBreaks | specialStyle | widescreenStoryboard | epilepsyWarning | samplesMatchPlaybackRate | countdownOffset
  | bookmarks | distanceSpacing | beatDivisor | gridSize | timelineZoom
  | title | titleUnicode | artist | artistUnicode | creator | version | source | tags | beatmapId | beatmapSetId
  | hasApproachRate | hpDrainRate | circleSize | overallDifficulty | approachRate | sliderMultiplier | sliderTickRate
  | backgroundFile | breaks | comboColors | customColors
  deriving DecidableEq, Repr

/-- the values of record fields, in one carrier. -/
inductive FieldVal (F P : Type)
  | text (s : Str) | int (n : Int) | f64 (x : F) | f32 (y : P) | flag (b : Bool) | mode (g : GameMode)
  | countdown (c : CountdownType) | bank (b : SampleBank) | ints (l : List Int) | breaks (l : List (BreakPeriod F))
  | colours (l : List Color) | customs (l : List CustomColor)

section
variable {F P : Type} [Scalar F] [Scalar P]

/-- the edited map. -/
def applyEdit (e : Edit F P) (m : Beatmap F P) : Beatmap F P :=
  match e with
  | .title v => { m with metadata := { m.metadata with title := v } }
  | .titleUnicode v => { m with metadata := { m.metadata with titleUnicode := v } }
  | .artist v => { m with metadata := { m.metadata with artist := v } }
  | .artistUnicode v => { m with metadata := { m.metadata with artistUnicode := v } }
  | .creator v => { m with metadata := { m.metadata with creator := v } }
  | .version v => { m with metadata := { m.metadata with version := v } }
  | .source v => { m with metadata := { m.metadata with source := v } }
  | .tags v => { m with metadata := { m.metadata with tags := v } }
  | .beatmapId n => { m with metadata := { m.metadata with beatmapId := n } }
  | .beatmapSetId n => { m with metadata := { m.metadata with beatmapSetId := n } }
  | .audioFile v => { m with general := { m.general with audioFile := v } }
  | .backgroundFile v => { m with events := { m.events with backgroundFile := v } }
  | .previewTime n => { m with general := { m.general with previewTime := n } }
  | .countdownOffset n => { m with general := { m.general with countdownOffset := n } }
  | .beatDivisor n => { m with editor := { m.editor with beatDivisor := n } }
  | .gridSize n => { m with editor := { m.editor with gridSize := n } }
  | .audioLeadIn n => { m with general := { m.general with audioLeadIn := Scalar.ofInt n } }
  | .distanceSpacing x => { m with editor := { m.editor with distanceSpacing := x } }
  | .timelineZoom x => { m with editor := { m.editor with timelineZoom := x } }
  | .sliderMultiplier x => { m with difficulty := { m.difficulty with sliderMultiplier := x } }
  | .sliderTickRate x => { m with difficulty := { m.difficulty with sliderTickRate := x } }
  | .stackLeniency y => { m with general := { m.general with stackLeniency := y } }
  | .hpDrainRate y => { m with difficulty := { m.difficulty with hpDrainRate := y } }
  | .circleSize y => { m with difficulty := { m.difficulty with circleSize := y } }
  | .overallDifficulty y => { m with difficulty := { m.difficulty with overallDifficulty := y } }
  | .approachRate y => { m with difficulty := { m.difficulty with approachRate := y } }
  | .letterboxInBreaks b => { m with general := { m.general with letterboxInBreaks := b } }
  | .widescreenStoryboard b => { m with general := { m.general with widescreenStoryboard := b } }
  | .epilepsyWarning b => { m with general := { m.general with epilepsyWarning := b } }
  | .samplesMatchPlaybackRate b => { m with general := { m.general with samplesMatchPlaybackRate := b } }
  | .specialStyle b => { m with general := { m.general with specialStyle := b } }
  | .mode g => { m with general := { m.general with mode := g } }
  | .countdown c => { m with general := { m.general with countdown := c } }
  | .bookmarks l => { m with editor := { m.editor with bookmarks := l } }
  | .breaks l => { m with events := { m.events with breaks := l } }
  | .comboColors l => { m with colors := { m.colors with customComboColors := l } }
  | .customColor name c => { m with colors := { m.colors with customColors := setCustomColor name c m.colors.customColors } }

/-- a sequence of edits, applied left to right (a later edit of the same field wins). -/
def applyEdits (es : List (Edit F P)) (m : Beatmap F P) : Beatmap F P := es.foldl (fun m e => applyEdit e m) m

theorem applyEdits_nil (m : Beatmap F P) : applyEdits [] m = m := rfl
theorem applyEdits_cons (e : Edit F P) (es : List (Edit F P)) (m : Beatmap F P) :
    applyEdits (e :: es) m = applyEdits es (applyEdit e m) := rfl
theorem applyEdits_append (a b : List (Edit F P)) (m : Beatmap F P) :
    applyEdits (a ++ b) m = applyEdits b (applyEdits a m) := by
  simp [applyEdits, List.foldl_append]

/-- **values the format can represent**, per field, as the property words it:
* metadata texts — equal to their own `trim` (Rust `White_Space`), no line feed; colons, `//`, brackets, header- or
  version-like text and the empty text are all allowed;
* beatmap ids and the countdown offset — positive `i32` (the encoder writes only positive ones);
* audio file name — self-trimmed, no line feed, no `//`, no backslash; background file name — empty, or no comma, no line
  feed, no backslash, no `//`, no leading / trailing `"`;
* preview time, beat divisor, grid size, audio lead-in — within the parse limit ±(2³¹−1);
* floats — within the parse limit and not NaN, and for slider multiplier / tick rate inside the decoder's clamp
  `[0.4, 3.6]` / `[0.5, 8]` as `f64::clamp` tests it;
* flags, mode, countdown — any value; bookmarks — any `i32` list;
* breaks — both times within the limit, `max(start, end) = end` as the decoder computes it;
* colours — byte components, alpha 255; a custom colour's name self-trimmed, without `:`, line feed, `//`, not starting
  with `Combo`. -/
def Edit.Representable : Edit F P → Prop
  | .title v | .titleUnicode v | .artist v | .artistUnicode v | .creator v | .version v | .source v | .tags v =>
    RtMetadata.RepText v
  | .beatmapId n | .beatmapSetId n | .countdownOffset n => 0 < n ∧ n ≤ i32Max
  | .audioFile v => RtGeneral.RepAudioName v
  | .backgroundFile v => v = [] ∨ RtEvents.RepFileName v
  | .previewTime n | .beatDivisor n | .gridSize n | .audioLeadIn n => -i32Max ≤ n ∧ n ≤ i32Max
  | .distanceSpacing x | .timelineZoom x => InLimit x
  | .sliderMultiplier x => InLimit x ∧ lt x (0.4 : F) = false ∧ lt (3.6 : F) x = false
  | .sliderTickRate x => InLimit x ∧ lt x (0.5 : F) = false ∧ lt (8 : F) x = false
  | .stackLeniency y | .hpDrainRate y | .circleSize y | .overallDifficulty y | .approachRate y => InLimit y
  | .letterboxInBreaks _ | .widescreenStoryboard _ | .epilepsyWarning _ | .samplesMatchPlaybackRate _ | .specialStyle _ => True
  | .mode _ | .countdown _ => True
  | .bookmarks l => ∀ b ∈ l, i32Min ≤ b ∧ b ≤ i32Max
  | .breaks l => ∀ b ∈ l, InLimit b.startTime ∧ InLimit b.endTime ∧ Scalar.max b.startTime b.endTime = b.endTime
  | .comboColors l => ∀ c ∈ l, RtColours.RepColor c ∧ c.a = 255
  | .customColor name c => RtColours.RepCustom ⟨name, c⟩ ∧ c.a = 255

/-- the codec represents the edit's own float value(s) — a statement about the number codec (`R x` = "`Display` then
`FromStr` returns `x`", Lemmas/CodecLaws.lean), true of every edit that sets no float. -/
def Edit.CodecRep (RF : F → Prop) (RP : P → Prop) : Edit F P → Prop
  | .distanceSpacing x | .timelineZoom x | .sliderMultiplier x | .sliderTickRate x => RF x
  | .stackLeniency y | .hpDrainRate y | .circleSize y | .overallDifficulty y | .approachRate y => RP y
  | .breaks l => ∀ b ∈ l, RF b.startTime ∧ RF b.endTime
  | _ => True

/-! ### `Representable` is decidable -/

theorem repAudioName_iff (n : Str) :
    RtGeneral.RepAudioName n ↔ trim n = n ∧ '\n' ∉ n ∧ hasDS n = false ∧ '\\' ∉ n :=
  ⟨fun h => ⟨h.trimmed, h.noLf, h.noDS, h.noBackslash⟩, fun h => ⟨h.1, h.2.1, h.2.2.1, h.2.2.2⟩⟩

theorem repFileName_iff (n : Str) :
    RtEvents.RepFileName n ↔ ',' ∉ n ∧ '\n' ∉ n ∧ '\\' ∉ n ∧ hasDS n = false ∧ n.head? ≠ some '"' ∧ n.getLast? ≠ some '"' :=
  ⟨fun h => ⟨h.noComma, h.noLf, h.noBackslash, h.noDS, h.head, h.last⟩,
   fun h => ⟨h.1, h.2.1, h.2.2.1, h.2.2.2.1, h.2.2.2.2.1, h.2.2.2.2.2⟩⟩

theorem repCustom_iff (c : CustomColor) :
    RtColours.RepCustom c ↔ trim c.name = c.name ∧ ':' ∉ c.name ∧ '\n' ∉ c.name ∧ hasDS c.name = false ∧
      startsWith c.name (str "Combo") = false ∧ RtColours.RepColor c.color :=
  ⟨fun h => ⟨h.trimmed, h.noColon, h.noLf, h.noDS, h.notCombo, h.color⟩,
   fun h => ⟨h.1, h.2.1, h.2.2.1, h.2.2.2.1, h.2.2.2.2.1, h.2.2.2.2.2⟩⟩

instance decRepAudioName (n : Str) : Decidable (RtGeneral.RepAudioName n) := decidable_of_iff _ (repAudioName_iff n).symm
instance decRepFileName (n : Str) : Decidable (RtEvents.RepFileName n) := decidable_of_iff _ (repFileName_iff n).symm
instance decRepCustom (c : CustomColor) : Decidable (RtColours.RepCustom c) := decidable_of_iff _ (repCustom_iff c).symm
instance decRepText (v : Str) : Decidable (RtMetadata.RepText v) := by unfold RtMetadata.RepText; infer_instance
/-- `InLimit` is three tests of the scalar's own comparisons. -/
@[instance_reducible] def decInLimit {α : Type} [Scalar α] (x : α) : Decidable (InLimit x) := by unfold InLimit; infer_instance

attribute [local instance] decInLimit in
/-- **`Representable` is decidable** (equality of the `f64` carrier is needed for one clause only: `max(start, end) = end`). -/
instance Edit.decRepresentable [DecidableEq F] (e : Edit F P) : Decidable e.Representable := by
  cases e <;> simp only [Edit.Representable] <;> infer_instance

/-! ### fields -/

/-- the field an edit sets. -/
def Edit.field : Edit F P → Field
  | .title _ => .title | .titleUnicode _ => .titleUnicode | .artist _ => .artist | .artistUnicode _ => .artistUnicode
  | .creator _ => .creator | .version _ => .version | .source _ => .source | .tags _ => .tags
  | .beatmapId _ => .beatmapId | .beatmapSetId _ => .beatmapSetId
  | .audioFile _ => .audioFile | .backgroundFile _ => .backgroundFile
  | .previewTime _ => .previewTime | .countdownOffset _ => .countdownOffset | .beatDivisor _ => .beatDivisor
  | .gridSize _ => .gridSize | .audioLeadIn _ => .audioLeadIn
  | .distanceSpacing _ => .distanceSpacing | .timelineZoom _ => .timelineZoom
  | .sliderMultiplier _ => .sliderMultiplier | .sliderTickRate _ => .sliderTickRate
  | .stackLeniency _ => .stackLeniency | .hpDrainRate _ => .hpDrainRate | .circleSize _ => .circleSize
  | .overallDifficulty _ => .overallDifficulty | .approachRate _ => .approachRate
  | .letterboxInBreaks _ => .letterboxInBreaks | .widescreenStoryboard _ => .widescreenStoryboard
  | .epilepsyWarning _ => .epilepsyWarning | .samplesMatchPlaybackRate _ => .samplesMatchPlaybackRate
  | .specialStyle _ => .specialStyle | .mode _ => .mode | .countdown _ => .countdown
  | .bookmarks _ => .bookmarks | .breaks _ => .breaks | .comboColors _ => .comboColors | .customColor _ _ => .customColors

/-- the fields whose preserved value an edit can change: its own, and for a mode edit also `special_style` (written in
mania only — leaving or entering mania drops or reveals it). -/
def Edit.touches (e : Edit F P) (f : Field) : Bool :=
  decide (f = e.field) || (match e with | .mode _ => decide (f = Field.specialStyle) | _ => false)

/-- reading a field off the record view of a decoder state. -/
def Field.get (f : Field) (v : RecView F P) : FieldVal F P :=
  match f with
  | .formatVersion => .int v.version
  | .audioFile => .text v.general.audioFile | .audioLeadIn => .f64 v.general.audioLeadIn
  | .previewTime => .int v.general.previewTime | .countdown => .countdown v.general.countdown
  | .sampleSet => .bank v.general.defaultSampleBank | .sampleVolume => .int v.general.defaultSampleVolume
  | .stackLeniency => .f32 v.general.stackLeniency | .mode => .mode v.general.mode
  | .letterboxInBreaks => .flag v.general.letterboxInBreaks | .specialStyle => .flag v.general.specialStyle
  | .widescreenStoryboard => .flag v.general.widescreenStoryboard | .epilepsyWarning => .flag v.general.epilepsyWarning
  | .samplesMatchPlaybackRate => .flag v.general.samplesMatchPlaybackRate | .countdownOffset => .int v.general.countdownOffset
  | .bookmarks => .ints v.editor.bookmarks | .distanceSpacing => .f64 v.editor.distanceSpacing
  | .beatDivisor => .int v.editor.beatDivisor | .gridSize => .int v.editor.gridSize | .timelineZoom => .f64 v.editor.timelineZoom
  | .title => .text v.metadata.title | .titleUnicode => .text v.metadata.titleUnicode | .artist => .text v.metadata.artist
  | .artistUnicode => .text v.metadata.artistUnicode | .creator => .text v.metadata.creator | .version => .text v.metadata.version
  | .source => .text v.metadata.source | .tags => .text v.metadata.tags | .beatmapId => .int v.metadata.beatmapId
  | .beatmapSetId => .int v.metadata.beatmapSetId
  | .hasApproachRate => .flag v.difficulty.hasApproachRate | .hpDrainRate => .f32 v.difficulty.difficulty.hpDrainRate
  | .circleSize => .f32 v.difficulty.difficulty.circleSize | .overallDifficulty => .f32 v.difficulty.difficulty.overallDifficulty
  | .approachRate => .f32 v.difficulty.difficulty.approachRate | .sliderMultiplier => .f64 v.difficulty.difficulty.sliderMultiplier
  | .sliderTickRate => .f64 v.difficulty.difficulty.sliderTickRate
  | .backgroundFile => .text v.events.backgroundFile | .breaks => .breaks v.events.breaks
  | .comboColors => .colours v.colors.customComboColors | .customColors => .customs v.colors.customColors

/-- the value the edited field shows after edit `e` of map `m`: the edited value itself; for `special_style` the flag as
far as the format carries it (mania only); for a custom colour the list with that name set. -/
def Edit.shown (e : Edit F P) (m : Beatmap F P) : FieldVal F P :=
  match e with
  | .title v | .titleUnicode v | .artist v | .artistUnicode v | .creator v | .version v | .source v | .tags v => .text v
  | .audioFile v | .backgroundFile v => .text v
  | .beatmapId n | .beatmapSetId n | .countdownOffset n | .previewTime n | .beatDivisor n | .gridSize n => .int n
  | .audioLeadIn n => .f64 (Scalar.ofInt n)
  | .distanceSpacing x | .timelineZoom x | .sliderMultiplier x | .sliderTickRate x => .f64 x
  | .stackLeniency y | .hpDrainRate y | .circleSize y | .overallDifficulty y | .approachRate y => .f32 y
  | .letterboxInBreaks b | .widescreenStoryboard b | .epilepsyWarning b | .samplesMatchPlaybackRate b => .flag b
  | .specialStyle b => .flag ((m.general.mode == GameMode.mania) && b)
  | .mode g => .mode g | .countdown c => .countdown c
  | .bookmarks l => .ints l | .breaks l => .breaks l | .comboColors l => .colours l
  | .customColor name c => .customs (setCustomColor name c m.colors.customColors)

/-- **the 41 fields are the whole record view**: two views that agree on every field are equal — so "every field the edit
does not touch is unchanged" leaves nothing of the record sections out. -/
theorem fields_complete (v w : RecView F P) (h : ∀ f : Field, f.get v = f.get w) : v = w := by
  obtain ⟨ver, ⟨g1, g2, g3, g4, g5, g6, g7, g8, g9, g10, g11, g12, g13, g14⟩, ⟨e1, e2, e3, e4, e5⟩,
    ⟨m1, m2, m3, m4, m5, m6, m7, m8, m9, m10⟩, ⟨d0, ⟨d1, d2, d3, d4, d5, d6⟩⟩, ⟨v1, v2⟩, ⟨c1, c2⟩⟩ := v
  obtain ⟨ver', ⟨g1', g2', g3', g4', g5', g6', g7', g8', g9', g10', g11', g12', g13', g14'⟩, ⟨e1', e2', e3', e4', e5'⟩,
    ⟨m1', m2', m3', m4', m5', m6', m7', m8', m9', m10'⟩, ⟨d0', ⟨d1', d2', d3', d4', d5', d6'⟩⟩, ⟨v1', v2'⟩, ⟨c1', c2'⟩⟩ := w
  have a0 := h .formatVersion
  have a1 := h .audioFile; have a2 := h .audioLeadIn; have a3 := h .previewTime; have a4 := h .countdown
  have a5 := h .sampleSet; have a6 := h .sampleVolume; have a7 := h .stackLeniency; have a8 := h .mode
  have a9 := h .letterboxInBreaks; have a10 := h .specialStyle; have a11 := h .widescreenStoryboard
  have a12 := h .epilepsyWarning; have a13 := h .samplesMatchPlaybackRate; have a14 := h .countdownOffset
  have b1 := h .bookmarks; have b2 := h .distanceSpacing; have b3 := h .beatDivisor; have b4 := h .gridSize
  have b5 := h .timelineZoom
  have k1 := h .title; have k2 := h .titleUnicode; have k3 := h .artist; have k4 := h .artistUnicode; have k5 := h .creator
  have k6 := h .version; have k7 := h .source; have k8 := h .tags; have k9 := h .beatmapId; have k10 := h .beatmapSetId
  have f0 := h .hasApproachRate; have f1 := h .hpDrainRate; have f2 := h .circleSize; have f3 := h .overallDifficulty
  have f4 := h .approachRate; have f5 := h .sliderMultiplier; have f6 := h .sliderTickRate
  have x1 := h .backgroundFile; have x2 := h .breaks; have y1 := h .comboColors; have y2 := h .customColors
  simp only [Field.get, FieldVal.int.injEq, FieldVal.text.injEq, FieldVal.f64.injEq, FieldVal.f32.injEq, FieldVal.flag.injEq,
    FieldVal.mode.injEq, FieldVal.countdown.injEq, FieldVal.bank.injEq] at a0 a1 a2 a3 a4 a5 a6 a7 a8 a9 a10 a11 a12 a13 a14
  simp only [Field.get, FieldVal.int.injEq, FieldVal.f64.injEq, FieldVal.ints.injEq] at b1 b2 b3 b4 b5
  simp only [Field.get, FieldVal.int.injEq, FieldVal.text.injEq] at k1 k2 k3 k4 k5 k6 k7 k8 k9 k10
  simp only [Field.get, FieldVal.f64.injEq, FieldVal.f32.injEq, FieldVal.flag.injEq] at f0 f1 f2 f3 f4 f5 f6
  simp only [Field.get, FieldVal.text.injEq, FieldVal.breaks.injEq, FieldVal.colours.injEq, FieldVal.customs.injEq] at x1 x2 y1 y2
  clear h
  subst a0 a1 a2 a3 a4 a5 a6 a7 a8 a9 a10 a11 a12 a13 a14 b1 b2 b3 b4 b5
  subst k1 k2 k3 k4 k5 k6 k7 k8 k9 k10 f0 f1 f2 f3 f4 f5 f6 x1 x2 y1 y2
  rfl

/-! ### representable edits keep the record sections representable -/

variable {RF : F → Prop} {RP : P → Prop}

theorem setCustomColor_keeps_customs (name : Str) (c : Color) (xs : List CustomColor)
    (hx : ∀ x ∈ xs, RtColours.RepCustom x) (hn : RtColours.RepCustom ⟨name, c⟩) :
    ∀ x ∈ setCustomColor name c xs, RtColours.RepCustom x := by
  intro x hmem
  rcases setCustomColor_mem hmem with ⟨y, hy, hname, e | e⟩ | e
  · rw [e]; exact hx y hy
  · have hy' := hx y hy
    exact ⟨by rw [hname]; exact hy'.trimmed, by rw [hname]; exact hy'.noColon, by rw [hname]; exact hy'.noLf,
      by rw [hname]; exact hy'.noDS, by rw [hname]; exact hy'.notCombo, by rw [e]; exact hn.color⟩
  · rw [e]; exact hn

theorem setCustomColor_keeps_nodup (name : Str) (c : Color) (xs : List CustomColor) (h : (xs.map (·.name)).Nodup) :
    ((setCustomColor name c xs).map (·.name)).Nodup := by
  rw [C11.setCustomColor_names]
  split
  · exact h
  · rename_i hn
    exact List.nodup_append.mpr ⟨h, by simp, by
      intro a ha b hb; simp at hb; subst hb; intro e; subst e; exact hn ha⟩

theorem setCustomColor_keeps_alpha (name : Str) (c : Color) (xs : List CustomColor)
    (hx : ∀ x ∈ xs, x.color.a = 255) (hc : c.a = 255) : ∀ x ∈ setCustomColor name c xs, x.color.a = 255 := by
  intro x hmem
  rcases setCustomColor_mem hmem with ⟨y, hy, _, e | e⟩ | e
  · rw [e]; exact hx y hy
  · rw [e]; exact hc
  · rw [e]; exact hc

/-- **edit_keeps_rep** — a representable edit (whose float value, if it has one, the codec represents) of a map with
representable record sections gives a map with representable record sections. Per field. -/
theorem edit_keeps_rep (m : Beatmap F P) (e : Edit F P) (hm : RepRecords RF RP m) (he : e.Representable)
    (hc : e.CodecRep RF RP) : RepRecords RF RP (applyEdit e m) := by
  cases e <;> simp only [Edit.Representable] at he <;> simp only [Edit.CodecRep] at hc <;> simp only [applyEdit]
  case title => exact { hm with metadata := { hm.metadata with title := he } }
  case titleUnicode => exact { hm with metadata := { hm.metadata with titleUnicode := he } }
  case artist => exact { hm with metadata := { hm.metadata with artist := he } }
  case artistUnicode => exact { hm with metadata := { hm.metadata with artistUnicode := he } }
  case creator => exact { hm with metadata := { hm.metadata with creator := he } }
  case version => exact { hm with metadata := { hm.metadata with version := he } }
  case source => exact { hm with metadata := { hm.metadata with source := he } }
  case tags => exact { hm with metadata := { hm.metadata with tags := he } }
  case beatmapId => exact { hm with metadata := { hm.metadata with beatmapId := he.2 } }
  case beatmapSetId => exact { hm with metadata := { hm.metadata with beatmapSetId := he.2 } }
  case audioFile => exact { hm with general := { hm.general with audioFile := he } }
  case backgroundFile => exact { hm with events := { hm.events with background := he } }
  case previewTime => exact { hm with general := { hm.general with previewTime := he } }
  case countdownOffset => exact { hm with general := { hm.general with countdownOffset := he.2 } }
  case beatDivisor => exact { hm with editor := { hm.editor with beatDivisor := he } }
  case gridSize => exact { hm with editor := { hm.editor with gridSize := he } }
  case audioLeadIn n => exact { hm with general := { hm.general with audioLeadIn := ⟨n, he.1, he.2, rfl⟩ } }
  case distanceSpacing => exact { hm with editor := { hm.editor with distanceSpacing := ⟨hc, he⟩ } }
  case timelineZoom => exact { hm with editor := { hm.editor with timelineZoom := ⟨hc, he⟩ } }
  case sliderMultiplier => exact { hm with difficulty := { hm.difficulty with sm := ⟨hc, he.1⟩, smIn := he.2 } }
  case sliderTickRate => exact { hm with difficulty := { hm.difficulty with tr := ⟨hc, he.1⟩, trIn := he.2 } }
  case stackLeniency => exact { hm with general := { hm.general with stackLeniency := ⟨hc, he⟩ } }
  case hpDrainRate => exact { hm with difficulty := { hm.difficulty with hp := ⟨hc, he⟩ } }
  case circleSize => exact { hm with difficulty := { hm.difficulty with cs := ⟨hc, he⟩ } }
  case overallDifficulty => exact { hm with difficulty := { hm.difficulty with od := ⟨hc, he⟩ } }
  case approachRate => exact { hm with difficulty := { hm.difficulty with ar := ⟨hc, he⟩ } }
  case letterboxInBreaks => exact { hm with general := { hm.general with } }
  case widescreenStoryboard => exact { hm with general := { hm.general with } }
  case epilepsyWarning => exact { hm with general := { hm.general with } }
  case samplesMatchPlaybackRate => exact { hm with general := { hm.general with } }
  case specialStyle => exact { hm with general := { hm.general with } }
  case mode => exact { hm with general := { hm.general with } }
  case countdown => exact { hm with general := { hm.general with } }
  case bookmarks => exact { hm with editor := { hm.editor with bookmarks := he } }
  case breaks =>
    exact { hm with events := { hm.events with
      breaks := fun b hb => ⟨⟨(hc b hb).1, (he b hb).1⟩, ⟨(hc b hb).2, (he b hb).2.1⟩, (he b hb).2.2⟩ } }
  case comboColors => exact { hm with colors := { hm.colors with combos := fun c hcm => (he c hcm).1 } }
  case customColor name c =>
    exact { hm with colors := { hm.colors with
      customs := setCustomColor_keeps_customs name c _ hm.colors.customs he.1
      distinct := setCustomColor_keeps_nodup name c _ hm.colors.distinct } }

/-- … and keeps every alpha at 255 (so the preserved view of the colours is the colours themselves). -/
theorem edit_keeps_opaque (m : Beatmap F P) (e : Edit F P) (hm : ColorsOpaque m.colors) (he : e.Representable) :
    ColorsOpaque (applyEdit e m).colors := by
  cases e <;> simp only [Edit.Representable] at he <;> simp only [applyEdit]
  case comboColors => exact ⟨fun c hc => (he c hc).2, hm.2⟩
  case customColor name c => exact ⟨hm.1, setCustomColor_keeps_alpha name c _ hm.2 he.2⟩
  all_goals exact hm

/-- a sequence of representable edits. -/
theorem edits_keep_rep (es : List (Edit F P)) (m : Beatmap F P) (hm : RepRecords RF RP m)
    (hes : ∀ e ∈ es, e.Representable ∧ e.CodecRep RF RP) : RepRecords RF RP (applyEdits es m) := by
  induction es generalizing m with
  | nil => exact hm
  | cons e es ih =>
    rw [applyEdits_cons]
    exact ih _ (edit_keeps_rep m e hm (hes e List.mem_cons_self).1 (hes e List.mem_cons_self).2)
      (fun e' he' => hes e' (List.mem_cons_of_mem _ he'))

theorem edits_keep_opaque (es : List (Edit F P)) (m : Beatmap F P) (hm : ColorsOpaque m.colors)
    (hes : ∀ e ∈ es, e.Representable) : ColorsOpaque (applyEdits es m).colors := by
  induction es generalizing m with
  | nil => exact hm
  | cons e es ih =>
    rw [applyEdits_cons]
    exact ih _ (edit_keeps_opaque m e hm (hes e List.mem_cons_self)) (fun e' he' => hes e' (List.mem_cons_of_mem _ he'))

/-! ### what the preserved record view of the edited map shows -/

theorem map_opaq_of_alpha (l : List Color) (h : ∀ c ∈ l, c.a = 255) : l.map RtColours.opaq = l := by
  induction l with
  | nil => rfl
  | cons c l ih =>
    obtain ⟨r, g, b, a⟩ := c
    have ha : a = 255 := h _ List.mem_cons_self
    subst ha
    rw [List.map_cons, ih (fun c hc => h c (List.mem_cons_of_mem _ hc))]
    rfl

theorem map_opaqueCustom_of_alpha (l : List CustomColor) (h : ∀ x ∈ l, x.color.a = 255) :
    l.map RtColours.opaqueCustom = l := by
  induction l with
  | nil => rfl
  | cons x l ih =>
    obtain ⟨n, r, g, b, a⟩ := x
    have ha : a = 255 := h _ List.mem_cons_self
    subst ha
    rw [List.map_cons, ih (fun c hc => h c (List.mem_cons_of_mem _ hc))]
    rfl

/-- **edit_shows_value** — the record view the format preserves of the edited map (`RtFile.preservedRecords`, what a
re-decode shows by `edit_survives_records`) has exactly the edited value in the edited field. -/
theorem edit_shows_value (m : Beatmap F P) (e : Edit F P) (he : e.Representable) (hm : ColorsOpaque m.colors) :
    e.field.get (preservedRecords (applyEdit e m)) = e.shown m := by
  cases e <;> simp only [Edit.Representable] at he
  case beatmapId n =>
    show FieldVal.int (if n > 0 then n else -1) = FieldVal.int n
    rw [if_pos he.1]
  case beatmapSetId n =>
    show FieldVal.int (if n > 0 then n else 0) = FieldVal.int n
    rw [if_pos he.1]
  case countdownOffset n =>
    show FieldVal.int (if n > 0 then n else 0) = FieldVal.int n
    rw [if_pos he.1]
  case comboColors l =>
    show FieldVal.colours (l.map RtColours.opaq) = FieldVal.colours l
    rw [map_opaq_of_alpha l (fun c hc => (he c hc).2)]
  case customColor name c =>
    show FieldVal.customs ((setCustomColor name c m.colors.customColors).map RtColours.opaqueCustom) = _
    rw [map_opaqueCustom_of_alpha _ (setCustomColor_keeps_alpha name c _ hm.2 he.2)]
    rfl
  all_goals rfl

/-- **edit_leaves_field** — for EVERY edit (representable or not) and every record field it does not touch, the preserved
record view of the edited map shows what the preserved view of the unedited map shows. No law, no hypothesis. -/
theorem edit_leaves_field (m : Beatmap F P) (e : Edit F P) (f : Field) (h : e.touches f = false) :
    f.get (preservedRecords (applyEdit e m)) = f.get (preservedRecords m) := by
  cases e <;> cases f <;> first | rfl | cases h

/-- the same for a sequence of edits none of which touches the field. -/
theorem edits_leave_field (es : List (Edit F P)) (m : Beatmap F P) (f : Field) (h : ∀ e ∈ es, e.touches f = false) :
    f.get (preservedRecords (applyEdits es m)) = f.get (preservedRecords m) := by
  induction es generalizing m with
  | nil => rfl
  | cons e es ih =>
    rw [applyEdits_cons, ih _ (fun e' he' => h e' (List.mem_cons_of_mem _ he')), edit_leaves_field m e f (h e List.mem_cons_self)]

/-- **edits_show_value** — in a sequence of representable edits `pre ++ e :: post` where no later edit touches the field
of `e`, the preserved view of the final map shows the value of `e` in that field. -/
theorem edits_show_value (pre post : List (Edit F P)) (e : Edit F P) (m : Beatmap F P) (hm : ColorsOpaque m.colors)
    (hpre : ∀ e' ∈ pre, e'.Representable) (he : e.Representable) (hpost : ∀ e' ∈ post, e'.touches e.field = false) :
    e.field.get (preservedRecords (applyEdits (pre ++ e :: post) m)) = e.shown (applyEdits pre m) := by
  rw [applyEdits_append, applyEdits_cons, edits_leave_field post _ _ hpost,
    edit_shows_value _ e he (edits_keep_opaque pre m hm hpre)]

/-! ### which edits are frame edits -/

/-- the edits whose frame extends to hit objects and control points: all but mode, slider multiplier, tick rate, breaks. -/
def Edit.IsFrame : Edit F P → Bool
  | .mode _ | .sliderMultiplier _ | .sliderTickRate _ | .breaks _ => false
  | _ => true

variable [Cvt P F] [Trig F] [Trig P]

theorem frameEdit_applyEdit (m : Beatmap F P) (e : Edit F P) (h : e.IsFrame = true) : FrameEdit m (applyEdit e m) := by
  cases e <;> first | exact ⟨⟨rfl, rfl, rfl, rfl, rfl, rfl⟩, rfl⟩ | cases h

theorem frameEdit_refl (m : Beatmap F P) : FrameEdit m m := ⟨⟨rfl, rfl, rfl, rfl, rfl, rfl⟩, rfl⟩

theorem frameEdit_applyEdits (es : List (Edit F P)) (m : Beatmap F P) (h : ∀ e ∈ es, e.IsFrame = true) :
    FrameEdit m (applyEdits es m) := by
  induction es generalizing m with
  | nil => exact frameEdit_refl m
  | cons e es ih =>
    rw [applyEdits_cons]
    exact (frameEdit_applyEdit m e (h e List.mem_cons_self)).trans (ih _ (fun e' he' => h e' (List.mem_cons_of_mem _ he')))

end

/-! ### the type is the driver's: `Model/Cmds/Whole.lean: applyEdit` on a few request strings -/

example (m : Beatmap Float Float32) (v : String) :
    WholeCmd.applyEdit m "title" v = some (applyEdit (.title (WholeCmd.strOfHex v)) m) := rfl
example (m : Beatmap Float Float32) (v : String) :
    WholeCmd.applyEdit m "background_file" v = some (applyEdit (.backgroundFile (WholeCmd.strOfHex v)) m) := rfl
example (m : Beatmap Float Float32) (v : String) :
    WholeCmd.applyEdit m "combo_colors" v = some (applyEdit (.comboColors (WholeCmd.parseColors4 v)) m) := rfl
example (m : Beatmap Float Float32) (v : String) :
    WholeCmd.applyEdit m "slider_multiplier" v = some (applyEdit (.sliderMultiplier (WholeCmd.f64OfHex v)) m) := rfl

example (m : Beatmap Float Float32) (v : String) :
    WholeCmd.applyEdit m "beatmap_id" v = v.toInt?.map fun n => applyEdit (.beatmapId n) m := rfl
example (m : Beatmap Float Float32) (v : String) :
    WholeCmd.applyEdit m "epilepsy_warning" v = some (applyEdit (.epilepsyWarning (v == "1")) m) := rfl
example (m : Beatmap Float Float32) (v : String) :
    WholeCmd.applyEdit m "mode" v = v.toNat?.map fun n => applyEdit (.mode (GameMode.ofIdx n)) m := rfl
example (m : Beatmap Float Float32) (v : String) :
    WholeCmd.applyEdit m "bookmarks" v = some (applyEdit (.bookmarks (WholeCmd.parseBookmarks v)) m) := rfl
example (m : Beatmap Float Float32) (v : String) :
    WholeCmd.applyEdit m "breaks" v = some (applyEdit (.breaks (WholeCmd.parseBreaks v)) m) := rfl
example (m : Beatmap Float Float32) (v : String) :
    WholeCmd.applyEdit m "hp_drain_rate" v = some (applyEdit (.hpDrainRate (WholeCmd.f32OfHex v)) m) := rfl

/-! ### examples (toy scalar): `Representable` evaluates -/

example : (Edit.title (str "Re:Zero // [General] x:y") : Edit ZC ZC).Representable := by decide
example : ¬ (Edit.title (str " padded") : Edit ZC ZC).Representable := by decide
example : ¬ (Edit.audioFile (str "a//b.mp3") : Edit ZC ZC).Representable := by decide
example : (Edit.backgroundFile (str "dir/bg 2.png") : Edit ZC ZC).Representable := by decide
example : ¬ (Edit.backgroundFile (str "a,b.png") : Edit ZC ZC).Representable := by decide
example : (Edit.breaks [⟨⟨100⟩, ⟨100⟩⟩, ⟨⟨200⟩, ⟨900⟩⟩] : Edit ZC ZC).Representable := by decide
example : ¬ (Edit.breaks [⟨⟨200⟩, ⟨100⟩⟩] : Edit ZC ZC).Representable := by decide
example : (Edit.comboColors [⟨1, 2, 3, 255⟩, ⟨255, 0, 128, 255⟩] : Edit ZC ZC).Representable := by decide
example : ¬ (Edit.comboColors [⟨1, 2, 3, 7⟩] : Edit ZC ZC).Representable := by decide
example : ¬ (Edit.customColor (str "a:b") ⟨1, 2, 3, 255⟩ : Edit ZC ZC).Representable := by decide
example : ¬ (Edit.beatmapId 0 : Edit ZC ZC).Representable := by decide

end Rosu.C03
