/-
  Props/C04DecodedObjectsIeee.lean — Props/C04DecodedObjects.lean on the driver's IEEE instances `F = Float`, `P = Float32`
  (representable = not NaN, as in Props/C04DecodedIeee.lean).

  * `objLaws_ieee : ObjLaws Float Float32 IeeeRep64 IeeeRep32` — every codec-side law about object numbers is a THEOREM of
    the IEEE instances (`trunc` from `C14.position_truncated_float32`; the constants by kernel evaluation). Hence
    `decoded_circles_representable_ieee`: every circle of every decoded map is `RepCircle` as soon as its custom sample file
    name is end-trimmed (F21) and `|`-free — no law hypothesis left.
  * `durLaws_float_false : ¬ DurLaws Float IeeeRep64` — the arithmetic laws for spinner / hold end times do NOT hold of IEEE
    doubles as stated: a spinner line at time `0` with end time `-0` stores the duration `-0.0`, and
    `max((0 + -0.0) − 0, 0) = +0.0 ≠ -0.0` (signed zero only; the same `+0`/`−0` phenomenon as `IeeeFalse.epsLaws_float_false`).
    A random search over 2·10⁵ in-limit pairs found no other violation of the four clauses (in particular the written end time
    never left the parse limit), so for IEEE `RepSpinner.duration` / `RepHold.duration` are open up to the sign of a zero
    duration; spinners and holds stay law-dependent. `CtrlLaws` (slider control points) is not instantiated for IEEE here.
-/
import RosuModel.Props.C04DecodedObjects
import RosuModel.Props.C04DecodedIeee
set_option linter.unusedSectionVars false
namespace Rosu.C04
open Rosu Scalar RtObjects SliderRt DecodedObj EncodeLines Encode

theorem objLaws_ieee : ObjLaws Float Float32 IeeeRep64 IeeeRep32 where
  time := limitRep_float
  coordF := fun _ h => h.2.2
  zeroF := ⟨by decide +kernel, by decide +kernel⟩
  trunc := fun xv h => by
    obtain ⟨_, _, h4, _, h6, _⟩ := C14.position_truncated_float32 xv h
    exact ⟨h4.2.2, h4, h6⟩
  spinnerX := ⟨by decide +kernel, by decide +kernel, by decide +kernel⟩
  spinnerY := ⟨by decide +kernel, by decide +kernel, by decide +kernel⟩
  holdY := ⟨by decide +kernel, by decide +kernel, by decide +kernel⟩

section
variable [Trig Float] [Trig Float32]

/-- **circles of decoded maps, IEEE instance: no law hypothesis** — only the file-name residual (F21, `|`). -/
theorem decoded_circles_representable_ieee (bs : List UInt8) (st : BeatmapState Float Float32) (m : Beatmap Float Float32)
    (h1 : decodeBytes beatmapDecoder bs = .ok st) (h2 : st.finish = .ok m) (mode : GameMode) :
    ∀ h ∈ m.hitObjects, ∀ c, h.kind = .circle c → FileNameResidual h.samples → RepCircle IeeeRep64 IeeeRep32 mode h c :=
  decoded_circles_representable objLaws_ieee bs st m h1 h2 mode

/-- spinners and holds of decoded maps, IEEE instance: the only law left is `DurLaws Float IeeeRep64` — which is false
as stated (`durLaws_float_false`), so these stay conditional. -/
theorem decoded_spinners_representable_ieee (D : DurLaws Float IeeeRep64) (bs : List UInt8)
    (st : BeatmapState Float Float32) (m : Beatmap Float Float32)
    (h1 : decodeBytes beatmapDecoder bs = .ok st) (h2 : st.finish = .ok m) (mode : GameMode) :
    ∀ h ∈ m.hitObjects, ∀ sp, h.kind = .spinner sp → FileNameResidual h.samples →
      RepSpinner IeeeRep64 IeeeRep32 mode h sp :=
  decoded_spinners_representable objLaws_ieee D bs st m h1 h2 mode

end

/-- **the duration law fails on IEEE doubles** (signed zero): start `+0`, end `−0`. -/
theorem durLaws_float_false : ¬ DurLaws Float IeeeRep64 := by
  intro D
  have h := D.spinnerBack (0 : Float) (-0 : Float) (inLimit_of_check (by decide +kernel)) (inLimit_of_check (by decide +kernel))
  revert h
  decide +kernel

end Rosu.C04
