/-
  Props/C14IeeePos.lean — the numeric clauses of C14 ("positions are truncated to integers within ±131072 … spinner and
  hold durations are never negative … an absent, zero or negative length means natural length") as theorems about the
  driver's IEEE instances `F = Float` (f64), `P = Float32` (f32), for single lines and for every decoded map.

  1. generic (every `Scalar`): `StoredKind` / `StoredObj` — what `parse_hit_objects` stores numerically: coordinates
     `x as i32 as f32` of a parsed `f32` within the coordinate limit (`CoordP`), control points `Pos.zero` or
     `(x as i32 as f32, y as i32 as f32) − head` of parsed `f64`s within the limit (`CtrlPos`; positions are written by
     `read_point` and never modified: `convertPathStr_posAll`), spinner duration `max(end − start, 0)`, hold duration
     `max(start, end) − start` with parsed times, slider length `ExpStored`. `parseHitObjectLine_push` (one line, any
     state with an empty path scratch), `storedState_decoded` (the decoder state of every byte string),
     `decoded_stored` (through sorting, break processing and the finaliser, `C15.finalize_perm`).
  2. IEEE: `position_truncated_float32` (from `FTR.trunc_coord32`, Lemmas/FloatTrunc.lean): the stored coordinate is an
     exact integer within ±131072, a fixed point of `as i32 as f32`, `|stored| ≤ |x| < |z| + 1`, sign kept;
     `ctrlPos_int`: control-point offsets are exact integers within ±262144 (`FTR.sub_int_exact_float32`);
     `hold_duration_nonneg_float` (`sub_nonneg_float`: `a − b ≥ +0` for finite `b ≤ a`), spinner durations by
     `max_zero_ge_float` (Props/C14Ieee.lean); `expStored_pos_float`: a stored length is `≥ f64::EPSILON > 0`.
  3. `line_numeric_ieee` (one accepted line), `decoded_state_numeric_ieee`, `decoded_numeric_ieee` and the corollaries
     `decoded_position_integer_float32`, `decoded_control_points_integer_float32`, `decoded_duration_nonneg_float`,
     `decoded_length_positive_float` (every byte string); non-vacuity on closed lines / files by `decide +kernel`.
-/
import RosuModel.Props.C14Ieee
import RosuModel.Props.C14Split
import RosuModel.Lemmas.FloatTrunc
import RosuModel.Lemmas.DecodedSliders
import RosuModel.Lemmas.FloatArithMono
import RosuModel.Lemmas.FloatBitsLaws
import RosuModel.Model.Cmds.Curve
namespace Rosu.C14
open Rosu Scalar RtObjects DecodedSliders
set_option linter.unusedSectionVars false

/-! ## 1. what a line stores (every `Scalar`) -/

section Generic
variable {F P : Type} [Scalar F] [Scalar P] [Cvt P F]

/-- a stored coordinate: `x as i32 as f32` of a parsed `f32` within the coordinate limit. -/
def CoordP (p : P) : Prop := ∃ xv : P, InCoord xv ∧ p = Scalar.ofInt (Scalar.toI32 xv)

/-- a stored control-point position, relative to the slider's head `start`: the origin, or
`(x as i32 as f32, y as i32 as f32) − start` for parsed `f64`s within the coordinate limit. -/
def CtrlPos (F : Type) [Scalar F] (start p : Pos P) : Prop :=
  p = Pos.zero ∨ ∃ x y : F, InCoord x ∧ InCoord y ∧
    p = (⟨Scalar.ofInt (Scalar.toI32 x), Scalar.ofInt (Scalar.toI32 y)⟩ : Pos P) - start

/-- the numeric content of a parsed object of start time `t`. -/
def StoredKind (t : F) : HitObjectKind F P → Prop
  | .circle c => CoordP c.pos.x ∧ CoordP c.pos.y
  | .slider s => CoordP s.pos.x ∧ CoordP s.pos.y ∧ ExpStored s.path.expectedDist ∧
      ∀ cp ∈ s.path.controlPoints, CtrlPos F s.pos cp.pos
  | .spinner s => s.pos = ⟨(512 : P) / 2, (384 : P) / 2⟩ ∧ ∃ d : F, InLimit d ∧ s.duration = Scalar.max (d - t) 0
  | .hold h => CoordP h.posX ∧ ∃ e : F, InLimit e ∧ h.duration = Scalar.max t e - t

def StoredObj (o : HitObject F P) : Prop := InLimit o.startTime ∧ StoredKind o.startTime o.kind

theorem parseWithLimits_inCoord {α : Type} [Scalar α] {s : Str} {x : α}
    (h : floatParseWithLimits s (Scalar.ofInt maxCoordinate) = some x) : InCoord x := by
  unfold floatParseWithLimits at h
  split at h
  · cases h
  · split at h
    · cases h
    · split at h
      · cases h
      · split at h
        · cases h
        · rename_i h1 h2 h3
          injection h with h; subst h
          exact ⟨by simpa using h1, by simpa using h2, by simpa using h3⟩

/-- the header: both coordinates are stored coordinates, the start time passed `parse`. -/
theorem header_stored (line : Str) (hd : Header F P) (h : parseHeader line = some hd) :
    CoordP hd.pos.x ∧ CoordP hd.pos.y ∧ InLimit hd.startTime := by
  unfold parseHeader at h
  split at h
  · split at h
    · cases h
    · rename_i xv hx
      split at h
      · cases h
      · rename_i yv hy
        split at h
        · cases h
        · rename_i t ht
          split at h
          · cases h
          · split at h
            · cases h
            · cases h
              exact ⟨⟨xv, parseWithLimits_inCoord hx, rfl⟩, ⟨yv, parseWithLimits_inCoord hy, rfl⟩,
                DecodedInv.floatParse_inLimit ht⟩
  · cases h

/-! ### control points: positions are written once (`read_point`) and never modified -/

def PosAll (Q : Pos P → Prop) (l : List (PathControlPoint P)) : Prop := ∀ v ∈ l, Q v.pos

theorem posAll_nil (Q : Pos P → Prop) : PosAll Q [] := fun _ h => absurd h List.not_mem_nil

theorem posAll_append {Q : Pos P → Prop} {a b : List (PathControlPoint P)} (ha : PosAll Q a) (hb : PosAll Q b) :
    PosAll Q (a ++ b) := by
  intro v hv
  rcases List.mem_append.mp hv with h | h
  · exact ha v h
  · exact hb v h

theorem posAll_slice {Q : Pos P → Prop} {l : List (PathControlPoint P)} (h : PosAll Q l) (s n : Nat) :
    PosAll Q ((l.drop s).take n) :=
  fun v hv => h v (List.mem_of_mem_drop (List.mem_of_mem_take hv))

theorem readPoint_pos (value : Str) (start : Pos P) (v : PathControlPoint P)
    (h : readPoint (F := F) value start = some v) : CtrlPos F start v.pos := by
  unfold readPoint at h
  split at h
  · split at h
    · cases h
    · rename_i x hx
      split at h
      · cases h
      · rename_i y hy
        cases h
        exact Or.inr ⟨x, y, parseWithLimits_inCoord hx, parseWithLimits_inCoord hy, rfl⟩
  · cases h

theorem readPoints_posAll (offset : Pos P) (ps : List Str) (vs : List (PathControlPoint P))
    (h : readPoints F offset ps = some vs) : PosAll (CtrlPos F offset) vs := by
  induction ps generalizing vs with
  | nil => simp only [readPoints] at h; cases h; exact posAll_nil _
  | cons p ps ih =>
    simp only [readPoints] at h
    split at h
    · cases h
    · rename_i v hv
      split at h
      · cases h
      · rename_i vs' hvs
        cases h
        intro w hw
        rcases List.mem_cons.mp hw with rfl | hw
        · exact readPoint_pos p offset _ hv
        · exact ih vs' hvs w hw

theorem setPathTypeAt_posAll {Q : Pos P → Prop} (vs : List (PathControlPoint P)) (i : Nat) (t : PathType)
    (h : PosAll Q vs) : PosAll Q (setPathTypeAt vs i t) := by
  unfold setPathTypeAt
  induction vs generalizing i with
  | nil => simpa using h
  | cons a rest ih =>
    cases i with
    | zero =>
      intro v hv
      simp only [List.modify_zero_cons, List.mem_cons] at hv
      rcases hv with rfl | hv
      · exact h a List.mem_cons_self
      · exact h v (List.mem_cons_of_mem _ hv)
    | succ i =>
      intro v hv
      simp only [List.modify_succ_cons, List.mem_cons] at hv
      rcases hv with rfl | hv
      · exact h _ List.mem_cons_self
      · exact ih i (fun w hw => h w (List.mem_cons_of_mem _ hw)) v hv

theorem splitLoop_posAll {Q : Pos P → Prop} (pt : PathType) (limit fuel : Nat) (vs cps : List (PathControlPoint P))
    (s e : Nat) (hv : PosAll Q vs) (hc : PosAll Q cps) :
    PosAll Q (splitLoop pt limit fuel vs cps s e).1 ∧ PosAll Q (splitLoop pt limit fuel vs cps s e).2.1 := by
  induction fuel generalizing vs cps s e with
  | zero => exact ⟨hv, hc⟩
  | succ fuel ih =>
    simp only [splitLoop]
    split
    · exact ⟨hv, hc⟩
    · split
      · split
        · exact ih vs cps s (e + 1) hv hc
        · split
          · exact ih vs cps s (e + 1) hv hc
          · split
            · exact ih vs cps s (e + 1) hv hc
            · have hv' := setPathTypeAt_posAll vs (e + 1 - 1) pt hv
              exact ih _ _ _ _ hv' (posAll_append hc (posAll_slice hv' _ _))
      · exact ⟨hv, hc⟩


theorem readEnd_posAll (endPoint : Option Str) (offset : Pos P) (ev : List (PathControlPoint P))
    (h : readEnd F endPoint offset = some ev) : PosAll (CtrlPos F offset) ev := by
  unfold readEnd at h
  cases endPoint with
  | none => cases h; exact posAll_nil _
  | some e =>
    simp only at h
    cases hr : readPoint (F := F) e offset with
    | none => rw [hr] at h; cases h
    | some v =>
      rw [hr] at h; cases h
      intro w hw
      simp only [List.mem_singleton] at hw
      subst hw
      exact readPoint_pos e offset _ hr

theorem convertPoints_posAll (st : PathScratch P) (points : List Str) (endPoint : Option Str) (first : Bool)
    (offset : Pos P) (h : PosAll (CtrlPos F offset) st.curvePoints) :
    PosAll (CtrlPos F offset) (convertPoints F st points endPoint first offset).1.curvePoints := by
  cases points with
  | nil => exact h
  | cons head tail =>
    cases hown : readPoints F offset tail with
    | none =>
      have : (convertPoints F st (head :: tail) endPoint first offset).1.curvePoints = st.curvePoints := by
        unfold convertPoints; simp only [hown]
      rw [this]; exact h
    | some own =>
      cases hev : readEnd F endPoint offset with
      | none =>
        have : (convertPoints F st (head :: tail) endPoint first offset).1.curvePoints = st.curvePoints := by
          unfold readEnd at hev
          cases endPoint with
          | none => cases hev
          | some e =>
            cases hr : readPoint (F := F) e offset with
            | none => unfold convertPoints; simp only [hown, hr, Option.map_none]
            | some v => simp [hr] at hev
        rw [this]; exact h
      | some ev =>
        rw [convertPoints_unfold st head tail endPoint first offset own ev hown hev]
        have hseg : PosAll (CtrlPos F offset) (segVertices first own ev) := by
          unfold segVertices
          refine posAll_append (posAll_append ?_ (readPoints_posAll offset tail own hown)) (readEnd_posAll endPoint offset ev hev)
          cases first
          · exact posAll_nil _
          · intro w hw
            simp only [if_true, List.mem_singleton] at hw
            subst hw; exact Or.inl rfl
        generalize segVertices first own ev = R at hseg
        cases R with
        | nil => exact h
        | cons v0 vrest =>
          dsimp only
          have hvs : PosAll (CtrlPos F offset)
              ({ v0 with pathType := some (effectivePathType (PathType.newFromStr head) (v0 :: vrest)) } :: vrest) := by
            intro w hw
            rcases List.mem_cons.mp hw with rfl | hw
            · exact hseg v0 List.mem_cons_self
            · exact hseg w (List.mem_cons_of_mem _ hw)
          obtain ⟨r1, r2⟩ := splitLoop_posAll (effectivePathType (PathType.newFromStr head) (v0 :: vrest))
            (({ v0 with pathType := some (effectivePathType (PathType.newFromStr head) (v0 :: vrest)) } :: vrest).length - ev.length)
            (({ v0 with pathType := some (effectivePathType (PathType.newFromStr head) (v0 :: vrest)) } :: vrest).length + 1)
            _ st.curvePoints 0 0 hvs h
          unfold flush
          split
          · exact posAll_append r2 (posAll_slice r1 _ _)
          · exact r2

theorem pathLoop_posAll (pieces : List Str) (offset : Pos P) (fuel : Nat) (st : PathScratch P) (s e : Nat) (first : Bool)
    (h : PosAll (CtrlPos F offset) st.curvePoints) :
    PosAll (CtrlPos F offset) (pathLoop F pieces offset fuel st s e first).1.curvePoints := by
  induction fuel generalizing st s e first with
  | zero => exact h
  | succ fuel ih =>
    simp only [pathLoop]
    split
    · exact h
    · split
      · exact h
      · split
        · exact h
        · exact ih st s (e + 1) first h
        · have hc := convertPoints_posAll (F := F) st ((pieces.drop s).take (e + 1 - s)) pieces[e + 1 + 1]? first offset h
          split
          · rename_i st' heq; rw [heq] at hc; exact hc
          · rename_i st' heq; rw [heq] at hc; exact ih st' (e + 1) (e + 1) false hc

theorem convertPathStr_posAll (st : PathScratch P) (pointStr : Str) (offset : Pos P)
    (h : PosAll (CtrlPos F offset) st.curvePoints) :
    PosAll (CtrlPos F offset) (convertPathStr F st pointStr offset).1.curvePoints := by
  have hseg : PosAll (CtrlPos F offset) (convertSegments F st pointStr offset).1.curvePoints := by
    unfold convertSegments
    simp only []
    have hl := pathLoop_posAll (F := F) (splitOn '|' pointStr) offset ((splitOn '|' pointStr).length + 1) st 0 0 true h
    split
    · rename_i st' _ _ _ heq; rw [heq] at hl; exact hl
    · rename_i st' s e first heq
      rw [heq] at hl
      split
      · exact convertPoints_posAll st' _ none first offset hl
      · exact hl
  unfold convertPathStr
  split
  · rename_i st' heq; rw [heq] at hseg; exact hseg
  · exact posAll_nil _



/-! ### the four arms -/

theorem buildCircle_stored (st : HOCore F P) (hd : Header F P) (k : HitObjectKind F P) (b : SampleBankInfo)
    (hx : CoordP hd.pos.x) (hy : CoordP hd.pos.y) (h : buildCircle st hd = some (k, b)) :
    StoredKind hd.startTime k := by
  rw [circle_fields st hd k b h]; exact ⟨hx, hy⟩

theorem buildSlider_stored (mode : GameMode) (st st' : HOCore F P) (hd : Header F P) (k : HitObjectKind F P)
    (b : SampleBankInfo) (hx : CoordP hd.pos.x) (hy : CoordP hd.pos.y) (hc : st.curvePoints = [])
    (h : buildSlider mode st hd = (st', some (k, b))) : StoredKind hd.startTime k := by
  unfold buildSlider at h
  split at h
  · cases h
  · rename_i pre hpre
    have hp := convertPathStr_posAll (F := F) st.scratch pre.pointStr hd.pos
      (by show PosAll _ st.curvePoints; rw [hc]; exact posAll_nil _)
    split at h
    · cases h
    · rename_i sc heq
      rw [heq] at hp
      cases h
      exact ⟨hx, hy, prelude_len_stored hd pre hpre, hp⟩

theorem buildSlider_scratch (mode : GameMode) (st : HOCore F P) (hd : Header F P) (hc : st.curvePoints = []) :
    (buildSlider mode st hd).1.curvePoints = [] := by
  unfold buildSlider
  split
  · exact hc
  · split
    · rename_i sc heq
      show sc.curvePoints = []
      unfold convertPathStr at heq
      split at heq
      · cases heq
      · cases heq; rfl
    · rfl

theorem buildSpinner_stored (hd : Header F P) (k : HitObjectKind F P) (b : SampleBankInfo)
    (h : buildSpinner hd = some (k, b)) : StoredKind hd.startTime k := by
  unfold buildSpinner at h
  split at h
  · split at h
    · cases h
    · rename_i d hd'
      split at h
      · cases h
      · cases h
        exact ⟨rfl, d, DecodedInv.floatParse_inLimit hd', rfl⟩
  · cases h

theorem buildHold_stored (hd : Header F P) (k : HitObjectKind F P) (b : SampleBankInfo)
    (hx : CoordP hd.pos.x) (ht : InLimit hd.startTime) (h : buildHold hd = some (k, b)) :
    StoredKind hd.startTime k := by
  unfold buildHold at h
  simp only [] at h
  split at h
  · cases h
  · rename_i endTime bankInfo hr
    cases h
    refine ⟨hx, ?_⟩
    split at hr
    · cases hr; exact ⟨hd.startTime, ht, rfl⟩
    · split at hr
      · cases hr
      · split at hr
        · cases hr
        · rename_i newEnd hne
          split at hr
          · cases hr
          · cases hr; exact ⟨newEnd, DecodedInv.floatParse_inLimit hne, rfl⟩

/-- every object of the list has the stored numeric form. -/
def StoredAll (hs : List (HitObject F P)) : Prop := ∀ o ∈ hs, StoredObj o

theorem storedAll_snoc (hs : List (HitObject F P)) (o : HitObject F P) (h : StoredAll hs) (ho : StoredObj o) :
    StoredAll (hs ++ [o]) := by
  intro x hx
  rcases List.mem_append.mp hx with hx | hx
  · exact h x hx
  · simp only [List.mem_singleton] at hx; subst hx; exact ho

/-- **one `[HitObjects]` line**, accepted or not, from a state with an empty `curve_points` scratch: the scratch is
empty again, and the object list is unchanged or extended by one object of the stored numeric form. -/
theorem parseHitObjectLine_push (mode : GameMode) (st : HOCore F P) (line : Str) (hc : st.curvePoints = []) :
    (parseHitObjectLine mode st line).1.curvePoints = [] ∧
    ((parseHitObjectLine mode st line).1.hitObjects = st.hitObjects ∨
      ∃ o, (parseHitObjectLine mode st line).1.hitObjects = st.hitObjects ++ [o] ∧ StoredObj o) := by
  unfold parseHitObjectLine
  split
  · exact ⟨hc, Or.inl rfl⟩
  · rename_i hd hhd
    obtain ⟨hx, hy, ht⟩ := header_stored line hd hhd
    split
    · exact ⟨hc, Or.inl rfl⟩
    · split
      · exact ⟨hc, Or.inl rfl⟩
      · rename_i k b hb
        exact ⟨hc, Or.inr ⟨_, rfl, ht, buildCircle_stored st hd k b hx hy hb⟩⟩
    · have hs := buildSlider_scratch mode st hd hc
      have hf := buildSlider_frame mode st hd
      split
      · rename_i st' heq
        rw [heq] at hs hf
        exact ⟨hs, Or.inl hf.1⟩
      · rename_i st' k b heq
        rw [heq] at hs hf
        refine ⟨hs, Or.inr ⟨{ startTime := hd.startTime, kind := k, samples := b.convertSoundType hd.soundType }, ?_,
          ht, buildSlider_stored mode st st' hd k b hx hy hc heq⟩⟩
        show st'.hitObjects ++ [_] = _
        simp only [] at hf
        rw [hf.1]
    · split
      · exact ⟨hc, Or.inl rfl⟩
      · rename_i k b hb
        exact ⟨hc, Or.inr ⟨_, rfl, ht, buildSpinner_stored hd k b hb⟩⟩
    · split
      · exact ⟨hc, Or.inl rfl⟩
      · rename_i k b hb
        exact ⟨hc, Or.inr ⟨_, rfl, ht, buildHold_stored hd k b hx ht hb⟩⟩

theorem parseHitObjectLine_stored (mode : GameMode) (st : HOCore F P) (line : Str)
    (hc : st.curvePoints = []) (hinv : StoredAll st.hitObjects) :
    (parseHitObjectLine mode st line).1.curvePoints = [] ∧ StoredAll (parseHitObjectLine mode st line).1.hitObjects := by
  obtain ⟨h1, h2⟩ := parseHitObjectLine_push mode st line hc
  refine ⟨h1, ?_⟩
  rcases h2 with h | ⟨o, h, ho⟩
  · rw [h]; exact hinv
  · rw [h]; exact storedAll_snoc _ _ hinv ho

/-- an accepted line pushes exactly one object, and it has the stored numeric form. -/
theorem accepted_stored (mode : GameMode) (st : HOCore F P) (line : Str) (hc : st.curvePoints = [])
    (hok : (parseHitObjectLine mode st line).2 = true) :
    ∃ o, (parseHitObjectLine mode st line).1.hitObjects = st.hitObjects ++ [o] ∧ StoredObj o := by
  obtain ⟨_, o, _, hpush, _⟩ := accepted_pushes_one mode st line hok
  rcases (parseHitObjectLine_push mode st line hc).2 with h | h
  · rw [hpush] at h
    have := congrArg List.length h
    simp at this
  · exact h

/-! ### through the framing driver and the finaliser -/

/-- the decoder-state invariant: empty path scratch between lines, stored numeric form of every pushed object. -/
def StoredState (st : BeatmapState F P) : Prop :=
  st.hitObjects.core.curvePoints = [] ∧ StoredAll st.hitObjects.core.hitObjects

theorem storedState_create (v : Int) : StoredState (BeatmapState.create v : BeatmapState F P) :=
  ⟨rfl, fun _ h => absurd h List.not_mem_nil⟩

theorem hoStep_core (sec : Section) (st : HitObjectsState F P) (l : Str) :
    (st.step sec l).core = st.core ∨
      (st.step sec l).core = (parseHitObjectLine st.timingPoints.general.mode st.core l).1 := by
  cases sec <;> first | exact Or.inl rfl | exact Or.inr rfl

theorem storedState_step (sec : Section) (st : BeatmapState F P) (l : Str) (h : StoredState st) :
    StoredState (BeatmapState.step sec st l) := by
  unfold StoredState at h ⊢
  have key : (st.hitObjects.step sec l).core.curvePoints = [] ∧ StoredAll (st.hitObjects.step sec l).core.hitObjects := by
    rcases hoStep_core sec st.hitObjects l with e | e
    · rw [e]; exact h
    · rw [e]; exact parseHitObjectLine_stored _ _ _ h.1 h.2
  cases sec <;> first | exact key | exact h

/-- every decoded byte string leaves the decoder with objects of the stored numeric form only. -/
theorem storedState_decoded (bs : List UInt8) (st : BeatmapState F P)
    (h : decodeBytes beatmapDecoder bs = .ok st) : StoredState st := by
  obtain ⟨ls, rfl, _⟩ := DecodedInv.decodeBytes_lines _ bs st h
  exact DecodedInv.frame_invariant_lines (beatmapDecoder : LineDecoder (BeatmapState F P)) StoredState (fun _ => True)
    (fun v _ => storedState_create v) (fun s st l _ hst => storedState_step s st l hst) ls (fun _ _ => True.intro)

section Finish
variable [Trig F] [Trig P]

/-- map-level processing (sorting, break processing, the finaliser loop) keeps the stored numeric form: it changes
new-combo flags, slider velocity / node samples and sample defaults only. -/
theorem storedKind_sim (t : F) (k k' : HitObjectKind F P) (hs : C15.KindSim k k') (h : StoredKind t k) : StoredKind t k' := by
  cases k <;> cases k' <;> simp only [C15.KindSim] at hs
  · rename_i c c'; rw [hs.1]; exact h
  · rename_i s s'; rw [hs.1]; exact h
  · rename_i s s'; rw [hs.1]; exact h
  · rename_i a a'; rw [hs]; exact h

/-- **every hit object of a decoded map has the stored numeric form** — every byte string. -/
theorem decoded_stored (bs : List UInt8) (st : BeatmapState F P) (m : Beatmap F P)
    (h1 : decodeBytes beatmapDecoder bs = .ok st) (h2 : st.finish = .ok m) : StoredAll m.hitObjects := by
  intro o ho
  have hst := (storedState_decoded bs st h1).2
  unfold BeatmapState.finish at h2
  cases hho : st.hitObjects.finish with
  | error e => simp [hho, bind, Except.bind] at h2
  | ok hobj =>
    simp only [hho, bind, Except.bind, pure, Except.pure] at h2
    injection h2 with h2
    subst h2
    obtain ⟨hp, hpw⟩ := C15.finalize_perm st.hitObjects hobj hho
    obtain ⟨a, ha, htime, hsim, _⟩ := pointwise_mem hpw o ho
    obtain ⟨hta, hka⟩ := hst a (hp.mem_iff.mp ha)
    exact ⟨by rw [htime]; exact hta, by rw [htime]; exact storedKind_sim _ _ _ hsim hka⟩

end Finish

end Generic
end Rosu.C14

namespace Rosu.C14
open Rosu Scalar RtObjects DecodedSliders
open Float.Model Float.Model.UnpackedFloat

/-! ## 2. the IEEE instances `F = Float`, `P = Float32` -/

/-- an integer-valued `f32` within `±bound`: `z as f32` for an integer `z`, exact for `bound < 2^23`. -/
def IntF32 (bound : Int) (p : Float32) : Prop := ∃ z : Int, -bound ≤ z ∧ z ≤ bound ∧ p = Scalar.ofInt z

/-- **position_truncated, IEEE.** For an `f32` `x` that passed the parser's coordinate test, `z = x as i32` and the
stored coordinate `s = z as f32`: `|z| ≤ 131072`; `s` is exactly `z` (bit pattern `intBits fmt32 z`), not a NaN and
within the limit; `s as i32 = z`, so `s as i32 as f32 = s` (a stored position is a fixed point of the truncation);
`|s| ≤ |x| < |z| + 1` in the IEEE order (truncation toward zero loses less than one unit); the sign of `z` is the sign of `x`. -/
theorem position_truncated_float32 (x : Float32) (h : InCoord x) :
    let z : Int := Scalar.toI32 x
    let s : Float32 := Scalar.ofInt z
    (-131072 ≤ z ∧ z ≤ 131072) ∧ s.toBits.toNat = FCL.intBits fmt32 z ∧ InCoord s ∧
    Scalar.toI32 s = z ∧ Scalar.ofInt (Scalar.toI32 s) = s ∧
    Scalar.le (Scalar.abs s) (Scalar.abs x) = true ∧
    Scalar.lt (Scalar.abs x) (Scalar.ofInt ((z.natAbs : Int) + 1) : Float32) = true ∧
    (z < 0 → Scalar.lt x (0 : Float32) = true) ∧ (0 < z → Scalar.lt (0 : Float32) x = true) := by
  obtain ⟨h1, h2, h3, h4, h5, h6, h7, h8, h9⟩ := FTR.trunc_coord32 x h
  exact ⟨⟨h1, h2⟩, h3, h4, h5, by rw [h5], h6, h7, h8, h9⟩

/-- a stored coordinate is an integer-valued `f32` within ±131072, within the limit, and a fixed point of `as i32 as f32`. -/
theorem coordP_int (p : Float32) (h : CoordP p) :
    IntF32 131072 p ∧ InCoord p ∧ Scalar.ofInt (Scalar.toI32 p) = p := by
  obtain ⟨xv, hx, rfl⟩ := h
  obtain ⟨⟨h1, h2⟩, _, h4, h5, h6, _⟩ := position_truncated_float32 xv hx
  exact ⟨⟨_, h1, h2, rfl⟩, h4, h6⟩

theorem zero_eq_ofInt32 : (0 : Float32) = Scalar.ofInt 0 := rfl

/-- **slider control points are integers too**: the offset `(x as i32 as f32) − head` of two integers within ±131072 is
computed exactly in `f32` (`|a − b| ≤ 262144 < 2^23`). -/
theorem ctrlPos_int (start p : Pos Float32) (hsx : CoordP start.x) (hsy : CoordP start.y)
    (h : CtrlPos Float start p) : IntF32 262144 p.x ∧ IntF32 262144 p.y := by
  rcases h with rfl | ⟨x, y, hx, hy, rfl⟩
  · exact ⟨⟨0, by decide, by decide, zero_eq_ofInt32⟩, ⟨0, by decide, by decide, zero_eq_ofInt32⟩⟩
  · obtain ⟨⟨a, a1, a2, ha⟩, _⟩ := coordP_int _ hsx
    obtain ⟨⟨b, b1, b2, hb⟩, _⟩ := coordP_int _ hsy
    obtain ⟨x1, x2, _⟩ := FTR.trunc_coord64 x hx
    obtain ⟨y1, y2, _⟩ := FTR.trunc_coord64 y hy
    constructor
    · refine ⟨(Scalar.toI32 x : Int) - a, by omega, by omega, ?_⟩
      show (Scalar.ofInt (Scalar.toI32 x) : Float32) - start.x = _
      rw [ha]
      exact FTR.sub_int_exact_float32 _ _ (by omega) (by omega) (by omega)
    · refine ⟨(Scalar.toI32 y : Int) - b, by omega, by omega, ?_⟩
      show (Scalar.ofInt (Scalar.toI32 y) : Float32) - start.y = _
      rw [hb]
      exact FTR.sub_int_exact_float32 _ _ (by omega) (by omega) (by omega)

/-! ### durations and lengths are never negative, never NaN -/

theorem inLimit_finite (t : Float) (h : InLimit t) : t.toModel.unpack.isFinite = true :=
  FMO.finite_of_bounds_float (-(maxParseValue : Float)) (maxParseValue : Float) t (by decide +kernel) (by decide +kernel)
    h.2.2 h.1 h.2.1

theorem sub_not_nan_float (a b : Float) (ha : a.toModel.unpack.isFinite = true) (hb : b.toModel.unpack.isFinite = true) :
    Scalar.isNaN (a - b) = false := by
  show (FMR.repack Format.binary64 (UnpackedFloat.sub Format.binary64 a.toModel.unpack b.toModel.unpack)).isNaN = false
  rw [FAM.repack_isNaN _ (by decide) _ (FAM.sub_canon _ _ _ (FAM.float_canon a) (FAM.float_canon b))]
  exact FB.sub_finite_not_nan _ _ _ ha hb

/-- `a − b ≥ +0` for finite doubles with `b ≤ a` (the difference is rounded, never below zero, never a NaN). -/
theorem sub_nonneg_float (a b : Float) (ha : a.toModel.unpack.isFinite = true) (hb : b.toModel.unpack.isFinite = true)
    (hle : Scalar.le b a = true) : Scalar.le (0 : Float) (a - b) = true ∧ Scalar.isNaN (a - b) = false := by
  have hn := sub_not_nan_float a b ha hb
  refine ⟨?_, hn⟩
  by_cases hfz : FMO.isFiniteNonzero a.toModel.unpack = true
  · have h := FAM.sub_le_sub_left_float a b a hfz hle hn (sub_not_nan_float a a ha ha)
    rw [FMO.sub_self_float a ha, ← FX.zero_eq_pzero64] at h
    exact h
  · -- `a` is a zero: `b ≤ ±0`, so `±0 − b` is a zero or `|b|`
    rw [FB.le_zero_float, FAM.float_sub_unpack]
    apply FB.repack_nn _ (by decide)
    rw [FMO.le_float] at hle
    revert hfz ha hle hb
    generalize a.toModel.unpack = u
    generalize b.toModel.unpack = v
    intro ha hb hle hfz
    rcases u with s | _ | s | ⟨s, m, e, hm⟩
    · cases ha
    · cases ha
    · rcases v with s' | _ | s' | ⟨s', m', e', hm'⟩
      · cases hb
      · cases hb
      · simp only [UnpackedFloat.sub]; split <;> exact FB.nn_zero _
      · cases s'
        · exact FB.nn_fin _ _ _
        · cases s <;> cases hle
    · exact absurd rfl hfz

/-- **hold duration** `max(start, end) − start` for parsed times: `≥ 0`, not a NaN. -/
theorem hold_duration_nonneg_float (t e : Float) (ht : InLimit t) (he : InLimit e) :
    Scalar.le (0 : Float) (Scalar.max t e - t) = true ∧ Scalar.isNaN (Scalar.max t e - t) = false := by
  have hft := inLimit_finite t ht
  have hfe := inLimit_finite e he
  have hfm : (Scalar.max t e).toModel.unpack.isFinite = true := by
    rcases FMO.max_cases t e with h | h <;> rw [h] <;> assumption
  exact sub_nonneg_float _ _ hfm hft (FMO.le_max_left t e ht.2.2 he.2.2)

theorem up_abs64 (x : Float) : (Scalar.abs x : Float).toModel.unpack = x.toModel.unpack.abs := by
  show FMR.repack Format.binary64 x.toModel.unpack.abs = _
  rcases FMR.repack_canon Format.binary64 (by decide) _ (FTR.canon_abs _ _ (FAM.float_canon x)) with h | ⟨s, m, e, hm, _, hnr, _⟩
  · exact h
  · exact absurd (FTR.inRange_abs _ _ (FMR.unpack_inRange Format.binary64 (by decide) x.toModel.toBits.toBitVec)) hnr

/-- **slider length**: a stored expected distance is at least `f64::EPSILON` (so `> 0`) and not a NaN: zero, negative
(and NaN, which cannot be parsed) lengths are stored as `None` = natural length. -/
theorem expStored_pos_float (e : Option Float) (h : ExpStored e) (L : Float) (hL : e = some L) :
    Scalar.le (Scalar.eps : Float) L = true ∧ Scalar.lt (0 : Float) L = true ∧ Scalar.isNaN L = false := by
  obtain ⟨l, rfl, hge⟩ := h L hL
  obtain ⟨h0, hn⟩ := max_zero_ge_float l
  have hle : Scalar.le (Scalar.eps : Float) (Scalar.max l 0) = true := by
    rw [FMO.le_float, up_abs64] at hge
    rw [FMO.le_float]
    rw [FB.le_zero_float] at h0
    revert hge h0
    generalize (Scalar.max l 0).toModel.unpack = u
    intro hge h0
    rcases FMR.nonneg_cases u h0 with ⟨s, rfl⟩ | ⟨m, e, hm, rfl⟩ | rfl
    · have hz : ¬ ((Scalar.eps : Float).toModel.unpack.le (UnpackedFloat.zero .positive) = true) := by decide +kernel
      exact absurd hge hz
    · exact hge
    · exact hge
  exact ⟨hle, FMO.lt_of_lt_of_le _ _ _ (by decide +kernel) hle, hn⟩


/-! ### every object of a line / of a decoded map -/

/-- the numeric clauses of C14 for the driver's instances. -/
def IeeeKind : HitObjectKind Float Float32 → Prop
  | .circle c => IntF32 131072 c.pos.x ∧ IntF32 131072 c.pos.y
  | .slider s => IntF32 131072 s.pos.x ∧ IntF32 131072 s.pos.y ∧
      (∀ cp ∈ s.path.controlPoints, IntF32 262144 cp.pos.x ∧ IntF32 262144 cp.pos.y) ∧
      (∀ L, s.path.expectedDist = some L →
        Scalar.le (Scalar.eps : Float) L = true ∧ Scalar.lt (0 : Float) L = true ∧ Scalar.isNaN L = false)
  | .spinner s => s.pos = ⟨Scalar.ofInt 256, Scalar.ofInt 192⟩ ∧
      Scalar.le (0 : Float) s.duration = true ∧ Scalar.isNaN s.duration = false
  | .hold h => IntF32 131072 h.posX ∧ Scalar.le (0 : Float) h.duration = true ∧ Scalar.isNaN h.duration = false

theorem spinner_pos_float32 : (⟨(512 : Float32) / 2, (384 : Float32) / 2⟩ : Pos Float32) = ⟨Scalar.ofInt 256, Scalar.ofInt 192⟩ := by
  have h1 : ((512 : Float32) / 2) = Scalar.ofInt 256 := by decide +kernel
  have h2 : ((384 : Float32) / 2) = Scalar.ofInt 192 := by decide +kernel
  rw [h1, h2]

/-- the stored form implies the IEEE clauses. -/
theorem storedKind_ieee (t : Float) (ht : InLimit t) (k : HitObjectKind Float Float32) (h : StoredKind t k) : IeeeKind k := by
  cases k with
  | circle c => exact ⟨(coordP_int _ h.1).1, (coordP_int _ h.2).1⟩
  | slider s =>
    obtain ⟨hx, hy, he, hcp⟩ := h
    exact ⟨(coordP_int _ hx).1, (coordP_int _ hy).1, fun cp hm => ctrlPos_int s.pos cp.pos hx hy (hcp cp hm),
      fun L hL => expStored_pos_float _ he L hL⟩
  | spinner s =>
    obtain ⟨hp, d, _, hd⟩ := h
    refine ⟨by rw [hp]; exact spinner_pos_float32, ?_⟩
    rw [hd]; exact max_zero_ge_float _
  | hold a =>
    obtain ⟨hx, e, he, hd⟩ := h
    refine ⟨(coordP_int _ hx).1, ?_⟩
    rw [hd]; exact hold_duration_nonneg_float t e ht he

/-- **one accepted line** (from a state with an empty path scratch, as all decoder states are:
`parseHitObjectLine_push`): the pushed object satisfies the numeric clauses. -/
theorem line_numeric_ieee (mode : GameMode) (st : HOCore Float Float32) (line : Str) (hc : st.curvePoints = [])
    (hok : (parseHitObjectLine mode st line).2 = true) :
    ∃ o, (parseHitObjectLine mode st line).1.hitObjects = st.hitObjects ++ [o] ∧ InLimit o.startTime ∧ IeeeKind o.kind := by
  obtain ⟨o, h, ht, hk⟩ := accepted_stored mode st line hc hok
  exact ⟨o, h, ht, storedKind_ieee _ ht _ hk⟩

/-! ### decoded maps -/

/-- the objects the decoder holds before the finaliser runs (no `Trig` instance involved). -/
theorem decoded_state_numeric_ieee (bs : List UInt8) (st : BeatmapState Float Float32)
    (h1 : decodeBytes beatmapDecoder bs = .ok st) :
    ∀ o ∈ st.hitObjects.core.hitObjects, InLimit o.startTime ∧ IeeeKind o.kind := by
  intro o ho
  obtain ⟨ht, hk⟩ := (storedState_decoded bs st h1).2 o ho
  exact ⟨ht, storedKind_ieee _ ht _ hk⟩

section Decoded
variable [Trig Float32]

/-- **every hit object of every decoded map satisfies the numeric clauses of C14** — every byte string: positions are
integer-valued `f32`s within ±131072 (slider control points: integer offsets within ±262144, computed exactly), spinner
and hold durations are `≥ 0` and not NaN, a stored slider length is `≥ f64::EPSILON`. -/
theorem decoded_numeric_ieee (bs : List UInt8) (st : BeatmapState Float Float32) (m : Beatmap Float Float32)
    (h1 : decodeBytes beatmapDecoder bs = .ok st) (h2 : st.finish = .ok m) :
    ∀ o ∈ m.hitObjects, InLimit o.startTime ∧ IeeeKind o.kind := by
  intro o ho
  obtain ⟨ht, hk⟩ := decoded_stored bs st m h1 h2 o ho
  exact ⟨ht, storedKind_ieee _ ht _ hk⟩

/-- the position of an object (`HitObject::pos`: holds have an `x` only). -/
def kindX : HitObjectKind Float Float32 → Float32
  | .circle c => c.pos.x | .slider s => s.pos.x | .spinner s => s.pos.x | .hold h => h.posX

def kindY : HitObjectKind Float Float32 → Option Float32
  | .circle c => some c.pos.y | .slider s => some s.pos.y | .spinner s => some s.pos.y | .hold _ => none

/-- **decoded_position_integer_float32**: `pos.x`, `pos.y` of every decoded hit object are of the form `z as f32` with
`−131072 ≤ z ≤ 131072`. -/
theorem decoded_position_integer_float32 (bs : List UInt8) (st : BeatmapState Float Float32) (m : Beatmap Float Float32)
    (h1 : decodeBytes beatmapDecoder bs = .ok st) (h2 : st.finish = .ok m) :
    ∀ o ∈ m.hitObjects, IntF32 131072 (kindX o.kind) ∧ ∀ y, kindY o.kind = some y → IntF32 131072 y := by
  intro o ho
  have h := (decoded_numeric_ieee bs st m h1 h2 o ho).2
  cases hk : o.kind with
  | circle c => rw [hk] at h; exact ⟨h.1, fun y hy => by cases hy; exact h.2⟩
  | slider s => rw [hk] at h; exact ⟨h.1, fun y hy => by cases hy; exact h.2.1⟩
  | spinner s =>
    rw [hk] at h
    obtain ⟨hp, _⟩ := h
    refine ⟨⟨256, by decide, by decide, ?_⟩, fun y hy => ?_⟩
    · show s.pos.x = _; rw [hp]
    · cases hy; exact ⟨192, by decide, by decide, by rw [hp]⟩
  | hold a => rw [hk] at h; exact ⟨h.1, fun y hy => by cases hy⟩

/-- **decoded slider control points are integer offsets**, `|z| ≤ 262144`. -/
theorem decoded_control_points_integer_float32 (bs : List UInt8) (st : BeatmapState Float Float32)
    (m : Beatmap Float Float32) (h1 : decodeBytes beatmapDecoder bs = .ok st) (h2 : st.finish = .ok m) :
    ∀ o ∈ m.hitObjects, ∀ s, o.kind = .slider s → ∀ cp ∈ s.path.controlPoints,
      IntF32 262144 cp.pos.x ∧ IntF32 262144 cp.pos.y := by
  intro o ho s hk
  have h := (decoded_numeric_ieee bs st m h1 h2 o ho).2
  rw [hk] at h
  exact h.2.2.1

/-- **decoded spinner and hold durations are never negative and never NaN.** -/
theorem decoded_duration_nonneg_float (bs : List UInt8) (st : BeatmapState Float Float32) (m : Beatmap Float Float32)
    (h1 : decodeBytes beatmapDecoder bs = .ok st) (h2 : st.finish = .ok m) :
    ∀ o ∈ m.hitObjects,
      (∀ s, o.kind = .spinner s → Scalar.le (0 : Float) s.duration = true ∧ Scalar.isNaN s.duration = false) ∧
      (∀ a, o.kind = .hold a → Scalar.le (0 : Float) a.duration = true ∧ Scalar.isNaN a.duration = false) := by
  intro o ho
  have h := (decoded_numeric_ieee bs st m h1 h2 o ho).2
  exact ⟨fun s hk => by rw [hk] at h; exact h.2, fun a hk => by rw [hk] at h; exact h.2⟩

/-- **a decoded slider length is absent (natural length) or at least `f64::EPSILON`**: zero and negative length fields
are never stored. -/
theorem decoded_length_positive_float (bs : List UInt8) (st : BeatmapState Float Float32) (m : Beatmap Float Float32)
    (h1 : decodeBytes beatmapDecoder bs = .ok st) (h2 : st.finish = .ok m) :
    ∀ o ∈ m.hitObjects, ∀ s, o.kind = .slider s → ∀ L, s.path.expectedDist = some L →
      Scalar.le (Scalar.eps : Float) L = true ∧ Scalar.lt (0 : Float) L = true ∧ Scalar.isNaN L = false := by
  intro o ho s hk
  have h := (decoded_numeric_ieee bs st m h1 h2 o ho).2
  rw [hk] at h
  exact h.2.2.2

end Decoded


/-! ### non-vacuity: closed lines and a closed file, decoded by the kernel -/

section Examples

/-- bit patterns of what a line pushes: per object its kind tag, position bits, control-point bits, duration / length bits. -/
def obsKind : HitObjectKind Float Float32 → Nat × List UInt32 × List UInt64
  | .circle c => (0, [c.pos.x.toBits, c.pos.y.toBits], [])
  | .slider s => (1, [s.pos.x.toBits, s.pos.y.toBits] ++ s.path.controlPoints.flatMap (fun cp => [cp.pos.x.toBits, cp.pos.y.toBits]),
      match s.path.expectedDist with | some L => [L.toBits] | none => [])
  | .spinner s => (3, [s.pos.x.toBits, s.pos.y.toBits], [s.duration.toBits])
  | .hold h => (7, [h.posX.toBits], [h.duration.toBits])

def obsLine (line : String) : Bool × List (Nat × List UInt32 × List UInt64) :=
  let r := parseHitObjectLine GameMode.osu ({} : HOCore Float Float32) (str line)
  (r.2, r.1.hitObjects.map (fun o => obsKind o.kind))

/-- the hypotheses of `line_numeric_ieee` hold of a slider line with fractional and negative coordinates and a negative
length: accepted from the empty state; head `(256.7, −192.9) ↦ (256, −192)`; control points `(0,0)`, `(300.5, 10) ↦ (300 − 256, 10 + 192)
= (44, 202)`, `(−20, 40.9) ↦ (−20 − 256, 40 + 192) = (−276, 232)`; the length `−5` is not stored. -/
example : obsLine "256.7,-192.9,1000,2,0,B|300.5:10|-20:40.9,1,-5" =
    (true, [(1, [0x43800000, 0xC3400000, 0, 0, 0x42300000, 0x434A0000, 0xC38A0000, 0x43680000], [])]) := by
  decide +kernel

/-- a spinner that ends before it starts has duration `+0.0`; a hold note whose end time precedes its start too; a
slider with length `0.5` keeps it (`0x3FE0…`), one with length `1e-17 < ε` does not. -/
example : obsLine "0,0,1000,8,0,500" = (true, [(3, [0x43800000, 0x43400000], [0])]) := by decide +kernel
example : obsLine "100.9,0,1000,128,0,500:0:0:0:0:" = (true, [(7, [0x42C80000], [0])]) := by decide +kernel
example : obsLine "0,0,0,2,0,L|10:0,1,0.5" = (true, [(1, [0, 0, 0, 0, 0x41200000, 0], [0x3FE0000000000000])]) := by
  decide +kernel
example : obsLine "0,0,0,2,0,L|10:0,1,1e-17" = (true, [(1, [0, 0, 0, 0, 0x41200000, 0], [])]) := by decide +kernel

/-- the hypotheses of `hold_duration_nonneg_float` on closed times, and its conclusion as the kernel computes it. -/
example : InLimit (1000 : Float) ∧ InLimit (500 : Float) ∧ (Scalar.max (1000 : Float) 500 - 1000).toBits = 0 := by
  unfold InLimit; decide +kernel

/-- a coordinate outside ±131072 rejects the line (nothing is clamped). -/
example : obsLine "131072.5,0,0,1,0" = (false, []) := by decide +kernel
example : obsLine "131072,-131072,0,1,0" = (true, [(0, [0x48000000, 0xC8000000], [])]) := by decide +kernel

/-- a closed file with a slider, a spinner and a hold note: the hypothesis of `decoded_state_numeric_ieee` holds (it
decodes), so the conclusions apply to its three objects. -/
def fileC14 : List UInt8 :=
  (str "osu file format v14\n\n[HitObjects]\n256.7,-192.9,1000,2,0,B|300.5:10|-20:40.9,1,-5\n0,0,2000,8,0,500\n100.9,0,3000,128,0,500:0:0:0:0:\n").map
    (fun c => c.toNat.toUInt8)

example : ∃ st : BeatmapState Float Float32, decodeBytes beatmapDecoder fileC14 = .ok st ∧
    st.hitObjects.core.hitObjects.length = 3 ∧
    ∀ o ∈ st.hitObjects.core.hitObjects, InLimit o.startTime ∧ IeeeKind o.kind := by
  have hchk : (match decodeBytes (beatmapDecoder : LineDecoder (BeatmapState Float Float32)) fileC14 with
      | .ok st => some st.hitObjects.core.hitObjects.length
      | .error _ => none) = some 3 := by decide +kernel
  cases h1 : decodeBytes (beatmapDecoder : LineDecoder (BeatmapState Float Float32)) fileC14 with
  | error e => rw [h1] at hchk; cases hchk
  | ok st =>
    rw [h1] at hchk
    simp only [Option.some.injEq] at hchk
    exact ⟨st, rfl, hchk, decoded_state_numeric_ieee fileC14 st h1⟩

/-- … and through the finaliser (`List.mergeSort` does not reduce in the kernel on two or more objects, so one object):
the hypotheses of `decoded_numeric_ieee` and its corollaries hold of a closed file (`Trig Float32` of Model/Cmds/Curve.lean). -/
def fileC14Slider : List UInt8 :=
  (str "osu file format v14\n\n[HitObjects]\n256.7,-192.9,1000,2,0,B|300.5:10|-20:40.9,1,-5\n").map (fun c => c.toNat.toUInt8)

example : ∃ (st : BeatmapState Float Float32) (m : Beatmap Float Float32),
    decodeBytes beatmapDecoder fileC14Slider = .ok st ∧ st.finish = .ok m ∧ m.hitObjects.length = 1 ∧
    ∀ o ∈ m.hitObjects, InLimit o.startTime ∧ IeeeKind o.kind := by
  have hchk : ((match decodeBytes (beatmapDecoder : LineDecoder (BeatmapState Float Float32)) fileC14Slider with
      | .ok st => some st | .error _ => none).bind (fun st => match st.finish with
        | .ok m => some m.hitObjects.length | .error _ => none)) = some 1 := by decide +kernel
  cases h1 : decodeBytes (beatmapDecoder : LineDecoder (BeatmapState Float Float32)) fileC14Slider with
  | error e => rw [h1] at hchk; cases hchk
  | ok st =>
    rw [h1] at hchk
    simp only [Option.bind_some] at hchk
    cases h2 : st.finish with
    | error e => rw [h2] at hchk; cases hchk
    | ok m =>
      rw [h2] at hchk
      simp only [Option.some.injEq] at hchk
      exact ⟨st, m, rfl, h2, hchk, decoded_numeric_ieee fileC14Slider st m h1 h2⟩

end Examples

end Rosu.C14
