/-
  Props/C04DecodedObjectsIeee2.lean — Props/C04DecodedObjects.lean on the driver's IEEE instances, second part: sliders,
  spinners and hold notes (`F = Float`, `P = Float32`; representable = not NaN, `IeeeRep64` / `IeeeRep32`). After this file NO
  LAW HYPOTHESIS is left in the decoded-hit-object theorems of C04 on the IEEE instances; what remains are named residuals
  on the objects, two of which are NEW FINDINGS about `f64` arithmetic (both reproduced on the Rust crate).

  (a) sliders. `ctrlLaws_float : CtrlLaws Float Float32 IeeeRep32` — the GLOBAL form is a theorem (no `CtrlLawsOn` needed):
      `RepCoord` confines the quantified values to integers within ±131072, so `b − a`, `a + (b − a)` are integers below 2^23
      and exact (`FTR.sub_int_exact_float32`, `FIE.add_int_exact_float32` of Lemmas/FloatIntExact32.lean); `truncF` is
      `FTR.trunc_coord64`. Hence `decoded_sliders_representable_ieee_partial` (partial only because `PathShapeOk` is assumed,
      as in the generic theorem).
  (b) spinner / hold end times. The encoder writes `start + duration`, the decoder re-derives `max((start + duration) − start, 0)`
      resp. `max(start, start + duration) − start`.
      * `duration_drifts_float` — FINDING (C02): start `0.09`, end `0.34` store `0.25`; written end `0.33999999999999997`; read
        back `0.24999999999999997`. So `DurLaws.spinnerBack / holdBack` fail NUMERICALLY, not only by the sign of a zero:
        `DurLawsZ` (the `==` form) is false too (`durLawsZ_float_false`). Cause: `0.34 − 0.09` is a rounding tie (up), `0.09 + 0.25`
        another (down). Rust: `decode ∘ encode ∘ decode ≠ decode` on `256,192,0.09,12,0,0.34`.
      * `end_time_over_limit_float` — FINDING (C04): start `−1.0000007152557373`, end `2147483647` store `2147483648.000001`;
        written end `2147483647.0000002 > i32::MAX`: the encoder's line is REJECTED, the object is lost on re-decoding
        (`ieeeOverLines_rejected`, kernel; Rust: 1 object → 0 objects). So `DurLaws.spinnerStop / holdStop` fail as well.
      * integer times (`IntTime`, `IntSpan`): all four clauses hold bit for bit — `durLawsOn_float : DurLawsOn Float IeeeRep64
        IntTime`, `intSpan_laws`; `decoded_spinners_representable_ieee_int`, `decoded_holds_representable_ieee_int`,
        `decoded_objects_representable_ieee_int_partial`, `hitobjects_block_accepted_decoded_ieee_int`,
        `decoded_repMap_ieee_int_partial`, `encoded_file_accepted_decoded_ieee_int_partial`.
      * ANY times, acceptance only (Lemmas/HitObjectBlockAcc.lean: `RepSpinnerA`, `RepHoldA`, `AccObject` — the `Rep`
        predicates without the duration-inverse clause, which acceptance does not use): `end_time_lower_float` (the written end
        time is a number and `≥ −limit`), so the one numeric residual is `EndOk`: the written end time does not exceed the limit.
        `decoded_spinners_acc_ieee`, `decoded_holds_acc_ieee`, `decoded_objects_acc_ieee_partial`,
        **`hitobjects_block_accepted_decoded_ieee`**.
  Non-vacuity / sharpness on closed files decoded, finalised, encoded and re-parsed IN THE KERNEL with the real instances:
  `ieeeIntLines_accepted`, `ieeeAccLines_accepted` (accepted but not `RepObject`), `ieeeOverLines_rejected`,
  `decoded_objects_representable_statement_false_ieee` (a reason that is none of F17 / F20 / F21).
-/
import RosuModel.Props.C04DecodedObjectsIeee
import RosuModel.Lemmas.FloatIntExact32
import RosuModel.Lemmas.SliderEx
import RosuModel.Lemmas.HitObjectBlockAcc
import RosuModel.Model.Cmds.Curve
set_option linter.unusedSectionVars false
namespace Rosu.C04
open Rosu Scalar RtObjects SliderRt DecodedObj EncodeLines Encode

/-! ## (a) slider control points: `CtrlLaws` is a theorem of the IEEE instances -/

/-- a representable coordinate of the IEEE instance is `z as f32` for an integer `|z| ≤ 131072` (in particular it is not
`−0.0`: `RepCoord.integral` excludes it). -/
theorem repCoord_int32 (a : Float32) (h : RepCoord IeeeRep32 a) : ∃ z : Int, z.natAbs ≤ 131072 ∧ a = Float32.ofInt z := by
  obtain ⟨⟨h1, h2⟩, _⟩ := C14.position_truncated_float32 a h.lim
  exact ⟨Scalar.toI32 a, by omega, h.integral.symm⟩

/-- **`CtrlLaws` holds of `f64` / `f32` in its GLOBAL form** (no restriction to "the values that occur" is needed: `RepCoord`
already confines `a`, `b` to integers within ±131072, so `b − a` and `a + (b − a)` are integers of magnitude `≤ 2^18 < 2^23`
and are computed exactly: `FTR.sub_int_exact_float32`, `FIE.add_int_exact_float32`; `truncF` is `FTR.trunc_coord64`). -/
theorem ctrlLaws_float : CtrlLaws Float Float32 IeeeRep32 where
  truncF := fun x hx => by
    obtain ⟨_, _, _, h4, h5⟩ := FTR.trunc_coord64 x hx
    exact ⟨h4.2.2, h4, by rw [h5]⟩
  addSub := fun a b ha hb => by
    obtain ⟨za, hza, rfl⟩ := repCoord_int32 a ha
    obtain ⟨zb, hzb, rfl⟩ := repCoord_int32 b hb
    exact FIE.add_sub_cancel_int32 za zb hza hzb
  addZero := fun a ha => by
    obtain ⟨za, hza, rfl⟩ := repCoord_int32 a ha
    exact ⟨FIE.add_zero_int32 za (by omega), FIE.sub_self_int32 za (by omega)⟩

/-- kernel check of the three clauses on actual `f32`s: head `−131072`, read coordinate `131072` (offset `262144`), and
the `f64` `−131071.999…` truncating to `−131071`. -/
example : (Float32.ofInt (-131072) + (Float32.ofInt 131072 - Float32.ofInt (-131072))).toBits = (Float32.ofInt 131072).toBits ∧
    (Float32.ofInt (-131072) + 0).toBits = (Float32.ofInt (-131072)).toBits ∧
    (Float32.ofInt 7 - Float32.ofInt 7).toBits = (0 : Float32).toBits ∧
    InCoord (Float.ofBits 0xC0FFFFFFFFFFFFFF) ∧
    (Scalar.ofInt (Scalar.toI32 (Float.ofBits 0xC0FFFFFFFFFFFFFF)) : Float32).toBits = (Float32.ofInt (-131071)).toBits := by
  decide +kernel

section
variable [Trig Float] [Trig Float32]

/-- **sliders of decoded maps, IEEE instances: no law hypothesis** — every slider of every decoded map whose path has the
shape `PathShapeOk` (F17 excluded there; assumed, not derived from `convert_path_str`: hence `_partial`) and whose computed
distance, when no length was requested, is not NaN and within ±131072 (F20) is `RepSlider` for the length the encoder
writes. `ObjLaws` and `CtrlLaws` are discharged (`objLaws_ieee`, `ctrlLaws_float`). -/
theorem decoded_sliders_representable_ieee_partial (bs : List UInt8) (st : BeatmapState Float Float32)
    (m : Beatmap Float Float32) (h1 : decodeBytes beatmapDecoder bs = .ok st) (h2 : st.finish = .ok m) (mode : GameMode) :
    ∀ h ∈ m.hitObjects, ∀ s, h.kind = .slider s → SliderResidual IeeeRep64 s →
      ∃ dist, RepSlider IeeeRep64 IeeeRep32 mode h s dist :=
  decoded_sliders_representable_partial objLaws_ieee ctrlLaws_float bs st m h1 h2 mode

end

/-- `PathShapeOk` is decidable over any scalar with decidable equality. -/
instance decPathShapeOkGen {P : Type} [Scalar P] [DecidableEq P] : ∀ cps : List (PathControlPoint P), Decidable (PathShapeOk cps)
  | [] => isFalse (fun h => h)
  | p0 :: rest =>
    match h0 : p0.pathType with
    | none => isFalse (fun h => by have := h.2; rw [h0] at this; exact this)
    | some t0 =>
      decidable_of_iff (p0.pos = Pos.zero ∧ (WfType t0 ∧ PShape t0 p0.pos rest ∧ ChainOK t0 p0 rest))
        (by unfold PathShapeOk; simp only [h0])

/-! ## (b) spinner / hold end times

what the encoder writes is `start + duration`; what the decoder re-derives is `max((start + duration) − start, 0)` (spinner)
resp. `max(start, start + duration) − start` (hold). -/

/-- the sign-of-zero-tolerant form of `DurLaws`: the re-derived duration is numerically (`==`) the stored one. -/
structure DurLawsZ (F : Type) [Scalar F] (RF : F → Prop) : Prop where
  spinnerStop : ∀ t d : F, InLimit t → InLimit d →
    RF (t + Scalar.max (d - t) 0) ∧ InLimit (t + Scalar.max (d - t) 0)
  spinnerBack : ∀ t d : F, InLimit t → InLimit d →
    Scalar.eq (Scalar.max ((t + Scalar.max (d - t) 0) - t) 0) (Scalar.max (d - t) 0) = true
  holdStop : ∀ t e : F, InLimit t → InLimit e →
    RF (t + (Scalar.max t e - t)) ∧ InLimit (t + (Scalar.max t e - t))
  holdBack : ∀ t e : F, InLimit t → InLimit e →
    Scalar.eq (Scalar.max t (t + (Scalar.max t e - t)) - t) (Scalar.max t e - t) = true

/-- `DurLaws` restricted to times in a class `T`. -/
structure DurLawsOn (F : Type) [Scalar F] (RF : F → Prop) (T : F → Prop) : Prop where
  spinnerStop : ∀ t d : F, T t → T d → RF (t + Scalar.max (d - t) 0) ∧ InLimit (t + Scalar.max (d - t) 0)
  spinnerBack : ∀ t d : F, T t → T d → Scalar.max ((t + Scalar.max (d - t) 0) - t) 0 = Scalar.max (d - t) 0
  holdStop : ∀ t e : F, T t → T e → RF (t + (Scalar.max t e - t)) ∧ InLimit (t + (Scalar.max t e - t))
  holdBack : ∀ t e : F, T t → T e → Scalar.max t (t + (Scalar.max t e - t)) - t = Scalar.max t e - t

/-! ### the two refutations on actual doubles (both reproduced on the Rust crate) -/

/-- start time `0.09`, end time `0.34` (the doubles nearest to these decimals). -/
def driftStart : Float := Float.ofBits 0x3FB70A3D70A3D70A
def driftEnd : Float := Float.ofBits 0x3FD5C28F5C28F5C3

/-- **the stored duration DRIFTS** (numerically, not by the sign of a zero): start `0.09`, end `0.34` store the duration
`0.25`; the encoder writes the end time `0.09 + 0.25 = 0.33999999999999997` (one ulp below `0.34`), from which the decoder
re-derives `0.24999999999999997 ≠ 0.25` — for a spinner and for a hold note alike. (A rounding tie: `0.34 − 0.09` is rounded UP
to `0.25`, `0.09 + 0.25` is rounded DOWN.) -/
theorem duration_drifts_float :
    InLimit driftStart ∧ InLimit driftEnd ∧
    (Scalar.max (driftEnd - driftStart) 0).toBits = 0x3FD0000000000000 ∧
    (Scalar.max driftStart driftEnd - driftStart).toBits = 0x3FD0000000000000 ∧
    (driftStart + Scalar.max (driftEnd - driftStart) 0).toBits = 0x3FD5C28F5C28F5C2 ∧
    (Scalar.max ((driftStart + Scalar.max (driftEnd - driftStart) 0) - driftStart) 0).toBits = 0x3FCFFFFFFFFFFFFF ∧
    (Scalar.max driftStart (driftStart + (Scalar.max driftStart driftEnd - driftStart)) - driftStart).toBits = 0x3FCFFFFFFFFFFFFF ∧
    Scalar.eq (Scalar.max ((driftStart + Scalar.max (driftEnd - driftStart) 0) - driftStart) 0)
      (Scalar.max (driftEnd - driftStart) 0) = false ∧
    Scalar.eq (Scalar.max driftStart (driftStart + (Scalar.max driftStart driftEnd - driftStart)) - driftStart)
      (Scalar.max driftStart driftEnd - driftStart) = false := by
  unfold InLimit; decide +kernel

/-- … and on this pair the drift stops after one round: from the re-derived duration `0.24999999999999997` the encoder writes
the same end time `0.33999999999999997` again and the decoder re-derives the same duration. (Empirically — an exhaustive run
over 1.8·10⁸ pairs of short decimals, 526 of which drift — the second round is always stable; not proved.) -/
theorem duration_drift_stabilises_witness :
    (driftStart + Float.ofBits 0x3FCFFFFFFFFFFFFF).toBits = 0x3FD5C28F5C28F5C2 ∧
    (Scalar.max ((driftStart + Float.ofBits 0x3FCFFFFFFFFFFFFF) - driftStart) 0).toBits = 0x3FCFFFFFFFFFFFFF ∧
    (Scalar.max driftStart (driftStart + Float.ofBits 0x3FCFFFFFFFFFFFFF) - driftStart).toBits = 0x3FCFFFFFFFFFFFFF := by
  decide +kernel

/-- start time `−(1 + 3·2⁻²²) = −1.0000007152557373`, end time `2147483647` (the parse limit itself). -/
def overStart : Float := Float.ofBits 0xBFF00000C0000000
def overEnd : Float := Float.ofInt 2147483647

/-- **the written end time LEAVES THE PARSE LIMIT**: start `−1.0000007152557373`, end `2147483647` (both accepted) store the
duration `2147483648.000001` (`2³¹ + 3·2⁻²²` rounded up to `2³¹ + 2⁻²⁰`); the encoder writes `start + duration =
2147483647.0000002 > 2147483647`, which `f64::parse` (limit `i32::MAX`) rejects: the line is not accepted any more. -/
theorem end_time_over_limit_float :
    InLimit overStart ∧ InLimit overEnd ∧
    (Scalar.max (overEnd - overStart) 0).toBits = 0x41E0000000000002 ∧
    (Scalar.max overStart overEnd - overStart).toBits = 0x41E0000000000002 ∧
    (overStart + Scalar.max (overEnd - overStart) 0).toBits = 0x41DFFFFFFFC00001 ∧
    Scalar.lt (maxParseValue : Float) (overStart + Scalar.max (overEnd - overStart) 0) = true ∧
    Scalar.lt (maxParseValue : Float) (overStart + (Scalar.max overStart overEnd - overStart)) = true := by
  unfold InLimit; decide +kernel

/-- **`DurLawsZ` (hence `DurLaws`) is false of IEEE doubles beyond the sign of a zero** — the `Back` clauses by
`duration_drifts_float`, the `Stop` clauses by `end_time_over_limit_float`; each of the four clauses separately. -/
theorem durLawsZ_float_false :
    (¬ ∀ t d : Float, InLimit t → InLimit d →
      Scalar.eq (Scalar.max ((t + Scalar.max (d - t) 0) - t) 0) (Scalar.max (d - t) 0) = true) ∧
    (¬ ∀ t e : Float, InLimit t → InLimit e →
      Scalar.eq (Scalar.max t (t + (Scalar.max t e - t)) - t) (Scalar.max t e - t) = true) ∧
    (¬ ∀ t d : Float, InLimit t → InLimit d → InLimit (t + Scalar.max (d - t) 0)) ∧
    (¬ ∀ t e : Float, InLimit t → InLimit e → InLimit (t + (Scalar.max t e - t))) ∧
    ¬ DurLawsZ Float IeeeRep64 := by
  obtain ⟨a1, a2, _, _, _, _, _, a3, a4⟩ := duration_drifts_float
  obtain ⟨b1, b2, _, _, _, b3, b4⟩ := end_time_over_limit_float
  refine ⟨fun h => ?_, fun h => ?_, fun h => ?_, fun h => ?_, fun D => ?_⟩
  · have := h _ _ a1 a2; rw [a3] at this; cases this
  · have := h _ _ a1 a2; rw [a4] at this; cases this
  · have := (h _ _ b1 b2).2.1; rw [b3] at this; cases this
  · have := (h _ _ b1 b2).2.1; rw [b4] at this; cases this
  · have := D.spinnerBack _ _ a1 a2; rw [a3] at this; cases this

/-! ### integer times: every clause holds, exactly -/

/-- an integer-valued time within the parse limit: `z as f64`, `|z| ≤ 2147483647` (so not `−0.0`). -/
def IntTime (x : Float) : Prop := ∃ z : Int, z.natAbs ≤ 2147483647 ∧ x = Float.ofInt z

/-- an object with integer start time `a` and integer duration `k ≥ 0` whose end `a + k` is within the parse limit. -/
def IntSpan (t d : Float) : Prop :=
  ∃ a k : Int, -2147483647 ≤ a ∧ 0 ≤ k ∧ a + k ≤ 2147483647 ∧ t = Float.ofInt a ∧ d = Float.ofInt k

theorem zero_eq_ofInt : (0 : Float) = Float.ofInt 0 := rfl

theorem maxParse_eq_ofInt : (maxParseValue : Float) = Float.ofInt 2147483647 := rfl

theorem neg_maxParse_eq_ofInt : -(maxParseValue : Float) = Float.ofInt (-2147483647) := by decide +kernel

/-- an integer within ±2147483647 is within the parse limit. -/
theorem inLimit_ofInt (z : Int) (hz : z.natAbs ≤ 2147483647) : InLimit (Float.ofInt z) := by
  refine ⟨?_, ?_, FIE.isNaN_ofInt_scalar z (by omega)⟩
  · rw [neg_maxParse_eq_ofInt, FIE.lt_ofInt _ _ (by omega) (by decide)]
    exact decide_eq_false (by omega)
  · rw [maxParse_eq_ofInt, FIE.lt_ofInt _ _ (by decide) (by omega)]
    exact decide_eq_false (by omega)

theorem IntTime.inLimit {x : Float} (h : IntTime x) : InLimit x := by
  obtain ⟨z, hz, rfl⟩ := h
  exact inLimit_ofInt z hz

/-- `f64::max` on integer values is the integer maximum. -/
theorem max_ofInt (a b : Int) (ha : a.natAbs < 2 ^ 53) (hb : b.natAbs < 2 ^ 53) :
    Scalar.max (Float.ofInt a) (Float.ofInt b) = Float.ofInt (max a b) := by
  unfold Scalar.max
  rw [FIE.lt_ofInt a b ha hb, FIE.isNaN_ofInt_scalar a ha]
  by_cases h : a < b
  · rw [if_pos (decide_eq_true h)]; congr 1; omega
  · rw [if_neg (by simpa using h), if_neg (by decide)]; congr 1; omega

/-- **the four clauses on an integer span**: the end time `start + duration` is the integer `a + k`, not NaN and within
the limit, and both re-derivations give the duration back bit for bit. -/
theorem intSpan_laws (t d : Float) (h : IntSpan t d) :
    (IeeeRep64 (t + d) ∧ InLimit (t + d)) ∧ Scalar.max ((t + d) - t) 0 = d ∧ Scalar.max t (t + d) - t = d := by
  obtain ⟨a, k, ha, hk, hak, rfl, rfl⟩ := h
  have hsum : Float.ofInt a + Float.ofInt k = Float.ofInt (a + k) :=
    FIE.add_int_exact_float a k (by omega) (by omega) (by omega)
  have hback : Float.ofInt (a + k) - Float.ofInt a = Float.ofInt k := by
    rw [FIE.sub_int_exact_float (a + k) a (by omega) (by omega) (by omega)]; congr 1; omega
  have hlim := inLimit_ofInt (a + k) (by omega)
  refine ⟨⟨by rw [hsum]; exact hlim.2.2, by rw [hsum]; exact hlim⟩, ?_, ?_⟩
  · rw [hsum, hback, zero_eq_ofInt, max_ofInt k 0 (by omega) (by decide)]; congr 1; omega
  · rw [hsum, max_ofInt a (a + k) (by omega) (by omega), show max a (a + k) = a + k by omega, hback]

/-- a spinner line with integer start and end times stores an integer span. -/
theorem intSpan_spinner (t e : Float) (ht : IntTime t) (he : IntTime e) : IntSpan t (Scalar.max (e - t) 0) := by
  obtain ⟨a, ha, rfl⟩ := ht
  obtain ⟨b, hb, rfl⟩ := he
  refine ⟨a, max (b - a) 0, by omega, by omega, by omega, rfl, ?_⟩
  rw [FIE.sub_int_exact_float b a (by omega) (by omega) (by omega), zero_eq_ofInt,
    max_ofInt (b - a) 0 (by omega) (by decide)]

/-- a hold-note line with integer start and end times stores an integer span. -/
theorem intSpan_hold (t e : Float) (ht : IntTime t) (he : IntTime e) : IntSpan t (Scalar.max t e - t) := by
  obtain ⟨a, ha, rfl⟩ := ht
  obtain ⟨b, hb, rfl⟩ := he
  refine ⟨a, max a b - a, by omega, by omega, by omega, rfl, ?_⟩
  rw [max_ofInt a b (by omega) (by omega), FIE.sub_int_exact_float (max a b) a (by omega) (by omega) (by omega)]

/-- **`DurLaws` holds of IEEE doubles on integer times** — all four clauses, bit for bit (`FIE.add_int_exact_float`,
`FIE.sub_int_exact_float`: no rounding below `2^53`; a zero duration is `+0.0`). -/
theorem durLawsOn_float : DurLawsOn Float IeeeRep64 IntTime where
  spinnerStop := fun t d ht hd => (intSpan_laws _ _ (intSpan_spinner t d ht hd)).1
  spinnerBack := fun t d ht hd => (intSpan_laws _ _ (intSpan_spinner t d ht hd)).2.1
  holdStop := fun t e ht he => (intSpan_laws _ _ (intSpan_hold t e ht he)).1
  holdBack := fun t e ht he => (intSpan_laws _ _ (intSpan_hold t e ht he)).2.2

/-- non-vacuity on actual doubles: start `-5`, end `2147483647` (the limit), and the clauses as the kernel computes them. -/
example : IntTime (Float.ofInt (-5)) ∧ IntTime (Float.ofInt 2147483647) ∧
    (Float.ofInt (-5) + Scalar.max (Float.ofInt 2147483647 - Float.ofInt (-5)) 0).toBits = (Float.ofInt 2147483647).toBits ∧
    (Scalar.max ((Float.ofInt (-5) + Scalar.max (Float.ofInt 2147483647 - Float.ofInt (-5)) 0) - Float.ofInt (-5)) 0).toBits =
      (Float.ofInt 2147483652).toBits :=
  ⟨⟨-5, by decide, rfl⟩, ⟨2147483647, by decide, rfl⟩, by decide +kernel, by decide +kernel⟩

/-! ### decoded maps: spinners and hold notes with integer times — no law left -/

section
variable [Trig Float] [Trig Float32]

/-- **spinners of decoded maps, IEEE instances, integer times: no law hypothesis.** Every spinner of every decoded map
whose start time and duration are integers with the end within the parse limit (`IntSpan`; what a line with integer start
and end times stores: `intSpan_spinner`) is `RepSpinner`, as soon as its custom sample file name satisfies the file-name
residual (F21, `|`). -/
theorem decoded_spinners_representable_ieee_int (bs : List UInt8) (st : BeatmapState Float Float32)
    (m : Beatmap Float Float32) (h1 : decodeBytes beatmapDecoder bs = .ok st) (h2 : st.finish = .ok m) (mode : GameMode) :
    ∀ h ∈ m.hitObjects, ∀ sp, h.kind = .spinner sp → FileNameResidual h.samples → IntSpan h.startTime sp.duration →
      RepSpinner IeeeRep64 IeeeRep32 mode h sp := by
  intro h hh sp hk hres hint
  obtain ⟨ht, hst⟩ := C14.decoded_stored bs st m h1 h2 h hh
  have hok := decoded_objOk bs st m h1 h2 h hh
  rw [hk] at hst
  obtain ⟨hpos, _⟩ := hst
  have hpx : sp.pos.x = (512 : Float32) / 2 := by rw [hpos]
  have hpy : sp.pos.y = (384 : Float32) / 2 := by rw [hpos]
  obtain ⟨hstop, hback, _⟩ := intSpan_laws _ _ hint
  exact ⟨by rw [hpx]; exact objLaws_ieee.spinnerX, by rw [hpy]; exact objLaws_ieee.spinnerY, ⟨ht.2.2, ht⟩, hstop, hback,
    repSamples_of_ok _ _ hok.samples hres⟩

/-- **hold notes of decoded maps, IEEE instances, integer times: no law hypothesis.** -/
theorem decoded_holds_representable_ieee_int (bs : List UInt8) (st : BeatmapState Float Float32)
    (m : Beatmap Float Float32) (h1 : decodeBytes beatmapDecoder bs = .ok st) (h2 : st.finish = .ok m) (mode : GameMode) :
    ∀ h ∈ m.hitObjects, ∀ ho, h.kind = .hold ho → FileNameResidual h.samples → IntSpan h.startTime ho.duration →
      RepHold IeeeRep64 IeeeRep32 mode h ho := by
  intro h hh ho hk hres hint
  obtain ⟨ht, hst⟩ := C14.decoded_stored bs st m h1 h2 h hh
  have hok := decoded_objOk bs st m h1 h2 h hh
  rw [hk] at hst
  obtain ⟨hx, _⟩ := hst
  obtain ⟨hstop, _, hback⟩ := intSpan_laws _ _ hint
  exact ⟨repCoord_of_coordP objLaws_ieee hx, objLaws_ieee.holdY, ⟨ht.2.2, ht⟩, hstop, hback,
    repSamples_of_ok _ _ hok.samples hres⟩

/-- the residual of one decoded object on the IEEE instances, integer-times form: sliders as before (`PathShapeOk`, F20),
circles the file-name residual, spinners and holds the file-name residual and integer times. No law. -/
def ObjResidualInt (h : HitObject Float Float32) : Prop :=
  match h.kind with
  | .slider s => SliderResidual IeeeRep64 s
  | .circle _ => FileNameResidual h.samples
  | .spinner sp => FileNameResidual h.samples ∧ IntSpan h.startTime sp.duration
  | .hold ho => FileNameResidual h.samples ∧ IntSpan h.startTime ho.duration

/-- **decoded_objects_representable_ieee_int_partial** — `RepObject` for every object of a decoded `Beatmap<f64/f32>`
satisfying `ObjResidualInt`; no law hypothesis (`ObjLaws`, `CtrlLaws` are theorems, `DurLaws` is replaced by integrality of
the times). Partial for the reasons of `decoded_sliders_representable_partial` (`PathShapeOk` assumed). -/
theorem decoded_objects_representable_ieee_int_partial (bs : List UInt8) (st : BeatmapState Float Float32)
    (m : Beatmap Float Float32) (h1 : decodeBytes beatmapDecoder bs = .ok st) (h2 : st.finish = .ok m) (mode : GameMode) :
    ∀ h ∈ m.hitObjects, ObjResidualInt h → RepObject IeeeRep64 IeeeRep32 mode h := by
  intro h hh hres
  unfold ObjResidualInt at hres
  cases hk : h.kind with
  | circle c =>
    rw [hk] at hres
    exact .circle c hk (decoded_circles_representable_ieee bs st m h1 h2 mode h hh c hk hres)
  | slider s =>
    rw [hk] at hres
    obtain ⟨dist, hr⟩ := decoded_sliders_representable_ieee_partial bs st m h1 h2 mode h hh s hk hres
    exact .slider s dist hk hr
  | spinner sp =>
    rw [hk] at hres
    exact .spinner sp hk (decoded_spinners_representable_ieee_int bs st m h1 h2 mode h hh sp hk hres.1 hres.2)
  | hold ho =>
    rw [hk] at hres
    exact .hold ho hk (decoded_holds_representable_ieee_int bs st m h1 h2 mode h hh ho hk hres.1 hres.2)

/-- **hitobjects_block_accepted_decoded_ieee_int** — C04 for the `[HitObjects]` block of a decoded `Beatmap<f64/f32>`, NO LAW
HYPOTHESIS: decode any bytes to `m`; if every object satisfies `ObjResidualInt`, `encode_hit_objects m` succeeds, the block
is `[HitObjects]` followed by one LF-free record line per object, and `parse_hit_objects` accepts every one of these lines
(end-trimmed) in any decoder state. (The codec laws, `CoordLaws`, `ObjLaws`, `CtrlLaws` are theorems of the instances.) -/
theorem hitobjects_block_accepted_decoded_ieee_int (bs : List UInt8) (st : BeatmapState Float Float32)
    (m : Beatmap Float Float32) (h1 : decodeBytes beatmapDecoder bs = .ok st) (h2 : st.finish = .ok m)
    (hres : ∀ h ∈ m.hitObjects, ObjResidualInt h) :
    ∃ H : List Str, encodeHitObjects m = .ok (unlines (str "[HitObjects]" :: H)) ∧ RtFile.ListBlockShape H ∧
      H.length = m.hitObjects.length ∧
      ∀ st' : HOCore Float Float32, Accepts (parseHitObjectLine m.general.mode) st' (H.map trimEnd) :=
  hitobjects_block_accepted C02.codecLaws_float_ieee C02.codecLaws_float32_ieee FCO.coordLaws_float m
    (fun h hh => decoded_objects_representable_ieee_int_partial bs st m h1 h2 m.general.mode h hh (hres h hh))

end

/-! ### any times: ACCEPTANCE needs the written end time not to exceed the limit, and nothing else -/

open Float.Model Float.Model.UnpackedFloat in
/-- the sum of a finite value and a number is a number (it may be `±∞`). -/
theorem uadd_finite_not_nan (spec : Format) (a b : UnpackedFloat) (ha : a.isFinite = true) (hb : b.isNaN = false) :
    (UnpackedFloat.add spec a b).isNaN = false := by
  rcases a with s | _ | s | ⟨s, m, e, hm⟩
  · cases ha
  · cases ha
  · rcases b with s' | _ | s' | ⟨s', m', e', hm'⟩
    · rfl
    · cases hb
    · simp only [UnpackedFloat.add]; split <;> rfl
    · rfl
  · rcases b with s' | _ | s' | ⟨s', m', e', hm'⟩
    · rfl
    · cases hb
    · rfl
    · simp only [UnpackedFloat.add]; exact FB.normalize_not_nan _ _ _ _

theorem add_not_nan_float (a b : Float) (ha : a.toModel.unpack.isFinite = true) (hb : Scalar.isNaN b = false) :
    Scalar.isNaN (a + b) = false := by
  show (a + b).toModel.unpack.isNaN = false
  rw [FAM.float_add_unpack, FB.repack_isNaN]
  exact uadd_finite_not_nan _ _ _ ha hb

/-- **the written end time `start + duration` of a non-negative duration is a number and not below `−limit`** — so of the
clauses of `InLimit (start + duration)` only the upper bound can fail (and does: `end_time_over_limit_float`). -/
theorem end_time_lower_float (t d : Float) (ht : InLimit t) (hd0 : Scalar.le (0 : Float) d = true)
    (hdn : Scalar.isNaN d = false) :
    Scalar.lt (t + d) (-(maxParseValue : Float)) = false ∧ Scalar.isNaN (t + d) = false := by
  have hfin := C14.inLimit_finite t ht
  have n0 : Scalar.isNaN (0 : Float) = false := by decide +kernel
  have n1 := add_not_nan_float t 0 hfin n0
  have n2 := add_not_nan_float t d hfin hdn
  have nL : Scalar.isNaN (-(maxParseValue : Float)) = false := by decide +kernel
  have mono := FAM.add_le_add_left_float t 0 d hd0 n1 n2
  have low : Scalar.le (-(maxParseValue : Float)) (t + 0) = true := by
    by_cases hz : t = FX.nzero64
    · rw [hz, FX.negzero_add_zero_float]; decide +kernel
    · rw [FX.add_zero_float t hz]
      exact FMO.le_of_not_lt t _ ht.2.2 nL ht.1
  exact ⟨FMO.not_lt_of_le _ _ (FMO.le_trans _ _ _ low mono), n2⟩

/-- the one numeric residual of a decoded spinner / hold note for ACCEPTANCE: the end time the encoder writes does not exceed
the parse limit `2147483647` (false e.g. for start `−1.0000007152557373`, end `2147483647`). -/
def EndOk (t d : Float) : Prop := Scalar.lt (maxParseValue : Float) (t + d) = false

theorem IntSpan.endOk {t d : Float} (h : IntSpan t d) : EndOk t d := (intSpan_laws t d h).1.2.2.1

section
variable [Trig Float] [Trig Float32]

/-- the residual of one decoded object on the IEEE instances, acceptance form. No law, no integrality. -/
def ObjResidualAcc (h : HitObject Float Float32) : Prop :=
  match h.kind with
  | .slider s => SliderResidual IeeeRep64 s
  | .circle _ => FileNameResidual h.samples
  | .spinner sp => FileNameResidual h.samples ∧ EndOk h.startTime sp.duration
  | .hold ho => FileNameResidual h.samples ∧ EndOk h.startTime ho.duration

theorem ObjResidualInt.toAcc {h : HitObject Float Float32} (hr : ObjResidualInt h) : ObjResidualAcc h := by
  unfold ObjResidualInt at hr
  unfold ObjResidualAcc
  cases hk : h.kind with
  | circle c => rw [hk] at hr; exact hr
  | slider s => rw [hk] at hr; exact hr
  | spinner sp => rw [hk] at hr; exact ⟨hr.1, hr.2.endOk⟩
  | hold ho => rw [hk] at hr; exact ⟨hr.1, hr.2.endOk⟩

/-- **spinners of decoded maps, IEEE instances, ANY times** — `RepSpinnerA` (everything acceptance of the line needs) as soon
as the file-name residual holds and the written end time does not exceed the limit. No law. -/
theorem decoded_spinners_acc_ieee (bs : List UInt8) (st : BeatmapState Float Float32)
    (m : Beatmap Float Float32) (h1 : decodeBytes beatmapDecoder bs = .ok st) (h2 : st.finish = .ok m) (mode : GameMode) :
    ∀ h ∈ m.hitObjects, ∀ sp, h.kind = .spinner sp → FileNameResidual h.samples → EndOk h.startTime sp.duration →
      RepSpinnerA IeeeRep64 IeeeRep32 mode h sp := by
  intro h hh sp hk hres hend
  obtain ⟨ht, hst⟩ := C14.decoded_stored bs st m h1 h2 h hh
  have hok := decoded_objOk bs st m h1 h2 h hh
  have hie := C14.storedKind_ieee _ ht _ hst
  rw [hk] at hst hie
  have hnn := hie.2
  obtain ⟨hpos, _⟩ := hst
  have hpx : sp.pos.x = (512 : Float32) / 2 := by rw [hpos]
  have hpy : sp.pos.y = (384 : Float32) / 2 := by rw [hpos]
  obtain ⟨hlow, hn⟩ := end_time_lower_float h.startTime sp.duration ht hnn.1 hnn.2
  exact ⟨by rw [hpx]; exact objLaws_ieee.spinnerX, by rw [hpy]; exact objLaws_ieee.spinnerY, ⟨ht.2.2, ht⟩,
    ⟨hn, hlow, hend, hn⟩, repSamples_of_ok _ _ hok.samples hres⟩

/-- **hold notes of decoded maps, IEEE instances, ANY times** — `RepHoldA`. No law. -/
theorem decoded_holds_acc_ieee (bs : List UInt8) (st : BeatmapState Float Float32)
    (m : Beatmap Float Float32) (h1 : decodeBytes beatmapDecoder bs = .ok st) (h2 : st.finish = .ok m) (mode : GameMode) :
    ∀ h ∈ m.hitObjects, ∀ ho, h.kind = .hold ho → FileNameResidual h.samples → EndOk h.startTime ho.duration →
      RepHoldA IeeeRep64 IeeeRep32 mode h ho := by
  intro h hh ho hk hres hend
  obtain ⟨ht, hst⟩ := C14.decoded_stored bs st m h1 h2 h hh
  have hok := decoded_objOk bs st m h1 h2 h hh
  have hie := C14.storedKind_ieee _ ht _ hst
  rw [hk] at hst hie
  have hnn := hie.2
  obtain ⟨hx, _⟩ := hst
  obtain ⟨hlow, hn⟩ := end_time_lower_float h.startTime ho.duration ht hnn.1 hnn.2
  exact ⟨repCoord_of_coordP objLaws_ieee hx, objLaws_ieee.holdY, ⟨ht.2.2, ht⟩, ⟨hn, hlow, hend, hn⟩,
    repSamples_of_ok _ _ hok.samples hres⟩

/-- **decoded_objects_acc_ieee_partial** — `AccObject` (the line of the object is carried by the format) for every object
of a decoded `Beatmap<f64/f32>` satisfying `ObjResidualAcc`. No law hypothesis. -/
theorem decoded_objects_acc_ieee_partial (bs : List UInt8) (st : BeatmapState Float Float32)
    (m : Beatmap Float Float32) (h1 : decodeBytes beatmapDecoder bs = .ok st) (h2 : st.finish = .ok m) (mode : GameMode) :
    ∀ h ∈ m.hitObjects, ObjResidualAcc h → AccObject IeeeRep64 IeeeRep32 mode h := by
  intro h hh hres
  unfold ObjResidualAcc at hres
  cases hk : h.kind with
  | circle c =>
    rw [hk] at hres
    exact .circle c hk (decoded_circles_representable_ieee bs st m h1 h2 mode h hh c hk hres)
  | slider s =>
    rw [hk] at hres
    obtain ⟨dist, hr⟩ := decoded_sliders_representable_ieee_partial bs st m h1 h2 mode h hh s hk hres
    exact .slider s dist hk hr
  | spinner sp =>
    rw [hk] at hres
    exact .spinner sp hk (decoded_spinners_acc_ieee bs st m h1 h2 mode h hh sp hk hres.1 hres.2)
  | hold ho =>
    rw [hk] at hres
    exact .hold ho hk (decoded_holds_acc_ieee bs st m h1 h2 mode h hh ho hk hres.1 hres.2)

/-- **hitobjects_block_accepted_decoded_ieee** — C04 for the `[HitObjects]` block of a decoded `Beatmap<f64/f32>`, ANY times,
NO LAW HYPOTHESIS: decode any bytes to `m`; if every object satisfies `ObjResidualAcc` (sliders: `PathShapeOk` + F20; circles,
spinners, holds: the file-name residual F21 / `|`; spinners and holds: the written end time `start + duration` does not
exceed `2147483647`), then `encode_hit_objects m` succeeds, the block is `[HitObjects]` followed by one LF-free record line
per object, and `parse_hit_objects` run over these lines (end-trimmed) from any decoder state accepts every one of them and
appends, in order, objects of the same kinds at the same start times. The durations read back may differ from the stored
ones (`duration_drifts_float`); they are `max((start + duration) − start, 0)` / `max(start, start + duration) − start`
(`RtObjects.spinner_line_accepted`, `hold_line_accepted`). -/
theorem hitobjects_block_accepted_decoded_ieee (bs : List UInt8) (st : BeatmapState Float Float32)
    (m : Beatmap Float Float32) (h1 : decodeBytes beatmapDecoder bs = .ok st) (h2 : st.finish = .ok m)
    (hres : ∀ h ∈ m.hitObjects, ObjResidualAcc h) :
    ∃ H : List Str, encodeHitObjects m = .ok (unlines (str "[HitObjects]" :: H)) ∧ RtFile.ListBlockShape H ∧
      H.length = m.hitObjects.length ∧
      ∀ st' : HOCore Float Float32, Accepts (parseHitObjectLine m.general.mode) st' (H.map trimEnd) ∧
        ∃ os, (C11.runSection (parseHitObjectLine m.general.mode) st' (H.map trimEnd)).hitObjects = st'.hitObjects ++ os ∧
          os.map timeKind = m.hitObjects.map timeKind :=
  hitobjects_block_accepted_acc C02.codecLaws_float_ieee C02.codecLaws_float32_ieee FCO.coordLaws_float m
    (fun h hh => decoded_objects_acc_ieee_partial bs st m h1 h2 m.general.mode h hh (hres h hh))

end

/-! ### the whole map and the whole file (integer times) -/

section
variable [Trig Float] [Trig Float32]

/-- **decoded_repMap_ieee_int_partial** — `RepMap` of a decoded `Beatmap<f64/f32>` with NO law hypothesis: the record
sections from the `Decoded` invariant (F16 `NoDoubleSlash` excluded), the objects from `ObjResidualInt`, and — still a
hypothesis, as in `decoded_repMap_partial` — the timing block's `RepTimingMap`. -/
theorem decoded_repMap_ieee_int_partial (bs : List UInt8) (st : BeatmapState Float Float32) (m : Beatmap Float Float32)
    (h1 : decodeBytes beatmapDecoder bs = .ok st) (h2 : st.finish = .ok m) (hds : DecodedInv.NoDoubleSlash m)
    (htim : RtTiming.RepTimingMap IeeeRep64 m) (hres : ∀ h ∈ m.hitObjects, ObjResidualInt h) :
    RepMap IeeeRep64 IeeeRep32 m :=
  ⟨decoded_records_representable_of_limitRep constFacts_float limitRep_float limitRep_float32 bs st m h1 h2 hds, htim,
    fun h hh => decoded_objects_representable_ieee_int_partial bs st m h1 h2 m.general.mode h hh (hres h hh)⟩

open C11 RtTiming FileRt in
/-- **encoded_file_accepted_decoded_ieee_int_partial** — the file-level C04 statement (`encoded_file_accepted`) for decoded
`Beatmap<f64/f32>`s, no law hypothesis: decode any bytes to `m`, encode it to `t`; under the object residuals
(`ObjResidualInt`), F16 and `RepTimingMap` (still a hypothesis), `t` is the version line plus the eight blocks, every decoder
reading it back makes exactly the calls `recordCalls m T H`, every call is accepted by the `Beatmap` decoder, and the
counts come back. -/
theorem encoded_file_accepted_decoded_ieee_int_partial (bs : List UInt8) (st : BeatmapState Float Float32)
    (m : Beatmap Float Float32) (h1 : decodeBytes beatmapDecoder bs = .ok st) (h2 : st.finish = .ok m)
    (hds : DecodedInv.NoDoubleSlash m) (htim : RtTiming.RepTimingMap IeeeRep64 m)
    (hres : ∀ h ∈ m.hitObjects, ObjResidualInt h) (t : Str) (h : encode m = .ok t) :
    ∃ (cp : ControlPoints Float) (T H : List Str),
      collectSamples m = .ok cp ∧ T = (mapEntries m cp).map Entry.line ∧
      encodeTimingPoints m = .ok (unlines (str "[TimingPoints]" :: T)) ∧
      encodeHitObjects m = .ok (unlines (str "[HitObjects]" :: H)) ∧
      RtFile.ListBlockShape T ∧ RtFile.ListBlockShape H ∧ H.length = m.hitObjects.length ∧
      t = unlines (RtFile.fileLines m.formatVersion (RtGeneral.generalLines m.general (RtGeneral.sampleSetOf m.controlPoints))
        (RtEditor.editorLines m.editor) (RtMetadata.metadataLines m.metadata) (RtDifficulty.difficultyLines m.difficulty)
        (RtEvents.eventLines m.events) T (RtColours.colourLines m.colors) H) ∧
      (∀ (σ : Type) (Dc : LineDecoder σ),
        decodeBytes Dc (utf8Encode t) = .ok (runCalls Dc (Dc.create m.formatVersion) (recordCalls m T H))) ∧
      decodeBytes recorder (utf8Encode t) = .ok { version := m.formatVersion, calls := (recordCalls m T H).reverse } ∧
      CallsAccepted (BeatmapState.create m.formatVersion : BeatmapState Float Float32) (recordCalls m T H) ∧
      ∃ st' : BeatmapState Float Float32, decodeBytes beatmapDecoder (utf8Encode t) = .ok st' ∧
        st'.hitObjects.core.hitObjects.length = m.hitObjects.length ∧
        st'.hitObjects.events.breaks.length = m.events.breaks.length ∧
        st'.colors.customComboColors.length = m.colors.customComboColors.length ∧
        st'.colors.customColors.length = m.colors.customColors.length ∧
        st'.hitObjects.timingPoints = C12.runStrs { (TimingPointsState.create : TimingPointsState Float Float32) with
          general := RtGeneral.preservedGeneral m.general (RtGeneral.sampleSetOf m.controlPoints) } (T.map trimEnd) ∧
        (T.map trimEnd).length = (mapEntries m cp).length :=
  encoded_file_accepted
    ⟨C02.codecLaws_float_ieee, C02.codecLaws_float32_ieee, C02.intPrintLaw_float_ieee, FCO.coordLaws_float⟩ m
    (decoded_repMap_ieee_int_partial bs st m h1 h2 hds htim hres) t h

end

/-! ## non-vacuity and sharpness: closed files, decoded and finalised by the kernel on actual doubles

(`Trig Float` of Model/FloatInst.lean, `Trig Float32` of Model/Cmds/Curve.lean; one object per file: the finaliser's
`List.mergeSort` does not reduce in the kernel on longer lists.) -/

section Examples
set_option maxRecDepth 100000

/-- decode and finalise (kernel-evaluable on closed byte strings). -/
def decodeFinish (bs : List UInt8) : Option (Beatmap Float Float32) :=
  match decodeBytes (beatmapDecoder : LineDecoder (BeatmapState Float Float32)) bs with
  | .ok st => (match st.finish with | .ok m => some m | .error _ => none)
  | .error _ => none

theorem decodeFinish_spec {bs : List UInt8} {m : Beatmap Float Float32} (h : decodeFinish bs = some m) :
    ∃ st : BeatmapState Float Float32, decodeBytes beatmapDecoder bs = .ok st ∧ st.finish = .ok m := by
  unfold decodeFinish at h
  cases h1 : decodeBytes (beatmapDecoder : LineDecoder (BeatmapState Float Float32)) bs with
  | error e => rw [h1] at h; cases h
  | ok st =>
    rw [h1] at h
    simp only [] at h
    cases h2 : st.finish with
    | error e => rw [h2] at h; cases h
    | ok m' => rw [h2] at h; simp only [Option.some.injEq] at h; exact ⟨st, rfl, h ▸ h2⟩

/-- a mania file with one `[HitObjects]` line after a rejected one. -/
def ieeeFileOf (l : String) : List UInt8 :=
  (str "osu file format v14\n\n[General]\nMode: 3\n\n[HitObjects]\n1,2,3\n" ++ str l ++ str "\n").map (fun c => c.toNat.toUInt8)

def fileResB (l : List HitSampleInfo) : Bool :=
  decide (trimEnd (fileNameOf l) = fileNameOf l) && decide ('|' ∉ fileNameOf l)

theorem fileRes_of_check {l : List HitSampleInfo} (h : fileResB l = true) : FileNameResidual l := by
  unfold fileResB at h
  simp only [Bool.and_eq_true, decide_eq_true_eq] at h
  exact ⟨h.1, h.2⟩

/-- `IntSpan` as a check: the witnesses are `t as i32`, `d as i32` (enough for spans below `2³¹`). -/
def intSpanB (t d : Float) : Bool :=
  decide (t = Float.ofInt (Scalar.toI32 t)) && decide (d = Float.ofInt (Scalar.toI32 d)) &&
    decide (-2147483647 ≤ (Scalar.toI32 t : Int)) && decide (0 ≤ (Scalar.toI32 d : Int)) &&
    decide ((Scalar.toI32 t : Int) + Scalar.toI32 d ≤ 2147483647)

theorem intSpan_of_check {t d : Float} (h : intSpanB t d = true) : IntSpan t d := by
  unfold intSpanB at h
  simp only [Bool.and_eq_true, decide_eq_true_eq] at h
  obtain ⟨⟨⟨⟨a1, a2⟩, a3⟩, a4⟩, a5⟩ := h
  exact ⟨_, _, a3, a4, a5, a1, a2⟩

def endOkB (t d : Float) : Bool := !(Scalar.lt (maxParseValue : Float) (t + d))

theorem endOk_of_check {t d : Float} (h : endOkB t d = true) : EndOk t d := by
  unfold endOkB at h
  unfold EndOk
  cases hl : Scalar.lt (maxParseValue : Float) (t + d)
  · rfl
  · rw [hl] at h; cases h

/-- the residuals as checks (sliders: with a requested length, so that the F20 clause is void). -/
def objResidualIntB (h : HitObject Float Float32) : Bool :=
  match h.kind with
  | .slider s => decide (PathShapeOk s.path.controlPoints) && s.path.expectedDist.isSome
  | .circle _ => fileResB h.samples
  | .spinner sp => fileResB h.samples && intSpanB h.startTime sp.duration
  | .hold ho => fileResB h.samples && intSpanB h.startTime ho.duration

def objResidualAccB (h : HitObject Float Float32) : Bool :=
  match h.kind with
  | .slider s => decide (PathShapeOk s.path.controlPoints) && s.path.expectedDist.isSome
  | .circle _ => fileResB h.samples
  | .spinner sp => fileResB h.samples && endOkB h.startTime sp.duration
  | .hold ho => fileResB h.samples && endOkB h.startTime ho.duration

theorem objResidualInt_of_check (h : HitObject Float Float32) (hb : objResidualIntB h = true) : ObjResidualInt h := by
  unfold objResidualIntB at hb
  unfold ObjResidualInt
  cases hk : h.kind with
  | slider s =>
    rw [hk] at hb
    simp only [Bool.and_eq_true, decide_eq_true_eq] at hb
    exact ⟨hb.1, fun hn => by rw [hn] at hb; cases hb.2⟩
  | circle c => rw [hk] at hb; exact fileRes_of_check hb
  | spinner c =>
    rw [hk] at hb; simp only [Bool.and_eq_true] at hb; exact ⟨fileRes_of_check hb.1, intSpan_of_check hb.2⟩
  | hold c =>
    rw [hk] at hb; simp only [Bool.and_eq_true] at hb; exact ⟨fileRes_of_check hb.1, intSpan_of_check hb.2⟩

theorem objResidualAcc_of_check (h : HitObject Float Float32) (hb : objResidualAccB h = true) : ObjResidualAcc h := by
  unfold objResidualAccB at hb
  unfold ObjResidualAcc
  cases hk : h.kind with
  | slider s =>
    rw [hk] at hb
    simp only [Bool.and_eq_true, decide_eq_true_eq] at hb
    exact ⟨hb.1, fun hn => by rw [hn] at hb; cases hb.2⟩
  | circle c => rw [hk] at hb; exact fileRes_of_check hb
  | spinner c =>
    rw [hk] at hb; simp only [Bool.and_eq_true] at hb; exact ⟨fileRes_of_check hb.1, endOk_of_check hb.2⟩
  | hold c =>
    rw [hk] at hb; simp only [Bool.and_eq_true] at hb; exact ⟨fileRes_of_check hb.1, endOk_of_check hb.2⟩

/-- a circle with fractional coordinates and a custom sample file; a two-segment slider with fractional / negative
coordinates and a requested length; a spinner and a hold note with integer times (the hold ends at the parse limit). -/
def ieeeIntLines : List String :=
  ["256.7,-192.9,1000,5,2,2:3:7:60:hit.wav",
   "256.7,-192.9,1000,2,0,L|300.5:10|-20:40.9|-20:40.9|100:100,1,140.5",
   "256,192,3000,12,0,3500,1:0:0:0:",
   "64,192,4000,128,4,2147483647:1:2:0:0:"]

/-- each of the four files decodes and finalises to one object, which satisfies `ObjResidualInt` (kernel evaluation). -/
theorem ieeeIntLines_checked : ∀ l ∈ ieeeIntLines,
    (decodeFinish (ieeeFileOf l)).map (fun m => (m.hitObjects.length, m.hitObjects.all objResidualIntB)) = some (1, true) := by
  decide +kernel

/-- **the hypotheses of `hitobjects_block_accepted_decoded_ieee_int` (and of the circle / slider / spinner / hold theorems) are
satisfiable on actual doubles**, and its conclusion for these files: the object is `RepObject`, the block is one line,
accepted in any state. -/
theorem ieeeIntLines_accepted : ∀ l ∈ ieeeIntLines,
    ∃ (st : BeatmapState Float Float32) (m : Beatmap Float Float32),
      decodeBytes beatmapDecoder (ieeeFileOf l) = .ok st ∧ st.finish = .ok m ∧ m.hitObjects.length = 1 ∧
      (∀ h ∈ m.hitObjects, ObjResidualInt h) ∧
      (∀ h ∈ m.hitObjects, RepObject IeeeRep64 IeeeRep32 m.general.mode h) ∧
      ∃ H : List Str, encodeHitObjects m = .ok (unlines (str "[HitObjects]" :: H)) ∧ H.length = 1 ∧
        ∀ st' : HOCore Float Float32, Accepts (parseHitObjectLine m.general.mode) st' (H.map trimEnd) := by
  intro l hl
  have hc := ieeeIntLines_checked l hl
  cases hm : decodeFinish (ieeeFileOf l) with
  | none => rw [hm] at hc; cases hc
  | some m =>
    rw [hm] at hc
    simp only [Option.map_some, Option.some.injEq, Prod.mk.injEq] at hc
    obtain ⟨st, h1, h2⟩ := decodeFinish_spec hm
    have hres : ∀ h ∈ m.hitObjects, ObjResidualInt h :=
      fun h hh => objResidualInt_of_check h (List.all_eq_true.mp hc.2 h hh)
    obtain ⟨H, e1, _, e3, e4⟩ := hitobjects_block_accepted_decoded_ieee_int _ st m h1 h2 hres
    exact ⟨st, m, h1, h2, hc.1, hres,
      fun h hh => decoded_objects_representable_ieee_int_partial _ st m h1 h2 _ h hh (hres h hh),
      H, e1, by rw [e3, hc.1], e4⟩

/-- a spinner and a hold note with FRACTIONAL times (`0.09` … `0.34`: the drifting pair). -/
def ieeeAccLines : List String := ["256,192,0.09,12,0,0.34", "64,192,0.09,128,0,0.34:0:0:0:0:"]

/-- what the kernel computes for the two files: one object; `ObjResidualAcc` holds; the line the encoder writes is accepted;
the stored duration is `0.25` and the duration read back from the encoder's line is `0.24999999999999997`; consequently the
`duration` clause of `RepSpinner` / `RepHold` is FALSE of the decoded object. -/
def driftB (h : HitObject Float Float32) : Bool :=
  match h.kind with
  | .spinner sp => decide (Scalar.max ((h.startTime + sp.duration) - h.startTime) 0 ≠ sp.duration)
  | .hold ho => decide (Scalar.max h.startTime (h.startTime + ho.duration) - h.startTime ≠ ho.duration)
  | _ => false

def durationBits (k : HitObjectKind Float Float32) : List UInt64 :=
  match k with
  | .spinner sp => [sp.duration.toBits]
  | .hold ho => [ho.duration.toBits]
  | _ => []

/-- the object re-read from the line the encoder writes for `h`: accepted?, and the duration bits. -/
def reread (mode : GameMode) (h : HitObject Float Float32) : Bool × List (List UInt64) :=
  match encodeObject mode h with
  | .ok t =>
    let r := parseHitObjectLine mode ({} : HOCore Float Float32) (trimEnd t)
    (r.2, r.1.hitObjects.map (fun o => durationBits o.kind))
  | .error _ => (false, [])

set_option synthInstance.maxSize 1000 in
theorem ieeeAccLines_checked : ∀ l ∈ ieeeAccLines,
    (decodeFinish (ieeeFileOf l)).map (fun m => (m.hitObjects.length, m.hitObjects.all objResidualAccB,
      m.hitObjects.all driftB, m.hitObjects.map (fun h => (durationBits h.kind, reread m.general.mode h)))) =
      (some (1, true, true, [([0x3FD0000000000000], true, [[0x3FCFFFFFFFFFFFFF]])]) :
        Option (Nat × Bool × Bool × List (List UInt64 × Bool × List (List UInt64)))) := by
  decide +kernel

/-- **the hypotheses of `hitobjects_block_accepted_decoded_ieee` are satisfiable on objects that are NOT `RepObject`**: the
drifting spinner and hold note. Their block is accepted (C04 holds), their duration is not recovered (C02 fails). -/
theorem ieeeAccLines_accepted : ∀ l ∈ ieeeAccLines,
    ∃ (st : BeatmapState Float Float32) (m : Beatmap Float Float32),
      decodeBytes beatmapDecoder (ieeeFileOf l) = .ok st ∧ st.finish = .ok m ∧ m.hitObjects.length = 1 ∧
      (∀ h ∈ m.hitObjects, ObjResidualAcc h) ∧
      (∀ h ∈ m.hitObjects, ¬ RepObject IeeeRep64 IeeeRep32 m.general.mode h) ∧
      ∃ H : List Str, encodeHitObjects m = .ok (unlines (str "[HitObjects]" :: H)) ∧ H.length = 1 ∧
        ∀ st' : HOCore Float Float32, Accepts (parseHitObjectLine m.general.mode) st' (H.map trimEnd) := by
  intro l hl
  have hc := ieeeAccLines_checked l hl
  cases hm : decodeFinish (ieeeFileOf l) with
  | none => rw [hm] at hc; cases hc
  | some m =>
    rw [hm] at hc
    simp only [Option.map_some, Option.some.injEq, Prod.mk.injEq] at hc
    obtain ⟨c1, c2, c3, _⟩ := hc
    obtain ⟨st, h1, h2⟩ := decodeFinish_spec hm
    have hres : ∀ h ∈ m.hitObjects, ObjResidualAcc h :=
      fun h hh => objResidualAcc_of_check h (List.all_eq_true.mp c2 h hh)
    obtain ⟨H, e1, _, e3, e4⟩ := hitobjects_block_accepted_decoded_ieee _ st m h1 h2 hres
    refine ⟨st, m, h1, h2, c1, hres, fun h hh hr => ?_, H, e1, by rw [e3, c1], fun st' => (e4 st').1⟩
    have hb := List.all_eq_true.mp c3 h hh
    unfold driftB at hb
    cases hr with
    | circle c hk _ => rw [hk] at hb; cases hb
    | slider s d hk _ => rw [hk] at hb; cases hb
    | spinner sp hk hr => rw [hk] at hb; exact (of_decide_eq_true hb) hr.duration
    | hold ho hk hr => rw [hk] at hb; exact (of_decide_eq_true hb) hr.duration

/-- **the full statement is false on the IEEE instances for a reason that is neither F17, F20 nor F21**: the drifting
spinner (no custom sample file, no slider) is not `RepObject` (new finding: duration drift, C02). -/
theorem decoded_objects_representable_statement_false_ieee :
    ¬ decoded_objects_representable_statement Float Float32 IeeeRep64 IeeeRep32 := by
  intro hst
  obtain ⟨st, m, h1, h2, hlen, _, hnot, _⟩ := ieeeAccLines_accepted "256,192,0.09,12,0,0.34" (by simp [ieeeAccLines])
  cases hobjs : m.hitObjects with
  | nil => rw [hobjs] at hlen; cases hlen
  | cons h rest =>
    have hh : h ∈ m.hitObjects := by rw [hobjs]; exact List.mem_cons_self
    exact hnot h hh (hst _ st m h1 h2 h hh)

/-- a spinner and a hold note whose written end time exceeds the limit (`end_time_over_limit_float`). -/
def ieeeOverLines : List String :=
  ["256,192,-1.0000007152557373,12,0,2147483647", "64,192,-1.0000007152557373,128,0,2147483647:0:0:0:0:"]

set_option synthInstance.maxSize 1000 in
/-- **the `EndOk` residual is needed** (new finding: C04 fails on doubles): each file decodes and finalises to one object
(stored duration `2147483648.000001`) violating `EndOk`, and the line `encode_hit_objects` writes for it — end time
`2147483647.0000002` — is REJECTED by `parse_hit_objects`: the object is lost on re-decoding. -/
theorem ieeeOverLines_rejected : ∀ l ∈ ieeeOverLines,
    (decodeFinish (ieeeFileOf l)).map (fun m => (m.hitObjects.length, m.hitObjects.any objResidualAccB,
      m.hitObjects.map (fun h => (durationBits h.kind, reread m.general.mode h)))) =
      (some (1, false, [([0x41E0000000000002], false, [])]) :
        Option (Nat × Bool × List (List UInt64 × Bool × List (List UInt64)))) := by
  decide +kernel

end Examples

end Rosu.C04
