/-
  Props/C04DecodedObjectsIeee2.lean — Props/C04DecodedObjects.lean on the driver's IEEE instances, second part: sliders,
  spinners and hold notes (`F = Float`, `P = Float32`; representable = not NaN).
-/
import RosuModel.Props.C04DecodedObjectsIeee
import RosuModel.Lemmas.FloatIntExact32
import RosuModel.Lemmas.SliderEx
import RosuModel.Model.Cmds.Curve
set_option linter.unusedSectionVars false
namespace Rosu.C04
open Rosu Scalar RtObjects SliderRt DecodedObj EncodeLines Encode

/-! ## (a) slider control points: `CtrlLaws` is a theorem of the IEEE instances -/

/-- a representable coordinate of the IEEE instance is `z as f32` for an integer `|z| ≤ 131072` (in particular it is not
`−0.0`: `RepCoord.integral` excludes it). -/
theorem repCoord_int32 (a : Float32) (h : RepCoord IeeeRep32 a) : ∃ z : Int, z.natAbs ≤ 131072 ∧ a = Float32.ofInt z := by
  obtain ⟨⟨h1, h2⟩, _⟩ := C14.position_truncated_float32 a h.lim
  exact ⟨Scalar.toI32 a, by omega, h.integral.symm⟩

/-- **`CtrlLaws` holds of `f64` / `f32` in its GLOBAL form** (no restriction to "the values that occur" is needed: `RepCoord`
already confines `a`, `b` to integers within ±131072, so `b − a` and `a + (b − a)` are integers of magnitude `≤ 2^18 < 2^23`
and are computed exactly: `FTR.sub_int_exact_float32`, `FIE.add_int_exact_float32`; `truncF` is `FTR.trunc_coord64`). -/
theorem ctrlLaws_float : CtrlLaws Float Float32 IeeeRep32 where
  truncF := fun x hx => by
    obtain ⟨_, _, _, h4, h5⟩ := FTR.trunc_coord64 x hx
    exact ⟨h4.2.2, h4, by rw [h5]⟩
  addSub := fun a b ha hb => by
    obtain ⟨za, hza, rfl⟩ := repCoord_int32 a ha
    obtain ⟨zb, hzb, rfl⟩ := repCoord_int32 b hb
    exact FIE.add_sub_cancel_int32 za zb hza hzb
  addZero := fun a ha => by
    obtain ⟨za, hza, rfl⟩ := repCoord_int32 a ha
    exact ⟨FIE.add_zero_int32 za (by omega), FIE.sub_self_int32 za (by omega)⟩

/-- kernel check of the three clauses on actual `f32`s: head `−131072`, read coordinate `131072` (offset `262144`), and
the `f64` `−131071.999…` truncating to `−131071`. -/
example : (Float32.ofInt (-131072) + (Float32.ofInt 131072 - Float32.ofInt (-131072))).toBits = (Float32.ofInt 131072).toBits ∧
    (Float32.ofInt (-131072) + 0).toBits = (Float32.ofInt (-131072)).toBits ∧
    (Float32.ofInt 7 - Float32.ofInt 7).toBits = (0 : Float32).toBits ∧
    InCoord (Float.ofBits 0xC0FFFFFFFFFFFFFF) ∧
    (Scalar.ofInt (Scalar.toI32 (Float.ofBits 0xC0FFFFFFFFFFFFFF)) : Float32).toBits = (Float32.ofInt (-131071)).toBits := by
  decide +kernel

section
variable [Trig Float] [Trig Float32]

/-- **sliders of decoded maps, IEEE instances: no law hypothesis** — every slider of every decoded map whose path has the
shape `PathShapeOk` (F17 excluded there; assumed, not derived from `convert_path_str`: hence `_partial`) and whose computed
distance, when no length was requested, is not NaN and within ±131072 (F20) is `RepSlider` for the length the encoder
writes. `ObjLaws` and `CtrlLaws` are discharged (`objLaws_ieee`, `ctrlLaws_float`). -/
theorem decoded_sliders_representable_ieee_partial (bs : List UInt8) (st : BeatmapState Float Float32)
    (m : Beatmap Float Float32) (h1 : decodeBytes beatmapDecoder bs = .ok st) (h2 : st.finish = .ok m) (mode : GameMode) :
    ∀ h ∈ m.hitObjects, ∀ s, h.kind = .slider s → SliderResidual IeeeRep64 s →
      ∃ dist, RepSlider IeeeRep64 IeeeRep32 mode h s dist :=
  decoded_sliders_representable_partial objLaws_ieee ctrlLaws_float bs st m h1 h2 mode

end

/-- `PathShapeOk` is decidable over any scalar with decidable equality. -/
instance decPathShapeOkGen {P : Type} [Scalar P] [DecidableEq P] : ∀ cps : List (PathControlPoint P), Decidable (PathShapeOk cps)
  | [] => isFalse (fun h => h)
  | p0 :: rest =>
    match h0 : p0.pathType with
    | none => isFalse (fun h => by have := h.2; rw [h0] at this; exact this)
    | some t0 =>
      decidable_of_iff (p0.pos = Pos.zero ∧ (WfType t0 ∧ PShape t0 p0.pos rest ∧ ChainOK t0 p0 rest))
        (by unfold PathShapeOk; simp only [h0])

end Rosu.C04
