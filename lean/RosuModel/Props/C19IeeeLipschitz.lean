/-
  Props/C19IeeeLipschitz.lean — C19 on IEEE floats: the arc-length clause ACROSS segments ("the position never moves farther
  than the distance travelled along the curve"), the IEEE counterpart of `position_lipschitz` (Props/C19Lipschitz.lean,
  exact arithmetic). Same organisation as there: the two positions are tied to the vertices next to them, and the chords of
  the vertices in between telescope against the booked cumulative lengths.

  (1) `ChordBooked κ path lengths`: per coordinate, the chord of segment `k` is at most `(1 + κ)` times the difference
      `lengths[k+1] − lengths[k]` of the two STORED cumulative lengths (exact arithmetic: `κ = 0`, `C19.ChordBound`);
      **`chordBooked_natural`**: it holds with `κ = 2⁻²⁰` for the naturally booked lengths `natLens opt path`
      (`0 :: cumLens opt path`), from `chord_le_booked_float`, under its side conditions for every segment from the second on
      and with the first segment's chord hypothesis stated apart (it carries `opt`);
      **`vertex_chord_sum_float32`**: for vertex indices `i ≤ j`: `|x_j − x_i| ≤ (L_j − L_i)(1 + κ)` (telescoping).
  (2) `position_anchor_float32`: the position for a distance `d` in range, bracket `i = idx_of_dist d`, is tied to BOTH end
      vertices of its bracket: `|p.x − x_i| ≤ (L_i − s)(1 + κ) + interpBound`, `|p.x − x_{i−1}| ≤ (s − L_{i−1})(1 + κ) + interpBound`
      for an "effective arc" `s ≤ d`, `s = d` unless the bracket is degenerate (`|L_{i−1} − L_i| <= EPSILON`: the code returns the
      vertex `path[i−1]` itself, `s = L_{i−1}`);
      **`position_lipschitz_float32`**: for `lengths[0] <= d <= d' <= last`: the brackets satisfy `i ≤ i'` and per coordinate
      `|x(d) − x(d')| ≤ (d' − d)(1 + κ) + 2·interpBound` — the constant is `2`, one `interpBound` per position (`< 0.4376` px in
      total). Non-degeneracy is needed for the bracket of `d` only, and only when `0 < i < i'`;
      `position_lipschitz_degenerate_float32`: without it the bound is `(d' − L_{i−1})(1 + κ) + interpBound`.
  (3) **`positionAt_lipschitz_float32`**: the same through `progress_to_dist`, for any two numbers `q <= q'` as progress.
  Kernel-evaluated non-vacuity on the demo curve `(100,200) → (107,224) → (100,200)`, lengths `[0, 25, 50]`, `d = 10`, `d' = 30`.
-/
import RosuModel.Props.C19IeeeFinite
namespace Rosu.C19
open Rosu Rosu.Curve Rosu.FErr

/-! ## (1) booked lengths vs. chords, telescoped -/

/-- per coordinate, the chord of every segment is at most `(1 + κ)` times the difference of the two stored cumulative
lengths. -/
def ChordBooked (κ : ℚ) (path : List (Pos Float32)) (lengths : List Float) : Prop :=
  ∀ (k : Nat) (p p' : Pos Float32) (x y : Float), path[k]? = some p → path[k + 1]? = some p' →
    lengths[k]? = some x → lengths[k + 1]? = some y →
    |toRat32 p'.x - toRat32 p.x| ≤ (toRat y - toRat x) * (1 + κ) ∧
    |toRat32 p'.y - toRat32 p.y| ≤ (toRat y - toRat x) * (1 + κ)

/-- **the chords of the vertices between two indices telescope against the booked lengths**: for `i ≤ j`,
`|x_j − x_i| ≤ (L_j − L_i)(1 + κ)` and the same for `y`. -/
theorem vertex_chord_sum_float32 (κ : ℚ) (path : List (Pos Float32)) (lengths : List Float)
    (hch : ChordBooked κ path lengths) (i j : Nat) (hij : i ≤ j) (pi pj : Pos Float32) (li lj : Float)
    (hpi : path[i]? = some pi) (hpj : path[j]? = some pj) (hli : lengths[i]? = some li) (hlj : lengths[j]? = some lj) :
    |toRat32 pj.x - toRat32 pi.x| ≤ (toRat lj - toRat li) * (1 + κ) ∧
    |toRat32 pj.y - toRat32 pi.y| ≤ (toRat lj - toRat li) * (1 + κ) := by
  obtain ⟨n, rfl⟩ : ∃ n, j = i + n := ⟨j - i, by omega⟩
  clear hij
  induction n generalizing pj lj with
  | zero =>
    rw [Nat.add_zero, hpi] at hpj; rw [Nat.add_zero, hli] at hlj
    cases hpj; cases hlj
    simp
  | succ n ih =>
    have h1 : i + n < path.length := by
      rcases Nat.lt_or_ge (i + n + 1) path.length with h | h
      · omega
      · rw [show i + (n + 1) = i + n + 1 by omega, List.getElem?_eq_none h] at hpj; cases hpj
    have h2 : i + n < lengths.length := by
      rcases Nat.lt_or_ge (i + n + 1) lengths.length with h | h
      · omega
      · rw [show i + (n + 1) = i + n + 1 by omega, List.getElem?_eq_none h] at hlj; cases hlj
    have hp : path[i + n]? = some path[i + n] := List.getElem?_eq_getElem h1
    have hl : lengths[i + n]? = some lengths[i + n] := List.getElem?_eq_getElem h2
    obtain ⟨ix, iy⟩ := ih _ _ hp hl
    obtain ⟨cx, cy⟩ := hch (i + n) _ pj _ lj hp hpj hl hlj
    constructor
    · have := abs_sub_le (toRat32 pj.x) (toRat32 path[i + n].x) (toRat32 pi.x)
      linarith
    · have := abs_sub_le (toRat32 pj.y) (toRat32 path[i + n].y) (toRat32 pi.y)
      linarith

/-- the side conditions of `chord_le_booked_float` for segment `k ≥ 1` of a naturally booked path: no overflow in the `f32`
sum of squares, the `f64` root, the `f32` length and the `f64` running sum; the segment is not shorter than `2⁻⁵⁰` px; the
length so far is non-negative and at most `2²⁷` times the segment's booked length. -/
def NatBookOK (path : List (Pos Float32)) (lengths : List Float) : Prop :=
  ∀ (k : Nat) (a b : Pos Float32) (lk : Float), 1 ≤ k → path[k]? = some a → path[k + 1]? = some b →
    lengths[k]? = some lk →
    ((b - a).x * (b - a).x + (b - a).y * (b - a).y).isFinite = true ∧
    (Scalar.sqrt (Cvt.up ((b - a).x * (b - a).x + (b - a).y * (b - a).y) : Float) : Float).isFinite = true ∧
    (Pos.length Float (b - a)).isFinite = true ∧
    (2 : ℚ) ^ (-100 : Int) ≤ (toRat32 b.x - toRat32 a.x) ^ 2 + (toRat32 b.y - toRat32 a.y) ^ 2 ∧
    (lk + (Cvt.up (Pos.length Float (b - a)) : Float)).isFinite = true ∧
    0 ≤ toRat lk ∧ toRat lk ≤ 134217728 * toRat32 (Pos.length Float (b - a))

/-- **`ChordBooked` with `κ = 2⁻²⁰` for the natural cumulative lengths** `natLens opt path = 0 :: cumLens opt path`
(`calculate_length` without a requested length), from `chord_le_booked_float`: for every segment `k ≥ 1` the stored
`lengths[k+1]` IS `lengths[k] ⊕ f64::from(ℓ_k)` (`C16.natLens_step`), under the side conditions `NatBookOK`. Segment `0` is
booked as `0 → opt ⊕ ℓ_0` (`opt = optimized_len`, not `lengths[0] ⊕ ℓ_0`), so `chord_le_booked_float` applies to it with
`lk = opt` and gives the chord against `lengths[1] − opt`; its chord bound against `lengths[1] − lengths[0] = lengths[1]` is
the hypothesis `h0` (for `opt = +0` it is `chord_le_booked_float` at `lk = 0`, see `chordBooked_natural_zero`). -/
theorem chordBooked_natural (opt : Float) (path : List (Pos Float32))
    (h0 : ∀ (a b : Pos Float32) (y : Float), path[0]? = some a → path[1]? = some b →
      (C16.natLens opt path)[1]? = some y →
      |toRat32 b.x - toRat32 a.x| ≤ toRat y * (1 + (2 : ℚ) ^ (-20 : Int)) ∧
      |toRat32 b.y - toRat32 a.y| ≤ toRat y * (1 + (2 : ℚ) ^ (-20 : Int)))
    (hok : NatBookOK path (C16.natLens opt path)) :
    ChordBooked ((2 : ℚ) ^ (-20 : Int)) path (C16.natLens opt path) := by
  intro k p p' x y hp hp' hx hy
  cases k with
  | zero =>
    have hx0 : x = 0 := by
      unfold C16.natLens at hx
      simp only [List.getElem?_cons_zero, Option.some.injEq] at hx
      exact hx.symm
    subst hx0
    rw [toRat_zero, sub_zero]
    exact h0 p p' y hp hp' hy
  | succ k =>
    have hstep := C16.natLens_step opt path (k + 1) p p' x (by omega) hp hp' hx
    rw [hy] at hstep
    cases hstep
    obtain ⟨hs, hsq, hl, hE, hfs, hl0, hlℓ⟩ := hok (k + 1) p p' x (by omega) hp hp' hx
    exact chord_le_booked_float p p' x hs hsq hl hE hfs hl0 hlℓ

/-- the first segment for `opt = +0` (every mode but osu!-Catmull with removed points): the stored `lengths[1]` is
`0 ⊕ f64::from(ℓ_0)`, and `chord_le_booked_float` at `lk = 0` gives the hypothesis `h0` of `chordBooked_natural`. -/
theorem chordBooked_natural_zero (path : List (Pos Float32))
    (hfirst : ∀ (a b : Pos Float32), path[0]? = some a → path[1]? = some b →
      ((b - a).x * (b - a).x + (b - a).y * (b - a).y).isFinite = true ∧
      (Scalar.sqrt (Cvt.up ((b - a).x * (b - a).x + (b - a).y * (b - a).y) : Float) : Float).isFinite = true ∧
      (Pos.length Float (b - a)).isFinite = true ∧
      (2 : ℚ) ^ (-100 : Int) ≤ (toRat32 b.x - toRat32 a.x) ^ 2 + (toRat32 b.y - toRat32 a.y) ^ 2 ∧
      ((0 : Float) + (Cvt.up (Pos.length Float (b - a)) : Float)).isFinite = true)
    (hok : NatBookOK path (C16.natLens (0 : Float) path)) :
    ChordBooked ((2 : ℚ) ^ (-20 : Int)) path (C16.natLens (0 : Float) path) := by
  refine chordBooked_natural 0 path ?_ hok
  intro a b y ha hb hy
  obtain ⟨hs, hsq, hl, hE, hfs⟩ := hfirst a b ha hb
  match path, ha, hb, hy with
  | a' :: b' :: t, ha, hb, hy =>
    simp only [List.getElem?_cons_zero, List.getElem?_cons_succ, Option.some.injEq] at ha hb
    subst ha hb
    unfold C16.natLens at hy
    rw [C16.cumLens_cons2] at hy
    simp only [List.getElem?_cons_zero, List.getElem?_cons_succ, Option.some.injEq] at hy
    subst hy
    have := chord_le_booked_float a' b' 0 hs hsq hl hE hfs (by rw [toRat_zero])
      (by rw [toRat_zero]; exact mul_nonneg (by norm_num) (seglen_nonneg _ hl))
    rw [toRat_zero, sub_zero] at this
    exact this

/-! ## (2) the arc-length clause across segments -/

theorem interpBound_nonneg : 0 ≤ interpBound := by unfold interpBound; positivity

/-- over ℚ: the exact point `x0 + w (x1 − x0)`, `w = (D − D0)/(D1 − D0) ∈ [0, 1]`, of a segment whose chord is at most
`(D1 − D0)(1 + κ)` is within `(D1 − D)(1 + κ)` of `x1` and within `(D − D0)(1 + κ)` of `x0`. -/
theorem seg_point_to_ends (x0 x1 D D0 D1 κ : ℚ) (h01 : D0 < D1)
    (hw0 : 0 ≤ (D - D0) / (D1 - D0)) (hw1 : (D - D0) / (D1 - D0) ≤ 1)
    (hc : |x1 - x0| ≤ (D1 - D0) * (1 + κ)) :
    |x0 + (D - D0) / (D1 - D0) * (x1 - x0) - x1| ≤ (D1 - D) * (1 + κ) ∧
    |x0 + (D - D0) / (D1 - D0) * (x1 - x0) - x0| ≤ (D - D0) * (1 + κ) := by
  have hpos : 0 < D1 - D0 := by linarith
  have hwG : (D - D0) / (D1 - D0) * (D1 - D0) = D - D0 := div_mul_cancel₀ _ hpos.ne'
  generalize (D - D0) / (D1 - D0) = w at *
  constructor
  · have e : x0 + w * (x1 - x0) - x1 = -((1 - w) * (x1 - x0)) := by ring
    rw [e, abs_neg, abs_mul, abs_of_nonneg (by linarith : (0 : ℚ) ≤ 1 - w)]
    have h := mul_le_mul_of_nonneg_left hc (by linarith : (0 : ℚ) ≤ 1 - w)
    have e2 : (1 - w) * ((D1 - D0) * (1 + κ)) = (D1 - D) * (1 + κ) := by
      have : (1 - w) * (D1 - D0) = D1 - D := by linarith
      rw [← mul_assoc, this]
    linarith
  · have e : x0 + w * (x1 - x0) - x0 = w * (x1 - x0) := by ring
    rw [e, abs_mul, abs_of_nonneg hw0]
    have h := mul_le_mul_of_nonneg_left hc hw0
    have e2 : w * ((D1 - D0) * (1 + κ)) = (D - D0) * (1 + κ) := by rw [← mul_assoc, hwG]
    linarith

/-- every cumulative length of a curve with `0 <= lengths[0]` and a finite last length is finite and `>= 0`. -/
theorem len_finite_nonneg (lengths : List Float) (hs : Sorted lengths) (a b : Float)
    (ha : lengths[0]? = some a) (hb : lengths.getLast? = some b)
    (ha0 : Scalar.le (0 : Float) a = true) (hbf : b.isFinite = true) (k : Nat) (x : Float) (hx : lengths[k]? = some x) :
    x.isFinite = true ∧ Scalar.le (0 : Float) x = true := by
  have hb' : lengths[lengths.length - 1]? = some b := by
    rw [List.getLast?_eq_getElem?] at hb; exact hb
  have hk : k < lengths.length := by
    rcases Nat.lt_or_ge k lengths.length with h | h
    · exact h
    · rw [List.getElem?_eq_none h] at hx; cases hx
  have h0 : Scalar.le (0 : Float) x = true := FMO.le_trans _ _ _ ha0 (hs 0 k a x (Nat.zero_le _) ha hx)
  exact ⟨finite_of_between 0 x b rfl hbf h0 (hs k (lengths.length - 1) x b (by omega) hx hb'), h0⟩

/-- **the binary search is monotone**: `lengths[0] <= d <= d' <= last` ⟹ `idx_of_dist d ≤ idx_of_dist d'`. Only order facts. -/
theorem idxOfDist_mono_float (lengths : List Float) (hs : Sorted lengths) (d d' a b : Float)
    (ha : lengths[0]? = some a) (hb : lengths.getLast? = some b)
    (hlo : Scalar.le a d = true) (hdd : Scalar.le d d' = true) (hhi : Scalar.le d' b = true) :
    idxOfDist lengths d ≤ idxOfDist lengths d' := by
  obtain ⟨hil, d1, hd1, hle1, _, _, hpos⟩ :=
    idxOfDist_bracket_float lengths hs d a b ha hb hlo (FMO.le_trans _ _ _ hdd hhi)
  obtain ⟨hil', d1', hd1', hle1', hup', _, _⟩ :=
    idxOfDist_bracket_float lengths hs d' a b ha hb (FMO.le_trans _ _ _ hlo hdd) hhi
  generalize idxOfDist lengths d = i at *
  generalize idxOfDist lengths d' = i' at *
  by_contra hc
  have hi : 0 < i := by omega
  obtain ⟨d0, hd0, hle0, halt⟩ := hpos hi
  rcases Nat.lt_or_ge i' (i - 1) with h | h
  · have h1 := hup' (i - 1) d0 h hd0
    rw [FMO.not_lt_of_le _ _ (FMO.le_trans _ _ _ hle0 hdd)] at h1; cases h1
  · have : i' = i - 1 := by omega
    subst this
    rw [hd0] at hd1'; cases hd1'
    rcases halt with ⟨h1, _⟩ | h1
    · have h2 := FMO.lt_of_lt_of_le _ _ _ h1 hdd
      rw [FMO.not_lt_of_le _ _ hle1'] at h2; cases h2
    · have h2 := hup' i d1 (by omega) hd1
      rw [FMO.not_lt_of_le _ _ (FMO.le_trans _ _ _ (FMO.le_of_eq _ _ h1) hdd)] at h2; cases h2

/-- **the position is tied to both end vertices of its bracket.** Curve as in `positionAt_dist_err_float32_nofin`,
`ChordBooked κ`, `lengths[0] <= d <= last`, `i = idx_of_dist lengths d`. The call returns a position `p`, and there is an
"effective arc" `s ≤ d` — `s = d` when `i = 0` or the bracket is non-degenerate; `s = lengths[i−1]` when the bracket is
degenerate (`p = path[i−1]`) — such that per coordinate `|p.x − x_i| ≤ (L_i − s)(1 + κ) + interpBound` and, for `0 < i`,
`|p.x − x_{i−1}| ≤ (s − L_{i−1})(1 + κ) + interpBound`, `L_{i−1} ≤ s ≤ L_i`. -/
theorem position_anchor_float32 (κ : ℚ) (hκ : 0 ≤ κ) (path : List (Pos Float32)) (lengths : List Float) (d a b : Float)
    (hlen : path.length = lengths.length) (hs : Sorted lengths) (hbd : ∀ p ∈ path, C16.Bounded19 p)
    (hfp : ∀ p ∈ path, C16.FinitePos p)
    (ha : lengths[0]? = some a) (hb : lengths.getLast? = some b)
    (ha0 : Scalar.le (0 : Float) a = true) (hbf : b.isFinite = true)
    (hlo : Scalar.le a d = true) (hhi : Scalar.le d b = true) (hch : ChordBooked κ path lengths) :
    ∃ (p : Pos Float32) (s : ℚ), interpolateVertices path lengths (idxOfDist lengths d) d = .ok p ∧
      s ≤ toRat d ∧
      ((idxOfDist lengths d = 0 ∨ ∀ d0 d1, lengths[idxOfDist lengths d - 1]? = some d0 →
          lengths[idxOfDist lengths d]? = some d1 →
          Scalar.le (Scalar.abs (d0 - d1)) (Scalar.eps : Float) = false) → s = toRat d) ∧
      (∀ (p1 : Pos Float32) (d1 : Float), path[idxOfDist lengths d]? = some p1 → lengths[idxOfDist lengths d]? = some d1 →
        s ≤ toRat d1 ∧
        |toRat32 p.x - toRat32 p1.x| ≤ (toRat d1 - s) * (1 + κ) + interpBound ∧
        |toRat32 p.y - toRat32 p1.y| ≤ (toRat d1 - s) * (1 + κ) + interpBound) ∧
      (0 < idxOfDist lengths d → ∀ (p0 : Pos Float32) (d0 : Float), path[idxOfDist lengths d - 1]? = some p0 →
        lengths[idxOfDist lengths d - 1]? = some d0 →
        toRat d0 ≤ s ∧
        |toRat32 p.x - toRat32 p0.x| ≤ (s - toRat d0) * (1 + κ) + interpBound ∧
        |toRat32 p.y - toRat32 p0.y| ≤ (s - toRat d0) * (1 + κ) + interpBound) := by
  obtain ⟨hil, d1, hd1, hle1, _, _, hpos⟩ := idxOfDist_bracket_float lengths hs d a b ha hb hlo hhi
  obtain ⟨p, he, h⟩ := positionAt_dist_err_float32_nofin path lengths d a b hlen hs hbd hfp ha hb ha0 hbf hlo hhi
  have fd : d.isFinite = true := finite_of_between 0 d b rfl hbf (FMO.le_trans _ _ _ ha0 hlo) hhi
  have hIB := interpBound_nonneg
  have hκ1 : (0 : ℚ) ≤ 1 + κ := by linarith
  have hfl := len_finite_nonneg lengths hs a b ha hb ha0 hbf
  generalize idxOfDist lengths d = i at *
  have fd1 := (hfl i d1 hd1).1
  have l1 : toRat d ≤ toRat d1 := toRat_le_of_le _ _ fd fd1 hle1
  rcases h with ⟨hi0, hp0⟩ | ⟨hi, hp0, d0, d1', hd0, hd1', hdeg⟩ |
    ⟨hi, p0, p1, d0, d1', hp0, hp1, hd0, hd1', hle0, _, l01, hpe, ⟨hw0, hw1⟩, hx, hy⟩
  · -- a hit of `lengths[0]`
    subst hi0
    refine ⟨p, toRat d, he, le_refl _, fun _ => rfl, ?_, fun h => absurd h (by omega)⟩
    intro p1 d1' hp1 hd1'
    rw [hp0] at hp1; cases hp1
    rw [hd1] at hd1'; cases hd1'
    have := mul_nonneg (sub_nonneg.mpr l1) hκ1
    refine ⟨l1, ?_, ?_⟩ <;> rw [sub_self, abs_zero] <;> linarith
  · -- degenerate bracket: the vertex `path[i−1]`
    rw [hd1] at hd1'; cases hd1'
    obtain ⟨d0', hd0', hle0, _⟩ := hpos hi
    rw [hd0] at hd0'; cases hd0'
    have fd0 := (hfl (i - 1) d0 hd0).1
    have l0 : toRat d0 ≤ toRat d := toRat_le_of_le _ _ fd0 fd hle0
    refine ⟨p, toRat d0, he, l0, ?_, ?_, ?_⟩
    · rintro (h | h)
      · omega
      · have := h d0 d1 hd0 hd1
        rw [this] at hdeg; cases hdeg
    · intro p1 d1' hp1 hd1'
      rw [hd1] at hd1'; cases hd1'
      obtain ⟨cx, cy⟩ := hch (i - 1) p p1 d0 d1 hp0 (by rw [Nat.sub_add_cancel hi]; exact hp1) hd0
        (by rw [Nat.sub_add_cancel hi]; exact hd1)
      refine ⟨by linarith, ?_, ?_⟩
      · rw [abs_sub_comm]; linarith
      · rw [abs_sub_comm]; linarith
    · intro _ p0' d0' hp0' hd0'
      rw [hp0] at hp0'; cases hp0'
      rw [hd0] at hd0'; cases hd0'
      refine ⟨le_refl _, ?_, ?_⟩ <;> rw [sub_self, abs_zero, sub_self, zero_mul, zero_add] <;> exact hIB
  · -- interpolated
    subst hpe
    rw [hd1] at hd1'; cases hd1'
    obtain ⟨cx, cy⟩ := hch (i - 1) p0 p1 d0 d1 hp0 (by rw [Nat.sub_add_cancel hi]; exact hp1) hd0
      (by rw [Nat.sub_add_cancel hi]; exact hd1)
    obtain ⟨ux, lx⟩ := seg_point_to_ends (toRat32 p0.x) (toRat32 p1.x) (toRat d) (toRat d0) (toRat d1) κ l01 hw0 hw1 cx
    obtain ⟨uy, ly⟩ := seg_point_to_ends (toRat32 p0.y) (toRat32 p1.y) (toRat d) (toRat d0) (toRat d1) κ l01 hw0 hw1 cy
    have fd0 := (hfl (i - 1) d0 hd0).1
    have l0 : toRat d0 ≤ toRat d := toRat_le_of_le _ _ fd0 fd hle0
    refine ⟨_, toRat d, he, le_refl _, fun _ => rfl, ?_, ?_⟩
    · intro p1' d1' hp1' hd1'
      rw [hp1] at hp1'; cases hp1'
      rw [hd1] at hd1'; cases hd1'
      refine ⟨l1, ?_, ?_⟩
      · have := abs_sub_le (toRat32 (interpPos p0 p1 d d0 d1).x)
          (toRat32 p0.x + (toRat d - toRat d0) / (toRat d1 - toRat d0) * (toRat32 p1.x - toRat32 p0.x)) (toRat32 p1.x)
        linarith
      · have := abs_sub_le (toRat32 (interpPos p0 p1 d d0 d1).y)
          (toRat32 p0.y + (toRat d - toRat d0) / (toRat d1 - toRat d0) * (toRat32 p1.y - toRat32 p0.y)) (toRat32 p1.y)
        linarith
    · intro _ p0' d0' hp0' hd0'
      rw [hp0] at hp0'; cases hp0'
      rw [hd0] at hd0'; cases hd0'
      refine ⟨l0, ?_, ?_⟩
      · have := abs_sub_le (toRat32 (interpPos p0 p1 d d0 d1).x)
          (toRat32 p0.x + (toRat d - toRat d0) / (toRat d1 - toRat d0) * (toRat32 p1.x - toRat32 p0.x)) (toRat32 p0.x)
        linarith
      · have := abs_sub_le (toRat32 (interpPos p0 p1 d d0 d1).y)
          (toRat32 p0.y + (toRat d - toRat d0) / (toRat d1 - toRat d0) * (toRat32 p1.y - toRat32 p0.y)) (toRat32 p0.y)
        linarith

/-- two distances `d <= d'` with the SAME bracket: both positions are `path[0]` (`i = 0`), both are `path[i−1]` (degenerate
bracket), or `position_arc_segment_float32` applies. -/
theorem position_same_bracket_float32 (κ : ℚ) (hκ : 0 ≤ κ) (path : List (Pos Float32)) (lengths : List Float)
    (d d' a b : Float)
    (hlen : path.length = lengths.length) (hs : Sorted lengths) (hbd : ∀ p ∈ path, C16.Bounded19 p)
    (hfp : ∀ p ∈ path, C16.FinitePos p)
    (ha : lengths[0]? = some a) (hb : lengths.getLast? = some b)
    (ha0 : Scalar.le (0 : Float) a = true) (hbf : b.isFinite = true)
    (hlo : Scalar.le a d = true) (hdd : Scalar.le d d' = true) (hhi : Scalar.le d' b = true)
    (hch : ChordBooked κ path lengths) (hii : idxOfDist lengths d = idxOfDist lengths d') (p p' : Pos Float32)
    (he : interpolateVertices path lengths (idxOfDist lengths d) d = .ok p)
    (he' : interpolateVertices path lengths (idxOfDist lengths d') d' = .ok p') :
    |toRat32 p.x - toRat32 p'.x| ≤ (toRat d' - toRat d) * (1 + κ) + 2 * interpBound ∧
    |toRat32 p.y - toRat32 p'.y| ≤ (toRat d' - toRat d) * (1 + κ) + 2 * interpBound := by
  have hlo' := FMO.le_trans _ _ _ hlo hdd
  have hhi0 := FMO.le_trans _ _ _ hdd hhi
  obtain ⟨hil, d1, hd1, hle1, _, _, hpos⟩ := idxOfDist_bracket_float lengths hs d a b ha hb hlo hhi0
  obtain ⟨_, d1', hd1', hle1', _, _, hpos'⟩ := idxOfDist_bracket_float lengths hs d' a b ha hb hlo' hhi
  have fd : d.isFinite = true := finite_of_between 0 d b rfl hbf (FMO.le_trans _ _ _ ha0 hlo) hhi0
  have fd' : d'.isFinite = true := finite_of_between 0 d' b rfl hbf (FMO.le_trans _ _ _ ha0 hlo') hhi
  have ldd : toRat d ≤ toRat d' := toRat_le_of_le _ _ fd fd' hdd
  have hIB := interpBound_nonneg
  have hκ1 : (0 : ℚ) ≤ 1 + κ := by linarith
  have hnn := mul_nonneg (sub_nonneg.mpr ldd) hκ1
  have hfl := len_finite_nonneg lengths hs a b ha hb ha0 hbf
  rw [← hii] at hd1' hpos' he'
  generalize idxOfDist lengths d = i at *
  rw [hd1] at hd1'; cases hd1'
  rcases Nat.eq_zero_or_pos i with hi | hi
  · subst hi
    cases path with
    | nil => simp at hlen; omega
    | cons q t =>
      rw [interpolate_idx_zero] at he he'
      cases he; cases he'
      constructor <;> rw [sub_self, abs_zero] <;> linarith
  · obtain ⟨d0, hd0, hle0, _⟩ := hpos hi
    obtain ⟨d0', hd0', hle0', _⟩ := hpos' hi
    rw [hd0] at hd0'; cases hd0'
    have hp1 : path[i]? = some path[i] := List.getElem?_eq_getElem (by omega)
    have hp0 : path[i - 1]? = some path[i - 1] := List.getElem?_eq_getElem (by omega)
    cases hdeg : Scalar.le (Scalar.abs (d0 - d1)) (Scalar.eps : Float)
    · have hb0 := hbd _ (List.mem_of_getElem? hp0)
      have hb1 := hbd _ (List.mem_of_getElem? hp1)
      have hf0 := hfp _ (List.mem_of_getElem? hp0)
      have hf1 := hfp _ (List.mem_of_getElem? hp1)
      have h00 := (hfl (i - 1) d0 hd0).2
      have fd1 := (hfl i d1 hd1).1
      obtain ⟨hfx, hfy, hw, hm⟩ := segFinite_of_bounded _ _ d d0 d1 hb0 hb1 hf0 hf1 h00 hle0 hle1 fd1 hdeg
      obtain ⟨hfx', hfy', hw', _⟩ := segFinite_of_bounded _ _ d' d0 d1 hb0 hb1 hf0 hf1 h00 hle0' hle1' fd1 hdeg
      have e := interpolate_formula path lengths i d _ _ d0 d1 (by omega) hp1 hp0 hd0 hd1 hdeg
      have e' := interpolate_formula path lengths i d' _ _ d0 d1 (by omega) hp1 hp0 hd0 hd1 hdeg
      rw [e] at he; rw [e'] at he'
      cases he; cases he'
      obtain ⟨cx, cy⟩ := hch (i - 1) _ _ d0 d1 hp0 (by rw [Nat.sub_add_cancel hi]; exact hp1) hd0
        (by rw [Nat.sub_add_cancel hi]; exact hd1)
      have := position_arc_segment_float32 path[i - 1] path[i] d d' d0 d1 κ hfx hfy hfx' hfy' hw hw' hm hle0 hle1 hle0' hle1'
        hb0 hb1 cx cy
      rw [abs_sub_comm (toRat d) (toRat d'), abs_of_nonneg (sub_nonneg.mpr ldd)] at this
      exact this
    · have e := interpolate_degenerate path lengths i d _ _ d0 d1 (by omega) hp1 hp0 hd0 hd1 hdeg
      have e' := interpolate_degenerate path lengths i d' _ _ d0 d1 (by omega) hp1 hp0 hd0 hd1 hdeg
      rw [e] at he; rw [e'] at he'
      cases he; cases he'
      constructor <;> rw [sub_self, abs_zero] <;> linarith

/-- **C19 on IEEE floats, the arc-length clause across segments, general form.** Curve as in
`positionAt_dist_err_float32_nofin` (as many lengths as vertices; lengths weakly sorted numbers, `0 <= lengths[0]`, finite last
length; vertices finite and bounded by `2¹⁹`), `ChordBooked κ` with `κ ≥ 0`, two distances `lengths[0] <= d <= d' <= last`
(IEEE order). Then the brackets are ordered, `i = idx_of_dist d ≤ i' = idx_of_dist d'`, both calls return positions `p`, `p'`,
and per coordinate `|p.x − p'.x| ≤ (d' − s)(1 + κ) + 2·interpBound`, where `s ≤ d` is the effective arc of `d`
(`position_anchor_float32`): `s = d` when `i = 0` or the bracket of `d` is non-degenerate, and `lengths[i−1] ≤ s` always. -/
theorem position_lipschitz_gen_float32 (κ : ℚ) (hκ : 0 ≤ κ) (path : List (Pos Float32)) (lengths : List Float)
    (d d' a b : Float)
    (hlen : path.length = lengths.length) (hs : Sorted lengths) (hbd : ∀ p ∈ path, C16.Bounded19 p)
    (hfp : ∀ p ∈ path, C16.FinitePos p)
    (ha : lengths[0]? = some a) (hb : lengths.getLast? = some b)
    (ha0 : Scalar.le (0 : Float) a = true) (hbf : b.isFinite = true)
    (hlo : Scalar.le a d = true) (hdd : Scalar.le d d' = true) (hhi : Scalar.le d' b = true)
    (hch : ChordBooked κ path lengths) :
    idxOfDist lengths d ≤ idxOfDist lengths d' ∧
    ∃ (p p' : Pos Float32) (s : ℚ),
      interpolateVertices path lengths (idxOfDist lengths d) d = .ok p ∧
      interpolateVertices path lengths (idxOfDist lengths d') d' = .ok p' ∧
      s ≤ toRat d ∧
      ((idxOfDist lengths d = 0 ∨ ∀ d0 d1, lengths[idxOfDist lengths d - 1]? = some d0 →
          lengths[idxOfDist lengths d]? = some d1 →
          Scalar.le (Scalar.abs (d0 - d1)) (Scalar.eps : Float) = false) → s = toRat d) ∧
      (0 < idxOfDist lengths d → ∀ d0, lengths[idxOfDist lengths d - 1]? = some d0 → toRat d0 ≤ s) ∧
      |toRat32 p.x - toRat32 p'.x| ≤ (toRat d' - s) * (1 + κ) + 2 * interpBound ∧
      |toRat32 p.y - toRat32 p'.y| ≤ (toRat d' - s) * (1 + κ) + 2 * interpBound := by
  have hlo' := FMO.le_trans _ _ _ hlo hdd
  have hhi0 := FMO.le_trans _ _ _ hdd hhi
  have hmono := idxOfDist_mono_float lengths hs d d' a b ha hb hlo hdd hhi
  refine ⟨hmono, ?_⟩
  obtain ⟨p, s, he, hsd, hseq, hup, hlow⟩ :=
    position_anchor_float32 κ hκ path lengths d a b hlen hs hbd hfp ha hb ha0 hbf hlo hhi0 hch
  obtain ⟨p', s', he', hsd', _, _, hlow'⟩ :=
    position_anchor_float32 κ hκ path lengths d' a b hlen hs hbd hfp ha hb ha0 hbf hlo' hhi hch
  have hκ1 : (0 : ℚ) ≤ 1 + κ := by linarith
  have hs0 : 0 < idxOfDist lengths d → ∀ d0, lengths[idxOfDist lengths d - 1]? = some d0 → toRat d0 ≤ s := by
    intro hi d0 hd0
    have hil := (idxOfDist_bracket_float lengths hs d a b ha hb hlo hhi0).1
    exact (hlow hi _ d0 (List.getElem?_eq_getElem (by omega)) hd0).1
  refine ⟨p, p', s, he, he', hsd, hseq, hs0, ?_⟩
  rcases Nat.lt_or_ge (idxOfDist lengths d) (idxOfDist lengths d') with hlt | hge
  · -- different brackets: `p → x_i → x_{i'−1} → p'`
    have hil' := (idxOfDist_bracket_float lengths hs d' a b ha hb hlo' hhi).1
    generalize idxOfDist lengths d = i at *
    generalize idxOfDist lengths d' = i' at *
    have hpi : path[i]? = some path[i] := List.getElem?_eq_getElem (by omega)
    have hli : lengths[i]? = some lengths[i] := List.getElem?_eq_getElem (by omega)
    have hpj : path[i' - 1]? = some path[i' - 1] := List.getElem?_eq_getElem (by omega)
    have hlj : lengths[i' - 1]? = some lengths[i' - 1] := List.getElem?_eq_getElem (by omega)
    obtain ⟨_, ux, uy⟩ := hup _ _ hpi hli
    obtain ⟨_, lx, ly⟩ := hlow' (by omega) _ _ hpj hlj
    obtain ⟨mx, my⟩ := vertex_chord_sum_float32 κ path lengths hch i (i' - 1) (by omega) _ _ _ _ hpi hpj hli hlj
    have hm := mul_le_mul_of_nonneg_right hsd' hκ1
    constructor
    · have t1 := abs_sub_le (toRat32 p.x) (toRat32 path[i].x) (toRat32 p'.x)
      have t2 := abs_sub_le (toRat32 path[i].x) (toRat32 path[i' - 1].x) (toRat32 p'.x)
      rw [abs_sub_comm (toRat32 path[i].x) (toRat32 path[i' - 1].x)] at t2
      rw [abs_sub_comm (toRat32 path[i' - 1].x) (toRat32 p'.x)] at t2
      linarith
    · have t1 := abs_sub_le (toRat32 p.y) (toRat32 path[i].y) (toRat32 p'.y)
      have t2 := abs_sub_le (toRat32 path[i].y) (toRat32 path[i' - 1].y) (toRat32 p'.y)
      rw [abs_sub_comm (toRat32 path[i].y) (toRat32 path[i' - 1].y)] at t2
      rw [abs_sub_comm (toRat32 path[i' - 1].y) (toRat32 p'.y)] at t2
      linarith
  · -- the same bracket
    obtain ⟨bx, bY⟩ := position_same_bracket_float32 κ hκ path lengths d d' a b hlen hs hbd hfp ha hb ha0 hbf hlo hdd hhi
      hch (by omega) p p' he he'
    have hm := mul_le_mul_of_nonneg_right (sub_le_sub_left hsd (toRat d')) hκ1
    exact ⟨by linarith, by linarith⟩

/-- **C19 on IEEE floats: the arc-length clause ACROSS segments.** Curve as in `positionAt_dist_err_float32_nofin`,
`ChordBooked κ` (`κ ≥ 0`; `2⁻²⁰` for naturally booked lengths, `chordBooked_natural`), `lengths[0] <= d <= d' <= last`; the
bracket of `d` is non-degenerate (`|lengths[i−1] − lengths[i]| > EPSILON`) — required ONLY when `0 < i < i'`; nothing is
assumed about the bracket of `d'` nor about the segments in between. Then `i ≤ i'`, and the two positions
`interpolate_vertices path lengths (idx_of_dist lengths ·) ·` differ, per coordinate, by at most
`(d' − d)(1 + κ) + 2·interpBound`: the distance travelled along the curve, up to the relative slack `κ` of the booking and the
additive `2·interpBound = 7/16 + 2⁻¹⁹ < 0.4376` px of the two interpolations (the SAME constant as inside one segment: the
vertices in between are stored exactly and cost nothing). -/
theorem position_lipschitz_float32 (κ : ℚ) (hκ : 0 ≤ κ) (path : List (Pos Float32)) (lengths : List Float)
    (d d' a b : Float)
    (hlen : path.length = lengths.length) (hs : Sorted lengths) (hbd : ∀ p ∈ path, C16.Bounded19 p)
    (hfp : ∀ p ∈ path, C16.FinitePos p)
    (ha : lengths[0]? = some a) (hb : lengths.getLast? = some b)
    (ha0 : Scalar.le (0 : Float) a = true) (hbf : b.isFinite = true)
    (hlo : Scalar.le a d = true) (hdd : Scalar.le d d' = true) (hhi : Scalar.le d' b = true)
    (hch : ChordBooked κ path lengths)
    (hnd : 0 < idxOfDist lengths d → idxOfDist lengths d < idxOfDist lengths d' →
      ∀ d0 d1, lengths[idxOfDist lengths d - 1]? = some d0 → lengths[idxOfDist lengths d]? = some d1 →
        Scalar.le (Scalar.abs (d0 - d1)) (Scalar.eps : Float) = false) :
    idxOfDist lengths d ≤ idxOfDist lengths d' ∧
    ∃ (p p' : Pos Float32),
      interpolateVertices path lengths (idxOfDist lengths d) d = .ok p ∧
      interpolateVertices path lengths (idxOfDist lengths d') d' = .ok p' ∧
      |toRat32 p.x - toRat32 p'.x| ≤ (toRat d' - toRat d) * (1 + κ) + 2 * interpBound ∧
      |toRat32 p.y - toRat32 p'.y| ≤ (toRat d' - toRat d) * (1 + κ) + 2 * interpBound := by
  obtain ⟨hmono, p, p', s, he, he', hsd, hseq, _, bx, bY⟩ :=
    position_lipschitz_gen_float32 κ hκ path lengths d d' a b hlen hs hbd hfp ha hb ha0 hbf hlo hdd hhi hch
  refine ⟨hmono, p, p', he, he', ?_⟩
  rcases Nat.lt_or_ge (idxOfDist lengths d) (idxOfDist lengths d') with hlt | hge
  · have : s = toRat d := by
      apply hseq
      rcases Nat.eq_zero_or_pos (idxOfDist lengths d) with h | h
      · exact Or.inl h
      · exact Or.inr (hnd h hlt)
    rw [this] at bx bY
    exact ⟨bx, bY⟩
  · exact position_same_bracket_float32 κ hκ path lengths d d' a b hlen hs hbd hfp ha hb ha0 hbf hlo hdd hhi
      hch (by omega) p p' he he'

/-- **… and when the bracket of `d` IS degenerate** (`0 < i`, `|lengths[i−1] − lengths[i]| <= EPSILON`: the code returns the
vertex `path[i−1]`, the position for the distance `lengths[i−1] <= d`): the bound holds with `d` replaced by
`lengths[i−1]`, i.e. it is off by at most `(d − lengths[i−1])(1 + κ) ≤ (lengths[i] − lengths[i−1])(1 + κ)`, the booked length
of the degenerate segment. -/
theorem position_lipschitz_degenerate_float32 (κ : ℚ) (hκ : 0 ≤ κ) (path : List (Pos Float32)) (lengths : List Float)
    (d d' a b d0 : Float)
    (hlen : path.length = lengths.length) (hs : Sorted lengths) (hbd : ∀ p ∈ path, C16.Bounded19 p)
    (hfp : ∀ p ∈ path, C16.FinitePos p)
    (ha : lengths[0]? = some a) (hb : lengths.getLast? = some b)
    (ha0 : Scalar.le (0 : Float) a = true) (hbf : b.isFinite = true)
    (hlo : Scalar.le a d = true) (hdd : Scalar.le d d' = true) (hhi : Scalar.le d' b = true)
    (hch : ChordBooked κ path lengths)
    (hi : 0 < idxOfDist lengths d) (hd0 : lengths[idxOfDist lengths d - 1]? = some d0) :
    ∃ (p p' : Pos Float32),
      interpolateVertices path lengths (idxOfDist lengths d) d = .ok p ∧
      interpolateVertices path lengths (idxOfDist lengths d') d' = .ok p' ∧
      |toRat32 p.x - toRat32 p'.x| ≤ (toRat d' - toRat d0) * (1 + κ) + 2 * interpBound ∧
      |toRat32 p.y - toRat32 p'.y| ≤ (toRat d' - toRat d0) * (1 + κ) + 2 * interpBound := by
  obtain ⟨_, p, p', s, he, he', _, _, hs0, bx, bY⟩ :=
    position_lipschitz_gen_float32 κ hκ path lengths d d' a b hlen hs hbd hfp ha hb ha0 hbf hlo hdd hhi hch
  have hκ1 : (0 : ℚ) ≤ 1 + κ := by linarith
  have hm := mul_le_mul_of_nonneg_right (sub_le_sub_left (hs0 hi d0 hd0) (toRat d')) hκ1
  exact ⟨p, p', he, he', by linarith, by linarith⟩

/-! ## (3) through `progress_to_dist`: `position_at` -/

theorem positionAt_eq (path : List (Pos Float32)) (lengths : List Float) (q : Float) :
    positionAt path lengths q =
      interpolateVertices path lengths (idxOfDist lengths (progressToDist lengths q)) (progressToDist lengths q) := rfl

/-- **C19 on IEEE floats: `position_at` never moves farther than the arc length.** Curve whose lengths start at a zero
(`lengths[0] <= 0 <= lengths[0]`), weakly sorted numbers with a finite last length, vertices finite and bounded by `2¹⁹`,
`ChordBooked κ`; two progress values `q <= q'` (IEEE order: both numbers; any numbers, the code clamps them to `[0, 1]`). With
`d = progress_to_dist q`, `d' = progress_to_dist q'` (`= clamp(·, 0, 1) ⊗ total`): `0 <= d <= d' <= total`, and when the
bracket of `d` is non-degenerate (needed only if `0 < i < i'`) the two positions differ per coordinate by at most
`(d' − d)(1 + κ) + 2·interpBound`. -/
theorem positionAt_lipschitz_float32 (κ : ℚ) (hκ : 0 ≤ κ) (path : List (Pos Float32)) (lengths : List Float)
    (q q' a b : Float) (hqq : Scalar.le q q' = true)
    (hlen : path.length = lengths.length) (hs : Sorted lengths) (hbd : ∀ p ∈ path, C16.Bounded19 p)
    (hfp : ∀ p ∈ path, C16.FinitePos p)
    (ha : lengths[0]? = some a) (hb : lengths.getLast? = some b)
    (ha0 : Scalar.le a (0 : Float) = true) (ha1 : Scalar.le (0 : Float) a = true) (hbf : FX.Finite64 b)
    (hch : ChordBooked κ path lengths)
    (hnd : 0 < idxOfDist lengths (progressToDist lengths q) →
      idxOfDist lengths (progressToDist lengths q) < idxOfDist lengths (progressToDist lengths q') →
      ∀ d0 d1, lengths[idxOfDist lengths (progressToDist lengths q) - 1]? = some d0 →
        lengths[idxOfDist lengths (progressToDist lengths q)]? = some d1 →
        Scalar.le (Scalar.abs (d0 - d1)) (Scalar.eps : Float) = false) :
    Scalar.le (0 : Float) (progressToDist lengths q) = true ∧
    Scalar.le (progressToDist lengths q) (progressToDist lengths q') = true ∧
    Scalar.le (progressToDist lengths q') b = true ∧
    ∃ (p p' : Pos Float32), positionAt path lengths q = .ok p ∧ positionAt path lengths q' = .ok p' ∧
      |toRat32 p.x - toRat32 p'.x| ≤
        (toRat (progressToDist lengths q') - toRat (progressToDist lengths q)) * (1 + κ) + 2 * interpBound ∧
      |toRat32 p.y - toRat32 p'.y| ≤
        (toRat (progressToDist lengths q') - toRat (progressToDist lengths q)) * (1 + κ) + 2 * interpBound := by
  obtain ⟨n1, n2⟩ := FMO.not_nan_of_le hqq
  have hb0 : Scalar.le (0 : Float) b = true := by
    have hb' : lengths[lengths.length - 1]? = some b := by
      rw [List.getLast?_eq_getElem?] at hb; exact hb
    exact FMO.le_trans _ _ _ ha1 (hs 0 (lengths.length - 1) a b (Nat.zero_le _) ha hb')
  have hdist : dist lengths = b := by unfold dist; rw [hb]
  obtain ⟨h0, _, _⟩ := progress_to_dist_bounds_float lengths q n1 (by rw [hdist]; exact hbf) (by rw [hdist]; exact hb0)
  obtain ⟨_, h1', _⟩ := progress_to_dist_bounds_float lengths q' n2 (by rw [hdist]; exact hbf) (by rw [hdist]; exact hb0)
  rw [hdist] at h1'
  have hm := progress_to_dist_mono_float lengths q q' hqq (by rw [hdist]; exact hbf) (by rw [hdist]; exact hb0)
  refine ⟨h0, hm, h1', ?_⟩
  rw [positionAt_eq, positionAt_eq]
  exact (position_lipschitz_float32 κ hκ path lengths _ _ a b hlen hs hbd hfp ha hb ha1 hbf
    (FMO.le_trans _ _ _ ha0 h0) hm h1' hch hnd).2

/-! ## non-vacuity: the demo curve `(100,200) → (107,224) → (100,200)`, lengths `[0, 25, 50]`, kernel-evaluated -/

section Examples
open Rosu.C16

theorem toRat_50 : toRat (50 : Float) = 50 := by
  have h : (50 : Float).toModel.unpack = .finite .positive 7036874417766400 (-47) (by decide) := by
    have : (50 : Float) = Float.ofBits 0x4049000000000000 := by decide +kernel
    rw [this, FM.float_unpack_ofBits _ (by decide)]; rfl
  rw [toRat_of_unpack h]; norm_num [sgnQ]

theorem toRat_30 : toRat (30 : Float) = 30 := by
  have h : (30 : Float).toModel.unpack = .finite .positive 8444249301319680 (-48) (by decide) := by
    have : (30 : Float) = Float.ofBits 0x403E000000000000 := by decide +kernel
    rw [this, FM.float_unpack_ofBits _ (by decide)]; rfl
  rw [toRat_of_unpack h]; norm_num [sgnQ]

/-- **`ChordBooked 2⁻²⁰` holds on the demo curve** (chords `(7, 24)`, booked `25` each). -/
theorem demo_chordBooked : ChordBooked ((2 : ℚ) ^ (-20 : Int)) demoPath demoLens := by
  intro k p p' x y hp hp' hx hy
  have a1 : toRat32 demoPP.x = 100 := demo_100
  have a2 : toRat32 demoPP.y = 200 := demo_200
  have a3 : toRat32 demoPE.x = 107 := demo_107
  have a4 : toRat32 demoPE.y = 224 := demo_224
  rcases three_cases hp with ⟨rfl, rfl⟩ | ⟨rfl, rfl⟩ | ⟨rfl, rfl⟩ <;>
  rcases three_cases hp' with ⟨h1, rfl⟩ | ⟨h1, rfl⟩ | ⟨h1, rfl⟩ <;>
  rcases three_cases hx with ⟨h2, rfl⟩ | ⟨h2, rfl⟩ | ⟨h2, rfl⟩ <;>
  rcases three_cases hy with ⟨h3, rfl⟩ | ⟨h3, rfl⟩ | ⟨h3, rfl⟩ <;>
  first
    | omega
    | (simp only [a1, a2, a3, a4, toRat_zero, toRat_25, toRat_50]; norm_num)

/-- `vertex_chord_sum_float32` on the demo, `i = 0`, `j = 2` (back at the start: `0 ≤ 50 (1 + 2⁻²⁰)`). -/
example : |toRat32 demoPP.x - toRat32 demoPP.x| ≤ (toRat (50 : Float) - toRat (0 : Float)) * (1 + (2 : ℚ) ^ (-20 : Int)) :=
  (vertex_chord_sum_float32 _ demoPath demoLens demo_chordBooked 0 2 (by omega) demoPP demoPP 0 50 rfl rfl rfl rfl).1

/-- **every hypothesis of `position_lipschitz_float32` holds on the demo curve for `d = 10` (bracket `1`) and `d' = 30`
(bracket `2`)** — two DIFFERENT segments, the vertex `(107, 224)` in between —, checked by the kernel; the two positions
(`≈ (102.8, 209.6)` and `≈ (105.6, 219.2)`) differ per coordinate by at most `20 (1 + 2⁻²⁰) + 2·interpBound`. -/
example : idxOfDist demoLens 10 = 1 ∧ idxOfDist demoLens 30 = 2 ∧
    ∃ (p p' : Pos Float32),
      interpolateVertices demoPath demoLens (idxOfDist demoLens 10) 10 = .ok p ∧
      interpolateVertices demoPath demoLens (idxOfDist demoLens 30) 30 = .ok p' ∧
      |toRat32 p.x - toRat32 p'.x| ≤ (30 - 10) * (1 + (2 : ℚ) ^ (-20 : Int)) + 2 * interpBound ∧
      |toRat32 p.y - toRat32 p'.y| ≤ (30 - 10) * (1 + (2 : ℚ) ^ (-20 : Int)) + 2 * interpBound := by
  have h := (position_lipschitz_float32 ((2 : ℚ) ^ (-20 : Int)) (by positivity) demoPath demoLens 10 30 0 50 rfl demo_sorted
    demo_bounded demo_finitePos rfl rfl (by decide +kernel) (by decide +kernel) (by decide +kernel) (by decide +kernel)
    (by decide +kernel) demo_chordBooked (by
      intro _ _ d0 d1 h0 h1
      rw [demo_idx.1] at h0 h1
      cases h0; cases h1
      decide +kernel)).2
  rw [toRat_10, toRat_30] at h
  exact ⟨demo_idx.1, demo_idx.2.1, h⟩

/-- the two positions of that example, evaluated: `Δx = 105.6 − 102.8 − 2⁻¹⁷·0.8…`, well inside the bound (the bound is about
arc length, the curve turns back at `(107, 224)`). -/
example : (interpPos demoPP demoPE (10 : Float) 0 25).x = Float32.ofBits 0x42CD999A ∧
    (interpPos demoPE demoPP (30 : Float) 25 50).x = Float32.ofBits 0x42D33333 :=
  ⟨demo_interp_bits.1, demo_interp_bits30.1⟩

/-- `positionAt_lipschitz_float32` on the demo curve for the progress values `0.2 <= 0.6` (`d = 10`, bracket `1`). -/
example : ∃ (p p' : Pos Float32), positionAt demoPath demoLens 0.2 = .ok p ∧ positionAt demoPath demoLens 0.6 = .ok p' ∧
    |toRat32 p.x - toRat32 p'.x| ≤
      (toRat (progressToDist demoLens 0.6) - toRat (progressToDist demoLens 0.2)) * (1 + (2 : ℚ) ^ (-20 : Int)) +
        2 * interpBound ∧
    |toRat32 p.y - toRat32 p'.y| ≤
      (toRat (progressToDist demoLens 0.6) - toRat (progressToDist demoLens 0.2)) * (1 + (2 : ℚ) ^ (-20 : Int)) +
        2 * interpBound :=
  (positionAt_lipschitz_float32 ((2 : ℚ) ^ (-20 : Int)) (by positivity) demoPath demoLens 0.2 0.6 0 50 (by decide +kernel)
    rfl demo_sorted demo_bounded demo_finitePos rfl rfl (by decide +kernel) (by decide +kernel) (by decide +kernel)
    demo_chordBooked (by
      intro _ _ d0 d1 h0 h1
      rw [demo_progress, demo_idx.1] at h0 h1
      cases h0; cases h1
      decide +kernel)).2.2.2

/-- the demo lengths ARE the natural ones: `natLens 0 demoPath = [0, 25, 50]`. -/
theorem demo_natLens : natLens (0 : Float) demoPath = demoLens := by decide +kernel

theorem demo_len_back : Pos.length Float (demoPP - demoPE) = Float32.ofBits 0x41C80000 := by decide +kernel

/-- **the hypotheses of `chordBooked_natural_zero` hold on the demo curve** (side conditions of `chord_le_booked_float` for both
segments, evaluated by the kernel), so `ChordBooked 2⁻²⁰` is DERIVED for its natural lengths. -/
example : ChordBooked ((2 : ℚ) ^ (-20 : Int)) demoPath (natLens (0 : Float) demoPath) := by
  have a1 : toRat32 demoPP.x = 100 := demo_100
  have a2 : toRat32 demoPP.y = 200 := demo_200
  have a3 : toRat32 demoPE.x = 107 := demo_107
  have a4 : toRat32 demoPE.y = 224 := demo_224
  refine chordBooked_natural_zero demoPath ?_ ?_
  · intro a b ha hb
    cases ha; cases hb
    exact ⟨by decide +kernel, by decide +kernel, by decide +kernel, by rw [a1, a2, a3, a4]; norm_num, by decide +kernel⟩
  · intro k a b lk hk ha hb hl
    rw [demo_natLens] at hl
    rcases three_cases ha with ⟨rfl, rfl⟩ | ⟨rfl, rfl⟩ | ⟨rfl, rfl⟩ <;>
    rcases three_cases hb with ⟨h1, rfl⟩ | ⟨h1, rfl⟩ | ⟨h1, rfl⟩ <;>
    rcases three_cases hl with ⟨h2, rfl⟩ | ⟨h2, rfl⟩ | ⟨h2, rfl⟩ <;>
    first
      | omega
      | exact ⟨by decide +kernel, by decide +kernel, by decide +kernel, by rw [a1, a2, a3, a4]; norm_num, by decide +kernel,
          by rw [toRat_25]; norm_num, by rw [toRat_25, demo_len_back, demo_25]; norm_num⟩

end Examples

end Rosu.C19
