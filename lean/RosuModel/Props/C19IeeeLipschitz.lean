/-
  Props/C19IeeeLipschitz.lean — C19 on IEEE floats: the arc-length clause ACROSS segments ("the position never moves farther
  than the distance travelled along the curve"), the IEEE counterpart of `position_lipschitz` (Props/C19Lipschitz.lean,
  exact arithmetic). Same organisation as there: the two positions are tied to the vertices next to them, and the chords of
  the vertices in between telescope against the booked cumulative lengths.

  (1) `ChordBooked κ path lengths`: per coordinate, the chord of segment `k` is at most `(1 + κ)` times the difference
      `lengths[k+1] − lengths[k]` of the two STORED cumulative lengths (exact arithmetic: `κ = 0`, `C19.ChordBound`);
      **`chordBooked_natural`**: it holds with `κ = 2⁻²⁰` for the naturally booked lengths `natLens opt path`
      (`0 :: cumLens opt path`), from `chord_le_booked_float`, under its side conditions for every segment from the second on
      and with the first segment's chord hypothesis stated apart (it carries `opt`);
      **`vertex_chord_sum_float32`**: for vertex indices `i ≤ j`: `|x_j − x_i| ≤ (L_j − L_i)(1 + κ)` (telescoping).
  (2) `position_anchor_float32`: the position for a distance `d` in range, bracket `i = idx_of_dist d`, is tied to BOTH end
      vertices of its bracket: `|p.x − x_i| ≤ (L_i − s)(1 + κ) + interpBound`, `|p.x − x_{i−1}| ≤ (s − L_{i−1})(1 + κ) + interpBound`
      for an "effective arc" `s ≤ d`, `s = d` unless the bracket is degenerate (`|L_{i−1} − L_i| <= EPSILON`: the code returns the
      vertex `path[i−1]` itself, `s = L_{i−1}`);
      **`position_lipschitz_float32`**: for `lengths[0] <= d <= d' <= last`: the brackets satisfy `i ≤ i'` and per coordinate
      `|x(d) − x(d')| ≤ (d' − d)(1 + κ) + 2·interpBound` — the constant is `2`, one `interpBound` per position (`< 0.4376` px in
      total). Non-degeneracy is needed for the bracket of `d` only, and only when `0 < i < i'`;
      `position_lipschitz_degenerate_float32`: without it the bound is `(d' − L_{i−1})(1 + κ) + interpBound`.
  (3) **`positionAt_lipschitz_float32`**: the same through `progress_to_dist`, for any two numbers `q <= q'` as progress.
  Kernel-evaluated non-vacuity on the demo curve `(100,200) → (107,224) → (100,200)`, lengths `[0, 25, 50]`, `d = 10`, `d' = 30`.
-/
import RosuModel.Props.C19IeeeFinite
namespace Rosu.C19
open Rosu Rosu.Curve Rosu.FErr

/-! ## (1) booked lengths vs. chords, telescoped -/

/-- per coordinate, the chord of every segment is at most `(1 + κ)` times the difference of the two stored cumulative
lengths. -/
def ChordBooked (κ : ℚ) (path : List (Pos Float32)) (lengths : List Float) : Prop :=
  ∀ (k : Nat) (p p' : Pos Float32) (x y : Float), path[k]? = some p → path[k + 1]? = some p' →
    lengths[k]? = some x → lengths[k + 1]? = some y →
    |toRat32 p'.x - toRat32 p.x| ≤ (toRat y - toRat x) * (1 + κ) ∧
    |toRat32 p'.y - toRat32 p.y| ≤ (toRat y - toRat x) * (1 + κ)

/-- **the chords of the vertices between two indices telescope against the booked lengths**: for `i ≤ j`,
`|x_j − x_i| ≤ (L_j − L_i)(1 + κ)` and the same for `y`. -/
theorem vertex_chord_sum_float32 (κ : ℚ) (path : List (Pos Float32)) (lengths : List Float)
    (hch : ChordBooked κ path lengths) (i j : Nat) (hij : i ≤ j) (pi pj : Pos Float32) (li lj : Float)
    (hpi : path[i]? = some pi) (hpj : path[j]? = some pj) (hli : lengths[i]? = some li) (hlj : lengths[j]? = some lj) :
    |toRat32 pj.x - toRat32 pi.x| ≤ (toRat lj - toRat li) * (1 + κ) ∧
    |toRat32 pj.y - toRat32 pi.y| ≤ (toRat lj - toRat li) * (1 + κ) := by
  obtain ⟨n, rfl⟩ : ∃ n, j = i + n := ⟨j - i, by omega⟩
  clear hij
  induction n generalizing pj lj with
  | zero =>
    rw [Nat.add_zero, hpi] at hpj; rw [Nat.add_zero, hli] at hlj
    cases hpj; cases hlj
    simp
  | succ n ih =>
    have h1 : i + n < path.length := by
      rcases Nat.lt_or_ge (i + n + 1) path.length with h | h
      · omega
      · rw [show i + (n + 1) = i + n + 1 by omega, List.getElem?_eq_none h] at hpj; cases hpj
    have h2 : i + n < lengths.length := by
      rcases Nat.lt_or_ge (i + n + 1) lengths.length with h | h
      · omega
      · rw [show i + (n + 1) = i + n + 1 by omega, List.getElem?_eq_none h] at hlj; cases hlj
    have hp : path[i + n]? = some path[i + n] := List.getElem?_eq_getElem h1
    have hl : lengths[i + n]? = some lengths[i + n] := List.getElem?_eq_getElem h2
    obtain ⟨ix, iy⟩ := ih _ _ hp hl
    obtain ⟨cx, cy⟩ := hch (i + n) _ pj _ lj hp hpj hl hlj
    constructor
    · have := abs_sub_le (toRat32 pj.x) (toRat32 path[i + n].x) (toRat32 pi.x)
      linarith
    · have := abs_sub_le (toRat32 pj.y) (toRat32 path[i + n].y) (toRat32 pi.y)
      linarith

/-- the side conditions of `chord_le_booked_float` for segment `k ≥ 1` of a naturally booked path: no overflow in the `f32`
sum of squares, the `f64` root, the `f32` length and the `f64` running sum; the segment is not shorter than `2⁻⁵⁰` px; the
length so far is non-negative and at most `2²⁷` times the segment's booked length. -/
def NatBookOK (path : List (Pos Float32)) (lengths : List Float) : Prop :=
  ∀ (k : Nat) (a b : Pos Float32) (lk : Float), 1 ≤ k → path[k]? = some a → path[k + 1]? = some b →
    lengths[k]? = some lk →
    ((b - a).x * (b - a).x + (b - a).y * (b - a).y).isFinite = true ∧
    (Scalar.sqrt (Cvt.up ((b - a).x * (b - a).x + (b - a).y * (b - a).y) : Float) : Float).isFinite = true ∧
    (Pos.length Float (b - a)).isFinite = true ∧
    (2 : ℚ) ^ (-100 : Int) ≤ (toRat32 b.x - toRat32 a.x) ^ 2 + (toRat32 b.y - toRat32 a.y) ^ 2 ∧
    (lk + (Cvt.up (Pos.length Float (b - a)) : Float)).isFinite = true ∧
    0 ≤ toRat lk ∧ toRat lk ≤ 134217728 * toRat32 (Pos.length Float (b - a))

/-- **`ChordBooked` with `κ = 2⁻²⁰` for the natural cumulative lengths** `natLens opt path = 0 :: cumLens opt path`
(`calculate_length` without a requested length), from `chord_le_booked_float`: for every segment `k ≥ 1` the stored
`lengths[k+1]` IS `lengths[k] ⊕ f64::from(ℓ_k)` (`C16.natLens_step`), under the side conditions `NatBookOK`. Segment `0` is
booked as `0 → opt ⊕ ℓ_0` (`opt = optimized_len`, not `lengths[0] ⊕ ℓ_0`), so `chord_le_booked_float` applies to it with
`lk = opt` and gives the chord against `lengths[1] − opt`; its chord bound against `lengths[1] − lengths[0] = lengths[1]` is
the hypothesis `h0` (for `opt = +0` it is `chord_le_booked_float` at `lk = 0`, see `chordBooked_natural_zero`). -/
theorem chordBooked_natural (opt : Float) (path : List (Pos Float32))
    (h0 : ∀ (a b : Pos Float32) (y : Float), path[0]? = some a → path[1]? = some b →
      (C16.natLens opt path)[1]? = some y →
      |toRat32 b.x - toRat32 a.x| ≤ toRat y * (1 + (2 : ℚ) ^ (-20 : Int)) ∧
      |toRat32 b.y - toRat32 a.y| ≤ toRat y * (1 + (2 : ℚ) ^ (-20 : Int)))
    (hok : NatBookOK path (C16.natLens opt path)) :
    ChordBooked ((2 : ℚ) ^ (-20 : Int)) path (C16.natLens opt path) := by
  intro k p p' x y hp hp' hx hy
  cases k with
  | zero =>
    have hx0 : x = 0 := by
      unfold C16.natLens at hx
      simp only [List.getElem?_cons_zero, Option.some.injEq] at hx
      exact hx.symm
    subst hx0
    rw [toRat_zero, sub_zero]
    exact h0 p p' y hp hp' hy
  | succ k =>
    have hstep := C16.natLens_step opt path (k + 1) p p' x (by omega) hp hp' hx
    rw [hy] at hstep
    cases hstep
    obtain ⟨hs, hsq, hl, hE, hfs, hl0, hlℓ⟩ := hok (k + 1) p p' x (by omega) hp hp' hx
    exact chord_le_booked_float p p' x hs hsq hl hE hfs hl0 hlℓ

/-- the first segment for `opt = +0` (every mode but osu!-Catmull with removed points): the stored `lengths[1]` is
`0 ⊕ f64::from(ℓ_0)`, and `chord_le_booked_float` at `lk = 0` gives the hypothesis `h0` of `chordBooked_natural`. -/
theorem chordBooked_natural_zero (path : List (Pos Float32))
    (hfirst : ∀ (a b : Pos Float32), path[0]? = some a → path[1]? = some b →
      ((b - a).x * (b - a).x + (b - a).y * (b - a).y).isFinite = true ∧
      (Scalar.sqrt (Cvt.up ((b - a).x * (b - a).x + (b - a).y * (b - a).y) : Float) : Float).isFinite = true ∧
      (Pos.length Float (b - a)).isFinite = true ∧
      (2 : ℚ) ^ (-100 : Int) ≤ (toRat32 b.x - toRat32 a.x) ^ 2 + (toRat32 b.y - toRat32 a.y) ^ 2 ∧
      ((0 : Float) + (Cvt.up (Pos.length Float (b - a)) : Float)).isFinite = true)
    (hok : NatBookOK path (C16.natLens (0 : Float) path)) :
    ChordBooked ((2 : ℚ) ^ (-20 : Int)) path (C16.natLens (0 : Float) path) := by
  refine chordBooked_natural 0 path ?_ hok
  intro a b y ha hb hy
  obtain ⟨hs, hsq, hl, hE, hfs⟩ := hfirst a b ha hb
  match path, ha, hb, hy with
  | a' :: b' :: t, ha, hb, hy =>
    simp only [List.getElem?_cons_zero, List.getElem?_cons_succ, Option.some.injEq] at ha hb
    subst ha hb
    unfold C16.natLens at hy
    rw [C16.cumLens_cons2] at hy
    simp only [List.getElem?_cons_zero, List.getElem?_cons_succ, Option.some.injEq] at hy
    subst hy
    have := chord_le_booked_float a' b' 0 hs hsq hl hE hfs (by rw [toRat_zero])
      (by rw [toRat_zero]; exact mul_nonneg (by norm_num) (seglen_nonneg _ hl))
    rw [toRat_zero, sub_zero] at this
    exact this

end Rosu.C19
