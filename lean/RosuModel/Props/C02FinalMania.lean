/-
  Props/C02FinalMania.lean — C02 step "(a)" in taiko / mania, and the statement for all four modes.

  In taiko / mania `encode_timing_points` writes the SCROLL SPEED of `effect_point_at` into the velocity field of every line
  (encode.rs, `ControlPointProperties::new`); the map's difficulty points are not written. The decoder stores the field in a
  `DifficultyPoint` (`clamp(·, 0.1, 10)`) in every mode. Hence:

  * `difficulty_from_field_file` (exact arithmetic) — in the re-decoded map, at every time, `difficulty_point_at(u).slider_velocity`
    is `clamp(v, 0.1, 10)` for `v` = the re-decoded effective velocity field (scroll speed in taiko / mania).
  * `ScrollDrivesSv m` — at the start time of every slider, the map's `difficulty_point_at` velocity is the clamp of its
    `effect_point_at` scroll speed. True of what the decoder builds from one field per line (not proved here for decoded maps:
    the two collections suppress redundant points separately); NOT implied by `RepMap` + `Finalized` — a `Beatmap` value may
    carry any difficulty points. `scroll_hypothesis_exact`: for the re-decoded map it is EQUIVALENT to "the re-decoded
    collection answers `difficulty_point_at` like the map's at the slider starts", so nothing weaker will do.
  * `roundtrip_objects_rep_scroll_partial` — taiko / mania: `roundtrip_objects_rep_partial` with the two extra hypotheses
    `ScrollDrivesSv m` and `clamp(1, 0.1, 10) = 1`.
  * `roundtrip_objects_rep_modes_partial` — all four modes in one statement (`SvWritten`).
-/
import RosuModel.Props.C02Final
import RosuModel.Lemmas.RtTimelineDsv
set_option linter.unusedSectionVars false
namespace Rosu.C02
open Rosu Encode EncodeLines C11 RtTiming Scalar FileRt SliderRt

section
variable {F P : Type} [Scalar F] [Scalar P] [Cvt P F] [Trig F] [Trig P] {RF : F → Prop} {RP : P → Prop}

/-- **difficulty_from_field_file** (file level; codec laws + exact arithmetic; every mode). -/
theorem difficulty_from_field_file (L : MapLaws F P RF RP) (E : EpsLaws F) (G : GroupLaws F) (m : Beatmap F P)
    (hm : RepMap RF RP m) (hth : TimelineHyps m.general.mode m.controlPoints) (t : Str) (h : encode m = .ok t)
    (hone : clamp (1 : F) (0.1 : F) (10 : F) = 1) :
    ∃ st : BeatmapState F P, decodeBytes beatmapDecoder (utf8Encode t) = .ok st ∧
      ∀ m2 : Beatmap F P, st.finish = .ok m2 → ∀ u : F,
        ((m2.controlPoints.difficultyPointAt u).map (·.sliderVelocity)).getD (1 : F) =
          clamp (svFor m.general.mode m2.controlPoints u) (0.1 : F) (10 : F) := by
  obtain ⟨H, hH, sH, _, _, _⟩ := hitObjects_block L m hm.objects
  obtain ⟨cp, st, hc, hst, htp, hfin⟩ := timing_block_redecoded L.f L.p L.int m hm.records hm.timing t H h hH sH
  refine ⟨st, hst, fun m2 h2 => ?_⟩
  have hcp := hfin m2 h2
  rw [htp] at hcp
  have key := redecoded_dsv E G (timelineHyps_collected m cp hc hth) hone
    (RtGeneral.preservedGeneral m.general (RtGeneral.sampleSetOf m.controlPoints)) rfl (P := P)
  have e : m2.controlPoints = (C12.runTpLines { (TimingPointsState.create : TimingPointsState F P) with
      general := RtGeneral.preservedGeneral m.general (RtGeneral.sampleSetOf m.controlPoints) }
      ((groupEntries m.general.mode cp (timingGroups cp) Props.default).map
        (Entry.read (RtGeneral.preservedGeneral m.general (RtGeneral.sampleSetOf m.controlPoints)).defaultSampleBank))).finish.2 := hcp
  rw [e]
  exact key

/-- at every slider start, the map's slider velocity is the clamp of its scroll speed (what one velocity field per line
gives in taiko / mania). -/
def ScrollDrivesSv (m : Beatmap F P) : Prop :=
  ∀ h ∈ m.hitObjects, isSlider h = true →
    ((m.controlPoints.difficultyPointAt h.startTime).map (·.sliderVelocity)).getD (1 : F) =
      clamp (((m.controlPoints.effectPointAt h.startTime).map (·.scrollSpeed)).getD (1 : F)) (0.1 : F) (10 : F)

/-- the hypothesis on the velocity field, per mode: nothing in osu! / catch, `ScrollDrivesSv` in taiko / mania. -/
def SvWritten (m : Beatmap F P) : Prop :=
  match m.general.mode with
  | .taiko | .mania => ScrollDrivesSv m
  | _ => True

/-- the re-decoded collection, for all four modes at once: decode succeeds, and every finished re-decoded map has the
timeline of `roundtrip_rep_partial`, the difficulty timeline of `difficulty_from_field_file` and the object clause of
`roundtrip_objects_rep_core` — one state. -/
theorem redecoded_one_state (L : MapLaws F P RF RP) (E : EpsLaws F) (G : GroupLaws F) (m : Beatmap F P)
    (hm : RepMap RF RP m) (hth : TimelineHyps m.general.mode m.controlPoints) (t : Str) (h : encode m = .ok t)
    (hf : Finalized m) (hone : clamp (1 : F) (0.1 : F) (10 : F) = 1) :
    ∃ st : BeatmapState F P, decodeBytes beatmapDecoder (utf8Encode t) = .ok st ∧
      ∀ m2 : Beatmap F P, st.finish = .ok m2 →
        (∀ u : F, svFor m.general.mode m2.controlPoints u = svFor m.general.mode m.controlPoints u) ∧
        (∀ u : F, ((m2.controlPoints.difficultyPointAt u).map (·.sliderVelocity)).getD (1 : F) =
          clamp (svFor m.general.mode m2.controlPoints u) (0.1 : F) (10 : F)) ∧
        (SameSvAtSliders m.controlPoints m2.controlPoints m.hitObjects →
          m2.hitObjects.length = m.hitObjects.length ∧
          ∀ p ∈ List.zip m.hitObjects m2.hitObjects, ObjPreserved p.1 p.2) := by
  obtain ⟨st, h1, _, _, _, _, h6⟩ := roundtrip_rep_partial L E G m hm hth t h
  obtain ⟨st', h1', hcore⟩ := roundtrip_objects_rep_core L E G m hm hth t h hf
  obtain ⟨st'', h1'', hd⟩ := difficulty_from_field_file L E G m hm hth t h hone
  have e : st' = st := by rw [h1] at h1'; injection h1' with e; exact e.symm
  have e' : st'' = st := by rw [h1] at h1''; injection h1'' with e; exact e.symm
  subst e e'
  refine ⟨st'', h1, fun m2 h2 => ⟨fun u => ?_, hd m2 h2, hcore m2 h2⟩⟩
  obtain ⟨_, _, htl, _⟩ := h6 m2 h2
  have := (htl u).1
  revert this
  unfold svFor
  generalize m.general.mode = mode
  intro this
  cases mode <;> exact this

/-- **scroll_hypothesis_exact** — taiko / mania: for every finished re-decoded map, "the re-decoded collection answers
`difficulty_point_at` like the map's at the slider starts" (the proviso of `roundtrip_objects_rep_core`, all the velocity
reads) holds IF AND ONLY IF `ScrollDrivesSv m`. -/
theorem scroll_hypothesis_exact (L : MapLaws F P RF RP) (E : EpsLaws F) (G : GroupLaws F) (m : Beatmap F P)
    (hm : RepMap RF RP m) (hth : TimelineHyps m.general.mode m.controlPoints) (t : Str) (h : encode m = .ok t)
    (hf : Finalized m) (hone : clamp (1 : F) (0.1 : F) (10 : F) = 1)
    (hmode : m.general.mode = .taiko ∨ m.general.mode = .mania) :
    ∃ st : BeatmapState F P, decodeBytes beatmapDecoder (utf8Encode t) = .ok st ∧
      ∀ m2 : Beatmap F P, st.finish = .ok m2 →
        (SameSvAtSliders m.controlPoints m2.controlPoints m.hitObjects ↔ ScrollDrivesSv m) := by
  obtain ⟨st, h1, hall⟩ := redecoded_one_state L E G m hm hth t h hf hone
  refine ⟨st, h1, fun m2 h2 => ?_⟩
  obtain ⟨htl, hd, _⟩ := hall m2 h2
  have hsc : ∀ u : F, ((m2.controlPoints.difficultyPointAt u).map (·.sliderVelocity)).getD (1 : F) =
      clamp (((m.controlPoints.effectPointAt u).map (·.scrollSpeed)).getD (1 : F)) (0.1 : F) (10 : F) := by
    intro u
    rw [hd u, htl u]
    rcases hmode with hmo | hmo <;> rw [hmo] <;> rfl
  constructor
  · intro hs x hx hsl
    rw [← hs x hx hsl]; exact hsc _
  · intro hs x hx hsl
    rw [hs x hx hsl]; exact hsc _

/-- **roundtrip_objects_rep_scroll_partial** (taiko / mania; exact arithmetic for the timing part). For a map that satisfies
`RepMap`, is finalised, and whose slider velocity at every slider start is the clamped scroll speed: reading `encode m` back
succeeds, and whenever finalisation succeeds the re-decoded map has `m`'s hit objects on the preserved view (count, start
times, kinds, positions, combo flags and offsets, slider control points, repeat counts, VELOCITIES, durations, node counts). -/
theorem roundtrip_objects_rep_scroll_partial (L : MapLaws F P RF RP) (E : EpsLaws F) (G : GroupLaws F) (m : Beatmap F P)
    (hm : RepMap RF RP m) (hth : TimelineHyps m.general.mode m.controlPoints) (t : Str) (h : encode m = .ok t)
    (hf : Finalized m) (hmode : m.general.mode = .taiko ∨ m.general.mode = .mania)
    (hone : clamp (1 : F) (0.1 : F) (10 : F) = 1) (hscroll : ScrollDrivesSv m) :
    ∃ st : BeatmapState F P, decodeBytes beatmapDecoder (utf8Encode t) = .ok st ∧
      ∀ m2 : Beatmap F P, st.finish = .ok m2 →
        m2.hitObjects.length = m.hitObjects.length ∧
        ∀ p ∈ List.zip m.hitObjects m2.hitObjects, ObjPreserved p.1 p.2 := by
  obtain ⟨st, h1, hall⟩ := redecoded_one_state L E G m hm hth t h hf hone
  obtain ⟨st', h1', hex⟩ := scroll_hypothesis_exact L E G m hm hth t h hf hone hmode
  have e : st' = st := by rw [h1] at h1'; injection h1' with e; exact e.symm
  subst e
  exact ⟨st', h1, fun m2 h2 => (hall m2 h2).2.2 ((hex m2 h2).mpr hscroll)⟩

/-- **roundtrip_objects_rep_modes_partial** — the four modes in one statement: hypotheses of `roundtrip_rep_partial`,
`Finalized m`, the closed fact `clamp(1, 0.1, 10) = 1` and `SvWritten m` (nothing in osu! / catch). -/
theorem roundtrip_objects_rep_modes_partial (L : MapLaws F P RF RP) (E : EpsLaws F) (G : GroupLaws F) (m : Beatmap F P)
    (hm : RepMap RF RP m) (hth : TimelineHyps m.general.mode m.controlPoints) (t : Str) (h : encode m = .ok t)
    (hf : Finalized m) (hone : clamp (1 : F) (0.1 : F) (10 : F) = 1) (hsv : SvWritten m) :
    ∃ st : BeatmapState F P, decodeBytes beatmapDecoder (utf8Encode t) = .ok st ∧
      ∀ m2 : Beatmap F P, st.finish = .ok m2 →
        m2.hitObjects.length = m.hitObjects.length ∧
        ∀ p ∈ List.zip m.hitObjects m2.hitObjects, ObjPreserved p.1 p.2 := by
  unfold SvWritten at hsv
  cases hmo : m.general.mode with
  | osu => exact roundtrip_objects_rep_partial L E G m hm hth t h hf (Or.inl hmo)
  | «catch» => exact roundtrip_objects_rep_partial L E G m hm hth t h hf (Or.inr hmo)
  | taiko => rw [hmo] at hsv; exact roundtrip_objects_rep_scroll_partial L E G m hm hth t h hf (Or.inl hmo) hone hsv
  | mania => rw [hmo] at hsv; exact roundtrip_objects_rep_scroll_partial L E G m hm hth t h hf (Or.inr hmo) hone hsv

end

/-- the full clause for the map-level step, NOT a theorem of this development: the same for every DECODED chronological map
without assuming `RepMap`, `SvWritten`, or exact arithmetic. `RepMap` fails of decoded maps (F17, F18, F20); `EpsLaws` /
`GroupLaws` fail of IEEE doubles (`Props/IeeeFalse.lean`). -/
def roundtrip_objects_statement : Prop :=
  ∀ (F P : Type) [Scalar F] [Scalar P] [Cvt P F] [Trig F] [Trig P] (RF : F → Prop) (RP : P → Prop),
    MapLaws F P RF RP →
    ∀ (bs : List UInt8) (st : BeatmapState F P) (m : Beatmap F P) (t : Str) (st2 : BeatmapState F P) (m2 : Beatmap F P),
      decodeBytes beatmapDecoder bs = .ok st → Chronological st.hitObjects.core.hitObjects → st.finish = .ok m →
      encode m = .ok t → decodeBytes beatmapDecoder (utf8Encode t) = .ok st2 → st2.finish = .ok m2 →
      m2.hitObjects.length = m.hitObjects.length ∧
      ∀ p ∈ List.zip m.hitObjects m2.hitObjects, ObjPreserved p.1 p.2

end Rosu.C02
