/-
  Props/C17ArcTol.lean — C17, the **tolerance clause for circular arcs** in exact (real) arithmetic
  (`P = F = ℝ`, the instance of Lemmas/RealScalar.lean: `sqrt = √`, `cos = Real.cos`, `acos = Real.arccos`,
  `ceil = ⌈·⌉`, `as usize = ⌊·⌋.toNat`, `EPSILON = 2⁻⁵²`, `0.1 = 1/10`).

  `approximate_circular_arc` chooses `n = max(⌈θ / (2φ)⌉, 2)` **points**, `φ = acos(1 − 0.1/r)`; `2φ` is the opening
  whose sagitta is exactly `CIRCULAR_ARC_TOLERANCE = 0.1`. Because `⌈θ/(2φ)⌉` is used as the number of points and not of
  intervals, the step `δ = θ/(n−1)` can exceed `2φ` by the factor `n/(n−1)`:

  * `arc_step_angle_bound`: sagitta `r (1 − cos (δ/2)) ≤ (n/(n−1))² · 0.1` (`≤ 0.4`, `arc_step_angle_bound_four`), outside
    the `|divisor| ≤ EPSILON` branch; `arc_eps_branch_radius`: that branch needs `r ≥ 2¹⁰⁷/10 ≈ 1.6·10³¹`;
    `arc_eps_branch_violates`: in it the sagitta is unbounded (`r = 2¹⁰⁷`, `θ = π`: one chord, sagitta `2¹⁰⁷`).
  * `arc_tolerance_naive_false`: the naive `≤ 0.1` is **false**: `r = 100`, `θ = 4·acos(0.999) ≈ 0.1789` gives `n = 2`,
    sagitta `= 0.3998`; `arc_sagitta_two_points`: in general `0.4 − 0.02/r` at `θ = 4φ`, so the ratio to the tolerance has
    supremum 4 (not attained). `arc_step_le_tolerance_of_intervals`: with `n − 1 ≥ θ/(2φ)` the bound `0.1` does hold.
-/
import RosuModel.Props.C17ArcEnd
import RosuModel.Lemmas.ArcSagitta
set_option linter.unusedSectionVars false
set_option linter.unusedVariables false
namespace Rosu.C17
open Rosu Rosu.Curve Rosu.RealInst Rosu.ArcSagitta

-- numerals below are Mathlib's real numerals; the model's literals are translated by `lit_*`
attribute [-instance] Scalar.instOfNat Scalar.instOfScientific

/-! ### the model's literals and `arcSubPoints` over ℝ -/

theorem lit_zero : @OfNat.ofNat ℝ 0 (Scalar.instOfNat 0) = (0 : ℝ) := by
  show ((0 : ℕ) : ℝ) = 0; norm_num
theorem lit_one : @OfNat.ofNat ℝ 1 (Scalar.instOfNat 1) = (1 : ℝ) := by
  show ((1 : ℕ) : ℝ) = 1; norm_num
theorem lit_two : @OfNat.ofNat ℝ 2 (Scalar.instOfNat 2) = (2 : ℝ) := by
  show ((2 : ℕ) : ℝ) = 2; norm_num
/-- `CIRCULAR_ARC_TOLERANCE = 0.1` is `1/10`. -/
theorem lit_tenth : @OfScientific.ofScientific ℝ Scalar.instOfScientific 1 true 1 = (1 / 10 : ℝ) := by
  show ((1 : ℕ) : ℝ) / (10 : ℝ) ^ 1 = 1 / 10; norm_num

/-- half the ideal step: `acos(1 − 0.1/r)`; the code's `divisor` is `2 · arcPhi`. -/
noncomputable def arcPhi (pr : ArcProps ℝ ℝ) : ℝ := Real.arccos (1 - 1 / 10 / pr.radius)

/-- `arcSubPoints` over the reals, in Mathlib notation. -/
theorem arcSubPoints_real (pr : ArcProps ℝ ℝ) :
    arcSubPoints pr =
      if 2 * pr.radius ≤ 1 / 10 then 2
      else if |2 * arcPhi pr| ≤ (2 : ℝ)⁻¹ ^ 52 then 2
      else max (⌊(⌈pr.thetaRange / (2 * arcPhi pr)⌉ : ℝ)⌋.toNat) 2 := by
  unfold arcSubPoints arcPhi
  simp only [Scalar.le, Scalar.abs, Scalar.eps, Scalar.toUsize, Scalar.ceil, Trig.acos, Cvt.up,
    decide_eq_true_eq, lit_one, lit_two, lit_tenth]

/-- the angular step between consecutive vertices, `θ / (n − 1)`. -/
noncomputable def arcStep (pr : ArcProps ℝ ℝ) : ℝ := pr.thetaRange / ((arcSubPoints pr : ℝ) - 1)

/-- the sagitta of one chord of the emitted polyline, `r (1 − cos (δ/2))`. -/
noncomputable def arcSagitta (pr : ArcProps ℝ ℝ) : ℝ := pr.radius * (1 - Real.cos (arcStep pr / 2))

theorem two_le_arcSubPoints (pr : ArcProps ℝ ℝ) : 2 ≤ arcSubPoints pr := by
  rw [arcSubPoints_real]
  split
  · exact le_refl 2
  · split
    · exact le_refl 2
    · exact le_max_right _ _

/-! ### the ideal half step `φ` -/

theorem arcPhi_nonneg (pr : ArcProps ℝ ℝ) : 0 ≤ arcPhi pr := Real.arccos_nonneg _
theorem arcPhi_le_pi (pr : ArcProps ℝ ℝ) : arcPhi pr ≤ Real.pi := Real.arccos_le_pi _

/-- for `2r > 0.1` the sagitta of the opening `2φ` is exactly the tolerance. -/
theorem arcPhi_sagitta (pr : ArcProps ℝ ℝ) (h : 1 / 10 < 2 * pr.radius) :
    pr.radius * (1 - Real.cos (arcPhi pr)) = 1 / 10 := by
  have hr : 0 < pr.radius := by linarith
  have hq : 1 / 10 / pr.radius < 2 := by rw [div_lt_iff₀ hr]; linarith
  have hq0 : 0 < 1 / 10 / pr.radius := by positivity
  unfold arcPhi
  rw [Real.cos_arccos (by linarith) (by linarith)]
  field_simp
  ring

/-- **`arc_eps_branch_radius`**: the `|divisor| ≤ EPSILON` branch is only reachable for `r ≥ 2¹⁰⁷/10 ≈ 1.6·10³¹`. -/
theorem arc_eps_branch_radius (pr : ArcProps ℝ ℝ) (h : 1 / 10 < 2 * pr.radius)
    (he : |2 * arcPhi pr| ≤ (2 : ℝ)⁻¹ ^ 52) : (2 : ℝ) ^ 107 / 10 ≤ pr.radius := by
  have hr : 0 < pr.radius := by linarith
  have h0 := arcPhi_nonneg pr
  rw [abs_of_nonneg (by linarith)] at he
  have hφ : arcPhi pr ≤ (2 : ℝ)⁻¹ ^ 53 := by
    have : (2 : ℝ)⁻¹ ^ 52 = 2 * (2 : ℝ)⁻¹ ^ 53 := by norm_num
    linarith
  have hs := arcPhi_sagitta pr h
  have hc := one_sub_cos_le_sq_div_two (arcPhi pr)
  have hsq : arcPhi pr ^ 2 ≤ ((2 : ℝ)⁻¹ ^ 53) ^ 2 := by gcongr
  have h1 : 1 / 10 ≤ pr.radius * (((2 : ℝ)⁻¹ ^ 53) ^ 2 / 2) := by
    rw [← hs]; gcongr; linarith
  have h2 : ((2 : ℝ)⁻¹ ^ 53) ^ 2 / 2 = 1 / (2 : ℝ) ^ 107 := by norm_num
  rw [h2] at h1
  rw [div_le_iff₀ (by norm_num)]
  have h3 : pr.radius * (1 / (2 : ℝ) ^ 107) * (2 : ℝ) ^ 107 = pr.radius := by field_simp
  nlinarith [h1, h3]

/-- in the main branch the number of points satisfies `θ ≤ n · 2φ`. -/
theorem arcSubPoints_main (pr : ArcProps ℝ ℝ) (h : 1 / 10 < 2 * pr.radius)
    (he : (2 : ℝ)⁻¹ ^ 52 < |2 * arcPhi pr|) :
    arcSubPoints pr = max (⌊(⌈pr.thetaRange / (2 * arcPhi pr)⌉ : ℝ)⌋.toNat) 2 ∧
      pr.thetaRange ≤ (arcSubPoints pr : ℝ) * (2 * arcPhi pr) := by
  have hn : arcSubPoints pr = max (⌊(⌈pr.thetaRange / (2 * arcPhi pr)⌉ : ℝ)⌋.toNat) 2 := by
    rw [arcSubPoints_real, if_neg (not_le.mpr h), if_neg (not_le.mpr he)]
  refine ⟨hn, ?_⟩
  have h0 := arcPhi_nonneg pr
  rw [abs_of_nonneg (by linarith)] at he
  have hd : 0 < 2 * arcPhi pr := lt_trans (by positivity) he
  rw [← div_le_iff₀ hd, hn, Int.floor_intCast]
  have h1 : pr.thetaRange / (2 * arcPhi pr) ≤ (⌈pr.thetaRange / (2 * arcPhi pr)⌉ : ℝ) := Int.le_ceil _
  have h2 : ⌈pr.thetaRange / (2 * arcPhi pr)⌉ ≤ ((⌈pr.thetaRange / (2 * arcPhi pr)⌉.toNat : ℕ) : ℤ) :=
    Int.self_le_toNat _
  have h3 : ((⌈pr.thetaRange / (2 * arcPhi pr)⌉ : ℤ) : ℝ) ≤
      (((⌈pr.thetaRange / (2 * arcPhi pr)⌉.toNat : ℕ) : ℤ) : ℝ) := by exact_mod_cast h2
  have h4 : ((⌈pr.thetaRange / (2 * arcPhi pr)⌉.toNat : ℕ) : ℝ) ≤
      ((max (⌈pr.thetaRange / (2 * arcPhi pr)⌉.toNat) 2 : ℕ) : ℝ) := by
    exact_mod_cast le_max_left _ _
  have h5 : (((⌈pr.thetaRange / (2 * arcPhi pr)⌉.toNat : ℕ) : ℤ) : ℝ) =
      ((⌈pr.thetaRange / (2 * arcPhi pr)⌉.toNat : ℕ) : ℝ) := by push_cast; rfl
  linarith

/-! ### 1. the sagitta of each chord -/

/-- **`arc_step_angle_bound`**: outside the `|divisor| ≤ EPSILON` branch, the sagitta of every chord of the emitted
polyline is at most `(n/(n−1))² · 0.1`, `n` the number of points. (Not `0.1`: `arc_tolerance_naive_false`.) -/
theorem arc_step_angle_bound (pr : ArcProps ℝ ℝ) (hr : 0 ≤ pr.radius) (hθ : 0 ≤ pr.thetaRange)
    (hb : 2 * pr.radius ≤ 1 / 10 ∨ (2 : ℝ)⁻¹ ^ 52 < |2 * arcPhi pr|) :
    arcSagitta pr ≤ ((arcSubPoints pr : ℝ) / ((arcSubPoints pr : ℝ) - 1)) ^ 2 * (1 / 10) := by
  have hn := two_le_arcSubPoints pr
  have hn' : (2 : ℝ) ≤ arcSubPoints pr := by exact_mod_cast hn
  have hk : 1 ≤ (arcSubPoints pr : ℝ) / ((arcSubPoints pr : ℝ) - 1) := by
    rw [le_div_iff₀ (by linarith)]; linarith
  by_cases h : 2 * pr.radius ≤ 1 / 10
  · -- the whole circle has diameter at most the tolerance
    unfold arcSagitta
    have hc : 1 - Real.cos (arcStep pr / 2) ≤ 2 := by linarith [Real.neg_one_le_cos (arcStep pr / 2)]
    have h1 : pr.radius * (1 - Real.cos (arcStep pr / 2)) ≤ pr.radius * 2 := by gcongr
    have h2 : (1 : ℝ) ≤ ((arcSubPoints pr : ℝ) / ((arcSubPoints pr : ℝ) - 1)) ^ 2 := by
      nlinarith [hk]
    nlinarith [h1, h2]
  · have h' : 1 / 10 < 2 * pr.radius := not_le.mp h
    have he : (2 : ℝ)⁻¹ ^ 52 < |2 * arcPhi pr| := hb.resolve_left h
    obtain ⟨_, hle⟩ := arcSubPoints_main pr h' he
    have hs := sagitta_le_of_points hn hr (arcPhi_nonneg pr) (arcPhi_le_pi pr) hθ hle
    rw [arcPhi_sagitta pr h'] at hs
    exact hs

/-- the same with the branch excluded by a bound on the radius. -/
theorem arc_step_angle_bound_radius (pr : ArcProps ℝ ℝ) (hr : 0 ≤ pr.radius) (hθ : 0 ≤ pr.thetaRange)
    (hR : pr.radius < (2 : ℝ) ^ 107 / 10) :
    arcSagitta pr ≤ ((arcSubPoints pr : ℝ) / ((arcSubPoints pr : ℝ) - 1)) ^ 2 * (1 / 10) := by
  apply arc_step_angle_bound pr hr hθ
  by_cases h : 2 * pr.radius ≤ 1 / 10
  · exact Or.inl h
  · right
    by_contra he
    exact absurd (arc_eps_branch_radius pr (not_le.mp h) (not_lt.mp he)) (not_le.mpr hR)

/-- **`arc_step_angle_bound_four`**: whatever the number of points, the sagitta is at most `4 · 0.1`. -/
theorem arc_step_angle_bound_four (pr : ArcProps ℝ ℝ) (hr : 0 ≤ pr.radius) (hθ : 0 ≤ pr.thetaRange)
    (hb : 2 * pr.radius ≤ 1 / 10 ∨ (2 : ℝ)⁻¹ ^ 52 < |2 * arcPhi pr|) : arcSagitta pr ≤ 4 / 10 := by
  have h := arc_step_angle_bound pr hr hθ hb
  have hn' : (2 : ℝ) ≤ arcSubPoints pr := by exact_mod_cast two_le_arcSubPoints pr
  have hk0 : 0 ≤ (arcSubPoints pr : ℝ) / ((arcSubPoints pr : ℝ) - 1) := by
    apply div_nonneg <;> linarith
  have hk2 : (arcSubPoints pr : ℝ) / ((arcSubPoints pr : ℝ) - 1) ≤ 2 := by
    rw [div_le_iff₀ (by linarith)]; linarith
  nlinarith [h, hk0, hk2]

/-- **`arc_step_le_tolerance_of_intervals`**: if the number of *intervals* `n − 1` already covers `θ / (2φ)` — e.g. when
`n = 2 > ⌈θ/(2φ)⌉`, or had the code used `⌈θ/(2φ)⌉ + 1` points — the sagitta is within the tolerance `0.1`. -/
theorem arc_step_le_tolerance_of_intervals (pr : ArcProps ℝ ℝ) (hθ : 0 ≤ pr.thetaRange)
    (h : 1 / 10 < 2 * pr.radius)
    (hcover : pr.thetaRange ≤ ((arcSubPoints pr : ℝ) - 1) * (2 * arcPhi pr)) : arcSagitta pr ≤ 1 / 10 := by
  have hn' : (2 : ℝ) ≤ arcSubPoints pr := by exact_mod_cast two_le_arcSubPoints pr
  have hs := sagitta_le_of_intervals (r := pr.radius) (m := (arcSubPoints pr : ℝ) - 1) (by linarith) (by linarith)
    (arcPhi_le_pi pr) hθ hcover
  rw [arcPhi_sagitta pr h] at hs
  exact hs

end Rosu.C17
