/-
  Props/C17ArcTol.lean — C17, the **tolerance clause for circular arcs** in exact (real) arithmetic
  (`P = F = ℝ`, the instance of Lemmas/RealScalar.lean: `sqrt = √`, `cos = Real.cos`, `acos = Real.arccos`,
  `ceil = ⌈·⌉`, `as usize = ⌊·⌋.toNat`, `EPSILON = 2⁻⁵²`, `0.1 = 1/10`).

  `approximate_circular_arc` chooses `n = max(⌈θ / (2φ)⌉, 2)` **points**, `φ = acos(1 − 0.1/r)`; `2φ` is the opening
  whose sagitta is exactly `CIRCULAR_ARC_TOLERANCE = 0.1`. Because `⌈θ/(2φ)⌉` is used as the number of points and not of
  intervals, the step `δ = θ/(n−1)` can exceed `2φ` by the factor `n/(n−1)`:

  * `arc_step_angle_bound`: sagitta `r (1 − cos (δ/2)) ≤ (n/(n−1))² · 0.1` (`≤ 0.4`, `arc_step_angle_bound_four`), outside
    the `|divisor| ≤ EPSILON` branch; `arc_eps_branch_radius`: that branch needs `r ≥ 2¹⁰⁷/10 ≈ 1.6·10³¹`;
    `arc_eps_branch_violates`: in it the sagitta is unbounded (`r = 2¹⁰⁷`, `θ = π`: one chord, sagitta `2¹⁰⁷`).
  * `arc_tolerance_naive_false`: the naive `≤ 0.1` is **false**: `r = 100`, `θ = 4·acos(0.999) ≈ 0.1789` gives `n = 2`,
    sagitta `= 0.3998`; `arc_sagitta_two_points`: in general `0.4 − 0.02/r` at `θ = 4φ`, so the ratio to the tolerance has
    supremum 4 (not attained). `arc_step_le_tolerance_of_intervals`: with `n − 1 ≥ θ/(2φ)` the bound `0.1` does hold.
  * `arcProps_real_range`: over ℝ `circular_arc_properties` returns `radius ≥ 0`, `0 ≤ θ ≤ 2π`, `direction = ±1`.
  * `arc_piece_within`, `arc_within_tolerance_real`: for every accepted arc the exact arc and the emitted polyline are within
    Hausdorff distance `arcSagitta` of each other (`chord_sagitta`, Lemmas/ArcSagitta.lean), `arcSagitta ≤ (n/(n−1))²·0.1`.
  * `halfCircle_exceeds_tolerance`: end to end, `(1,0),(0,1),(−1,0)` is emitted as 4 vertices and the exact-arc point at
    30° is more than `0.13` from every point of the polyline.
-/
import RosuModel.Props.C17ArcEnd
import RosuModel.Lemmas.ArcSagitta
set_option linter.unusedSectionVars false
set_option linter.unusedVariables false
namespace Rosu.C17
open Rosu Rosu.Curve Rosu.RealInst Rosu.ArcSagitta

-- numerals below are Mathlib's real numerals; the model's literals are translated by `lit_*`
attribute [-instance] Scalar.instOfNat Scalar.instOfScientific

/-! ### the model's literals and `arcSubPoints` over ℝ -/

theorem lit_zero : @OfNat.ofNat ℝ 0 (Scalar.instOfNat 0) = (0 : ℝ) := by
  show ((0 : ℕ) : ℝ) = 0; norm_num
theorem lit_one : @OfNat.ofNat ℝ 1 (Scalar.instOfNat 1) = (1 : ℝ) := by
  show ((1 : ℕ) : ℝ) = 1; norm_num
theorem lit_two : @OfNat.ofNat ℝ 2 (Scalar.instOfNat 2) = (2 : ℝ) := by
  show ((2 : ℕ) : ℝ) = 2; norm_num
/-- `CIRCULAR_ARC_TOLERANCE = 0.1` is `1/10`. -/
theorem lit_tenth : @OfScientific.ofScientific ℝ Scalar.instOfScientific 1 true 1 = (1 / 10 : ℝ) := by
  show ((1 : ℕ) : ℝ) / (10 : ℝ) ^ 1 = 1 / 10; norm_num

/-- half the ideal step: `acos(1 − 0.1/r)`; the code's `divisor` is `2 · arcPhi`. -/
noncomputable def arcPhi (pr : ArcProps ℝ ℝ) : ℝ := Real.arccos (1 - 1 / 10 / pr.radius)

/-- `arcSubPoints` over the reals, in Mathlib notation. -/
theorem arcSubPoints_real (pr : ArcProps ℝ ℝ) :
    arcSubPoints pr =
      if 2 * pr.radius ≤ 1 / 10 then 2
      else if |2 * arcPhi pr| ≤ (2 : ℝ)⁻¹ ^ 52 then 2
      else max (⌊(⌈pr.thetaRange / (2 * arcPhi pr)⌉ : ℝ)⌋.toNat) 2 := by
  unfold arcSubPoints arcPhi
  simp only [Scalar.le, Scalar.abs, Scalar.eps, Scalar.toUsize, Scalar.ceil, Trig.acos, Cvt.up,
    decide_eq_true_eq, lit_one, lit_two, lit_tenth]

/-- the angular step between consecutive vertices, `θ / (n − 1)`. -/
noncomputable def arcStep (pr : ArcProps ℝ ℝ) : ℝ := pr.thetaRange / ((arcSubPoints pr : ℝ) - 1)

/-- the sagitta of one chord of the emitted polyline, `r (1 − cos (δ/2))`. -/
noncomputable def arcSagitta (pr : ArcProps ℝ ℝ) : ℝ := pr.radius * (1 - Real.cos (arcStep pr / 2))

theorem two_le_arcSubPoints (pr : ArcProps ℝ ℝ) : 2 ≤ arcSubPoints pr := by
  rw [arcSubPoints_real]
  split
  · exact le_refl 2
  · split
    · exact le_refl 2
    · exact le_max_right _ _

/-! ### the ideal half step `φ` -/

theorem arcPhi_nonneg (pr : ArcProps ℝ ℝ) : 0 ≤ arcPhi pr := Real.arccos_nonneg _
theorem arcPhi_le_pi (pr : ArcProps ℝ ℝ) : arcPhi pr ≤ Real.pi := Real.arccos_le_pi _

/-- for `2r > 0.1` the sagitta of the opening `2φ` is exactly the tolerance. -/
theorem arcPhi_sagitta (pr : ArcProps ℝ ℝ) (h : 1 / 10 < 2 * pr.radius) :
    pr.radius * (1 - Real.cos (arcPhi pr)) = 1 / 10 := by
  have hr : 0 < pr.radius := by linarith
  have hq : 1 / 10 / pr.radius < 2 := by rw [div_lt_iff₀ hr]; linarith
  have hq0 : 0 < 1 / 10 / pr.radius := by positivity
  unfold arcPhi
  rw [Real.cos_arccos (by linarith) (by linarith)]
  field_simp
  ring

/-- **`arc_eps_branch_radius`**: the `|divisor| ≤ EPSILON` branch is only reachable for `r ≥ 2¹⁰⁷/10 ≈ 1.6·10³¹`. -/
theorem arc_eps_branch_radius (pr : ArcProps ℝ ℝ) (h : 1 / 10 < 2 * pr.radius)
    (he : |2 * arcPhi pr| ≤ (2 : ℝ)⁻¹ ^ 52) : (2 : ℝ) ^ 107 / 10 ≤ pr.radius := by
  have hr : 0 < pr.radius := by linarith
  have h0 := arcPhi_nonneg pr
  rw [abs_of_nonneg (by linarith)] at he
  have hφ : arcPhi pr ≤ (2 : ℝ)⁻¹ ^ 53 := by
    have : (2 : ℝ)⁻¹ ^ 52 = 2 * (2 : ℝ)⁻¹ ^ 53 := by norm_num
    linarith
  have hs := arcPhi_sagitta pr h
  have hc := one_sub_cos_le_sq_div_two (arcPhi pr)
  have hsq : arcPhi pr ^ 2 ≤ ((2 : ℝ)⁻¹ ^ 53) ^ 2 := by gcongr
  have h1 : 1 / 10 ≤ pr.radius * (((2 : ℝ)⁻¹ ^ 53) ^ 2 / 2) := by
    rw [← hs]; gcongr; linarith
  have h2 : ((2 : ℝ)⁻¹ ^ 53) ^ 2 / 2 = 1 / (2 : ℝ) ^ 107 := by norm_num
  rw [h2] at h1
  rw [div_le_iff₀ (by norm_num)]
  have h3 : pr.radius * (1 / (2 : ℝ) ^ 107) * (2 : ℝ) ^ 107 = pr.radius := by field_simp
  nlinarith [h1, h3]

/-- in the main branch the number of points satisfies `θ ≤ n · 2φ`. -/
theorem arcSubPoints_main (pr : ArcProps ℝ ℝ) (h : 1 / 10 < 2 * pr.radius)
    (he : (2 : ℝ)⁻¹ ^ 52 < |2 * arcPhi pr|) :
    arcSubPoints pr = max (⌊(⌈pr.thetaRange / (2 * arcPhi pr)⌉ : ℝ)⌋.toNat) 2 ∧
      pr.thetaRange ≤ (arcSubPoints pr : ℝ) * (2 * arcPhi pr) := by
  have hn : arcSubPoints pr = max (⌊(⌈pr.thetaRange / (2 * arcPhi pr)⌉ : ℝ)⌋.toNat) 2 := by
    rw [arcSubPoints_real, if_neg (not_le.mpr h), if_neg (not_le.mpr he)]
  refine ⟨hn, ?_⟩
  have h0 := arcPhi_nonneg pr
  rw [abs_of_nonneg (by linarith)] at he
  have hd : 0 < 2 * arcPhi pr := lt_trans (by positivity) he
  rw [← div_le_iff₀ hd, hn, Int.floor_intCast]
  have h1 : pr.thetaRange / (2 * arcPhi pr) ≤ (⌈pr.thetaRange / (2 * arcPhi pr)⌉ : ℝ) := Int.le_ceil _
  have h2 : ⌈pr.thetaRange / (2 * arcPhi pr)⌉ ≤ ((⌈pr.thetaRange / (2 * arcPhi pr)⌉.toNat : ℕ) : ℤ) :=
    Int.self_le_toNat _
  have h3 : ((⌈pr.thetaRange / (2 * arcPhi pr)⌉ : ℤ) : ℝ) ≤
      (((⌈pr.thetaRange / (2 * arcPhi pr)⌉.toNat : ℕ) : ℤ) : ℝ) := by exact_mod_cast h2
  have h4 : ((⌈pr.thetaRange / (2 * arcPhi pr)⌉.toNat : ℕ) : ℝ) ≤
      ((max (⌈pr.thetaRange / (2 * arcPhi pr)⌉.toNat) 2 : ℕ) : ℝ) := by
    exact_mod_cast le_max_left _ _
  have h5 : (((⌈pr.thetaRange / (2 * arcPhi pr)⌉.toNat : ℕ) : ℤ) : ℝ) =
      ((⌈pr.thetaRange / (2 * arcPhi pr)⌉.toNat : ℕ) : ℝ) := by push_cast; rfl
  linarith

/-! ### 1. the sagitta of each chord -/

/-- **`arc_step_angle_bound`**: outside the `|divisor| ≤ EPSILON` branch, the sagitta of every chord of the emitted
polyline is at most `(n/(n−1))² · 0.1`, `n` the number of points. (Not `0.1`: `arc_tolerance_naive_false`.) -/
theorem arc_step_angle_bound (pr : ArcProps ℝ ℝ) (hr : 0 ≤ pr.radius) (hθ : 0 ≤ pr.thetaRange)
    (hb : 2 * pr.radius ≤ 1 / 10 ∨ (2 : ℝ)⁻¹ ^ 52 < |2 * arcPhi pr|) :
    arcSagitta pr ≤ ((arcSubPoints pr : ℝ) / ((arcSubPoints pr : ℝ) - 1)) ^ 2 * (1 / 10) := by
  have hn := two_le_arcSubPoints pr
  have hn' : (2 : ℝ) ≤ arcSubPoints pr := by exact_mod_cast hn
  have hk : 1 ≤ (arcSubPoints pr : ℝ) / ((arcSubPoints pr : ℝ) - 1) := by
    rw [le_div_iff₀ (by linarith)]; linarith
  by_cases h : 2 * pr.radius ≤ 1 / 10
  · -- the whole circle has diameter at most the tolerance
    unfold arcSagitta
    have hc : 1 - Real.cos (arcStep pr / 2) ≤ 2 := by linarith [Real.neg_one_le_cos (arcStep pr / 2)]
    have h1 : pr.radius * (1 - Real.cos (arcStep pr / 2)) ≤ pr.radius * 2 := by gcongr
    have h2 : (1 : ℝ) ≤ ((arcSubPoints pr : ℝ) / ((arcSubPoints pr : ℝ) - 1)) ^ 2 := by
      nlinarith [hk]
    nlinarith [h1, h2]
  · have h' : 1 / 10 < 2 * pr.radius := not_le.mp h
    have he : (2 : ℝ)⁻¹ ^ 52 < |2 * arcPhi pr| := hb.resolve_left h
    obtain ⟨_, hle⟩ := arcSubPoints_main pr h' he
    have hs := sagitta_le_of_points hn hr (arcPhi_nonneg pr) (arcPhi_le_pi pr) hθ hle
    rw [arcPhi_sagitta pr h'] at hs
    exact hs

/-- the same with the branch excluded by a bound on the radius. -/
theorem arc_step_angle_bound_radius (pr : ArcProps ℝ ℝ) (hr : 0 ≤ pr.radius) (hθ : 0 ≤ pr.thetaRange)
    (hR : pr.radius < (2 : ℝ) ^ 107 / 10) :
    arcSagitta pr ≤ ((arcSubPoints pr : ℝ) / ((arcSubPoints pr : ℝ) - 1)) ^ 2 * (1 / 10) := by
  apply arc_step_angle_bound pr hr hθ
  by_cases h : 2 * pr.radius ≤ 1 / 10
  · exact Or.inl h
  · right
    by_contra he
    exact absurd (arc_eps_branch_radius pr (not_le.mp h) (not_lt.mp he)) (not_le.mpr hR)

/-- **`arc_step_angle_bound_four`**: whatever the number of points, the sagitta is at most `4 · 0.1`. -/
theorem arc_step_angle_bound_four (pr : ArcProps ℝ ℝ) (hr : 0 ≤ pr.radius) (hθ : 0 ≤ pr.thetaRange)
    (hb : 2 * pr.radius ≤ 1 / 10 ∨ (2 : ℝ)⁻¹ ^ 52 < |2 * arcPhi pr|) : arcSagitta pr ≤ 4 / 10 := by
  have h := arc_step_angle_bound pr hr hθ hb
  have hn' : (2 : ℝ) ≤ arcSubPoints pr := by exact_mod_cast two_le_arcSubPoints pr
  have hk0 : 0 ≤ (arcSubPoints pr : ℝ) / ((arcSubPoints pr : ℝ) - 1) := by
    apply div_nonneg <;> linarith
  have hk2 : (arcSubPoints pr : ℝ) / ((arcSubPoints pr : ℝ) - 1) ≤ 2 := by
    rw [div_le_iff₀ (by linarith)]; linarith
  nlinarith [h, hk0, hk2]

/-- **`arc_step_le_tolerance_of_intervals`**: if the number of *intervals* `n − 1` already covers `θ / (2φ)` — e.g. when
`n = 2 > ⌈θ/(2φ)⌉`, or had the code used `⌈θ/(2φ)⌉ + 1` points — the sagitta is within the tolerance `0.1`. -/
theorem arc_step_le_tolerance_of_intervals (pr : ArcProps ℝ ℝ) (hθ : 0 ≤ pr.thetaRange)
    (h : 1 / 10 < 2 * pr.radius)
    (hcover : pr.thetaRange ≤ ((arcSubPoints pr : ℝ) - 1) * (2 * arcPhi pr)) : arcSagitta pr ≤ 1 / 10 := by
  have hn' : (2 : ℝ) ≤ arcSubPoints pr := by exact_mod_cast two_le_arcSubPoints pr
  have hs := sagitta_le_of_intervals (r := pr.radius) (m := (arcSubPoints pr : ℝ) - 1) (by linarith) (by linarith)
    (arcPhi_le_pi pr) hθ hcover
  rw [arcPhi_sagitta pr h] at hs
  exact hs

/-! ### the naive bound `0.1` is false; the `EPSILON` branch is unbounded -/

/-- outside the `EPSILON` branch, stated with the radius bound. -/
theorem arc_main_branch_of_radius (pr : ArcProps ℝ ℝ) (h : 1 / 10 < 2 * pr.radius)
    (hR : pr.radius < (2 : ℝ) ^ 107 / 10) : (2 : ℝ)⁻¹ ^ 52 < |2 * arcPhi pr| := by
  by_contra hc
  exact absurd (arc_eps_branch_radius pr h (not_lt.mp hc)) (not_le.mpr hR)

/-- **`arc_sagitta_two_points`**: at `θ = 4φ` (`θ/(2φ) = 2`: two points, a single chord) the sagitta is
`0.4 − 0.02/r`: as `r` grows the ratio to the tolerance tends to 4. -/
theorem arc_sagitta_two_points (pr : ArcProps ℝ ℝ) (h : 1 / 10 < 2 * pr.radius)
    (hR : pr.radius < (2 : ℝ) ^ 107 / 10) (hθ : pr.thetaRange = 4 * arcPhi pr) :
    arcSubPoints pr = 2 ∧ arcSagitta pr = 4 / 10 - 2 / 100 / pr.radius := by
  have hr : 0 < pr.radius := by linarith
  have he := arc_main_branch_of_radius pr h hR
  have h0 := arcPhi_nonneg pr
  have hpos : 0 < 2 * arcPhi pr := by
    rw [abs_of_nonneg (by linarith)] at he; exact lt_trans (by positivity) he
  have hn : arcSubPoints pr = 2 := by
    rw [(arcSubPoints_main pr h he).1, hθ]
    have : 4 * arcPhi pr / (2 * arcPhi pr) = ((2 : ℤ) : ℝ) := by
      rw [div_eq_iff (ne_of_gt hpos)]; push_cast; ring
    rw [this, Int.ceil_intCast, Int.floor_intCast]; rfl
  refine ⟨hn, ?_⟩
  unfold arcSagitta arcStep
  rw [hn, hθ]
  have : 4 * arcPhi pr / (((2 : ℕ) : ℝ) - 1) / 2 = 2 * arcPhi pr := by push_cast; ring
  rw [this, one_sub_cos_two_mul]
  have hs := arcPhi_sagitta pr h
  have hq : 1 / 10 / pr.radius < 2 := by rw [div_lt_iff₀ hr]; linarith
  have hq0 : 0 < 1 / 10 / pr.radius := by positivity
  have hcos : Real.cos (arcPhi pr) = 1 - 1 / 10 / pr.radius := by
    unfold arcPhi; rw [Real.cos_arccos (by linarith) (by linarith)]
  have : pr.radius * (2 * (1 - Real.cos (arcPhi pr)) * (1 + Real.cos (arcPhi pr))) =
      2 * (pr.radius * (1 - Real.cos (arcPhi pr))) * (1 + Real.cos (arcPhi pr)) := by ring
  rw [this, hs, hcos]
  ring

/-- the witness: radius 100, opening `4·acos(0.999) ≈ 0.17890` (about 10.25°, arc length ≈ 17.9). -/
noncomputable def prNaive : ArcProps ℝ ℝ :=
  { thetaStart := 0, thetaRange := 4 * Real.arccos (999 / 1000), direction := 1, radius := 100, centre := ⟨0, 0⟩ }

/-- **`arc_tolerance_naive_false`**: `sagitta ≤ CIRCULAR_ARC_TOLERANCE` is false of the point-count rule: for radius 100
and opening `4·acos(0.999)` the code emits 2 points and the arc's midpoint is `0.3998` away from the chord. -/
theorem arc_tolerance_naive_false :
    arcSubPoints prNaive = 2 ∧ arcSagitta prNaive = 3998 / 10000 ∧ ¬ arcSagitta prNaive ≤ 1 / 10 := by
  have hφ : arcPhi prNaive = Real.arccos (999 / 1000) := by
    unfold arcPhi prNaive; norm_num
  have hrad : prNaive.radius = 100 := rfl
  obtain ⟨hn, hs⟩ := arc_sagitta_two_points prNaive (by rw [hrad]; norm_num) (by rw [hrad]; norm_num)
    (by rw [hφ]; rfl)
  rw [hrad] at hs
  have hv : arcSagitta prNaive = 3998 / 10000 := by rw [hs]; norm_num
  exact ⟨hn, hv, by rw [hv]; norm_num⟩

/-- a witness in the `|divisor| ≤ EPSILON` branch: radius `2¹⁰⁷`, a half circle. -/
noncomputable def prEps : ArcProps ℝ ℝ :=
  { thetaStart := 0, thetaRange := Real.pi, direction := 1, radius := 2 ^ 107, centre := ⟨0, 0⟩ }

/-- **`arc_eps_branch_violates`**: in the `EPSILON` branch (radius `≥ 2¹⁰⁷/10`) nothing bounds the sagitta: a half circle
of radius `2¹⁰⁷` is emitted as its diameter, sagitta `2¹⁰⁷`. (In `f32` the same branch is entered as soon as
`1 − 0.1/r` rounds to `1`, i.e. for `r` beyond about `3.4·10⁶`.) -/
theorem arc_eps_branch_violates : arcSubPoints prEps = 2 ∧ arcSagitta prEps = 2 ^ 107 := by
  have hrad : prEps.radius = 2 ^ 107 := rfl
  have hφ : arcPhi prEps ≤ (2 : ℝ)⁻¹ ^ 53 := by
    unfold arcPhi
    rw [hrad]
    have hy0 : (0 : ℝ) ≤ (2 : ℝ)⁻¹ ^ 53 := by positivity
    have hy1 : (2 : ℝ)⁻¹ ^ 53 ≤ 1 := by norm_num
    have hyπ : (2 : ℝ)⁻¹ ^ 53 ≤ Real.pi := le_trans hy1 (by linarith [Real.two_le_pi])
    have hb := Real.cos_bound (x := (2 : ℝ)⁻¹ ^ 53) (by rw [abs_of_nonneg hy0]; exact hy1)
    rw [abs_of_nonneg hy0] at hb
    have hc : Real.cos ((2 : ℝ)⁻¹ ^ 53) ≤ 1 - 1 / 10 / 2 ^ 107 := by
      have h1 := (abs_le.mp hb).2
      have h2 : (1 : ℝ) - ((2 : ℝ)⁻¹ ^ 53) ^ 2 / 2 + ((2 : ℝ)⁻¹ ^ 53) ^ 4 * (5 / 96) ≤ 1 - 1 / 10 / 2 ^ 107 := by
        norm_num
      linarith
    calc Real.arccos (1 - 1 / 10 / 2 ^ 107) ≤ Real.arccos (Real.cos ((2 : ℝ)⁻¹ ^ 53)) := Real.arccos_le_arccos hc
      _ = (2 : ℝ)⁻¹ ^ 53 := Real.arccos_cos hy0 hyπ
  have hn : arcSubPoints prEps = 2 := by
    rw [arcSubPoints_real, if_neg (by rw [hrad]; norm_num), if_pos]
    rw [abs_of_nonneg (by linarith [arcPhi_nonneg prEps])]
    have : (2 : ℝ)⁻¹ ^ 52 = 2 * (2 : ℝ)⁻¹ ^ 53 := by norm_num
    linarith
  refine ⟨hn, ?_⟩
  unfold arcSagitta arcStep
  rw [hn]
  have : prEps.thetaRange / (((2 : ℕ) : ℝ) - 1) / 2 = Real.pi / 2 := by
    show Real.pi / (((2 : ℕ) : ℝ) - 1) / 2 = Real.pi / 2
    push_cast; ring
  rw [this, Real.cos_pi_div_two, hrad]
  ring

/-! ### 3. accepted arcs over ℝ: the exact arc and the emitted polyline are within the sagitta of each other -/

theorem lt_real (a b : ℝ) : Scalar.lt a b = decide (a < b) := rfl

/-- `while theta_end < theta_start { theta_end += 2π }` over ℝ: the result is `≥ theta_start`, and it is either the
initial value or less than `theta_start + 2π`. -/
theorem thetaLoop_real : ∀ (fuel : Nat) (te0 ts te : ℝ), thetaLoop fuel te0 ts = .ok te →
    ts ≤ te ∧ (te = te0 ∨ te < ts + 2 * Real.pi) := by
  intro fuel
  induction fuel with
  | zero =>
    intro te0 ts te h
    unfold thetaLoop at h
    split at h
    · cases h
    · rename_i hlt
      cases h
      rw [lt_real] at hlt
      simp only [decide_eq_true_eq, not_lt] at hlt
      exact ⟨hlt, Or.inl rfl⟩
  | succ n ih =>
    intro te0 ts te h
    unfold thetaLoop at h
    split at h
    · rename_i hlt
      rw [lt_real] at hlt
      simp only [decide_eq_true_eq] at hlt
      obtain ⟨h1, h2⟩ := ih _ _ _ h
      refine ⟨h1, Or.inr ?_⟩
      rcases h2 with h2 | h2
      · rw [h2]
        show te0 + (@OfNat.ofNat ℝ 2 (Scalar.instOfNat 2)) * Real.pi < ts + 2 * Real.pi
        rw [lit_two]; linarith
      · exact h2
    · rename_i hlt
      cases h
      rw [lt_real] at hlt
      simp only [decide_eq_true_eq, not_lt] at hlt
      exact ⟨hlt, Or.inl rfl⟩

/-- **what `circular_arc_properties` guarantees over ℝ**: `radius ≥ 0`, `0 ≤ theta_range ≤ 2π`, `direction = ±1`. -/
theorem arcProps_real_range (fuel : Nat) (a b c : Pos ℝ) (pr : ArcProps ℝ ℝ)
    (h : circularArcProperties (F := ℝ) fuel a b c = .ok (some pr)) :
    0 ≤ pr.radius ∧ 0 ≤ pr.thetaRange ∧ pr.thetaRange ≤ 2 * Real.pi ∧
      (pr.direction = 1 ∨ pr.direction = -1) := by
  obtain ⟨_, _, hrad, hts⟩ := arcProps_shape fuel a b c pr h
  obtain ⟨te, hte, hdir⟩ := arcProps_end_shape fuel a b c pr h
  have hr : 0 ≤ pr.radius := by
    rw [hrad]; exact exactArith_real.length_nonneg (a - pr.centre)
  obtain ⟨h1, h2⟩ := thetaLoop_real fuel _ _ _ hte
  have hts1 : -Real.pi < pr.thetaStart := by
    rw [hts]; exact Complex.neg_pi_lt_arg _
  have hte0 : (Trig.atan2 (Cvt.up (c - pr.centre).y : ℝ) (Cvt.up (c - pr.centre).x : ℝ) : ℝ) ≤ Real.pi :=
    Complex.arg_le_pi _
  have hlt : te - pr.thetaStart < 2 * Real.pi := by
    rcases h2 with h2 | h2
    · rw [h2]; linarith
    · linarith
  refine ⟨hr, ?_⟩
  rcases hdir with ⟨hd, hθ⟩ | ⟨hd, hθ⟩
  · rw [lit_one] at hd
    exact ⟨by rw [hθ]; linarith, by rw [hθ]; linarith, Or.inl hd⟩
  · rw [lit_one] at hd
    rw [lit_two, show (Trig.pi : ℝ) = Real.pi from rfl] at hθ
    exact ⟨by rw [hθ]; linarith, by rw [hθ]; linarith, Or.inr hd⟩

/-- the point `(1 − l) p + l q` of the segment between two vertices. -/
def segAt (p q : Pos ℝ) (l : ℝ) : Pos ℝ := ⟨(1 - l) * p.x + l * q.x, (1 - l) * p.y + l * q.y⟩

def toPair (p : Pos ℝ) : ℝ × ℝ := (p.x, p.y)

/-- the model's `Pos::distance` over ℝ is the Euclidean distance. -/
theorem distance_eq_eDist (p q : Pos ℝ) : Pos.distance ℝ p q = eDist (toPair p) (toPair q) := by
  show Real.sqrt ((p.x - q.x) * (p.x - q.x) + (p.y - q.y) * (p.y - q.y)) =
    Real.sqrt ((p.x - q.x) ^ 2 + (p.y - q.y) ^ 2)
  congr 1; ring

theorem toPair_arcAt (pr : ArcProps ℝ ℝ) (θ : ℝ) :
    toPair (arcAt pr θ) = circPt (toPair pr.centre) pr.radius θ := by
  show (pr.centre.x + Real.cos θ * pr.radius, pr.centre.y + Real.sin θ * pr.radius) =
    (pr.centre.x + pr.radius * Real.cos θ, pr.centre.y + pr.radius * Real.sin θ)
  rw [mul_comm (Real.cos θ), mul_comm (Real.sin θ)]

theorem toPair_segAt (p q : Pos ℝ) (l : ℝ) : toPair (segAt p q l) = segPt (toPair p) (toPair q) l := rfl

/-- the signed angular step `direction · θ / (n − 1)`. -/
noncomputable def arcSignedStep (pr : ArcProps ℝ ℝ) : ℝ :=
  pr.direction * pr.thetaRange / ((arcSubPoints pr : ℝ) - 1)

theorem arcTheta_real (pr : ArcProps ℝ ℝ) (n i : Nat) (hn : 2 ≤ n) :
    arcTheta pr n i = pr.thetaStart + (i : ℝ) * (pr.direction * pr.thetaRange / ((n : ℝ) - 1)) := by
  show pr.thetaStart + (i : ℝ) / ((n - 1 : ℕ) : ℝ) * (pr.direction * pr.thetaRange) = _
  have : ((n - 1 : ℕ) : ℝ) = (n : ℝ) - 1 := by
    rw [Nat.cast_sub (by omega)]; simp
  rw [this]; ring

theorem arcTheta_step (pr : ArcProps ℝ ℝ) (i : Nat) :
    arcTheta pr (arcSubPoints pr) i = pr.thetaStart + (i : ℝ) * arcSignedStep pr :=
  arcTheta_real pr _ i (two_le_arcSubPoints pr)

theorem arcSagitta_signed (pr : ArcProps ℝ ℝ) (hd : pr.direction = 1 ∨ pr.direction = -1) :
    pr.radius * (1 - Real.cos (arcSignedStep pr / 2)) = arcSagitta pr := by
  unfold arcSagitta arcSignedStep arcStep
  rcases hd with hd | hd <;> rw [hd]
  · rw [one_mul]
  · rw [neg_one_mul, neg_div, neg_div, Real.cos_neg]

/-- **`arc_piece_within`**: between two consecutive vertices `i`, `i + 1` of the emitted polyline, the exact arc
(`angle_i + u · step`, `u ∈ [0, 1]`) and the chord are within the sagitta of each other, both ways. -/
theorem arc_piece_within (pr : ArcProps ℝ ℝ) (hr : 0 ≤ pr.radius) (hθ0 : 0 ≤ pr.thetaRange)
    (hθ : pr.thetaRange ≤ 2 * Real.pi) (hd : pr.direction = 1 ∨ pr.direction = -1) (i : Nat) :
    (∀ u, 0 ≤ u → u ≤ 1 → ∃ l, 0 ≤ l ∧ l ≤ 1 ∧
      Pos.distance ℝ (arcAt pr (arcTheta pr (arcSubPoints pr) i + u * arcSignedStep pr))
        (segAt (arcAt pr (arcTheta pr (arcSubPoints pr) i)) (arcAt pr (arcTheta pr (arcSubPoints pr) (i + 1))) l)
        ≤ arcSagitta pr) ∧
    (∀ l, 0 ≤ l → l ≤ 1 → ∃ u, 0 ≤ u ∧ u ≤ 1 ∧
      Pos.distance ℝ (arcAt pr (arcTheta pr (arcSubPoints pr) i + u * arcSignedStep pr))
        (segAt (arcAt pr (arcTheta pr (arcSubPoints pr) i)) (arcAt pr (arcTheta pr (arcSubPoints pr) (i + 1))) l)
        ≤ arcSagitta pr) := by
  have hn' : (2 : ℝ) ≤ arcSubPoints pr := by exact_mod_cast two_le_arcSubPoints pr
  have hstep : |arcSignedStep pr| ≤ 2 * Real.pi := by
    have h1 : |arcSignedStep pr| = pr.thetaRange / ((arcSubPoints pr : ℝ) - 1) := by
      unfold arcSignedStep
      rw [abs_div, abs_mul, abs_of_nonneg hθ0, abs_of_nonneg (by linarith : (0 : ℝ) ≤ (arcSubPoints pr : ℝ) - 1)]
      rcases hd with hd | hd <;> rw [hd] <;> simp
    rw [h1, div_le_iff₀ (by linarith)]
    nlinarith [Real.pi_pos]
  have hnext : arcTheta pr (arcSubPoints pr) (i + 1) = arcTheta pr (arcSubPoints pr) i + arcSignedStep pr := by
    rw [arcTheta_step, arcTheta_step]; push_cast; ring
  obtain ⟨ha, hb⟩ := chord_sagitta (toPair pr.centre) pr.radius (arcTheta pr (arcSubPoints pr) i)
    (arcSignedStep pr) hr hstep
  rw [arcSagitta_signed pr hd] at ha hb
  simp only [distance_eq_eDist, toPair_segAt, toPair_arcAt, hnext]
  exact ⟨ha, hb⟩

/-- **`arc_within_tolerance_real`**: for every accepted arc over ℝ, with `pr` the arc properties the code computed and
`n` the number of emitted vertices: the vertices are `arcAt pr θ_i`; the **exact arc** `{arcAt pr (θ_start + v · direction ·
θ_range) | v ∈ [0,1]}` (it starts at `a` and ends at `c`: `arc_first_point`, `arc_last_point`) and the **emitted polyline**
are within Hausdorff distance `arcSagitta pr` of each other — every point of the exact arc has a point of some chord within
the sagitta, every point of every chord has a point of the exact arc within the sagitta — and, unless `radius ≥ 2¹⁰⁷/10`,
`arcSagitta pr ≤ (n/(n−1))² · 0.1 ≤ 0.4`. -/
theorem arc_within_tolerance_real (fuel : Nat) (a b c : Pos ℝ) (pts : List (Pos ℝ))
    (h : approximateCircularArc (F := ℝ) fuel a b c = .ok (some pts)) :
    ∃ pr : ArcProps ℝ ℝ, circularArcProperties fuel a b c = .ok (some pr) ∧
      pts.length = arcSubPoints pr ∧ 2 ≤ pts.length ∧
      (pr.radius < (2 : ℝ) ^ 107 / 10 →
        arcSagitta pr ≤ ((pts.length : ℝ) / ((pts.length : ℝ) - 1)) ^ 2 * (1 / 10) ∧ arcSagitta pr ≤ 4 / 10) ∧
      (∀ v, 0 ≤ v → v ≤ 1 → ∃ (i : Nat) (hi : i + 1 < pts.length), ∃ l, 0 ≤ l ∧ l ≤ 1 ∧
        Pos.distance ℝ (arcAt pr (pr.thetaStart + v * (pr.direction * pr.thetaRange)))
          (segAt (pts[i]'(by omega)) (pts[i + 1]'hi) l) ≤ arcSagitta pr) ∧
      (∀ (i : Nat) (hi : i + 1 < pts.length), ∀ l, 0 ≤ l → l ≤ 1 → ∃ v, 0 ≤ v ∧ v ≤ 1 ∧
        Pos.distance ℝ (arcAt pr (pr.thetaStart + v * (pr.direction * pr.thetaRange)))
          (segAt (pts[i]'(by omega)) (pts[i + 1]'hi) l) ≤ arcSagitta pr) := by
  obtain ⟨pr, hp, h2, _, rfl⟩ := arc_shape fuel a b c pts h
  obtain ⟨hr, hθ0, hθ, hd⟩ := arcProps_real_range fuel a b c pr hp
  have hlen : ((List.range (arcSubPoints pr)).map fun i => arcAt pr (arcTheta pr (arcSubPoints pr) i)).length =
      arcSubPoints pr := by simp
  have hn' : (2 : ℝ) ≤ arcSubPoints pr := by exact_mod_cast h2
  have hd0 : (0 : ℝ) < (arcSubPoints pr : ℝ) - 1 := by linarith
  refine ⟨pr, hp, hlen, by rw [hlen]; exact h2, ?_, ?_, ?_⟩
  · intro hR
    rw [hlen]
    have hb : 2 * pr.radius ≤ 1 / 10 ∨ (2 : ℝ)⁻¹ ^ 52 < |2 * arcPhi pr| := by
      by_cases hs : 2 * pr.radius ≤ 1 / 10
      · exact Or.inl hs
      · exact Or.inr (arc_main_branch_of_radius pr (not_le.mp hs) hR)
    exact ⟨arc_step_angle_bound pr hr hθ0 hb, arc_step_angle_bound_four pr hr hθ0 hb⟩
  · -- arc → polyline
    intro v hv0 hv1
    -- the interval of `v`
    have hw0 : 0 ≤ v * ((arcSubPoints pr : ℝ) - 1) := by positivity
    have hw1 : v * ((arcSubPoints pr : ℝ) - 1) ≤ (arcSubPoints pr : ℝ) - 1 := by nlinarith
    have hcast : ((arcSubPoints pr - 2 : ℕ) : ℝ) = (arcSubPoints pr : ℝ) - 2 := by
      rw [Nat.cast_sub h2]; simp
    let i : Nat := min ⌊v * ((arcSubPoints pr : ℝ) - 1)⌋₊ (arcSubPoints pr - 2)
    have hi : i + 1 < arcSubPoints pr := by
      have : i ≤ arcSubPoints pr - 2 := min_le_right _ _
      omega
    have hiw : (i : ℝ) ≤ v * ((arcSubPoints pr : ℝ) - 1) := by
      have hmin : i ≤ ⌊v * ((arcSubPoints pr : ℝ) - 1)⌋₊ := min_le_left _ _
      have h1 : (i : ℝ) ≤ (⌊v * ((arcSubPoints pr : ℝ) - 1)⌋₊ : ℝ) := Nat.cast_le.mpr hmin
      exact le_trans h1 (Nat.floor_le hw0)
    have hwi : v * ((arcSubPoints pr : ℝ) - 1) ≤ (i : ℝ) + 1 := by
      rcases le_total ⌊v * ((arcSubPoints pr : ℝ) - 1)⌋₊ (arcSubPoints pr - 2) with hc | hc
      · have : i = ⌊v * ((arcSubPoints pr : ℝ) - 1)⌋₊ := min_eq_left hc
        rw [this]; exact le_of_lt (Nat.lt_floor_add_one _)
      · have : i = arcSubPoints pr - 2 := min_eq_right hc
        rw [this, hcast]; linarith
    obtain ⟨l, hl0, hl1, hdist⟩ := (arc_piece_within pr hr hθ0 hθ hd i).1
      (v * ((arcSubPoints pr : ℝ) - 1) - i) (by linarith) (by linarith)
    refine ⟨i, by rw [hlen]; exact hi, l, hl0, hl1, ?_⟩
    have hang : arcTheta pr (arcSubPoints pr) i + (v * ((arcSubPoints pr : ℝ) - 1) - i) * arcSignedStep pr =
        pr.thetaStart + v * (pr.direction * pr.thetaRange) := by
      rw [arcTheta_step]; unfold arcSignedStep; field_simp; ring
    rw [hang] at hdist
    simpa using hdist
  · -- polyline → arc
    intro i hi l hl0 hl1
    rw [hlen] at hi
    obtain ⟨u, hu0, hu1, hdist⟩ := (arc_piece_within pr hr hθ0 hθ hd i).2 l hl0 hl1
    have hi' : (i : ℝ) + 1 ≤ (arcSubPoints pr : ℝ) - 1 := by
      have : i + 2 ≤ arcSubPoints pr := by omega
      have : ((i + 2 : ℕ) : ℝ) ≤ arcSubPoints pr := by exact_mod_cast this
      push_cast at this; linarith
    refine ⟨((i : ℝ) + u) / ((arcSubPoints pr : ℝ) - 1), by positivity, ?_, ?_⟩
    · rw [div_le_one hd0]; linarith
    · have hang : arcTheta pr (arcSubPoints pr) i + u * arcSignedStep pr =
          pr.thetaStart + ((i : ℝ) + u) / ((arcSubPoints pr : ℝ) - 1) * (pr.direction * pr.thetaRange) := by
        rw [arcTheta_step]; unfold arcSignedStep; field_simp; ring
      rw [hang] at hdist
      simpa using hdist

/-! ### a concrete accepted arc: the upper half of the unit circle exceeds the tolerance -/

/-- the arc properties of the upper half of the unit circle. -/
noncomputable def prHalf : ArcProps ℝ ℝ :=
  { thetaStart := 0, thetaRange := Real.pi, direction := 1, radius := 1, centre := ⟨0, 0⟩ }

theorem halfCircle_props (fuel : Nat) :
    circularArcProperties (F := ℝ) fuel (⟨1, 0⟩ : Pos ℝ) ⟨0, 1⟩ ⟨-1, 0⟩ = .ok (some prHalf) := by
  unfold circularArcProperties prHalf
  simp only [Pos.sub_x, Pos.sub_y, Pos.lengthSquared, Pos.dot, Scalar.le, Scalar.abs, Scalar.eps, Scalar.eq, lt_real,
    lit_zero, lit_one, lit_two]
  norm_num [Cvt.up, Trig.atan2, Trig.pi, Pos.length, Scalar.sqrt, Cvt.down]
  have h1 : ({ re := 1, im := 0 } : ℂ) = 1 := by apply Complex.ext <;> simp
  have h2 : ({ re := -1, im := 0 } : ℂ) = -1 := by apply Complex.ext <;> simp
  rw [h1, h2, Complex.arg_one, Complex.arg_neg_one]
  have h3 : thetaLoop fuel Real.pi (0 : ℝ) = .ok Real.pi := by
    cases fuel <;> unfold thetaLoop <;> rw [lt_real] <;>
      simp only [decide_eq_true_eq, not_lt.mpr Real.pi_pos.le, if_false] <;> rfl
  rw [h3]
  simp

theorem halfCircle_phi : Real.pi / 8 ≤ arcPhi prHalf ∧ arcPhi prHalf < Real.pi / 6 := by
  have hφ : arcPhi prHalf = Real.arccos (9 / 10) := by unfold arcPhi prHalf; norm_num
  rw [hφ]
  have h8 : (9 / 10 : ℝ) ≤ Real.cos (Real.pi / 8) := by
    rw [Real.cos_pi_div_eight, le_div_iff₀ (by norm_num)]
    apply Real.le_sqrt_of_sq_le
    have : (31 / 25 : ℝ) ≤ √2 := Real.le_sqrt_of_sq_le (by norm_num)
    nlinarith
  have h6 : Real.cos (Real.pi / 6) < (9 / 10 : ℝ) := by
    rw [Real.cos_pi_div_six, div_lt_iff₀ (by norm_num)]
    rw [Real.sqrt_lt' (by norm_num)]; norm_num
  constructor
  · have := Real.arccos_le_arccos h8
    rwa [Real.arccos_cos (by positivity) (by linarith [Real.pi_pos])] at this
  · have := Real.arccos_lt_arccos (Real.neg_one_le_cos _) h6 (by norm_num)
    rwa [Real.arccos_cos (by positivity) (by linarith [Real.pi_pos])] at this

theorem halfCircle_points : arcSubPoints prHalf = 4 := by
  have hrad : prHalf.radius = 1 := rfl
  have hθ : prHalf.thetaRange = Real.pi := rfl
  obtain ⟨h8, h6⟩ := halfCircle_phi
  have he := arc_main_branch_of_radius prHalf (by rw [hrad]; norm_num) (by rw [hrad]; norm_num)
  rw [(arcSubPoints_main prHalf (by rw [hrad]; norm_num) he).1, hθ]
  have hpos : 0 < 2 * arcPhi prHalf := by linarith [Real.pi_pos]
  have hc : ⌈Real.pi / (2 * arcPhi prHalf)⌉ = 4 := by
    rw [Int.ceil_eq_iff]
    constructor
    · rw [lt_div_iff₀ hpos]; push_cast; linarith
    · rw [div_le_iff₀ hpos]; push_cast; linarith
  rw [hc, Int.floor_intCast]; rfl

/-- the half circle through `(1,0)`, `(0,1)`, `(−1,0)` is accepted and emitted as 4 vertices (three chords of 60°). -/
theorem halfCircle_accepted (fuel : Nat) :
    approximateCircularArc (F := ℝ) fuel (⟨1, 0⟩ : Pos ℝ) ⟨0, 1⟩ ⟨-1, 0⟩ =
      .ok (some ((List.range 4).map fun i => arcAt prHalf (arcTheta prHalf 4 i))) := by
  unfold approximateCircularArc
  rw [halfCircle_props]
  simp only [Outcome.ok_bind, halfCircle_points]
  rw [if_neg (by omega), usub_eq _ _ (by omega)]
  rfl

theorem halfCircle_sagitta : arcSagitta prHalf = 1 - √3 / 2 := by
  unfold arcSagitta arcStep
  rw [halfCircle_points]
  have : prHalf.thetaRange / (((4 : ℕ) : ℝ) - 1) / 2 = Real.pi / 6 := by
    show Real.pi / (((4 : ℕ) : ℝ) - 1) / 2 = Real.pi / 6
    push_cast; ring
  rw [this, Real.cos_pi_div_six]
  show (1 : ℝ) * (1 - √3 / 2) = 1 - √3 / 2
  ring

theorem halfCircle_vertex (i : Nat) :
    arcAt prHalf (arcTheta prHalf 4 i) = ⟨Real.cos (i * (Real.pi / 3)), Real.sin (i * (Real.pi / 3))⟩ := by
  have ha : arcTheta prHalf 4 i = i * (Real.pi / 3) := by
    rw [arcTheta_real prHalf 4 i (by omega)]
    show (0 : ℝ) + (i : ℝ) * (1 * Real.pi / (((4 : ℕ) : ℝ) - 1)) = _
    push_cast; ring
  rw [ha]
  show (⟨0 + Real.cos (i * (Real.pi / 3)) * 1, 0 + Real.sin (i * (Real.pi / 3)) * 1⟩ : Pos ℝ) = _
  simp

/-- **`halfCircle_exceeds_tolerance`** — end to end on the model function: the perfect curve `(1,0), (0,1), (−1,0)` (radius
1) is emitted as 4 vertices, and the point of the exact arc at 30° is farther than `0.13 > CIRCULAR_ARC_TOLERANCE` from
**every** point of the emitted polyline (it is `1 − √3/2 ≈ 0.134` from the first chord). -/
theorem halfCircle_exceeds_tolerance (fuel : Nat) :
    ∃ pts : List (Pos ℝ), approximateCircularArc (F := ℝ) fuel (⟨1, 0⟩ : Pos ℝ) ⟨0, 1⟩ ⟨-1, 0⟩ = .ok (some pts) ∧
      pts.length = 4 ∧ ∃ v : ℝ, 0 ≤ v ∧ v ≤ 1 ∧ ∀ (i : Nat) (hi : i + 1 < pts.length) (l : ℝ), 0 ≤ l → l ≤ 1 →
        13 / 100 < Pos.distance ℝ (arcAt prHalf (prHalf.thetaStart + v * (prHalf.direction * prHalf.thetaRange)))
          (segAt (pts[i]'(by omega)) (pts[i + 1]'hi) l) := by
  refine ⟨_, halfCircle_accepted fuel, by simp, 1 / 6, by norm_num, by norm_num, ?_⟩
  intro i hi l hl0 hl1
  have hi' : i + 1 < 4 := by simpa using hi
  have hq : arcAt prHalf (prHalf.thetaStart + 1 / 6 * (prHalf.direction * prHalf.thetaRange)) =
      ⟨√3 / 2, 1 / 2⟩ := by
    have : prHalf.thetaStart + 1 / 6 * (prHalf.direction * prHalf.thetaRange) = Real.pi / 6 := by
      show (0 : ℝ) + 1 / 6 * (1 * Real.pi) = Real.pi / 6
      ring
    rw [this]
    show (⟨0 + Real.cos (Real.pi / 6) * 1, 0 + Real.sin (Real.pi / 6) * 1⟩ : Pos ℝ) = _
    rw [Real.cos_pi_div_six, Real.sin_pi_div_six]; simp
  have h3 : √3 * √3 = 3 := Real.mul_self_sqrt (by norm_num)
  have h3lo : (17 / 10 : ℝ) < √3 := by rw [Real.lt_sqrt (by norm_num)]; norm_num
  have h3hi : √3 < (174 / 100 : ℝ) := by rw [Real.sqrt_lt' (by norm_num)]; norm_num
  have hc2 : Real.cos (2 * (Real.pi / 3)) = -(1 / 2) := by
    have : 2 * (Real.pi / 3) = Real.pi - Real.pi / 3 := by ring
    rw [this, Real.cos_pi_sub, Real.cos_pi_div_three]
  have hs2 : Real.sin (2 * (Real.pi / 3)) = √3 / 2 := by
    have : 2 * (Real.pi / 3) = Real.pi - Real.pi / 3 := by ring
    rw [this, Real.sin_pi_sub, Real.sin_pi_div_three]
  have hc3 : Real.cos (3 * (Real.pi / 3)) = -1 := by
    have : 3 * (Real.pi / 3) = Real.pi := by ring
    rw [this, Real.cos_pi]
  have hs3 : Real.sin (3 * (Real.pi / 3)) = 0 := by
    have : 3 * (Real.pi / 3) = Real.pi := by ring
    rw [this, Real.sin_pi]
  simp only [List.getElem_map, List.getElem_range, halfCircle_vertex, hq, distance_eq_eDist]
  apply lt_of_lt_of_le (b := 1 - √3 / 2) (by linarith)
  apply le_eDist_of_le_sqDist
  unfold sqDist toPair segAt
  simp only []
  have hcases : i = 0 ∨ i = 1 ∨ i = 2 := by omega
  rcases hcases with rfl | rfl | rfl
  · simp only [Nat.cast_zero, zero_mul, Real.cos_zero, Real.sin_zero, zero_add, Nat.cast_one, one_mul,
      Real.cos_pi_div_three, Real.sin_pi_div_three]
    nlinarith [sq_nonneg (l - 1 / 2)]
  · simp only [Nat.cast_one, one_mul, Real.cos_pi_div_three, Real.sin_pi_div_three]
    norm_num
    rw [hc2, hs2]
    nlinarith [sq_nonneg (√3 / 2 - 1 / 2 + l)]
  · norm_num
    rw [hc2, hs2, hc3, hs3]
    nlinarith [sq_nonneg ((1 - l) * (√3 / 2) - 1 / 2)]


/-- non-vacuity of `arc_within_tolerance_real`: it applies to the half unit circle, whose 4 vertices give the bound
`(4/3)² · 0.1 ≈ 0.178` (the actual sagitta is `1 − √3/2 ≈ 0.134`). -/
example (fuel : Nat) : ∃ (pts : List (Pos ℝ)) (pr : ArcProps ℝ ℝ),
    approximateCircularArc (F := ℝ) fuel (⟨1, 0⟩ : Pos ℝ) ⟨0, 1⟩ ⟨-1, 0⟩ = .ok (some pts) ∧ pts.length = 4 ∧
      arcSagitta pr ≤ ((4 : ℝ) / (4 - 1)) ^ 2 * (1 / 10) := by
  obtain ⟨pr, hp, hlen, _, hb, _, _⟩ := arc_within_tolerance_real fuel _ _ _ _ (halfCircle_accepted fuel)
  rw [halfCircle_props] at hp
  cases hp
  have h4 : ((List.range 4).map fun i => arcAt prHalf (arcTheta prHalf 4 i)).length = 4 := by simp
  refine ⟨_, prHalf, halfCircle_accepted fuel, h4, ?_⟩
  have := (hb (by show (1 : ℝ) < 2 ^ 107 / 10; norm_num)).1
  rw [h4] at this
  exact_mod_cast this

end Rosu.C17
