/-
  Props/C16.lean — requested pixel length (`calculate_length`, the Catmull simplification bookkeeping).
  Part 1: structural theorems (every `Scalar` instance, no arithmetic law: they hold for the IEEE instance).
  Part 2 (law-dependent, exact arithmetic): `lengths_monotone` under the explicit hypotheses `MonoLaws`.
-/
import RosuModel.Model.Curve
import RosuModel.Lemmas.Outcome
import RosuModel.Lemmas.ToyInt
namespace Rosu.C16
open Rosu Rosu.Curve

variable {P F : Type} [Scalar P] [Scalar F] [Cvt P F]

/-! ### the natural (unadjusted) lengths -/

/-- cumulative lengths of the unadjusted path: `0.0` followed by the running sums. -/
def natLens (opt : F) (path : List (Pos P)) : List F := (0 : F) :: (cumLens opt path).1

/-- `calculated_len` after the length iterator has run. -/
def natTotal (opt : F) (path : List (Pos P)) : F := (cumLens opt path).2

/-- the requested length is treated as equal to the calculated one (`filter` rejects it). -/
def near (opt : F) (path : List (Pos P)) (L : F) : Bool :=
  !(Scalar.ge (Scalar.abs (natTotal opt path - L)) (Scalar.eps : F))

/-- the osu-stable exception: last two path points equal and `L > calculated`. -/
def equalTail (opt : F) (path : List (Pos P)) (L : F) : Bool :=
  lastTwoEqual path && Scalar.gt L (natTotal opt path)

@[simp] theorem cumLens_nil (c : F) : cumLens c ([] : List (Pos P)) = ([], c) := rfl
@[simp] theorem cumLens_single (c : F) (a : Pos P) : cumLens c [a] = ([], c) := rfl
theorem cumLens_cons2 (c : F) (a b : Pos P) (t : List (Pos P)) :
    cumLens c (a :: b :: t) =
      ((c + Cvt.up (Pos.length F (b - a))) :: (cumLens (c + Cvt.up (Pos.length F (b - a))) (b :: t)).1,
       (cumLens (c + Cvt.up (Pos.length F (b - a))) (b :: t)).2) := rfl

theorem cumLens_length (c : F) (path : List (Pos P)) : (cumLens c path).1.length = path.length - 1 := by
  induction path generalizing c with
  | nil => rfl
  | cons a t ih =>
    cases t with
    | nil => rfl
    | cons b t' => rw [cumLens_cons2]; simp [ih]

theorem natLens_length (opt : F) (path : List (Pos P)) (h : path ≠ []) :
    (natLens opt path).length = path.length := by
  cases path with
  | nil => exact absurd rfl h
  | cons a t => simp [natLens, cumLens_length]

/-- the last natural cumulative length is `calculated_len` (for a path with at least two points). -/
theorem cumLens_getLast (c : F) (path : List (Pos P)) (h : 2 ≤ path.length) :
    (cumLens c path).1.getLast? = some (cumLens c path).2 := by
  induction path generalizing c with
  | nil => simp at h
  | cons a t ih =>
    cases t with
    | nil => simp at h
    | cons b t' =>
      rw [cumLens_cons2]
      cases t' with
      | nil => simp
      | cons d t'' =>
        have := ih (c + Cvt.up (Pos.length F (b - a))) (by simp)
        rw [cumLens_cons2] at this ⊢
        simp only [] at this ⊢
        rw [List.getLast?_cons_cons]
        exact this

/-! ### `lastValid` -/

theorem lastValid_le (l : List F) (L : F) : lastValid l L ≤ l.length := by
  unfold lastValid; split <;> omega

theorem lastValid_eq_zero_iff (l : List F) (L : F) :
    lastValid l L = 0 ↔ ∀ x ∈ l, Scalar.lt x L = false := by
  unfold lastValid
  split
  · rename_i h
    rw [List.findIdx?_eq_none_iff] at h
    simp only [true_iff]
    intro x hx; exact h x (by simpa using hx)
  · rename_i idx h
    rw [List.findIdx?_eq_some_iff_getElem] at h
    obtain ⟨hlt, hp, _⟩ := h
    have hlt' : idx < l.length := by simpa using hlt
    constructor
    · intro h0; omega
    · intro hall
      have := hall (l.reverse[idx]) (by
        have : l.reverse[idx] ∈ l.reverse := List.getElem_mem _
        simpa using this)
      rw [this] at hp; cases hp

/-- `lastValid` is one past the **last** index whose length is `< L`. -/
theorem lastValid_spec (l : List F) (L : F) (h : 0 < lastValid l L) :
    (∃ x, l[lastValid l L - 1]? = some x ∧ Scalar.lt x L = true) ∧
    ∀ j x, lastValid l L ≤ j → l[j]? = some x → Scalar.lt x L = false := by
  unfold lastValid at h ⊢
  split at h
  · omega
  · rename_i idx hf
    rw [List.findIdx?_eq_some_iff_getElem] at hf
    obtain ⟨hlt, hp, hbefore⟩ := hf
    have hlt' : idx < l.length := by simpa using hlt
    constructor
    · refine ⟨l.reverse[idx], ?_, hp⟩
      rw [List.getElem_reverse]
      have : l.length - idx - 1 = l.length - 1 - idx := by omega
      rw [this, List.getElem?_eq_getElem]
    · intro j x hj hx
      have hjl : j < l.length := by
        rcases Nat.lt_or_ge j l.length with h' | h'
        · exact h'
        · rw [List.getElem?_eq_none h'] at hx; cases hx
      have hidx : l.length - 1 - j < idx := by omega
      have := hbefore (l.length - 1 - j) hidx
      rw [List.getElem_reverse] at this
      have e : l.length - 1 - (l.length - 1 - j) = j := by omega
      have hx' : l[j] = x := by
        rw [List.getElem?_eq_getElem hjl] at hx; exact Option.some.inj hx
      simp only [e] at this
      rw [hx'] at this
      cases hb : Scalar.lt x L
      · rfl
      · exact absurd hb this

/-! ### `calculate_length`, branch by branch -/

/-- Without a requested length the path is untouched and the lengths are the running sums of the
segment lengths, starting at `0.0` (and at `optimized_len` for the sums). -/
theorem dist_natural_when_none (path : List (Pos P)) (opt : F) :
    calculateLength path none opt = .ok (path, natLens opt path) := rfl

/-- the distance without a requested length is `calculated_len`, the polyline's own length
(seeded with `optimized_len`). -/
theorem natural_dist (path : List (Pos P)) (opt : F) (h : 2 ≤ path.length) :
    dist (natLens opt path) = natTotal opt path := by
  unfold dist natLens natTotal
  have hne : (cumLens opt path).1 ≠ [] := by
    intro h0
    have := cumLens_length opt path
    rw [h0] at this; simp at this; omega
  rw [List.getLast?_cons_of_ne_nil hne] <;> simp [cumLens_getLast opt path h]

/-- `calculated_len` is the left fold of the segment lengths over consecutive path points. -/
theorem natTotal_eq_fold (path : List (Pos P)) (opt : F) :
    natTotal opt path =
      (path.zip path.tail).foldl (fun acc s => acc + Cvt.up (Pos.length F (s.2 - s.1))) opt := by
  unfold natTotal
  induction path generalizing opt with
  | nil => rfl
  | cons a t ih =>
    cases t with
    | nil => rfl
    | cons b t' =>
      rw [cumLens_cons2]
      have := ih (opt + Cvt.up (Pos.length F (b - a)))
      simpa using this

/-- one past the index `k` of the last cumulative length (the last one excluded) that is `< L`. -/
def cutIdx (opt : F) (path : List (Pos P)) (L : F) : Nat := lastValid (natLens opt path).dropLast L

/-- the re-projected end point `p_k + dir · (L − len_k)` with `dir = (p_{k+1} − p_k).normalize()`,
`k = cutIdx − 1`. -/
def cutPoint (opt : F) (path : List (Pos P)) (L : F) : Pos P :=
  let lv := cutIdx opt path L
  let pp := path.getD (lv - 1) Pos.zero
  let pe := path.getD lv Pos.zero
  let lp := (natLens opt path).dropLast.getD (lv - 1) 0
  pp + (Pos.normalize F (pe - pp)).smul (Cvt.down (L - lp))

theorem natLens_len_eq_one (opt : F) (path : List (Pos P)) :
    (natLens opt path).length = 1 ↔ path.length ≤ 1 := by
  simp only [natLens, List.length_cons, cumLens_length]; omega

/-- **`calculate_length` with a requested length, completely**: the five outcomes of the Rust function.
No outcome is a panic: every index read is in range. -/
theorem calculateLength_some (path : List (Pos P)) (L opt : F) :
    calculateLength path (some L) opt =
      if near opt path L then .ok (path, natLens opt path)
      else if equalTail opt path L then .ok (path, natLens opt path ++ [natTotal opt path])
      else if path.length ≤ 1 then .ok (path, natLens opt path)
      else if cutIdx opt path L = 0 then .ok (path.take 1, [(0 : F)])
      else .ok (path.take (cutIdx opt path L) ++ [cutPoint opt path L],
                (natLens opt path).dropLast.take (cutIdx opt path L) ++ [L]) := by
  unfold calculateLength
  simp only []
  by_cases h1 : near opt path L = true
  · have h1' := h1; unfold near natTotal at h1'
    simp only [h1, h1', if_true]; rfl
  have h1' := h1; unfold near natTotal at h1'
  simp only [h1, h1', if_false, Bool.false_eq_true]
  by_cases h2 : equalTail opt path L = true
  · have h2' := h2; unfold equalTail natTotal at h2'
    simp only [h2, h2', if_true]; rfl
  have h2' := h2; unfold equalTail natTotal at h2'
  simp only [h2, h2', if_false, Bool.false_eq_true]
  have hlen := natLens_len_eq_one opt path
  unfold natLens at hlen
  by_cases h3 : path.length ≤ 1
  · simp only [hlen.mpr h3, h3, if_true]; rfl
  have h3' : ¬ ((0 : F) :: (cumLens opt path).1).length = 1 := fun h => h3 (hlen.mp h)
  simp only [h3, h3', if_false]
  -- the main branch
  have hn : 2 ≤ path.length := by omega
  have hl0 : (natLens opt path).length = path.length :=
    natLens_length opt path (by intro h; subst h; simp at hn)
  have hl1 : (natLens opt path).dropLast.length = path.length - 1 := by
    rw [List.length_dropLast, hl0]
  have hle := lastValid_le (natLens opt path).dropLast L
  have hnl : (0 : F) :: (cumLens opt path).1 = natLens opt path := rfl
  have hci : lastValid (natLens opt path).dropLast L = cutIdx opt path L := rfl
  simp only [hnl, hci]
  have e1 : (if decide (cutIdx opt path L < (natLens opt path).dropLast.length) = true
      then (natLens opt path).dropLast.take (cutIdx opt path L) else (natLens opt path).dropLast)
      = (natLens opt path).dropLast.take (cutIdx opt path L) := by
    split
    · rfl
    · rename_i hh
      have : (natLens opt path).dropLast.length ≤ cutIdx opt path L := by simpa using hh
      rw [List.take_of_length_le this]
  have e2 : (if decide (cutIdx opt path L < (natLens opt path).dropLast.length) = true
      then path.take (cutIdx opt path L + 1) else path) = path.take (cutIdx opt path L + 1) := by
    split
    · rfl
    · rename_i hh
      have : (natLens opt path).dropLast.length ≤ cutIdx opt path L := by simpa using hh
      rw [List.take_of_length_le (by omega)]
  simp only [e1, e2]
  have hlv : cutIdx opt path L ≤ path.length - 1 := by unfold cutIdx; omega
  by_cases h4 : cutIdx opt path L = 0
  · have : (decide (cutIdx opt path L < (natLens opt path).dropLast.length) &&
        ((natLens opt path).dropLast.take (cutIdx opt path L)).isEmpty) = true := by
      rw [h4]; simp; omega
    rw [if_pos this, if_pos h4, h4]
    rfl
  · have : (decide (cutIdx opt path L < (natLens opt path).dropLast.length) &&
        ((natLens opt path).dropLast.take (cutIdx opt path L)).isEmpty) = false := by
      have : (natLens opt path).dropLast.take (cutIdx opt path L) ≠ [] := by
        intro h0
        have := congrArg List.length h0
        simp at this; omega
      simp [this]
    rw [if_neg (by rw [this]; exact Bool.false_ne_true), if_neg h4]
    have htl : ((natLens opt path).dropLast.take (cutIdx opt path L)).length = cutIdx opt path L := by
      simp; omega
    rw [htl]
    have hpl : (path.take (cutIdx opt path L + 1)).length = cutIdx opt path L + 1 := by
      simp; omega
    rw [usub_eq _ _ (by omega), Outcome.ok_bind]
    rw [getI_eq _ _ (by omega), Outcome.ok_bind]
    rw [getI_eq _ _ (by omega), Outcome.ok_bind]
    rw [getI_eq _ _ (by omega), Outcome.ok_bind]
    rw [setI_eq _ _ _ (by omega), Outcome.ok_bind]
    rw [set_take_succ _ _ _ (by omega)]
    simp only [Outcome.pure_eq_ok]
    congr 3
    unfold cutPoint
    simp only []
    have g1 : (path.take (cutIdx opt path L + 1))[cutIdx opt path L - 1]'(by omega)
        = path.getD (cutIdx opt path L - 1) Pos.zero := by
      rw [List.getElem_take, List.getD_eq_getElem?_getD, List.getElem?_eq_getElem (by omega)]; rfl
    have g2 : (path.take (cutIdx opt path L + 1))[cutIdx opt path L]'(by omega)
        = path.getD (cutIdx opt path L) Pos.zero := by
      rw [List.getElem_take, List.getD_eq_getElem?_getD, List.getElem?_eq_getElem (by omega)]; rfl
    have g3 : ((natLens opt path).dropLast.take (cutIdx opt path L))[cutIdx opt path L - 1]'(by omega)
        = (natLens opt path).dropLast.getD (cutIdx opt path L - 1) 0 := by
      rw [List.getElem_take, List.getD_eq_getElem?_getD, List.getElem?_eq_getElem (by omega)]; rfl
    rw [g1, g2, g3]

/-- every result of `calculate_length` starts with `0.0`. -/
theorem lengths_head_zero (path : List (Pos P)) (e : Option F) (opt : F) (p' : List (Pos P)) (ls : List F)
    (h : calculateLength path e opt = .ok (p', ls)) : ls.head? = some (0 : F) := by
  cases e with
  | none => cases h; rfl
  | some L =>
    rw [calculateLength_some] at h
    split at h
    · cases h; rfl
    split at h
    · cases h; rfl
    split at h
    · cases h; rfl
    split at h
    · cases h; rfl
    · rename_i h1 h2 h3 h4
      cases h
      have hne : (cumLens opt path).1 ≠ [] := by
        intro h0
        have := cumLens_length opt path
        rw [h0] at this; simp at this; omega
      unfold natLens
      rw [List.dropLast_cons_of_ne_nil hne]
      cases hk : cutIdx opt path L with
      | zero => exact absurd hk h4
      | succ k => simp

/-- `calculate_length` never panics. -/
theorem calculateLength_total (path : List (Pos P)) (e : Option F) (opt : F) :
    ∃ r, calculateLength path e opt = .ok r := by
  cases e with
  | none => exact ⟨_, rfl⟩
  | some L =>
    rw [calculateLength_some]
    repeat (first | exact ⟨_, rfl⟩ | split)

/-- a near-equal requested length (`|calculated − L| < EPSILON`, or a NaN) changes nothing. -/
theorem dist_natural_when_near (path : List (Pos P)) (L opt : F) (h : near opt path L = true) :
    calculateLength path (some L) opt = calculateLength path none opt := by
  rw [calculateLength_some, dist_natural_when_none]; simp [h]

/-- a single-point (or empty) path keeps its natural lengths `[0.0]`, whatever is requested. -/
theorem single_point_keeps (path : List (Pos P)) (L opt : F) (h : path.length ≤ 1) :
    calculateLength path (some L) opt = .ok (path, [(0 : F)]) := by
  have hc : natLens opt path = [(0 : F)] := by
    have := cumLens_length opt path
    unfold natLens
    cases hl : (cumLens opt path).1 with
    | nil => rfl
    | cons a t => rw [hl] at this; simp at this; omega
  have hl2 : equalTail opt path L = false := by
    unfold equalTail
    match path, h with
    | [], _ => rfl
    | [a], _ => rfl
  rw [calculateLength_some]
  simp [hc, hl2, h]

/-- the equal-last-two-points exception keeps the natural path and lengths and pushes
`calculated_len` once more: the lengths then have one more entry than the path. -/
theorem equal_tail_keeps_natural (path : List (Pos P)) (L opt : F)
    (hfar : near opt path L = false) (heq : equalTail opt path L = true) :
    calculateLength path (some L) opt = .ok (path, natLens opt path ++ [natTotal opt path]) := by
  rw [calculateLength_some]; simp [hfar, heq]

theorem equal_tail_dist (path : List (Pos P)) (L opt : F) (p' : List (Pos P)) (ls : List F)
    (hfar : near opt path L = false) (heq : equalTail opt path L = true)
    (h : calculateLength path (some L) opt = .ok (p', ls)) :
    p' = path ∧ dist ls = natTotal opt path ∧ ls.length = path.length + 1 := by
  rw [equal_tail_keeps_natural path L opt hfar heq] at h
  cases h
  have hne : path ≠ [] := by
    intro h0; subst h0; simp [equalTail, lastTwoEqual] at heq
  refine ⟨rfl, ?_, ?_⟩
  · simp [dist]
  · simp [natLens_length opt path hne]

/-- **cut shape**: in the remaining case (two or more points, `L` not near the calculated length, no
equal-tail exception, some cumulative length `< L`) the adjusted path is the first `k+1` natural points
followed by `p_k + dir·(L − len_k)`, and the lengths are the first `k+1` natural lengths followed by
`L` itself. `k + 1 = cutIdx`, the last index whose length is `< L` (`lastValid_spec`). -/
theorem cut_shape (path : List (Pos P)) (L opt : F)
    (hn : 2 ≤ path.length) (hfar : near opt path L = false) (hexc : equalTail opt path L = false)
    (hk : cutIdx opt path L ≠ 0) :
    calculateLength path (some L) opt =
      .ok (path.take (cutIdx opt path L) ++ [cutPoint opt path L],
           (natLens opt path).dropLast.take (cutIdx opt path L) ++ [L]) := by
  rw [calculateLength_some]
  have : ¬ path.length ≤ 1 := by omega
  simp [hfar, hexc, this, hk]

/-- `0.0 < L` guarantees a cumulative length below `L` (the leading `0.0`). -/
theorem cutIdx_pos_of_pos (path : List (Pos P)) (L opt : F) (hn : 2 ≤ path.length)
    (hpos : Scalar.lt (0 : F) L = true) : cutIdx opt path L ≠ 0 := by
  intro h0
  unfold cutIdx at h0
  rw [lastValid_eq_zero_iff] at h0
  have hne : (cumLens opt path).1 ≠ [] := by
    intro h1
    have := cumLens_length opt path
    rw [h1] at this; simp at this; omega
  have := h0 (0 : F) (by unfold natLens; rw [List.dropLast_cons_of_ne_nil hne]; simp)
  rw [this] at hpos; cases hpos

/-- **the requested length is honoured exactly**: the last cumulative length *is* `L` (the code pushes
`expected_len` itself), for every arithmetic. -/
theorem dist_exact (path : List (Pos P)) (L opt : F) (p' : List (Pos P)) (ls : List F)
    (hn : 2 ≤ path.length) (hpos : Scalar.lt (0 : F) L = true)
    (hfar : near opt path L = false) (hexc : equalTail opt path L = false)
    (h : calculateLength path (some L) opt = .ok (p', ls)) : dist ls = L := by
  rw [cut_shape path L opt hn hfar hexc (cutIdx_pos_of_pos path L opt hn hpos)] at h
  cases h
  simp [dist]

/-- when no cumulative length is `< L` (in lawful arithmetic: `L ≤ 0`) the curve collapses to its first
point with distance `0.0`. -/
theorem dist_zero_when_nothing_below (path : List (Pos P)) (L opt : F)
    (hn : 2 ≤ path.length) (hfar : near opt path L = false) (hexc : equalTail opt path L = false)
    (hk : ∀ x ∈ (natLens opt path).dropLast, Scalar.lt x L = false) :
    calculateLength path (some L) opt = .ok (path.take 1, [(0 : F)]) := by
  rw [calculateLength_some]
  have : ¬ path.length ≤ 1 := by omega
  have hk' : cutIdx opt path L = 0 := (lastValid_eq_zero_iff _ _).mpr hk
  simp [hfar, hexc, this, hk']

/-- lengths and path have the same number of entries, except in the equal-tail case (one more length,
`equal_tail_dist`) and for an empty path (`[0.0]` vs `[]`). -/
theorem lengths_path_aligned (path : List (Pos P)) (e : Option F) (opt : F) (p' : List (Pos P)) (ls : List F)
    (hne : path ≠ [])
    (hexc : ∀ L, e = some L → ¬ (near opt path L = false ∧ equalTail opt path L = true))
    (h : calculateLength path e opt = .ok (p', ls)) : ls.length = p'.length := by
  have hl0 := natLens_length opt path hne
  have hp : 0 < path.length := List.length_pos_iff.mpr hne
  cases e with
  | none => cases h; exact hl0
  | some L =>
    rw [calculateLength_some] at h
    split at h
    · cases h; exact hl0
    split at h
    · rename_i h1 h2
      exact absurd ⟨by simpa using h1, h2⟩ (hexc L rfl)
    split at h
    · cases h; exact hl0
    split at h
    · cases h; simp; omega
    · cases h
      have hle := lastValid_le (natLens opt path).dropLast L
      rw [List.length_dropLast, hl0] at hle
      have : cutIdx opt path L ≤ path.length - 1 := hle
      simp; omega

/-! ### the constructors -/

section
variable [Trig F] [Trig P]

/-- `Curve::new` is `calculate_path` followed by `calculate_length` on the path it left in the buffers:
all theorems above speak about the `lengths()`/`path()` of the constructed curve. -/
theorem new_is_calculateLength (fuel : Nat) (mode : GameMode) (pts : List (PathControlPoint P)) (e : Option F)
    (b b' : CurveBuffers P F) (c : Curve P F) (h : Curve.new fuel mode pts e b = .ok (c, b')) :
    ∃ b1 opt, calculatePath fuel mode pts b = .ok (b1, opt) ∧
      calculateLength b1.path e opt = .ok (c.path, c.lengths) := by
  unfold Curve.new compute at h
  cases h1 : calculatePath fuel mode pts b with
  | error err => rw [h1] at h; cases h
  | ok r =>
    obtain ⟨b1, opt⟩ := r
    rw [h1] at h
    simp only [Outcome.ok_bind] at h
    cases h2 : calculateLength b1.path e opt with
    | error err => rw [h2] at h; cases h
    | ok r2 =>
      obtain ⟨p2, l2⟩ := r2
      rw [h2] at h
      simp only [Outcome.ok_bind, Outcome.pure_eq_ok] at h
      cases h
      exact ⟨b1, opt, rfl, h2⟩

/-- cumulative lengths of every constructed curve start at `0.0`. -/
theorem new_lengths_head_zero (fuel : Nat) (mode : GameMode) (pts : List (PathControlPoint P)) (e : Option F)
    (b b' : CurveBuffers P F) (c : Curve P F) (h : Curve.new fuel mode pts e b = .ok (c, b')) :
    c.lengths.head? = some (0 : F) := by
  obtain ⟨b1, opt, _, h2⟩ := new_is_calculateLength fuel mode pts e b b' c h
  exact lengths_head_zero _ _ _ _ _ h2

end

/-! ### law-dependent: monotone lengths (exact arithmetic) -/

/-- the two order facts monotonicity needs; hypotheses, not axioms. They hold in ℝ/ℚ/ℤ; in IEEE they fail only through
NaN/overflow (`a + x` rounds monotonically), which is what the harness oracle tests. -/
structure MonoLaws (P F : Type) [Scalar P] [Scalar F] [Cvt P F] : Prop where
  len_nonneg : ∀ v : Pos P, Scalar.le (0 : F) (Cvt.up (Pos.length F v)) = true
  le_add : ∀ a x : F, Scalar.le (0 : F) x = true → Scalar.le a (a + x) = true

/-- consecutive entries never decrease. -/
def Mono : List F → Prop
  | a :: b :: rest => Scalar.le a b = true ∧ Mono (b :: rest)
  | _ => True

/-- **`lengths_monotone`** (exact arithmetic): the natural cumulative lengths never decrease, starting from
`optimized_len`. -/
theorem lengths_monotone (laws : MonoLaws P F) (c : F) (path : List (Pos P)) :
    Mono (c :: (cumLens c path).1) := by
  induction path generalizing c with
  | nil => trivial
  | cons a t ih =>
    cases t with
    | nil => trivial
    | cons b t' =>
      rw [cumLens_cons2]
      exact ⟨laws.le_add c _ (laws.len_nonneg _), ih _⟩

/-- the laws are satisfiable: the toy arithmetic on `Int`. -/
theorem monoLaws_int : MonoLaws Int Int where
  len_nonneg v := by
    show decide ((0 : Int) ≤ _) = true
    simp only [decide_eq_true_eq]
    exact Int.natCast_nonneg _
  le_add a x h := by
    have h' : (0 : Int) ≤ x := by simpa [Scalar.le] using h
    show decide (a ≤ a + x) = true
    simp only [decide_eq_true_eq]
    omega

/-! ### non-vacuity: a toy arithmetic on `Int` (no law is needed by the theorems above) -/

section NonVacuity
open Rosu.Toy

/-- a three-point path with toy segment "lengths" 25 and 25. -/
def demoPath : List (Pos Int) := [pt 0 0, pt 3 4, pt 6 8]

example : natLens (0 : Int) demoPath = [0, 25, 50] := by decide
-- `dist_exact` / `cut_shape`: cut inside the second segment
example : (2 ≤ demoPath.length) ∧ Scalar.lt (0 : Int) 30 = true ∧ near (0 : Int) demoPath 30 = false ∧
    equalTail (0 : Int) demoPath 30 = false ∧ cutIdx (0 : Int) demoPath 30 = 2 := by decide
-- ... and an extension beyond the natural length
example : near (0 : Int) demoPath 80 = false ∧ equalTail (0 : Int) demoPath 80 = false ∧
    cutIdx (0 : Int) demoPath 80 = 2 := by decide
-- `dist_natural_when_near`
example : near (0 : Int) demoPath 50 = true := by decide
-- `equal_tail_keeps_natural`
example : near (0 : Int) [pt 0 0, pt 3 4, pt 3 4] 80 = false ∧
    equalTail (0 : Int) [pt 0 0, pt 3 4, pt 3 4] 80 = true := by decide
-- `dist_zero_when_nothing_below`
example : near (0 : Int) demoPath (-5) = false ∧ equalTail (0 : Int) demoPath (-5) = false ∧
    cutIdx (0 : Int) demoPath (-5) = 0 := by decide

end NonVacuity

end Rosu.C16
