/-
  Props/C16.lean — requested pixel length (`calculate_length`, the Catmull simplification bookkeeping).
  Part 1: structural theorems (every `Scalar` instance, no arithmetic law: they hold for the IEEE instance).
  Part 2 (law-dependent, exact arithmetic): `lengths_monotone` under the explicit hypotheses `MonoLaws`.
-/
import RosuModel.Model.Curve
import RosuModel.Lemmas.Outcome
import RosuModel.Lemmas.ToyInt
import RosuModel.Lemmas.ToyRat
namespace Rosu.C16
open Rosu Rosu.Curve

variable {P F : Type} [Scalar P] [Scalar F] [Cvt P F]

/-! ### the natural (unadjusted) lengths -/

/-- cumulative lengths of the unadjusted path: `0.0` followed by the running sums. -/
def natLens (opt : F) (path : List (Pos P)) : List F := (0 : F) :: (cumLens opt path).1

/-- `calculated_len` after the length iterator has run. -/
def natTotal (opt : F) (path : List (Pos P)) : F := (cumLens opt path).2

/-- the requested length is treated as equal to the calculated one (`filter` rejects it). -/
def near (opt : F) (path : List (Pos P)) (L : F) : Bool :=
  !(Scalar.ge (Scalar.abs (natTotal opt path - L)) (Scalar.eps : F))

/-- the osu-stable exception: last two path points equal and `L > calculated`. -/
def equalTail (opt : F) (path : List (Pos P)) (L : F) : Bool :=
  lastTwoEqual path && Scalar.gt L (natTotal opt path)

@[simp] theorem cumLens_nil (c : F) : cumLens c ([] : List (Pos P)) = ([], c) := rfl
@[simp] theorem cumLens_single (c : F) (a : Pos P) : cumLens c [a] = ([], c) := rfl
theorem cumLens_cons2 (c : F) (a b : Pos P) (t : List (Pos P)) :
    cumLens c (a :: b :: t) =
      ((c + Cvt.up (Pos.length F (b - a))) :: (cumLens (c + Cvt.up (Pos.length F (b - a))) (b :: t)).1,
       (cumLens (c + Cvt.up (Pos.length F (b - a))) (b :: t)).2) := rfl

theorem cumLens_length (c : F) (path : List (Pos P)) : (cumLens c path).1.length = path.length - 1 := by
  induction path generalizing c with
  | nil => rfl
  | cons a t ih =>
    cases t with
    | nil => rfl
    | cons b t' => rw [cumLens_cons2]; simp [ih]

theorem natLens_length (opt : F) (path : List (Pos P)) (h : path ≠ []) :
    (natLens opt path).length = path.length := by
  cases path with
  | nil => exact absurd rfl h
  | cons a t => simp [natLens, cumLens_length]

/-- the last natural cumulative length is `calculated_len` (for a path with at least two points). -/
theorem cumLens_getLast (c : F) (path : List (Pos P)) (h : 2 ≤ path.length) :
    (cumLens c path).1.getLast? = some (cumLens c path).2 := by
  induction path generalizing c with
  | nil => simp at h
  | cons a t ih =>
    cases t with
    | nil => simp at h
    | cons b t' =>
      rw [cumLens_cons2]
      cases t' with
      | nil => simp
      | cons d t'' =>
        have := ih (c + Cvt.up (Pos.length F (b - a))) (by simp)
        rw [cumLens_cons2] at this ⊢
        simp only [] at this ⊢
        rw [List.getLast?_cons_cons]
        exact this

/-! ### `lastValid` -/

theorem lastValid_le (l : List F) (L : F) : lastValid l L ≤ l.length := by
  unfold lastValid; split <;> omega

theorem lastValid_eq_zero_iff (l : List F) (L : F) :
    lastValid l L = 0 ↔ ∀ x ∈ l, Scalar.lt x L = false := by
  unfold lastValid
  split
  · rename_i h
    rw [List.findIdx?_eq_none_iff] at h
    simp only [true_iff]
    intro x hx; exact h x (by simpa using hx)
  · rename_i idx h
    rw [List.findIdx?_eq_some_iff_getElem] at h
    obtain ⟨hlt, hp, _⟩ := h
    have hlt' : idx < l.length := by simpa using hlt
    constructor
    · intro h0; omega
    · intro hall
      have := hall (l.reverse[idx]) (by
        have : l.reverse[idx] ∈ l.reverse := List.getElem_mem _
        simpa using this)
      rw [this] at hp; cases hp

/-- `lastValid` is one past the **last** index whose length is `< L`. -/
theorem lastValid_spec (l : List F) (L : F) (h : 0 < lastValid l L) :
    (∃ x, l[lastValid l L - 1]? = some x ∧ Scalar.lt x L = true) ∧
    ∀ j x, lastValid l L ≤ j → l[j]? = some x → Scalar.lt x L = false := by
  unfold lastValid at h ⊢
  split at h
  · omega
  · rename_i idx hf
    rw [List.findIdx?_eq_some_iff_getElem] at hf
    obtain ⟨hlt, hp, hbefore⟩ := hf
    have hlt' : idx < l.length := by simpa using hlt
    constructor
    · refine ⟨l.reverse[idx], ?_, hp⟩
      rw [List.getElem_reverse]
      have : l.length - idx - 1 = l.length - 1 - idx := by omega
      rw [this, List.getElem?_eq_getElem]
    · intro j x hj hx
      have hjl : j < l.length := by
        rcases Nat.lt_or_ge j l.length with h' | h'
        · exact h'
        · rw [List.getElem?_eq_none h'] at hx; cases hx
      have hidx : l.length - 1 - j < idx := by omega
      have := hbefore (l.length - 1 - j) hidx
      rw [List.getElem_reverse] at this
      have e : l.length - 1 - (l.length - 1 - j) = j := by omega
      have hx' : l[j] = x := by
        rw [List.getElem?_eq_getElem hjl] at hx; exact Option.some.inj hx
      simp only [e] at this
      rw [hx'] at this
      cases hb : Scalar.lt x L
      · rfl
      · exact absurd hb this

/-! ### `calculate_length`, branch by branch -/

/-- Without a requested length the path is untouched and the lengths are the running sums of the
segment lengths, starting at `0.0` (and at `optimized_len` for the sums). -/
theorem dist_natural_when_none (path : List (Pos P)) (opt : F) :
    calculateLength path none opt = .ok (path, natLens opt path) := rfl

/-- the distance without a requested length is `calculated_len`, the polyline's own length
(seeded with `optimized_len`). -/
theorem natural_dist (path : List (Pos P)) (opt : F) (h : 2 ≤ path.length) :
    dist (natLens opt path) = natTotal opt path := by
  unfold dist natLens natTotal
  have hne : (cumLens opt path).1 ≠ [] := by
    intro h0
    have := cumLens_length opt path
    rw [h0] at this; simp at this; omega
  rw [List.getLast?_cons_of_ne_nil hne] <;> simp [cumLens_getLast opt path h]

/-- `calculated_len` is the left fold of the segment lengths over consecutive path points. -/
theorem natTotal_eq_fold (path : List (Pos P)) (opt : F) :
    natTotal opt path =
      (path.zip path.tail).foldl (fun acc s => acc + Cvt.up (Pos.length F (s.2 - s.1))) opt := by
  unfold natTotal
  induction path generalizing opt with
  | nil => rfl
  | cons a t ih =>
    cases t with
    | nil => rfl
    | cons b t' =>
      rw [cumLens_cons2]
      have := ih (opt + Cvt.up (Pos.length F (b - a)))
      simpa using this

/-- one past the index `k` of the last cumulative length (the last one excluded) that is `< L`. -/
def cutIdx (opt : F) (path : List (Pos P)) (L : F) : Nat := lastValid (natLens opt path).dropLast L

/-- the re-projected end point `p_k + dir · (L − len_k)` with `dir = (p_{k+1} − p_k).normalize()`,
`k = cutIdx − 1`. -/
def cutPoint (opt : F) (path : List (Pos P)) (L : F) : Pos P :=
  let lv := cutIdx opt path L
  let pp := path.getD (lv - 1) Pos.zero
  let pe := path.getD lv Pos.zero
  let lp := (natLens opt path).dropLast.getD (lv - 1) 0
  pp + (Pos.normalize F (pe - pp)).smul (Cvt.down (L - lp))

theorem natLens_len_eq_one (opt : F) (path : List (Pos P)) :
    (natLens opt path).length = 1 ↔ path.length ≤ 1 := by
  simp only [natLens, List.length_cons, cumLens_length]; omega

/-- **`calculate_length` with a requested length, completely**: the five outcomes of the Rust function.
No outcome is a panic: every index read is in range. -/
theorem calculateLength_some (path : List (Pos P)) (L opt : F) :
    calculateLength path (some L) opt =
      if near opt path L then .ok (path, natLens opt path)
      else if equalTail opt path L then .ok (path, natLens opt path ++ [natTotal opt path])
      else if path.length ≤ 1 then .ok (path, natLens opt path)
      else if cutIdx opt path L = 0 then .ok (path.take 1, [(0 : F)])
      else .ok (path.take (cutIdx opt path L) ++ [cutPoint opt path L],
                (natLens opt path).dropLast.take (cutIdx opt path L) ++ [L]) := by
  unfold calculateLength
  simp only []
  by_cases h1 : near opt path L = true
  · have h1' := h1; unfold near natTotal at h1'
    simp only [h1, h1', if_true]; rfl
  have h1' := h1; unfold near natTotal at h1'
  simp only [h1, h1', if_false, Bool.false_eq_true]
  by_cases h2 : equalTail opt path L = true
  · have h2' := h2; unfold equalTail natTotal at h2'
    simp only [h2, h2', if_true]; rfl
  have h2' := h2; unfold equalTail natTotal at h2'
  simp only [h2, h2', if_false, Bool.false_eq_true]
  have hlen := natLens_len_eq_one opt path
  unfold natLens at hlen
  by_cases h3 : path.length ≤ 1
  · simp only [hlen.mpr h3, h3, if_true]; rfl
  have h3' : ¬ ((0 : F) :: (cumLens opt path).1).length = 1 := fun h => h3 (hlen.mp h)
  simp only [h3, h3', if_false]
  -- the main branch
  have hn : 2 ≤ path.length := by omega
  have hl0 : (natLens opt path).length = path.length :=
    natLens_length opt path (by intro h; subst h; simp at hn)
  have hl1 : (natLens opt path).dropLast.length = path.length - 1 := by
    rw [List.length_dropLast, hl0]
  have hle := lastValid_le (natLens opt path).dropLast L
  have hnl : (0 : F) :: (cumLens opt path).1 = natLens opt path := rfl
  have hci : lastValid (natLens opt path).dropLast L = cutIdx opt path L := rfl
  simp only [hnl, hci]
  have e1 : (if decide (cutIdx opt path L < (natLens opt path).dropLast.length) = true
      then (natLens opt path).dropLast.take (cutIdx opt path L) else (natLens opt path).dropLast)
      = (natLens opt path).dropLast.take (cutIdx opt path L) := by
    split
    · rfl
    · rename_i hh
      have : (natLens opt path).dropLast.length ≤ cutIdx opt path L := by simpa using hh
      rw [List.take_of_length_le this]
  have e2 : (if decide (cutIdx opt path L < (natLens opt path).dropLast.length) = true
      then path.take (cutIdx opt path L + 1) else path) = path.take (cutIdx opt path L + 1) := by
    split
    · rfl
    · rename_i hh
      have : (natLens opt path).dropLast.length ≤ cutIdx opt path L := by simpa using hh
      rw [List.take_of_length_le (by omega)]
  simp only [e1, e2]
  have hlv : cutIdx opt path L ≤ path.length - 1 := by unfold cutIdx; omega
  by_cases h4 : cutIdx opt path L = 0
  · have : (decide (cutIdx opt path L < (natLens opt path).dropLast.length) &&
        ((natLens opt path).dropLast.take (cutIdx opt path L)).isEmpty) = true := by
      rw [h4]; simp; omega
    rw [if_pos this, if_pos h4, h4]
    rfl
  · have : (decide (cutIdx opt path L < (natLens opt path).dropLast.length) &&
        ((natLens opt path).dropLast.take (cutIdx opt path L)).isEmpty) = false := by
      have : (natLens opt path).dropLast.take (cutIdx opt path L) ≠ [] := by
        intro h0
        have := congrArg List.length h0
        simp at this; omega
      simp [this]
    rw [if_neg (by rw [this]; exact Bool.false_ne_true), if_neg h4]
    have htl : ((natLens opt path).dropLast.take (cutIdx opt path L)).length = cutIdx opt path L := by
      simp; omega
    rw [htl]
    have hpl : (path.take (cutIdx opt path L + 1)).length = cutIdx opt path L + 1 := by
      simp; omega
    rw [usub_eq _ _ (by omega), Outcome.ok_bind]
    rw [getI_eq _ _ (by omega), Outcome.ok_bind]
    rw [getI_eq _ _ (by omega), Outcome.ok_bind]
    rw [getI_eq _ _ (by omega), Outcome.ok_bind]
    rw [setI_eq _ _ _ (by omega), Outcome.ok_bind]
    rw [set_take_succ _ _ _ (by omega)]
    simp only [Outcome.pure_eq_ok]
    congr 3
    unfold cutPoint
    simp only []
    have g1 : (path.take (cutIdx opt path L + 1))[cutIdx opt path L - 1]'(by omega)
        = path.getD (cutIdx opt path L - 1) Pos.zero := by
      rw [List.getElem_take, List.getD_eq_getElem?_getD, List.getElem?_eq_getElem (by omega)]; rfl
    have g2 : (path.take (cutIdx opt path L + 1))[cutIdx opt path L]'(by omega)
        = path.getD (cutIdx opt path L) Pos.zero := by
      rw [List.getElem_take, List.getD_eq_getElem?_getD, List.getElem?_eq_getElem (by omega)]; rfl
    have g3 : ((natLens opt path).dropLast.take (cutIdx opt path L))[cutIdx opt path L - 1]'(by omega)
        = (natLens opt path).dropLast.getD (cutIdx opt path L - 1) 0 := by
      rw [List.getElem_take, List.getD_eq_getElem?_getD, List.getElem?_eq_getElem (by omega)]; rfl
    rw [g1, g2, g3]

/-- every result of `calculate_length` starts with `0.0`. -/
theorem lengths_head_zero (path : List (Pos P)) (e : Option F) (opt : F) (p' : List (Pos P)) (ls : List F)
    (h : calculateLength path e opt = .ok (p', ls)) : ls.head? = some (0 : F) := by
  cases e with
  | none => cases h; rfl
  | some L =>
    rw [calculateLength_some] at h
    split at h
    · cases h; rfl
    split at h
    · cases h; rfl
    split at h
    · cases h; rfl
    split at h
    · cases h; rfl
    · rename_i h1 h2 h3 h4
      cases h
      have hne : (cumLens opt path).1 ≠ [] := by
        intro h0
        have := cumLens_length opt path
        rw [h0] at this; simp at this; omega
      unfold natLens
      rw [List.dropLast_cons_of_ne_nil hne]
      cases hk : cutIdx opt path L with
      | zero => exact absurd hk h4
      | succ k => simp

/-- `calculate_length` never panics. -/
theorem calculateLength_total (path : List (Pos P)) (e : Option F) (opt : F) :
    ∃ r, calculateLength path e opt = .ok r := by
  cases e with
  | none => exact ⟨_, rfl⟩
  | some L =>
    rw [calculateLength_some]
    repeat (first | exact ⟨_, rfl⟩ | split)

/-- a near-equal requested length (`|calculated − L| < EPSILON`, or a NaN) changes nothing. -/
theorem dist_natural_when_near (path : List (Pos P)) (L opt : F) (h : near opt path L = true) :
    calculateLength path (some L) opt = calculateLength path none opt := by
  rw [calculateLength_some, dist_natural_when_none]; simp [h]

/-- a single-point (or empty) path keeps its natural lengths `[0.0]`, whatever is requested. -/
theorem single_point_keeps (path : List (Pos P)) (L opt : F) (h : path.length ≤ 1) :
    calculateLength path (some L) opt = .ok (path, [(0 : F)]) := by
  have hc : natLens opt path = [(0 : F)] := by
    have := cumLens_length opt path
    unfold natLens
    cases hl : (cumLens opt path).1 with
    | nil => rfl
    | cons a t => rw [hl] at this; simp at this; omega
  have hl2 : equalTail opt path L = false := by
    unfold equalTail
    match path, h with
    | [], _ => rfl
    | [a], _ => rfl
  rw [calculateLength_some]
  simp [hc, hl2, h]

/-- the equal-last-two-points exception keeps the natural path and lengths and pushes
`calculated_len` once more: the lengths then have one more entry than the path. -/
theorem equal_tail_keeps_natural (path : List (Pos P)) (L opt : F)
    (hfar : near opt path L = false) (heq : equalTail opt path L = true) :
    calculateLength path (some L) opt = .ok (path, natLens opt path ++ [natTotal opt path]) := by
  rw [calculateLength_some]; simp [hfar, heq]

theorem equal_tail_dist (path : List (Pos P)) (L opt : F) (p' : List (Pos P)) (ls : List F)
    (hfar : near opt path L = false) (heq : equalTail opt path L = true)
    (h : calculateLength path (some L) opt = .ok (p', ls)) :
    p' = path ∧ dist ls = natTotal opt path ∧ ls.length = path.length + 1 := by
  rw [equal_tail_keeps_natural path L opt hfar heq] at h
  cases h
  have hne : path ≠ [] := by
    intro h0; subst h0; simp [equalTail, lastTwoEqual] at heq
  refine ⟨rfl, ?_, ?_⟩
  · simp [dist]
  · simp [natLens_length opt path hne]

/-- **cut shape**: in the remaining case (two or more points, `L` not near the calculated length, no
equal-tail exception, some cumulative length `< L`) the adjusted path is the first `k+1` natural points
followed by `p_k + dir·(L − len_k)`, and the lengths are the first `k+1` natural lengths followed by
`L` itself. `k + 1 = cutIdx`, the last index whose length is `< L` (`lastValid_spec`). -/
theorem cut_shape (path : List (Pos P)) (L opt : F)
    (hn : 2 ≤ path.length) (hfar : near opt path L = false) (hexc : equalTail opt path L = false)
    (hk : cutIdx opt path L ≠ 0) :
    calculateLength path (some L) opt =
      .ok (path.take (cutIdx opt path L) ++ [cutPoint opt path L],
           (natLens opt path).dropLast.take (cutIdx opt path L) ++ [L]) := by
  rw [calculateLength_some]
  have : ¬ path.length ≤ 1 := by omega
  simp [hfar, hexc, this, hk]

/-- `0.0 < L` guarantees a cumulative length below `L` (the leading `0.0`). -/
theorem cutIdx_pos_of_pos (path : List (Pos P)) (L opt : F) (hn : 2 ≤ path.length)
    (hpos : Scalar.lt (0 : F) L = true) : cutIdx opt path L ≠ 0 := by
  intro h0
  unfold cutIdx at h0
  rw [lastValid_eq_zero_iff] at h0
  have hne : (cumLens opt path).1 ≠ [] := by
    intro h1
    have := cumLens_length opt path
    rw [h1] at this; simp at this; omega
  have := h0 (0 : F) (by unfold natLens; rw [List.dropLast_cons_of_ne_nil hne]; simp)
  rw [this] at hpos; cases hpos

/-- **the requested length is honoured exactly**: the last cumulative length *is* `L` (the code pushes
`expected_len` itself), for every arithmetic. -/
theorem dist_exact (path : List (Pos P)) (L opt : F) (p' : List (Pos P)) (ls : List F)
    (hn : 2 ≤ path.length) (hpos : Scalar.lt (0 : F) L = true)
    (hfar : near opt path L = false) (hexc : equalTail opt path L = false)
    (h : calculateLength path (some L) opt = .ok (p', ls)) : dist ls = L := by
  rw [cut_shape path L opt hn hfar hexc (cutIdx_pos_of_pos path L opt hn hpos)] at h
  cases h
  simp [dist]

/-- when no cumulative length is `< L` (in lawful arithmetic: `L ≤ 0`) the curve collapses to its first
point with distance `0.0`. -/
theorem dist_zero_when_nothing_below (path : List (Pos P)) (L opt : F)
    (hn : 2 ≤ path.length) (hfar : near opt path L = false) (hexc : equalTail opt path L = false)
    (hk : ∀ x ∈ (natLens opt path).dropLast, Scalar.lt x L = false) :
    calculateLength path (some L) opt = .ok (path.take 1, [(0 : F)]) := by
  rw [calculateLength_some]
  have : ¬ path.length ≤ 1 := by omega
  have hk' : cutIdx opt path L = 0 := (lastValid_eq_zero_iff _ _).mpr hk
  simp [hfar, hexc, this, hk']

/-- lengths and path have the same number of entries, except in the equal-tail case (one more length,
`equal_tail_dist`) and for an empty path (`[0.0]` vs `[]`). -/
theorem lengths_path_aligned (path : List (Pos P)) (e : Option F) (opt : F) (p' : List (Pos P)) (ls : List F)
    (hne : path ≠ [])
    (hexc : ∀ L, e = some L → ¬ (near opt path L = false ∧ equalTail opt path L = true))
    (h : calculateLength path e opt = .ok (p', ls)) : ls.length = p'.length := by
  have hl0 := natLens_length opt path hne
  have hp : 0 < path.length := List.length_pos_iff.mpr hne
  cases e with
  | none => cases h; exact hl0
  | some L =>
    rw [calculateLength_some] at h
    split at h
    · cases h; exact hl0
    split at h
    · rename_i h1 h2
      exact absurd ⟨by simpa using h1, h2⟩ (hexc L rfl)
    split at h
    · cases h; exact hl0
    split at h
    · cases h; simp; omega
    · cases h
      have hle := lastValid_le (natLens opt path).dropLast L
      rw [List.length_dropLast, hl0] at hle
      have : cutIdx opt path L ≤ path.length - 1 := hle
      simp; omega

/-! ### the constructors -/

section
variable [Trig F] [Trig P]

/-- `Curve::new` is `calculate_path` followed by `calculate_length` on the path it left in the buffers:
all theorems above speak about the `lengths()`/`path()` of the constructed curve. -/
theorem new_is_calculateLength (fuel : Nat) (mode : GameMode) (pts : List (PathControlPoint P)) (e : Option F)
    (b b' : CurveBuffers P F) (c : Curve P F) (h : Curve.new fuel mode pts e b = .ok (c, b')) :
    ∃ b1 opt, calculatePath fuel mode pts b = .ok (b1, opt) ∧
      calculateLength b1.path e opt = .ok (c.path, c.lengths) := by
  unfold Curve.new compute at h
  cases h1 : calculatePath fuel mode pts b with
  | error err => rw [h1] at h; cases h
  | ok r =>
    obtain ⟨b1, opt⟩ := r
    rw [h1] at h
    simp only [Outcome.ok_bind] at h
    cases h2 : calculateLength b1.path e opt with
    | error err => rw [h2] at h; cases h
    | ok r2 =>
      obtain ⟨p2, l2⟩ := r2
      rw [h2] at h
      simp only [Outcome.ok_bind, Outcome.pure_eq_ok] at h
      cases h
      exact ⟨b1, opt, rfl, h2⟩

/-- cumulative lengths of every constructed curve start at `0.0`. -/
theorem new_lengths_head_zero (fuel : Nat) (mode : GameMode) (pts : List (PathControlPoint P)) (e : Option F)
    (b b' : CurveBuffers P F) (c : Curve P F) (h : Curve.new fuel mode pts e b = .ok (c, b')) :
    c.lengths.head? = some (0 : F) := by
  obtain ⟨b1, opt, _, h2⟩ := new_is_calculateLength fuel mode pts e b b' c h
  exact lengths_head_zero _ _ _ _ _ h2

end

/-! ### law-dependent: monotone lengths (exact arithmetic) -/

/-- the two order facts monotonicity needs; hypotheses, not axioms. They hold in ℝ/ℚ/ℤ; in IEEE they fail only through
NaN/overflow (`a + x` rounds monotonically), which is what the harness oracle tests. -/
structure MonoLaws (P F : Type) [Scalar P] [Scalar F] [Cvt P F] : Prop where
  len_nonneg : ∀ v : Pos P, Scalar.le (0 : F) (Cvt.up (Pos.length F v)) = true
  le_add : ∀ a x : F, Scalar.le (0 : F) x = true → Scalar.le a (a + x) = true

/-- consecutive entries never decrease. -/
def Mono : List F → Prop
  | a :: b :: rest => Scalar.le a b = true ∧ Mono (b :: rest)
  | _ => True

/-- **`lengths_monotone`** (exact arithmetic): the natural cumulative lengths never decrease, starting from
`optimized_len`. -/
theorem lengths_monotone (laws : MonoLaws P F) (c : F) (path : List (Pos P)) :
    Mono (c :: (cumLens c path).1) := by
  induction path generalizing c with
  | nil => trivial
  | cons a t ih =>
    cases t with
    | nil => trivial
    | cons b t' =>
      rw [cumLens_cons2]
      exact ⟨laws.le_add c _ (laws.len_nonneg _), ih _⟩

/-- the laws are satisfiable: the toy arithmetic on `Int`. -/
theorem monoLaws_int : MonoLaws Int Int where
  len_nonneg v := by
    show decide ((0 : Int) ≤ _) = true
    simp only [decide_eq_true_eq]
    exact Int.natCast_nonneg _
  le_add a x h := by
    have h' : (0 : Int) ≤ x := by simpa [Scalar.le] using h
    show decide (a ≤ a + x) = true
    simp only [decide_eq_true_eq]
    omega

/-! ### law-dependent: the osu!-mode Catmull simplification preserves the length (telescoping) -/

/-- the additive laws the telescoping identity needs, and symmetry of the distance; hypotheses, not axioms. -/
structure SumLaws (P F : Type) [Scalar P] [Scalar F] [Cvt P F] : Prop where
  add_assoc : ∀ a b c : F, a + b + c = a + (b + c)
  add_comm : ∀ a b : F, a + b = b + a
  add_zero : ∀ a : F, a + (0 : F) = a
  sub_add_cancel : ∀ a b : F, a - b + b = a
  dist_symm : ∀ a b : Pos P, Pos.length F (a - b) = Pos.length F (b - a)

theorem natTotal_nil (c : F) : natTotal c ([] : List (Pos P)) = c := rfl
theorem natTotal_single (c : F) (a : Pos P) : natTotal c [a] = c := rfl
theorem natTotal_cons2 (c : F) (a b : Pos P) (t : List (Pos P)) :
    natTotal c (a :: b :: t) = natTotal (c + Cvt.up (Pos.length F (b - a))) (b :: t) := rfl

/-- appending a point adds the length of the new last segment (no law needed). -/
theorem natTotal_snoc (c : F) (Q : List (Pos P)) (p x : Pos P) (h : Q.getLast? = some p) :
    natTotal c (Q ++ [x]) = natTotal c Q + Cvt.up (Pos.length F (x - p)) := by
  induction Q generalizing c with
  | nil => simp at h
  | cons a t ih =>
    cases t with
    | nil =>
      simp at h; subst h
      show natTotal c [a, x] = _
      rw [natTotal_cons2]; rfl
    | cons b t' =>
      rw [List.getLast?_cons_cons] at h
      show natTotal c (a :: b :: (t' ++ [x])) = _
      rw [natTotal_cons2, natTotal_cons2]
      exact ih _ h

/-- shifting the seed shifts the total (exact arithmetic). -/
theorem natTotal_shift (laws : SumLaws P F) (c d : F) (Q : List (Pos P)) :
    natTotal (c + d) Q = natTotal c Q + d := by
  induction Q generalizing c with
  | nil => rfl
  | cons a t ih =>
    cases t with
    | nil => rfl
    | cons b t' =>
      rw [natTotal_cons2, natTotal_cons2]
      have : c + d + Cvt.up (Pos.length F (b - a)) = c + Cvt.up (Pos.length F (b - a)) + d := by
        rw [laws.add_assoc, laws.add_comm d, ← laws.add_assoc]
      rw [this]
      exact ih _

/-- invariant of the simplification loop after the points `Q` have been consumed: the pushed points `out`,
seeded with the current `optimized_len` (plus the length removed since the last kept start), are as long as `Q`
seeded with the initial `optimized_len`. -/
def SimpInv (opt0 : F) (Q : List (Pos P)) (st : SimpState P F) : Prop :=
  match st.lastStart with
  | none => natTotal st.optLen st.out = natTotal opt0 Q ∧ st.out.getLast? = Q.getLast? ∧ st.lenRemoved = 0
  | some ls => natTotal st.optLen st.out + st.lenRemoved = natTotal opt0 Q ∧ st.out.getLast? = some ls ∧ Q ≠ []

theorem simplifyStep_inv (laws : SumLaws P F) (n : Nat) (opt0 : F) (Q : List (Pos P)) (st : SimpState P F)
    (i : Nat) (prev curr : Pos P) (hprev : Q ≠ [] → Q.getLast? = some prev) (h : SimpInv opt0 Q st) :
    SimpInv opt0 (Q ++ [curr]) (simplifyStep n st i prev curr) := by
  unfold simplifyStep
  cases hls : st.lastStart with
  | none =>
    simp only [SimpInv, hls] at h ⊢
    obtain ⟨h1, h2, h0⟩ := h
    refine ⟨?_, ?_, by simp⟩
    · rw [h0, laws.add_zero]
      cases Q with
      | nil =>
        simp only [List.getLast?_nil, List.getLast?_eq_none_iff] at h2
        rw [h2] at h1 ⊢
        exact h1
      | cons a t =>
        have hp := hprev (by simp)
        rw [hp] at h2
        rw [natTotal_snoc _ _ _ _ h2, natTotal_snoc _ _ _ _ hp, h1]
    · simp
  | some ls =>
    simp only [SimpInv, hls] at h
    obtain ⟨h1, h2, h3⟩ := h
    have hp := hprev h3
    have hQ : natTotal opt0 (Q ++ [curr]) = natTotal opt0 Q + Cvt.up (Pos.length F (curr - prev)) :=
      natTotal_snoc _ _ _ _ hp
    have hsym : (Cvt.up (Pos.distance F prev curr) : F) = Cvt.up (Pos.length F (curr - prev)) := by
      unfold Pos.distance; rw [laws.dist_symm]
    by_cases hc : (Scalar.lt (6 : F) (Cvt.up (Pos.distance F ls curr)) || (i + 1) % 100 == 0 || i == n - 1) = true
    · -- the point is kept: `optimized_len += len_removed - dist_from_start`
      show SimpInv opt0 (Q ++ [curr]) (if (Scalar.lt (6 : F) (Cvt.up (Pos.distance F ls curr)) || (i + 1) % 100 == 0 || i == n - 1) = true then
          ({ out := st.out ++ [curr], lastStart := none, lenRemoved := 0,
             optLen := st.optLen + (st.lenRemoved + Cvt.up (Pos.distance F prev curr) -
               Cvt.up (Pos.distance F ls curr)) } : SimpState P F)
        else { out := st.out, lastStart := some ls,
               lenRemoved := st.lenRemoved + Cvt.up (Pos.distance F prev curr), optLen := st.optLen })
      rw [if_pos hc]
      simp only [SimpInv]
      refine ⟨?_, by simp, trivial⟩
      have hd : (Cvt.up (Pos.distance F ls curr) : F) = Cvt.up (Pos.length F (curr - ls)) := by
        unfold Pos.distance; rw [laws.dist_symm]
      rw [natTotal_snoc _ _ _ _ h2, natTotal_shift laws, hd, laws.add_assoc (natTotal st.optLen st.out),
        laws.sub_add_cancel, ← laws.add_assoc, h1, hQ, hsym]
    · show SimpInv opt0 (Q ++ [curr]) (if (Scalar.lt (6 : F) (Cvt.up (Pos.distance F ls curr)) || (i + 1) % 100 == 0 || i == n - 1) = true then
          ({ out := st.out ++ [curr], lastStart := none, lenRemoved := 0,
             optLen := st.optLen + (st.lenRemoved + Cvt.up (Pos.distance F prev curr) -
               Cvt.up (Pos.distance F ls curr)) } : SimpState P F)
        else { out := st.out, lastStart := some ls,
               lenRemoved := st.lenRemoved + Cvt.up (Pos.distance F prev curr), optLen := st.optLen })
      rw [if_neg hc]
      simp only [SimpInv]
      refine ⟨?_, h2, by simp⟩
      rw [← laws.add_assoc, h1, hQ, hsym]

theorem simplifyLoop_inv (laws : SumLaws P F) (n : Nat) (opt0 : F) : ∀ (rest Q : List (Pos P))
    (st : SimpState P F) (i : Nat) (prev : Pos P), (Q ≠ [] → Q.getLast? = some prev) → SimpInv opt0 Q st →
    SimpInv opt0 (Q ++ rest) (simplifyLoop n st i prev rest) := by
  intro rest
  induction rest with
  | nil => intro Q st i prev _ h; simpa [simplifyLoop] using h
  | cons curr rest ih =>
    intro Q st i prev hprev h
    have := ih (Q ++ [curr]) (simplifyStep n st i prev curr) (i + 1) curr (fun _ => by simp)
      (simplifyStep_inv laws n opt0 Q st i prev curr hprev h)
    simpa [simplifyLoop] using this

/-- nothing has been removed while no start is pending. -/
def SimpZ (st : SimpState P F) : Prop := st.lastStart = none → st.lenRemoved = 0

/-- at the end of the loop nothing removed is left unbooked. -/
def SimpFin (st : SimpState P F) : Prop := ∀ ls, st.lastStart = some ls → st.lenRemoved = 0

theorem simplifyStep_Z (n : Nat) (st : SimpState P F) (i : Nat) (prev curr : Pos P) (h : SimpZ st) :
    SimpZ (simplifyStep n st i prev curr) := by
  unfold simplifyStep
  cases hls : st.lastStart with
  | none => intro h'; simp at h'
  | some ls =>
    simp only []
    split
    · intro _; rfl
    · intro h'; simp [hls] at h'

theorem simplifyStep_last (n : Nat) (st : SimpState P F) (prev curr : Pos P) (h : SimpZ st) :
    SimpFin (simplifyStep n st (n - 1) prev curr) := by
  unfold simplifyStep
  cases hls : st.lastStart with
  | none => intro ls _; exact h hls
  | some ls =>
    simp only [beq_self_eq_true, Bool.or_true, if_true]
    intro ls' h'; simp at h'

theorem simplifyLoop_fin (n : Nat) : ∀ (rest : List (Pos P)) (st : SimpState P F) (i : Nat) (prev : Pos P),
    i + rest.length = n → SimpZ st → (rest = [] → SimpFin st) → SimpFin (simplifyLoop n st i prev rest) := by
  intro rest
  induction rest with
  | nil => intro st i prev _ _ hf; simpa [simplifyLoop] using hf rfl
  | cons curr rest ih =>
    intro st i prev hi hz _
    simp only [simplifyLoop]
    apply ih
    · simp at hi; omega
    · exact simplifyStep_Z n st i prev curr hz
    · intro hr
      subst hr
      have : i = n - 1 := by simp at hi; omega
      subst this
      exact simplifyStep_last n st prev curr hz

/-- **`catmull_simplify_preserves_length`** (exact arithmetic): the points the osu!-mode simplification keeps,
measured with the updated `optimized_len` as seed, are exactly as long as the full Catmull sub-path measured
with the old one — whatever points the 6 px / every-100th / last-point rule keeps. -/
theorem catmull_simplify_preserves_length (laws : SumLaws P F) (subPath : List (Pos P)) (opt0 : F) :
    natTotal (catmullSimplify subPath opt0).2 (catmullSimplify subPath opt0).1 = natTotal opt0 subPath := by
  have h := simplifyLoop_inv laws subPath.length opt0 subPath []
    { out := [], lastStart := none, lenRemoved := 0, optLen := opt0 } 0 Pos.zero (fun h => absurd rfl h)
    (by simp [SimpInv])
  have hfin := simplifyLoop_fin subPath.length subPath
    ({ out := [], lastStart := none, lenRemoved := 0, optLen := opt0 } : SimpState P F) 0 Pos.zero (by simp)
    (fun _ => rfl) (fun _ ls hls => by simp at hls)
  simp only [List.nil_append] at h
  unfold catmullSimplify
  simp only []
  revert h hfin
  generalize simplifyLoop subPath.length
    ({ out := [], lastStart := none, lenRemoved := 0, optLen := opt0 } : SimpState P F) 0 Pos.zero subPath = st
  intro h hfin
  unfold SimpInv at h
  cases hls : st.lastStart with
  | none => rw [hls] at h; exact h.1
  | some ls =>
    rw [hls] at h
    -- the loop ended right after a kept start: nothing has been removed since
    have hz : st.lenRemoved = 0 := hfin ls hls
    rw [hz, laws.add_zero] at h
    exact h.1

/-- the laws are satisfiable: the toy arithmetic on `Int`. -/
theorem sumLaws_int : SumLaws Int Int where
  add_assoc := Int.add_assoc
  add_comm := Int.add_comm
  add_zero a := by show a + ((0 : Nat) : Int) = a; simp
  sub_add_cancel := Int.sub_add_cancel
  dist_symm a b := by
    have key : ∀ u v : Int, (u - v) * (u - v) = (v - u) * (v - u) := by
      intro u v
      have : v - u = -(u - v) := by omega
      rw [this, Int.neg_mul_neg]
    show Pos.length Int (Pos.sub a b) = Pos.length Int (Pos.sub b a)
    simp only [Pos.length, Pos.sub, key a.x b.x, key a.y b.y]

/-! ### law-dependent: the re-projected end point lies on the ray of its segment -/

/-- multiplicative laws of the f32-side scalar used by `normalize` and `* f32`; hypotheses, not axioms. -/
structure RayLaws (P : Type) [Scalar P] : Prop where
  mul_assoc : ∀ a b c : P, a * b * c = a * (b * c)
  recip_mul : ∀ a s : P, Scalar.recip a * s = s / a

/-- **`cut_on_segment` / `extension_collinear`** (exact arithmetic): the new end point is
`p_k + (p_{k+1} − p_k) · t` with the single parameter `t = (L − len_k) / |p_{k+1} − p_k|` — a point of the line
through the segment, in the segment's own direction. It is *on* the segment when `t ≤ 1` (`cut_param_le_one`) and
an extension of it otherwise. -/
theorem end_point_on_ray (laws : RayLaws P) (opt : F) (path : List (Pos P)) (L : F) :
    cutPoint opt path L =
      let lv := cutIdx opt path L
      let pp := path.getD (lv - 1) Pos.zero
      let pe := path.getD lv Pos.zero
      let lp := (natLens opt path).dropLast.getD (lv - 1) 0
      pp + (pe - pp).smul (Cvt.down (L - lp) / Pos.length F (pe - pp)) := by
  unfold cutPoint Pos.normalize Pos.smul
  simp only [laws.mul_assoc, laws.recip_mul]

/-- the laws are satisfiable: exact rational arithmetic. -/
theorem rayLaws_rat : RayLaws Rat where
  mul_assoc := Rat.mul_assoc
  recip_mul a s := by
    show (((1 : Nat) : Rat) / a) * s = s / a
    rw [Rat.div_def, Rat.div_def]
    have : ((1 : Nat) : Rat) = 1 := rfl
    rw [this, Rat.one_mul, Rat.mul_comm]

/-- order facts for the parameter; hypotheses, not axioms. -/
structure OrdLaws (F : Type) [Scalar F] : Prop where
  sub_pos : ∀ a b : F, Scalar.lt a b = true → Scalar.lt (0 : F) (b - a) = true
  sub_le : ∀ a b s : F, Scalar.le b (a + s) = true → Scalar.le (b - a) s = true

/-- the distance from `p_k` to the new end point is positive, and at most the segment's booked length
`len_{k+1} − len_k` when `L ≤ len_{k+1}` (a cut). For every segment but the first the booked length is the
segment's own length (`natLens`: `len_{k+1} = len_k + |p_{k+1} − p_k|`), so the parameter `t` is in `(0, 1]`:
the cut point is on its segment. The first segment's booked length also carries the whole osu!-mode Catmull
surplus `optimized_len` — there `t` can exceed 1 (finding F12). -/
theorem cut_param_range (laws : OrdLaws F) (lenk lenk1 seg L : F)
    (hk : Scalar.lt lenk L = true) (hk1 : Scalar.le L lenk1 = true) (hbook : lenk1 = lenk + seg) :
    Scalar.lt (0 : F) (L - lenk) = true ∧ Scalar.le (L - lenk) seg = true :=
  ⟨laws.sub_pos _ _ hk, laws.sub_le _ _ _ (hbook ▸ hk1)⟩

theorem cumLens_step (c : F) (path : List (Pos P)) (j : Nat) (a b : Pos P) (x : F)
    (ha : path[j + 1]? = some a) (hb : path[j + 2]? = some b) (hx : (cumLens c path).1[j]? = some x) :
    (cumLens c path).1[j + 1]? = some (x + Cvt.up (Pos.length F (b - a))) := by
  induction path generalizing c j with
  | nil => simp at ha
  | cons p t ih =>
    cases t with
    | nil => simp at ha
    | cons q t' =>
      rw [cumLens_cons2] at hx ⊢
      cases j with
      | zero =>
        simp only [List.getElem?_cons_succ, List.getElem?_cons_zero] at hx ha hb ⊢
        cases hx; cases ha
        cases t' with
        | nil => simp at hb
        | cons r t'' =>
          simp only [List.getElem?_cons_zero] at hb
          cases hb
          rw [cumLens_cons2]
          simp
      | succ j =>
        simp only [List.getElem?_cons_succ] at hx ha hb ⊢
        exact ih _ j ha hb hx

/-- consecutive natural lengths differ by the segment's own length, from the second segment on
(`len_{k+1} = len_k + |p_{k+1} − p_k|` for `k ≥ 1`; `len_1 = optimized_len + |p_1 − p_0|` while `len_0 = 0`). -/
theorem natLens_step (opt : F) (path : List (Pos P)) (k : Nat) (a b : Pos P) (x : F)
    (hk : 1 ≤ k) (ha : path[k]? = some a) (hb : path[k + 1]? = some b) (hx : (natLens opt path)[k]? = some x) :
    (natLens opt path)[k + 1]? = some (x + Cvt.up (Pos.length F (b - a))) := by
  obtain ⟨j, rfl⟩ : ∃ j, k = j + 1 := ⟨k - 1, by omega⟩
  unfold natLens at hx ⊢
  simp only [List.getElem?_cons_succ] at hx ⊢
  exact cumLens_step opt path j a b x ha hb hx

theorem ordLaws_int : OrdLaws Int where
  sub_pos a b h := by
    have h' : a < b := by simpa [Scalar.lt] using h
    show decide (((0 : Nat) : Int) < b - a) = true
    simp only [decide_eq_true_eq]; omega
  sub_le a b s h := by
    have h' : b ≤ a + s := by simpa [Scalar.le] using h
    show decide (b - a ≤ s) = true
    simp only [decide_eq_true_eq]; omega

/-! ### non-vacuity: a toy arithmetic on `Int` (no law is needed by the theorems above) -/

section NonVacuity
open Rosu.Toy

/-- a three-point path with toy segment "lengths" 25 and 25. -/
def demoPath : List (Pos Int) := [pt 0 0, pt 3 4, pt 6 8]

example : natLens (0 : Int) demoPath = [0, 25, 50] := by decide
-- `dist_exact` / `cut_shape`: cut inside the second segment
example : (2 ≤ demoPath.length) ∧ Scalar.lt (0 : Int) 30 = true ∧ near (0 : Int) demoPath 30 = false ∧
    equalTail (0 : Int) demoPath 30 = false ∧ cutIdx (0 : Int) demoPath 30 = 2 := by decide
-- ... and an extension beyond the natural length
example : near (0 : Int) demoPath 80 = false ∧ equalTail (0 : Int) demoPath 80 = false ∧
    cutIdx (0 : Int) demoPath 80 = 2 := by decide
-- `dist_natural_when_near`
example : near (0 : Int) demoPath 50 = true := by decide
-- `equal_tail_keeps_natural`
example : near (0 : Int) [pt 0 0, pt 3 4, pt 3 4] 80 = false ∧
    equalTail (0 : Int) [pt 0 0, pt 3 4, pt 3 4] 80 = true := by decide
-- `dist_zero_when_nothing_below`
example : near (0 : Int) demoPath (-5) = false ∧ equalTail (0 : Int) demoPath (-5) = false ∧
    cutIdx (0 : Int) demoPath (-5) = 0 := by decide

end NonVacuity

end Rosu.C16
