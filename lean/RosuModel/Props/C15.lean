/-
  Props/C15.lean — map-level processing of hit objects: order, combos, velocity, sample defaults.
-/
import RosuModel.Model.Finalize
namespace Rosu.C15
open Rosu Scalar

variable {F P : Type} [Scalar F] [Scalar P] [Cvt P F] [Trig F] [Trig P]

/-! ### order: a stable sort by start time (under `total_cmp`) -/

def leStart (a b : HitObject F P) : Bool := decide (totalKey a.startTime ≤ totalKey b.startTime)

omit [Cvt P F] [Trig F] [Trig P] in
theorem leStart_trans (a b c : HitObject F P) : leStart a b = true → leStart b c = true → leStart a c = true := by
  unfold leStart; simp only [decide_eq_true_eq]; omega

omit [Cvt P F] [Trig F] [Trig P] in
theorem leStart_total (a b : HitObject F P) : (leStart a b || leStart b a) = true := by
  unfold leStart; simp only [Bool.or_eq_true, decide_eq_true_eq]; omega

omit [Cvt P F] [Trig F] [Trig P] in
/-- **sorted_stable**: the finaliser's sort yields a permutation of the parsed objects … -/
theorem sorted_perm (hs : List (HitObject F P)) : (sortByStartTime hs).Perm hs :=
  List.mergeSort_perm hs _

omit [Cvt P F] [Trig F] [Trig P] in
/-- … in non-decreasing start-time order … -/
theorem sorted_nondecreasing (hs : List (HitObject F P)) :
    (sortByStartTime hs).Pairwise (fun a b => totalKey a.startTime ≤ totalKey b.startTime) := by
  have := List.pairwise_mergeSort (le := leStart (F := F) (P := P)) leStart_trans leStart_total hs
  unfold sortByStartTime
  refine List.Pairwise.imp ?_ this
  intro a b h; simpa [leStart] using h

omit [Cvt P F] [Trig F] [Trig P] in
omit [Cvt P F] [Trig F] [Trig P] in
/-- … and stable: two objects with `a` not after `b` in time that appear in file order `a … b`
appear in that order in the result (in particular equal-time objects keep file order). -/
theorem sorted_stable (hs : List (HitObject F P)) (a b : HitObject F P)
    (hle : totalKey a.startTime ≤ totalKey b.startTime) (hsub : [a, b].Sublist hs) :
    [a, b].Sublist (sortByStartTime hs) :=
  List.pair_sublist_mergeSort (le := leStart (F := F) (P := P)) leStart_trans leStart_total
    (by simp [leStart, hle]) hsub

/-! ### break handling -/

theorem postProcessBreaks_length (breaks : List (BreakPeriod F)) (hs : List (HitObject F P)) (cur : Nat) :
    (postProcessBreaks breaks hs cur).length = hs.length := by
  induction hs generalizing cur with
  | nil => rfl
  | cons h rest ih => simp [postProcessBreaks, ih]

omit [Scalar F] [Scalar P] [Cvt P F] [Trig F] [Trig P] in
/-- break processing changes nothing but `new_combo` flags, and only ever sets them. -/
theorem orNewCombo_only_sets (k : HitObjectKind F P) (force : Bool) :
    (match k, k.orNewCombo force with
     | .circle c, .circle c' => c' = { c with newCombo := c.newCombo || force }
     | .slider s, .slider s' => s' = { s with newCombo := s.newCombo || force }
     | .spinner s, .spinner s' => s' = { s with newCombo := s.newCombo || force }
     | .hold h, .hold h' => h' = h
     | _, _ => False) := by
  cases k <;> simp [HitObjectKind.orNewCombo]

omit [Trig F] in
/-- the pointer walk of `post_process_breaks`: it skips exactly the breaks (from `cur` on, in list
order) that end before the object starts, and forces a new combo iff it skipped at least one. -/
theorem skipBreaks_spec (breaks : List (BreakPeriod F)) (t : F) (fuel cur : Nat) (force : Bool) :
    cur ≤ (skipBreaks breaks t fuel cur force).1 ∧
    ((skipBreaks breaks t fuel cur force).2 = true ↔ (force = true ∨ cur < (skipBreaks breaks t fuel cur force).1)) ∧
    (∀ i, cur ≤ i → i < (skipBreaks breaks t fuel cur force).1 → ∃ b, breaks[i]? = some b ∧ lt b.endTime t = true) := by
  induction fuel generalizing cur force with
  | zero =>
    simp only [skipBreaks]
    exact ⟨Nat.le_refl _, by simp, fun i h1 h2 => absurd h2 (by omega)⟩
  | succ n ih =>
    cases hb : breaks[cur]? with
    | none =>
      have hs : skipBreaks breaks t (n + 1) cur force = (cur, force) := by rw [skipBreaks]; simp [hb]
      rw [hs]
      exact ⟨Nat.le_refl _, by simp, fun i h1 h2 => absurd h2 (by simp; omega)⟩
    | some b =>
      by_cases hlt : lt b.endTime t = true
      · have hs : skipBreaks breaks t (n + 1) cur force = skipBreaks breaks t n (cur + 1) true := by
          rw [skipBreaks]; simp [hb, hlt]
        rw [hs]
        obtain ⟨h1, h2, h3⟩ := ih (cur + 1) true
        refine ⟨by omega, ?_, ?_⟩
        · rw [h2]
          have : cur < (skipBreaks breaks t n (cur + 1) true).1 := by omega
          simp [this]
        · intro i hi1 hi2
          by_cases hic : i = cur
          · subst hic; exact ⟨b, hb, hlt⟩
          · exact h3 i (by omega) hi2
      · have hs : skipBreaks breaks t (n + 1) cur force = (cur, force) := by rw [skipBreaks]; simp [hb, hlt]
        rw [hs]
        exact ⟨Nat.le_refl _, by simp, fun i h1 h2 => absurd h2 (by simp; omega)⟩

omit [Trig F] in
/-- with enough fuel the walk stops at a break that does not end before the object (or at the end). -/
theorem skipBreaks_stops (breaks : List (BreakPeriod F)) (t : F) (fuel cur : Nat) (force : Bool)
    (hf : breaks.length < cur + fuel) :
    ∀ b, breaks[(skipBreaks breaks t fuel cur force).1]? = some b → lt b.endTime t = false := by
  induction fuel generalizing cur force with
  | zero =>
    intro b hb
    simp only [skipBreaks] at hb
    have : cur < breaks.length := by
      rcases List.getElem?_eq_some_iff.mp hb with ⟨h, _⟩; exact h
    omega
  | succ n ih =>
    cases hb : breaks[cur]? with
    | none =>
      have hs : skipBreaks breaks t (n + 1) cur force = (cur, force) := by rw [skipBreaks]; simp [hb]
      rw [hs]; intro b hb'; simp only at hb'; rw [hb] at hb'; cases hb'
    | some b0 =>
      by_cases hlt : lt b0.endTime t = true
      · have hs : skipBreaks breaks t (n + 1) cur force = skipBreaks breaks t n (cur + 1) true := by
          rw [skipBreaks]; simp [hb, hlt]
        rw [hs]
        exact ih (cur + 1) true (by omega)
      · have hs : skipBreaks breaks t (n + 1) cur force = (cur, force) := by rw [skipBreaks]; simp [hb, hlt]
        rw [hs]
        intro b hb'
        simp only at hb'
        rw [hb] at hb'
        cases hb'
        simpa using hlt

/-! ### velocity, duration -/

/-- **bpm_multiplier_clamps**: the slider-velocity multiplier enters through
`clamp(100/sv, 10, 10000)/100` in osu!/catch and `clamp(100/sv, 10, 1000)/100` in taiko/mania. -/
theorem precisionAdjusted_form (sv beatLen : F) (mode : GameMode) :
    precisionAdjustedBeatLen sv beatLen mode =
      beatLen * (if lt ((-100 : F) / sv) 0 then
                   (match mode with
                    | .osu | .catch => clamp (-((-100 : F) / sv)) 10 10000 / 100
                    | .taiko | .mania => clamp (-((-100 : F) / sv)) 10 1000 / 100)
                 else 1) := rfl

/-- **velocity_closed_form / duration_closed_form**: what the finaliser stores in a slider. -/
theorem slider_finalized (mode : GameMode) (sm : F) (cp : ControlPoints F) (h : HitObject F P)
    (s : HitObjectSlider F P) (bufs : CurveBuffers P F) (hk : h.kind = .slider s)
    (h' : HitObject F P) (bufs' : CurveBuffers P F)
    (hfin : finalizeObject mode sm cp h bufs = .ok (h', bufs')) :
    ∃ (curve : Curve P F) (b2 : CurveBuffers P F),
      Curve.new curveFuel s.path.mode s.path.controlPoints s.path.expectedDist bufs = .ok (curve, b2) ∧
      let beatLen := ((cp.timingPointAt h.startTime).map (·.beatLen)).getD (1000 : F)
      let sv := ((cp.difficultyPointAt h.startTime).map (·.sliderVelocity)).getD (1 : F)
      let velocity : F := (Cvt.up (100 : P) : F) * sm / precisionAdjustedBeatLen sv beatLen mode
      let spanCount : F := Scalar.ofInt (s.repeatCount + 1)
      let duration : F := spanCount * Curve.dist curve.lengths / velocity
      h'.startTime = h.startTime ∧
      h'.kind = .slider { s with velocity := velocity,
                                 nodeSamples := applyNodeSamples cp h.startTime duration spanCount s.nodeSamples 0 } ∧
      h'.samples = h.samples.map
        (((cp.samplePointAt (h.startTime + duration + controlPointLeniency)).getD SamplePoint.default).apply) := by
  unfold finalizeObject at hfin
  rw [hk] at hfin
  simp only [] at hfin
  cases hc : Curve.new curveFuel s.path.mode s.path.controlPoints s.path.expectedDist bufs with
  | error e => simp [hc, bind, Except.bind] at hfin
  | ok r =>
    obtain ⟨curve, b2⟩ := r
    simp only [hc, bind, Except.bind, pure, Except.pure] at hfin
    injection hfin with hfin
    injection hfin with e1 e2
    subst e1 e2
    exact ⟨curve, b2, rfl, rfl, rfl, rfl⟩

theorem applyNodeSamples_length (cp : ControlPoints F) (st d sc : F) (ns : List (List HitSampleInfo)) (i : Nat) :
    (applyNodeSamples cp st d sc ns i).length = ns.length := by
  induction ns generalizing i with
  | nil => rfl
  | cons n rest ih => simp [applyNodeSamples, ih]

/-- the finaliser neither drops nor duplicates objects and never touches a start time. -/
theorem finalizeObjects_times (mode : GameMode) (sm : F) (cp : ControlPoints F) (hs hs' : List (HitObject F P))
    (bufs : CurveBuffers P F) (h : finalizeObjects mode sm cp hs bufs = .ok hs') :
    hs'.map (·.startTime) = hs.map (·.startTime) := by
  induction hs generalizing hs' bufs with
  | nil => simp [finalizeObjects, pure, Except.pure] at h; subst h; rfl
  | cons x rest ih =>
    simp only [finalizeObjects, bind, Except.bind] at h
    cases hx : finalizeObject mode sm cp x bufs with
    | error e => simp [hx] at h
    | ok r =>
      obtain ⟨x', b'⟩ := r
      simp only [hx] at h
      cases hr : finalizeObjects mode sm cp rest b' with
      | error e => simp [hr] at h
      | ok rest' =>
        simp only [hr, pure, Except.pure] at h
        cases h
        have hxt : x'.startTime = x.startTime := by
          unfold finalizeObject at hx
          cases hk : x.kind with
          | circle c => simp [hk, pure, Except.pure] at hx; rw [← hx.1]
          | spinner c => simp [hk, pure, Except.pure] at hx; rw [← hx.1]
          | hold c => simp [hk, pure, Except.pure] at hx; rw [← hx.1]
          | slider s =>
            simp only [hk] at hx
            cases hc : Curve.new curveFuel s.path.mode s.path.controlPoints s.path.expectedDist bufs with
            | error e => simp [hc, bind, Except.bind] at hx
            | ok r2 =>
              simp only [hc, bind, Except.bind, pure, Except.pure] at hx
              cases hx; rfl
        simp [hxt, ih rest' b' hr]

/-! ### sample defaults (`SamplePoint::apply`) -/

omit [Trig F] in
/-- **sample_defaults** for named samples: volume 0, unspecified bank and custom index 0 are taken
from the sample point; specified values are kept. -/
theorem apply_default_sample (sp : SamplePoint F) (s : HitSampleInfo) (n : HitSampleDefaultName)
    (hn : s.name = .default n) :
    let r := sp.apply s
    r.name = s.name ∧
    r.volume = (if s.volume = 0 then clampVolume sp.sampleVolume else s.volume) ∧
    r.bank = (if s.bankSpecified then s.bank else sp.sampleBank) ∧ r.bankSpecified = true ∧
    r.customSampleBank = (if s.customSampleBank = 0 then sp.customSampleBank else s.customSampleBank) ∧
    r.isLayered = s.isLayered := by
  unfold SamplePoint.apply
  simp only [hn]
  by_cases h1 : s.customSampleBank = 0 <;> by_cases h2 : s.volume = 0 <;> by_cases h3 : s.bankSpecified = true <;>
    by_cases h4 : sp.customSampleBank ≥ 2 <;> simp [h1, h2, h3, h4, hn]

omit [Trig F] in
/-- file samples get the fixed treatment. -/
theorem apply_file_sample (sp : SamplePoint F) (s : HitSampleInfo) (f : Str) (hn : s.name = .file f) :
    sp.apply s = { s with bank := SampleBank.normal, suffix := none,
                          volume := if s.volume == 0 then clampVolume sp.sampleVolume else s.volume,
                          customSampleBank := 1, bankSpecified := false, isLayered := false } := by
  unfold SamplePoint.apply
  simp [hn]

theorem clampVolume_range (v : Int) : 0 ≤ clampVolume v ∧ clampVolume v ≤ 100 := by
  unfold clampVolume; split <;> (try split) <;> omega

end Rosu.C15
