/-
  Props/C02File.lean — C02 at file level: the three lines of proof composed into ONE statement about ONE decode of
  `encode m` (continues Props/C02.lean, same namespace).

  * `roundtrip_rep_partial`: for a map satisfying `RepMap` (Lemmas/RepMap.lean: record sections, control points incl. the
    collected sample points, and every hit object representable), under the codec laws `MapLaws` and — for the timing part —
    the exact-arithmetic laws `EpsLaws`, `GroupLaws` and `TimelineHyps` of the map's control points: if `encode m = .ok t`
    then reading the UTF-8 bytes of `t` back with the `Beatmap` decoder succeeds, and of the ONE resulting decoder state
      – the record fields are the map's (preserved view) — from `records_roundtrip`;
      – the hit objects pushed by the `[HitObjects]` lines, BEFORE map-level processing, are position by position what the
        line format carries of the map's objects (`SliderRt.ObjsBack`: kinds, start times, positions, combo data with the
        decoder's forcing rule, control points, repeat counts, written lengths as stored, node sample lists, spinner / hold
        durations, samples as `convert_sound_type` rebuilds them) — from `hitobjects_block_rt` and the per-kind theorems
        `circle_rt`, `slider_rt`, `spinner_rt`, `hold_rt`;
    and whenever finalisation succeeds, of the ONE re-decoded `Beatmap`
      – format version, general (preserved view), editor, metadata (preserved view), difficulty, events, colours (alpha 255);
      – the timing points, and at every time the effective slider velocity (scroll speed in taiko / mania) and kiai flag —
        from `timing_roundtrip_file`;
      – its hit objects are the map-level processing (`finalizeObjects ∘ postProcessBreaks ∘ sortByStartTime`, with the map's
        mode, slider multiplier and breaks and the re-decoded control points) of exactly those pushed objects.
  * what is still missing for the full property (`roundtrip_rep_statement`, not a theorem): (a) the map-level processing of
    the re-decoded objects against the original map's objects — slider velocity from the re-decoded timeline (the timeline is
    equal by `roundtrip_rep_partial`, so this needs `finalizeObjects` to read the control points only through it), sample
    defaults, forced new combos after breaks, the stable sort of an already sorted list; (b) that a DECODED map satisfies
    `RepMap` — false in general: F17 (repeated typed point), F18 (node sample file names), F20 (computed length above the
    limit), sample points collected at non-finite times; (c) IEEE arithmetic for the timing part (`EpsLaws`/`GroupLaws` hold of
    the integer toy scalar, not of `f64`: the ≤ 4 ulp drift of `100/(100/sv)` is measured by the `rt` oracle).
  Non-vacuity: `C04.toyMap` (Props/C04Toy.lean).
-/
import RosuModel.Props.C02Slider
import RosuModel.Props.C02Timing
import RosuModel.Props.C04Toy
set_option linter.unusedSectionVars false
namespace Rosu.C02
open Rosu Encode EncodeLines C11 RtTiming Scalar FileRt

section
variable {F P : Type} [Scalar F] [Scalar P] [Cvt P F] [Trig F] [Trig P] {RF : F → Prop} {RP : P → Prop}

/-- **roundtrip_rep_partial** — see the head of this file. `ObjsBack m.general.mode true` : the first object of the block is
parsed in the fresh state, where the forcing rule for `new_combo` applies. -/
theorem roundtrip_rep_partial (L : MapLaws F P RF RP) (E : EpsLaws F) (G : GroupLaws F) (m : Beatmap F P)
    (hm : RepMap RF RP m) (hth : TimelineHyps m.general.mode m.controlPoints) (t : Str) (h : encode m = .ok t) :
    ∃ st : BeatmapState F P, decodeBytes beatmapDecoder (utf8Encode t) = .ok st ∧
      -- the decoder state: record fields, and the hit objects before map-level processing
      RtFile.recView st = RtFile.preservedRecords m ∧
      SliderRt.ObjsBack m.general.mode true m.hitObjects st.hitObjects.core.hitObjects ∧
      st.hitObjects.core.hitObjects.length = m.hitObjects.length ∧
      st.hitObjects.core.curvePoints = [] ∧
      -- the re-decoded map
      ∀ m2 : Beatmap F P, st.finish = .ok m2 →
        (m2.formatVersion = m.formatVersion ∧
         m2.general = RtGeneral.preservedGeneral m.general (RtGeneral.sampleSetOf m.controlPoints) ∧
         m2.editor = m.editor ∧ m2.metadata = RtMetadata.preservedMetadata m.metadata ∧ m2.difficulty = m.difficulty ∧
         m2.events = m.events ∧ m2.colors = RtColours.preservedColors m.colors) ∧
        m2.controlPoints.timingPoints = m.controlPoints.timingPoints ∧
        (∀ u : F,
          (match m.general.mode with
           | .taiko | .mania =>
             ((m2.controlPoints.effectPointAt u).map (·.scrollSpeed)).getD (1 : F) =
               ((m.controlPoints.effectPointAt u).map (·.scrollSpeed)).getD (1 : F)
           | _ =>
             ((m2.controlPoints.difficultyPointAt u).map (·.sliderVelocity)).getD (1 : F) =
               ((m.controlPoints.difficultyPointAt u).map (·.sliderVelocity)).getD (1 : F)) ∧
          ((m2.controlPoints.effectPointAt u).map (·.kiai)).getD false =
            ((m.controlPoints.effectPointAt u).map (·.kiai)).getD false) ∧
        finalizeObjects m.general.mode m.difficulty.sliderMultiplier m2.controlPoints
          (postProcessBreaks m.events.breaks (sortByStartTime st.hitObjects.core.hitObjects) 0) emptyBuffers =
            .ok m2.hitObjects := by
  -- the two list blocks
  obtain ⟨H, hH, sH, _, _, hback⟩ := hitObjects_block L m hm.objects
  obtain ⟨timing, _, htim, _, _⟩ := C04.encode_shape m t h
  obtain ⟨T, hT, sT⟩ := C04.timing_block_shape L.f m hm.timing timing htim
  rw [hT] at htim
  -- the one decode
  have hdec := file_decoded L m hm.records t T H h htim hH sT sH (beatmapDecoder : LineDecoder (BeatmapState F P))
  obtain ⟨hv, _, hcore⟩ := beatmap_state_decoded L m hm.records T H sT sH
  -- the parts, each about its own `∃ st`; all are this state
  obtain ⟨st1, hst1, hrec⟩ := records_roundtrip L.f L.p L.int m hm.records t T H h htim hH sT sH
  obtain ⟨st2, hst2, htl⟩ := timing_roundtrip_file L.f L.p L.int E G m hm.records hm.timing hth t H h hH sH
  have e1 : st1 = runCalls beatmapDecoder (BeatmapState.create m.formatVersion) (recordCalls m T H) := by
    rw [hst1] at hdec; injection hdec
  have e2 : st2 = runCalls beatmapDecoder (BeatmapState.create m.formatVersion) (recordCalls m T H) := by
    rw [hst2] at hdec; injection hdec
  subst e1
  obtain ⟨os, ho, hb, hcp⟩ := hback {} rfl
  have hobjs : (runCalls beatmapDecoder (BeatmapState.create m.formatVersion) (recordCalls m T H)).hitObjects.core.hitObjects = os := by
    rw [hcore, ho]; rfl
  refine ⟨_, hst1, hv, ?_, ?_, ?_, fun m2 h2 => ⟨hrec m2 h2, (htl m2 (e2 ▸ h2)).1, (htl m2 (e2 ▸ h2)).2, ?_⟩⟩
  · rw [hobjs]; exact hb
  · rw [hobjs]; exact SliderRt.ObjsBack.length_eq _ _ _ _ hb
  · rw [hcore]; exact hcp
  · have := finish_hitObjects _ m2 h2
    rw [hv] at this
    exact this

/-- the count clauses of C04 that need the decoder's grouping arithmetic: the re-decoded map has as many timing points
and as many hit objects pushed as the map. -/
theorem roundtrip_rep_counts (L : MapLaws F P RF RP) (E : EpsLaws F) (G : GroupLaws F) (m : Beatmap F P)
    (hm : RepMap RF RP m) (hth : TimelineHyps m.general.mode m.controlPoints) (t : Str) (h : encode m = .ok t) :
    ∃ st : BeatmapState F P, decodeBytes beatmapDecoder (utf8Encode t) = .ok st ∧
      st.hitObjects.core.hitObjects.length = m.hitObjects.length ∧
      ∀ m2 : Beatmap F P, st.finish = .ok m2 →
        m2.controlPoints.timingPoints.length = m.controlPoints.timingPoints.length ∧
        m2.events.breaks.length = m.events.breaks.length := by
  obtain ⟨st, h1, _, _, h4, _, h6⟩ := roundtrip_rep_partial L E G m hm hth t h
  refine ⟨st, h1, h4, fun m2 h2 => ?_⟩
  obtain ⟨⟨_, _, _, _, _, hev, _⟩, htp, _, _⟩ := h6 m2 h2
  rw [htp, hev]
  exact ⟨rfl, rfl⟩

end

/-- what the format carries of a hit object AFTER map-level processing — the hit-object part of the preserved view of
DESIGN 5.2 (sample lists are compared by name and bank in `samples_rt` / `node_samples_rt`). -/
def ObjPreserved {F P : Type} (h o : HitObject F P) : Prop :=
  o.startTime = h.startTime ∧
  match h.kind, o.kind with
  | .circle c, .circle k => k.pos = c.pos ∧ k.newCombo = c.newCombo ∧ k.comboOffset = c.comboOffset
  | .slider s, .slider k =>
    k.pos = s.pos ∧ k.newCombo = s.newCombo ∧ k.comboOffset = s.comboOffset ∧
    k.path.controlPoints = s.path.controlPoints ∧ k.repeatCount = s.repeatCount ∧ k.velocity = s.velocity ∧
    k.nodeSamples.length = s.nodeSamples.length
  | .spinner sp, .spinner k => k.duration = sp.duration ∧ k.newCombo = sp.newCombo
  | .hold ho, .hold k => k.posX = ho.posX ∧ k.duration = ho.duration
  | _, _ => False

/-- the full property for representable decoded maps, NOT a theorem: if a DECODED map happens to satisfy `RepMap` (it need
not: F17, F18, F20) then, in exact arithmetic, the re-decoded map has the same hit objects on the preserved view. What
`roundtrip_rep_partial` leaves open of it is the map-level processing (`finalizeObjects`, `postProcessBreaks`,
`sortByStartTime`) of the re-decoded objects against that of the original decode. -/
def roundtrip_rep_statement : Prop :=
  ∀ (F P : Type) [Scalar F] [Scalar P] [Cvt P F] [Trig F] [Trig P] (RF : F → Prop) (RP : P → Prop),
    MapLaws F P RF RP → EpsLaws F → GroupLaws F →
    ∀ (x : List Str) (m : Beatmap F P) (t : Str) (st2 : BeatmapState F P) (m2 : Beatmap F P),
      (frame beatmapDecoder x : BeatmapState F P).finish = .ok m → RepMap RF RP m →
      TimelineHyps m.general.mode m.controlPoints → encode m = .ok t →
      decodeBytes beatmapDecoder (utf8Encode t) = .ok st2 → st2.finish = .ok m2 →
      m2.hitObjects.length = m.hitObjects.length ∧
      ∀ p ∈ List.zip m.hitObjects m2.hitObjects, ObjPreserved p.1 p.2

/-! ### non-vacuity (toy codec): `C04.toyMap` -/

/-- the control points of the toy map are those of `C04.sampleMap`. -/
theorem toyMap_timeline_hyps : TimelineHyps C04.toyMap.general.mode C04.toyMap.controlPoints := sample_timeline_hyps

/-- every hypothesis of `roundtrip_rep_partial` holds of `C04.toyMap` (mania; two timing points, inherited lines with scroll
speeds 2 and 4 and kiai, a circle, a slider with a two-segment path, a spinner, a hold note). -/
example := roundtrip_rep_partial ZC.mapLaws zc_epsLaws zc_groupLaws C04.toyMap C04.toyMap_rep toyMap_timeline_hyps _ C04.toyMap_lines

end Rosu.C02
