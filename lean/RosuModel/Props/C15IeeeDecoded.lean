/-
  Props/C15IeeeDecoded.lean — property C15 ("the first object after a break starts a new combo") on DECODED maps, for the
  driver's IEEE instance (`F = Float`, `P = Float32`), with the parser facts discharged.

  `C15.first_after_break_new_combo_decoded_float` (Props/C15Ieee.lean) still assumes that the break end times and the
  object start times of the decoder state are not NaN. Both are parser facts, law-free, for every scalar:
  * a stored break has both ends within the parse limit ±(2³¹−1) and not NaN (`DecodedInv.inv_parseEvents`, from
    `floatParse_inLimit`: `parse_with_limits` rejects NaN and out-of-range values; the end is `max start end`, one of the two);
  * the start time of every stored hit object is the `start_time` field of its line, which passed `floatParse`
    (`parseHeader_startTime_inLimit` + `C14.accepted_pushes_one`; a rejected line stores nothing:
    `C14.rejected_keeps_objects`) — `inv_parseHitObjectLine`.
  `TimesInLimit` is the invariant; it holds of the initial state and is kept by every parser call of the `HitObjects` and the
  `Beatmap` decoder on every LF-free line (`timesInLimit_step`), hence of every decoded state
  (`decoded_times_inLimit`, `decoded_times_inLimit_hitObjects`). For IEEE doubles "within the limit and not NaN" is
  "a finite number" (`C12.inRange_finite_float`'s argument).

  Headline: `first_after_break_new_combo_decoded_float'` — whatever bytes are decoded (any encoding, hostile content), if
  the breaks of the decoded state are listed in non-decreasing end-time order (finding F14 without it), the first object
  (in the sorted order) that starts after a break's end carries `new_combo = true` in the finished map, unless it is a hold.
  No hypothesis about numbers is left. Variants: `…_le'` (order stated as `b₁.end <= b₂.end` for consecutive breaks),
  `…_beatmap'` (through `Beatmap`'s finaliser), `…_hitObjects'` (the `HitObjects` decoder), `…_lines'` (a list of LF-free lines).
-/
import RosuModel.Props.C15Ieee
import RosuModel.Props.C14
import RosuModel.Lemmas.DecodedInvFrame
import RosuModel.Lemmas.DecodedInvReader
import RosuModel.Lemmas.RtFile
import RosuModel.Props.C12Ieee
set_option linter.unusedSectionVars false
namespace Rosu.C15
open Rosu DecodedInv

/-! ## 1. the parser facts (law-free, every scalar) -/

section Generic
variable {F P : Type} [Scalar F] [Scalar P] [Cvt P F]

/-- the start time of an accepted header passed `parse_with_limits`: within ±(2³¹−1) and not NaN. -/
theorem parseHeader_startTime_inLimit (line : Str) (hd : Header F P) (h : parseHeader line = some hd) :
    InLimit hd.startTime := by
  unfold parseHeader at h
  repeat' split at h
  all_goals first
    | (cases h; exact floatParse_inLimit (by assumption))
    | cases h

/-- every stored object starts at a time within the parse limit (not NaN). -/
def StartsInLimit (c : HOCore F P) : Prop := ∀ x ∈ c.hitObjects, InLimit x.startTime

/-- **one hit-object line, accepted or rejected, keeps `StartsInLimit`.** -/
theorem inv_parseHitObjectLine (mode : GameMode) (st : HOCore F P) (line : Str) (h : StartsInLimit st) :
    StartsInLimit (parseHitObjectLine mode st line).1 := by
  cases hok : (parseHitObjectLine mode st line).2
  · intro x hx
    rw [(C14.rejected_keeps_objects mode st line hok).1] at hx
    exact h x hx
  · obtain ⟨hd, o, hhd, hobjs, _, hst, _⟩ := C14.accepted_pushes_one mode st line hok
    intro x hx
    rw [hobjs] at hx
    rcases List.mem_append.mp hx with hx | hx
    · exact h x hx
    · rw [List.mem_singleton.mp hx, hst]
      exact parseHeader_startTime_inLimit line hd hhd

/-- **the invariant**: the breaks are as the decoder stores them (both ends within the limit and not NaN, end = `max`), and
every object's start time is within the limit and not NaN. -/
def TimesInLimit (st : HitObjectsState F P) : Prop := DecInvEvents st.events ∧ StartsInLimit st.core

theorem timesInLimit_create : TimesInLimit (HitObjectsState.create : HitObjectsState F P) :=
  ⟨events_create, fun _ h => absurd h List.not_mem_nil⟩

/-- **every parser call of the `HitObjects` decoder keeps the invariant** — any section, any LF-free line. -/
theorem timesInLimit_step (s : Section) (st : HitObjectsState F P) (l : Str) (hl : '\n' ∉ l) (h : TimesInLimit st) :
    TimesInLimit (HitObjectsState.step s st l) := by
  obtain ⟨he, ho⟩ := h
  cases s
  case events => exact ⟨inv_parseEvents _ l hl he, ho⟩
  case hitObjects => exact ⟨he, inv_parseHitObjectLine _ _ l ho⟩
  all_goals exact ⟨he, ho⟩

/-- … and of the `Beatmap` decoder. -/
theorem timesInLimit_beatmap_step (s : Section) (st : BeatmapState F P) (l : Str) (hl : '\n' ∉ l)
    (h : TimesInLimit st.hitObjects) : TimesInLimit (BeatmapState.step s st l).hitObjects := by
  cases s
  case general => exact timesInLimit_step .general _ l hl h
  case difficulty => exact timesInLimit_step .difficulty _ l hl h
  case events => exact timesInLimit_step .events _ l hl h
  case timingPoints => exact timesInLimit_step .timingPoints _ l hl h
  case hitObjects => exact timesInLimit_step .hitObjects _ l hl h
  all_goals exact h

/-- the invariant after framing any list of LF-free lines, `Beatmap` decoder. -/
theorem timesInLimit_frame (ls : List Str) (hls : ∀ l ∈ ls, '\n' ∉ l) :
    TimesInLimit (frame (beatmapDecoder : LineDecoder (BeatmapState F P)) ls).hitObjects :=
  frame_invariant_lines (beatmapDecoder : LineDecoder (BeatmapState F P)) (fun st => TimesInLimit st.hitObjects)
    (fun l => '\n' ∉ l) (fun _ _ => timesInLimit_create) (fun s st l hl h => timesInLimit_beatmap_step s st l hl h) ls hls

/-- the invariant after framing any list of LF-free lines, `HitObjects` decoder. -/
theorem timesInLimit_frame_hitObjects (ls : List Str) (hls : ∀ l ∈ ls, '\n' ∉ l) :
    TimesInLimit (frame (hitObjectsDecoder : LineDecoder (HitObjectsState F P)) ls) :=
  frame_invariant_lines (hitObjectsDecoder : LineDecoder (HitObjectsState F P)) TimesInLimit
    (fun l => '\n' ∉ l) (fun _ _ => timesInLimit_create) (fun s st l hl h => timesInLimit_step s st l hl h) ls hls

/-- **decoded_times_inLimit** — every successfully decoded byte string (any encoding, any content) leaves the `Beatmap`
decoder in a state whose break times and object start times passed `parse_with_limits`: within ±(2³¹−1), not NaN. -/
theorem decoded_times_inLimit (bytes : List UInt8) (st : BeatmapState F P)
    (h : decodeBytes beatmapDecoder bytes = .ok st) :
    (∀ b ∈ st.hitObjects.events.breaks, InLimit b.startTime ∧ InLimit b.endTime) ∧
    (∀ x ∈ st.hitObjects.core.hitObjects, InLimit x.startTime) := by
  obtain ⟨ls, rfl, hls⟩ := decodeBytes_lines _ bytes st h
  have hi := timesInLimit_frame (F := F) (P := P) ls (fun l hl => (hls l hl).1)
  exact ⟨fun b hb => ⟨(hi.1.breaks b hb).start, (hi.1.breaks b hb).stop⟩, hi.2⟩

/-- the same for the `HitObjects` decoder (`HitObjects::from_bytes`). -/
theorem decoded_times_inLimit_hitObjects (bytes : List UInt8) (st : HitObjectsState F P)
    (h : decodeBytes hitObjectsDecoder bytes = .ok st) :
    (∀ b ∈ st.events.breaks, InLimit b.startTime ∧ InLimit b.endTime) ∧
    (∀ x ∈ st.core.hitObjects, InLimit x.startTime) := by
  obtain ⟨ls, rfl, hls⟩ := decodeBytes_lines _ bytes st h
  have hi := timesInLimit_frame_hitObjects (F := F) (P := P) ls (fun l hl => (hls l hl).1)
  exact ⟨fun b hb => ⟨(hi.1.breaks b hb).start, (hi.1.breaks b hb).stop⟩, hi.2⟩

end Generic

/-! ## 2. IEEE doubles: decoded times are finite numbers -/

/-- a double within the parse limit and not NaN is finite. -/
theorem inLimit_finite_float {t : Float} (h : InLimit t) : t.toModel.unpack.isFinite = true :=
  C12.inRange_finite_float (t := t) h

/-- **every break time and every object start time of a decoded state is a finite double.** -/
theorem decoded_times_finite_float (bytes : List UInt8) (st : BeatmapState Float Float32)
    (h : decodeBytes beatmapDecoder bytes = .ok st) :
    (∀ b ∈ st.hitObjects.events.breaks,
      b.startTime.toModel.unpack.isFinite = true ∧ b.endTime.toModel.unpack.isFinite = true) ∧
    (∀ x ∈ st.hitObjects.core.hitObjects, x.startTime.toModel.unpack.isFinite = true) :=
  ⟨fun b hb => ⟨inLimit_finite_float ((decoded_times_inLimit bytes st h).1 b hb).1,
      inLimit_finite_float ((decoded_times_inLimit bytes st h).1 b hb).2⟩,
   fun x hx => inLimit_finite_float ((decoded_times_inLimit bytes st h).2 x hx)⟩

/-! ## 3. the headline: first object after a break, on decoded maps, IEEE doubles -/

/-- **first_after_break_new_combo on a decoder state satisfying the parser invariant** (the common core). -/
theorem first_after_break_new_combo_of_inv [Trig Float32]
    (st : HitObjectsState Float Float32) (hinv : TimesInLimit st)
    (ho : HitObjects Float Float32) (hfin : st.finish = .ok ho)
    (hsorted : st.events.breaks.Pairwise (fun b₁ b₂ => Scalar.lt b₂.endTime b₁.endTime = false))
    (b : BreakPeriod Float) (hb : b ∈ st.events.breaks) (i : Nat) (h : HitObject Float Float32)
    (hi : (sortByStartTime st.core.hitObjects)[i]? = some h)
    (hafter : Scalar.lt b.endTime h.startTime = true)
    (hfirst : ∀ k h', k < i → (sortByStartTime st.core.hitObjects)[k]? = some h' →
      Scalar.lt b.endTime h'.startTime = false)
    (hnh : isHold h.kind = false) :
    ∃ h', ho.hitObjects[i]? = some h' ∧ kindNewCombo h'.kind = true ∧ h'.startTime = h.startTime :=
  first_after_break_new_combo_decoded_float st ho hfin (fun b hb => (hinv.1.breaks b hb).stop.2.2)
    (fun x hx => (hinv.2 x hx).2.2) hsorted b hb i h hi hafter hfirst hnh

/-- **first_after_break_new_combo, on every decoded map, IEEE doubles** — for every byte string the `Beatmap` decoder
accepts (any encoding, any content, with rejected lines): if the `[Events]` breaks of the decoded state are listed in
non-decreasing end-time order — the only hypothesis; finding F14 is what happens without it — then in the finished
`HitObjects` the first object (in the sorted order) that starts after the end of a break `b` carries `new_combo = true`,
unless it is a hold. Nothing is assumed about the numbers: stored break ends and start times passed `parse_with_limits`. -/
theorem first_after_break_new_combo_decoded_float' [Trig Float32]
    (bytes : List UInt8) (bst : BeatmapState Float Float32) (hdec : decodeBytes beatmapDecoder bytes = .ok bst)
    (ho : HitObjects Float Float32) (hfin : bst.hitObjects.finish = .ok ho)
    (hsorted : bst.hitObjects.events.breaks.Pairwise (fun b₁ b₂ => Scalar.lt b₂.endTime b₁.endTime = false))
    (b : BreakPeriod Float) (hb : b ∈ bst.hitObjects.events.breaks) (i : Nat) (h : HitObject Float Float32)
    (hi : (sortByStartTime bst.hitObjects.core.hitObjects)[i]? = some h)
    (hafter : Scalar.lt b.endTime h.startTime = true)
    (hfirst : ∀ k h', k < i → (sortByStartTime bst.hitObjects.core.hitObjects)[k]? = some h' →
      Scalar.lt b.endTime h'.startTime = false)
    (hnh : isHold h.kind = false) :
    ∃ h', ho.hitObjects[i]? = some h' ∧ kindNewCombo h'.kind = true ∧ h'.startTime = h.startTime := by
  obtain ⟨ls, rfl, hls⟩ := decodeBytes_lines _ bytes bst hdec
  exact first_after_break_new_combo_of_inv _ (timesInLimit_frame ls (fun l hl => (hls l hl).1)) ho hfin hsorted
    b hb i h hi hafter hfirst hnh

/-- … with the order of the breaks in its natural reading: `b₁.end <= b₂.end` (IEEE `<=`) for consecutive breaks. -/
theorem first_after_break_new_combo_decoded_float_le' [Trig Float32]
    (bytes : List UInt8) (bst : BeatmapState Float Float32) (hdec : decodeBytes beatmapDecoder bytes = .ok bst)
    (ho : HitObjects Float Float32) (hfin : bst.hitObjects.finish = .ok ho)
    (hcons : ∀ j b₁ b₂, bst.hitObjects.events.breaks[j]? = some b₁ → bst.hitObjects.events.breaks[j + 1]? = some b₂ →
      Scalar.le b₁.endTime b₂.endTime = true)
    (b : BreakPeriod Float) (hb : b ∈ bst.hitObjects.events.breaks) (i : Nat) (h : HitObject Float Float32)
    (hi : (sortByStartTime bst.hitObjects.core.hitObjects)[i]? = some h)
    (hafter : Scalar.lt b.endTime h.startTime = true)
    (hfirst : ∀ k h', k < i → (sortByStartTime bst.hitObjects.core.hitObjects)[k]? = some h' →
      Scalar.lt b.endTime h'.startTime = false)
    (hnh : isHold h.kind = false) :
    ∃ h', ho.hitObjects[i]? = some h' ∧ kindNewCombo h'.kind = true ∧ h'.startTime = h.startTime :=
  first_after_break_new_combo_decoded_float' bytes bst hdec ho hfin
    (pairwise_of_consecutive_le_float _ hcons) b hb i h hi hafter hfirst hnh

/-- … through `Beatmap`'s finaliser: the conclusion about the hit objects of the decoded `Beatmap`. -/
theorem first_after_break_new_combo_decoded_float_beatmap' [Trig Float32]
    (bytes : List UInt8) (bst : BeatmapState Float Float32) (hdec : decodeBytes beatmapDecoder bytes = .ok bst)
    (m : Beatmap Float Float32) (hfin : bst.finish = .ok m)
    (hsorted : bst.hitObjects.events.breaks.Pairwise (fun b₁ b₂ => Scalar.lt b₂.endTime b₁.endTime = false))
    (b : BreakPeriod Float) (hb : b ∈ bst.hitObjects.events.breaks) (i : Nat) (h : HitObject Float Float32)
    (hi : (sortByStartTime bst.hitObjects.core.hitObjects)[i]? = some h)
    (hafter : Scalar.lt b.endTime h.startTime = true)
    (hfirst : ∀ k h', k < i → (sortByStartTime bst.hitObjects.core.hitObjects)[k]? = some h' →
      Scalar.lt b.endTime h'.startTime = false)
    (hnh : isHold h.kind = false) :
    ∃ h', m.hitObjects[i]? = some h' ∧ kindNewCombo h'.kind = true ∧ h'.startTime = h.startTime := by
  unfold BeatmapState.finish at hfin
  simp only [bind, Except.bind, pure, Except.pure] at hfin
  split at hfin
  · cases hfin
  · rename_i ho hho
    cases hfin
    exact first_after_break_new_combo_decoded_float' bytes bst hdec ho hho hsorted b hb i h hi hafter hfirst hnh

/-- … for the `HitObjects` decoder (`HitObjects::from_bytes`). -/
theorem first_after_break_new_combo_decoded_float_hitObjects' [Trig Float32]
    (bytes : List UInt8) (st : HitObjectsState Float Float32) (hdec : decodeBytes hitObjectsDecoder bytes = .ok st)
    (ho : HitObjects Float Float32) (hfin : st.finish = .ok ho)
    (hsorted : st.events.breaks.Pairwise (fun b₁ b₂ => Scalar.lt b₂.endTime b₁.endTime = false))
    (b : BreakPeriod Float) (hb : b ∈ st.events.breaks) (i : Nat) (h : HitObject Float Float32)
    (hi : (sortByStartTime st.core.hitObjects)[i]? = some h)
    (hafter : Scalar.lt b.endTime h.startTime = true)
    (hfirst : ∀ k h', k < i → (sortByStartTime st.core.hitObjects)[k]? = some h' →
      Scalar.lt b.endTime h'.startTime = false)
    (hnh : isHold h.kind = false) :
    ∃ h', ho.hitObjects[i]? = some h' ∧ kindNewCombo h'.kind = true ∧ h'.startTime = h.startTime := by
  obtain ⟨ls, rfl, hls⟩ := decodeBytes_lines _ bytes st hdec
  exact first_after_break_new_combo_of_inv _ (timesInLimit_frame_hitObjects ls (fun l hl => (hls l hl).1)) ho hfin
    hsorted b hb i h hi hafter hfirst hnh

/-- … and for a list of LF-free lines handed to the framing driver (what the reader produces). -/
theorem first_after_break_new_combo_decoded_float_lines' [Trig Float32]
    (ls : List Str) (hls : ∀ l ∈ ls, '\n' ∉ l)
    (ho : HitObjects Float Float32)
    (hfin : (frame (beatmapDecoder : LineDecoder (BeatmapState Float Float32)) ls).hitObjects.finish = .ok ho)
    (hsorted : (frame (beatmapDecoder : LineDecoder (BeatmapState Float Float32)) ls).hitObjects.events.breaks.Pairwise
      (fun b₁ b₂ => Scalar.lt b₂.endTime b₁.endTime = false))
    (b : BreakPeriod Float)
    (hb : b ∈ (frame (beatmapDecoder : LineDecoder (BeatmapState Float Float32)) ls).hitObjects.events.breaks)
    (i : Nat) (h : HitObject Float Float32)
    (hi : (sortByStartTime
      (frame (beatmapDecoder : LineDecoder (BeatmapState Float Float32)) ls).hitObjects.core.hitObjects)[i]? = some h)
    (hafter : Scalar.lt b.endTime h.startTime = true)
    (hfirst : ∀ k h', k < i → (sortByStartTime
      (frame (beatmapDecoder : LineDecoder (BeatmapState Float Float32)) ls).hitObjects.core.hitObjects)[k]? = some h' →
      Scalar.lt b.endTime h'.startTime = false)
    (hnh : isHold h.kind = false) :
    ∃ h', ho.hitObjects[i]? = some h' ∧ kindNewCombo h'.kind = true ∧ h'.startTime = h.startTime :=
  first_after_break_new_combo_of_inv _ (timesInLimit_frame ls hls) ho hfin hsorted b hb i h hi hafter hfirst hnh

/-! ## 4. non-vacuity on a decoded file, and F14 on a decoded file (kernel evaluation of the real parsers) -/

section Examples

/-- `f32` libm for the finaliser (circles never call it; the theorems above hold for every `Trig Float32`). -/
local instance : Trig Float32 := ⟨Float32.sin, Float32.cos, Float32.acos, Float32.atan2, Float32.ofBits 0x40490FDB⟩

/-- two breaks in end-time order, three circles (at 50, 250.25, 260; none with the new-combo flag). -/
def sampleLines : List Str :=
  [str "osu file format v14", str "[Events]", str "2,100,200.5", str "2,300,400", str "[HitObjects]",
   str "10,10,50,1,0", str "20,20,250.25,1,0", str "30,30,260,1,0"]

abbrev sampleState : BeatmapState Float Float32 := frame beatmapDecoder sampleLines

theorem sample_breaks : sampleState.hitObjects.events.breaks.map (fun b => (b.startTime.toBits, b.endTime.toBits)) =
    [((100 : Float).toBits, (200.5 : Float).toBits), ((300 : Float).toBits, (400 : Float).toBits)] := by decide +kernel

theorem sample_starts : sampleState.hitObjects.core.hitObjects.map (fun x => x.startTime.toBits) =
    [(50 : Float).toBits, (250.25 : Float).toBits, (260 : Float).toBits] := by decide +kernel

theorem sample_breaks_len : 0 < sampleState.hitObjects.events.breaks.length := by decide +kernel
theorem sample_objs_len0 : 0 < sampleState.hitObjects.core.hitObjects.length := by decide +kernel
theorem sample_objs_len1 : 1 < sampleState.hitObjects.core.hitObjects.length := by decide +kernel

/-- the objects are listed in start-time order, so the stable sort leaves them alone (`mergeSort` itself is defined by
well-founded recursion and does not evaluate in the kernel). -/
theorem sample_sorted :
    sortByStartTime sampleState.hitObjects.core.hitObjects = sampleState.hitObjects.core.hitObjects :=
  List.mergeSort_of_pairwise (by decide +kernel)

/-- the finaliser succeeds on the sample … -/
theorem sample_finish_ok : sampleState.hitObjects.finish.toOption.isSome = true := by
  unfold HitObjectsState.finish
  simp only []
  rw [sample_sorted]
  decide +kernel

/-- … and every hypothesis of `first_after_break_new_combo_decoded_float_lines'` holds of it (break 0 ends at 200.5, object 1
at 250.25 is the first after it): the object at index 1 of the finished map carries `new_combo`. -/
example (ho : HitObjects Float Float32) (hfin : sampleState.hitObjects.finish = .ok ho) :
    ∃ h', ho.hitObjects[1]? = some h' ∧ kindNewCombo h'.kind = true ∧
      h'.startTime = (sampleState.hitObjects.core.hitObjects[1]'sample_objs_len1).startTime :=
  first_after_break_new_combo_decoded_float_lines' sampleLines (by decide) ho hfin (by decide +kernel)
    (sampleState.hitObjects.events.breaks[0]'sample_breaks_len) (List.getElem_mem _) 1
    (sampleState.hitObjects.core.hitObjects[1]'sample_objs_len1)
    (by rw [sample_sorted]; exact List.getElem?_eq_getElem sample_objs_len1)
    (by decide +kernel)
    (by
      intro k h' hk hk'
      have hk0 : k = 0 := by omega
      subst hk0
      rw [sample_sorted, List.getElem?_eq_getElem sample_objs_len0] at hk'
      cases hk'
      decide +kernel)
    (by decide +kernel)

/-- the same through the bytes: the UTF-8 file of these lines decodes (BOM test, reader, framing driver, section parsers) to
exactly `sampleState` … -/
theorem sample_decodes :
    decodeBytes (beatmapDecoder : LineDecoder (BeatmapState Float Float32))
      (utf8Encode (EncodeLines.unlines sampleLines)) = .ok sampleState := by
  rw [RtFile.decodeBytes_utf8_text _ _ (by decide), EncodeLines.lines_of_unlines _ (by decide)]
  have h : sampleLines.map trimEnd = sampleLines := by decide
  rw [h]

/-- … so `first_after_break_new_combo_decoded_float'` (the statement about decoded BYTES) is not vacuous either. -/
example (ho : HitObjects Float Float32) (hfin : sampleState.hitObjects.finish = .ok ho) :
    ∃ h', ho.hitObjects[1]? = some h' ∧ kindNewCombo h'.kind = true ∧
      h'.startTime = (sampleState.hitObjects.core.hitObjects[1]'sample_objs_len1).startTime :=
  first_after_break_new_combo_decoded_float' _ sampleState sample_decodes ho hfin (by decide +kernel)
    (sampleState.hitObjects.events.breaks[0]'sample_breaks_len) (List.getElem_mem _) 1
    (sampleState.hitObjects.core.hitObjects[1]'sample_objs_len1)
    (by rw [sample_sorted]; exact List.getElem?_eq_getElem sample_objs_len1)
    (by decide +kernel)
    (by
      intro k h' hk hk'
      have hk0 : k = 0 := by omega
      subst hk0
      rw [sample_sorted, List.getElem?_eq_getElem sample_objs_len0] at hk'
      cases hk'
      decide +kernel)
    (by decide +kernel)

/-- the decoded times of the sample are finite doubles (`decoded_times_finite_float` applies). -/
example := decoded_times_finite_float _ sampleState sample_decodes

/-- observation of a finished map: start time (bits) and `new_combo` of every object. -/
def combosOf (r : Outcome (HitObjects Float Float32)) : Option (List (UInt64 × Bool)) :=
  match r with
  | .ok ho => some (ho.hitObjects.map (fun h => (h.startTime.toBits, kindNewCombo h.kind)))
  | .error _ => none

/-- the finished sample: objects at 50 (first object: forced new combo), 250.25 (first after break 0: new combo), 260. -/
theorem sample_combos : combosOf sampleState.hitObjects.finish =
    some [((50 : Float).toBits, true), ((250.25 : Float).toBits, true), ((260 : Float).toBits, false)] := by
  unfold HitObjectsState.finish
  simp only []
  rw [sample_sorted]
  decide +kernel

/-- **finding F14 on a decoded file** (the order hypothesis is necessary): breaks LISTED as `(7464, 8164)`,
`(16954, 17054)`, `(3902, 3902)`, circles at 100 and 4601. The circle at 4601 is the first object after the break ending at
3902, but the pointer walk never looks past the first-listed break (`8164 ≮ 4601`): it is decoded WITHOUT `new_combo`. -/
def f14Lines : List Str :=
  [str "osu file format v14", str "[Events]", str "2,7464,8164", str "2,16954,17054", str "2,3902,3902",
   str "[HitObjects]", str "10,10,100,1,0", str "20,20,4601,1,0"]

/-- the same file with the breaks listed in end-time order. -/
def f14LinesOrdered : List Str :=
  [str "osu file format v14", str "[Events]", str "2,3902,3902", str "2,7464,8164", str "2,16954,17054",
   str "[HitObjects]", str "10,10,100,1,0", str "20,20,4601,1,0"]

theorem f14_sorted :
    sortByStartTime (frame (beatmapDecoder : LineDecoder (BeatmapState Float Float32)) f14Lines).hitObjects.core.hitObjects =
      (frame (beatmapDecoder : LineDecoder (BeatmapState Float Float32)) f14Lines).hitObjects.core.hitObjects :=
  List.mergeSort_of_pairwise (by decide +kernel)

theorem f14Ordered_sorted :
    sortByStartTime
        (frame (beatmapDecoder : LineDecoder (BeatmapState Float Float32)) f14LinesOrdered).hitObjects.core.hitObjects =
      (frame (beatmapDecoder : LineDecoder (BeatmapState Float Float32)) f14LinesOrdered).hitObjects.core.hitObjects :=
  List.mergeSort_of_pairwise (by decide +kernel)

theorem f14_decoded_float :
    combosOf (frame (beatmapDecoder : LineDecoder (BeatmapState Float Float32)) f14Lines).hitObjects.finish =
      some [((100 : Float).toBits, true), ((4601 : Float).toBits, false)] ∧
    combosOf (frame (beatmapDecoder : LineDecoder (BeatmapState Float Float32)) f14LinesOrdered).hitObjects.finish =
      some [((100 : Float).toBits, true), ((4601 : Float).toBits, true)] := by
  constructor
  · unfold HitObjectsState.finish
    simp only []
    rw [f14_sorted]
    decide +kernel
  · unfold HitObjectsState.finish
    simp only []
    rw [f14Ordered_sorted]
    decide +kernel

/-- the breaks of `f14Lines` are NOT in non-decreasing end-time order (the hypothesis of the theorems fails, as it must). -/
theorem f14_not_sorted :
    ¬ (frame (beatmapDecoder : LineDecoder (BeatmapState Float Float32)) f14Lines).hitObjects.events.breaks.Pairwise
      (fun b₁ b₂ => Scalar.lt b₂.endTime b₁.endTime = false) := by decide +kernel

end Examples

end Rosu.C15
