/-
  Props/C13.lean — control-point collections stay ordered and lookups return the active point.
  Theorems only; the model is in Model/ControlPoints.lean.

  Everything here is about the *keys* the code orders by (`Scalar.totalKey`, realising
  `f64::total_cmp`), and uses no arithmetic law: the theorems hold for every `[Scalar F]`, in
  particular for the IEEE instance the driver runs. Finding F8 lives exactly in the gap between
  keys and times: `+0.0` and `-0.0` are equal times (`==`) with different keys (`f8_two_points`).
-/
import RosuModel.Model.ControlPoints
import RosuModel.Lemmas.ToyScalar
namespace Rosu.C13
open Rosu

/-! ## generic part: lists ordered by an `Int` key -/

section Generic
variable {α : Type} {key : α → Int}

/-- strictly increasing keys. -/
def SortedBy (key : α → Int) (l : List α) : Prop := l.Pairwise (fun a b => key a < key b)

/-- the declarative reading of a lookup: the last stored point whose key is `≤ t`. -/
def lastLE (key : α → Int) (t : Int) (l : List α) : Option α :=
  (l.filter (fun p => decide (key p ≤ t))).getLast?

/-- `o` if it is a point, else the first stored point (the `saturating_sub` fallback). -/
def orHead (o : Option α) (l : List α) : Option α :=
  match o with
  | some y => some y
  | none => l.head?

theorem sortedBy_nil : SortedBy key ([] : List α) := List.Pairwise.nil

theorem sortedBy_cons {x : α} {xs : List α} :
    SortedBy key (x :: xs) ↔ (∀ y ∈ xs, key x < key y) ∧ SortedBy key xs := List.pairwise_cons

/-- bounds of the search result (what makes `v[i]` in the Rust lookups panic-free). -/
theorem searchKey_bound (t : Int) (l : List α) :
    match searchKey key t l with
    | .found i => i < l.length
    | .notFound i => i ≤ l.length := by
  induction l with
  | nil => simp [searchKey]
  | cons x xs ih =>
    rw [searchKey]
    by_cases h1 : key x < t
    · simp only [h1, if_true]
      cases h : searchKey key t xs with
      | found i => rw [h] at ih; simpa [SearchRes.shift] using ih
      | notFound i => rw [h] at ih; simpa [SearchRes.shift] using ih
    · by_cases h2 : key x = t <;> simp [h1, h2]

theorem insertOrReplace_nil (p : α) : insertOrReplace key p [] = [p] := by
  simp [insertOrReplace, searchKey]

/-- `insertOrReplace` (search, then `insert`/overwrite by index) as a structural recursion. -/
theorem insertOrReplace_cons (p x : α) (xs : List α) :
    insertOrReplace key p (x :: xs) =
      if key x < key p then x :: insertOrReplace key p xs
      else if key x = key p then p :: xs
      else p :: x :: xs := by
  rw [insertOrReplace, searchKey]
  by_cases h1 : key x < key p
  · simp only [h1, if_true]
    rw [insertOrReplace]
    cases searchKey key (key p) xs <;> simp [SearchRes.shift]
  · by_cases h2 : key x = key p <;> simp [h1, h2]

theorem mem_insertOrReplace {p y : α} {l : List α} (h : y ∈ insertOrReplace key p l) :
    y = p ∨ y ∈ l := by
  induction l with
  | nil => simp [insertOrReplace_nil] at h; exact Or.inl h
  | cons x xs ih =>
    rw [insertOrReplace_cons] at h
    by_cases h1 : key x < key p
    · simp only [h1, if_true, List.mem_cons] at h
      rcases h with h | h
      · exact Or.inr (by simp [h])
      · rcases ih h with h | h
        · exact Or.inl h
        · exact Or.inr (List.mem_cons_of_mem _ h)
    · by_cases h2 : key x = key p
      · rw [if_neg h1, if_pos h2, List.mem_cons] at h
        rcases h with h | h
        · exact Or.inl h
        · exact Or.inr (List.mem_cons_of_mem _ h)
      · rw [if_neg h1, if_neg h2] at h
        simp only [List.mem_cons] at h
        rcases h with h | h | h
        · exact Or.inl h
        · exact Or.inr (by simp [h])
        · exact Or.inr (List.mem_cons_of_mem _ h)

theorem mem_insertOrReplace_self (p : α) (l : List α) : p ∈ insertOrReplace key p l := by
  induction l with
  | nil => simp [insertOrReplace_nil]
  | cons x xs ih =>
    rw [insertOrReplace_cons]
    by_cases h1 : key x < key p
    · simp [h1, ih]
    · by_cases h2 : key x = key p <;> simp [h1, h2]

/-- a stored point with another key survives an `add`. -/
theorem mem_insertOrReplace_of_mem {p y : α} {l : List α} (hy : y ∈ l) (hk : key y ≠ key p) :
    y ∈ insertOrReplace key p l := by
  induction l with
  | nil => cases hy
  | cons x xs ih =>
    rw [insertOrReplace_cons]
    rcases List.mem_cons.mp hy with rfl | hy'
    · by_cases h1 : key y < key p
      · simp [h1]
      · simp [h1, hk]
    · by_cases h1 : key x < key p
      · simp [h1, ih hy']
      · by_cases h2 : key x = key p <;> simp [h1, h2, hy']

/-- insertion / replacement keeps the keys strictly increasing. -/
theorem insertOrReplace_sorted (p : α) {l : List α} (h : SortedBy key l) :
    SortedBy key (insertOrReplace key p l) := by
  induction l with
  | nil => rw [insertOrReplace_nil]; exact List.pairwise_singleton _ _
  | cons x xs ih =>
    rw [insertOrReplace_cons]
    obtain ⟨hx, hxs⟩ := sortedBy_cons.mp h
    by_cases h1 : key x < key p
    · simp only [h1, if_true]
      refine sortedBy_cons.mpr ⟨?_, ih hxs⟩
      intro y hy
      rcases mem_insertOrReplace hy with rfl | hy
      · exact h1
      · exact hx y hy
    · by_cases h2 : key x = key p
      · rw [if_neg h1, if_pos h2]
        refine sortedBy_cons.mpr ⟨?_, hxs⟩
        intro y hy; rw [← h2]; exact hx y hy
      · rw [if_neg h1, if_neg h2]
        have hlt : key p < key x := by omega
        refine sortedBy_cons.mpr ⟨?_, h⟩
        intro y hy
        rcases List.mem_cons.mp hy with rfl | hy
        · exact hlt
        · exact Int.lt_trans hlt (hx y hy)

/-- a strictly sorted list holds at most one point per key. -/
theorem sorted_unique {l : List α} (h : SortedBy key l) {i j : Nat} {a b : α}
    (ha : l[i]? = some a) (hb : l[j]? = some b) (hk : key a = key b) : i = j := by
  induction l generalizing i j with
  | nil => simp at ha
  | cons x xs ih =>
    obtain ⟨hx, hxs⟩ := sortedBy_cons.mp h
    cases i with
    | zero =>
      cases j with
      | zero => rfl
      | succ j =>
        simp at ha hb
        have := hx b (List.mem_of_getElem? hb)
        subst ha; omega
    | succ i =>
      cases j with
      | zero =>
        simp at ha hb
        have := hx a (List.mem_of_getElem? ha)
        subst hb; omega
      | succ j =>
        simp at ha hb
        rw [ih hxs ha hb]

theorem lookupChecked_nil (t : Int) : lookupChecked key t ([] : List α) = none := by
  simp [lookupChecked, searchKey]

/-- `lookupChecked` (search, `checked_sub(1)`, index) as a structural recursion. -/
theorem lookupChecked_cons (t : Int) (x : α) (xs : List α) :
    lookupChecked key t (x :: xs) =
      if key x < t then
        (match lookupChecked key t xs with
         | some y => some y
         | none => some x)
      else if key x = t then some x
      else none := by
  rw [lookupChecked, searchKey]
  by_cases h1 : key x < t
  · simp only [h1, if_true]
    have hb := searchKey_bound (key := key) t xs
    rw [lookupChecked]
    cases h : searchKey key t xs with
    | found i =>
      rw [h] at hb
      simp only [SearchRes.shift, List.getElem?_cons_succ]
      rw [List.getElem?_eq_getElem hb]
    | notFound i =>
      rw [h] at hb
      simp only [SearchRes.shift]
      cases i with
      | zero => simp
      | succ k =>
        have hk : k < xs.length := hb
        simp [List.getElem?_eq_getElem hk]
  · by_cases h2 : key x = t <;> simp [h1, h2]

/-- the saturating lookup differs from the checked one only where the latter finds nothing:
it then answers with the first stored point. -/
theorem lookupSaturating_eq (t : Int) (l : List α) :
    lookupSaturating key t l = orHead (lookupChecked key t l) l := by
  unfold orHead
  have hb := searchKey_bound (key := key) t l
  rw [lookupSaturating, lookupChecked]
  cases h : searchKey key t l with
  | found i =>
    rw [h] at hb
    simp [List.getElem?_eq_getElem hb]
  | notFound i =>
    rw [h] at hb
    cases i with
    | zero => cases l <;> simp
    | succ k =>
      have hk : k < l.length := hb
      simp [List.getElem?_eq_getElem hk]

theorem getLast_cons_or (x : α) (ys : List α) :
    (x :: ys).getLast? = match ys.getLast? with | some y => some y | none => some x := by
  cases ys with
  | nil => rfl
  | cons y ys => simp [List.getLast?_cons_cons]; cases h : (y :: ys).getLast? with
    | none => simp at h
    | some z => rfl

/-- **lookup_spec** (generic): on a strictly sorted list the checked lookup returns the last
stored point whose key is `≤ t`. -/
theorem lookupChecked_spec (t : Int) {l : List α} (h : SortedBy key l) :
    lookupChecked key t l = lastLE key t l := by
  induction l with
  | nil => simp [lookupChecked_nil, lastLE]
  | cons x xs ih =>
    obtain ⟨hx, hxs⟩ := sortedBy_cons.mp h
    rw [lookupChecked_cons, ih hxs]
    unfold lastLE
    by_cases h1 : key x < t
    · have hle : key x ≤ t := by omega
      simp only [h1, if_true, List.filter_cons, hle, decide_true]
      rw [getLast_cons_or]
    · by_cases h2 : key x = t
      · have hnil : xs.filter (fun p => decide (key p ≤ t)) = [] := by
          rw [List.filter_eq_nil_iff]
          intro y hy; have := hx y hy; simp; omega
        have hle : key x ≤ t := by omega
        simp [h1, h2, List.filter_cons, hnil]
      · have hnil : xs.filter (fun p => decide (key p ≤ t)) = [] := by
          rw [List.filter_eq_nil_iff]
          intro y hy; have := hx y hy; simp; omega
        have hle : ¬ key x ≤ t := by omega
        simp [h1, h2, List.filter_cons, hnil, hle]

theorem lookupSaturating_spec (t : Int) {l : List α} (h : SortedBy key l) :
    lookupSaturating key t l = orHead (lastLE key t l) l := by
  rw [lookupSaturating_eq, lookupChecked_spec t h]

/-- before the first stored point the checked lookup finds nothing … -/
theorem lookupChecked_before_first (t : Int) {l : List α} (h : ∀ y ∈ l, t < key y) :
    lookupChecked key t l = none := by
  cases l with
  | nil => exact lookupChecked_nil t
  | cons x xs =>
    have := h x (List.mem_cons_self ..)
    rw [lookupChecked_cons]
    have h1 : ¬ key x < t := by omega
    have h2 : ¬ key x = t := by omega
    simp [h1, h2]

/-- … and the saturating lookup answers with the first stored point. -/
theorem lookupSaturating_before_first (t : Int) {l : List α} (h : ∀ y ∈ l, t < key y) :
    lookupSaturating key t l = l.head? := by
  rw [lookupSaturating_eq, lookupChecked_before_first t h]; rfl

/-- **replace_at_equal_time** (generic): adding at a key that is already stored overwrites exactly
that point and leaves every other point and the length unchanged. -/
theorem insertOrReplace_replace {p : α} {l : List α} (h : SortedBy key l)
    (hex : ∃ q ∈ l, key q = key p) :
    insertOrReplace key p l = l.map (fun x => if key x = key p then p else x) := by
  induction l with
  | nil => obtain ⟨q, hq, _⟩ := hex; cases hq
  | cons x xs ih =>
    obtain ⟨hx, hxs⟩ := sortedBy_cons.mp h
    obtain ⟨q, hq, hqk⟩ := hex
    rw [insertOrReplace_cons]
    by_cases h1 : key x < key p
    · have hne : key x ≠ key p := by omega
      have hq' : q ∈ xs := by
        rcases List.mem_cons.mp hq with rfl | hq'
        · exact absurd hqk hne
        · exact hq'
      simp [h1, hne, ih hxs ⟨q, hq', hqk⟩]
    · by_cases h2 : key x = key p
      · have hid : xs.map (fun x => if key x = key p then p else x) = xs := by
          conv => rhs; rw [← List.map_id xs]
          apply List.map_congr_left
          intro y hy; have := hx y hy
          have : key y ≠ key p := by omega
          simp [this]
        simp [h1, h2, hid]
      · exfalso
        rcases List.mem_cons.mp hq with rfl | hq'
        · exact h2 hqk
        · have := hx q hq'; omega

/-- adding at a key that is not stored yet makes the list one longer. -/
theorem insertOrReplace_length_new {p : α} {l : List α} (hnew : ∀ q ∈ l, key q ≠ key p) :
    (insertOrReplace key p l).length = l.length + 1 := by
  induction l with
  | nil => simp [insertOrReplace_nil]
  | cons x xs ih =>
    rw [insertOrReplace_cons]
    have hx := hnew x (List.mem_cons_self ..)
    by_cases h1 : key x < key p
    · simp [h1, ih (fun q hq => hnew q (List.mem_cons_of_mem _ hq))]
    · simp [h1, hx]

/-- adding beyond the last stored key appends. -/
theorem insertOrReplace_append {p : α} {l : List α} (h : ∀ y ∈ l, key y < key p) :
    insertOrReplace key p l = l ++ [p] := by
  induction l with
  | nil => simp [insertOrReplace_nil]
  | cons x xs ih =>
    rw [insertOrReplace_cons]
    simp [h x (List.mem_cons_self ..), ih (fun y hy => h y (List.mem_cons_of_mem _ hy))]

/-- beyond the last stored key the checked lookup returns the last stored point. -/
theorem lookupChecked_beyond_last {t : Int} {l : List α} (h : ∀ y ∈ l, key y < t) :
    lookupChecked key t l = l.getLast? := by
  induction l with
  | nil => simp [lookupChecked_nil]
  | cons x xs ih =>
    rw [lookupChecked_cons, ih (fun y hy => h y (List.mem_cons_of_mem _ hy)),
      getLast_cons_or]
    simp [h x (List.mem_cons_self ..)]

end Generic

/-! ## the collection -/

section Collection
variable {F : Type} [Scalar F]

/-- all four lists strictly increasing in the `total_cmp` key. -/
structure Sorted (cp : ControlPoints F) : Prop where
  timing : SortedBy TimingPoint.key cp.timingPoints
  difficulty : SortedBy DifficultyPoint.key cp.difficultyPoints
  effect : SortedBy EffectPoint.key cp.effectPoints
  sample : SortedBy SamplePoint.key cp.samplePoints

/-- one call of the public `ControlPoints::add`. -/
inductive Op (F : Type)
  | timing (p : TimingPoint F)
  | difficulty (p : DifficultyPoint F)
  | effect (p : EffectPoint F)
  | sample (p : SamplePoint F)

def apply (cp : ControlPoints F) : Op F → ControlPoints F
  | .timing p => cp.addTiming p
  | .difficulty p => cp.addDifficulty p
  | .effect p => cp.addEffect p
  | .sample p => cp.addSample p

def applyOps (cp : ControlPoints F) (ops : List (Op F)) : ControlPoints F := ops.foldl apply cp

theorem empty_sorted : Sorted (ControlPoints.empty : ControlPoints F) :=
  ⟨sortedBy_nil, sortedBy_nil, sortedBy_nil, sortedBy_nil⟩

theorem add_sorted_timing {cp : ControlPoints F} (h : Sorted cp) (p : TimingPoint F) :
    Sorted (cp.addTiming p) :=
  ⟨insertOrReplace_sorted p h.timing, h.difficulty, h.effect, h.sample⟩

theorem add_sorted_difficulty {cp : ControlPoints F} (h : Sorted cp) (p : DifficultyPoint F) :
    Sorted (cp.addDifficulty p) := by
  unfold ControlPoints.addDifficulty
  split
  · exact h
  · exact ⟨h.timing, insertOrReplace_sorted p h.difficulty, h.effect, h.sample⟩

theorem add_sorted_effect {cp : ControlPoints F} (h : Sorted cp) (p : EffectPoint F) :
    Sorted (cp.addEffect p) := by
  unfold ControlPoints.addEffect
  split
  · exact h
  · exact ⟨h.timing, h.difficulty, insertOrReplace_sorted p h.effect, h.sample⟩

theorem add_sorted_sample {cp : ControlPoints F} (h : Sorted cp) (p : SamplePoint F) :
    Sorted (cp.addSample p) := by
  unfold ControlPoints.addSample
  split
  · exact h
  · exact ⟨h.timing, h.difficulty, h.effect, insertOrReplace_sorted p h.sample⟩

/-- **add_sorted**: one `add` of any kind keeps all four lists strictly sorted. -/
theorem add_sorted {cp : ControlPoints F} (h : Sorted cp) (op : Op F) : Sorted (apply cp op) := by
  cases op with
  | timing p => exact add_sorted_timing h p
  | difficulty p => exact add_sorted_difficulty h p
  | effect p => exact add_sorted_effect h p
  | sample p => exact add_sorted_sample h p

theorem applyOps_sorted {cp : ControlPoints F} (h : Sorted cp) (ops : List (Op F)) :
    Sorted (applyOps cp ops) := by
  induction ops generalizing cp with
  | nil => exact h
  | cons op rest ih => exact ih (add_sorted h op)

/-- **adds_sorted**: every history of `add` calls, in any order, from the empty collection. -/
theorem adds_sorted (ops : List (Op F)) : Sorted (applyOps (ControlPoints.empty : ControlPoints F) ops) :=
  applyOps_sorted empty_sorted ops

/-- **one_per_time**: after any history no list holds two points with the same key. -/
theorem one_per_time (ops : List (Op F)) :
    let cp := applyOps (ControlPoints.empty : ControlPoints F) ops
    (∀ (i j : Nat) (a b : TimingPoint F),
      cp.timingPoints[i]? = some a → cp.timingPoints[j]? = some b → a.key = b.key → i = j) ∧
    (∀ (i j : Nat) (a b : DifficultyPoint F),
      cp.difficultyPoints[i]? = some a → cp.difficultyPoints[j]? = some b → a.key = b.key → i = j) ∧
    (∀ (i j : Nat) (a b : EffectPoint F),
      cp.effectPoints[i]? = some a → cp.effectPoints[j]? = some b → a.key = b.key → i = j) ∧
    (∀ (i j : Nat) (a b : SamplePoint F),
      cp.samplePoints[i]? = some a → cp.samplePoints[j]? = some b → a.key = b.key → i = j) := by
  have h := adds_sorted ops
  exact ⟨fun _ _ _ _ ha hb hk => sorted_unique h.timing ha hb hk,
         fun _ _ _ _ ha hb hk => sorted_unique h.difficulty ha hb hk,
         fun _ _ _ _ ha hb hk => sorted_unique h.effect ha hb hk,
         fun _ _ _ _ ha hb hk => sorted_unique h.sample ha hb hk⟩

/-! ### lookups -/

/-- **lookup_spec**: on a sorted collection each lookup returns the last stored point whose key is
`≤` the key of the probe time; where there is none, timing and sample lookups fall back to the
first stored point, difficulty and effect lookups return nothing. -/
theorem lookup_spec {cp : ControlPoints F} (h : Sorted cp) (t : F) :
    cp.difficultyPointAt t = lastLE DifficultyPoint.key (Scalar.totalKey t) cp.difficultyPoints ∧
    cp.effectPointAt t = lastLE EffectPoint.key (Scalar.totalKey t) cp.effectPoints ∧
    cp.timingPointAt t =
      orHead (lastLE TimingPoint.key (Scalar.totalKey t) cp.timingPoints) cp.timingPoints ∧
    cp.samplePointAt t =
      orHead (lastLE SamplePoint.key (Scalar.totalKey t) cp.samplePoints) cp.samplePoints :=
  ⟨lookupChecked_spec (Scalar.totalKey t) h.difficulty, lookupChecked_spec (Scalar.totalKey t) h.effect,
   lookupSaturating_spec (Scalar.totalKey t) h.timing, lookupSaturating_spec (Scalar.totalKey t) h.sample⟩

/-- **before_first_timing_sample**: before the first stored point these lookups return it. -/
theorem before_first_timing_sample (cp : ControlPoints F) (t : F)
    (ht : ∀ p ∈ cp.timingPoints, Scalar.totalKey t < p.key)
    (hs : ∀ p ∈ cp.samplePoints, Scalar.totalKey t < p.key) :
    cp.timingPointAt t = cp.timingPoints.head? ∧ cp.samplePointAt t = cp.samplePoints.head? :=
  ⟨lookupSaturating_before_first _ ht, lookupSaturating_before_first _ hs⟩

/-- **before_first_difficulty_effect**: before the first stored point these lookups return nothing. -/
theorem before_first_difficulty_effect (cp : ControlPoints F) (t : F)
    (hd : ∀ p ∈ cp.difficultyPoints, Scalar.totalKey t < p.key)
    (he : ∀ p ∈ cp.effectPoints, Scalar.totalKey t < p.key) :
    cp.difficultyPointAt t = none ∧ cp.effectPointAt t = none :=
  ⟨lookupChecked_before_first _ hd, lookupChecked_before_first _ he⟩

/-! ### redundancy, per operation -/

/-- the difficulty point active at the key of `p` (the default when there is none). -/
def activeDifficulty (cp : ControlPoints F) (p : DifficultyPoint F) : DifficultyPoint F :=
  (lastLE DifficultyPoint.key p.key cp.difficultyPoints).getD DifficultyPoint.default

def activeEffect (cp : ControlPoints F) (p : EffectPoint F) : EffectPoint F :=
  (lastLE EffectPoint.key p.key cp.effectPoints).getD EffectPoint.default

/-- for sample points there is no default to compare with. -/
def sampleRedundant (cp : ControlPoints F) (p : SamplePoint F) : Bool :=
  match lastLE SamplePoint.key p.key cp.samplePoints with
  | some e => p.isRedundant e
  | none => false

theorem difficultyExists_eq {cp : ControlPoints F} (h : Sorted cp) (p : DifficultyPoint F) :
    cp.difficultyExists p = p.isRedundant (activeDifficulty cp p) := by
  unfold ControlPoints.difficultyExists activeDifficulty
  rw [(lookup_spec h p.time).1]
  show _ = p.isRedundant ((lastLE DifficultyPoint.key (Scalar.totalKey p.time) _).getD _)
  cases lastLE DifficultyPoint.key (Scalar.totalKey p.time) cp.difficultyPoints <;> rfl

theorem effectExists_eq {cp : ControlPoints F} (h : Sorted cp) (p : EffectPoint F) :
    cp.effectExists p = p.isRedundant (activeEffect cp p) := by
  unfold ControlPoints.effectExists activeEffect
  rw [(lookup_spec h p.time).2.1]
  show _ = p.isRedundant ((lastLE EffectPoint.key (Scalar.totalKey p.time) _).getD _)
  cases lastLE EffectPoint.key (Scalar.totalKey p.time) cp.effectPoints <;> rfl

theorem sampleExists_eq {cp : ControlPoints F} (h : Sorted cp) (p : SamplePoint F) :
    cp.sampleExists p = sampleRedundant cp p := by
  unfold ControlPoints.sampleExists sampleRedundant
  rw [lookupChecked_spec _ h.sample]; rfl

/-- what `add` does with a difficulty point: nothing when it repeats the active point (or the
default), otherwise sorted insert-or-replace; the other lists are never touched. -/
theorem add_difficulty_eq {cp : ControlPoints F} (h : Sorted cp) (p : DifficultyPoint F) :
    cp.addDifficulty p =
      if p.isRedundant (activeDifficulty cp p) then cp
      else { cp with difficultyPoints := insertOrReplace DifficultyPoint.key p cp.difficultyPoints } := by
  rw [ControlPoints.addDifficulty, difficultyExists_eq h]

theorem add_effect_eq {cp : ControlPoints F} (h : Sorted cp) (p : EffectPoint F) :
    cp.addEffect p =
      if p.isRedundant (activeEffect cp p) then cp
      else { cp with effectPoints := insertOrReplace EffectPoint.key p cp.effectPoints } := by
  rw [ControlPoints.addEffect, effectExists_eq h]

theorem add_sample_eq {cp : ControlPoints F} (h : Sorted cp) (p : SamplePoint F) :
    cp.addSample p =
      if sampleRedundant cp p then cp
      else { cp with samplePoints := insertOrReplace SamplePoint.key p cp.samplePoints } := by
  rw [ControlPoints.addSample, sampleExists_eq h]

/-- **add_not_redundant** (difficulty): if the `add` changed the list, the point did not repeat the
point active at its time (the default when none is active); and conversely a non-redundant point
is in the list afterwards. -/
theorem add_not_redundant_difficulty {cp : ControlPoints F} (h : Sorted cp) (p : DifficultyPoint F) :
    ((cp.addDifficulty p).difficultyPoints ≠ cp.difficultyPoints →
        p.isRedundant (activeDifficulty cp p) = false) ∧
    (p.isRedundant (activeDifficulty cp p) = false → p ∈ (cp.addDifficulty p).difficultyPoints) := by
  rw [add_difficulty_eq h]
  cases hr : p.isRedundant (activeDifficulty cp p)
  · exact ⟨fun _ => rfl, fun _ => by simpa using mem_insertOrReplace_self p _⟩
  · exact ⟨fun hne => absurd rfl hne, fun hf => by cases hf⟩

theorem add_not_redundant_effect {cp : ControlPoints F} (h : Sorted cp) (p : EffectPoint F) :
    ((cp.addEffect p).effectPoints ≠ cp.effectPoints →
        p.isRedundant (activeEffect cp p) = false) ∧
    (p.isRedundant (activeEffect cp p) = false → p ∈ (cp.addEffect p).effectPoints) := by
  rw [add_effect_eq h]
  cases hr : p.isRedundant (activeEffect cp p)
  · exact ⟨fun _ => rfl, fun _ => by simpa using mem_insertOrReplace_self p _⟩
  · exact ⟨fun hne => absurd rfl hne, fun hf => by cases hf⟩

/-- **add_not_redundant** (sample): with no active point the sample point is always stored. -/
theorem add_not_redundant_sample {cp : ControlPoints F} (h : Sorted cp) (p : SamplePoint F) :
    ((cp.addSample p).samplePoints ≠ cp.samplePoints → sampleRedundant cp p = false) ∧
    (sampleRedundant cp p = false → p ∈ (cp.addSample p).samplePoints) ∧
    (lastLE SamplePoint.key p.key cp.samplePoints = none → p ∈ (cp.addSample p).samplePoints) := by
  have hnone : lastLE SamplePoint.key p.key cp.samplePoints = none → sampleRedundant cp p = false := by
    intro hn; simp [sampleRedundant, hn]
  rw [add_sample_eq h]
  cases hr : sampleRedundant cp p
  · exact ⟨fun _ => rfl, fun _ => by simpa using mem_insertOrReplace_self p _,
           fun _ => by simpa using mem_insertOrReplace_self p _⟩
  · exact ⟨fun hne => absurd rfl hne, fun hf => (by cases hf),
           fun hn => (by rw [hnone hn] at hr; cases hr)⟩

/-- timing points are never dropped. -/
theorem add_timing_stored (cp : ControlPoints F) (p : TimingPoint F) :
    p ∈ (cp.addTiming p).timingPoints := mem_insertOrReplace_self p _

/-- **replace_at_equal_time**: a timing point added at a stored key overwrites that point only. -/
theorem replace_at_equal_time {cp : ControlPoints F} (h : Sorted cp) (p : TimingPoint F)
    (hex : ∃ q ∈ cp.timingPoints, q.key = p.key) :
    (cp.addTiming p).timingPoints =
      cp.timingPoints.map (fun x => if x.key = p.key then p else x) :=
  insertOrReplace_replace h.timing hex

/-- the same for the three kinds with a redundancy test, when the test lets the point through. -/
theorem replace_at_equal_time_difficulty {cp : ControlPoints F} (h : Sorted cp) (p : DifficultyPoint F)
    (hex : ∃ q ∈ cp.difficultyPoints, q.key = p.key)
    (hr : p.isRedundant (activeDifficulty cp p) = false) :
    (cp.addDifficulty p).difficultyPoints =
      cp.difficultyPoints.map (fun x => if x.key = p.key then p else x) := by
  rw [add_difficulty_eq h, hr]; exact insertOrReplace_replace h.difficulty hex

theorem replace_at_equal_time_effect {cp : ControlPoints F} (h : Sorted cp) (p : EffectPoint F)
    (hex : ∃ q ∈ cp.effectPoints, q.key = p.key)
    (hr : p.isRedundant (activeEffect cp p) = false) :
    (cp.addEffect p).effectPoints =
      cp.effectPoints.map (fun x => if x.key = p.key then p else x) := by
  rw [add_effect_eq h, hr]; exact insertOrReplace_replace h.effect hex

theorem replace_at_equal_time_sample {cp : ControlPoints F} (h : Sorted cp) (p : SamplePoint F)
    (hex : ∃ q ∈ cp.samplePoints, q.key = p.key)
    (hr : sampleRedundant cp p = false) :
    (cp.addSample p).samplePoints =
      cp.samplePoints.map (fun x => if x.key = p.key then p else x) := by
  rw [add_sample_eq h, hr]; exact insertOrReplace_replace h.sample hex

/-- **F8** at model level: two times with different keys — for the IEEE instance `+0.0` and `-0.0`,
which are `==` — give two stored timing points. -/
theorem f8_two_points (p q : TimingPoint F) (hk : p.key ≠ q.key) :
    (((ControlPoints.empty : ControlPoints F).addTiming p).addTiming q).timingPoints.length = 2 := by
  show (insertOrReplace TimingPoint.key q (insertOrReplace TimingPoint.key p [])).length = 2
  rw [insertOrReplace_nil, insertOrReplace_length_new]
  · rfl
  · intro x hx; simp at hx; subst hx; exact hk

end Collection

/-! ## the global reading: "no stored point repeats its predecessor" -/

section Global
variable {α : Type}

/-- no element of the list is redundant w.r.t. its predecessor (`prev` precedes the head). -/
def adjFree (red : α → α → Bool) : Option α → List α → Bool
  | _, [] => true
  | none, x :: xs => adjFree red (some x) xs
  | some q, x :: xs => !red x q && adjFree red (some x) xs

variable {F : Type} [Scalar F]

/-- the global statement: in every list each point differs from its predecessor (the first
difficulty / effect point from the default). -/
def NoAdjacentRedundancy (cp : ControlPoints F) : Prop :=
  adjFree DifficultyPoint.isRedundant (some DifficultyPoint.default) cp.difficultyPoints = true ∧
  adjFree EffectPoint.isRedundant (some EffectPoint.default) cp.effectPoints = true ∧
  adjFree SamplePoint.isRedundant none cp.samplePoints = true

instance (cp : ControlPoints F) : Decidable (NoAdjacentRedundancy cp) := by
  unfold NoAdjacentRedundancy; exact inferInstance

def globalStatement (F : Type) [Scalar F] : Prop :=
  ∀ ops : List (Op F), NoAdjacentRedundancy (applyOps ControlPoints.empty ops)

/-- out of order: `add(t=1, sv=2); add(t=0, sv=2)` — each point differs from the point active at
its own time when it is added (the default), yet afterwards the point at 1 repeats the point at 0. -/
theorem global_no_adjacent_redundancy_false : ¬ globalStatement Z := by
  intro h
  exact absurd (h [.difficulty ⟨⟨1⟩, ⟨2⟩, true⟩, .difficulty ⟨⟨0⟩, ⟨2⟩, true⟩]) (by decide)

/-- non-decreasing is not enough either: `add(0, sv=2); add(1, sv=3); add(1, sv=2)` — the third
point differs from the point active at its time (the one it overwrites) and then repeats `(0, 2)`. -/
theorem repeated_time_adjacent_redundancy :
    ¬ NoAdjacentRedundancy (applyOps (ControlPoints.empty : ControlPoints Z)
      [.difficulty ⟨⟨0⟩, ⟨2⟩, true⟩, .difficulty ⟨⟨1⟩, ⟨3⟩, true⟩, .difficulty ⟨⟨1⟩, ⟨2⟩, true⟩]) := by
  decide

end Global

/-! ## … and true for strictly increasing histories -/

section Chronological
variable {α : Type}

/-- the last element, else `prev`. -/
def lastOr (l : List α) (prev : Option α) : Option α :=
  match l.getLast? with
  | some y => some y
  | none => prev

theorem adjFree_append (red : α → α → Bool) (prev : Option α) (l : List α) (p : α) :
    adjFree red prev (l ++ [p]) =
      (adjFree red prev l && (match lastOr l prev with | some q => !red p q | none => true)) := by
  induction l generalizing prev with
  | nil => cases prev <;> simp [adjFree, lastOr]
  | cons x xs ih =>
    have hl : ∀ pr : Option α, lastOr (x :: xs) pr = lastOr xs (some x) := by
      intro pr; simp only [lastOr, List.getLast?_cons]; cases xs.getLast? <;> rfl
    cases prev with
    | none => simp only [List.cons_append, adjFree, ih, hl]
    | some q => simp only [List.cons_append, adjFree, ih, hl, Bool.and_assoc]

/-- one list, one chronological `add`: the new point is appended, and it differs from the point it
follows because that is the point `add` compared it with. -/
theorem chrono_step (key : α → Int) (red : α → α → Bool) (dflt : Option α) (l : List α) (p : α)
    (hlt : ∀ y ∈ l, key y < key p) (hfree : adjFree red dflt l = true)
    (hnr : (match lastOr l dflt with | some q => red p q | none => false) = false) :
    adjFree red dflt (insertOrReplace key p l) = true := by
  rw [insertOrReplace_append hlt, adjFree_append, hfree]
  cases h : lastOr l dflt with
  | none => rfl
  | some q => rw [h] at hnr; simp only at hnr; simp [hnr]

variable {F : Type} [Scalar F]

def Op.key : Op F → Int
  | .timing p => p.key
  | .difficulty p => p.key
  | .effect p => p.key
  | .sample p => p.key

/-- every stored key is below `b`. -/
structure KeysBelow (cp : ControlPoints F) (b : Int) : Prop where
  t : ∀ p ∈ cp.timingPoints, p.key < b
  d : ∀ p ∈ cp.difficultyPoints, p.key < b
  e : ∀ p ∈ cp.effectPoints, p.key < b
  s : ∀ p ∈ cp.samplePoints, p.key < b

theorem keysBelow_apply {cp : ControlPoints F} {op : Op F} {b : Int}
    (h : KeysBelow cp b) (hop : op.key < b) : KeysBelow (apply cp op) b := by
  cases op with
  | timing p =>
    refine ⟨?_, h.d, h.e, h.s⟩
    intro q hq
    rcases mem_insertOrReplace hq with rfl | hq
    · exact hop
    · exact h.t q hq
  | difficulty p =>
    show KeysBelow (cp.addDifficulty p) b
    unfold ControlPoints.addDifficulty
    split
    · exact h
    · refine ⟨h.t, ?_, h.e, h.s⟩
      intro q hq
      rcases mem_insertOrReplace hq with rfl | hq
      · exact hop
      · exact h.d q hq
  | effect p =>
    show KeysBelow (cp.addEffect p) b
    unfold ControlPoints.addEffect
    split
    · exact h
    · refine ⟨h.t, h.d, ?_, h.s⟩
      intro q hq
      rcases mem_insertOrReplace hq with rfl | hq
      · exact hop
      · exact h.e q hq
  | sample p =>
    show KeysBelow (cp.addSample p) b
    unfold ControlPoints.addSample
    split
    · exact h
    · refine ⟨h.t, h.d, h.e, ?_⟩
      intro q hq
      rcases mem_insertOrReplace hq with rfl | hq
      · exact hop
      · exact h.s q hq

theorem noAdj_apply {cp : ControlPoints F} {op : Op F}
    (hb : KeysBelow cp op.key) (hn : NoAdjacentRedundancy cp) : NoAdjacentRedundancy (apply cp op) := by
  obtain ⟨hd, he, hs⟩ := hn
  cases op with
  | timing p => exact ⟨hd, he, hs⟩
  | difficulty p =>
    show NoAdjacentRedundancy (cp.addDifficulty p)
    unfold ControlPoints.addDifficulty
    split
    · exact ⟨hd, he, hs⟩
    · rename_i hex
      refine ⟨chrono_step _ _ _ _ _ hb.d hd ?_, he, hs⟩
      have hex' : cp.difficultyExists p = false := by simpa using hex
      unfold ControlPoints.difficultyExists ControlPoints.difficultyPointAt at hex'
      rw [show Scalar.totalKey p.time = p.key from rfl, lookupChecked_beyond_last (show ∀ y ∈ cp.difficultyPoints, y.key < p.key from hb.d)] at hex'
      unfold lastOr
      cases hl : cp.difficultyPoints.getLast? <;> rw [hl] at hex' <;> exact hex'
  | effect p =>
    show NoAdjacentRedundancy (cp.addEffect p)
    unfold ControlPoints.addEffect
    split
    · exact ⟨hd, he, hs⟩
    · rename_i hex
      refine ⟨hd, chrono_step _ _ _ _ _ hb.e he ?_, hs⟩
      have hex' : cp.effectExists p = false := by simpa using hex
      unfold ControlPoints.effectExists ControlPoints.effectPointAt at hex'
      rw [show Scalar.totalKey p.time = p.key from rfl, lookupChecked_beyond_last (show ∀ y ∈ cp.effectPoints, y.key < p.key from hb.e)] at hex'
      unfold lastOr
      cases hl : cp.effectPoints.getLast? <;> rw [hl] at hex' <;> exact hex'
  | sample p =>
    show NoAdjacentRedundancy (cp.addSample p)
    unfold ControlPoints.addSample
    split
    · exact ⟨hd, he, hs⟩
    · rename_i hex
      refine ⟨hd, he, chrono_step _ _ _ _ _ hb.s hs ?_⟩
      have hex' : cp.sampleExists p = false := by simpa using hex
      unfold ControlPoints.sampleExists at hex'
      rw [show Scalar.totalKey p.time = p.key from rfl, lookupChecked_beyond_last (show ∀ y ∈ cp.samplePoints, y.key < p.key from hb.s)] at hex'
      unfold lastOr
      cases hl : cp.samplePoints.getLast? <;> rw [hl] at hex' <;> exact hex'

theorem chrono_applyOps (cp : ControlPoints F) (ops : List (Op F))
    (hinc : (ops.map Op.key).Pairwise (· < ·)) (hb : ∀ op ∈ ops, KeysBelow cp op.key)
    (hn : NoAdjacentRedundancy cp) : NoAdjacentRedundancy (applyOps cp ops) := by
  induction ops generalizing cp with
  | nil => exact hn
  | cons op rest ih =>
    rw [List.map_cons, List.pairwise_cons] at hinc
    refine ih (apply cp op) hinc.2 ?_ (noAdj_apply (hb op (List.mem_cons_self ..)) hn)
    intro op' hop'
    exact keysBelow_apply (hb op' (List.mem_cons_of_mem _ hop'))
      (hinc.1 _ (List.mem_map_of_mem hop'))

/-- **chronological_no_adjacent_redundancy**: when the points are added in strictly increasing order of
(the key of) their times, no stored difficulty / effect / sample point repeats its predecessor, and the
first difficulty / effect point does not repeat the default. (Strictness matters:
`repeated_time_adjacent_redundancy`.) -/
theorem chronological_no_adjacent_redundancy (ops : List (Op F))
    (hinc : (ops.map Op.key).Pairwise (· < ·)) :
    NoAdjacentRedundancy (applyOps (ControlPoints.empty : ControlPoints F) ops) := by
  refine chrono_applyOps _ ops hinc ?_ ⟨rfl, rfl, rfl⟩
  intro op _
  exact ⟨fun _ h => (by cases h), fun _ h => (by cases h), fun _ h => (by cases h), fun _ h => (by cases h)⟩

/-- non-vacuity: a strictly increasing history with content. -/
example : (([.difficulty ⟨⟨0⟩, ⟨2⟩, true⟩, .sample ⟨⟨1⟩, .soft, 50, 0⟩, .difficulty ⟨⟨2⟩, ⟨3⟩, true⟩] :
    List (Op Z)).map Op.key).Pairwise (· < ·) := by decide

end Chronological

/-! ## non-vacuity: the hypotheses of the theorems above are satisfiable with content -/

section Examples

def exCp : ControlPoints Z :=
  applyOps ControlPoints.empty
    [.timing ⟨⟨5⟩, ⟨500⟩, false, ⟨4⟩⟩, .difficulty ⟨⟨3⟩, ⟨2⟩, true⟩, .difficulty ⟨⟨1⟩, ⟨3⟩, true⟩,
     .timing ⟨⟨2⟩, ⟨250⟩, false, ⟨4⟩⟩, .sample ⟨⟨4⟩, .soft, 50, 0⟩, .effect ⟨⟨2⟩, true, ⟨1⟩⟩]

example : Sorted exCp := adds_sorted _
example : exCp.timingPoints.length = 2 ∧ exCp.difficultyPoints.length = 2 := by decide
/-- `replace_at_equal_time` has a satisfiable hypothesis. -/
example : ∃ q ∈ exCp.timingPoints, q.key = (⟨⟨5⟩, ⟨100⟩, true, ⟨3⟩⟩ : TimingPoint Z).key :=
  ⟨⟨⟨5⟩, ⟨500⟩, false, ⟨4⟩⟩, by decide, by decide⟩
/-- `before_first_*` have satisfiable hypotheses on a non-empty collection. -/
example : (∀ p ∈ exCp.timingPoints, Scalar.totalKey (⟨0⟩ : Z) < p.key) ∧
    (∀ p ∈ exCp.difficultyPoints, Scalar.totalKey (⟨0⟩ : Z) < p.key) := by decide
/-- `f8_two_points`: two different keys. -/
example : (⟨⟨0⟩, ⟨1⟩, false, ⟨4⟩⟩ : TimingPoint Z).key ≠ (⟨⟨1⟩, ⟨1⟩, false, ⟨4⟩⟩ : TimingPoint Z).key := by decide
/-- a difficulty point that is *not* redundant and one that is. -/
example : (⟨⟨4⟩, ⟨5⟩, true⟩ : DifficultyPoint Z).isRedundant (activeDifficulty exCp ⟨⟨4⟩, ⟨5⟩, true⟩) = false ∧
    (⟨⟨4⟩, ⟨2⟩, true⟩ : DifficultyPoint Z).isRedundant (activeDifficulty exCp ⟨⟨4⟩, ⟨2⟩, true⟩) = true := by decide

end Examples

end Rosu.C13
