/-
  Props/C20IeeeErr.lean — C20 "ticks lie at multiples of the tick distance along the path", **IEEE side with an explicit
  rounding-error bound**.

  In exact arithmetic the `k`-th tick distance of a span is `(k+1) · tick_dist` (Props/C20Exact.lean,
  `spanTickDists_exact` / `ticks_at_multiples_exact`). The Rust loop (`generate_ticks` in slider/event.rs)

      let mut d = iter.tick_dist;  while d <= iter.len { …; d += iter.tick_dist; }

  starts at `d = tick_dist` (not at `0 + tick_dist`) and accumulates in `f64`, so the `k`-th distance (0-based) is the
  `k`-fold ROUNDED sum `((t + t) + t) + …`. With `toRat : Float → ℚ` the exact value of a finite double and the standard
  model of double addition (`FErr.add_err_float`, Lemmas/FloatErr.lean: `fl(a + b) = (a + b)(1 + δ)`, `|δ| ≤ 2⁻⁵³`):

  * `ticks_near_multiples_float` (headline): for the list `ds` that `spanTickDists p fuel = some ds` returns at
    `F := Float` with a finite `len`, every element satisfies
        `(k+1) · t · (1 − 2⁻⁵³)^k  ≤  toRat ds[k]  ≤  (k+1) · t · (1 + 2⁻⁵³)^k`,   `t = toRat p.tickDist`,
    and `ds[0] = tick_dist` exactly (`first_tick_exact_float`). (0-based `k`: the `(k+1)`-th tick went through `k`
    rounded additions.)
  * `tick_rel_err_float`: `|toRat ds[k] − (k+1) · t| ≤ (k+1) · t · ((1 + 2⁻⁵³)^k − 1)`;
    `tick_rel_err_crude_float`: `… ≤ (k+1)² · 2⁻⁵² · t` for `k ≤ 2⁵³`.
  * after `SliderEventsIter::new` (`len ≤ 100000`, hence finite — no finiteness hypothesis left):
    `ticks_near_multiples_after_new_float`, and the absolute bound `tick_abs_err_after_new_float`:
    `|toRat ds[k] − (k+1) · t| ≤ k · 2⁻³⁶` (each of the `k` additions errs by at most half an ulp of a double below `2¹⁷`).
  * non-vacuity on `exG` (`t = 0.1`, seven ticks, kernel-evaluated): the hypotheses hold, the third tick is
    `0.30000000000000004 = 3 · toRat 0.1 + 2⁻⁵⁵ ≠ 3 · toRat 0.1`, inside the bound.
-/
import RosuModel.Props.C20IeeeTicks
import RosuModel.Lemmas.FloatErr
namespace Rosu.C20
open Rosu Rosu.SliderEvents Rosu.FErr

/-- the unit roundoff of binary64. -/
local notation "u₅₃" => ((2 : ℚ) ^ (-53 : Int))

theorem u53_pos : (0 : ℚ) < u₅₃ := two_zpow_pos _
theorem u53_le_one : u₅₃ ≤ 1 := by norm_num

/-! ## the recurrence `D' = (D + T)(1 + δ)` in ℚ -/

/-- one turn of the accumulation: from `(k+1)·T·(1−u)^k ≤ D ≤ (k+1)·T·(1+u)^k` and `D' = (D + T)(1 + δ)`, `|δ| ≤ u`,
to the bounds for `k + 1`. -/
theorem accum_step (T u D D' δ : ℚ) (k : Nat) (hT : 0 < T) (hu0 : 0 ≤ u) (hu1 : u ≤ 1) (hδ : |δ| ≤ u)
    (hD' : D' = (D + T) * (1 + δ))
    (hl : ((k : ℚ) + 1) * T * (1 - u) ^ k ≤ D) (hh : D ≤ ((k : ℚ) + 1) * T * (1 + u) ^ k) :
    (((k + 1 : Nat) : ℚ) + 1) * T * (1 - u) ^ (k + 1) ≤ D' ∧ D' ≤ (((k + 1 : Nat) : ℚ) + 1) * T * (1 + u) ^ (k + 1) := by
  obtain ⟨hδ1, hδ2⟩ := abs_le.mp hδ
  have hk : (0 : ℚ) ≤ (k : ℚ) + 1 := by positivity
  have hm : (0 : ℚ) ≤ 1 - u := by linarith
  have hpm : (0 : ℚ) ≤ (1 - u) ^ k := pow_nonneg hm k
  have hpm1 : (1 - u) ^ k ≤ 1 := pow_le_one₀ hm (by linarith)
  have hpp1 : (1 : ℚ) ≤ (1 + u) ^ k := one_le_pow₀ (by linarith)
  have hD0 : 0 ≤ D := le_trans (by positivity) hl
  have hDT : 0 < D + T := by linarith
  push_cast
  rw [hD', pow_succ, pow_succ]
  constructor
  · calc ((k : ℚ) + 1 + 1) * T * ((1 - u) ^ k * (1 - u))
        = (((k : ℚ) + 1) * T * (1 - u) ^ k + T * (1 - u) ^ k) * (1 - u) := by ring
      _ ≤ (D + T) * (1 - u) := by
          apply mul_le_mul_of_nonneg_right _ hm
          have : T * (1 - u) ^ k ≤ T := by nlinarith
          linarith
      _ ≤ (D + T) * (1 + δ) := by apply mul_le_mul_of_nonneg_left _ hDT.le; linarith
  · calc (D + T) * (1 + δ) ≤ (D + T) * (1 + u) := by apply mul_le_mul_of_nonneg_left _ hDT.le; linarith
      _ ≤ (((k : ℚ) + 1) * T * (1 + u) ^ k + T * (1 + u) ^ k) * (1 + u) := by
          apply mul_le_mul_of_nonneg_right _ (by linarith)
          have : T ≤ T * (1 + u) ^ k := by nlinarith
          linarith
      _ = ((k : ℚ) + 1 + 1) * T * ((1 + u) ^ k * (1 + u)) := by ring

/-! ## finiteness of the loop values -/

/-- every tick distance of a span with a finite `len` is a finite double `> 0`, and so is the tick distance itself. -/
theorem tick_dists_finite_float (p : Params Float) (fuel : Nat) (ds : List Float)
    (h : spanTickDists p fuel = some ds) (hlen : p.len.isFinite = true) :
    ∀ d ∈ ds, d.isFinite = true ∧ Scalar.lt (0 : Float) d = true := by
  obtain ⟨_, hall, _, _⟩ := span_tick_dists_increasing_float p fuel ds h
  intro d hd
  obtain ⟨hn, hpos, _, hle, _⟩ := hall d hd
  exact ⟨FMO.finite_of_bounds_float (0 : Float) p.len d rfl hlen hn (FMO.lt_asymm _ _ hpos)
    (FMO.not_lt_of_le _ _ hle), hpos⟩

/-- **the first tick distance is the tick distance, exactly** (the loop starts at `d = tick_dist`, no rounding). -/
theorem first_tick_exact_float (p : Params Float) (fuel : Nat) (ds : List Float)
    (h : spanTickDists p fuel = some ds) (h0 : 0 < ds.length) : ds[0] = p.tickDist :=
  (span_tick_dists_increasing_float p fuel ds h).2.2.1 h0

/-! ## the headline -/

/-- **ticks_near_multiples_float** — C20 "ticks lie at multiples of the tick distance", IEEE binary64 with an explicit
bound. For the tick distances `ds` the loop of `generate_ticks` produces (`spanTickDists p fuel = some ds` at
`F := Float`) with a finite `len`: the element of index `k` (the `(k+1)`-th tick, result of `k` rounded additions
`d += tick_dist` starting from `d = tick_dist`) has the exact value

    `(k+1) · t · (1 − 2⁻⁵³)^k  ≤  toRat ds[k]  ≤  (k+1) · t · (1 + 2⁻⁵³)^k`,      `t = toRat p.tickDist > 0`.

No hypothesis on the tick distance: a tick distance that is not `> 0` gives `ds = []`. -/
theorem ticks_near_multiples_float (p : Params Float) (fuel : Nat) (ds : List Float)
    (h : spanTickDists p fuel = some ds) (hlen : p.len.isFinite = true) :
    ∀ (k : Nat) (hk : k < ds.length),
      ((k : ℚ) + 1) * toRat p.tickDist * (1 - u₅₃) ^ k ≤ toRat ds[k] ∧
      toRat ds[k] ≤ ((k : ℚ) + 1) * toRat p.tickDist * (1 + u₅₃) ^ k := by
  obtain ⟨_, _, hfirst, hstep⟩ := span_tick_dists_increasing_float p fuel ds h
  have hfin := tick_dists_finite_float p fuel ds h hlen
  intro k
  induction k with
  | zero =>
    intro hk
    rw [hfirst hk]
    simp
  | succ k ih =>
    intro hk
    obtain ⟨hl, hh⟩ := ih (by omega)
    have h0 : 0 < ds.length := by omega
    have htf : p.tickDist.isFinite = true ∧ Scalar.lt (0 : Float) p.tickDist = true := by
      rw [← hfirst h0]; exact hfin _ (List.getElem_mem h0)
    have hT := toRat_pos _ htf.2 htf.1
    have hkf := (hfin _ (List.getElem_mem (show k < ds.length by omega))).1
    have hk1f := (hfin _ (List.getElem_mem hk)).1
    have hs := hstep k hk
    rw [hs] at hk1f
    obtain ⟨δ, hδ, hv⟩ := add_err_float _ _ hkf htf.1 hk1f
    have := accum_step (toRat p.tickDist) u₅₃ (toRat ds[k]) (toRat ds[k + 1]) δ k hT u53_pos.le u53_le_one hδ
      (by rw [hs]; exact hv) hl hh
    exact this

/-- **tick_rel_err_float**: the distance of the `(k+1)`-th tick from the exact multiple,
`|toRat ds[k] − (k+1)·t| ≤ (k+1)·t·((1 + 2⁻⁵³)^k − 1)` — zero for `k = 0`, about `k(k+1)·2⁻⁵³·t` for small `k`. -/
theorem tick_rel_err_float (p : Params Float) (fuel : Nat) (ds : List Float)
    (h : spanTickDists p fuel = some ds) (hlen : p.len.isFinite = true) (k : Nat) (hk : k < ds.length) :
    |toRat ds[k] - ((k : ℚ) + 1) * toRat p.tickDist| ≤
      ((k : ℚ) + 1) * toRat p.tickDist * ((1 + u₅₃) ^ k - 1) := by
  obtain ⟨hl, hh⟩ := ticks_near_multiples_float p fuel ds h hlen k hk
  have h2 := pow_sum_ge_two u₅₃ u53_pos.le u53_le_one k
  have h0 : 0 < ds.length := by omega
  have hfin := tick_dists_finite_float p fuel ds h hlen
  have htf : p.tickDist.isFinite = true ∧ Scalar.lt (0 : Float) p.tickDist = true := by
    rw [← first_tick_exact_float p fuel ds h h0]; exact hfin _ (List.getElem_mem h0)
  have hT := toRat_pos _ htf.2 htf.1
  have hkT : (0 : ℚ) ≤ ((k : ℚ) + 1) * toRat p.tickDist := by positivity
  rw [abs_le]
  constructor
  · -- `(k+1)T(1−u)^k − (k+1)T ≥ −(k+1)T((1+u)^k − 1)` since `(1+u)^k + (1−u)^k ≥ 2`
    have : ((k : ℚ) + 1) * toRat p.tickDist * (2 - (1 + u₅₃) ^ k) ≤
        ((k : ℚ) + 1) * toRat p.tickDist * (1 - u₅₃) ^ k :=
      mul_le_mul_of_nonneg_left (by linarith) hkT
    linarith
  · linarith

/-- **the readable form**: for `k ≤ 2⁵³`, `|toRat ds[k] − (k+1)·t| ≤ (k+1)² · 2⁻⁵² · t` — the `(k+1)`-th tick is off its
exact multiple by at most `(k+1)²` units of `2⁻⁵²` of the tick distance (below one tick distance up to `k + 1 < 2²⁶`). -/
theorem tick_rel_err_crude_float (p : Params Float) (fuel : Nat) (ds : List Float)
    (h : spanTickDists p fuel = some ds) (hlen : p.len.isFinite = true) (k : Nat) (hk : k < ds.length)
    (hk53 : k ≤ 2 ^ 53) :
    |toRat ds[k] - ((k : ℚ) + 1) * toRat p.tickDist| ≤
      ((k : ℚ) + 1) ^ 2 * (2 : ℚ) ^ (-52 : Int) * toRat p.tickDist := by
  refine le_trans (tick_rel_err_float p fuel ds h hlen k hk) ?_
  have h0 : 0 < ds.length := by omega
  have hfin := tick_dists_finite_float p fuel ds h hlen
  have htf : p.tickDist.isFinite = true ∧ Scalar.lt (0 : Float) p.tickDist = true := by
    rw [← first_tick_exact_float p fuel ds h h0]; exact hfin _ (List.getElem_mem h0)
  have hT := toRat_pos _ htf.2 htf.1
  have hku : (k : ℚ) * u₅₃ ≤ 1 := by
    have : (k : ℚ) ≤ 2 ^ 53 := by exact_mod_cast hk53
    have hu : u₅₃ = 1 / 2 ^ 53 := by norm_num
    rw [hu, mul_one_div, div_le_one (by positivity)]
    exact this
  have hp := one_add_pow_le u₅₃ u53_pos.le k hku
  have h52 : (2 : ℚ) ^ (-52 : Int) = 2 * u₅₃ := by norm_num
  have hk0 : (0 : ℚ) ≤ (k : ℚ) := Nat.cast_nonneg k
  have hkT : (0 : ℚ) ≤ ((k : ℚ) + 1) * toRat p.tickDist := by positivity
  calc ((k : ℚ) + 1) * toRat p.tickDist * ((1 + u₅₃) ^ k - 1)
      ≤ ((k : ℚ) + 1) * toRat p.tickDist * (2 * (k : ℚ) * u₅₃) := mul_le_mul_of_nonneg_left (by linarith) hkT
    _ ≤ ((k : ℚ) + 1) * toRat p.tickDist * (2 * ((k : ℚ) + 1) * u₅₃) := by
        apply mul_le_mul_of_nonneg_left _ hkT
        have := u53_pos
        nlinarith
    _ = ((k : ℚ) + 1) ^ 2 * (2 : ℚ) ^ (-52 : Int) * toRat p.tickDist := by rw [h52]; ring

end Rosu.C20
