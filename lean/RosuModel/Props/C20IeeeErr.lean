/-
  Props/C20IeeeErr.lean — C20 "ticks lie at multiples of the tick distance along the path", **IEEE side with an explicit
  rounding-error bound**.

  In exact arithmetic the `k`-th tick distance of a span is `(k+1) · tick_dist` (Props/C20Exact.lean,
  `spanTickDists_exact` / `ticks_at_multiples_exact`). The Rust loop (`generate_ticks` in slider/event.rs)

      let mut d = iter.tick_dist;  while d <= iter.len { …; d += iter.tick_dist; }

  starts at `d = tick_dist` (not at `0 + tick_dist`) and accumulates in `f64`, so the `k`-th distance (0-based) is the
  `k`-fold ROUNDED sum `((t + t) + t) + …`. With `toRat : Float → ℚ` the exact value of a finite double and the standard
  model of double addition (`FErr.add_err_float`, Lemmas/FloatErr.lean: `fl(a + b) = (a + b)(1 + δ)`, `|δ| ≤ 2⁻⁵³`):

  * `ticks_near_multiples_float` (headline): for the list `ds` that `spanTickDists p fuel = some ds` returns at
    `F := Float` with a finite `len`, every element satisfies
        `(k+1) · t · (1 − 2⁻⁵³)^k  ≤  toRat ds[k]  ≤  (k+1) · t · (1 + 2⁻⁵³)^k`,   `t = toRat p.tickDist`,
    and `ds[0] = tick_dist` exactly (`first_tick_exact_float`). (0-based `k`: the `(k+1)`-th tick went through `k`
    rounded additions.)
  * `tick_rel_err_float`: `|toRat ds[k] − (k+1) · t| ≤ (k+1) · t · ((1 + 2⁻⁵³)^k − 1)`;
    `tick_rel_err_crude_float`: `… ≤ (k+1)² · 2⁻⁵² · t` for `k ≤ 2⁵³`.
  * after `SliderEventsIter::new` (`len ≤ 100000`, hence finite — no finiteness hypothesis left):
    `ticks_near_multiples_after_new_float`, and the absolute bound `tick_abs_err_after_new_float`:
    `|toRat ds[k] − (k+1) · t| ≤ k · 2⁻³⁶` (each of the `k` additions errs by at most half an ulp of a double below `2¹⁷`).
  * non-vacuity on `exG` (`t = 0.1`, seven ticks, kernel-evaluated): the hypotheses hold, the third tick is
    `0.30000000000000004 = 3 · toRat 0.1 + 2⁻⁵⁵ ≠ 3 · toRat 0.1`, inside the bound.
-/
import RosuModel.Props.C20IeeeTicks
import RosuModel.Lemmas.FloatErr
namespace Rosu.C20
open Rosu Rosu.SliderEvents Rosu.FErr

/-- the unit roundoff of binary64. -/
local notation "u₅₃" => ((2 : ℚ) ^ (-53 : Int))

theorem u53_pos : (0 : ℚ) < u₅₃ := two_zpow_pos _
theorem u53_le_one : u₅₃ ≤ 1 := by norm_num

/-! ## the recurrence `D' = (D + T)(1 + δ)` in ℚ -/

/-- one turn of the accumulation: from `(k+1)·T·(1−u)^k ≤ D ≤ (k+1)·T·(1+u)^k` and `D' = (D + T)(1 + δ)`, `|δ| ≤ u`,
to the bounds for `k + 1`. -/
theorem accum_step (T u D D' δ : ℚ) (k : Nat) (hT : 0 < T) (hu0 : 0 ≤ u) (hu1 : u ≤ 1) (hδ : |δ| ≤ u)
    (hD' : D' = (D + T) * (1 + δ))
    (hl : ((k : ℚ) + 1) * T * (1 - u) ^ k ≤ D) (hh : D ≤ ((k : ℚ) + 1) * T * (1 + u) ^ k) :
    (((k + 1 : Nat) : ℚ) + 1) * T * (1 - u) ^ (k + 1) ≤ D' ∧ D' ≤ (((k + 1 : Nat) : ℚ) + 1) * T * (1 + u) ^ (k + 1) := by
  obtain ⟨hδ1, hδ2⟩ := abs_le.mp hδ
  have hk : (0 : ℚ) ≤ (k : ℚ) + 1 := by positivity
  have hm : (0 : ℚ) ≤ 1 - u := by linarith
  have hpm : (0 : ℚ) ≤ (1 - u) ^ k := pow_nonneg hm k
  have hpm1 : (1 - u) ^ k ≤ 1 := pow_le_one₀ hm (by linarith)
  have hpp1 : (1 : ℚ) ≤ (1 + u) ^ k := one_le_pow₀ (by linarith)
  have hD0 : 0 ≤ D := le_trans (by positivity) hl
  have hDT : 0 < D + T := by linarith
  push_cast
  rw [hD', pow_succ, pow_succ]
  constructor
  · calc ((k : ℚ) + 1 + 1) * T * ((1 - u) ^ k * (1 - u))
        = (((k : ℚ) + 1) * T * (1 - u) ^ k + T * (1 - u) ^ k) * (1 - u) := by ring
      _ ≤ (D + T) * (1 - u) := by
          apply mul_le_mul_of_nonneg_right _ hm
          have : T * (1 - u) ^ k ≤ T := by nlinarith
          linarith
      _ ≤ (D + T) * (1 + δ) := by apply mul_le_mul_of_nonneg_left _ hDT.le; linarith
  · calc (D + T) * (1 + δ) ≤ (D + T) * (1 + u) := by apply mul_le_mul_of_nonneg_left _ hDT.le; linarith
      _ ≤ (((k : ℚ) + 1) * T * (1 + u) ^ k + T * (1 + u) ^ k) * (1 + u) := by
          apply mul_le_mul_of_nonneg_right _ (by linarith)
          have : T ≤ T * (1 + u) ^ k := by nlinarith
          linarith
      _ = ((k : ℚ) + 1 + 1) * T * ((1 + u) ^ k * (1 + u)) := by ring

/-! ## finiteness of the loop values -/

/-- every tick distance of a span with a finite `len` is a finite double `> 0`, and so is the tick distance itself. -/
theorem tick_dists_finite_float (p : Params Float) (fuel : Nat) (ds : List Float)
    (h : spanTickDists p fuel = some ds) (hlen : p.len.isFinite = true) :
    ∀ d ∈ ds, d.isFinite = true ∧ Scalar.lt (0 : Float) d = true := by
  obtain ⟨_, hall, _, _⟩ := span_tick_dists_increasing_float p fuel ds h
  intro d hd
  obtain ⟨hn, hpos, _, hle, _⟩ := hall d hd
  exact ⟨FMO.finite_of_bounds_float (0 : Float) p.len d rfl hlen hn (FMO.lt_asymm _ _ hpos)
    (FMO.not_lt_of_le _ _ hle), hpos⟩

/-- **the first tick distance is the tick distance, exactly** (the loop starts at `d = tick_dist`, no rounding). -/
theorem first_tick_exact_float (p : Params Float) (fuel : Nat) (ds : List Float)
    (h : spanTickDists p fuel = some ds) (h0 : 0 < ds.length) : ds[0] = p.tickDist :=
  (span_tick_dists_increasing_float p fuel ds h).2.2.1 h0

/-! ## the headline -/

/-- **ticks_near_multiples_float** — C20 "ticks lie at multiples of the tick distance", IEEE binary64 with an explicit
bound. For the tick distances `ds` the loop of `generate_ticks` produces (`spanTickDists p fuel = some ds` at
`F := Float`) with a finite `len`: the element of index `k` (the `(k+1)`-th tick, result of `k` rounded additions
`d += tick_dist` starting from `d = tick_dist`) has the exact value

    `(k+1) · t · (1 − 2⁻⁵³)^k  ≤  toRat ds[k]  ≤  (k+1) · t · (1 + 2⁻⁵³)^k`,      `t = toRat p.tickDist > 0`.

No hypothesis on the tick distance: a tick distance that is not `> 0` gives `ds = []`. -/
theorem ticks_near_multiples_float (p : Params Float) (fuel : Nat) (ds : List Float)
    (h : spanTickDists p fuel = some ds) (hlen : p.len.isFinite = true) :
    ∀ (k : Nat) (hk : k < ds.length),
      ((k : ℚ) + 1) * toRat p.tickDist * (1 - u₅₃) ^ k ≤ toRat ds[k] ∧
      toRat ds[k] ≤ ((k : ℚ) + 1) * toRat p.tickDist * (1 + u₅₃) ^ k := by
  obtain ⟨_, _, hfirst, hstep⟩ := span_tick_dists_increasing_float p fuel ds h
  have hfin := tick_dists_finite_float p fuel ds h hlen
  intro k
  induction k with
  | zero =>
    intro hk
    rw [hfirst hk]
    simp
  | succ k ih =>
    intro hk
    obtain ⟨hl, hh⟩ := ih (by omega)
    have h0 : 0 < ds.length := by omega
    have htf : p.tickDist.isFinite = true ∧ Scalar.lt (0 : Float) p.tickDist = true := by
      rw [← hfirst h0]; exact hfin _ (List.getElem_mem h0)
    have hT := toRat_pos _ htf.2 htf.1
    have hkf := (hfin _ (List.getElem_mem (show k < ds.length by omega))).1
    have hk1f := (hfin _ (List.getElem_mem hk)).1
    have hs := hstep k hk
    rw [hs] at hk1f
    obtain ⟨δ, hδ, hv⟩ := add_err_float _ _ hkf htf.1 hk1f
    have := accum_step (toRat p.tickDist) u₅₃ (toRat ds[k]) (toRat ds[k + 1]) δ k hT u53_pos.le u53_le_one hδ
      (by rw [hs]; exact hv) hl hh
    exact this

/-- **tick_rel_err_float**: the distance of the `(k+1)`-th tick from the exact multiple,
`|toRat ds[k] − (k+1)·t| ≤ (k+1)·t·((1 + 2⁻⁵³)^k − 1)` — zero for `k = 0`, about `k(k+1)·2⁻⁵³·t` for small `k`. -/
theorem tick_rel_err_float (p : Params Float) (fuel : Nat) (ds : List Float)
    (h : spanTickDists p fuel = some ds) (hlen : p.len.isFinite = true) (k : Nat) (hk : k < ds.length) :
    |toRat ds[k] - ((k : ℚ) + 1) * toRat p.tickDist| ≤
      ((k : ℚ) + 1) * toRat p.tickDist * ((1 + u₅₃) ^ k - 1) := by
  obtain ⟨hl, hh⟩ := ticks_near_multiples_float p fuel ds h hlen k hk
  have h2 := pow_sum_ge_two u₅₃ u53_pos.le u53_le_one k
  have h0 : 0 < ds.length := by omega
  have hfin := tick_dists_finite_float p fuel ds h hlen
  have htf : p.tickDist.isFinite = true ∧ Scalar.lt (0 : Float) p.tickDist = true := by
    rw [← first_tick_exact_float p fuel ds h h0]; exact hfin _ (List.getElem_mem h0)
  have hT := toRat_pos _ htf.2 htf.1
  have hkT : (0 : ℚ) ≤ ((k : ℚ) + 1) * toRat p.tickDist := by positivity
  rw [abs_le]
  constructor
  · -- `(k+1)T(1−u)^k − (k+1)T ≥ −(k+1)T((1+u)^k − 1)` since `(1+u)^k + (1−u)^k ≥ 2`
    have : ((k : ℚ) + 1) * toRat p.tickDist * (2 - (1 + u₅₃) ^ k) ≤
        ((k : ℚ) + 1) * toRat p.tickDist * (1 - u₅₃) ^ k :=
      mul_le_mul_of_nonneg_left (by linarith) hkT
    linarith
  · linarith

/-- **the readable form**: for `k ≤ 2⁵³`, `|toRat ds[k] − (k+1)·t| ≤ (k+1)² · 2⁻⁵² · t` — the `(k+1)`-th tick is off its
exact multiple by at most `(k+1)²` units of `2⁻⁵²` of the tick distance (below one tick distance up to `k + 1 < 2²⁶`). -/
theorem tick_rel_err_crude_float (p : Params Float) (fuel : Nat) (ds : List Float)
    (h : spanTickDists p fuel = some ds) (hlen : p.len.isFinite = true) (k : Nat) (hk : k < ds.length)
    (hk53 : k ≤ 2 ^ 53) :
    |toRat ds[k] - ((k : ℚ) + 1) * toRat p.tickDist| ≤
      ((k : ℚ) + 1) ^ 2 * (2 : ℚ) ^ (-52 : Int) * toRat p.tickDist := by
  refine le_trans (tick_rel_err_float p fuel ds h hlen k hk) ?_
  have h0 : 0 < ds.length := by omega
  have hfin := tick_dists_finite_float p fuel ds h hlen
  have htf : p.tickDist.isFinite = true ∧ Scalar.lt (0 : Float) p.tickDist = true := by
    rw [← first_tick_exact_float p fuel ds h h0]; exact hfin _ (List.getElem_mem h0)
  have hT := toRat_pos _ htf.2 htf.1
  have hku : (k : ℚ) * u₅₃ ≤ 1 := by
    have : (k : ℚ) ≤ 2 ^ 53 := by exact_mod_cast hk53
    have hu : u₅₃ = 1 / 2 ^ 53 := by norm_num
    rw [hu, mul_one_div, div_le_one (by positivity)]
    exact this
  have hp := one_add_pow_le u₅₃ u53_pos.le k hku
  have h52 : (2 : ℚ) ^ (-52 : Int) = 2 * u₅₃ := by norm_num
  have hk0 : (0 : ℚ) ≤ (k : ℚ) := Nat.cast_nonneg k
  have hkT : (0 : ℚ) ≤ ((k : ℚ) + 1) * toRat p.tickDist := by positivity
  calc ((k : ℚ) + 1) * toRat p.tickDist * ((1 + u₅₃) ^ k - 1)
      ≤ ((k : ℚ) + 1) * toRat p.tickDist * (2 * (k : ℚ) * u₅₃) := mul_le_mul_of_nonneg_left (by linarith) hkT
    _ ≤ ((k : ℚ) + 1) * toRat p.tickDist * (2 * ((k : ℚ) + 1) * u₅₃) := by
        apply mul_le_mul_of_nonneg_left _ hkT
        have := u53_pos
        nlinarith
    _ = ((k : ℚ) + 1) ^ 2 * (2 : ℚ) ^ (-52 : Int) * toRat p.tickDist := by rw [h52]; ring

/-! ## after `SliderEventsIter::new`: `len ≤ 100000`, no finiteness hypothesis left, and an absolute bound -/

/-- the `len` a successful `SliderEventsIter::new` leaves is a finite double (`0 ≤ len ≤ 100000`). -/
theorem len_finite_after_new_float {start dur vel td total : Float} {n : Int} {p : Params Float}
    (hnew : Params.new start dur vel td total n = some p) : p.len.isFinite = true := by
  obtain ⟨h0, h1, _, _⟩ := new_clamps_float hnew
  exact FMO.finite_of_bounds_float (0 : Float) (100000 : Float) p.len rfl (by decide +kernel)
    (FMO.not_nan_of_le h0).2 (FMO.not_lt_of_le _ _ h0) (FMO.not_lt_of_le _ _ h1)

/-- **ticks_near_multiples_float for every input `SliderEventsIter::new` accepts** (the clamp `len ≤ 100000` makes
every loop value finite): `(k+1)·t·(1 − 2⁻⁵³)^k ≤ toRat ds[k] ≤ (k+1)·t·(1 + 2⁻⁵³)^k`. -/
theorem ticks_near_multiples_after_new_float {start dur vel td total : Float} {n : Int} {p : Params Float}
    (hnew : Params.new start dur vel td total n = some p) (fuel : Nat) (ds : List Float)
    (h : spanTickDists p fuel = some ds) (k : Nat) (hk : k < ds.length) :
    ((k : ℚ) + 1) * toRat p.tickDist * (1 - u₅₃) ^ k ≤ toRat ds[k] ∧
    toRat ds[k] ≤ ((k : ℚ) + 1) * toRat p.tickDist * (1 + u₅₃) ^ k :=
  ticks_near_multiples_float p fuel ds h (len_finite_after_new_float hnew) k hk

theorem unpack_100000 :
    (100000 : Float).toModel.unpack = .finite .positive (100000 * 2 ^ 36) (-36) (by decide) := by
  have : (100000 : Float) = Float.ofBits 0x40F86A0000000000 := by decide +kernel
  rw [this, FM.float_unpack_ofBits _ (by decide)]
  rfl

theorem toRat_100000 : toRat (100000 : Float) = 100000 := by
  rw [toRat_of_unpack unpack_100000]
  norm_num [sgnQ]

/-- one turn of the accumulation, absolute form: the new error is the old one plus at most `2⁻⁵³·(D + T)`, and
`D + T ≤ 100000 / (1 − 2⁻⁵³) < 2¹⁷` because the rounded sum is `≤ 100000`. -/
theorem abs_step (T D D' δ : ℚ) (k : Nat) (hS : 0 < D + T) (hδ : |δ| ≤ u₅₃) (hD' : D' = (D + T) * (1 + δ))
    (hB : D' ≤ 100000) (hE : |D - ((k : ℚ) + 1) * T| ≤ (k : ℚ) * (2 : ℚ) ^ (-36 : Int)) :
    |D' - (((k + 1 : Nat) : ℚ) + 1) * T| ≤ ((k + 1 : Nat) : ℚ) * (2 : ℚ) ^ (-36 : Int) := by
  obtain ⟨hδ1, hδ2⟩ := abs_le.mp hδ
  have hu : u₅₃ = 1 / 2 ^ 53 := by norm_num
  have h36 : (2 : ℚ) ^ (-36 : Int) = 1 / 2 ^ 36 := by norm_num
  rw [hu] at hδ hδ1 hδ2
  rw [h36] at hE ⊢
  -- `S·(1 − u) ≤ S·(1 + δ) ≤ 100000`, hence `u·S ≤ 2⁻³⁶`
  have hS1 : (D + T) * (1 - 1 / 2 ^ 53) ≤ 100000 := by
    have : (D + T) * (1 - 1 / 2 ^ 53) ≤ (D + T) * (1 + δ) := mul_le_mul_of_nonneg_left (by linarith) hS.le
    linarith
  have hSu : (1 / 2 ^ 53 : ℚ) * (D + T) ≤ 1 / 2 ^ 36 := by
    have hS2 : D + T ≤ 100000 / (1 - 1 / 2 ^ 53) := by
      rw [le_div_iff₀ (by norm_num)]; exact hS1
    have : (1 / 2 ^ 53 : ℚ) * (100000 / (1 - 1 / 2 ^ 53)) ≤ 1 / 2 ^ 36 := by norm_num
    calc (1 / 2 ^ 53 : ℚ) * (D + T) ≤ (1 / 2 ^ 53 : ℚ) * (100000 / (1 - 1 / 2 ^ 53)) :=
          mul_le_mul_of_nonneg_left hS2 (by norm_num)
      _ ≤ 1 / 2 ^ 36 := this
  have hδS : |δ * (D + T)| ≤ 1 / 2 ^ 36 := by
    rw [abs_mul, abs_of_pos hS]
    exact le_trans (mul_le_mul_of_nonneg_right hδ hS.le) hSu
  have e : D' - (((k + 1 : Nat) : ℚ) + 1) * T = (D - ((k : ℚ) + 1) * T) + δ * (D + T) := by
    rw [hD']; push_cast; ring
  rw [e]
  calc |(D - ((k : ℚ) + 1) * T) + δ * (D + T)| ≤ |D - ((k : ℚ) + 1) * T| + |δ * (D + T)| := abs_add_le _ _
    _ ≤ (k : ℚ) * (1 / 2 ^ 36) + 1 / 2 ^ 36 := add_le_add hE hδS
    _ = ((k + 1 : Nat) : ℚ) * (1 / 2 ^ 36) := by push_cast; ring

/-- **absolute bound after `new`**: every tick distance is a double `≤ 100000 < 2¹⁷`, so each of the `k` rounded
additions errs by at most `2⁻³⁶` (half an ulp there is `2⁻³⁷`; the cruder constant needs no case analysis):

    `|toRat ds[k] − (k+1)·t| ≤ k · 2⁻³⁶`      (osu!pixels, whatever the tick distance). -/
theorem tick_abs_err_after_new_float {start dur vel td total : Float} {n : Int} {p : Params Float}
    (hnew : Params.new start dur vel td total n = some p) (fuel : Nat) (ds : List Float)
    (h : spanTickDists p fuel = some ds) :
    ∀ (k : Nat) (hk : k < ds.length),
      |toRat ds[k] - ((k : ℚ) + 1) * toRat p.tickDist| ≤ (k : ℚ) * (2 : ℚ) ^ (-36 : Int) := by
  obtain ⟨_, _, hfirst, hstep⟩ := span_tick_dists_increasing_float p fuel ds h
  have hlen := len_finite_after_new_float hnew
  have hfin := tick_dists_finite_float p fuel ds h hlen
  obtain ⟨_, hall⟩ := ticks_after_new_float hnew fuel ds h
  intro k
  induction k with
  | zero => intro hk; rw [hfirst hk]; simp
  | succ k ih =>
    intro hk
    have hE := ih (by omega)
    have h0 : 0 < ds.length := by omega
    have htf : p.tickDist.isFinite = true ∧ Scalar.lt (0 : Float) p.tickDist = true := by
      rw [← hfirst h0]; exact hfin _ (List.getElem_mem h0)
    have hT := toRat_pos _ htf.2 htf.1
    obtain ⟨hkf, hkpos⟩ := hfin _ (List.getElem_mem (show k < ds.length by omega))
    have hD := toRat_pos _ hkpos hkf
    have hk1f := (hfin _ (List.getElem_mem hk)).1
    have hB : toRat ds[k + 1] ≤ 100000 := by
      rw [← toRat_100000]
      exact toRat_le_of_le _ _ hk1f (by decide +kernel) (hall _ (List.getElem_mem hk)).2.2.1
    have hs := hstep k hk
    have hk1f' := hk1f
    rw [hs] at hk1f'
    obtain ⟨δ, hδ, hv⟩ := add_err_float _ _ hkf htf.1 hk1f'
    exact abs_step (toRat p.tickDist) (toRat ds[k]) (toRat ds[k + 1]) δ k (by linarith) hδ
      (by rw [hs]; exact hv) hB hE

/-! ## non-vacuity: `t = 0.1` (kernel-evaluated) -/

section Examples
open Float.Model Float.Model.UnpackedFloat

/-- the seven tick distances of `exG` (Props/C20IeeeTicks.lean: `tick_dist = 0.1`, `len = 1`, `min_dist = 0.25`):
`0.1, 0.2, 0.30000000000000004, 0.4, 0.5, 0.6, 0.7` minus an ulp …, as bit patterns. -/
def exGds : List Float :=
  [Float.ofBits 0x3FB999999999999A, Float.ofBits 0x3FC999999999999A, Float.ofBits 0x3FD3333333333334,
   Float.ofBits 0x3FD999999999999A, Float.ofBits 0x3FE0000000000000, Float.ofBits 0x3FE3333333333333,
   Float.ofBits 0x3FE6666666666666]

/-- the hypotheses of `ticks_near_multiples_float` / `…_after_new_float` on closed doubles. -/
theorem exG_run : spanTickDists exG 20 = some exGds := by decide +kernel
theorem exG_len_finite : exG.len.isFinite = true := by decide +kernel
theorem exG_new : Params.new (0 : Float) 1000 0.025 0.1 1 1 = some exG := by decide +kernel

/-- the headline on the third tick of `exG` (`k = 2`, two rounded additions). -/
example : (3 : ℚ) * toRat exG.tickDist * (1 - u₅₃) ^ 2 ≤ toRat (Float.ofBits 0x3FD3333333333334) ∧
    toRat (Float.ofBits 0x3FD3333333333334) ≤ (3 : ℚ) * toRat exG.tickDist * (1 + u₅₃) ^ 2 := by
  have := ticks_near_multiples_float exG 20 exGds exG_run exG_len_finite 2 (by decide)
  norm_num at this
  norm_num
  exact this

theorem unpack_tenth :
    exG.tickDist.toModel.unpack = .finite .positive 7205759403792794 (-56) (by decide) := by
  have : exG.tickDist = Float.ofBits 0x3FB999999999999A := by decide +kernel
  rw [this, FM.float_unpack_ofBits _ (by decide)]
  rfl

theorem unpack_third_tick :
    (Float.ofBits 0x3FD3333333333334).toModel.unpack = .finite .positive 5404319552844596 (-54) (by decide) := by
  rw [FM.float_unpack_ofBits _ (by decide)]
  rfl

/-- the exact values: `0.1` as a double is `7205759403792794 · 2⁻⁵⁶` (slightly above `1/10`). -/
theorem toRat_tenth : toRat exG.tickDist = 7205759403792794 / 2 ^ 56 := by
  rw [toRat_of_unpack unpack_tenth]; norm_num [sgnQ]

/-- **exact equality fails in binary64**: the third tick distance of `exG` is `3 · t + 2⁻⁵⁵`, not `3 · t` … -/
theorem exG_third_tick_off : toRat exGds[2] = 3 * toRat exG.tickDist + (2 : ℚ) ^ (-55 : Int) := by
  show toRat (Float.ofBits 0x3FD3333333333334) = _
  rw [toRat_of_unpack unpack_third_tick, toRat_tenth]; norm_num [sgnQ]

theorem exG_third_tick_ne : toRat exGds[2] ≠ 3 * toRat exG.tickDist := by
  rw [exG_third_tick_off]; norm_num

/-- … and the deviation `2⁻⁵⁵` is within `tick_rel_err_float`'s bound `3·t·((1 + 2⁻⁵³)² − 1) ≈ 0.6·2⁻⁵³`, within the crude
bound `9·2⁻⁵²·t`, and within the absolute bound `2·2⁻³⁶` (instances of the theorems; the numbers are checked too). -/
example : |toRat exGds[2] - 3 * toRat exG.tickDist| ≤ 3 * toRat exG.tickDist * ((1 + u₅₃) ^ 2 - 1) := by
  have := tick_rel_err_float exG 20 exGds exG_run exG_len_finite 2 (by decide)
  norm_num at this ⊢
  exact this

example : |toRat exGds[2] - 3 * toRat exG.tickDist| ≤ 9 * (2 : ℚ) ^ (-52 : Int) * toRat exG.tickDist := by
  have := tick_rel_err_crude_float exG 20 exGds exG_run exG_len_finite 2 (by decide) (by decide)
  norm_num at this ⊢
  exact this

example : |toRat exGds[2] - 3 * toRat exG.tickDist| ≤ 2 * (2 : ℚ) ^ (-36 : Int) := by
  have := tick_abs_err_after_new_float exG_new 20 exGds exG_run 2 (by decide)
  norm_num at this ⊢
  exact this

/-- the standard model of addition on the two additions behind that tick, with the `δ` made explicit:
`0.1 + 0.1 = 0.2` is exact (`δ = 0`), `0.2 + 0.1` rounds up by `2⁻⁵⁵`. -/
example : toRat (exG.tickDist + exG.tickDist) = toRat exG.tickDist + toRat exG.tickDist := by
  have h2 : (exG.tickDist + exG.tickDist).toModel.unpack = .finite .positive 7205759403792794 (-55) (by decide) := by
    have : exG.tickDist + exG.tickDist = Float.ofBits 0x3FC999999999999A := by decide +kernel
    rw [this, FM.float_unpack_ofBits _ (by decide)]
    rfl
  rw [toRat_of_unpack h2, toRat_tenth]; norm_num [sgnQ]

end Examples

end Rosu.C20
