/-
  Props/C02Capstone.lean — C02, the CAPSTONE: the pieces proved so far assembled into ONE theorem about DECODED maps,
  "decode → encode → decode returns the same map on the preserved view", with every exclusion an explicit, named field.

  * `ExactLaws F P RF RP` — every LAW hypothesis of the pieces in one bundle (codec laws, exact-arithmetic laws, closed facts
    about the decoder's constants). All have toy instances: `exactLaws_zc : ExactLaws ZC ZC ZC.Rep ZC.Rep`. The bundle is
    about the NUMBER TYPE, not about the input.
  * `DecodedDomain RF bs st m` — everything the pieces need of the INPUT `bs` and of the map `m` decoded from it, one field
    per exclusion, each doc comment naming the finding (DESIGN section 6) or the quantifier of the property it stands for.
  * `PreservedEq m m2` — the preserved view of DESIGN 5.2 as ONE predicate: record sections (positive ids, alpha 255 —
    for a decoded map the colours come back unchanged), timing points, effective slider velocity / scroll speed / kiai at
    every time, hit objects (count, pairwise `ObjPreserved`), computed curves.
  * `roundtrip_decoded_capstone` — the theorem: for every byte string `bs` that decodes to `m` inside `DecodedDomain`, under
    `ExactLaws`: if `encode m = .ok t` then `t` decodes again, and every finished re-decoded map `m2` satisfies
    `PreservedEq m m2`. All four modes.
  * `roundtrip_statement_full` — the same with NO `DecodedDomain` hypothesis; NOT a theorem, and its doc comment lists, field
    by field, the kernel-checked refutation that forces the field.
  Non-vacuity (a decoded taiko FILE, given as bytes, every `DecodedDomain` field evaluated in the kernel on the toy codec):
  Props/C02CapstoneToy.lean.

  What "partial" still means here: the theorem is about EXACT arithmetic (`ExactLaws.eps`, `.group`, `.near`, `.dur` are
  refuted for IEEE doubles: `IeeeFalse.epsLaws_float_false`, `IeeeFalse.groupLaws_float_false`, `C04.durLawsZ_float_false`),
  so on the driver's `Float` instance it is vacuous; the implementation-level `rt` oracle measures what happens there (≤ 4 ulp
  drift of the slider velocity, F25 / F26 for durations).
-/
import RosuModel.Props.C02Decoded
import RosuModel.Props.C02FinalScroll
import RosuModel.Props.C02FinalCurves
import RosuModel.Props.C04DecodedPaths
import RosuModel.Props.C04DecodedTiming
import RosuModel.Props.C04DecodedTimingToy
set_option linter.unusedSectionVars false
namespace Rosu.C02
open Rosu Encode EncodeLines C11 RtTiming Scalar FileRt SliderRt

section
variable {F P : Type} [Scalar F] [Scalar P] [Cvt P F] [Trig F] [Trig P] {RF : F → Prop} {RP : P → Prop}

/-! ### the laws (about the number types) -/

/-- **every law hypothesis of the pieces**, bundled. `RF` / `RP`: the values the `f64` / `f32` codec represents. None of the
fields speaks about an input; each is instantiated on the toy codec (`exactLaws_zc`), the codec-side ones also on the
driver's IEEE instances (see the field comments). -/
structure ExactLaws (F P : Type) [Scalar F] [Scalar P] (RF : F → Prop) (RP : P → Prop) : Prop where
  /-- codec laws: `parse (print x) = x` on representable values for both float types, integral values print like integers,
  path coordinates (`f32` `Display` read by `f64` `FromStr`). IEEE: `codecLaws_float_ieee`, `codecLaws_float32_ieee`,
  `intPrintLaw_float_ieee`. -/
  map : MapLaws F P RF RP
  /-- EXACT ARITHMETIC: `|a − b| < EPSILON ↔ a = b` (the encoder's redundancy test). Refuted for `Float`:
  `IeeeFalse.epsLaws_float_false`. -/
  eps : EpsLaws F
  /-- EXACT ARITHMETIC: the decoder's grouping test `|t − u| ≥ EPSILON` is `t ≠ u`. Refuted for `Float`:
  `IeeeFalse.groupLaws_float_false` (F22 lives here). -/
  group : GroupLaws F
  /-- closed clamp facts: `clamp(1, 0.1, 10) = 1`, `clamp(clamp(x, 0.01, 10), 0.1, 10) = clamp(x, 0.1, 10)`. -/
  scroll : ScrollClampLaws F
  /-- EXACT ARITHMETIC: a length that survives `max(d, 0)`, `|·| ≥ EPSILON` is within `EPSILON` of itself. -/
  near : NearLaw F
  /-- closed facts about the decoder's constants. IEEE: `C04.constFacts_float`. -/
  const : DecodedInv.ConstFacts F P
  /-- the `f32` codec represents everything within the parse limit (the `f64` side is `obj.time`). -/
  limitRep : DecodedInv.LimitRep RP
  /-- codec-side laws about the numbers of a hit-object line. IEEE: `C04.objLaws_ieee`. -/
  obj : C04.ObjLaws F P RF RP
  /-- EXACT ARITHMETIC: `start + duration` is representable and `(start + duration) − start = duration`. Refuted for `Float`
  (`C04.duration_drifts_float` = F25, `C04.end_time_over_limit_float` = F26, `C04.durLawsZ_float_false`). -/
  dur : C04.DurLaws F RF
  /-- control-point offsets `(pos + p) − pos = p`. IEEE: `C04.ctrlLaws_float`. -/
  ctrl : C04.CtrlLaws F P RP
  /-- `==` on path positions is equality; a letter-leading piece is not a number. IEEE: `C04.pathLaws_ieee`. -/
  path : C04.PathLaws F P
  /-- NaN / clamp / constant / `−100 / v` laws of the `[TimingPoints]` block. IEEE: `C04.svLaws_float`, `C12.clamps_float`. -/
  timing : C04.TimingLaws F RF

/-! ### the domain (about the input) -/

/-- **the domain of the capstone**: what is assumed of the bytes `bs`, the decoder state `st` they lead to and the finished
map `m`. One field per exclusion; `roundtrip_statement_full` lists the refutation that forces each. -/
structure DecodedDomain (RF : F → Prop) (bs : List UInt8) (st : BeatmapState F P) (m : Beatmap F P) : Prop where
  /-- THE PROPERTY'S OWN QUANTIFIER (chronological hit-object lines): the objects the `[HitObjects]` lines pushed are in
  non-decreasing `total_cmp` order of start time. Without it the decoder's forcing rule for `new_combo` sees another
  neighbour after the sort: `unordered_not_finalized`. -/
  chronological : Chronological st.hitObjects.core.hitObjects
  /-- THE PROPERTY'S OWN QUANTIFIER (chronological timing lines) + finding F15: the accepted `[TimingPoints]` lines never go
  back in time (`unordered_scroll_counterexample`) and were all applied in the map's final mode — no `Mode:` record after
  them (`mode_change_counterexample`). Stated on the ghost log `tpLogBytes`. Used in taiko / mania only. -/
  timingLines : LogGood m.general.mode (tpLogBytes F P bs)
  /-- finding F16: neither file name contains `//` (`C04.f16_decoded_witness`). -/
  noDoubleSlash : DecodedInv.NoDoubleSlash m
  /-- findings F17 (`f17`: no repeated control point at a segment start, no consecutive Catmull segments —
  `C04.f17_needed`), F20 (`computed`: a slider without requested length has a computed length within ±131072), F21
  (`trimmed`: a custom sample file name is its own trim — `C04.objF21_not_repObject`) and the `|` artefact (`noBar`). F18
  (node sample file names) does NOT enter: the preserved view compares node COUNTS. -/
  objects : ∀ h ∈ m.hitObjects, C04.ObjResidualF17 RF h
  /-- F26-type residual: every time at which `collect_samples` collects a sample point (object ends, slider nodes) is within
  the parse limit ±(2³¹−1); otherwise the written timing line is rejected (`C04.decoded_repTimingMap_statement_false`). -/
  collectedTimes : C04.CollectedTimesInLimit m
  /-- finding F15, hit-object side: every slider's path was converted in the map's final mode (no `Mode:` record after the
  object line), and a stored requested length is its own normal form `lenOf d = some d` (exact arithmetic: the decoder
  stored `lenOf` of something). -/
  pathStable : PathStable m
  /-- EXACT ARITHMETIC on the map's own control-point VALUES: sorted lists, numerators `≥ 1`, beat lengths fixed by their clamp
  and not negative, every slider velocity (scroll speed in taiko / mania) `v` and the default 1 with `−100 / v < 0`,
  `100 / −(−100 / v) = v` and fixed by its clamp. The inverse law is the documented ≤ 4 ulp slider-velocity drift for IEEE
  doubles; it is a hypothesis on the values, not a law of the number type (it fails for `v = 0` in any field). -/
  timeline : TimelineHyps m.general.mode m.controlPoints

/-! ### the conclusion -/

/-- **the preserved view, as one predicate**: `m2` (the re-decoded map) equals `m` on everything the legacy format carries. -/
structure PreservedEq (m m2 : Beatmap F P) : Prop where
  /-- format version. -/
  formatVersion : m2.formatVersion = m.formatVersion
  /-- `[General]` on the preserved view (the encoder's SampleSet / CountdownOffset / SpecialStyle / flag rules). -/
  general : m2.general = RtGeneral.preservedGeneral m.general (RtGeneral.sampleSetOf m.controlPoints)
  editor : m2.editor = m.editor
  /-- `[Metadata]` on the preserved view: positive ids come back (F9 fixed), non-positive ones as the defaults. -/
  metadata : m2.metadata = RtMetadata.preservedMetadata m.metadata
  difficulty : m2.difficulty = m.difficulty
  /-- background file and breaks. -/
  events : m2.events = m.events
  /-- colours, UNCHANGED (a decoded map has alpha 255 everywhere). -/
  colors : m2.colors = m.colors
  /-- the timing points: time, beat length, signature, omit-first-bar-line, in order. -/
  timingPoints : m2.controlPoints.timingPoints = m.controlPoints.timingPoints
  /-- the effective slider velocity (`difficulty_point_at`) at EVERY time, in EVERY mode. -/
  sliderVelocity : ∀ u : F,
    ((m2.controlPoints.difficultyPointAt u).map (·.sliderVelocity)).getD (1 : F) =
      ((m.controlPoints.difficultyPointAt u).map (·.sliderVelocity)).getD (1 : F)
  /-- the effective scroll speed (`effect_point_at`) at every time, in taiko / mania (elsewhere the format does not carry
  it: one velocity field per line). -/
  scrollSpeed : (m.general.mode = .taiko ∨ m.general.mode = .mania) → ∀ u : F,
    ((m2.controlPoints.effectPointAt u).map (·.scrollSpeed)).getD (1 : F) =
      ((m.controlPoints.effectPointAt u).map (·.scrollSpeed)).getD (1 : F)
  /-- the effective kiai flag at every time. -/
  kiai : ∀ u : F,
    ((m2.controlPoints.effectPointAt u).map (·.kiai)).getD false =
      ((m.controlPoints.effectPointAt u).map (·.kiai)).getD false
  /-- as many hit objects. -/
  count : m2.hitObjects.length = m.hitObjects.length
  /-- object by object: start time, kind, position, `new_combo`, combo offset, slider control points, repeat count,
  velocity, node count, spinner / hold duration (`ObjPreserved`, Props/C02File.lean). -/
  objects : ∀ p ∈ List.zip m.hitObjects m2.hitObjects, ObjPreserved p.1 p.2
  /-- the computed curves (`Curve::path()`, `Curve::lengths()`, or the same panic / fuel outcome) of all sliders. -/
  curves : m2.hitObjects.map sliderCurve = m.hitObjects.map sliderCurve

/-! ### the composition -/

omit [Scalar F] [Scalar P] [Cvt P F] [Trig F] [Trig P] in
/-- one decode, one state. -/
theorem decode_unique {σ : Type} {D : LineDecoder σ} {bytes : List UInt8} {a b : σ}
    (ha : decodeBytes D bytes = .ok a) (hb : decodeBytes D bytes = .ok b) : a = b := by
  rw [ha] at hb
  injection hb

/-- `RepMap` of a decoded map inside the domain (`C04.decoded_repMap`, with F17 in its decidable form). -/
theorem domain_repMap (X : ExactLaws F P RF RP) (bs : List UInt8) (st : BeatmapState F P) (m : Beatmap F P)
    (h1 : decodeBytes beatmapDecoder bs = .ok st) (h2 : st.finish = .ok m) (D : DecodedDomain RF bs st m) :
    RepMap RF RP m :=
  C04.decoded_repMap X.const X.limitRep X.obj X.dur X.ctrl X.timing bs st m h1 h2 D.noDoubleSlash
    (fun h hh => C04.objResidual_of_f17 X.path bs st m h1 h2 h hh (D.objects h hh)) D.collectedTimes

/-- the hit objects, all four modes: `roundtrip_objects_rep_partial` in osu! / catch, `roundtrip_objects_decoded_scroll_partial`
in taiko / mania. -/
theorem domain_objects (X : ExactLaws F P RF RP) (bs : List UInt8) (st : BeatmapState F P) (m : Beatmap F P)
    (h1 : decodeBytes beatmapDecoder bs = .ok st) (h2 : st.finish = .ok m) (D : DecodedDomain RF bs st m)
    (t : Str) (he : encode m = .ok t) :
    ∃ st2 : BeatmapState F P, decodeBytes beatmapDecoder (utf8Encode t) = .ok st2 ∧
      ∀ m2 : Beatmap F P, st2.finish = .ok m2 →
        m2.hitObjects.length = m.hitObjects.length ∧
        ∀ p ∈ List.zip m.hitObjects m2.hitObjects, ObjPreserved p.1 p.2 := by
  have hrep := domain_repMap X bs st m h1 h2 D
  have hfin : Finalized m := decoded_finalized bs st m h1 h2 D.chronological
  cases hmo : m.general.mode with
  | osu => exact roundtrip_objects_rep_partial X.map X.eps X.group m hrep D.timeline t he hfin (Or.inl hmo)
  | «catch» => exact roundtrip_objects_rep_partial X.map X.eps X.group m hrep D.timeline t he hfin (Or.inr hmo)
  | taiko =>
    exact roundtrip_objects_decoded_scroll_partial X.map X.eps X.group X.scroll bs st m h1 h2 D.chronological (Or.inl hmo)
      D.timingLines hrep D.timeline t he
  | mania =>
    exact roundtrip_objects_decoded_scroll_partial X.map X.eps X.group X.scroll bs st m h1 h2 D.chronological (Or.inr hmo)
      D.timingLines hrep D.timeline t he

/-- **roundtrip_decoded_capstone** — C02 for decoded maps. Decode ANY bytes `bs` (any of the three encodings, hostile
content) to a state `st` and a finished map `m`. If `(bs, st, m)` lies in `DecodedDomain` — the property's own quantifier
(chronological object and timing lines) and the named exclusions F15, F16, F17, F20, F21, `|`, collected times within the
limit, exact-arithmetic timeline values — then, under the laws `ExactLaws`: whenever `encode m = .ok t`, the UTF-8 bytes of
`t` decode again, and EVERY finished re-decoded map `m2` equals `m` on the preserved view `PreservedEq`. All four modes. -/
theorem roundtrip_decoded_capstone (X : ExactLaws F P RF RP) (bs : List UInt8) (st : BeatmapState F P) (m : Beatmap F P)
    (h1 : decodeBytes beatmapDecoder bs = .ok st) (h2 : st.finish = .ok m) (D : DecodedDomain RF bs st m)
    (t : Str) (he : encode m = .ok t) :
    ∃ st2 : BeatmapState F P, decodeBytes beatmapDecoder (utf8Encode t) = .ok st2 ∧
      ∀ m2 : Beatmap F P, st2.finish = .ok m2 → PreservedEq m m2 := by
  have hrep := domain_repMap X bs st m h1 h2 D
  have hfin : Finalized m := decoded_finalized bs st m h1 h2 D.chronological
  -- the pieces, each about its own `∃ st`
  obtain ⟨st2, hd, _, _, _, _, hA⟩ := roundtrip_rep_partial X.map X.eps X.group m hrep D.timeline t he
  obtain ⟨sB, hdB, hB⟩ := redecoded_one_state X.map X.eps X.group m hrep D.timeline t he hfin X.scroll.one
  obtain ⟨sC, hdC, hC⟩ := roundtrip_curves_partial X.map X.eps X.group X.near m hrep D.timeline t he hfin D.pathStable
  obtain ⟨sO, hdO, hO⟩ := domain_objects X bs st m h1 h2 D t he
  obtain ⟨_, T, H, _, _, hT, hH, sT, sH, _⟩ := C04.encoded_file_accepted_decoded X.map X.const X.limitRep X.obj X.dur X.ctrl
    X.timing bs st m h1 h2 D.noDoubleSlash
    (fun h hh => C04.objResidual_of_f17 X.path bs st m h1 h2 h hh (D.objects h hh)) D.collectedTimes t he
  obtain ⟨sR, hdR, hR⟩ := records_roundtrip_decoded_of_limitRep X.const X.map.f X.map.p X.map.int X.obj.time X.limitRep
    bs st m h1 h2 D.noDoubleSlash t T H he hT hH sT sH
  -- all are this one state
  have eB := decode_unique hd hdB
  have eC := decode_unique hd hdC
  have eO := decode_unique hd hdO
  have eR := decode_unique hd hdR
  subst eB eC eO eR
  refine ⟨st2, hd, fun m2 hm2 => ?_⟩
  obtain ⟨_, htp, htl, _⟩ := hA m2 hm2
  obtain ⟨r1, r2, r3, r4, r5, r6, r7⟩ := hR m2 hm2
  obtain ⟨hsvFor, hdiff, _⟩ := hB m2 hm2
  obtain ⟨hcount, hobjs⟩ := hO m2 hm2
  refine ⟨r1, r2, r3, r4, r5, r6, r7, htp, ?_, ?_, fun u => (htl u).2, hcount, hobjs, (hC m2 hm2).2.1⟩
  · -- the slider velocity at every time, every mode
    intro u
    cases hmo : m.general.mode with
    | osu => have := (htl u).1; rw [hmo] at this; exact this
    | «catch» => have := (htl u).1; rw [hmo] at this; exact this
    | taiko =>
      rw [hdiff u, hsvFor u,
        decoded_scroll_timeline X.eps X.group X.scroll bs st m h1 h2 (Or.inl hmo) D.timingLines u, hmo]
      rfl
    | mania =>
      rw [hdiff u, hsvFor u,
        decoded_scroll_timeline X.eps X.group X.scroll bs st m h1 h2 (Or.inr hmo) D.timingLines u, hmo]
      rfl
  · -- the scroll speed at every time, taiko / mania
    intro hmode u
    have := (htl u).1
    rcases hmode with hmo | hmo <;> rw [hmo] at this <;> exact this

end

/-! ### the laws are satisfiable together -/

/-- **every law of `ExactLaws` holds of the toy codec** (`ZC`: integers with `eps = 1`, truncating division). -/
theorem exactLaws_zc : ExactLaws ZC ZC ZC.Rep ZC.Rep where
  map := ZC.mapLaws
  eps := zc_epsLaws
  group := zc_groupLaws
  scroll := scrollClampLaws_zc
  near := nearLaw_zc
  const := DecodedInv.ZC.constFacts
  limitRep := DecodedInv.ZC.limitRep
  obj := C04.ZC.objLaws
  dur := C04.ZC.durLaws
  ctrl := C04.ZC.ctrlLaws
  path := C04.ZC.pathLaws
  timing := C04.ZC.timingLaws

/-- checkers for the kernel-evaluated instances (Props/C02CapstoneToy.lean, Props/C02CapstoneFalse.lean). -/
instance decSvInverseZC (v : ZC) : Decidable (SvInverse v) := by unfold SvInverse; infer_instance

instance decSortedBy {α : Type} (key : α → Int) (l : List α) : Decidable (C13.SortedBy key l) := by
  unfold C13.SortedBy; infer_instance

/-! ### the full statement -/

/-- **the property with NO `DecodedDomain` hypothesis** — NOT a theorem; FALSE of the model (and of the code) as soon as any
one field of `DecodedDomain` is dropped. The statement itself is refuted end to end (decode, finish, encode, decode, finish
in the kernel, on the F16 file) in Props/C02CapstoneFalse.lean: `roundtrip_statement_full_false : ¬ roundtrip_statement_full`,
`f16_roundtrip_fails`, `f16_other_fields` (that file violates `noDoubleSlash` and nothing else). Per field, the kernel-checked
refutation that already exists:

* `chronological` — `unordered_not_finalized` (Props/C02FinalUnordered.lean): a spinner at 1000 listed before circles at 100
  and 50; after the sort a plain circle follows the spinner without `new_combo`, the re-decode forces it. The property
  itself quantifies over chronological inputs.
* `timingLines`, order — `unordered_scroll_counterexample` / `scroll_timeline_unordered_false` (Props/C02FinalScroll.lean): mania
  lines at 10 then 5; at time 10 the slider velocity in effect is 2 and the scroll speed 1, and by `scroll_hypothesis_exact`
  that is exactly where a slider's velocity changes.
* `timingLines`, one mode (F15) — `mode_change_counterexample`, `mode_change_not_good` (Props/C02FinalScrollToy.lean): a timing
  line applied in osu! mode in a file that ends up mania.
* `noDoubleSlash` (F16) — `C04.f16_decoded_witness` (`AudioFilename: a\\b.mp3` decodes to `a//b.mp3`), and the `example`s
  next to it: the written line is accepted but read back as `a`; IEEE: `C04.f16_decoded_witness_float`.
* `objects`, F17 — `C04.f17_needed` (three decoded lines outside `F17Free`), `C04.f17_file_needed`, `C04.f17_needed_ieee`.
* `objects`, F21 — `C04.objF21_not_repObject` (`256,192,1000,1,0,0:0:0:0:a ,x` gives the file name `a `), `C04.objF21_not_residual`.
* `objects`, F20 — recorded witness `0,0,1000,2,0,L|131072:131072|-131072:-131072|131072:131072,1` (replayed on the code by the
  `lines` oracle; `RepSlider.distRep` is the clause it violates; no kernel evaluation: the curve does not reduce).
* `objects`, `noBar` — an artefact of `RepSampleFile` being shared with slider lines: `C04.objBar_accepted_anyway` shows the
  line is accepted; the round trip of such a name is not proved (not refuted either).
* `collectedTimes` — `C04.decoded_repTimingMap_statement_false`, `C04.over_not_collectedTimes` (a slider at 2147483647 collects
  a sample point beyond the limit; its line is rejected on re-read).
* `pathStable` — F15 on the object side (same `Mode:`-after-lines mechanism as `mode_change_counterexample`; the curve
  depends on the path's mode, `same_fields_same_curve` needs it equal).
* `timeline` — the inverse law `100 / −(−100 / v) = v` on the map's velocities; for IEEE doubles the ≤ 4 ulp drift the `rt`
  oracle measures. The companion LAWS are refuted for `Float` in the kernel: `IeeeFalse.epsLaws_float_false`,
  `IeeeFalse.groupLaws_float_false`; `ExactLaws.dur` by `C04.duration_drifts_float` (F25), `C04.end_time_over_limit_float`
  (F26), `C04.durLawsZ_float_false`.
* not a field, because the preserved view does not look at it: F18 (node sample file names; `node_samples_rt`), F22 (needs
  non-exact grouping arithmetic, i.e. is excluded by `ExactLaws.group`).

`roundtrip_decoded_capstone` is this statement with `DecodedDomain RF bs st m` added. -/
def roundtrip_statement_full : Prop :=
  ∀ (F P : Type) [Scalar F] [Scalar P] [Cvt P F] [Trig F] [Trig P] (RF : F → Prop) (RP : P → Prop),
    ExactLaws F P RF RP →
    ∀ (bs : List UInt8) (st : BeatmapState F P) (m : Beatmap F P),
      decodeBytes beatmapDecoder bs = .ok st → st.finish = .ok m →
      ∀ t : Str, encode m = .ok t →
        ∃ st2 : BeatmapState F P, decodeBytes beatmapDecoder (utf8Encode t) = .ok st2 ∧
          ∀ m2 : Beatmap F P, st2.finish = .ok m2 → PreservedEq m m2

/-- the capstone IS the full statement restricted to the domain. -/
theorem roundtrip_statement_full_on_domain :
    ∀ (F P : Type) [Scalar F] [Scalar P] [Cvt P F] [Trig F] [Trig P] (RF : F → Prop) (RP : P → Prop),
      ExactLaws F P RF RP →
      ∀ (bs : List UInt8) (st : BeatmapState F P) (m : Beatmap F P),
        decodeBytes beatmapDecoder bs = .ok st → st.finish = .ok m → DecodedDomain RF bs st m →
        ∀ t : Str, encode m = .ok t →
          ∃ st2 : BeatmapState F P, decodeBytes beatmapDecoder (utf8Encode t) = .ok st2 ∧
            ∀ m2 : Beatmap F P, st2.finish = .ok m2 → PreservedEq m m2 :=
  fun _ _ _ _ _ _ _ _ _ X bs st m h1 h2 D t he => roundtrip_decoded_capstone X bs st m h1 h2 D t he

end Rosu.C02
