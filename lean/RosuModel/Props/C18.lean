/-
  Props/C18.lean — purity of the curve computation: buffers, caches, API choice.
  Structural theorems (every `Scalar` instance, hence the IEEE one).
-/
import RosuModel.Model.Curve
import RosuModel.Lemmas.Outcome
import RosuModel.Lemmas.ToyInt
import RosuModel.Lemmas.BezierPure
namespace Rosu.C18
open Rosu Rosu.Curve

variable {P F : Type} [Scalar P] [Scalar F] [Cvt P F] [Trig F] [Trig P]

/-- what a caller can observe of a constructor call: the curve, or the panic / fuel outcome. -/
def observe (r : Outcome (Curve P F × CurveBuffers P F)) : Outcome (List (Pos P) × List F) :=
  r.map fun x => (x.1.path, x.1.lengths)

/-! ### owned vs borrowed -/

/-- `Curve::new` and `BorrowedCurve::new` show the same path and lengths (they differ only in what
they leave in the buffers). -/
theorem borrowed_eq_owned (fuel : Nat) (mode : GameMode) (pts : List (PathControlPoint P)) (L : Option F)
    (b : CurveBuffers P F) :
    observe (Curve.newBorrowed fuel mode pts L b) = observe (Curve.new fuel mode pts L b) := by
  unfold observe Curve.new Curve.newBorrowed
  cases compute fuel mode pts L b <;> rfl

/-- the owned constructor leaves `path` and `lengths` empty, the borrowed one leaves the curve there. -/
theorem owned_takes_borrowed_leaves (fuel : Nat) (mode : GameMode) (pts : List (PathControlPoint P))
    (L : Option F) (b b' : CurveBuffers P F) (c : Curve P F) :
    (Curve.new fuel mode pts L b = .ok (c, b') → b'.path = [] ∧ b'.lengths = []) ∧
    (Curve.newBorrowed fuel mode pts L b = .ok (c, b') → b'.path = c.path ∧ b'.lengths = c.lengths) := by
  unfold Curve.new Curve.newBorrowed
  cases compute fuel mode pts L b with
  | error e => constructor <;> (intro h; cases h)
  | ok r =>
    constructor
    · intro h; simp only [Outcome.ok_bind, Outcome.pure_eq_ok] at h; cases h; exact ⟨rfl, rfl⟩
    · intro h; simp only [Outcome.ok_bind, Outcome.pure_eq_ok] at h; cases h; exact ⟨rfl, rfl⟩

/-! ### independence of the buffer contents -/

/-- two outcomes agree: the same error, or values related by `R`. -/
def OAgree {α : Type} (R : α → α → Prop) : Outcome α → Outcome α → Prop
  | .ok a, .ok a' => R a a'
  | .error e, .error e' => e = e'
  | _, _ => False

theorem OAgree.bind {α β : Type} {R : α → α → Prop} {S : β → β → Prop} {r r' : Outcome α}
    {f f' : α → Outcome β} (h : OAgree R r r') (hf : ∀ a a', R a a' → OAgree S (f a) (f' a')) :
    OAgree S (r >>= f) (r' >>= f') := by
  cases r <;> cases r' <;> simp only [OAgree] at h
  · exact h
  · exact hf _ _ h

theorem OAgree.bind_same' {α β : Type} {S : β → β → Prop} (r : Outcome α)
    {f f' : α → Outcome β} (hf : ∀ a, r = .ok a → OAgree S (f a) (f' a)) :
    OAgree S (r >>= f) (r >>= f') := by
  cases r
  · rfl
  · exact hf _ rfl

theorem OAgree.bind_same {α β : Type} {S : β → β → Prop} (r : Outcome α)
    {f f' : α → Outcome β} (hf : ∀ a, OAgree S (f a) (f' a)) :
    OAgree S (r >>= f) (r >>= f') := by
  cases r
  · rfl
  · exact hf _

/-- states of the segment loop that differ only in the (well-formed) Bezier scratch buffers. -/
def SegAgree (st st' : SegState P F) : Prop :=
  st.path = st'.path ∧ st.optLen = st'.optLen ∧ st.start = st'.start ∧ st.bezier.WF ∧ st'.bezier.WF

def SubAgree (r r' : List (Pos P) × F × BezierBuffers P) : Prop :=
  r.1 = r'.1 ∧ r.2.1 = r'.2.1 ∧ r.2.2.WF ∧ r'.2.2.WF

theorem bezier_agree (fuel : Nat) (hbz : BezierPure P fuel) (pts : List (Pos P)) (h2 : 2 ≤ pts.length)
    (b b' : BezierBuffers P) (hb : b.WF) (hb' : b'.WF) (o : F) :
    OAgree SubAgree
      (do let (out, bufs) ← approximateBezier fuel pts b; pure (out, o, bufs))
      (do let (out, bufs) ← approximateBezier fuel pts b'; pure (out, o, bufs)) := by
  have := hbz pts h2 b b' hb hb'
  revert this
  cases approximateBezier fuel pts b <;> cases approximateBezier fuel pts b' <;>
    simp only [BezAgree, OAgree, Outcome.ok_bind, Outcome.error_bind, Outcome.pure_eq_ok] <;> intro h
  · exact h
  · exact h
  · exact h
  · exact ⟨h.1, rfl, h.2.1, h.2.2⟩

theorem calculateSubpath_agree (fuel : Nat) (mode : GameMode) (seg : List (Pos P)) (h2 : 2 ≤ seg.length)
    (kind : SplineType) (hbz : kind = .linear ∨ kind = .catmull ∨ BezierPure P fuel)
    (o : F) (b b' : BezierBuffers P) (hb : b.WF) (hb' : b'.WF) :
    OAgree SubAgree (calculateSubpath fuel mode seg kind o b) (calculateSubpath fuel mode seg kind o b') := by
  unfold calculateSubpath
  cases kind with
  | linear => exact ⟨rfl, rfl, hb, hb'⟩
  | bspline =>
    have hbz : BezierPure P fuel := by
      rcases hbz with h | h | h
      · cases h
      · cases h
      · exact h
    exact bezier_agree fuel hbz seg h2 b b' hb hb' o
  | catmull =>
    simp only []
    apply OAgree.bind_same
    intro sub
    split
    · exact ⟨rfl, rfl, hb, hb'⟩
    · exact ⟨rfl, rfl, hb, hb'⟩
  | perfectCurve =>
    have hbz : BezierPure P fuel := by
      rcases hbz with h | h | h
      · cases h
      · cases h
      · exact h
    simp only []
    split
    · apply OAgree.bind_same
      intro arc
      cases arc with
      | some pts => exact ⟨rfl, rfl, hb, hb'⟩
      | none => exact bezier_agree fuel hbz _ h2 b b' hb hb' o
    · simp only [Outcome.pure_eq_ok, Outcome.ok_bind]
      exact bezier_agree fuel hbz seg h2 b b' hb hb' o

/-- every typed control point is linear or Catmull: no segment can reach the Bezier code. -/
def BezierFree (points : List (PathControlPoint P)) : Prop :=
  ∀ p ∈ points, ∀ t, p.pathType = some t → t.kind = .linear ∨ t.kind = .catmull

theorem segBody_agree (fuel : Nat) (mode : GameMode) (points : List (PathControlPoint P))
    (hbz : BezierFree points ∨ BezierPure P fuel)
    (vertices : List (Pos P)) (st st' : SegState P F) (i : Nat) (h : SegAgree st st') :
    OAgree SegAgree (segBody fuel mode points vertices st i) (segBody fuel mode points vertices st' i) := by
  obtain ⟨path, optLen, bez, start⟩ := st
  obtain ⟨path', optLen', bez', start'⟩ := st'
  obtain ⟨h1, h2, h3, hb, hb'⟩ := h
  simp only at h1 h2 h3 hb hb'
  subst h1 h2 h3
  unfold segBody
  apply OAgree.bind_same
  intro pt
  split
  · exact ⟨rfl, rfl, rfl, hb, hb'⟩
  · apply OAgree.bind_same
    intro seg
    match seg with
    | [] => rfl
    | [v] => exact ⟨rfl, rfl, rfl, hb, hb'⟩
    | v :: w :: rest =>
      simp only []
      apply OAgree.bind_same'
      intro sp hsp
      have hkind : (match sp.pathType with | none => SplineType.linear | some t => t.kind) = .linear ∨
          (match sp.pathType with | none => SplineType.linear | some t => t.kind) = .catmull ∨ BezierPure P fuel := by
        rcases hbz with hfree | hpure
        · have hmem : sp ∈ points := by
            have := (getI_ok_iff points start sp).mp hsp
            exact List.mem_of_getElem? this
          cases hpt : sp.pathType with
          | none => exact Or.inl rfl
          | some t =>
            rcases hfree sp hmem t hpt with h | h
            · exact Or.inl h
            · exact Or.inr (Or.inl h)
        · exact Or.inr (Or.inr hpure)
      apply OAgree.bind (calculateSubpath_agree fuel mode (v :: w :: rest) (by simp) _ hkind _ bez bez' hb hb')
      rintro ⟨out, o, bz⟩ ⟨out', o', bz'⟩ ⟨e1, e2, w1, w2⟩
      simp only at e1 e2 w1 w2
      subst e1 e2
      simp only []
      apply OAgree.bind_same
      intro p
      exact ⟨rfl, rfl, rfl, w1, w2⟩

theorem foldlM_agree (fuel : Nat) (mode : GameMode) (points : List (PathControlPoint P))
    (hbz : BezierFree points ∨ BezierPure P fuel)
    (vertices : List (Pos P)) (is : List Nat) (st st' : SegState P F) (h : SegAgree st st') :
    OAgree SegAgree (is.foldlM (segBody fuel mode points vertices) st)
      (is.foldlM (segBody fuel mode points vertices) st') := by
  induction is generalizing st st' with
  | nil => exact h
  | cons i rest ih =>
    simp only [List.foldlM_cons]
    exact OAgree.bind (segBody_agree fuel mode points hbz vertices st st' i h) (fun a a' ha => ih a a' ha)

/-- **purity for non-empty control-point lists** (core lemma; see `compute_ignores_buffers` for the full statement): the curve (or the panic / fuel outcome) does not depend on
what the buffers held before, for all well-formed buffers (the four Bezier scratch vectors have equal
lengths — true of `CurveBuffers::default()`; only `extend_exact` resizes them, `BezierBuffers.extendExact_wf`).
Covers every segment kind, **given** `BezierPure` (Lemmas/BezierPure.lean): the same statement for `approximate_bezier`
alone, an explicit hypothesis that is not proved. Linear, Catmull and accepted-arc segments do not touch the scratch buffers. -/
theorem compute_ignores_buffers_core (fuel : Nat) (mode : GameMode) (pts : List (PathControlPoint P))
    (hbz : BezierFree pts ∨ BezierPure P fuel)
    (L : Option F) (b₁ b₂ : CurveBuffers P F) (hne : pts ≠ []) (h₁ : b₁.bezier.WF) (h₂ : b₂.bezier.WF) :
    observe (Curve.new fuel mode pts L b₁) = observe (Curve.new fuel mode pts L b₂) := by
  have hemp : pts.isEmpty = false := by cases pts <;> simp_all
  have key := foldlM_agree fuel mode pts hbz (pts.map (·.pos)) (List.range pts.length)
    { path := [], optLen := (0 : F), bezier := b₁.bezier, start := 0 }
    { path := [], optLen := (0 : F), bezier := b₂.bezier, start := 0 } ⟨rfl, rfl, rfl, h₁, h₂⟩
  unfold observe Curve.new compute calculatePath
  simp only [hemp, Bool.false_eq_true, if_false]
  revert key
  cases (List.range pts.length).foldlM (segBody fuel mode pts (pts.map (·.pos)))
      { path := [], optLen := (0 : F), bezier := b₁.bezier, start := 0 } <;>
    cases (List.range pts.length).foldlM (segBody fuel mode pts (pts.map (·.pos)))
      { path := [], optLen := (0 : F), bezier := b₂.bezier, start := 0 } <;>
    simp only [OAgree] <;> intro key
  · subst key; rfl
  · exact key.elim
  · exact key.elim
  · rename_i s s'
    obtain ⟨e1, e2, _, _, _⟩ := key
    simp only [Outcome.ok_bind, Outcome.pure_eq_ok, e1, e2]
    cases calculateLength s'.path L s'.optLen <;> rfl

/-- an empty control-point list: the path is cleared before the early return (F7 repaired, /repo c94e1fc), so the
curve is the empty one whatever the buffers held. -/
theorem compute_empty (fuel : Nat) (mode : GameMode) (L : Option F) (b : CurveBuffers P F) :
    observe (Curve.new fuel mode ([] : List (PathControlPoint P)) L b) =
      observe (Curve.new fuel mode ([] : List (PathControlPoint P)) L ({} : CurveBuffers P F)) := by
  unfold observe Curve.new compute calculatePath
  simp only [List.isEmpty_nil, if_true, Outcome.pure_eq_ok, Outcome.ok_bind]
  cases calculateLength ([] : List (Pos P)) L (0 : F) <;> rfl

/-- **`compute_ignores_buffers`, at the full strength of the property**: for every mode, control-point list
(empty or not, every segment kind: linear, Catmull, perfect curves with their arc or Bezier fallback, Bezier,
B-spline), requested length, fuel and arithmetic, the curve — or the panic / fuel outcome — that `Curve::new`
produces does not depend on what the buffers held before, for all well-formed buffers (the four Bezier scratch
vectors have equal lengths: true of `CurveBuffers::default()` and preserved by every computation,
`new_preserves_wf`). Uses `bezierPure` (Lemmas/BezierPure.lean): every scratch cell that is read was written
earlier in the same call. -/
theorem compute_ignores_buffers (fuel : Nat) (mode : GameMode) (pts : List (PathControlPoint P))
    (L : Option F) (b₁ b₂ : CurveBuffers P F) (h₁ : b₁.bezier.WF) (h₂ : b₂.bezier.WF) :
    observe (Curve.new fuel mode pts L b₁) = observe (Curve.new fuel mode pts L b₂) := by
  cases pts with
  | nil => rw [compute_empty fuel mode L b₁, compute_empty fuel mode L b₂]
  | cons p t =>
    exact compute_ignores_buffers_core fuel mode (p :: t) (Or.inr (bezierPure fuel)) L b₁ b₂ (by simp) h₁ h₂

/-- in particular every computation equals the one on fresh buffers. -/
theorem compute_eq_fresh (fuel : Nat) (mode : GameMode) (pts : List (PathControlPoint P))
    (L : Option F) (b : CurveBuffers P F) (h : b.bezier.WF) :
    observe (Curve.new fuel mode pts L b) = observe (Curve.new fuel mode pts L ({} : CurveBuffers P F)) :=
  compute_ignores_buffers fuel mode pts L b {} h ⟨rfl, rfl, rfl⟩

/-- the statement of the property as a proposition. -/
def compute_ignores_buffers_statement (P F : Type) [Scalar P] [Scalar F] [Cvt P F] [Trig F] [Trig P] : Prop :=
  ∀ (fuel : Nat) (mode : GameMode) (pts : List (PathControlPoint P)) (L : Option F)
    (b₁ b₂ : CurveBuffers P F), b₁.bezier.WF → b₂.bezier.WF →
    observe (Curve.new fuel mode pts L b₁) = observe (Curve.new fuel mode pts L b₂)

theorem compute_ignores_buffers_statement_holds : compute_ignores_buffers_statement P F :=
  fun fuel mode pts L b₁ b₂ h₁ h₂ => compute_ignores_buffers fuel mode pts L b₁ b₂ h₁ h₂

/-- the computation leaves the buffers well-formed, so the hypothesis holds along every history that starts
from `CurveBuffers::default()`. -/
theorem new_preserves_wf (fuel : Nat) (mode : GameMode) (pts : List (PathControlPoint P)) (L : Option F)
    (b b' : CurveBuffers P F) (c : Curve P F) (hw : b.bezier.WF)
    (h : Curve.new fuel mode pts L b = .ok (c, b') ∨ Curve.newBorrowed fuel mode pts L b = .ok (c, b')) :
    b'.bezier.WF := by
  have hcomp : ∃ b1, compute fuel mode pts L b = .ok b1 ∧ b'.bezier = b1.bezier := by
    rcases h with h | h
    · unfold Curve.new at h
      cases hc : compute fuel mode pts L b with
      | error e => rw [hc] at h; cases h
      | ok b1 => rw [hc] at h; simp only [Outcome.ok_bind, Outcome.pure_eq_ok] at h; cases h; exact ⟨_, rfl, rfl⟩
    · unfold Curve.newBorrowed at h
      cases hc : compute fuel mode pts L b with
      | error e => rw [hc] at h; cases h
      | ok b1 => rw [hc] at h; simp only [Outcome.ok_bind, Outcome.pure_eq_ok] at h; cases h; exact ⟨_, rfl, rfl⟩
  obtain ⟨b1, hc, hb⟩ := hcomp
  rw [hb]
  unfold compute calculatePath at hc
  cases hp : pts.isEmpty with
  | true =>
    simp only [hp, if_true, Outcome.pure_eq_ok, Outcome.ok_bind] at hc
    cases hl : calculateLength ([] : List (Pos P)) L (0 : F) with
    | error e => rw [hl] at hc; cases hc
    | ok r => rw [hl] at hc; simp only [Outcome.ok_bind, Outcome.pure_eq_ok] at hc; cases hc; exact hw
  | false =>
    simp only [hp, Bool.false_eq_true, if_false] at hc
    have key := foldlM_agree fuel mode pts (Or.inr (bezierPure fuel)) (pts.map (·.pos)) (List.range pts.length)
      { path := [], optLen := (0 : F), bezier := b.bezier, start := 0 }
      { path := [], optLen := (0 : F), bezier := b.bezier, start := 0 } ⟨rfl, rfl, rfl, hw, hw⟩
    cases hf : (List.range pts.length).foldlM (segBody fuel mode pts (pts.map (·.pos)))
        { path := [], optLen := (0 : F), bezier := b.bezier, start := 0 } with
    | error e => rw [hf] at hc; cases hc
    | ok st =>
      rw [hf] at hc key
      simp only [OAgree] at key
      simp only [Outcome.ok_bind, Outcome.pure_eq_ok] at hc
      cases hl : calculateLength st.path L st.optLen with
      | error e => rw [hl] at hc; cases hc
      | ok r => rw [hl] at hc; simp only [Outcome.ok_bind, Outcome.pure_eq_ok] at hc; cases hc; exact key.2.2.2.1

/-- weaker corollaries kept for reference: Bezier-free control points need no appeal to `bezierPure`. -/
theorem compute_ignores_buffers_partial (fuel : Nat) (mode : GameMode) (pts : List (PathControlPoint P))
    (hfree : BezierFree pts) (L : Option F) (b₁ b₂ : CurveBuffers P F) (hne : pts ≠ [])
    (h₁ : b₁.bezier.WF) (h₂ : b₂.bezier.WF) :
    observe (Curve.new fuel mode pts L b₁) = observe (Curve.new fuel mode pts L b₂) :=
  compute_ignores_buffers_core fuel mode pts (Or.inl hfree) L b₁ b₂ hne h₁ h₂

section F7
open Rosu.Toy

/-- the buffers after `BorrowedCurve::new(Osu, [L(0,0), (3,4)], None, default)`. -/
def staleBufs : CurveBuffers Int Int :=
  { path := [pt 0 0, pt 3 4], lengths := [0, 25], vertices := [pt 0 0, pt 3 4], bezier := {} }

theorem staleBufs_from_borrowed :
    Curve.newBorrowed 10 .osu [cp 0 0 (some PathType.linear), cp 3 4] (none : Option Int) {} =
      .ok ({ path := [pt 0 0, pt 3 4], lengths := [0, 25] }, staleBufs) := by
  rfl

/-- the former **F7** witness (repaired in /repo c94e1fc): on buffers that hold a previous (borrowed) path, an
empty control-point list now yields the empty curve `([], [0.0])`, exactly as on fresh buffers. -/
example :
    observe (Curve.new 10 .osu ([] : List (PathControlPoint Int)) (none : Option Int) staleBufs) = .ok ([], [0]) ∧
    observe (Curve.new 10 .osu ([] : List (PathControlPoint Int)) (none : Option Int) {}) = .ok ([], [0]) := by
  constructor <;> rfl

end F7

/-! ### the `SliderPath` cache -/

/-- an operation on a `SliderPath` with a shared buffer set. -/
inductive Op (P F : Type)
  | curve
  | curveWithBufs
  | borrowedCurve
  | setPoints (pts : List (PathControlPoint P))
  | setLen (L : Option F)
  | clear

/-- the curve the current fields denote, computed on given buffers. -/
def fresh (fuel : Nat) (sp : SliderPath P F) (b : CurveBuffers P F) : Outcome (List (Pos P) × List F) :=
  observe (Curve.new fuel sp.mode sp.controlPoints sp.expectedDist b)

/-- **cache invariant**: the cache is empty, or holds a curve that `Curve::new` produced for the *current*
mode, control points and expected distance (on some buffers `b`; for non-empty control points the
buffers do not matter, `compute_ignores_buffers_partial`). -/
def CacheInv (fuel : Nat) (sp : SliderPath P F) : Prop :=
  sp.curve = none ∨ ∃ c b, sp.curve = some c ∧ fresh fuel sp b = .ok (c.path, c.lengths)

/-- one step: the new path state, the new buffers and what the caller sees (`none` for mutators). -/
def step (fuel : Nat) (sp : SliderPath P F) (b : CurveBuffers P F) :
    Op P F → Outcome (SliderPath P F × CurveBuffers P F × Option (Curve P F))
  | .curve => do let (c, sp) ← sp.getCurve fuel; pure (sp, b, some c)
  | .curveWithBufs => do let (c, sp, b) ← sp.curveWithBufs fuel b; pure (sp, b, some c)
  | .borrowedCurve => do let (c, b) ← sp.borrowedCurve fuel b; pure (sp, b, some c)
  | .setPoints pts => pure (sp.controlPointsMut (fun _ => pts), b, none)
  | .setLen L => pure (sp.expectedDistMut (fun _ => L), b, none)
  | .clear => pure (sp.clearCurve, b, none)

theorem new_inv (mode : GameMode) (cps : List (PathControlPoint P)) (L : Option F) (fuel : Nat) :
    CacheInv fuel (SliderPath.new mode cps L) := Or.inl rfl

theorem curveWithBufs_spec (fuel : Nat) (sp sp' : SliderPath P F) (b b' : CurveBuffers P F) (c : Curve P F)
    (hinv : CacheInv fuel sp) (h : sp.curveWithBufs fuel b = .ok (c, sp', b')) :
    CacheInv fuel sp' ∧ sp'.mode = sp.mode ∧ sp'.controlPoints = sp.controlPoints ∧
      sp'.expectedDist = sp.expectedDist ∧ ∃ b0, fresh fuel sp b0 = .ok (c.path, c.lengths) := by
  unfold SliderPath.curveWithBufs at h
  cases hc : sp.curve with
  | some c0 =>
    rw [hc] at h
    simp only [Outcome.pure_eq_ok] at h
    cases h
    rcases hinv with h0 | ⟨c1, b1, h1, h2⟩
    · rw [hc] at h0; cases h0
    · rw [hc] at h1; cases h1
      exact ⟨Or.inr ⟨c, b1, hc, h2⟩, rfl, rfl, rfl, b1, h2⟩
  | none =>
    rw [hc] at h
    simp only [] at h
    cases hn : Curve.new fuel sp.mode sp.controlPoints sp.expectedDist b with
    | error e => rw [hn] at h; cases h
    | ok r =>
      obtain ⟨c1, b1⟩ := r
      rw [hn] at h
      simp only [Outcome.ok_bind, Outcome.pure_eq_ok] at h
      cases h
      have hf : fresh fuel sp b = .ok (c.path, c.lengths) := by
        unfold fresh observe; rw [hn]; rfl
      exact ⟨Or.inr ⟨c, b, rfl, hf⟩, rfl, rfl, rfl, b, hf⟩

/-- **`cache_invariant`**: every operation preserves the invariant, and an accessor returns a curve that
`Curve::new` produces for the fields as they are at the time of the access. -/
theorem cache_invariant (fuel : Nat) (sp sp' : SliderPath P F) (b b' : CurveBuffers P F) (op : Op P F)
    (res : Option (Curve P F)) (hinv : CacheInv fuel sp) (h : step fuel sp b op = .ok (sp', b', res)) :
    CacheInv fuel sp' ∧
    (∀ c, res = some c → ∃ b0, fresh fuel sp' b0 = .ok (c.path, c.lengths)) := by
  cases op with
  | curveWithBufs =>
    simp only [step] at h
    cases hc : sp.curveWithBufs fuel b with
    | error e => rw [hc] at h; cases h
    | ok r =>
      obtain ⟨c, sp1, b1⟩ := r
      rw [hc] at h; simp only [Outcome.ok_bind, Outcome.pure_eq_ok] at h; cases h
      obtain ⟨i1, m1, m2, m3, b0, hb0⟩ := curveWithBufs_spec fuel sp sp' b b' c hinv hc
      refine ⟨i1, ?_⟩
      intro c' hc'; cases hc'
      refine ⟨b0, ?_⟩
      unfold fresh at hb0 ⊢; rw [m1, m2, m3]; exact hb0
  | curve =>
    simp only [step, SliderPath.getCurve] at h
    cases hc : sp.curveWithBufs fuel {} with
    | error e => rw [hc] at h; cases h
    | ok r =>
      obtain ⟨c, sp1, b1⟩ := r
      rw [hc] at h; simp only [Outcome.ok_bind, Outcome.pure_eq_ok] at h; cases h
      obtain ⟨i1, m1, m2, m3, b0, hb0⟩ := curveWithBufs_spec fuel sp sp' {} b1 c hinv hc
      refine ⟨i1, ?_⟩
      intro c' hc'; cases hc'
      refine ⟨b0, ?_⟩
      unfold fresh at hb0 ⊢; rw [m1, m2, m3]; exact hb0
  | borrowedCurve =>
    simp only [step] at h
    cases hc : sp.borrowedCurve fuel b with
    | error e => rw [hc] at h; cases h
    | ok r =>
      obtain ⟨c, b1⟩ := r
      rw [hc] at h; simp only [Outcome.ok_bind, Outcome.pure_eq_ok] at h; cases h
      refine ⟨hinv, ?_⟩
      intro c' hc'; cases hc'
      unfold SliderPath.borrowedCurve at hc
      cases hcur : sp.curve with
      | some c0 =>
        rw [hcur] at hc; simp only [Outcome.pure_eq_ok] at hc; cases hc
        rcases hinv with h0 | ⟨c1, b1, h1, h2⟩
        · rw [hcur] at h0; cases h0
        · rw [hcur] at h1; cases h1; exact ⟨b1, h2⟩
      | none =>
        rw [hcur] at hc; simp only [] at hc
        refine ⟨b, ?_⟩
        unfold fresh
        rw [← borrowed_eq_owned, hc]; rfl
  | setPoints pts =>
    simp only [step, Outcome.pure_eq_ok] at h; cases h
    exact ⟨Or.inl rfl, fun c hc => by cases hc⟩
  | setLen L =>
    simp only [step, Outcome.pure_eq_ok] at h; cases h
    exact ⟨Or.inl rfl, fun c hc => by cases hc⟩
  | clear =>
    simp only [step, Outcome.pure_eq_ok] at h; cases h
    exact ⟨Or.inl rfl, fun c hc => by cases hc⟩

/-- run a history of operations; returns the final state and what each operation showed. -/
def run (fuel : Nat) : SliderPath P F → CurveBuffers P F → List (Op P F) →
    Outcome (SliderPath P F × CurveBuffers P F × List (Option (Curve P F)))
  | sp, b, [] => pure (sp, b, [])
  | sp, b, op :: ops => do
    let (sp, b, r) ← step fuel sp b op
    let (sp, b, rs) ← run fuel sp b ops
    pure (sp, b, r :: rs)

/-- the fields after a history: mutators overwrite, accessors leave them alone. -/
def fieldsAfter : List (PathControlPoint P) × Option F → List (Op P F) → List (PathControlPoint P) × Option F
  | f, [] => f
  | f, .setPoints pts :: ops => fieldsAfter (pts, f.2) ops
  | f, .setLen L :: ops => fieldsAfter (f.1, L) ops
  | f, _ :: ops => fieldsAfter f ops

/-- **`access_reflects_current`**: after *every* operation history, starting from any state satisfying
the invariant (e.g. `SliderPath::new`), an access returns a curve that `Curve::new` computes for the
control points and expected distance as the history's mutators left them — never a curve of an earlier
setting. (On which buffers: see `compute_ignores_buffers_partial`; empty control points are F7.) -/
theorem access_reflects_current (fuel : Nat) (ops : List (Op P F)) (sp sp' : SliderPath P F)
    (b b' : CurveBuffers P F) (rs : List (Option (Curve P F))) (hinv : CacheInv fuel sp)
    (h : run fuel sp b ops = .ok (sp', b', rs)) :
    CacheInv fuel sp' ∧ sp'.mode = sp.mode ∧
    (sp'.controlPoints, sp'.expectedDist) = fieldsAfter (sp.controlPoints, sp.expectedDist) ops := by
  induction ops generalizing sp b rs with
  | nil => simp only [run, Outcome.pure_eq_ok] at h; cases h; exact ⟨hinv, rfl, rfl⟩
  | cons op ops ih =>
    simp only [run] at h
    cases hs : step fuel sp b op with
    | error e => rw [hs] at h; cases h
    | ok r =>
      obtain ⟨sp1, b1, r1⟩ := r
      rw [hs] at h; simp only [Outcome.ok_bind] at h
      cases hr : run fuel sp1 b1 ops with
      | error e => rw [hr] at h; cases h
      | ok r2 =>
        obtain ⟨sp2, b2, rs2⟩ := r2
        rw [hr] at h; simp only [Outcome.ok_bind, Outcome.pure_eq_ok] at h; cases h
        obtain ⟨i1, _⟩ := cache_invariant fuel sp sp1 b b1 op r1 hinv hs
        obtain ⟨i2, m2, f2⟩ := ih sp1 b1 rs2 i1 hr
        have hfields : sp1.mode = sp.mode ∧
            fieldsAfter (sp.controlPoints, sp.expectedDist) (op :: ops) =
              fieldsAfter (sp1.controlPoints, sp1.expectedDist) ops := by
          cases op with
          | setPoints pts => simp only [step, Outcome.pure_eq_ok] at hs; cases hs; exact ⟨rfl, rfl⟩
          | setLen L => simp only [step, Outcome.pure_eq_ok] at hs; cases hs; exact ⟨rfl, rfl⟩
          | clear => simp only [step, Outcome.pure_eq_ok] at hs; cases hs; exact ⟨rfl, rfl⟩
          | borrowedCurve =>
            simp only [step] at hs
            cases hc : sp.borrowedCurve fuel b with
            | error e => rw [hc] at hs; cases hs
            | ok r => rw [hc] at hs; simp only [Outcome.ok_bind, Outcome.pure_eq_ok] at hs; cases hs; exact ⟨rfl, rfl⟩
          | curveWithBufs =>
            simp only [step] at hs
            cases hc : sp.curveWithBufs fuel b with
            | error e => rw [hc] at hs; cases hs
            | ok r =>
              obtain ⟨c, sp3, b3⟩ := r
              rw [hc] at hs; simp only [Outcome.ok_bind, Outcome.pure_eq_ok] at hs; cases hs
              obtain ⟨_, m1, m2', m3, _⟩ := curveWithBufs_spec fuel sp sp1 b b1 c hinv hc
              exact ⟨m1, by simp only [fieldsAfter, m2', m3]⟩
          | curve =>
            simp only [step, SliderPath.getCurve] at hs
            cases hc : sp.curveWithBufs fuel {} with
            | error e => rw [hc] at hs; cases hs
            | ok r =>
              obtain ⟨c, sp3, b3⟩ := r
              rw [hc] at hs; simp only [Outcome.ok_bind, Outcome.pure_eq_ok] at hs; cases hs
              obtain ⟨_, m1, m2', m3, _⟩ := curveWithBufs_spec fuel sp sp1 {} b3 c hinv hc
              exact ⟨m1, by simp only [fieldsAfter, m2', m3]⟩
        exact ⟨i2, m2.trans hfields.1, f2.trans hfields.2.symm⟩

end Rosu.C18
