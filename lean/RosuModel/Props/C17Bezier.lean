/-
  Props/C17Bezier.lean — C17, Bezier segments: the adaptive flattening subdivides the **exact** curve (DESIGN.md 5.17).

  Structural (every `Scalar` instance, hence the IEEE instance; Lemmas/BezierSubdiv.lean):
  * `subdivide_is_de_casteljau`: `bezier_subdivide` returns the first / last points of the successive midpoint rows;
  * `approximate_bezier_is_flattenPure`: `approximate_bezier` = the pure stack recursion `flattenPure`, then the last point;
  * `bezier_output_closed`: every pushed vertex is obtained from control points by midpoints and the smoothing rule.

  Exact arithmetic (hypothesis `ExactScalar φ`, Lemmas/ExactArith.lean; satisfiable: `exactScalar_rat`, `exactScalar_real`):
  * `subdivide_left_arc` / `subdivide_right_arc`: the halves are the control polygons of the curve on `[0,1/2]`, `[1/2,1]`;
  * `bezier_pieces_are_subarcs`: every piece the loop emits is the control polygon of a sub-arc `[u,v] ⊆ [0,1]` of the
    ORIGINAL curve; the pieces are emitted in order of increasing parameter, consecutive pieces share their parameter
    end (`LeafChain`), the first starts at `0` and the last ends at `1`;
  * `bezier_piece_first_on_curve`: the first vertex pushed for every piece is `bezierEval u pts` for a parameter
    `0 ≤ u ≤ 1` — it lies on the exact curve (distance `0`), in the terms of `bezier_within_tolerance_statement`;
  * `bezier_last_on_curve`: so does the final vertex (`t = 1`);
  * `bezier_output_in_hull`: every pushed vertex lies in every closed half-plane containing the control polygon
    (the convex-hull property; covers the smoothed interior vertices).

  * `bezier_reduction` / `bezier_within_tolerance_of_flat_piece`: `bezier_within_tolerance_statement` (Props/C17.lean)
    follows from the same statement for ONE flat piece and its own curve (`flat_piece_within_tolerance_statement`);
  * `bezier_exact_up_to_quadratic`: for segments of at most three control points EVERY pushed vertex lies on the exact
    curve (the smoothing rule reproduces the quadratic at `1/2`): the tolerance statement with distance `0`.

  Not proved: `flat_piece_within_tolerance_statement` for polygons of four or more points (the distance bound for the
  smoothed interior vertices of a flat piece; degree-dependent real-analysis estimate).
-/
import RosuModel.Props.C17Ends
import RosuModel.Lemmas.BezierSubdiv
set_option linter.unusedSectionVars false
namespace Rosu.C17
open Rosu Rosu.Curve Rosu.Bez

/-! ### structural -/

section Structural
variable {P : Type} [Scalar P]

/-- **`bezier_subdivide` is de Casteljau's subdivision at `t = 1/2`** (every arithmetic, any scratch contents). -/
theorem subdivide_is_de_casteljau (pts l r mid l2 r2 m2 : List (Pos P))
    (h : bezierSubdivide pts l r mid = .ok (l2, r2, m2)) :
    l2.take pts.length = leftM pts ∧ r2.take pts.length = rightM pts := by
  obtain ⟨_, _, _, _, _, _, hl, hr⟩ := bezierSubdivide_spec pts l r mid l2 r2 m2 h
  exact ⟨hl, hr⟩

/-- **`approximate_bezier` is the pure recursion on the stack** followed by the last control point. -/
theorem approximate_bezier_is_flattenPure (fuel : Nat) (pts out : List (Pos P)) (b b' : BezierBuffers P)
    (h : approximateBezier fuel pts b = .ok (out, b')) :
    ∃ body last, flattenPure fuel [pts] = some body ∧ pts.getLast? = some last ∧ out = body ++ [last] :=
  approximateBezier_pure fuel pts out b b' h

/-- **closure**: a predicate that holds of the control points and is preserved by `(a + b)/2` and
`0.25·(a + 2b + c)` holds of every vertex `approximate_bezier` pushes. -/
theorem bezier_output_closed (C : Pos P → Prop) (hC : MixClosed C) (fuel : Nat) (pts out : List (Pos P))
    (b b' : BezierBuffers P) (h : approximateBezier fuel pts b = .ok (out, b')) (hpts : ∀ p ∈ pts, C p) :
    ∀ v ∈ out, C v := by
  obtain ⟨body, last, hbody, hlast, hout⟩ := approximateBezier_pure fuel pts out b b' h
  subst hout
  intro v hv
  rcases List.mem_append.mp hv with e | e
  · exact flattenPure_all C hC fuel [pts] body (fun q hq => by simp at hq; rw [hq]; exact hpts) hbody v e
  · simp at e; rw [e]; exact hpts last (List.mem_of_getLast? hlast)

end Structural

/-! ### exact arithmetic -/

section Exact
variable {P K : Type} [Scalar P] [Field K] [LinearOrder K] [IsStrictOrderedRing K] {φ : P → K}

/-- the `x` (resp. `y`) coordinates of a polygon, in `K`. -/
def cx (φ : P → K) (Q : List (Pos P)) : List K := Q.map fun p => φ p.x
def cy (φ : P → K) (Q : List (Pos P)) : List K := Q.map fun p => φ p.y

theorem half_ne : (2 : K) ≠ 0 := two_ne_zero

theorem midP_x (E : ExactScalar φ) (a b : Pos P) : φ (midP a b).x = lerp (1 / 2) (φ a.x) (φ b.x) := by
  simp only [midP, Pos.sdiv_x, Pos.add_x, E.div, E.add, E.two, lerp]; ring

theorem midP_y (E : ExactScalar φ) (a b : Pos P) : φ (midP a b).y = lerp (1 / 2) (φ a.y) (φ b.y) := by
  simp only [midP, Pos.sdiv_y, Pos.add_y, E.div, E.add, E.two, lerp]; ring

theorem cx_leftM (E : ExactScalar φ) (Q : List (Pos P)) : cx φ (leftM Q) = leftPoly (1 / 2) (cx φ Q) := by
  unfold cx leftM leftPoly
  rw [leftWith_map (fun p : Pos P => φ p.x) midP (lerp (1 / 2)) (midP_x E), List.length_map]

theorem cy_leftM (E : ExactScalar φ) (Q : List (Pos P)) : cy φ (leftM Q) = leftPoly (1 / 2) (cy φ Q) := by
  unfold cy leftM leftPoly
  rw [leftWith_map (fun p : Pos P => φ p.y) midP (lerp (1 / 2)) (midP_y E), List.length_map]

theorem cx_rightM (E : ExactScalar φ) (Q : List (Pos P)) : cx φ (rightM Q) = rightPoly (1 / 2) (cx φ Q) := by
  unfold cx rightM rightPoly
  rw [rightWith_map (fun p : Pos P => φ p.x) midP (lerp (1 / 2)) (midP_x E), List.length_map]

theorem cy_rightM (E : ExactScalar φ) (Q : List (Pos P)) : cy φ (rightM Q) = rightPoly (1 / 2) (cy φ Q) := by
  unfold cy rightM rightPoly
  rw [rightWith_map (fun p : Pos P => φ p.y) midP (lerp (1 / 2)) (midP_y E), List.length_map]

/-- **the left half is the curve on `[0, 1/2]`**: with `bez` the exact Bezier curve (de Casteljau over `K`). -/
theorem subdivide_left_arc (E : ExactScalar φ) (Q : List (Pos P)) (s : K) :
    bez (cx φ (leftM Q)) s = bez (cx φ Q) (s / 2) ∧ bez (cy φ (leftM Q)) s = bez (cy φ Q) (s / 2) := by
  have : NeZero (2 : K) := ⟨two_ne_zero⟩
  rw [cx_leftM E, cy_leftM E]
  exact ⟨bez_leftPoly_half _ s, bez_leftPoly_half _ s⟩

/-- **the right half is the curve on `[1/2, 1]`.** -/
theorem subdivide_right_arc (E : ExactScalar φ) (Q : List (Pos P)) (s : K) :
    bez (cx φ (rightM Q)) s = bez (cx φ Q) ((1 + s) / 2) ∧ bez (cy φ (rightM Q)) s = bez (cy φ Q) ((1 + s) / 2) := by
  have : NeZero (2 : K) := ⟨two_ne_zero⟩
  rw [cx_rightM E, cy_rightM E]
  exact ⟨bez_rightPoly_half _ s, bez_rightPoly_half _ s⟩

/-- `q` is the control polygon of the restriction of the curve of `orig` to the parameter interval `[u, v]`
(re-parametrised to `[0,1]`). -/
structure IsArc (φ : P → K) (orig q : List (Pos P)) (u v : P) : Prop where
  len : q.length = orig.length
  x : ∀ s : K, bez (cx φ q) s = bez (cx φ orig) (φ u + s * (φ v - φ u))
  y : ∀ s : K, bez (cy φ q) s = bez (cy φ orig) (φ u + s * (φ v - φ u))

theorem IsArc.whole (E : ExactScalar φ) (orig : List (Pos P)) : IsArc φ orig orig 0 1 where
  len := rfl
  x s := by rw [E.zero, E.one]; congr 1; ring
  y s := by rw [E.zero, E.one]; congr 1; ring

theorem phi_midpoint (E : ExactScalar φ) (u v : P) : φ ((u + v) / (2 : P)) = (φ u + φ v) / 2 := by
  rw [E.div, E.add, E.two]

theorem IsArc.left (E : ExactScalar φ) {orig q : List (Pos P)} {u v : P} (h : IsArc φ orig q u v) :
    IsArc φ orig (leftM q) u ((u + v) / (2 : P)) where
  len := by rw [length_leftM, h.len]
  x s := by rw [(subdivide_left_arc E q s).1, h.x, phi_midpoint E]; congr 1; ring
  y s := by rw [(subdivide_left_arc E q s).2, h.y, phi_midpoint E]; congr 1; ring

theorem IsArc.right (E : ExactScalar φ) {orig q : List (Pos P)} {u v : P} (h : IsArc φ orig q u v) :
    IsArc φ orig (rightM q) ((u + v) / (2 : P)) v where
  len := by rw [length_rightM, h.len]
  x s := by rw [(subdivide_right_arc E q s).1, h.x, phi_midpoint E]; congr 1; ring
  y s := by rw [(subdivide_right_arc E q s).2, h.y, phi_midpoint E]; congr 1; ring

/-- the first control point of a sub-arc is the point of the original curve at the parameter `u`. -/
theorem IsArc.head (h : IsArc φ orig q u v) (p0 : Pos P) (rest : List (Pos P)) (hq : q = p0 :: rest) :
    φ p0.x = bez (cx φ orig) (φ u) ∧ φ p0.y = bez (cy φ orig) (φ u) := by
  have hx := h.x 0
  have hy := h.y 0
  rw [bez_zero, zero_mul, add_zero] at hx hy
  subst hq
  exact ⟨hx, hy⟩

/-- the polygons on the stack are consecutive sub-arcs covering `[a, b]`, top of the stack first. -/
def StackChain (φ : P → K) (orig : List (Pos P)) : List (List (Pos P)) → P → P → Prop
  | [], a, b => a = b
  | q :: rest, a, b => ∃ m, φ a ≤ φ m ∧ IsArc φ orig q a m ∧ StackChain φ orig rest m b

/-- a piece the loop emitted: its control polygon and its parameter interval. -/
structure Leaf (P : Type) where
  poly : List (Pos P)
  u : P
  v : P

/-- the emitted pieces are flat consecutive sub-arcs covering `[a, b]`, in order of increasing parameter. -/
def LeafChain (φ : P → K) (orig : List (Pos P)) : List (Leaf P) → P → P → Prop
  | [], a, b => a = b
  | lf :: rest, a, b => lf.u = a ∧ φ lf.u ≤ φ lf.v ∧ bezierIsFlatEnough lf.poly = true ∧
      IsArc φ orig lf.poly lf.u lf.v ∧ LeafChain φ orig rest lf.v b

/-- **loop invariant**: if the stack is a chain of sub-arcs of `orig` over `[a, b]`, the loop's output is the
concatenation of `flatPiece` over a chain of flat sub-arcs over `[a, b]`. -/
theorem flattenPure_arcs (E : ExactScalar φ) (orig : List (Pos P)) : ∀ (fuel : Nat) (stack : List (List (Pos P)))
    (a b : P) (out : List (Pos P)), StackChain φ orig stack a b → flattenPure fuel stack = some out →
    ∃ leaves : List (Leaf P), LeafChain φ orig leaves a b ∧ out = leaves.flatMap fun lf => flatPiece lf.poly
  | 0, [], a, b, out, hc, h => by
    simp only [flattenPure, Option.some.injEq] at h; subst h
    exact ⟨[], hc, rfl⟩
  | 0, _ :: _, a, b, out, _, h => by simp [flattenPure] at h
  | _ + 1, [], a, b, out, hc, h => by
    simp only [flattenPure, Option.some.injEq] at h; subst h
    exact ⟨[], hc, rfl⟩
  | fuel + 1, Q :: stack, a, b, out, hc, h => by
    obtain ⟨m, ham, harc, hrest⟩ := hc
    rw [flattenPure] at h
    split at h
    · rename_i hflat
      cases hr : flattenPure fuel stack with
      | none => rw [hr] at h; simp at h
      | some rest =>
        rw [hr] at h
        simp only [Option.map_some, Option.some.injEq] at h
        subst h
        obtain ⟨leaves, hl, hout⟩ := flattenPure_arcs E orig fuel stack m b rest hrest hr
        refine ⟨⟨Q, a, m⟩ :: leaves, ⟨rfl, ham, hflat, harc, hl⟩, ?_⟩
        rw [List.flatMap_cons, hout]
    · have hmid := phi_midpoint E a m
      have h2 : (0 : K) < 2 := two_pos
      have hc' : StackChain φ orig (leftM Q :: rightM Q :: stack) a b := by
        refine ⟨(a + m) / (2 : P), ?_, harc.left E, m, ?_, harc.right E, hrest⟩
        · rw [hmid, le_div_iff₀ h2]; linarith
        · rw [hmid, div_le_iff₀ h2]; linarith
      exact flattenPure_arcs E orig fuel _ a b out hc' h

/-- parameters along a chain of pieces are monotone and stay inside `[a, b]`. -/
theorem LeafChain.bounds : ∀ (leaves : List (Leaf P)) (a b : P), LeafChain φ orig leaves a b →
    φ a ≤ φ b ∧ ∀ lf ∈ leaves, φ a ≤ φ lf.u ∧ φ lf.u ≤ φ lf.v ∧ φ lf.v ≤ φ b
  | [], a, b, h => by
    have : a = b := h
    subst this
    exact ⟨le_refl _, fun lf hlf => by simp at hlf⟩
  | lf :: rest, a, b, h => by
    obtain ⟨hu, huv, _, _, hrest⟩ := h
    obtain ⟨hvb, hall⟩ := LeafChain.bounds rest lf.v b hrest
    subst hu
    refine ⟨le_trans huv hvb, fun l hl => ?_⟩
    rcases List.mem_cons.mp hl with e | e
    · rw [e]; exact ⟨le_refl _, huv, hvb⟩
    · obtain ⟨h1, h2, h3⟩ := hall l e
      exact ⟨le_trans huv h1, h2, h3⟩

/-- **every piece the flattening handles is a sub-arc of the original curve.** In exact arithmetic the output of
`approximate_bezier` is `flatPiece` of a chain of flat polygons, each the control polygon of the original curve on
`[u, v]`, consecutive ones sharing their parameter end, from `0` to `1`; then the last control point. -/
theorem bezier_pieces_are_subarcs (E : ExactScalar φ) (fuel : Nat) (pts out : List (Pos P)) (b b' : BezierBuffers P)
    (h : approximateBezier fuel pts b = .ok (out, b')) :
    ∃ (leaves : List (Leaf P)) (last : Pos P), LeafChain φ pts leaves 0 1 ∧ pts.getLast? = some last ∧
      out = (leaves.flatMap fun lf => flatPiece lf.poly) ++ [last] := by
  obtain ⟨body, last, hbody, hlast, hout⟩ := approximateBezier_pure fuel pts out b b' h
  have hchain : StackChain φ pts [pts] 0 1 :=
    ⟨1, by rw [E.zero, E.one]; exact zero_le_one, IsArc.whole E pts, rfl⟩
  obtain ⟨leaves, hl, hb⟩ := flattenPure_arcs E pts fuel [pts] 0 1 body hchain hbody
  exact ⟨leaves, last, hl, hlast, by rw [hout, hb]⟩

/-! ### the project's `bezierEval` is the exact curve -/

theorem deCasteljauStep_eq (t : P) : ∀ Q : List (Pos P),
    deCasteljauStep t Q = stepWith (fun a b => a.smul ((1 : P) - t) + b.smul t) Q
  | [] => rfl
  | [_] => rfl
  | a :: b :: rest => by
    rw [deCasteljauStep, stepWith_cons2, deCasteljauStep_eq t (b :: rest)]

theorem cx_deCasteljauStep (E : ExactScalar φ) (t : P) (Q : List (Pos P)) :
    cx φ (deCasteljauStep t Q) = dcStep (φ t) (cx φ Q) := by
  rw [deCasteljauStep_eq]
  unfold cx
  apply stepWith_map
  intro a b
  simp only [Pos.add_x, Pos.smul_x, E.add, E.mul, E.sub, E.one, lerp]; ring

theorem cy_deCasteljauStep (E : ExactScalar φ) (t : P) (Q : List (Pos P)) :
    cy φ (deCasteljauStep t Q) = dcStep (φ t) (cy φ Q) := by
  rw [deCasteljauStep_eq]
  unfold cy
  apply stepWith_map
  intro a b
  simp only [Pos.add_y, Pos.smul_y, E.add, E.mul, E.sub, E.one, lerp]; ring

theorem bezierEval_exact_aux (E : ExactScalar φ) (t : P) : ∀ (n : Nat) (Q : List (Pos P)), Q.length = n + 1 →
    ∃ q, bezierEval t (n + 1) Q = some q ∧ φ q.x = evalBez (φ t) n (cx φ Q) ∧ φ q.y = evalBez (φ t) n (cy φ Q)
  | 0, [a], _ => ⟨a, rfl, rfl, rfl⟩
  | 0, [], h => by simp at h
  | 0, _ :: _ :: _, h => by simp at h
  | n + 1, [], h => by simp at h
  | n + 1, [_], h => by simp at h
  | n + 1, a :: b :: rest, h => by
    have hlen : (deCasteljauStep t (a :: b :: rest)).length = n + 1 := by
      rw [deCasteljauStep_eq, length_stepWith]; simp only [List.length_cons] at h ⊢; omega
    obtain ⟨q, hq, hx, hy⟩ := bezierEval_exact_aux E t n _ hlen
    refine ⟨q, ?_, ?_, ?_⟩
    · rw [← hq]; rfl
    · rw [hx, cx_deCasteljauStep E]; rfl
    · rw [hy, cy_deCasteljauStep E]; rfl

/-- **`bezierEval` (Props/C17.lean) computes the exact curve `bez`**, coordinate-wise. -/
theorem bezierEval_exact (E : ExactScalar φ) (t : P) (pts : List (Pos P)) (hne : pts ≠ []) :
    ∃ q, bezierEval t pts.length pts = some q ∧ φ q.x = bez (cx φ pts) (φ t) ∧ φ q.y = bez (cy φ pts) (φ t) := by
  obtain ⟨n, hn⟩ : ∃ n, pts.length = n + 1 := ⟨pts.length - 1, by
    have := List.length_pos_iff.mpr hne; omega⟩
  obtain ⟨q, hq, hx, hy⟩ := bezierEval_exact_aux E t n pts hn
  refine ⟨q, by rw [hn]; exact hq, ?_, ?_⟩
  · rw [hx]; unfold bez cx; rw [List.length_map, hn]; rfl
  · rw [hy]; unfold bez cy; rw [List.length_map, hn]; rfl

/-- **`bezier_piece_first_on_curve`**: in exact arithmetic, the first vertex `approximate_bezier` pushes for every
piece (`l[0]` of `bezier_approximate`, i.e. the piece's first control point) **is** the point `bezierEval u pts` of
the exact curve, for a parameter `0 ≤ u ≤ 1` — the parameter at which the piece's sub-arc starts. -/
theorem bezier_piece_first_on_curve (E : ExactScalar φ) (fuel : Nat) (pts out : List (Pos P)) (b b' : BezierBuffers P)
    (h : approximateBezier fuel pts b = .ok (out, b')) :
    ∃ (leaves : List (Leaf P)) (last : Pos P), LeafChain φ pts leaves 0 1 ∧
      out = (leaves.flatMap fun lf => flatPiece lf.poly) ++ [last] ∧
      ∀ lf ∈ leaves, ∃ v, (flatPiece lf.poly).head? = some v ∧ Scalar.le (0 : P) lf.u = true ∧
        Scalar.le lf.u (1 : P) = true ∧ bezierEval lf.u pts.length pts = some v := by
  obtain ⟨leaves, last, hl, hlast, hout⟩ := bezier_pieces_are_subarcs E fuel pts out b b' h
  have hne : pts ≠ [] := by intro h0; subst h0; simp at hlast
  obtain ⟨_, hb⟩ := LeafChain.bounds leaves 0 1 hl
  have hmem : ∀ (ls : List (Leaf P)) (a c : P), LeafChain φ pts ls a c → ∀ lf ∈ ls, IsArc φ pts lf.poly lf.u lf.v := by
    intro ls
    induction ls with
    | nil => intro a c _ lf hlf; simp at hlf
    | cons x xs ih =>
      intro a c hc lf hlf
      obtain ⟨_, _, _, harc, hrest⟩ := hc
      rcases List.mem_cons.mp hlf with e | e
      · rw [e]; exact harc
      · exact ih _ _ hrest lf e
  refine ⟨leaves, last, hl, hout, fun lf hlf => ?_⟩
  have harc := hmem leaves 0 1 hl lf hlf
  obtain ⟨h1, h2, h3⟩ := hb lf hlf
  have hlen : 0 < lf.poly.length := by rw [harc.len]; exact List.length_pos_iff.mpr hne
  obtain ⟨p0, rest, hpoly⟩ : ∃ p0 rest, lf.poly = p0 :: rest := by
    cases hp : lf.poly with
    | nil => rw [hp] at hlen; simp at hlen
    | cons a t => exact ⟨a, t, rfl⟩
  obtain ⟨hx, hy⟩ := harc.head p0 rest hpoly
  obtain ⟨q, hq, hqx, hqy⟩ := bezierEval_exact E lf.u pts hne
  have hqp : q = p0 := Pos.ext' (E.inj (by rw [hqx, hx])) (E.inj (by rw [hqy, hy]))
  refine ⟨p0, by rw [hpoly]; rfl, ?_, ?_, by rw [hq, hqp]⟩
  · rw [E.le_iff]; exact h1
  · rw [E.le_iff]; exact le_trans h2 h3

theorem getLast?_map_headD (f : Pos P → K) (pts : List (Pos P)) (last : Pos P) (h : pts.getLast? = some last) :
    (pts.map f).reverse.headD 0 = f last := by
  rw [List.getLast?_eq_head?_reverse] at h
  rw [← List.map_reverse]
  cases hr : pts.reverse with
  | nil => rw [hr] at h; simp at h
  | cons a t => rw [hr] at h; simp at h; simp [h]

/-- **the final vertex lies on the curve**: `path.push(points[p - 1])` is `bezierEval 1 pts`. -/
theorem bezier_last_on_curve (E : ExactScalar φ) (fuel : Nat) (pts out : List (Pos P)) (b b' : BezierBuffers P)
    (h : approximateBezier fuel pts b = .ok (out, b')) :
    ∃ v, out.getLast? = some v ∧ bezierEval (1 : P) pts.length pts = some v := by
  obtain ⟨body, last, _, hlast, hout⟩ := approximateBezier_pure fuel pts out b b' h
  have hne : pts ≠ [] := by intro h0; subst h0; simp at hlast
  obtain ⟨q, hq, hqx, hqy⟩ := bezierEval_exact E (1 : P) pts hne
  rw [E.one, bez_one] at hqx hqy
  have hx : φ q.x = φ last.x := by rw [hqx]; exact getLast?_map_headD _ pts last hlast
  have hy : φ q.y = φ last.y := by rw [hqy]; exact getLast?_map_headD _ pts last hlast
  have hql : q = last := Pos.ext' (E.inj hx) (E.inj hy)
  exact ⟨last, by rw [hout, List.getLast?_concat], by rw [hq, hql]⟩

/-- first output vertex = first control point, last = last control point (`bezier_first_point`, `bezier_last_point`
of Props/C17Ends.lean, every arithmetic). -/
theorem bezier_output_endpoints {P : Type} [Scalar P] (fuel : Nat) (pts out : List (Pos P)) (b b' : BezierBuffers P)
    (h : approximateBezier fuel pts b = .ok (out, b')) : out.head? = pts.head? ∧ out.getLast? = pts.getLast? :=
  ⟨(bezier_first_point fuel pts out b b' h).1, bezier_last_point fuel pts out b b' h⟩

/-! ### convex hull -/

/-- a closed half-plane `a x + b y ≤ c` is closed under the two mixing rules. -/
theorem halfplane_closed (E : ExactScalar φ) (a b c : K) :
    MixClosed (fun p : Pos P => a * φ p.x + b * φ p.y ≤ c) where
  mid p q hp hq := by
    simp only [midP_x E, midP_y E, lerp]
    linarith
  smooth p q r hp hq hr := by
    have h25 : φ (0.25 : P) = 1 / 4 := by rw [E.sci]; norm_num
    simp only [Pos.smul_x, Pos.smul_y, Pos.add_x, Pos.add_y, E.mul, E.add, E.two, h25]
    linarith

/-- **convex-hull property**: every vertex `approximate_bezier` pushes (first vertices, smoothed interior vertices,
last point) lies in every closed half-plane that contains the control polygon, i.e. in its convex hull. -/
theorem bezier_output_in_hull (E : ExactScalar φ) (fuel : Nat) (pts out : List (Pos P)) (b b' : BezierBuffers P)
    (h : approximateBezier fuel pts b = .ok (out, b')) (a₁ a₂ c : K)
    (hpts : ∀ p ∈ pts, a₁ * φ p.x + a₂ * φ p.y ≤ c) : ∀ v ∈ out, a₁ * φ v.x + a₂ * φ v.y ≤ c :=
  bezier_output_closed _ (halfplane_closed E a₁ a₂ c) fuel pts out b b' h hpts

/-! ### reduction of the tolerance statement to a single flat piece -/

theorem LeafChain.mem : ∀ (ls : List (Leaf P)) (a c : P), LeafChain φ orig ls a c → ∀ lf ∈ ls,
    bezierIsFlatEnough lf.poly = true ∧ IsArc φ orig lf.poly lf.u lf.v
  | [], _, _, _, lf, hlf => by simp at hlf
  | x :: xs, a, c, hc, lf, hlf => by
    obtain ⟨_, _, hflat, harc, hrest⟩ := hc
    rcases List.mem_cons.mp hlf with e | e
    · rw [e]; exact ⟨hflat, harc⟩
    · exact LeafChain.mem xs _ _ hrest lf e

/-- **reduction to one flat piece** (exact arithmetic), for an arbitrary relation `R v q` between a pushed vertex and a
curve point (`R` reflexive): if every vertex `bezier_approximate` pushes for a flat polygon of `n` points is `R`-related to
a point of that polygon's own curve, then every vertex `approximate_bezier` pushes for a polygon of `n` points is
`R`-related to a point of the ORIGINAL curve. Because every piece is a sub-arc, the piece's curve at `s` is the original
curve at `u + s (v - u)`; the last vertex is the curve's end point. -/
theorem bezier_reduction (E : ExactScalar φ) (R : Pos P → Pos P → Prop) (hrefl : ∀ v, R v v) (n : Nat)
    (hloc : ∀ Q : List (Pos P), Q.length = n → Q ≠ [] → bezierIsFlatEnough Q = true → ∀ v ∈ flatPiece Q,
      ∃ s q, Scalar.le (0 : P) s = true ∧ Scalar.le s (1 : P) = true ∧ bezierEval s Q.length Q = some q ∧ R v q)
    (fuel : Nat) (pts out : List (Pos P)) (b b' : BezierBuffers P) (hn : pts.length = n)
    (hap : approximateBezier fuel pts b = .ok (out, b')) :
    ∀ v ∈ out, ∃ t q, Scalar.le (0 : P) t = true ∧ Scalar.le t (1 : P) = true ∧
      bezierEval t pts.length pts = some q ∧ R v q := by
  intro v hv
  obtain ⟨leaves, last, hl, hlast, hout⟩ := bezier_pieces_are_subarcs E fuel pts out b b' hap
  have hne : pts ≠ [] := by intro h0; subst h0; simp at hlast
  obtain ⟨_, hb⟩ := LeafChain.bounds leaves 0 1 hl
  rw [hout] at hv
  rcases List.mem_append.mp hv with hv | hv
  · obtain ⟨lf, hlf, hvlf⟩ := List.mem_flatMap.mp hv
    obtain ⟨hflat, harc⟩ := LeafChain.mem leaves 0 1 hl lf hlf
    obtain ⟨h1, h2, h3⟩ := hb lf hlf
    rw [E.zero] at h1
    rw [E.one] at h3
    have hpne : lf.poly ≠ [] := by
      intro h0
      have := harc.len
      rw [h0] at this
      exact hne (List.length_eq_zero_iff.mp this.symm)
    obtain ⟨s, q, hs0, hs1, hq, hd⟩ := hloc lf.poly (by rw [harc.len, hn]) hpne hflat v hvlf
    rw [E.le_iff, E.zero] at hs0
    rw [E.le_iff, E.one] at hs1
    obtain ⟨q1, hq1, hq1x, hq1y⟩ := bezierEval_exact E s lf.poly hpne
    rw [hq] at hq1
    cases hq1
    have ht : φ (lf.u + s * (lf.v - lf.u)) = φ lf.u + φ s * (φ lf.v - φ lf.u) := by
      rw [E.add, E.mul, E.sub]
    obtain ⟨q2, hq2, hq2x, hq2y⟩ := bezierEval_exact E (lf.u + s * (lf.v - lf.u)) pts hne
    have hq2q : q2 = q := by
      apply Pos.ext' <;> apply E.inj
      · rw [hq2x, ht, ← harc.x, hq1x]
      · rw [hq2y, ht, ← harc.y, hq1y]
    refine ⟨lf.u + s * (lf.v - lf.u), q, ?_, ?_, by rw [hq2, hq2q], hd⟩
    · rw [E.le_iff, E.zero, ht]
      exact add_nonneg h1 (mul_nonneg hs0 (sub_nonneg.mpr h2))
    · rw [E.le_iff, E.one, ht]
      nlinarith [mul_nonneg (sub_nonneg.mpr hs1) (sub_nonneg.mpr h2)]
  · simp only [List.mem_singleton] at hv
    subst hv
    obtain ⟨w, hw, hev⟩ := bezier_last_on_curve E fuel pts out b b' hap
    rw [hout, List.getLast?_concat] at hw
    cases hw
    refine ⟨1, v, ?_, ?_, hev, hrefl v⟩
    · rw [E.le_iff, E.zero, E.one]; exact zero_le_one
    · rw [E.le_iff]

/-- the tolerance statement for **one flat piece** and its own curve: every vertex `bezier_approximate` pushes for a
control polygon that passes `bezier_is_flat_enough` is within `tol` of a point of that polygon's Bezier curve.
**Not proved** for polygons of more than three points. (The classical bound on the distance between a Bezier curve and
its control polygon in terms of the second differences grows with the degree, so for polygons of arbitrary length `tol`
cannot be a constant; for a fixed degree it is a finite-dimensional real-analysis estimate.) -/
def flat_piece_within_tolerance_statement (P : Type) [Scalar P] (tol : P) : Prop :=
  ∀ Q : List (Pos P), Q ≠ [] → bezierIsFlatEnough Q = true → ∀ v ∈ flatPiece Q,
    ∃ s q, Scalar.le (0 : P) s = true ∧ Scalar.le s (1 : P) = true ∧ bezierEval s Q.length Q = some q ∧
      Scalar.le (Pos.lengthSquared (v - q)) (tol * tol) = true

theorem lengthSquared_self_le (E : ExactScalar φ) (v : Pos P) (tol : P) :
    Scalar.le (Pos.lengthSquared (v - v)) (tol * tol) = true := by
  rw [E.le_iff]
  simp only [Pos.lengthSquared, Pos.dot, Pos.sub_x, Pos.sub_y, E.add, E.mul, E.sub, sub_self, mul_zero, add_zero]
  exact mul_self_nonneg _

/-- **the global tolerance statement of C17 follows from the statement for one flat piece** (exact arithmetic). What
remains open for `bezier_within_tolerance_statement` is therefore only the local estimate
`flat_piece_within_tolerance_statement`. -/
theorem bezier_within_tolerance_of_flat_piece (E : ExactScalar φ) (tol : P)
    (hloc : flat_piece_within_tolerance_statement P tol) : bezier_within_tolerance_statement P tol := by
  intro fuel pts out b b' hap
  exact bezier_reduction E (fun v q => Scalar.le (Pos.lengthSquared (v - q)) (tol * tol) = true)
    (fun v => lengthSquared_self_le E v tol) pts.length (fun Q _ hne hflat => hloc Q hne hflat)
    fuel pts out b b' rfl hap

/-! ### polygons of at most three points: every pushed vertex lies on the curve -/

theorem phi_half (E : ExactScalar φ) : φ ((1 : P) / (2 : P)) = 1 / 2 := by rw [E.div, E.one, E.two]

/-- the first vertex of a piece is the piece's curve at `0`. -/
theorem flatPiece_head_exact (E : ExactScalar φ) (p0 : Pos P) (rest : List (Pos P)) :
    bezierEval (0 : P) (p0 :: rest).length (p0 :: rest) = some p0 := by
  obtain ⟨q, hq, hx, hy⟩ := bezierEval_exact E (0 : P) (p0 :: rest) (by simp)
  rw [E.zero, bez_zero] at hx hy
  have : q = p0 := Pos.ext' (E.inj hx) (E.inj hy)
  rw [hq, this]

/-- **a quadratic piece is flattened exactly**: for three control points `bezier_approximate` pushes `a` and
`0.25·(l₁ + 2 l₂ + r₁)`, which is the curve at `1/2`. -/
theorem flatPiece_quadratic (E : ExactScalar φ) (a b c : Pos P) :
    ∃ w, flatPiece [a, b, c] = [a, w] ∧ bezierEval ((1 : P) / (2 : P)) 3 [a, b, c] = some w := by
  refine ⟨(midP a b + (midP (midP a b) (midP b c)).smul (2 : P) + midP b c).smul (0.25 : P), rfl, ?_⟩
  obtain ⟨q, hq, hx, hy⟩ := bezierEval_exact E ((1 : P) / (2 : P)) [a, b, c] (by simp)
  have h25 : φ (0.25 : P) = 1 / 4 := by rw [E.sci]; norm_num
  rw [phi_half E] at hx hy
  have e : q = (midP a b + (midP (midP a b) (midP b c)).smul (2 : P) + midP b c).smul (0.25 : P) := by
    apply Pos.ext' <;> apply E.inj
    · rw [hx]
      simp only [Pos.smul_x, Pos.add_x, E.mul, E.add, E.two, h25, midP_x E, bez, cx, List.map, List.length,
        evalBez, dcStep, stepWith, lerp, List.headD]
      ring
    · rw [hy]
      simp only [Pos.smul_y, Pos.add_y, E.mul, E.add, E.two, h25, midP_y E, bez, cy, List.map, List.length,
        evalBez, dcStep, stepWith, lerp, List.headD]
      ring
  rw [← e]; exact hq

/-- **C17 for Bezier segments of at most three control points (exact arithmetic): every vertex `approximate_bezier`
pushes lies ON the exact curve** — `bezier_within_tolerance_statement` with distance `0`, for linear and quadratic
segments (the common slider shapes), any fuel on which the flattening succeeds, any scratch contents. -/
theorem bezier_exact_up_to_quadratic (E : ExactScalar φ) (fuel : Nat) (pts out : List (Pos P)) (b b' : BezierBuffers P)
    (h3 : pts.length ≤ 3) (hap : approximateBezier fuel pts b = .ok (out, b')) :
    ∀ v ∈ out, ∃ t, Scalar.le (0 : P) t = true ∧ Scalar.le t (1 : P) = true ∧
      bezierEval t pts.length pts = some v := by
  intro v hv
  have key := bezier_reduction E (fun v q => v = q) (fun _ => rfl) pts.length (fun Q hQ hne _ w hw => by
      have h0 : Scalar.le (0 : P) (0 : P) = true := by rw [E.le_iff]
      have h01 : Scalar.le (0 : P) (1 : P) = true := by rw [E.le_iff, E.zero, E.one]; exact zero_le_one
      match Q, hQ, hne with
      | [a], _, _ =>
        have : w = a := by simpa [flatPiece, leftM, rightM, leftWith, rightWith, approxTriples] using hw
        exact ⟨0, a, h0, h01, flatPiece_head_exact E a [], this⟩
      | [a, b], _, _ =>
        have : w = a := by simpa [flatPiece, leftM, rightM, leftWith, rightWith, approxTriples] using hw
        exact ⟨0, a, h0, h01, flatPiece_head_exact E a [b], this⟩
      | [a, b, c], _, _ =>
        obtain ⟨m, hm, hev⟩ := flatPiece_quadratic E a b c
        rw [hm] at hw
        rcases List.mem_cons.mp hw with e | e
        · exact ⟨0, a, h0, h01, flatPiece_head_exact E a [b, c], e⟩
        · simp only [List.mem_singleton] at e
          refine ⟨(1 : P) / (2 : P), m, ?_, ?_, hev, e⟩
          · rw [E.le_iff, E.zero, phi_half E]; positivity
          · rw [E.le_iff, E.one, phi_half E]; norm_num
      | _ :: _ :: _ :: _ :: _, hQ, _ => simp only [List.length_cons] at hQ; omega)
    fuel pts out b b' rfl hap v hv
  obtain ⟨t, q, h0, h1, hq, hvq⟩ := key
  exact ⟨t, h0, h1, by rw [hq, hvq]⟩

end Exact

/-! ### non-vacuity: the rational instance (`exactScalar_rat`), evaluated by the kernel -/

section NonVacuity
open Rosu.ToyRat

deriving instance DecidableEq for Rosu.Pos

/-- three scratch cells holding arbitrary (here: zero) points. -/
def z3 : List (Pos Rat) := List.replicate 3 Pos.zero
def z4 : List (Pos Rat) := List.replicate 4 Pos.zero
/-- a quadratic and a cubic control polygon. -/
def quad : List (Pos Rat) := [⟨0, 0⟩, ⟨2, 4⟩, ⟨4, 0⟩]
def cubic : List (Pos Rat) := [⟨0, 0⟩, ⟨0, 8⟩, ⟨8, 8⟩, ⟨8, 0⟩]

/-- `bezier_subdivide` on the quadratic returns the de Casteljau halves … -/
example : bezierSubdivide quad z3 z3 z3 =
    .ok ([⟨0, 0⟩, ⟨1, 2⟩, ⟨2, 2⟩], [⟨2, 2⟩, ⟨3, 2⟩, ⟨4, 0⟩], [⟨2, 2⟩, ⟨3, 2⟩, ⟨4, 0⟩]) := by decide +kernel
example : leftM quad = [⟨0, 0⟩, ⟨1, 2⟩, ⟨2, 2⟩] ∧ rightM quad = [⟨2, 2⟩, ⟨3, 2⟩, ⟨4, 0⟩] := by decide +kernel

/-- … and on the cubic (whatever the scratch buffers hold: here stale copies of the polygon itself). -/
example : (bezierSubdivide cubic cubic cubic z4).map (fun r => (r.1, r.2.1)) =
    .ok ([⟨0, 0⟩, ⟨0, 4⟩, ⟨2, 6⟩, ⟨4, 6⟩], [⟨4, 6⟩, ⟨6, 6⟩, ⟨8, 4⟩, ⟨8, 0⟩]) := by decide +kernel
example : leftM cubic = [⟨0, 0⟩, ⟨0, 4⟩, ⟨2, 6⟩, ⟨4, 6⟩] ∧ rightM cubic = [⟨4, 6⟩, ⟨6, 6⟩, ⟨8, 4⟩, ⟨8, 0⟩] := by
  decide +kernel

/-- the split point is the curve at `1/2`; the left half evaluated at `1/2` is the curve at `1/4`. -/
example : bezierEval (1 / 2 : Rat) 4 cubic = some ⟨4, 6⟩ := by decide +kernel
example : bezierEval (1 / 2 : Rat) 4 (leftM cubic) = bezierEval (1 / 4 : Rat) 4 cubic := by decide +kernel
example : bezierEval (1 / 2 : Rat) 4 (rightM cubic) = bezierEval (3 / 4 : Rat) 4 cubic := by decide +kernel
example : bez (cx id cubic) (1 / 4 : Rat) = 5 / 4 ∧ bez (cy id cubic) (1 / 4 : Rat) = 9 / 2 := by decide +kernel

/-- the flattening of the quadratic succeeds (9 vertices); `(1, 3/2)`, the first vertex of its second piece, is the
curve at `1/4`. -/
example : (approximateBezier 50 quad {}).map (fun r => r.1) =
    .ok [⟨0, 0⟩, ⟨1 / 2, 7 / 8⟩, ⟨1, 3 / 2⟩, ⟨3 / 2, 15 / 8⟩, ⟨2, 2⟩, ⟨5 / 2, 15 / 8⟩, ⟨3, 3 / 2⟩, ⟨7 / 2, 7 / 8⟩,
      ⟨4, 0⟩] := by decide +kernel
example : bezierEval (1 / 4 : Rat) 3 quad = some ⟨1, 3 / 2⟩ := by decide +kernel

/-- the theorems apply to a run that succeeds (hypotheses satisfiable). -/
example : ∃ (leaves : List (Leaf Rat)) (last : Pos Rat), LeafChain (id : Rat → Rat) cubic leaves 0 1 ∧
    ∃ out b', approximateBezier 50 cubic {} = .ok (out, b') ∧
      out = (leaves.flatMap fun lf => flatPiece lf.poly) ++ [last] := by
  have hok : (match approximateBezier 50 cubic ({} : BezierBuffers Rat) with
      | .ok _ => true
      | .error _ => false) = true := by decide +kernel
  cases hr : approximateBezier 50 cubic ({} : BezierBuffers Rat) with
  | error e => rw [hr] at hok; cases hok
  | ok r =>
    obtain ⟨out, b'⟩ := r
    obtain ⟨leaves, last, hl, _, hout⟩ := bezier_pieces_are_subarcs exactScalar_rat 50 cubic out {} b' hr
    exact ⟨leaves, last, hl, out, b', rfl, hout⟩

/-- every vertex of the flattened quadratic lies on the curve (`bezier_exact_up_to_quadratic` applies). -/
example : ∃ out b', approximateBezier 50 quad {} = .ok (out, b') ∧ out.length = 9 ∧
    ∀ v ∈ out, ∃ t, Scalar.le (0 : Rat) t = true ∧ Scalar.le t (1 : Rat) = true ∧ bezierEval t 3 quad = some v := by
  have hok : (match approximateBezier 50 quad ({} : BezierBuffers Rat) with
      | .ok r => r.1.length == 9
      | .error _ => false) = true := by decide +kernel
  cases hr : approximateBezier 50 quad ({} : BezierBuffers Rat) with
  | error e => rw [hr] at hok; cases hok
  | ok r =>
    obtain ⟨out, b'⟩ := r
    rw [hr] at hok
    exact ⟨out, b', rfl, by simpa using hok,
      bezier_exact_up_to_quadratic exactScalar_rat 50 quad out {} b' (by decide) hr⟩

end NonVacuity

end Rosu.C17
