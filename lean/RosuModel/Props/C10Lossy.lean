/-
  Props/C10Lossy.lean — C10 (d): the model's lossy UTF-8 decoder equals a separately stated specification
  (Lemmas/LossySpec.lean: Table 3-7 of the Unicode standard + U+FFFD substitution of maximal subparts,
  the documented policy of `String::from_utf8_lossy`), for every byte string.

  * `utf8Lossy_eq_spec : ∀ bs, utf8Lossy bs = lossySpec bs`
  * `utf8Lossy_iff_decodes : LossyDecodes bs out ↔ out = utf8Lossy bs` — the same against the inductive relation
    of Lemmas/LossyRel.lean, worded after the standard (well-formed sequence / maximal subpart)
  * what the specification's pieces mean: `wellFormed_iff_row`, `maximal_subpart_spec`, `wellFormed_scalar_valid`
  * `utf8Lossy_valid` (valid UTF-8 decodes to itself; also stated of the specification, `lossySpec_valid`)
  * `utf8Lossy_append_ascii` / `utf8Lossy_append_lf`: decoding is compositional at ASCII bytes — what follows a
    line feed decodes independently of what precedes it, and vice versa.
-/
import RosuModel.Props.C10
import RosuModel.Lemmas.LossySpec
import RosuModel.Lemmas.LossyRel
namespace Rosu.C10
open Rosu Rosu.Lossy

/-- **the lossy decoder is the specification**: for every byte string the model's `from_utf8` /
`valid_up_to` / `error_len` loop yields what "scan; a sequence matching a row of Table 3-7 gives its scalar
value; otherwise the maximal subpart (longest prefix fitting some row, at least one byte) gives one U+FFFD"
yields. -/
theorem utf8Lossy_eq_spec (bs : List UInt8) : utf8Lossy bs = lossySpec bs :=
  lossyFuel_eq_spec _ bs (Nat.le_refl _)

/-- **the lossy decoder against the relational wording of the standard**: `out` is a decoding of `bs` —
every well-formed sequence (Table 3-7) replaced by its scalar value, every maximal subpart of an ill-formed
position (longest prefix that is an initial subsequence of a well-formed sequence, or one byte) by U+FFFD —
iff `out` is what the model's decoder returns. In particular the relation is functional. -/
theorem utf8Lossy_iff_decodes (bs : List UInt8) (out : Str) : LossyDecodes bs out ↔ out = utf8Lossy bs := by
  rw [utf8Lossy_eq_spec]; exact lossyDecodes_iff bs out

/-- the specification, unfolded once (the equation it was defined by). -/
theorem lossySpec_step (b : UInt8) (rest : List UInt8) :
    lossySpec (b :: rest) =
      match wellFormedLen (b :: rest) with
      | some n => Char.ofNat (scalarValue ((b :: rest).take n)) :: lossySpec (rest.drop (n - 1))
      | none => replacement :: lossySpec (rest.drop (maximalSubpartLen (b :: rest) - 1)) := by
  rw [lossySpec]
  cases wellFormedLen (b :: rest) <;> rfl

/-- a position is well-formed iff some row of Table 3-7 is matched completely there (and then the length
reported is that row's). -/
theorem wellFormed_iff_row (bs : List UInt8) :
    (wellFormedLen bs = none ↔ ∀ row ∈ table37, fitLen row bs ≠ row.length) ∧
    (∀ n, wellFormedLen bs = some n → ∃ row ∈ table37, row.length = n ∧ fitLen row bs = n) :=
  ⟨wellFormedLen_eq_none bs, wellFormedLen_some bs⟩

/-- the maximal subpart: at least one byte; at least as long as the part of the input fitting any row;
and exactly one byte or exactly the fit of some row. -/
theorem maximal_subpart_spec (bs : List UInt8) :
    1 ≤ maximalSubpartLen bs ∧ (∀ row ∈ table37, fitLen row bs ≤ maximalSubpartLen bs) ∧
    (maximalSubpartLen bs = 1 ∨ ∃ row ∈ table37, fitLen row bs = maximalSubpartLen bs) :=
  ⟨(maximalSubpartLen_ge bs).1, (maximalSubpartLen_ge bs).2, maximalSubpartLen_attained bs⟩

/-- every sequence Table 3-7 admits denotes a Unicode scalar value (no surrogate, nothing above U+10FFFF),
so `Char.ofNat` in the specification never falls back to its default. -/
theorem wellFormed_scalar_valid (row : List Range) (hrow : row ∈ table37) (seq : List UInt8)
    (hlen : seq.length = row.length) (hfit : fitLen row seq = row.length) : (scalarValue seq).isValidChar :=
  scalarValue_valid row hrow seq hlen hfit

/-- **valid UTF-8 decodes to itself**, for every text. -/
theorem utf8Lossy_valid (s : Str) : utf8Lossy (utf8Encode s) = s := utf8Lossy_utf8Encode s

/-- the same of the specification: it inverts Lean core's UTF-8 encoder (a check of the specification
against an independent definition of UTF-8). -/
theorem lossySpec_valid (s : Str) : lossySpec (utf8Encode s) = s := by
  rw [← utf8Lossy_eq_spec]; exact utf8Lossy_utf8Encode s

/-- **compositionality at ASCII bytes**: an ASCII byte is decoded as itself wherever it stands, and what
precedes it and what follows it decode independently of each other. -/
theorem utf8Lossy_append_ascii (a : List UInt8) (c : UInt8) (hc : c < 0x80) (b : List UInt8) :
    utf8Lossy (a ++ c :: b) = utf8Lossy a ++ Char.ofNat c.toNat :: utf8Lossy b := by
  have hc' : c.toNat ≤ 127 := by
    simp only [UInt8.lt_iff_toNat_lt, UInt8.toNat_ofNat] at hc; omega
  simp only [utf8Lossy_eq_spec]
  exact lossySpec_append_ascii a c hc' b

/-- **decoding is unaffected by what follows (or precedes) a line feed.** -/
theorem utf8Lossy_append_lf (a b : List UInt8) :
    utf8Lossy (a ++ 0x0A :: b) = utf8Lossy a ++ '\n' :: utf8Lossy b :=
  utf8Lossy_append_ascii a 0x0A (by decide) b

/-- hence the text of a whole UTF-8 file is the line-by-line concatenation of the decoded lines. -/
theorem utf8Lossy_unlines (ls : List (List UInt8)) (last : List UInt8) :
    utf8Lossy (ls.foldr (fun l acc => l ++ 0x0A :: acc) last) =
      ls.foldr (fun l acc => utf8Lossy l ++ '\n' :: acc) (utf8Lossy last) := by
  induction ls with
  | nil => rfl
  | cons l rest ih => simp only [List.foldr_cons, utf8Lossy_append_lf, ih]

/-- the documented cases of `lossy_examples`, now as instances of the specification. -/
theorem lossy_examples_spec :
    lossySpec [0x20, 0xD1, 0x2C, 0x31] = [' ', replacement, ',', '1'] ∧
    lossySpec [0xE2, 0x82] = [replacement] ∧
    lossySpec [0xF0, 0x9F, 0x98, 0x41] = [replacement, 'A'] ∧
    lossySpec [0xC0, 0x80] = [replacement, replacement] ∧
    lossySpec [0xED, 0xA0, 0x80] = [replacement, replacement, replacement] ∧
    lossySpec [0xF4, 0x90, 0x80, 0x80] = [replacement, replacement, replacement, replacement] ∧
    lossySpec [0xE2, 0x82, 0xAC] = [Char.ofNat 0x20AC] := by
  simp only [← utf8Lossy_eq_spec]
  exact lossy_examples

example : wellFormedLen [0xE2, 0x82, 0xAC, 0x41] = some 3 ∧ wellFormedLen [0xE2, 0x82, 0x41] = none
    ∧ maximalSubpartLen [0xE2, 0x82, 0x41] = 2 ∧ maximalSubpartLen [0xC0, 0x80] = 1
    ∧ maximalSubpartLen [0xF0, 0x9F, 0x98, 0x41] = 3 ∧ maximalSubpartLen [0xED, 0xA0, 0x80] = 1
    ∧ scalarValue [0xE2, 0x82, 0xAC] = 0x20AC ∧ scalarValue [0xF0, 0x9F, 0x98, 0x80] = 0x1F600 := by decide

end Rosu.C10
