/-
  Props/C11Ieee.lean — the two order facts about `<` that Props/C11.lean takes as hypotheses (`hirr`: irreflexive, `hasym`:
  asymmetric) hold of IEEE `<`, in the kernel, for the driver's scalars `Float` and `Float32`
  (Lemmas/FloatModelOrder.lean). So `clamp_within` and `max_not_before` hold of the running instance without those
  hypotheses; the literal ranges of `[Difficulty]` (`0.4 < 3.6`, `0.5 < 8`) are evaluated on the actual literals.
-/
import RosuModel.Props.C11
import RosuModel.Lemmas.FloatModelCompare
namespace Rosu.C11
open Rosu

/-! ### for every scalar with IEEE comparisons -/

section Generic
variable {α : Type} [Scalar α] [FMO.IeeeOrd α]

/-- `clamp_within` with `hirr`, `hasym` discharged. -/
theorem clamp_within_ieee (x lo hi : α) (hlohi : Scalar.lt lo hi = true) :
    Scalar.lt (Scalar.clamp x lo hi) lo = false ∧ Scalar.lt hi (Scalar.clamp x lo hi) = false :=
  clamp_within x lo hi FMO.lt_irrefl FMO.lt_asymm hlohi

/-- `max_not_before` with `hirr`, `hasym` discharged. -/
theorem max_not_before_ieee (s e : α) (hs : Scalar.isNaN s = false) :
    Scalar.lt (Scalar.max s e) s = false :=
  max_not_before s e FMO.lt_irrefl FMO.lt_asymm hs

end Generic

/-! ### `Float`, `Float32` -/

theorem clamp_within_float (x lo hi : Float) (hlohi : Scalar.lt lo hi = true) :
    Scalar.lt (Scalar.clamp x lo hi) lo = false ∧ Scalar.lt hi (Scalar.clamp x lo hi) = false :=
  clamp_within_ieee x lo hi hlohi

theorem clamp_within_float32 (x lo hi : Float32) (hlohi : Scalar.lt lo hi = true) :
    Scalar.lt (Scalar.clamp x lo hi) lo = false ∧ Scalar.lt hi (Scalar.clamp x lo hi) = false :=
  clamp_within_ieee x lo hi hlohi

theorem max_not_before_float (s e : Float) (hs : Scalar.isNaN s = false) : Scalar.lt (Scalar.max s e) s = false :=
  max_not_before_ieee s e hs

theorem max_not_before_float32 (s e : Float32) (hs : Scalar.isNaN s = false) : Scalar.lt (Scalar.max s e) s = false :=
  max_not_before_ieee s e hs

/-- the stored slider multiplier of an accepted record is within `[0.4, 3.6]` (never below, never above; a parsed value is
not NaN, so in the ordinary sense: `slider_multiplier_between_float`). -/
theorem slider_multiplier_within_float (x : Float) :
    Scalar.lt (Scalar.clamp x 0.4 3.6) (0.4 : Float) = false ∧ Scalar.lt (3.6 : Float) (Scalar.clamp x 0.4 3.6) = false :=
  clamp_within_float x 0.4 3.6 (by decide +kernel)

theorem slider_tick_rate_within_float (x : Float) :
    Scalar.lt (Scalar.clamp x 0.5 8) (0.5 : Float) = false ∧ Scalar.lt (8 : Float) (Scalar.clamp x 0.5 8) = false :=
  clamp_within_float x 0.5 8 (by decide +kernel)

/-- … in the ordinary sense for the value of an accepted record (`floatParse` never returns a NaN). -/
theorem slider_multiplier_between_float (v : Str) (x : Float) (h : floatParse v = some x) :
    Scalar.le (0.4 : Float) (Scalar.clamp x 0.4 3.6) = true ∧ Scalar.le (Scalar.clamp x 0.4 3.6) (3.6 : Float) = true :=
  FMO.clamp_between x 0.4 3.6 (floatParse_not_nan v x h) (by decide +kernel) (by decide +kernel) (by decide +kernel)

theorem slider_tick_rate_between_float (v : Str) (x : Float) (h : floatParse v = some x) :
    Scalar.le (0.5 : Float) (Scalar.clamp x 0.5 8) = true ∧ Scalar.le (Scalar.clamp x 0.5 8) (8 : Float) = true :=
  FMO.clamp_between x 0.5 8 (floatParse_not_nan v x h) (by decide +kernel) (by decide +kernel) (by decide +kernel)

/-- **break_never_negative** for IEEE doubles: the break appended for an accepted record does not end before it starts,
in the ordinary sense (`start <= end`), and neither time is NaN. -/
theorem break_never_negative_float (s e : Str) (sv ev : Float)
    (hs : floatParse s = some sv) (he : floatParse e = some ev) :
    Scalar.le sv (Scalar.max sv ev) = true ∧ Scalar.isNaN (Scalar.max sv ev) = false :=
  ⟨FMO.le_max_left sv ev (floatParse_not_nan s sv hs) (floatParse_not_nan e ev he),
   FMO.max_not_nan_right sv ev (floatParse_not_nan e ev he)⟩

/-! ### non-vacuity on actual doubles -/

example : Scalar.clamp (99 : Float) 0.4 3.6 = 3.6 ∧ Scalar.clamp (-4 : Float) 0.5 8 = 0.5 ∧
    Scalar.clamp (1.4 : Float) 0.4 3.6 = 1.4 := by decide +kernel

example : Scalar.lt (Scalar.max (100 : Float) 50) 100 = false := max_not_before_float 100 50 (by decide +kernel)

end Rosu.C11
