/-
  Props/C17Arc.lean — C17, circular arcs in exact arithmetic (DESIGN.md 5.17).

  Structural (every arithmetic): `arc_shape` — an accepted arc is `centre + (cos θ_i, sin θ_i) * radius` for
  `θ_i = theta_start + (i / (n-1)) * (direction * theta_range)`, `i = 0..n-1`, `2 ≤ n < 1000`; `arcProps_shape` — the
  centre is the circumcentre formula, the radius `|a − centre|`, `theta_start = atan2(a − centre)`.

  Law-dependent, under the explicit hypotheses of Lemmas/ExactArith.lean:
  * `arc_points_on_circle` (`ExactArith`, `TrigLaws`): every vertex `v` has `|v − centre|² = radius²` (squared form).
  * `arc_first_vertex` / `arc_last_vertex` (`ExactArith`): the first vertex is at angle `theta_start`, the last at
    `theta_start + direction * theta_range` (`0/d = 0`, `d/d = 1` for `d = n − 1 ≥ 1`).
  * `circumcentre_equidistant` (`ExactScalar`), `arc_radius_sq` (+ `SqrtLaws`), `arc_circle_through_controls`:
    the circle is the one through the three control points.
  * `arc_first_point` (`ExactArith`, `PolarLaws`): the first vertex is the first control point.

  **libm's `sin`, `cos`, `atan2` and IEEE `sqrt` are not proved to satisfy `TrigLaws` / `PolarLaws` / `SqrtLaws`** (they
  cannot, exactly); the hypotheses are shown satisfiable on `Rat` (rational points of the unit circle) and on `ℝ`.
-/
import RosuModel.Props.C17Ends
import RosuModel.Lemmas.RealScalar
set_option linter.unusedSectionVars false
namespace Rosu.C17
open Rosu Rosu.Curve

variable {P F : Type} [Scalar P] [Scalar F] [Cvt P F] [Trig F] [Trig P]

/-! ### shape of an accepted arc (structural) -/

/-- the point of the arc at angle `θ`: `centre + Pos { x: cos θ as f32, y: sin θ as f32 } * radius`. -/
def arcAt (pr : ArcProps P F) (θ : F) : Pos P :=
  pr.centre + (⟨Cvt.down (Trig.cos θ), Cvt.down (Trig.sin θ)⟩ : Pos P).smul pr.radius

/-- the angle of vertex `i` of `n`. -/
def arcTheta (pr : ArcProps P F) (n i : Nat) : F :=
  pr.thetaStart + (Scalar.ofNat i / Scalar.ofNat (n - 1)) * (pr.direction * pr.thetaRange)

/-- **`arc_shape`**: what `approximate_circular_arc` pushes when it accepts. -/
theorem arc_shape (fuel : Nat) (a b c : Pos P) (pts : List (Pos P))
    (h : approximateCircularArc (F := F) fuel a b c = .ok (some pts)) :
    ∃ pr : ArcProps P F, circularArcProperties fuel a b c = .ok (some pr) ∧
      2 ≤ arcSubPoints pr ∧ arcSubPoints pr < 1000 ∧
      pts = (List.range (arcSubPoints pr)).map fun i => arcAt pr (arcTheta pr (arcSubPoints pr) i) := by
  unfold approximateCircularArc at h
  obtain ⟨r, hp, h⟩ := Outcome.bind_eq_ok h
  cases r with
  | none => simp at h
  | some pr =>
    simp only [] at h
    have h2 : 2 ≤ arcSubPoints pr := by
      unfold arcSubPoints
      split
      · omega
      · simp only []
        split
        · omega
        · exact Nat.le_max_right _ _
    split at h
    · simp at h
    · rename_i hlt
      rw [usub_eq _ _ (by omega)] at h
      simp only [Outcome.ok_bind, Outcome.pure_eq_ok] at h
      cases h
      exact ⟨pr, hp, h2, by omega, rfl⟩

/-- the circumcentre formula of `circular_arc_properties`. -/
def circumD (a b c : Pos P) : P := (2 : P) * (a.x * (b - c).y + b.x * (c - a).y + c.x * (a - b).y)

def circumcentre (a b c : Pos P) : Pos P :=
  ⟨(a.lengthSquared * (b - c).y + b.lengthSquared * (c - a).y + c.lengthSquared * (a - b).y) / circumD a b c,
   (a.lengthSquared * (c - b).x + b.lengthSquared * (a - c).x + c.lengthSquared * (b - a).x) / circumD a b c⟩

/-- **`arcProps_shape`**: centre, radius and start angle of accepted arc properties (structural). -/
theorem arcProps_shape (fuel : Nat) (a b c : Pos P) (pr : ArcProps P F)
    (h : circularArcProperties fuel a b c = .ok (some pr)) :
    Scalar.eq (circumD a b c) (0 : P) = false ∧ pr.centre = circumcentre a b c ∧
      pr.radius = Pos.length F (a - pr.centre) ∧
      pr.thetaStart = Trig.atan2 (Cvt.up (a - pr.centre).y) (Cvt.up (a - pr.centre).x) := by
  unfold circularArcProperties at h
  split at h
  · cases h
  · simp only [] at h
    split at h
    · cases h
    · rename_i hd
      obtain ⟨te, _, h⟩ := Outcome.bind_eq_ok h
      have hd' : Scalar.eq (circumD a b c) (0 : P) = false := by
        cases hh : Scalar.eq (circumD a b c) (0 : P)
        · rfl
        · exact absurd hh hd
      split at h <;> (simp only [Outcome.pure_eq_ok, Except.ok.injEq, Option.some.injEq] at h; subst h;
                      exact ⟨hd', rfl, rfl, rfl⟩)

/-! ### law-dependent -/

section Exact
variable {K : Type} [Field K] [LinearOrder K] [IsStrictOrderedRing K] {φ : P → K} {ψ : F → K}

/-- a point `centre + (cos θ, sin θ) * radius` has squared distance `radius²` from the centre. -/
theorem arcAt_on_circle (E : ExactArith φ ψ) (T : TrigLaws ψ) (pr : ArcProps P F) (θ : F) :
    Pos.lengthSquared (arcAt pr θ - pr.centre) = pr.radius * pr.radius := by
  apply E.p.inj
  unfold arcAt Pos.lengthSquared Pos.dot
  simp only [Pos.sub_x, Pos.sub_y, Pos.add_x, Pos.add_y, Pos.smul_x, Pos.smul_y, E.p.add, E.p.sub, E.p.mul,
    E.down]
  linear_combination (φ pr.radius * φ pr.radius) * T.cos_sq_add_sin_sq θ

/-- **`arc_points_on_circle`** (exact arithmetic + `cos² + sin² = 1`): every vertex of an accepted arc satisfies
`|v − centre|² = radius²` — squared form, no square root involved. -/
theorem arc_points_on_circle (E : ExactArith φ ψ) (T : TrigLaws ψ) (fuel : Nat) (a b c : Pos P)
    (pts : List (Pos P)) (h : approximateCircularArc (F := F) fuel a b c = .ok (some pts)) :
    ∃ pr : ArcProps P F, circularArcProperties fuel a b c = .ok (some pr) ∧
      ∀ v ∈ pts, Pos.lengthSquared (v - pr.centre) = pr.radius * pr.radius := by
  obtain ⟨pr, hp, _, _, rfl⟩ := arc_shape fuel a b c pts h
  refine ⟨pr, hp, ?_⟩
  intro v hv
  rw [List.mem_map] at hv
  obtain ⟨i, _, rfl⟩ := hv
  exact arcAt_on_circle E T pr _

theorem arcTheta_zero (E : ExactScalar ψ) (pr : ArcProps P F) (n : Nat) :
    arcTheta pr n 0 = pr.thetaStart := by
  apply E.inj
  unfold arcTheta
  simp only [E.add, E.mul, E.div, E.ofNat]
  simp

theorem arcTheta_last (E : ExactScalar ψ) (pr : ArcProps P F) (n : Nat) (hn : 2 ≤ n) :
    arcTheta pr n (n - 1) = pr.thetaStart + pr.direction * pr.thetaRange := by
  apply E.inj
  unfold arcTheta
  simp only [E.add, E.mul, E.div, E.ofNat]
  have : ((n - 1 : Nat) : K) ≠ 0 := by
    have : n - 1 ≠ 0 := by omega
    exact_mod_cast this
  rw [div_self this, one_mul]

/-- **`arc_first_vertex`** (exact arithmetic): the first vertex of an accepted arc is the point at angle
`theta_start` (`fract = 0/d = 0`). -/
theorem arc_first_vertex (E : ExactArith φ ψ) (fuel : Nat) (a b c : Pos P) (pts : List (Pos P))
    (h : approximateCircularArc (F := F) fuel a b c = .ok (some pts)) :
    ∃ pr : ArcProps P F, circularArcProperties fuel a b c = .ok (some pr) ∧
      pts.head? = some (arcAt pr pr.thetaStart) := by
  obtain ⟨pr, hp, h2, _, rfl⟩ := arc_shape fuel a b c pts h
  refine ⟨pr, hp, ?_⟩
  obtain ⟨m, hm⟩ : ∃ m, arcSubPoints pr = m + 1 := ⟨arcSubPoints pr - 1, by omega⟩
  rw [hm, List.range_succ_eq_map, List.map_cons, List.head?_cons, ← hm, arcTheta_zero E.f]

/-- **`arc_last_vertex`** (exact arithmetic): the last vertex is the point at angle
`theta_start + direction * theta_range` (`fract = d/d = 1`, `d = n − 1 ≥ 1`). -/
theorem arc_last_vertex (E : ExactArith φ ψ) (fuel : Nat) (a b c : Pos P) (pts : List (Pos P))
    (h : approximateCircularArc (F := F) fuel a b c = .ok (some pts)) :
    ∃ pr : ArcProps P F, circularArcProperties fuel a b c = .ok (some pr) ∧
      pts.getLast? = some (arcAt pr (pr.thetaStart + pr.direction * pr.thetaRange)) := by
  obtain ⟨pr, hp, h2, _, rfl⟩ := arc_shape fuel a b c pts h
  refine ⟨pr, hp, ?_⟩
  obtain ⟨m, hm⟩ : ∃ m, arcSubPoints pr = m + 1 := ⟨arcSubPoints pr - 1, by omega⟩
  have hl := arcTheta_last E.f pr (arcSubPoints pr) h2
  rw [hm] at hl ⊢
  rw [List.range_succ, List.map_append, List.map_cons, List.map_nil, List.getLast?_concat]
  simp only [Nat.add_sub_cancel] at hl
  rw [hl]

/-- **the centre is equidistant from the three control points** (exact arithmetic, `d ≠ 0` — the code returns
`None` when `d == 0.0`): the circumcentre formula is right. -/
theorem circumcentre_equidistant (E : ExactScalar φ) (a b c : Pos P)
    (hd : Scalar.eq (circumD a b c) (0 : P) = false) :
    Pos.lengthSquared (b - circumcentre a b c) = Pos.lengthSquared (a - circumcentre a b c) ∧
    Pos.lengthSquared (c - circumcentre a b c) = Pos.lengthSquared (a - circumcentre a b c) := by
  have hne : φ (circumD a b c) ≠ 0 := by
    rw [E.eq, E.zero] at hd
    simpa using hd
  have hD : φ (circumD a b c) =
      (2 : K) * (φ a.x * (φ b.y - φ c.y) + φ b.x * (φ c.y - φ a.y) + φ c.x * (φ a.y - φ b.y)) := by
    unfold circumD
    simp only [Pos.sub_y, E.mul, E.add, E.sub, E.two]
  have hx : φ (circumcentre a b c).x = ((φ a.x * φ a.x + φ a.y * φ a.y) * (φ b.y - φ c.y) +
      (φ b.x * φ b.x + φ b.y * φ b.y) * (φ c.y - φ a.y) + (φ c.x * φ c.x + φ c.y * φ c.y) * (φ a.y - φ b.y)) /
      φ (circumD a b c) := by
    unfold circumcentre Pos.lengthSquared Pos.dot
    simp only [Pos.sub_y, E.mul, E.add, E.sub, E.div]
  have hy : φ (circumcentre a b c).y = ((φ a.x * φ a.x + φ a.y * φ a.y) * (φ c.x - φ b.x) +
      (φ b.x * φ b.x + φ b.y * φ b.y) * (φ a.x - φ c.x) + (φ c.x * φ c.x + φ c.y * φ c.y) * (φ b.x - φ a.x)) /
      φ (circumD a b c) := by
    unfold circumcentre Pos.lengthSquared Pos.dot
    simp only [Pos.sub_x, E.mul, E.add, E.sub, E.div]
  generalize circumcentre a b c = cc at hx hy ⊢
  generalize φ (circumD a b c) = D at hne hD hx hy
  constructor <;>
  · apply E.inj
    unfold Pos.lengthSquared Pos.dot
    simp only [Pos.sub_x, Pos.sub_y, E.mul, E.add, E.sub, hx, hy]
    field_simp
    rw [hD]
    ring

/-- `radius² = |a − centre|²` when `sqrt` is a square root. -/
theorem arc_radius_sq (E : ExactArith φ ψ) (S : SqrtLaws ψ) (fuel : Nat) (a b c : Pos P) (pr : ArcProps P F)
    (h : circularArcProperties fuel a b c = .ok (some pr)) :
    pr.radius * pr.radius = Pos.lengthSquared (a - pr.centre) := by
  obtain ⟨_, _, hr, _⟩ := arcProps_shape fuel a b c pr h
  apply E.p.inj
  rw [hr, E.p.mul]
  unfold Pos.length Pos.lengthSquared Pos.dot
  rw [E.down, S.mul_self_sqrt, E.up]
  rw [E.up, E.p.add, E.p.mul, E.p.mul]
  nlinarith [mul_self_nonneg (φ (a - pr.centre).x), mul_self_nonneg (φ (a - pr.centre).y)]

/-- **`arc_circle_through_controls`**: every vertex of an accepted arc is as far (squared) from the centre as each of
the three control points — the vertices lie on the circle through `a`, `b`, `c`. -/
theorem arc_circle_through_controls (E : ExactArith φ ψ) (T : TrigLaws ψ) (S : SqrtLaws ψ) (fuel : Nat)
    (a b c : Pos P) (pts : List (Pos P)) (h : approximateCircularArc (F := F) fuel a b c = .ok (some pts)) :
    ∃ pr : ArcProps P F, circularArcProperties fuel a b c = .ok (some pr) ∧
      ∀ v ∈ pts, Pos.lengthSquared (v - pr.centre) = Pos.lengthSquared (a - pr.centre) ∧
        Pos.lengthSquared (v - pr.centre) = Pos.lengthSquared (b - pr.centre) ∧
        Pos.lengthSquared (v - pr.centre) = Pos.lengthSquared (c - pr.centre) := by
  obtain ⟨pr, hp, hall⟩ := arc_points_on_circle E T fuel a b c pts h
  refine ⟨pr, hp, ?_⟩
  obtain ⟨hd, hc, _, _⟩ := arcProps_shape fuel a b c pr hp
  have hr := arc_radius_sq E S fuel a b c pr hp
  obtain ⟨hb, hcc⟩ := circumcentre_equidistant E.p a b c hd
  intro v hv
  rw [hall v hv, hr, hc, hb, hcc]
  exact ⟨rfl, rfl, rfl⟩

/-- **`arc_first_point`** (exact arithmetic + polar coordinates): the first vertex of an accepted arc is the first
control point `a`: `centre + radius·(cos, sin)(atan2(a − centre)) = a`. -/
theorem arc_first_point (E : ExactArith φ ψ) (T : PolarLaws ψ) (fuel : Nat) (a b c : Pos P) (pts : List (Pos P))
    (h : approximateCircularArc (F := F) fuel a b c = .ok (some pts)) : pts.head? = some a := by
  obtain ⟨pr, hp, hh⟩ := arc_first_vertex E fuel a b c pts h
  rw [hh]
  obtain ⟨_, _, hr, hts⟩ := arcProps_shape fuel a b c pr hp
  congr 1
  have harg : (Cvt.up ((a - pr.centre).x * (a - pr.centre).x + (a - pr.centre).y * (a - pr.centre).y) : F) =
      Cvt.up (a - pr.centre).x * Cvt.up (a - pr.centre).x + Cvt.up (a - pr.centre).y * Cvt.up (a - pr.centre).y := by
    apply E.f.inj
    simp only [E.up, E.f.add, E.f.mul, E.p.add, E.p.mul]
  unfold arcAt
  rw [hr, hts]
  unfold Pos.length
  rw [harg]
  apply Pos.ext' <;> apply E.p.inj
  · simp only [Pos.add_x, Pos.smul_x, E.p.add, E.p.mul, E.down]
    rw [mul_comm, T.cos, E.up, Pos.sub_x, E.p.sub]
    ring
  · simp only [Pos.add_y, Pos.smul_y, E.p.add, E.p.mul, E.down]
    rw [mul_comm, T.sin, E.up, Pos.sub_y, E.p.sub]
    ring

end Exact

/-! ### a perfect-curve segment starts at its first control point, whichever route it takes -/

section Exact
variable {K : Type} [Field K] [LinearOrder K] [IsStrictOrderedRing K] {φ : P → K} {ψ : F → K}

/-- **`segment_starts_at_first`**, all four segment kinds, for a segment with two or more control points:
structural for linear / B-spline / the Bezier fallback of a refused arc; exact arithmetic for Catmull (also after the
osu!-mode simplification) and, with polar coordinates, for an accepted arc. -/
theorem segment_starts_at_first (E : ExactArith φ ψ) (T : PolarLaws ψ) (fuel : Nat) (mode : GameMode)
    (seg out : List (Pos P)) (kind : SplineType) (o o' : F) (bz bz' : BezierBuffers P) (h2 : 2 ≤ seg.length)
    (h : calculateSubpath fuel mode seg kind o bz = .ok (out, o', bz')) : out.head? = seg.head? := by
  cases kind with
  | linear => exact (linear_first_point fuel mode seg out o o' bz bz' h).1
  | bspline =>
    rw [dispatch_bspline] at h
    unfold viaBezier at h
    obtain ⟨r, hb, h⟩ := Outcome.bind_eq_ok h
    obtain ⟨out', bz''⟩ := r
    simp only [Outcome.pure_eq_ok, Except.ok.injEq, Prod.mk.injEq] at h
    obtain ⟨rfl, _, _⟩ := h
    exact (bezier_first_point fuel seg _ bz _ hb).1
  | catmull =>
    unfold calculateSubpath at h
    simp only [] at h
    obtain ⟨sub, hs, h⟩ := Outcome.bind_eq_ok h
    have hsub := catmull_first_point E.p seg sub h2 hs
    split at h
    · simp only [Outcome.pure_eq_ok, Except.ok.injEq, Prod.mk.injEq] at h
      obtain ⟨rfl, _, _⟩ := h
      exact hsub
    · simp only [Outcome.pure_eq_ok, Except.ok.injEq, Prod.mk.injEq] at h
      obtain ⟨rfl, _, _⟩ := h
      rw [catmullSimplify_head, hsub]
  | perfectCurve =>
    have hbez : ∀ r, viaBezier fuel seg o bz = .ok r → r.1.head? = seg.head? := by
      intro r hr
      unfold viaBezier at hr
      obtain ⟨r', hb, hr⟩ := Outcome.bind_eq_ok hr
      obtain ⟨out', bz''⟩ := r'
      simp only [Outcome.pure_eq_ok, Except.ok.injEq] at hr
      subst hr
      exact (bezier_first_point fuel seg _ bz _ hb).1
    by_cases h3 : seg.length = 3
    · match seg, h3 with
      | [a, b, c], _ =>
        rw [dispatch_perfect_three] at h
        obtain ⟨arc, ha, h⟩ := Outcome.bind_eq_ok h
        cases arc with
        | none => exact hbez _ h
        | some pts =>
          simp only [Outcome.pure_eq_ok, Except.ok.injEq, Prod.mk.injEq] at h
          obtain ⟨rfl, _, _⟩ := h
          exact arc_first_point E T fuel a b c pts ha
    · rw [dispatch_perfect_not_three fuel mode seg o bz h3] at h
      exact hbez _ h

end Exact

/-! ### the hypotheses are satisfiable -/

section NonVacuity
open Rosu.ToyRat Rosu.RealInst

/-- on `Rat` with the rational unit-circle parametrisation (toy `sqrt`/`acos`/`atan2`, so only `ExactArith` and
`TrigLaws` are claimed there): `(1,0)`, `(0,1)`, `(-1,0)` is accepted as an arc of eight vertices … -/
theorem toy_arc_accepted : (match approximateCircularArc (F := Rat) 4 (⟨1, 0⟩ : Pos Rat) ⟨0, 1⟩ ⟨-1, 0⟩ with
    | .ok (some pts) => pts.length == 8 | _ => false) = true := by decide +kernel

/-- … and `arc_points_on_circle` applies to it: the hypotheses are jointly satisfiable on a non-trivial value. -/
example : ∃ (pts : List (Pos Rat)) (pr : ArcProps Rat Rat), approximateCircularArc (F := Rat) 4 (⟨1, 0⟩ : Pos Rat) ⟨0, 1⟩ ⟨-1, 0⟩ = .ok (some pts) ∧
    pts.length = 8 ∧ ∀ v ∈ pts, Pos.lengthSquared (v - pr.centre) = pr.radius * pr.radius := by
  have h := toy_arc_accepted
  cases hr : approximateCircularArc (F := Rat) 4 (⟨1, 0⟩ : Pos Rat) ⟨0, 1⟩ ⟨-1, 0⟩ with
  | error e => rw [hr] at h; cases h
  | ok r =>
    cases r with
    | none => rw [hr] at h; cases h
    | some pts =>
      rw [hr] at h
      obtain ⟨pr, _, hall⟩ := arc_points_on_circle exactArith_rat trigLaws_rat 4 _ _ _ pts hr
      exact ⟨pts, pr, rfl, by simpa using h, hall⟩

/-- all four hypothesis structures hold together over the reals. -/
example : ExactArith (id : ℝ → ℝ) (id : ℝ → ℝ) ∧ SqrtLaws (id : ℝ → ℝ) ∧ TrigLaws (id : ℝ → ℝ) ∧
    PolarLaws (id : ℝ → ℝ) := ⟨exactArith_real, sqrtLaws_real, trigLaws_real, polarLaws_real⟩

/-- … and `ExactArith`, `TrigLaws` over `Rat`. -/
example : ExactArith (id : Rat → Rat) (id : Rat → Rat) ∧ TrigLaws (id : Rat → Rat) :=
  ⟨exactArith_rat, trigLaws_rat⟩

end NonVacuity

end Rosu.C17
