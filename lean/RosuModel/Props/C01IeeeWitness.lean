/-
  Props/C01IeeeWitness.lean — the osu!-mode Catmull instances of Props/C01Ieee.lean, evaluated by the kernel on the
  real `Float32`/`Float` pipeline (each check runs a 100-point Catmull sub-path: about 15–25 s).

  * **`optLen_negative_witness`** — `optimized_len` IS negative in IEEE arithmetic on an ordinary slider: control
    points `(0,0)` (Catmull) and `(1,2)` — the `.osu` line `0,0,0,2,0,C|1:2,1` — give
    `optimized_len = 0xBE5A000000000000 ≈ −2.4e-8`. (The sum of the 100 `f32` piece lengths from the start to the single
    kept point is below the `f32` chord.) So `C16.calculatePath_optLen_nonneg` (exact arithmetic) does not transfer to
    the driver's arithmetic, and the hypothesis `0 ≤ opt` of `C16.lengths_monotone_float_real` is not automatic.
    The natural length `opt + chord = 0x4001E3779CC00000 ≈ 2.236` is positive all the same.
  * `catmull_file_paths`, `catmull_file_natOk`, **`encode_decoded_no_panic_float_partial_nonvacuous`** — all hypotheses of
    `encode_decoded_no_panic_float_partial` hold on that file *with* an osu!-mode Catmull slider (so `CatmullSurplusOk`
    is used, not vacuous), and its conclusion.
-/
import RosuModel.Props.C01Ieee
namespace Rosu.C01
open Rosu Rosu.Curve Rosu.Encode Rosu.FDL

deriving instance DecidableEq for Pos
deriving instance DecidableEq for PathControlPoint
deriving instance DecidableEq for SliderPathData

/-- the `.osu` file with one Catmull slider from `(0,0)` to `(1,2)`, default (osu!) mode. -/
def fileCatmull : List UInt8 := asciiBytes "[HitObjects]\n0,0,0,2,0,C|1:2,1\n"

/-- its `SliderPath` data. -/
def pathCatmull : SliderPathData Float Float32 :=
  ⟨GameMode.osu, [⟨⟨0, 0⟩, some PathType.catmull⟩, ⟨⟨1, 2⟩, none⟩], none⟩

/-- `optimized_len` and the natural length of a path (bit patterns), and the number of path points. -/
def optAndTotal (p : SliderPathData Float Float32) : Option (UInt64 × UInt64 × Nat) :=
  match calculatePath (F := Float) curveFuel p.mode p.controlPoints emptyBuffers with
  | .ok (b, opt) => some (opt.toBits, (C16.natTotal opt b.path).toBits, b.path.length)
  | .error _ => none

/-- **a negative `optimized_len`**: `−2.4e-8` (sign bit set), natural length `≈ 2.236`, two path points. -/
theorem optLen_negative_witness :
    optAndTotal pathCatmull = some (0xBE5A000000000000, 0x4001E3779CC00000, 2) := by decide +kernel

/-- in the terms of `C16.calculatePath_optLen_nonneg`: a successful `calculate_path` with `opt < 0`. -/
theorem optLen_negative_witness' :
    ∃ (b : CurveBuffers Float32 Float) (opt : Float),
      calculatePath curveFuel GameMode.osu pathCatmull.controlPoints (emptyBuffers : CurveBuffers Float32 Float) = .ok (b, opt) ∧
        Scalar.lt opt (0 : Float) = true := by
  have h := optLen_negative_witness
  unfold optAndTotal at h
  cases hc : calculatePath (F := Float) curveFuel pathCatmull.mode pathCatmull.controlPoints emptyBuffers with
  | error e => rw [hc] at h; cases h
  | ok r =>
    obtain ⟨b, opt⟩ := r
    rw [hc] at h
    simp only [Option.some.injEq, Prod.mk.injEq] at h
    refine ⟨b, opt, hc, ?_⟩
    have hb : opt = Float.ofBits 0xBE5A000000000000 := by
      rw [← h.1]
      exact (FM.float_ofBits_toBits opt).symm
    rw [hb]
    decide +kernel

/-- the decoded file has exactly that slider path. -/
theorem catmull_file_paths : (decodeMap fileCatmull).map sliderPaths = some [pathCatmull] := by decide +kernel

/-- `natOkB` read off `optAndTotal` (no second evaluation of the curve). -/
theorem natOkB_of_optAndTotal (p : SliderPathData Float Float32) (o t : UInt64) (n : Nat)
    (h : optAndTotal p = some (o, t, n))
    (ht : (Scalar.isNaN (Float.ofBits t) || Scalar.le (0 : Float) (Float.ofBits t)) = true) : natOkB p = true := by
  unfold optAndTotal at h
  unfold natOkB naturalDist
  have hp : (sliderOfPath p).path = p := rfl
  rw [hp]
  cases hc : calculatePath (F := Float) curveFuel p.mode p.controlPoints emptyBuffers with
  | error e => rfl
  | ok r =>
    obtain ⟨b, opt⟩ := r
    rw [hc] at h
    simp only [Option.some.injEq, Prod.mk.injEq] at h
    simp only [Outcome.ok_bind, Outcome.pure_eq_ok]
    have hb : C16.natTotal opt b.path = Float.ofBits t := by
      rw [← h.2.1]
      exact (FM.float_ofBits_toBits _).symm
    rw [hb]
    exact ht

/-- the natural length of that path is not negative (although its `optimized_len` is). -/
theorem catmull_file_natOk : natOkB pathCatmull = true ∧ pathPlainB pathCatmull = false :=
  ⟨natOkB_of_optAndTotal _ _ _ _ optLen_negative_witness (by decide +kernel), by decide⟩

/-- **non-vacuity of `encode_decoded_no_panic_float_partial`** on a file with an osu!-mode Catmull slider. -/
theorem encode_decoded_no_panic_float_partial_nonvacuous :
    ∃ (st : BeatmapState Float Float32) (m : Beatmap Float Float32),
      decodeBytes beatmapDecoder fileCatmull = .ok st ∧ st.finish = .ok m ∧
      (∃ h ∈ m.hitObjects, ∃ s, h.kind = .slider s ∧ s.path.mode = GameMode.osu ∧ ¬ NoCatmull s.path.controlPoints) ∧
      CatmullSurplusOk m ∧ DistOk m.hitObjects ∧ encode m ≠ .error .panic := by
  have hp := catmull_file_paths
  cases hm : decodeMap fileCatmull with
  | none => rw [hm] at hp; cases hp
  | some m =>
    rw [hm] at hp
    simp only [Option.map_some, Option.some.injEq] at hp
    obtain ⟨st, h1, h2⟩ := decodeMap_spec _ m hm
    have hok : CatmullSurplusOk m := by
      refine catmullSurplusOk_of_check m ?_
      rw [hp]
      simp only [List.all_cons, List.all_nil, Bool.and_true, catmull_file_natOk.1, Bool.or_true]
    -- the slider is there: the path list is a `filterMap` of the objects
    have hex : ∃ h ∈ m.hitObjects, ∃ s, h.kind = .slider s ∧ s.path = pathCatmull := by
      have hmem : pathCatmull ∈ sliderPaths m := by rw [hp]; simp
      unfold sliderPaths at hmem
      rw [List.mem_filterMap] at hmem
      obtain ⟨h, hh, hk⟩ := hmem
      cases hkind : h.kind with
      | slider s => rw [hkind] at hk; simp only [Option.some.injEq] at hk; exact ⟨h, hh, s, hkind, hk⟩
      | circle c => rw [hkind] at hk; cases hk
      | spinner c => rw [hkind] at hk; cases hk
      | hold c => rw [hkind] at hk; cases hk
    obtain ⟨h, hh, s, hk, hs⟩ := hex
    refine ⟨st, m, h1, h2, ⟨h, hh, s, hk, by rw [hs]; rfl, ?_⟩, hok,
      decoded_dist_nonneg_float_partial _ st m h1 h2 hok,
      encode_decoded_no_panic_float_partial _ st m h1 h2 (fun _ => hok)⟩
    rw [hs]
    intro hno
    have := (noCatmullB_spec _).mpr hno
    have hfalse : noCatmullB pathCatmull.controlPoints = false := by decide
    rw [hfalse] at this
    cases this

end Rosu.C01
