/-
  Props/C02CapstoneFalse.lean — `roundtrip_statement_full` (Props/C02Capstone.lean: the capstone with NO `DecodedDomain`
  hypothesis) is FALSE of the model, refuted end to end on one concrete file of finding F16, everything evaluated in the kernel
  on the toy codec (whose laws all hold: `exactLaws_zc`):

      osu file format v14 / [General] / AudioFilename: a\\b.mp3

  decodes to a map with audio file `a//b.mp3` (`clean_filename` standardises the backslashes); the encoder writes
  `AudioFilename: a//b.mp3`; read back, `//b.mp3` is a comment and the audio file is `a`. So the re-decoded map differs from
  the map on the preserved view (`PreservedEq.general`). The file satisfies every field of `DecodedDomain` except
  `noDoubleSlash` (no objects, no timing lines: `f16_other_fields`, `f16_noDoubleSlash_fails`), so that field cannot be dropped.
-/
import RosuModel.Props.C02Capstone
set_option linter.unusedSectionVars false
set_option maxRecDepth 100000
namespace Rosu.C02
open Rosu Encode EncodeLines C11 RtTiming Scalar FileRt SliderRt

def f16Lines : List Str := [str "osu file format v14", str "[General]", str "AudioFilename: a\\\\b.mp3"]
def f16Bytes : List UInt8 := utf8Encode (unlines f16Lines)
def f16State : BeatmapState ZC ZC := frame beatmapDecoder f16Lines
def f16Map : Beatmap ZC ZC :=
  match f16State.finish with | .ok m => m | .error _ => C04.noObjectsMap f16State

theorem f16_head : (unlines f16Lines).head? ≠ some (Char.ofNat 0xFEFF) := by decide

theorem f16_lines : (textLines (unlines f16Lines)).map trimEnd = f16Lines := by
  rw [lines_of_unlines _ (by decide)]
  decide

theorem f16_decodes : decodeBytes (beatmapDecoder : LineDecoder (BeatmapState ZC ZC)) f16Bytes = .ok f16State := by
  unfold f16Bytes
  rw [RtFile.decodeBytes_utf8_text _ _ f16_head, f16_lines]
  rfl

theorem f16_finishes : f16State.finish = .ok f16Map := by
  have hok : f16State.finish.toOption.isSome = true := by decide +kernel
  unfold f16Map
  cases h : f16State.finish with
  | error e => rw [h] at hok; cases hok
  | ok m => rfl

/-- the decoded audio file name contains `//`. -/
theorem f16_audio : f16Map.general.audioFile = str "a//b.mp3" := by decide +kernel

/-- kernel evaluation of encode → decode → finish on the decoded map: the text has no BOM, the re-decoded state finishes,
and the re-decoded audio file name is `a`. -/
theorem f16_redecode_check :
    (match encode f16Map with
     | .ok t => decide (t.head? ≠ some (Char.ofNat 0xFEFF)) &&
         (match (frame (beatmapDecoder : LineDecoder (BeatmapState ZC ZC)) ((textLines t).map trimEnd)).finish with
          | .ok m2 => decide (m2.general.audioFile = str "a")
          | .error _ => false)
     | .error _ => false) = true := by decide +kernel

/-- **the round trip fails on the F16 file**: it decodes, finishes, encodes, the text decodes and finishes again — and the
re-decoded map is NOT the map on the preserved view. -/
theorem f16_roundtrip_fails :
    ∃ (t : Str) (st2 : BeatmapState ZC ZC) (m2 : Beatmap ZC ZC), encode f16Map = .ok t ∧
      decodeBytes beatmapDecoder (utf8Encode t) = .ok st2 ∧ st2.finish = .ok m2 ∧
      m2.general.audioFile = str "a" ∧ ¬ PreservedEq f16Map m2 := by
  have key := f16_redecode_check
  cases ht : encode f16Map with
  | error e => rw [ht] at key; cases key
  | ok t =>
    rw [ht] at key
    simp only [Bool.and_eq_true, decide_eq_true_eq] at key
    obtain ⟨hhead, hfin⟩ := key
    have hd := RtFile.decodeBytes_utf8_text (beatmapDecoder : LineDecoder (BeatmapState ZC ZC)) t hhead
    cases hf : (frame (beatmapDecoder : LineDecoder (BeatmapState ZC ZC)) ((textLines t).map trimEnd)).finish with
    | error err => rw [hf] at hfin; cases hfin
    | ok m2 =>
      rw [hf] at hfin
      have ha : m2.general.audioFile = str "a" := of_decide_eq_true hfin
      refine ⟨t, _, m2, rfl, hd, hf, ha, fun hp => ?_⟩
      have := congrArg GeneralState.audioFile hp.general
      rw [ha] at this
      have h2 : (RtGeneral.preservedGeneral f16Map.general (RtGeneral.sampleSetOf f16Map.controlPoints)).audioFile =
          f16Map.general.audioFile := rfl
      rw [h2, f16_audio] at this
      revert this
      decide

/-- **`roundtrip_statement_full` is false**: without `DecodedDomain` the capstone's statement fails, with every law of
`ExactLaws` true (toy codec). -/
theorem roundtrip_statement_full_false : ¬ roundtrip_statement_full := by
  intro H
  obtain ⟨t, st2, m2, ht, hd, hf, _, hno⟩ := f16_roundtrip_fails
  obtain ⟨st2', hd', hall⟩ := H ZC ZC ZC.Rep ZC.Rep exactLaws_zc f16Bytes f16State f16Map f16_decodes f16_finishes t ht
  have e := decode_unique hd' hd
  subst e
  exact hno (hall m2 hf)

/-- so the F16 file lies outside the domain — through `noDoubleSlash` (it has no hit objects and no timing lines). -/
theorem f16_not_in_domain : ¬ DecodedDomain ZC.Rep f16Bytes f16State f16Map := by
  intro D
  obtain ⟨t, st2, m2, ht, hd, hf, _, hno⟩ := f16_roundtrip_fails
  obtain ⟨st2', hd', hall⟩ :=
    roundtrip_decoded_capstone exactLaws_zc f16Bytes f16State f16Map f16_decodes f16_finishes D t ht
  have e := decode_unique hd' hd
  subst e
  exact hno (hall m2 hf)

theorem f16_noDoubleSlash_fails : ¬ DecodedInv.NoDoubleSlash f16Map := by
  intro h
  have := h.audio
  rw [f16_audio] at this
  revert this
  decide


open C13 in
/-- … and ONLY through it: the six other fields of `DecodedDomain` hold of the F16 file (kernel evaluation). -/
theorem f16_other_fields :
    Chronological f16State.hitObjects.core.hitObjects ∧
    LogGood f16Map.general.mode (tpLogBytes ZC ZC f16Bytes) ∧
    (∀ h ∈ f16Map.hitObjects, C04.ObjResidualF17 ZC.Rep h) ∧
    C04.CollectedTimesInLimit f16Map ∧
    PathStable f16Map ∧
    TimelineHyps f16Map.general.mode f16Map.controlPoints := by
  have hobjs : f16Map.hitObjects = [] := by decide +kernel
  have hmode : f16Map.general.mode = .osu := by decide +kernel
  have hpushed : f16State.hitObjects.core.hitObjects = [] := by decide +kernel
  refine ⟨?_, ?_, ?_, ?_, ?_, ?_⟩
  · rw [hpushed]; exact List.Pairwise.nil
  · rw [hmode]
    unfold tpLogBytes f16Bytes
    rw [fileLines_utf8_text _ f16_head, f16_lines, tpLog, C05.frame_eq_spec]
    decide
  · rw [hobjs]; intro h hh; cases hh
  · intro pts hp p hpm
    rw [hobjs] at hp
    have : pts = [] := by
      simp only [collectAll] at hp
      injection hp with hp
      exact hp.symm
    rw [this] at hpm
    cases hpm
  · intro h hh; rw [hobjs] at hh; cases hh
  · rw [hmode]
    have key : (SortedBy TimingPoint.key f16Map.controlPoints.timingPoints ∧
        SortedBy DifficultyPoint.key f16Map.controlPoints.difficultyPoints ∧
        SortedBy EffectPoint.key f16Map.controlPoints.effectPoints ∧
        SortedBy SamplePoint.key f16Map.controlPoints.samplePoints) ∧
        (∀ t ∈ f16Map.controlPoints.timingPoints, 1 ≤ t.timeSignature.numerator) ∧
        (∀ t ∈ f16Map.controlPoints.timingPoints,
          clamp t.beatLen (6 : ZC) (60000 : ZC) = t.beatLen ∧ lt t.beatLen (0 : ZC) = false) ∧
        ((1 : ZC) :: svSource .osu f16Map.controlPoints).all
            (fun v => decide (SvInverse v) && decide (clamp v (0.1 : ZC) (10 : ZC) = v)) = true := by decide +kernel
    obtain ⟨⟨s1, s2, s3, s4⟩, hsig, hbeat, hsv⟩ := key
    refine ⟨⟨s1, s2, s3, s4⟩, hsig, hbeat, fun v hv => ?_⟩
    have := List.all_eq_true.mp hsv v hv
    simp only [Bool.and_eq_true, decide_eq_true_eq] at this
    exact this

end Rosu.C02
