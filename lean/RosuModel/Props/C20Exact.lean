/-
  Props/C20Exact.lean — the law-dependent half of C20 (slider event stream), restated and proved under the ONE law
  structure `ExactNum φ` (Lemmas/ExactNum.lean = `ExactScalar φ` of Lemmas/ExactArith.lean + "no NaN" + exact `i32 as f64`):
  "the `Scalar` operations of `F` are those of a linearly ordered field `K`, seen through an injective `φ : F → K`".
  Instances: core `Rat` (`exactNum_rat`) and ℝ (`exactNum_real`).

  Every theorem is about the model functions the driver runs (`Params.new` / `Iter.new`, `tickLoop` via `tickDists`,
  `collect` = `collectAcc`, `runUse`), not about copies. They replace the ad-hoc `OrderedFieldLaws` list of
  Props/C20.lean, Part 2 (kept, not weakened).

  **IEEE `f64` does not satisfy `ExactNum`.** There the `k`-th tick distance is the `k`-fold *rounded* sum
  `((t + t) + t) + …` (within `k` ulp of `(k+1)·t`), neighbouring tick times can round to the same value, the closed
  forms `start + n·dur` and `(start + (n−1)·dur) + dur` differ by rounding, a NaN makes every comparison false, and the
  `while` loop stalls once `d + t` rounds to `d` (≥ 2⁵² turns). What holds for IEEE is Part 1 of Props/C20.lean (no law)
  plus the bit-for-bit correspondence of `./check C20`.
-/
import RosuModel.Props.C20
import RosuModel.Lemmas.ExactNum
import Mathlib.Algebra.Order.Floor.Ring
set_option linter.unusedSectionVars false
namespace Rosu.C20
open Rosu Rosu.SliderEvents

section
variable {F K : Type} [Scalar F] [Field K] [LinearOrder K] [IsStrictOrderedRing K] {φ : F → K}

/-! ## 0. the parameters `new` derives -/

/-- **what `SliderEventsIter::new` computes, in exact arithmetic**: `len = min(100000, total)` (and `new` panics unless
`0 ≤ len`), `tick_dist = min(len, max(0, tick_dist))`, `min_dist_from_end = 10·velocity`. -/
theorem new_exact (E : ExactNum φ) {start dur vel td total : F} {n : Int} {p : Params F}
    (hp : Params.new start dur vel td total n = some p) :
    p.startTime = start ∧ p.spanDuration = dur ∧ p.spanCount = n ∧
    φ p.len = min 100000 (φ total) ∧ 0 ≤ φ p.len ∧
    φ p.tickDist = min (φ p.len) (max 0 (φ td)) ∧ φ p.minDistFromEnd = φ vel * 10 := by
  simp only [Params.new] at hp
  split at hp
  · rename_i hle
    rw [E.le_iff, E.zero] at hle
    cases hp
    refine ⟨rfl, rfl, rfl, ?_, hle, ?_, ?_⟩
    · show φ (Scalar.min (maxLen : F) total) = _
      rw [E.min]; unfold maxLen; rw [E.lit]; norm_num
    · show φ (Scalar.clamp td (0 : F) (Scalar.min (maxLen : F) total)) = _
      rw [E.clamp _ _ _ (by rw [E.zero]; exact hle), E.zero]
    · show φ (vel * (10 : F)) = _
      rw [E.mul, E.lit]; norm_num
  · cases hp

/-- `0 ≤ tick_dist ≤ len` after `new`. -/
theorem new_tickDist_range (E : ExactNum φ) {start dur vel td total : F} {n : Int} {p : Params F}
    (hp : Params.new start dur vel td total n = some p) : 0 ≤ φ p.tickDist ∧ φ p.tickDist ≤ φ p.len := by
  obtain ⟨_, _, _, _, h0, ht, _⟩ := new_exact E hp
  rw [ht]
  exact ⟨le_min h0 (le_max_left _ _), min_le_left _ _⟩

/-! ## 1. the `while` loop in exact arithmetic -/

/-- the two guards of the loop for distance `x`: `d <= len` and not `d >= len − min_dist_from_end`. -/
def Passes (L M x : K) : Prop := x ≤ L ∧ x < L - M

/-- everything about one run of the loop from `d`: the `i`-th distance is `d + i·t`, each passed both guards, and the
first distance not produced fails one of them (so the list is as long as the guards allow). -/
theorem tickDists_exact (E : ExactNum φ) (p : Params F) :
    ∀ (fuel : Nat) (d : F) (ds : List F), tickDists p fuel d = some ds →
      (∀ (i : Nat) (h : i < ds.length), φ ds[i] = φ d + (i : K) * φ p.tickDist) ∧
      (∀ i : Nat, i < ds.length →
        Passes (φ p.len) (φ p.minDistFromEnd) (φ d + (i : K) * φ p.tickDist)) ∧
      ¬ Passes (φ p.len) (φ p.minDistFromEnd) (φ d + (ds.length : K) * φ p.tickDist)
  | 0, _, _, h => by simp [tickDists] at h
  | fuel + 1, d, ds, h => by
    simp only [tickDists] at h
    split at h
    · rename_i hle
      rw [E.le_iff] at hle
      split at h
      · rename_i hge
        rw [E.ge_iff, E.sub] at hge
        cases h
        refine ⟨fun i hi => by simp at hi, fun i hi => by simp at hi, ?_⟩
        simp only [List.length_nil, Nat.cast_zero, zero_mul, add_zero, Passes]
        exact fun hp => absurd hp.2 (not_lt.mpr hge)
      · rename_i hge
        have hge' : ¬ φ p.len - φ p.minDistFromEnd ≤ φ d := by
          intro hc; exact hge ((E.ge_iff _ _).mpr (by rw [E.sub]; exact hc))
        cases hrec : tickDists p fuel (d + p.tickDist) with
        | none => simp [hrec] at h
        | some ds' =>
          simp only [hrec, Option.map_some, Option.some.injEq] at h
          subst h
          obtain ⟨h1, h2, h3⟩ := tickDists_exact E p fuel _ ds' hrec
          rw [E.add] at h1 h2 h3
          refine ⟨?_, ?_, ?_⟩
          · intro i hi
            cases i with
            | zero => simp
            | succ i =>
              simp only [List.getElem_cons_succ]
              rw [h1 i (by simpa using hi)]
              push_cast; ring
          · intro i hi
            cases i with
            | zero => simpa [Passes] using ⟨hle, not_le.mp hge'⟩
            | succ i =>
              have := h2 i (by simpa using hi)
              have e : φ d + φ p.tickDist + (i : K) * φ p.tickDist = φ d + ((i + 1 : Nat) : K) * φ p.tickDist := by
                push_cast; ring
              rwa [e] at this
          · have e : φ d + φ p.tickDist + (ds'.length : K) * φ p.tickDist =
                φ d + (((d :: ds').length : Nat) : K) * φ p.tickDist := by
              simp only [List.length_cons]; push_cast; ring
            rwa [e] at h3
    · rename_i hle
      have hle' : ¬ φ d ≤ φ p.len := fun hc => hle ((E.le_iff _ _).mpr hc)
      cases h
      refine ⟨fun i hi => by simp at hi, fun i hi => by simp at hi, ?_⟩
      simp only [List.length_nil, Nat.cast_zero, zero_mul, add_zero, Passes]
      exact fun hp => hle' hp.1

/-- the loop leaves within `m + 1` turns once `len < d + m·t` (`t > 0`), with at most `m` ticks. -/
theorem tickDists_terminates (E : ExactNum φ) (p : Params F) (hT : 0 < φ p.tickDist) :
    ∀ (fuel m : Nat) (d : F), φ p.len < φ d + (m : K) * φ p.tickDist → m < fuel →
      ∃ ds, tickDists p fuel d = some ds ∧ ds.length ≤ m
  | 0, _, _, _, hf => by omega
  | fuel + 1, m, d, hm, hf => by
    rw [tickDists]
    split
    · rename_i hle
      rw [E.le_iff] at hle
      split
      · exact ⟨[], rfl, by simp⟩
      · cases m with
        | zero => simp at hm; exact absurd hle (not_le.mpr hm)
        | succ m =>
          obtain ⟨ds, hds, hl⟩ := tickDists_terminates E p hT fuel m (d + p.tickDist)
            (by rw [E.add]; push_cast at hm; linarith) (by omega)
          exact ⟨d :: ds, by rw [hds]; rfl, by simpa using hl⟩
    · exact ⟨[], rfl, by simp⟩

/-- the number of ticks a span carries: `c` is the first `k` such that `(k+1)·t` fails a guard. -/
def TickCount (T L M : K) (c : Nat) : Prop :=
  (∀ k : Nat, k < c → Passes L M (((k : K) + 1) * T)) ∧ ¬ Passes L M (((c : K) + 1) * T)

/-- the count is unique. -/
theorem TickCount.unique {T L M : K} {c c' : Nat} (h : TickCount T L M c) (h' : TickCount T L M c') :
    c = c' := by
  rcases Nat.lt_trichotomy c c' with hlt | heq | hgt
  · exact absurd (h'.1 c hlt) h.2
  · exact heq
  · exact absurd (h.1 c' hgt) h'.2

/-- **ticks_at_multiples** (exact arithmetic; distances): when the tick distance is positive, the `k`-th tick distance of a
span is `(k+1)·tick_dist`, each passed both guards, and the number of ticks is the `TickCount`. -/
theorem spanTickDists_exact (E : ExactNum φ) (p : Params F) (hT : 0 < φ p.tickDist) {fuel : Nat} {ds : List F}
    (h : spanTickDists p fuel = some ds) :
    (∀ (k : Nat) (hk : k < ds.length), φ ds[k] = ((k : K) + 1) * φ p.tickDist) ∧
    TickCount (φ p.tickDist) (φ p.len) (φ p.minDistFromEnd) ds.length := by
  unfold spanTickDists at h
  rw [if_pos ((E.gt_iff _ _).mpr (by rw [E.zero]; exact hT))] at h
  obtain ⟨h1, h2, h3⟩ := tickDists_exact E p fuel _ ds h
  have e : ∀ i : Nat, φ p.tickDist + (i : K) * φ p.tickDist = ((i : K) + 1) * φ p.tickDist := fun i => by ring
  simp only [e] at h1 h2 h3
  exact ⟨h1, h2, h3⟩

/-- a tick distance that is not positive: no ticks, whatever the fuel (structural, restated). -/
theorem spanTickDists_nonpos (E : ExactNum φ) (p : Params F) (hT : φ p.tickDist ≤ 0) (fuel : Nat) :
    spanTickDists p fuel = some [] := by
  apply spanTickDists_of_not_pos
  rw [E.s.lt_false_iff, E.zero]; exact hT

/-- **ticks_fuel_suffices** (exact arithmetic, every input): if `len < m·tick_dist` for a natural `m` — or the tick distance
is not positive — then any fuel `≥ m` is enough for the `while` loop, which makes fewer than `m` turns that push a tick. -/
theorem ticks_fuel_suffices_exact (E : ExactNum φ) (p : Params F) {m fuel : Nat} (hm1 : 1 ≤ m)
    (hm : φ p.tickDist ≤ 0 ∨ φ p.len < (m : K) * φ p.tickDist) (hfuel : m ≤ fuel) :
    ∃ ds, spanTickDists p fuel = some ds ∧ ds.length < m := by
  by_cases hT : φ p.tickDist ≤ 0
  · exact ⟨[], spanTickDists_nonpos E p hT fuel, by simp; omega⟩
  · have hT' : 0 < φ p.tickDist := not_le.mp hT
    have hlen : φ p.len < (m : K) * φ p.tickDist := hm.resolve_left hT
    unfold spanTickDists
    rw [if_pos ((E.gt_iff _ _).mpr (by rw [E.zero]; exact hT'))]
    obtain ⟨m', rfl⟩ : ∃ m', m = m' + 1 := ⟨m - 1, by omega⟩
    obtain ⟨ds, hds, hl⟩ := tickDists_terminates E p hT' fuel m' p.tickDist
      (by push_cast at hlen; linarith) (by omega)
    exact ⟨ds, hds, by omega⟩

/-- with a floor function on `K` (ℚ, ℝ): fuel `⌊len / tick_dist⌋ + 1` suffices — the loop makes at most `⌊len / tick_dist⌋`
tick-pushing turns (this is the `⌈len / tick_dist⌉` of the property's note, up to the boundary case). -/
theorem ticks_fuel_floor [FloorRing K] (E : ExactNum φ) (p : Params F) {fuel : Nat}
    (hfuel : ⌊φ p.len / φ p.tickDist⌋₊ + 1 ≤ fuel) :
    ∃ ds, spanTickDists p fuel = some ds ∧ ds.length ≤ ⌊φ p.len / φ p.tickDist⌋₊ := by
  obtain ⟨ds, h, hl⟩ := ticks_fuel_suffices_exact E p (m := ⌊φ p.len / φ p.tickDist⌋₊ + 1) (by omega)
    (by
      by_cases hT : φ p.tickDist ≤ 0
      · exact Or.inl hT
      · right
        have hT' : 0 < φ p.tickDist := not_le.mp hT
        have := Nat.lt_floor_add_one (φ p.len / φ p.tickDist)
        rw [div_lt_iff₀ hT'] at this
        push_cast
        exact this) hfuel
  exact ⟨ds, h, by omega⟩

/-! ## 2. the events in exact arithmetic -/

/-- the start of span `s`, `start + s·dur`, in `K`. -/
def spanStartK (φ : F → K) (p : Params F) (s : Int) : K := φ p.startTime + (s : K) * φ p.spanDuration

theorem spanStart_exact (E : ExactNum φ) (p : Params F) (s : Int) : φ (spanStart p s) = spanStartK φ p s := by
  unfold spanStart spanStartK
  rw [E.add, E.mul, E.ofInt]

theorem spanStartK_succ (p : Params F) (s : Int) :
    spanStartK φ p (s + 1) = spanStartK φ p s + φ p.spanDuration := by
  unfold spanStartK; push_cast; ring

theorem spanStartK_lt (p : Params F) (hD : 0 < φ p.spanDuration) {a b : Int} (h : a < b) :
    spanStartK φ p a < spanStartK φ p b := by
  unfold spanStartK
  have : (a : K) < (b : K) := Int.cast_lt.mpr h
  have := mul_lt_mul_of_pos_right this hD
  linarith

theorem spanStartK_le (p : Params F) (hD : 0 < φ p.spanDuration) {a b : Int} (h : a ≤ b) :
    spanStartK φ p a ≤ spanStartK φ p b := by
  rcases lt_or_eq_of_le h with h | h
  · exact le_of_lt (spanStartK_lt p hD h)
  · rw [h]

/-- a tick of span `s` at distance `d`: progress `d / len`; time `start_s + (d/len)·dur`, mirrored (`1 − d/len`) on
reversed spans. -/
theorem tickEvent_exact (E : ExactNum φ) (p : Params F) (s : Int) (d : F) :
    (tickEvent p s d).kind = .tick ∧ (tickEvent p s d).spanIdx = s ∧
    φ (tickEvent p s d).spanStartTime = spanStartK φ p s ∧
    φ (tickEvent p s d).pathProgress = φ d / φ p.len ∧
    φ (tickEvent p s d).time = spanStartK φ p s +
      (if isReversed s then 1 - φ d / φ p.len else φ d / φ p.len) * φ p.spanDuration := by
  refine ⟨rfl, rfl, spanStart_exact E p s, E.div _ _, ?_⟩
  unfold tickEvent mkTick
  cases isReversed s
  · simp only [Bool.false_eq_true, if_false]
    rw [E.add, E.mul, E.div, spanStart_exact E]
  · simp only [if_true]
    rw [E.add, E.mul, E.sub, E.div, E.one, spanStart_exact E]

/-- **repeat i, closed form**: at the end of span `s`, `start + (s+1)·dur`; progress `1` after an even span, `0` after an
odd one. -/
theorem repeatEvent_exact (E : ExactNum φ) (p : Params F) (s : Int) :
    (repeatEvent p s).kind = .repeatPt ∧ (repeatEvent p s).spanIdx = s ∧
    φ (repeatEvent p s).spanStartTime = spanStartK φ p s ∧
    φ (repeatEvent p s).time = spanStartK φ p (s + 1) ∧
    φ (repeatEvent p s).pathProgress = ((Int.tmod (s + 1) 2 : Int) : K) := by
  refine ⟨rfl, rfl, spanStart_exact E p s, ?_, E.ofInt _⟩
  unfold repeatEvent newRepeatPoint
  rw [E.add, spanStart_exact E, spanStartK_succ]

/-- **head, closed form**. -/
theorem headEvent_exact (E : ExactNum φ) (p : Params F) :
    (headEvent p).kind = .head ∧ (headEvent p).spanIdx = 0 ∧ (headEvent p).time = p.startTime ∧
    φ (headEvent p).time = spanStartK φ p 0 ∧ φ (headEvent p).pathProgress = 0 := by
  refine ⟨rfl, rfl, rfl, ?_, E.zero⟩
  unfold spanStartK headEvent; simp

/-- **tail, closed form**: at `start + n·dur`, at the far end of the path iff the span count is odd. -/
theorem tailEvent_exact (E : ExactNum φ) (p : Params F) :
    (tailEvent p).kind = .tail ∧ (tailEvent p).spanIdx = p.spanCount - 1 ∧
    φ (tailEvent p).time = spanStartK φ p p.spanCount ∧
    φ (tailEvent p).time = φ p.startTime + (p.spanCount : K) * φ p.spanDuration ∧
    φ (tailEvent p).pathProgress = ((Int.tmod p.spanCount 2 : Int) : K) := by
  have h : φ (tailEvent p).time = φ p.startTime + (p.spanCount : K) * φ p.spanDuration := by
    unfold tailEvent; simp only []; rw [E.add, E.mul, E.ofInt]
  exact ⟨rfl, rfl, h, h, E.ofInt _⟩

/-- **last tick, closed form** (`last_tick_formula` in exact arithmetic): its time is
`max(start + n·dur/2, start + n·dur − 36)` — the later of half-way and 36 ms before the end, the end being the tail's
time; its progress is its position within the final span, `(time − start_{n−1}) / dur`, mirrored when `n` is even. -/
theorem lastTickEvent_exact (E : ExactNum φ) (p : Params F) :
    (lastTickEvent p).kind = .lastTick ∧ (lastTickEvent p).spanIdx = p.spanCount - 1 ∧
    φ (lastTickEvent p).time =
      max (φ p.startTime + (p.spanCount : K) * φ p.spanDuration / 2) (φ (tailEvent p).time - 36) ∧
    φ (lastTickEvent p).pathProgress =
      (if Int.tmod p.spanCount 2 == 0
        then 1 - (φ (lastTickEvent p).time - spanStartK φ p (p.spanCount - 1)) / φ p.spanDuration
        else (φ (lastTickEvent p).time - spanStartK φ p (p.spanCount - 1)) / φ p.spanDuration) := by
  have hS : φ (p.startTime + Scalar.ofInt (p.spanCount - 1) * p.spanDuration) = spanStartK φ p (p.spanCount - 1) := by
    rw [E.add, E.mul, E.ofInt]; rfl
  refine ⟨rfl, rfl, ?_, ?_⟩
  · rw [(tailEvent_exact E p).2.2.2.1]
    unfold lastTickEvent tailLeniency
    simp only []
    rw [E.max, E.add, E.div, E.mul, E.ofInt, E.lit, E.add, E.add, E.neg, E.lit, hS]
    unfold spanStartK
    push_cast
    congr 1
    ring
  · unfold lastTickEvent
    simp only []
    split
    · rw [E.sub, E.div, E.sub, E.one, hS]
    · rw [E.div, E.sub, hS]

/-! ## 3. ticks: multiples, mirroring, minimum distance -/

/-- which tick distance (counted along the path, from 0) the `j`-th tick *in time* of span `s` has: the same index on
forward spans, counted from the far end on reversed ones. -/
def pathIdx (s : Int) (c j : Nat) : Nat := if isReversed s then c - 1 - j else j

/-- **ticks_at_multiples** (exact arithmetic; events): every span `s` carries as many ticks as there are tick distances; its
`j`-th tick in time is a `tick` event of span `s` whose path progress is `(k+1)·tick_dist / len` with `k = pathIdx s c j`,
and whose time is `start_s + progress·dur` on forward spans and `start_s + (1 − progress)·dur` on reversed ones —
identical placement on every span, mirrored in time on reversed spans. -/
theorem ticks_at_multiples_exact (E : ExactNum φ) (p : Params F) (hT : 0 < φ p.tickDist) {fuel : Nat} {ds : List F}
    (h : spanTickDists p fuel = some ds) (s : Int) :
    (spanTicks p ds s).length = ds.length ∧
    ∀ (j : Nat) (hj : j < (spanTicks p ds s).length),
      ((spanTicks p ds s)[j]).kind = .tick ∧ ((spanTicks p ds s)[j]).spanIdx = s ∧
      φ ((spanTicks p ds s)[j]).spanStartTime = spanStartK φ p s ∧
      φ ((spanTicks p ds s)[j]).pathProgress =
        (((pathIdx s ds.length j : Nat) : K) + 1) * φ p.tickDist / φ p.len ∧
      φ ((spanTicks p ds s)[j]).time = spanStartK φ p s +
        (if isReversed s then 1 - (((pathIdx s ds.length j : Nat) : K) + 1) * φ p.tickDist / φ p.len
         else (((pathIdx s ds.length j : Nat) : K) + 1) * φ p.tickDist / φ p.len) * φ p.spanDuration := by
  obtain ⟨hmul, _⟩ := spanTickDists_exact E p hT h
  have hlen : (spanTicks p ds s).length = ds.length := by
    rw [spanTicks_eq]; split <;> simp
  refine ⟨hlen, fun j hj => ?_⟩
  have hj' : j < ds.length := hlen ▸ hj
  have key : ∃ (hk : pathIdx s ds.length j < ds.length),
      (spanTicks p ds s)[j] = tickEvent p s (ds[pathIdx s ds.length j]) := by
    unfold pathIdx
    cases hr : isReversed s
    · refine ⟨by simpa using hj', ?_⟩
      simp only [spanTicks_eq, hr, Bool.false_eq_true, if_false, List.getElem_map]
    · refine ⟨by simp only [if_true]; omega, ?_⟩
      simp only [spanTicks_eq, hr, if_true, List.getElem_map, List.getElem_reverse]
  obtain ⟨hk, heq⟩ := key
  rw [heq]
  obtain ⟨e1, e2, e3, e4, e5⟩ := tickEvent_exact E p s (ds[pathIdx s ds.length j])
  rw [hmul _ hk] at e4 e5
  exact ⟨e1, e2, e3, e4, e5⟩

/-- **ticks_respect_min_distance_strict** (exact arithmetic): every tick distance `d` satisfies `d ≤ len` and, strictly,
`d < len − min_dist_from_end`; after `new`, `min_dist_from_end = 10·velocity`: the remaining travel `len − d` exceeds
what is covered in 10 ms. -/
theorem ticks_respect_min_distance_exact (E : ExactNum φ) (p : Params F) {fuel : Nat} {ds : List F}
    (h : spanTickDists p fuel = some ds) :
    ∀ d ∈ ds, φ d ≤ φ p.len ∧ φ p.minDistFromEnd < φ p.len - φ d := by
  intro d hd
  obtain ⟨h1, h2⟩ := ticks_respect_min_distance p fuel ds h d hd
  rw [E.le_iff] at h1
  have h2' : ¬ (φ p.len - φ p.minDistFromEnd ≤ φ d) := by
    intro hc
    have := (E.ge_iff d (p.len - p.minDistFromEnd)).mpr (by rw [E.sub]; exact hc)
    rw [this] at h2; cases h2
  exact ⟨h1, by linarith [not_le.mp h2']⟩

/-- tick distances are positive, below the length (for a non-negative `min_dist_from_end`), and strictly increasing. -/
theorem tickDists_facts (E : ExactNum φ) (p : Params F) (hM : 0 ≤ φ p.minDistFromEnd) {fuel : Nat} {ds : List F}
    (h : spanTickDists p fuel = some ds) :
    (∀ d ∈ ds, 0 < φ d ∧ φ d < φ p.len) ∧ ds.Pairwise (fun a b => φ a < φ b) := by
  by_cases hT : φ p.tickDist ≤ 0
  · have := spanTickDists_nonpos E p hT fuel
    rw [this] at h; cases h
    exact ⟨fun d hd => by simp at hd, List.Pairwise.nil⟩
  · have hT' : 0 < φ p.tickDist := not_le.mp hT
    obtain ⟨hmul, _⟩ := spanTickDists_exact E p hT' h
    constructor
    · intro d hd
      obtain ⟨k, hk, rfl⟩ := List.getElem_of_mem hd
      have h2 := (ticks_respect_min_distance_exact E p h _ hd).2
      rw [hmul k hk] at h2 ⊢
      have : (0 : K) ≤ (k : K) := Nat.cast_nonneg k
      constructor
      · positivity
      · linarith
    · rw [List.pairwise_iff_getElem]
      intro i j hi hj hij
      rw [hmul i hi, hmul j hj]
      have : (i : K) < (j : K) := Nat.cast_lt.mpr hij
      nlinarith

/-! ## 4. chronology -/

theorem tickEvent_time_bounds (E : ExactNum φ) (p : Params F) (hL : 0 < φ p.len) (hD : 0 < φ p.spanDuration)
    (s : Int) {d : F} (h0 : 0 < φ d) (h1 : φ d < φ p.len) :
    spanStartK φ p s < φ (tickEvent p s d).time ∧ φ (tickEvent p s d).time < spanStartK φ p (s + 1) := by
  rw [(tickEvent_exact E p s d).2.2.2.2, spanStartK_succ]
  have hq0 : 0 < φ d / φ p.len := div_pos h0 hL
  have hq1 : φ d / φ p.len < 1 := (div_lt_one hL).mpr h1
  split
  · constructor <;> nlinarith
  · constructor <;> nlinarith

theorem tickEvent_time_mono (E : ExactNum φ) (p : Params F) (hL : 0 < φ p.len) (hD : 0 < φ p.spanDuration)
    (s : Int) {a b : F} (hab : φ a < φ b) :
    if isReversed s then φ (tickEvent p s b).time < φ (tickEvent p s a).time
    else φ (tickEvent p s a).time < φ (tickEvent p s b).time := by
  rw [(tickEvent_exact E p s a).2.2.2.2, (tickEvent_exact E p s b).2.2.2.2]
  have hq : φ a / φ p.len < φ b / φ p.len := div_lt_div_of_pos_right hab hL
  split <;> nlinarith

/-- **ticks_chronological** (within a span, exact arithmetic, positive length and span duration): the ticks of every span are
listed in strictly increasing time. -/
theorem ticks_chronological_exact (E : ExactNum φ) (p : Params F) (hM : 0 ≤ φ p.minDistFromEnd)
    (hL : 0 < φ p.len) (hD : 0 < φ p.spanDuration) {fuel : Nat} {ds : List F}
    (h : spanTickDists p fuel = some ds) (s : Int) :
    (spanTicks p ds s).Pairwise (fun a b => φ a.time < φ b.time) := by
  obtain ⟨_, hinc⟩ := tickDists_facts E p hM h
  rw [spanTicks_eq]
  cases hr : isReversed s
  · simp only [Bool.false_eq_true, if_false]
    refine List.Pairwise.map _ ?_ hinc
    intro a b hab
    have := tickEvent_time_mono E p hL hD s hab
    rwa [hr] at this
  · simp only [if_true]
    refine List.Pairwise.map _ ?_ (List.pairwise_reverse.mpr hinc)
    intro a b hab
    have := tickEvent_time_mono E p hL hD s hab
    rwa [hr] at this

/-- a span's list is its ticks followed, except on the last span, by its repeat. -/
theorem spanEvents_eq_ticks_append (p : Params F) (ds : List F) (s : Int) :
    spanEvents p ds s = spanTicks p ds s ++ (if s < p.spanCount - 1 then [repeatEvent p s] else []) := by
  rw [spanTicks_eq]; rfl

theorem mem_spanTicks {p : Params F} {ds : List F} {s : Int} {e : SliderEvent F} (he : e ∈ spanTicks p ds s) :
    ∃ d ∈ ds, e = tickEvent p s d := by
  rw [spanTicks_eq] at he
  obtain ⟨d, hd, rfl⟩ := List.mem_map.mp he
  refine ⟨d, ?_, rfl⟩
  split at hd
  · exact List.mem_reverse.mp hd
  · exact hd

/-- one span: strictly chronological, all of it after the span's start, ticks strictly before its end and the repeat
(if any) exactly at its end. -/
theorem spanEvents_chrono (E : ExactNum φ) (p : Params F) (hM : 0 ≤ φ p.minDistFromEnd)
    (hL : 0 < φ p.len) (hD : 0 < φ p.spanDuration) {fuel : Nat} {ds : List F}
    (h : spanTickDists p fuel = some ds) (s : Int) :
    (spanEvents p ds s).Pairwise (fun a b => φ a.time < φ b.time) ∧
    ∀ e ∈ spanEvents p ds s, spanStartK φ p s < φ e.time ∧
      ((e.kind = .tick ∧ φ e.time < spanStartK φ p (s + 1)) ∨
       (e.kind = .repeatPt ∧ s < p.spanCount - 1 ∧ φ e.time = spanStartK φ p (s + 1))) := by
  obtain ⟨hpos, _⟩ := tickDists_facts E p hM h
  have htick : ∀ e ∈ spanTicks p ds s, e.kind = .tick ∧
      spanStartK φ p s < φ e.time ∧ φ e.time < spanStartK φ p (s + 1) := by
    intro e he
    obtain ⟨d, hd, rfl⟩ := mem_spanTicks he
    exact ⟨rfl, tickEvent_time_bounds E p hL hD s (hpos d hd).1 (hpos d hd).2⟩
  have hrep := (repeatEvent_exact E p s).2.2.2.1
  rw [spanEvents_eq_ticks_append]
  constructor
  · rw [List.pairwise_append]
    refine ⟨ticks_chronological_exact E p hM hL hD h s, ?_, ?_⟩
    · split <;> simp
    · intro a ha b hb
      split at hb
      · rw [List.mem_singleton] at hb; subst hb
        rw [hrep]; exact (htick a ha).2.2
      · simp at hb
  · intro e he
    rcases List.mem_append.mp he with he | he
    · exact ⟨(htick e he).2.1, Or.inl ⟨(htick e he).1, (htick e he).2.2⟩⟩
    · split at he
      · rename_i hs
        rw [List.mem_singleton] at he; subst he
        rw [hrep]
        exact ⟨spanStartK_lt p hD (by omega), Or.inr ⟨rfl, hs, rfl⟩⟩
      · simp at he

/-- consecutive spans: strictly chronological across span boundaries; everything lies after the first span's start and
strictly before the end of the slider. -/
theorem spansFrom_chrono (E : ExactNum φ) (p : Params F) (hM : 0 ≤ φ p.minDistFromEnd)
    (hL : 0 < φ p.len) (hD : 0 < φ p.spanDuration) {fuel : Nat} {ds : List F}
    (h : spanTickDists p fuel = some ds) :
    ∀ (k : Nat) (s : Int),
      (spansFrom p ds s k).Pairwise (fun a b => φ a.time < φ b.time) ∧
      ∀ e ∈ spansFrom p ds s k, (e.kind = .tick ∨ e.kind = .repeatPt) ∧ spanStartK φ p s < φ e.time ∧
        (s + k ≤ p.spanCount → φ e.time < spanStartK φ p p.spanCount)
  | 0, s => by simp [spansFrom]
  | k + 1, s => by
    obtain ⟨hp1, hb1⟩ := spanEvents_chrono E p hM hL hD h s
    obtain ⟨hp2, hb2⟩ := spansFrom_chrono E p hM hL hD h k (s + 1)
    have hle : ∀ e ∈ spanEvents p ds s, φ e.time ≤ spanStartK φ p (s + 1) := by
      intro e he
      rcases (hb1 e he).2 with ⟨_, hlt⟩ | ⟨_, _, heq⟩
      · exact le_of_lt hlt
      · exact le_of_eq heq
    rw [spansFrom]
    constructor
    · rw [List.pairwise_append]
      refine ⟨hp1, hp2, fun a ha b hb => lt_of_le_of_lt (hle a ha) (hb2 b hb).2.1⟩
    · intro e he
      rcases List.mem_append.mp he with he | he
      · refine ⟨?_, (hb1 e he).1, fun hn => ?_⟩
        · rcases (hb1 e he).2 with ⟨hk, _⟩ | ⟨hk, _⟩
          · exact Or.inl hk
          · exact Or.inr hk
        · rcases (hb1 e he).2 with ⟨_, hlt⟩ | ⟨_, hs, heq⟩
          · exact lt_of_lt_of_le hlt (spanStartK_le p hD (by push_cast at hn; omega))
          · rw [heq]; exact spanStartK_lt p hD (by omega)
      · refine ⟨(hb2 e he).1, lt_trans (spanStartK_lt p hD (by omega)) (hb2 e he).2.1, fun hn => ?_⟩
        exact (hb2 e he).2.2 (by push_cast at hn ⊢; omega)

/-- the stream without the legacy last tick. -/
theorem eventsOf_filter (E : ExactNum φ) (p : Params F) (hM : 0 ≤ φ p.minDistFromEnd)
    (hL : 0 < φ p.len) (hD : 0 < φ p.spanDuration) {fuel : Nat} {ds : List F}
    (h : spanTickDists p fuel = some ds) :
    (eventsOf p ds).filter (fun e => e.kind != .lastTick) =
      headEvent p :: (spansFrom p ds 0 p.spanCount.toNat ++ [tailEvent p]) := by
  have hk : ∀ e ∈ spansFrom p ds 0 p.spanCount.toNat, (e.kind != Kind.lastTick) = true := by
    intro e he
    rcases ((spansFrom_chrono E p hM hL hD h _ 0).2 e he).1 with hk | hk <;> rw [hk] <;> rfl
  unfold eventsOf
  rw [List.filter_cons_of_pos (by rfl), List.filter_append, List.filter_eq_self.mpr hk]
  rfl

/-- **stream chronology** (exact arithmetic; `n ≥ 1`, positive length and span duration, non-negative velocity):
* the stream without the legacy last tick — head, every span's ticks and repeat, tail — is strictly increasing in time:
  `head < ticks/repeats of span 0 < … < ticks of span n−1 < tail`;
* the last tick lies strictly after the head and not after the tail.
(The last tick is *not* always after the ticks of the final span: it sits at `max(half-way, end − 36 ms)`, see the
example at the end of the file.) -/
theorem stream_chronological_exact (E : ExactNum φ) (p : Params F) (hn : 1 ≤ p.spanCount)
    (hM : 0 ≤ φ p.minDistFromEnd) (hL : 0 < φ p.len) (hD : 0 < φ p.spanDuration) {fuel : Nat} {ds : List F}
    (h : spanTickDists p fuel = some ds) :
    ((eventsOf p ds).filter (fun e => e.kind != .lastTick)).Pairwise (fun a b => φ a.time < φ b.time) ∧
    φ (headEvent p).time < φ (lastTickEvent p).time ∧ φ (lastTickEvent p).time ≤ φ (tailEvent p).time := by
  obtain ⟨hp, hb⟩ := spansFrom_chrono E p hM hL hD h p.spanCount.toNat 0
  have hhead := (headEvent_exact E p).2.2.2.1
  have htail := (tailEvent_exact E p).2.2.1
  have hnK : (1 : K) ≤ (p.spanCount : K) := by exact_mod_cast hn
  refine ⟨?_, ?_, ?_⟩
  · rw [eventsOf_filter E p hM hL hD h, List.pairwise_cons]
    constructor
    · intro b hb'
      rcases List.mem_append.mp hb' with hb' | hb'
      · rw [hhead]; exact (hb b hb').2.1
      · rw [List.mem_singleton] at hb'; subst hb'
        rw [hhead, htail]; exact spanStartK_lt p hD (by omega)
    · rw [List.pairwise_append]
      refine ⟨hp, List.pairwise_singleton _ _, fun a ha b hb' => ?_⟩
      rw [List.mem_singleton] at hb'; subst hb'
      rw [htail]; exact (hb a ha).2.2 (by omega)
  · rw [(lastTickEvent_exact E p).2.2.1, hhead]
    apply lt_of_lt_of_le _ (le_max_left _ _)
    unfold spanStartK
    have : 0 < (p.spanCount : K) * φ p.spanDuration := by nlinarith
    simp only [Int.cast_zero, zero_mul, add_zero]
    linarith
  · rw [(lastTickEvent_exact E p).2.2.1]
    apply max_le
    · rw [(tailEvent_exact E p).2.2.2.1]
      have : 0 < (p.spanCount : K) * φ p.spanDuration := by nlinarith
      linarith
    · linarith

/-! ## 5. the whole list, for the iterator `new` builds and `collect` / `runUse` drain -/

theorem new_params {start dur vel td total : F} {n : Int} {buf : List (SliderEvent F)} {it : Iter F}
    (hnew : Iter.new start dur vel td total n buf = some it) :
    Params.new start dur vel td total n = some it.toParams := by
  unfold Iter.new at hnew
  cases hp : Params.new start dur vel td total n with
  | none => simp [hp] at hnew
  | some p =>
    simp only [hp, Option.map_some, Option.some.injEq] at hnew
    subst hnew; rfl

/-- **the stream exists with the fuel passed** (exact arithmetic, every input with `n ≥ 1`): if `len < m·tick_dist`
(`m ≥ 1`; automatically so when the tick distance is zero) then with tick-loop fuel `≥ m` and at least
`n·m + 3` calls of `next` allowed, collecting the iterator yields the eager list — never `fuel-exhausted` — for some list
`ds` of fewer than `m` tick distances, whatever the buffer held. -/
theorem stream_exists_exact (E : ExactNum φ) {start dur vel td total : F} {n : Int} {buf : List (SliderEvent F)}
    {it : Iter F} (hnew : Iter.new start dur vel td total n buf = some it) (hn : 1 ≤ n)
    {m fuel N : Nat} (hm1 : 1 ≤ m) (hm : φ it.tickDist ≤ 0 ∨ φ it.len < (m : K) * φ it.tickDist)
    (hfuel : m ≤ fuel) (hN : n.toNat * m + 2 < N) :
    ∃ ds, spanTickDists it.toParams fuel = some ds ∧ ds.length < m ∧
      collect fuel N it = some (eventsOf it.toParams ds) := by
  obtain ⟨ds, hds, hl⟩ := ticks_fuel_suffices_exact E it.toParams hm1 hm hfuel
  have hsc : it.toParams.spanCount = n := (new_exact E (new_params hnew)).2.2.1
  refine ⟨ds, hds, hl, stream_shape start dur vel td total n buf fuel N it ds hnew (by omega) hds ?_⟩
  rw [event_count it.toParams ds (by omega), hsc]
  have : n.toNat * (ds.length + 1) ≤ n.toNat * m := Nat.mul_le_mul_left _ (by omega)
  omega

/-- the same for the request the driver runs (`runUse` with the tail-recursive collector, draining everything):
the caller sees exactly the eager list and the buffer is left empty. -/
theorem runUse_exact (E : ExactNum φ) (u : Use F) (buf : List (SliderEvent F)) {it : Iter F}
    (hnew : Iter.new u.startTime u.spanDuration u.velocity u.tickDist u.totalDist u.spanCount buf = some it)
    (hn : 1 ≤ u.spanCount) (htake : u.take = Option.none)
    {m fuel : Nat} (hm1 : 1 ≤ m) (hm : φ it.tickDist ≤ 0 ∨ φ it.len < (m : K) * φ it.tickDist)
    (hfuel : m ≤ fuel) (hN : u.spanCount.toNat * m + 2 < collectBound) :
    ∃ ds, spanTickDists it.toParams fuel = some ds ∧
      ∃ rest, runUse fuel u buf = (Outcome.events (eventsOf it.toParams ds), rest) := by
  obtain ⟨ds, hds, _, hc⟩ := stream_exists_exact E hnew hn hm1 hm hfuel hN
  refine ⟨ds, hds, ?_⟩
  have hacc := collectAcc_eq_collect fuel collectBound it []
  rw [hc] at hacc
  unfold runUse
  rw [hnew]
  simp only [htake]
  cases hr : collectAcc fuel collectBound it [] with
  | none => rw [hr] at hacc; simp at hacc
  | some r =>
    rw [hr] at hacc
    simp only [Option.map_some, List.reverse_nil, List.nil_append, Option.some.injEq] at hacc
    obtain ⟨evs, it'⟩ := r
    simp only at hacc
    subst hacc
    exact ⟨it'.ticks, rfl⟩

/-- **the ordering clause of the property, as one statement about the collected list** (exact arithmetic).
For every slider with span count `n ≥ 1`, positive length and span duration and non-negative velocity, and fuel as in
`stream_exists_exact`, the list `collect` returns is

  `head :: (for each span i = 0 … n−1: ticksᵢ ++ [repeatᵢ unless i = n−1]) ++ [last tick, tail]`

where, with `c` the tick count of a span (the same for every span),
* `ticksᵢ` are `c` events of kind `tick` carrying span index `i`, in strictly increasing time;
* the list without the legacy last tick is strictly increasing in time from the head to the tail;
* the last tick lies strictly after the head and not after the tail. -/
theorem stream_ordering_exact (E : ExactNum φ) {start dur vel td total : F} {n : Int} {buf : List (SliderEvent F)}
    {it : Iter F} (hnew : Iter.new start dur vel td total n buf = some it) (hn : 1 ≤ n)
    (hvel : 0 ≤ φ vel) (hlen : 0 < φ it.len) (hdur : 0 < φ dur)
    {m fuel N : Nat} (hm1 : 1 ≤ m) (hm : φ it.tickDist ≤ 0 ∨ φ it.len < (m : K) * φ it.tickDist)
    (hfuel : m ≤ fuel) (hN : n.toNat * m + 2 < N) :
    ∃ (ds : List F) (evs : List (SliderEvent F)),
      collect fuel N it = some evs ∧
      evs = headEvent it.toParams ::
        ((List.range n.toNat).flatMap (fun i : Nat => spanTicks it.toParams ds i ++
            (if (i : Int) < n - 1 then [repeatEvent it.toParams i] else [])) ++
          [lastTickEvent it.toParams, tailEvent it.toParams]) ∧
      (∀ i : Nat, (spanTicks it.toParams ds i).length = ds.length ∧
        (∀ e ∈ spanTicks it.toParams ds i, e.kind = .tick ∧ e.spanIdx = i) ∧
        (spanTicks it.toParams ds i).Pairwise (fun a b => φ a.time < φ b.time)) ∧
      (evs.filter (fun e => e.kind != .lastTick)).Pairwise (fun a b => φ a.time < φ b.time) ∧
      φ (headEvent it.toParams).time < φ (lastTickEvent it.toParams).time ∧
      φ (lastTickEvent it.toParams).time ≤ φ (tailEvent it.toParams).time := by
  obtain ⟨ds, hds, _, hc⟩ := stream_exists_exact E hnew hn hm1 hm hfuel hN
  obtain ⟨_, hd, hsc, _, _, _, hmin⟩ := new_exact E (new_params hnew)
  have hM : 0 ≤ φ it.toParams.minDistFromEnd := by rw [hmin]; nlinarith
  have hD : 0 < φ it.toParams.spanDuration := by rw [hd]; exact hdur
  obtain ⟨h1, h2, h3⟩ := stream_chronological_exact E it.toParams (by omega) hM hlen hD hds
  refine ⟨ds, _, hc, ?_, ?_, h1, h2, h3⟩
  · rw [eventsOf_eq_concat, hsc]
    simp only [spanEvents_eq_ticks_append, hsc]
  · intro i
    refine ⟨by rw [spanTicks_eq]; split <;> simp, fun e he => ?_, ticks_chronological_exact E _ hM hlen hD hds i⟩
    obtain ⟨d, _, rfl⟩ := mem_spanTicks he
    exact ⟨rfl, rfl⟩

/-- **tick placement for the iterator `new` builds** (exact arithmetic, positive tick distance): the number of ticks per span is
the `TickCount` for `tick_dist`, `len` and `10·velocity`; every tick distance leaves strictly more than 10 ms of travel
(`10·velocity`) to the span end; and the ticks of every span have the closed forms of `ticks_at_multiples_exact`. -/
theorem stream_ticks_exact (E : ExactNum φ) {start dur vel td total : F} {n : Int} {buf : List (SliderEvent F)}
    {it : Iter F} (hnew : Iter.new start dur vel td total n buf = some it) (hT : 0 < φ it.tickDist)
    {fuel : Nat} {ds : List F} (h : spanTickDists it.toParams fuel = some ds) :
    TickCount (φ it.tickDist) (φ it.len) (φ vel * 10) ds.length ∧
    (∀ (k : Nat) (hk : k < ds.length), φ ds[k] = ((k : K) + 1) * φ it.tickDist ∧
      φ ds[k] ≤ φ it.len ∧ φ vel * 10 < φ it.len - φ ds[k]) ∧
    ∀ (s : Int) (j : Nat) (hj : j < (spanTicks it.toParams ds s).length),
      ((spanTicks it.toParams ds s)[j]).kind = .tick ∧ ((spanTicks it.toParams ds s)[j]).spanIdx = s ∧
      φ ((spanTicks it.toParams ds s)[j]).pathProgress =
        (((pathIdx s ds.length j : Nat) : K) + 1) * φ it.tickDist / φ it.len ∧
      φ ((spanTicks it.toParams ds s)[j]).time = φ start + (s : K) * φ dur +
        (if isReversed s then 1 - (((pathIdx s ds.length j : Nat) : K) + 1) * φ it.tickDist / φ it.len
         else (((pathIdx s ds.length j : Nat) : K) + 1) * φ it.tickDist / φ it.len) * φ dur := by
  obtain ⟨hs, hd, _, _, _, _, hmin⟩ := new_exact E (new_params hnew)
  obtain ⟨hmul, hc⟩ := spanTickDists_exact E it.toParams hT h
  have hmin' : φ it.minDistFromEnd = φ vel * 10 := hmin
  refine ⟨hmin' ▸ hc, fun k hk => ?_, fun s j hj => ?_⟩
  · obtain ⟨h1, h2⟩ := ticks_respect_min_distance_exact E it.toParams h _ (List.getElem_mem hk)
    exact ⟨hmul k hk, h1, hmin' ▸ h2⟩
  · obtain ⟨e1, e2, _, e4, e5⟩ := (ticks_at_multiples_exact E it.toParams hT h s).2 j hj
    refine ⟨e1, e2, e4, ?_⟩
    rw [e5]; unfold spanStartK
    have hs' : it.toParams.startTime = start := hs
    have hd' : it.toParams.spanDuration = dur := hd
    rw [hs', hd']

end

/-! ## 6. the hypotheses are satisfiable: core `Rat` (`exactNum_rat`), evaluated; and ℝ (`exactNum_real`) -/

/-- the law structure has instances: exact rationals and the reals (audited with the property). -/
theorem laws_rat : ExactNum (id : Rat → Rat) := exactNum_rat
theorem laws_real : ExactNum (id : ℝ → ℝ) := exactNum_real

section Examples
open Rosu.ToyRat

/-- the `non_even_ticks` unit test of event.rs on exact rationals: start 0, span 1000 ms, velocity 1, tick distance 300,
length 1000, two spans, junk in the buffer. -/
def exactIter : Option (Iter Rat) := Iter.new (0 : Rat) 1000 1 300 1000 2 [headEvent ⟨7, 7, 7, 7, 7, 7⟩]

def exactParams : Params Rat :=
  { startTime := 0, spanDuration := 1000, minDistFromEnd := 10, tickDist := 300, len := 1000, spanCount := 2 }

theorem exactIter_eq : Iter.new (0 : Rat) 1000 1 300 1000 2 [headEvent ⟨7, 7, 7, 7, 7, 7⟩] =
    some ⟨exactParams, [], .head⟩ := by decide +kernel

/-- all hypotheses of `stream_ordering_exact` hold for it with `m = 4` (1000 < 4·300), fuel 4, 11 calls of `next`. -/
example :=
  stream_ordering_exact exactNum_rat exactIter_eq (by omega) (by decide +kernel) (by decide +kernel) (by decide +kernel)
    (m := 4) (fuel := 4) (N := 11) (by omega) (Or.inr (by decide +kernel)) (Nat.le_refl 4) (by decide)

/-- … and the list is the expected one: three ticks at 300/600/900, repeat at 1000, mirrored ticks at 1100/1400/1700,
last tick at 1964 = max(1000, 2000 − 36), tail at 2000. -/
example : (collect 4 11 ⟨exactParams, [], .head⟩).map (·.map fun e => (e.kind, e.spanIdx, e.time, e.pathProgress)) =
    some [(.head, 0, 0, 0), (.tick, 0, 300, 3/10), (.tick, 0, 600, 6/10), (.tick, 0, 900, 9/10),
          (.repeatPt, 0, 1000, 1), (.tick, 1, 1100, 9/10), (.tick, 1, 1400, 6/10), (.tick, 1, 1700, 3/10),
          (.lastTick, 1, 1964, 36/1000), (.tail, 1, 2000, 0)] := by decide +kernel

/-- the tick count of the example is 3: `TickCount 300 1000 10 3`. -/
example : TickCount (300 : Rat) 1000 10 3 := by
  refine ⟨fun k hk => ?_, ?_⟩
  · have : k = 0 ∨ k = 1 ∨ k = 2 := by omega
    rcases this with rfl | rfl | rfl <;> (unfold Passes; norm_num)
  · unfold Passes; norm_num

/-- **the last tick need not come after the final span's ticks**: one span of 50 ms, length 100, tick distance 40 —
ticks at 20 ms and 40 ms, legacy last tick at max(25, 50 − 36) = 25 ms, listed after both. -/
example : (collect 4 11 ⟨{ exactParams with spanDuration := 50, tickDist := 40, len := 100, spanCount := 1 }, [], .head⟩).map
      (·.map fun e => (e.kind, e.time)) =
    some [(.head, 0), (.tick, 20), (.tick, 40), (.lastTick, 25), (.tail, 50)] := by decide +kernel

/-- fuel from the floor: `⌊1000/300⌋ + 1 = 4`. -/
example : ∃ ds, spanTickDists exactParams 4 = some ds ∧ ds.length ≤ 3 := by
  have h := ticks_fuel_floor (K := Rat) exactNum_rat exactParams (fuel := 4) (by
    have : ⌊(1000 : Rat) / 300⌋₊ = 3 := by
      rw [Nat.floor_eq_iff (by norm_num)]; norm_num
    show ⌊(1000 : Rat) / 300⌋₊ + 1 ≤ 4
    omega)
  have e : ⌊(1000 : Rat) / 300⌋₊ = 3 := by
    rw [Nat.floor_eq_iff (by norm_num)]; norm_num
  obtain ⟨ds, h1, h2⟩ := h
  exact ⟨ds, h1, by
    have : ⌊id exactParams.len / id exactParams.tickDist⌋₊ = 3 := e
    omega⟩

end Examples

section RealExample
-- numerals below are Mathlib's real numerals, not `Scalar.ofNat`
attribute [-instance] Scalar.instOfNat Scalar.instOfScientific

/-- the same theorems apply to the real numbers. -/
example (start dur vel td total : ℝ) (n : Int) (buf : List (SliderEvent ℝ)) (it : Iter ℝ)
    (hnew : Iter.new start dur vel td total n buf = some it) (hn : 1 ≤ n) (hvel : 0 ≤ vel) (hlen : 0 < it.len)
    (hdur : 0 < dur) (fuel N : Nat) (hfuel : ⌊it.len / it.tickDist⌋₊ + 1 ≤ fuel)
    (hN : n.toNat * (⌊it.len / it.tickDist⌋₊ + 1) + 2 < N) :
    ∃ evs, collect fuel N it = some evs ∧
      (evs.filter (fun e => e.kind != .lastTick)).Pairwise (fun a b => a.time < b.time) := by
  obtain ⟨ds, evs, h1, _, _, h4, _⟩ := stream_ordering_exact (φ := (id : ℝ → ℝ)) exactNum_real hnew hn hvel hlen hdur
    (m := ⌊it.len / it.tickDist⌋₊ + 1) (by omega)
    (by
      by_cases hT : it.tickDist ≤ 0
      · exact Or.inl hT
      · right
        have hT' : 0 < it.tickDist := not_le.mp hT
        have := Nat.lt_floor_add_one (it.len / it.tickDist)
        rw [div_lt_iff₀ hT'] at this
        push_cast
        exact this) hfuel hN
  exact ⟨evs, h1, h4⟩

end RealExample


end Rosu.C20

