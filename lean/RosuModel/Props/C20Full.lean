/-
  Props/C20Full.lean — the module audited for C20: Props/C20Exact.lean (and what it imports) together with
  Props/C20Ieee.lean (the IEEE / real-analysis instantiations). All in namespace Rosu.C20.
-/
import RosuModel.Props.C20Exact
import RosuModel.Props.C20Ieee
import RosuModel.Props.C20IeeeTicks
