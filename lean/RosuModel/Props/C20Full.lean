/-
  Props/C20Full.lean — the module audited for C20: Props/C20Exact.lean (and what it imports) together with
  Props/C20Ieee.lean (the IEEE / real-analysis instantiations), Props/C20IeeeTicks.lean and
  Props/C20IeeeErr.lean (rounding-error bound for the accumulated tick distances) and Props/C20IeeeErr2.lean
  (rounding-error bounds for the tick path progress and the tick time, via Lemmas/FloatErrMul.lean,
  Lemmas/FloatErrRange.lean), Props/C20IeeeForms.lean (head / repeats / last tick / tail on doubles against their closed
  forms) and Props/C20IeeeFormsOrder.lean (which order facts between them survive rounding, witnesses for those that do
  not), Props/C20IeeeOrder2.lean and Props/C20IeeeOrder3.lean (repeat `≤` tail on doubles: refuted in general, proved
  outside a band of span durations, open inside it for non-negative starts and moderate span counts). All in namespace
  Rosu.C20.
-/
import RosuModel.Props.C20Exact
import RosuModel.Props.C20Ieee
import RosuModel.Props.C20IeeeTicks
import RosuModel.Props.C20IeeeErr
import RosuModel.Props.C20IeeeErr2
import RosuModel.Props.C20IeeeForms
import RosuModel.Props.C20IeeeFormsOrder
import RosuModel.Props.C20IeeeOrder2
import RosuModel.Props.C20IeeeOrder3
