/-
  Props/C15Full.lean — the module audited for C15: Props/C15Velocity.lean (and what it imports) together with
  Props/C15Ieee.lean (the IEEE / real-analysis instantiations) and Props/C15IeeeShift.lean (shift invariance on IEEE doubles
  with integer times, via Lemmas/ShiftLawsOn.lean, Props/C15ShiftOn.lean, Props/C15ShiftLinesOn.lean) and
  Props/C15IeeeVelocity.lean (the velocity clause on IEEE doubles with a proved 6·2⁻⁵³ relative error bound, via
  Lemmas/FloatErrMul.lean, Lemmas/FloatErrRange.lean). All in namespace Rosu.C15.
-/
import RosuModel.Props.C15Velocity
import RosuModel.Props.C15Ieee
import RosuModel.Props.C15IeeeDecoded
import RosuModel.Props.C15IeeeShift
import RosuModel.Props.C15IeeeVelocity
import RosuModel.Props.C15ComboOnly
import RosuModel.Props.C15ComboOnlyAny
