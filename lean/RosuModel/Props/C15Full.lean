/-
  Props/C15Full.lean — the module audited for C15: Props/C15Velocity.lean (and what it imports) together with
  Props/C15Ieee.lean (the IEEE / real-analysis instantiations). All in namespace Rosu.C15.
-/
import RosuModel.Props.C15Velocity
import RosuModel.Props.C15Ieee
import RosuModel.Props.C15IeeeDecoded
import RosuModel.Props.C15IeeeShift
