/-
  Props/C02FinalScrollToy.lean — non-vacuity of Props/C02FinalScroll.lean (`decoded_scroll_timeline`, `decoded_scrollDrivesSv`)
  on the toy codec `ZC`: a concrete mania FILE (bytes = UTF-8 of `toyScrollText`) whose every hypothesis is evaluated in the
  kernel — the decode succeeds, the map is mania, the ghost log of accepted `[TimingPoints]` lines is `LogGood` — and whose
  two control-point lists have different shapes (one difficulty point, three effect points).
-/
import RosuModel.Props.C02FinalScroll
set_option linter.unusedSectionVars false
set_option maxRecDepth 100000
namespace Rosu.C02
open Rosu Encode EncodeLines C11 RtTiming Scalar FileRt SliderRt

/-! non-vacuity of `decoded_scroll_timeline` / `framed_scroll_timeline`: a mania file with a timing line at 0, a same-time
group at 10 (multiplier 2, then a kiai line with multiplier 1 — the last inherited line wins), a line at 20 (multiplier 4) and
a kiai line at 30 (multiplier 4 again). The two lists end up with different shapes — one difficulty point (20 ↦ 4: the
velocity 1 at 10 repeats the default, the 4 at 30 repeats 20's), three effect points (10, 20, 30: kiai changes). -/

def toyScrollText : Str :=
  str "osu file format v14\n\n[General]\nMode: 3\n\n[TimingPoints]\n0,500,4,1,0,100,1,0\n10,-50,4,1,0,100,0,0\n10,-100,4,1,0,100,0,1\n20,-25,4,1,0,100,0,0\n30,-25,4,1,0,100,0,1\n"

def toyScrollLines : List Str :=
  [str "osu file format v14", [], str "[General]", str "Mode: 3", [], str "[TimingPoints]", str "0,500,4,1,0,100,1,0",
   str "10,-50,4,1,0,100,0,0", str "10,-100,4,1,0,100,0,1", str "20,-25,4,1,0,100,0,0", str "30,-25,4,1,0,100,0,1"]

theorem toyScrollText_lines : (textLines toyScrollText).map trimEnd = toyScrollLines := by decide

/-- the log of the toy file: five accepted lines, all applied in mania, at times 0, 10, 10, 20, 30. -/
theorem toyScrollText_log :
    (tpLog ZC ZC ((textLines toyScrollText).map trimEnd)).map (fun p => (p.1, p.2.time, p.2.speedMultiplier)) =
      [(.mania, ⟨0⟩, ⟨1⟩), (.mania, ⟨10⟩, ⟨2⟩), (.mania, ⟨10⟩, ⟨1⟩), (.mania, ⟨20⟩, ⟨4⟩), (.mania, ⟨30⟩, ⟨4⟩)] := by
  rw [toyScrollText_lines, tpLog, C05.frame_eq_spec]
  decide

theorem toyScrollText_good : LogGood .mania (tpLog ZC ZC ((textLines toyScrollText).map trimEnd)) := by
  rw [toyScrollText_lines, tpLog, C05.frame_eq_spec]
  decide

/-- the toy file decodes to a mania map; every hypothesis of `decoded_scroll_timeline` holds of it. -/
theorem toyScroll_decoded :
    ∃ (st : BeatmapState ZC ZC) (m : Beatmap ZC ZC),
      decodeBytes beatmapDecoder (utf8Encode toyScrollText) = .ok st ∧ st.finish = .ok m ∧ m.general.mode = .mania ∧
      LogGood m.general.mode (tpLogBytes ZC ZC (utf8Encode toyScrollText)) ∧
      m.controlPoints.difficultyPoints = [⟨⟨20⟩, ⟨4⟩, true⟩] ∧
      m.controlPoints.effectPoints = [⟨⟨10⟩, true, ⟨1⟩⟩, ⟨⟨20⟩, false, ⟨4⟩⟩, ⟨⟨30⟩, true, ⟨4⟩⟩] := by
  have hhead : toyScrollText.head? ≠ some (Char.ofNat 0xFEFF) := by decide
  have hdec := RtFile.decodeBytes_utf8_text (beatmapDecoder (F := ZC) (P := ZC)) toyScrollText hhead
  rw [toyScrollText_lines, C05.frame_eq_spec] at hdec
  obtain ⟨m, hfin⟩ := finish_no_objects (C05.spec (beatmapDecoder (F := ZC) (P := ZC)) toyScrollLines) (by decide)
  have hg := finish_general _ m hfin
  have hc := finish_controlPoints _ m hfin
  have hmode : m.general.mode = .mania := by rw [hg]; decide
  refine ⟨_, m, hdec, hfin, hmode, ?_, by rw [hc]; decide, by rw [hc]; decide⟩
  rw [hmode]
  unfold tpLogBytes
  rw [fileLines_utf8_text _ hhead]
  exact toyScrollText_good

/-- **non-vacuity**: the conclusion of `decoded_scroll_timeline` for the toy file, from the theorem. -/
theorem toyScroll_timeline :
    ∃ (st : BeatmapState ZC ZC) (m : Beatmap ZC ZC),
      decodeBytes beatmapDecoder (utf8Encode toyScrollText) = .ok st ∧ st.finish = .ok m ∧
      ∀ u : ZC, ((m.controlPoints.difficultyPointAt u).map (·.sliderVelocity)).getD (1 : ZC) =
        clamp (((m.controlPoints.effectPointAt u).map (·.scrollSpeed)).getD (1 : ZC)) (0.1 : ZC) (10 : ZC) := by
  obtain ⟨st, m, h1, h2, hm, hg, _⟩ := toyScroll_decoded
  exact ⟨st, m, h1, h2, fun u =>
    decoded_scroll_timeline zc_epsLaws zc_groupLaws scrollClampLaws_zc _ st m h1 h2 (Or.inr hm) hg u⟩

/-! the constant-mode hypothesis is needed (finding F15: a `Mode` record after `[TimingPoints]` lines): the line at 10 is
applied in osu! mode — multiplier 2 goes into the difficulty point, the effect point keeps scroll speed 1 and is dropped as
redundant — and the map ends up in mania. -/

def modeChangeLines : List Str :=
  [str "osu file format v14", str "[TimingPoints]", str "10,-50,4,1,0,100,0,0", str "[General]", str "Mode: 3"]

theorem mode_change_counterexample :
    (frame (timingPointsDecoder (F := ZC) (P := ZC)) modeChangeLines).general.mode = .mania ∧
    (tpLog ZC ZC modeChangeLines).map (fun p => (p.1, p.2.time, p.2.speedMultiplier)) = [(.osu, ⟨10⟩, ⟨2⟩)] ∧
    ((((frame (timingPointsDecoder (F := ZC) (P := ZC)) modeChangeLines).finish.2.difficultyPointAt ⟨10⟩).map
      (·.sliderVelocity)).getD (1 : ZC)) = ⟨2⟩ ∧
    clamp ((((frame (timingPointsDecoder (F := ZC) (P := ZC)) modeChangeLines).finish.2.effectPointAt ⟨10⟩).map
      (·.scrollSpeed)).getD (1 : ZC)) (0.1 : ZC) (10 : ZC) = ⟨1⟩ := by
  rw [tpLog, C05.frame_eq_spec, C05.frame_eq_spec]
  decide

/-- so `LogGood` fails of that file (its only entry was applied in osu! mode), as it must. -/
theorem mode_change_not_good : ¬ LogGood .mania (tpLog ZC ZC modeChangeLines) := by
  rw [tpLog, C05.frame_eq_spec]
  decide

end Rosu.C02
