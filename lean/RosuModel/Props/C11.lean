/-
  Props/C11.lean — key/value, event and colour records decode per the format rules.
  (The [General] section lives in Model/General.lean; its theorems are in the second half.)
-/
import RosuModel.Model.Sections
namespace Rosu.C11
open Rosu Scalar

variable {F P : Type} [Scalar F] [Scalar P]

/-! ### the value is the trimmed text after the first colon -/

theorem splitOnce_first (k rest : Str) (h : ':' ∉ k) :
    splitOnce ':' (k ++ ':' :: rest) = some (k, rest) := by
  induction k with
  | nil => simp [splitOnce]
  | cons c cs ih =>
    have hc : c ≠ ':' := by intro e; exact h (by simp [e])
    have hcs : ':' ∉ cs := by intro e; exact h (by simp [e])
    simp [splitOnce, hc, ih hcs]

theorem splitOnce_none (s : Str) (h : ':' ∉ s) : splitOnce ':' s = none := by
  induction s with
  | nil => rfl
  | cons c cs ih =>
    have hc : c ≠ ':' := by intro e; exact h (by simp [e])
    have hcs : ':' ∉ cs := by intro e; exact h (by simp [e])
    simp [splitOnce, hc, ih hcs]

/-- **value_is_after_first_colon**: whatever follows the first colon — further colons included —
is the value. -/
theorem value_is_after_first_colon (k rest : Str) (h : ':' ∉ k) :
    kvSplit (k ++ ':' :: rest) = (trim k, trim rest) := by
  simp [kvSplit, splitOnce_first k rest h]

theorem no_colon_no_value (s : Str) (h : ':' ∉ s) : kvSplit s = (trim s, []) := by
  simp [kvSplit, splitOnce_none s h]

example : kvSplit (str "Title: Re:Zero") = (str "Title", str "Re:Zero") := by decide

/-! ### a rejected record leaves the state untouched; unknown keys are accepted no-ops -/

/-- split every `match`/`if` of an unfolded parser, then close "`ok = false → state unchanged`". -/
macro "reject_crunch" : tactic =>
  `(tactic| (simp only []; (repeat' split) <;> (intro hleaf; first | rfl | cases hleaf)))

theorem editor_reject_no_effect (st : Editor F) (line : Str) :
    (parseEditor st line).2 = false → (parseEditor st line).1 = st := by
  unfold parseEditor; reject_crunch

theorem metadata_reject_no_effect (st : Metadata) (line : Str) :
    (parseMetadata st line).2 = false → (parseMetadata st line).1 = st := by
  unfold parseMetadata; reject_crunch

theorem difficulty_reject_no_effect (st : DifficultyState F P) (line : Str) :
    (parseDifficulty st line).2 = false → (parseDifficulty st line).1 = st := by
  unfold parseDifficulty; reject_crunch

theorem events_reject_no_effect (st : Events F) (line : Str) :
    (parseEvents st line).2 = false → (parseEvents st line).1 = st := by
  unfold parseEvents; reject_crunch

theorem colors_reject_no_effect (st : Colors) (line : Str) :
    (parseColors st line).2 = false → (parseColors st line).1 = st := by
  unfold parseColors; reject_crunch

theorem editor_unknown_key_noop (st : Editor F) (line : Str)
    (h : EditorKey.parse (kvSplit (trimComment line)).1 = none) : parseEditor st line = (st, true) := by
  unfold parseEditor
  split
  rename_i k v hk
  rw [hk] at h
  simp only [h]

theorem metadata_unknown_key_noop (st : Metadata) (line : Str)
    (h : MetadataKey.parse (kvSplit line).1 = none) : parseMetadata st line = (st, true) := by
  unfold parseMetadata
  split
  rename_i k v hk
  rw [hk] at h
  simp only [h]

theorem difficulty_unknown_key_noop (st : DifficultyState F P) (line : Str)
    (h : DifficultyKey.parse (kvSplit (trimComment line)).1 = none) : parseDifficulty st line = (st, true) := by
  unfold parseDifficulty
  split
  rename_i k v hk
  rw [hk] at h
  simp only [h]

/-! ### the last valid occurrence wins (generic fold lemma + instances) -/

/-- running a section parser over a list of lines. -/
def runSection {σ : Type} (f : σ → Str → σ × Bool) (st : σ) (ls : List Str) : σ :=
  ls.foldl (fun s l => (f s l).1) st

/-- the value a field takes from the last line that is valid for it, else `init`. -/
def lastValid {V : Type} (v : Str → Option V) (init : V) (ls : List Str) : V :=
  ls.foldl (fun acc l => (v l).getD acc) init

/-- **last_valid_wins**, generic form: if every line either sets the observed field to the value
it carries (when that value is valid) or leaves the field alone, then after any sequence of lines
the field holds the value of the last valid occurrence, or its initial value. -/
theorem last_valid_wins_generic {σ V : Type} (f : σ → Str → σ × Bool) (g : σ → V) (v : Str → Option V)
    (hstep : ∀ s l, g (f s l).1 = (v l).getD (g s))
    (st : σ) (ls : List Str) :
    g (runSection f st ls) = lastValid v (g st) ls := by
  induction ls generalizing st with
  | nil => rfl
  | cons l rest ih =>
    simp only [runSection, lastValid, List.foldl_cons] at ih ⊢
    rw [ih]
    rw [hstep]

/-- what a metadata line says about the title. -/
def titleOf (l : Str) : Option Str :=
  if (kvSplit l).1 == str "Title" then some (kvSplit l).2 else none

theorem metadataKey_title (k : Str) : MetadataKey.parse k = some .title ↔ k = str "Title" := by
  unfold MetadataKey.parse
  constructor
  · intro h
    by_cases hk : k = str "Title"
    · exact hk
    · have : (k == str "Title") = false := by simpa using hk
      simp only [this, Bool.false_eq_true, if_false] at h
      repeat (split at h <;> try cases h)
  · intro h; subst h; decide

theorem title_step (s : Metadata) (l : Str) :
    (parseMetadata s l).1.title = (titleOf l).getD s.title := by
  unfold parseMetadata titleOf
  split
  rename_i k v hk
  simp only [hk]
  by_cases h : k = str "Title"
  · subst h; simp [MetadataKey.parse]
  · have h' : (k == str "Title") = false := by simpa using h
    have hne : MetadataKey.parse k ≠ some .title := fun e => h ((metadataKey_title k).mp e)
    simp only [h', Bool.false_eq_true, if_false, Option.getD_none]
    split <;> first
      | rfl
      | (rename_i hkey; exact absurd hkey hne)
      | (split <;> rfl)

/-- instance: after any sequence of `[Metadata]` lines the title is the value of the last `Title` record. -/
theorem title_last_wins (st : Metadata) (ls : List Str) :
    (runSection parseMetadata st ls).title = lastValid titleOf st.title ls :=
  last_valid_wins_generic parseMetadata (fun m => m.title) titleOf title_step st ls

/-! ### difficulty: clamps and the AR-follows-OD rule -/

/-- what `clamp` guarantees under the two order facts that also hold for IEEE `<`. -/
theorem clamp_within {α : Type} [Scalar α] (x lo hi : α)
    (hirr : ∀ a : α, lt a a = false) (hasym : ∀ a b : α, lt a b = true → lt b a = false)
    (hlohi : lt lo hi = true) :
    lt (clamp x lo hi) lo = false ∧ lt hi (clamp x lo hi) = false := by
  unfold clamp
  by_cases h1 : lt x lo = true
  · simp only [h1, if_true]
    have : lt hi lo = false := hasym lo hi hlohi
    simp [this, hirr]
  · have h1' : lt x lo = false := by simpa using h1
    simp only [h1', Bool.false_eq_true, if_false]
    by_cases h2 : lt hi x = true
    · simp [h2, hirr, hasym lo hi hlohi]
    · have h2' : lt hi x = false := by simpa using h2
      simp [h2', h1']

/-- an accepted `SliderMultiplier` record stores `clamp v 0.4 3.6` of the parsed value. -/
theorem slider_multiplier_clamped (st : DifficultyState F P) (line : Str) (v : Str)
    (hk : kvSplit (trimComment line) = (str "SliderMultiplier", v)) :
    parseDifficulty st line =
      match (floatParse v : Option F) with
      | some x => ({ st with difficulty := { st.difficulty with sliderMultiplier := clamp x 0.4 3.6 } }, true)
      | none => (st, false) := by
  unfold parseDifficulty
  simp only [hk, show DifficultyKey.parse (str "SliderMultiplier") = some .sliderMultiplier from by decide]
  cases (floatParse v : Option F) <;> rfl

theorem slider_tick_rate_clamped (st : DifficultyState F P) (line : Str) (v : Str)
    (hk : kvSplit (trimComment line) = (str "SliderTickRate", v)) :
    parseDifficulty st line =
      match (floatParse v : Option F) with
      | some x => ({ st with difficulty := { st.difficulty with sliderTickRate := clamp x 0.5 8 } }, true)
      | none => (st, false) := by
  unfold parseDifficulty
  simp only [hk, show DifficultyKey.parse (str "SliderTickRate") = some .sliderTickRate from by decide]
  cases (floatParse v : Option F) <;> rfl

/-- invariant: as long as no `ApproachRate` record was accepted, approach rate = overall difficulty. -/
def ArFollowsOd (s : DifficultyState F P) : Prop :=
  s.hasApproachRate = false → s.difficulty.approachRate = s.difficulty.overallDifficulty

theorem ar_follows_od_step (s : DifficultyState F P) (l : Str) (h : ArFollowsOd s) :
    ArFollowsOd (parseDifficulty s l).1 := by
  unfold parseDifficulty ArFollowsOd at *
  simp only []
  (repeat' split) <;> (intro hh; first | exact h hh | rfl | cases hh | (simp_all))

/-- **ar_follows_od_until_set**: for every sequence of `[Difficulty]` lines starting from the
default state, approach rate equals overall difficulty until an `ApproachRate` record is accepted. -/
theorem ar_follows_od_until_set (ls : List Str) :
    ArFollowsOd (runSection (parseDifficulty (F := F) (P := P)) DifficultyState.create ls) := by
  have : ∀ (st : DifficultyState F P), ArFollowsOd st → ArFollowsOd (runSection parseDifficulty st ls) := by
    induction ls with
    | nil => intro st h; exact h
    | cons l rest ih => intro st h; exact ih _ (ar_follows_od_step st l h)
  exact this _ (fun _ => rfl)

/-- once set, `hasApproachRate` stays set. -/
theorem has_ar_monotone (s : DifficultyState F P) (l : Str) (h : s.hasApproachRate = true) :
    (parseDifficulty s l).1.hasApproachRate = true := by
  unfold parseDifficulty
  simp only []
  (repeat' split) <;> first | exact h | rfl

/-! ### events -/

/-- parsed numbers are never NaN. -/
theorem floatParse_not_nan {α : Type} [Scalar α] (s : Str) (x : α) (h : floatParse s = some x) :
    isNaN x = false := by
  unfold floatParse floatParseWithLimits at h
  split at h
  · cases h
  · split at h
    · cases h
    · split at h
      · cases h
      · split at h
        · cases h
        · rename_i hn; cases h; simpa using hn

/-- **break_never_negative**: an accepted break record appends exactly one break whose end is
`max start end`; under the order facts of `<` it does not end before it starts. -/
theorem break_appended (st : Events F) (line : Str) (ty s e : Str) (rest : List Str) (sv ev : F)
    (hsplit : splitOn ',' (trimComment line) = ty :: s :: e :: rest)
    (hty : EventType.parse ty = some .break_)
    (hs : floatParse s = some sv) (he : floatParse e = some ev) :
    parseEvents st line =
      ({ st with breaks := st.breaks ++ [{ startTime := sv, endTime := Scalar.max sv ev }] }, true) := by
  unfold parseEvents
  simp [hsplit, hty, hs, he]

theorem max_not_before {α : Type} [Scalar α] (s e : α)
    (hirr : ∀ a : α, lt a a = false) (hasym : ∀ a b : α, lt a b = true → lt b a = false)
    (hs : isNaN s = false) :
    lt (Scalar.max s e) s = false := by
  unfold Scalar.max
  by_cases h : lt s e = true
  · simp [h, hasym s e h]
  · have h' : lt s e = false := by simpa using h
    simp [h', hs, hirr]

/-- breaks only ever grow by appending: earlier breaks are never modified or removed. -/
theorem breaks_prefix (st : Events F) (line : Str) :
    ∃ extra, (parseEvents st line).1.breaks = st.breaks ++ extra := by
  unfold parseEvents
  simp only []
  (repeat' split) <;> first | exact ⟨[], (List.append_nil _).symm⟩ | exact ⟨_, rfl⟩

/-- **background precedence**: a background record always overwrites. -/
theorem background_overwrites (st : Events F) (line : Str) (ty s e : Str) (rest : List Str)
    (hsplit : splitOn ',' (trimComment line) = ty :: s :: e :: rest)
    (hty : EventType.parse ty = some .background) :
    parseEvents st line = ({ st with backgroundFile := cleanFilename e }, true) := by
  unfold parseEvents; simp [hsplit, hty]

/-- a sprite only fills an empty background (with its fourth field) and never replaces one. -/
theorem sprite_only_fills_empty (st : Events F) (line : Str) (ty s e : Str) (rest : List Str)
    (hsplit : splitOn ',' (trimComment line) = ty :: s :: e :: rest)
    (hty : EventType.parse ty = some .sprite) (hbg : st.backgroundFile.isEmpty = false) :
    parseEvents st line = (st, true) := by
  unfold parseEvents; simp [hsplit, hty, hbg]

/-- a video record overwrites the background exactly when its (≥ 3 byte) name does not end in a
video extension. -/
theorem video_rule (st : Events F) (line : Str) (ty s e : Str) (rest : List Str)
    (hsplit : splitOn ',' (trimComment line) = ty :: s :: e :: rest)
    (hty : EventType.parse ty = some .video) :
    parseEvents st line =
      (if hasVideoExtension (cleanFilename e) = some false
        then { st with backgroundFile := cleanFilename e } else st, true) := by
  unfold parseEvents
  simp only [hsplit, hty]
  cases h : hasVideoExtension (cleanFilename e) with
  | none => simp
  | some b => cases b <;> simp

example : hasVideoExtension (str "clip.MP4") = some true ∧ hasVideoExtension (str "bg.png") = some false
    ∧ hasVideoExtension (str "ab") = none := by decide

/-! ### colours -/

/-- colours are R,G,B with an optional, ignored alpha: the stored alpha is always 255. -/
theorem color_alpha_ignored (s : Str) (c : Color) (h : Color.parse s = some c) : c.a = 255 := by
  unfold Color.parse at h
  split at h
  · split at h
    · cases h; rfl
    · cases h
  · split at h
    · cases h; rfl
    · cases h
  · cases h

example : Color.parse (str "1, 2 ,3,77") = some ⟨1, 2, 3, 255⟩ := by decide
example : Color.parse (str "1,2,3,4,5") = none ∧ Color.parse (str "256,0,0") = none := by decide

/-- names of the custom colours stay pairwise distinct: a custom colour is overridden by name. -/
theorem setCustomColor_names (name : Str) (c : Color) (xs : List CustomColor) :
    (setCustomColor name c xs).map (·.name) =
      if name ∈ xs.map (·.name) then xs.map (·.name) else xs.map (·.name) ++ [name] := by
  induction xs with
  | nil => simp [setCustomColor]
  | cons x rest ih =>
    unfold setCustomColor
    by_cases h : x.name = name
    · simp [h]
    · have h' : (x.name == name) = false := by simpa using h
      have h'' : ¬ name = x.name := fun e => h e.symm
      simp only [h', Bool.false_eq_true, if_false, List.map_cons, ih, List.mem_cons, h'', false_or]
      split <;> simp

theorem custom_names_nodup (st : Colors) (line : Str) (h : (st.customColors.map (·.name)).Nodup) :
    ((parseColors st line).1.customColors.map (·.name)).Nodup := by
  unfold parseColors
  split
  split
  · exact h
  · split
    · exact h
    · simp only [setCustomColor_names]
      split
      · exact h
      · rename_i hn
        exact List.nodup_append.mpr ⟨h, by simp, by
          intro a ha b hb; simp at hb; subst hb; intro e; subst e; exact hn ha⟩

/-- **custom_colour_overrides_by_name**: after any sequence of `[Colours]` lines there is at most
one custom colour per name. -/
theorem custom_colour_one_per_name (ls : List Str) :
    ((runSection parseColors Colors.default ls).customColors.map (·.name)).Nodup := by
  have : ∀ st : Colors, (st.customColors.map (·.name)).Nodup →
      ((runSection parseColors st ls).customColors.map (·.name)).Nodup := by
    induction ls with
    | nil => intro st h; exact h
    | cons l rest ih => intro st h; exact ih _ (custom_names_nodup st l h)
  exact this _ (by simp [Colors.default])

/-- a `Combo…` key appends to the combo colours and leaves the custom colours alone. -/
theorem combo_prefix_appends (st : Colors) (line : Str) (c : Color)
    (hc : Color.parse (kvSplit (trimComment line)).2 = some c)
    (hk : startsWith (kvSplit (trimComment line)).1 (str "Combo") = true) :
    parseColors st line = ({ st with customComboColors := st.customComboColors ++ [c] }, true) := by
  unfold parseColors
  split
  rename_i k v hkv
  rw [hkv] at hc hk
  simp [hc, hk]

end Rosu.C11
