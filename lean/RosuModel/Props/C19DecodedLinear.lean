/-
  Props/C19DecodedLinear.lean — C19 / C16 on IEEE floats, END TO END for LINEAR sliders (no requested length).

  The hypotheses of `positionAt_progress_err_float32_nofin` (Props/C19IeeeFinite.lean) are DERIVED for the curve the crate
  computes (`Curve::new` = `calculate_path` + `calculate_length`) from control points that form linear segments only:

  1. **`linear_path_vertices`** (every arithmetic, mode, fuel, buffers): for `AllLinear` control points every vertex of the
     path `calculate_path` returns is the position of a control point (membership — the joint de-duplication may drop
     repeated points), the path is non-empty when there is a control point, and `optimized_len = 0.0`. Hence `Bounded19` /
     `FinitePos` transfer from control points to path vertices.
  2. **`natural_lengths_sorted_float`**: for a path with finite coordinates the natural lengths `0.0 :: cumLens 0.0 path` are
     `Sorted` (Props/C19IeeeSearch.lean), start with `0.0`, are `≥ 0`, and are as many as path points.
  3. `linear_curve_shape` + **`linear_curve_position_err_float32_partial`**: control points `AllLinear`, finite, bounded by
     `2¹⁹`, no requested length, any progress that is a number: `position_at` returns a point within `1/4` px per coordinate
     of a segment between two consecutive path vertices, both control-point positions. PARTIAL in one hypothesis only:
     `hbf` — the last (total) natural length is finite, i.e. the `f64` running sum did not overflow. The statement without
     it (for at most `2⁴⁰` path points) is recorded as `linear_curve_position_err_float32_statement`; what is missing is a
     RANGE lemma for `f64::sqrt` (finite non-negative argument ⟹ finite root: Lemmas/FloatErrSqrt.lean has the error
     bound only under the hypothesis that the root is finite), after which each booked length is `≤ 2²⁴` and the running
     sum of `n ≤ 2⁴⁰` of them stays below `2⁷⁰`. `hbf_iff_all_finite`: `hbf` is equivalent to all lengths being finite.
  Kernel-evaluated non-vacuity: control points `(100,200) L, (107,224), (100,200)` → the demo curve of
  Props/C19IeeeSearch.lean (`linCps_curve`), every hypothesis (including `hbf`) checked on it.
-/
import RosuModel.Props.C19IeeeFinite
import RosuModel.Props.C16IeeeAdj
import RosuModel.Lemmas.OptLenZero
namespace Rosu.C19
open Rosu Rosu.Curve

/-! ## 1. the path of all-linear control points consists of control-point positions (every arithmetic) -/

section Generic
variable {P F : Type} [Scalar P] [Scalar F] [Cvt P F] [Trig F] [Trig P]

/-- every control point that carries a path type carries a LINEAR one (`L` in a `.osu` file); control points without a
path type continue the running segment. -/
def AllLinear (points : List (PathControlPoint P)) : Prop :=
  ∀ cp ∈ points, ∀ t, cp.pathType = some t → t.kind = SplineType.linear

theorem AllLinear.noCatmull {points : List (PathControlPoint P)} (h : AllLinear points) : NoCatmull points := by
  intro cp hcp t ht hk
  rw [h cp hcp t ht] at hk
  cases hk

theorem mem_rotateLeft1 {α : Type} (l : List α) (a : α) (h : a ∈ rotateLeft1 l) : a ∈ l := by
  cases l with
  | nil => exact h
  | cons x t =>
    simp only [rotateLeft1, List.mem_append, List.mem_singleton] at h
    rcases h with h | h
    · exact List.mem_cons_of_mem _ h
    · subst h; exact List.mem_cons_self

theorem rotateLeft1_length {α : Type} (l : List α) : (rotateLeft1 l).length = l.length := by
  cases l with
  | nil => rfl
  | cons x t => simp [rotateLeft1]

theorem dedupJoint_cases (path : List (Pos P)) (n : Nat) (r : List (Pos P)) (h : dedupJoint path n = .ok r) :
    r = (path.take n ++ rotateLeft1 (path.drop n)).dropLast ∨ r = path := by
  unfold dedupJoint at h
  simp only [] at h
  split at h
  · obtain ⟨prev, _, h⟩ := Outcome.bind_eq_ok h
    simp only [Outcome.pure_eq_ok, Outcome.ok_bind] at h
    split at h
    · cases h; exact Or.inl rfl
    · cases h; exact Or.inr rfl
  · simp only [Outcome.pure_eq_ok, Outcome.ok_bind, Bool.false_eq_true, if_false] at h
    cases h; exact Or.inr rfl

/-- `dedupJoint` only removes: every point of the result is a point of the argument, and at most one point goes. -/
theorem dedupJoint_mem (path : List (Pos P)) (n : Nat) :
    Ret (fun r => (∀ v ∈ r, v ∈ path) ∧ path.length ≤ r.length + 1) (dedupJoint path n) := by
  intro r h
  rcases dedupJoint_cases path n r h with rfl | rfl
  · refine ⟨?_, ?_⟩
    · intro v hv
      have hv' := C16.mem_of_dropLast hv
      rcases List.mem_append.mp hv' with h | h
      · exact List.mem_of_mem_take h
      · exact List.mem_of_mem_drop (mem_rotateLeft1 _ _ h)
    · simp only [List.length_dropLast, List.length_append, rotateLeft1_length, List.length_take, List.length_drop]
      omega
  · exact ⟨fun v hv => hv, by omega⟩

theorem sliceIncl_mem {α : Type} (l : List α) (a i : Nat) :
    Ret (fun r => ∀ v ∈ r, v ∈ l) (sliceIncl l a i) := by
  unfold sliceIncl
  split
  · exact Ret.pure (fun v hv => List.mem_of_mem_drop (List.mem_of_mem_take hv))
  · exact Ret.throw _

/-- one round of the segment loop keeps "every path point is a vertex"; a round that is not skipped leaves a non-empty
path. -/
theorem segBody_mem (fuel : Nat) (mode : GameMode) (points : List (PathControlPoint P)) (vertices : List (Pos P))
    (st : SegState P F) (i : Nat) (hl : AllLinear points) (hst : ∀ v ∈ st.path, v ∈ vertices) :
    Ret (fun st' => (∀ v ∈ st'.path, v ∈ vertices) ∧ (points.length ≤ i + 1 → st'.path ≠ []))
      (segBody fuel mode points vertices st i) := by
  unfold segBody
  intro st' hst'
  cases hpt : getI points i with
  | error e => rw [hpt] at hst'; cases hst'
  | ok pt =>
    rw [hpt] at hst'
    simp only [Outcome.ok_bind] at hst'
    have hi : i < points.length := by
      have := (getI_ok_iff _ _ _).mp hpt
      exact (List.getElem?_eq_some_iff.mp this).1
    split at hst'
    · rename_i hc
      simp only [Bool.and_eq_true, decide_eq_true_eq] at hc
      cases hst'
      exact ⟨hst, fun h => by omega⟩
    · revert hst'
      refine (Ret.bind (S := fun st' : SegState P F =>
        (∀ v ∈ st'.path, v ∈ vertices) ∧ (points.length ≤ i + 1 → st'.path ≠ []))
        (sliceIncl_mem vertices st.start i) ?_) st'
      intro seg hseg
      split
      · exact Ret.throw _
      · refine Ret.pure ⟨?_, fun _ => by simp⟩
        intro v hv
        rcases List.mem_append.mp hv with h | h
        · exact hst v h
        · exact hseg v h
      · rename_i hne1 hne2
        intro st'' hst''
        cases hsp : getI points st.start with
        | error e => rw [hsp] at hst''; cases hst''
        | ok sp =>
          rw [hsp] at hst''
          simp only [Outcome.ok_bind] at hst''
          have hkind : (match sp.pathType with | none => SplineType.linear | some t => t.kind) = SplineType.linear := by
            have hmem : sp ∈ points := List.mem_of_getElem? ((getI_ok_iff _ _ _).mp hsp)
            cases hp : sp.pathType with
            | none => rfl
            | some t => exact hl sp hmem t hp
          refine (?_ : ∀ k : SplineType, k = SplineType.linear →
            (do
              let __x ← calculateSubpath fuel mode seg k st.optLen st.bezier
              let path ← dedupJoint (st.path ++ __x.1) st.path.length
              pure { path := path, optLen := __x.2.1, bezier := __x.2.2, start := i } : Outcome (SegState P F)) =
              Except.ok st'' → _) _ hkind hst''
          intro k hk hst''
          subst hk
          simp only [calculateSubpath, Outcome.pure_eq_ok, Outcome.ok_bind] at hst''
          revert hst''
          refine (Ret.bind (S := fun st' : SegState P F =>
            (∀ v ∈ st'.path, v ∈ vertices) ∧ (points.length ≤ i + 1 → st'.path ≠ []))
            (dedupJoint_mem (st.path ++ seg) st.path.length) ?_) st''
          intro path hpath
          refine Ret.pure ⟨?_, fun _ => ?_⟩
          · intro v hv
            rcases List.mem_append.mp (hpath.1 v hv) with h | h
            · exact hst v h
            · exact hseg v h
          · have h2 : 2 ≤ seg.length := by
              match seg, hne1, hne2 with
              | [], h, _ => exact absurd rfl h
              | [v], _, h => exact absurd rfl (h v)
              | _ :: _ :: _, _, _ => simp
            have := hpath.2
            simp only [List.length_append] at this
            intro h0
            show False
            rw [show path = [] from h0] at this
            simp at this
            omega

theorem segFold_mem (fuel : Nat) (mode : GameMode) (points : List (PathControlPoint P)) (vertices : List (Pos P))
    (hl : AllLinear points) (is : List Nat) (st : SegState P F) (hst : ∀ v ∈ st.path, v ∈ vertices) :
    Ret (fun st' => ∀ v ∈ st'.path, v ∈ vertices) (is.foldlM (segBody fuel mode points vertices) st) := by
  induction is generalizing st with
  | nil => exact Ret.pure hst
  | cons i rest ih =>
    rw [List.foldlM_cons]
    refine Ret.bind (segBody_mem fuel mode points vertices st i hl hst) ?_
    intro st1 h1
    exact ih st1 h1.1

/-- **`linear_path_vertices`: the path `calculate_path` computes for all-linear control points consists of control-point
positions** (membership; the joint de-duplication may drop repeated points) — every arithmetic, every mode, every fuel and
buffers on which it returns. In addition the path is non-empty when there is a control point, and the surplus
`optimized_len` handed to `calculate_length` is `0.0`. -/
theorem linear_path_vertices (fuel : Nat) (mode : GameMode) (points : List (PathControlPoint P))
    (bufs b : CurveBuffers P F) (opt : F) (hl : AllLinear points)
    (h : calculatePath fuel mode points bufs = .ok (b, opt)) :
    (∀ v ∈ b.path, ∃ cp ∈ points, cp.pos = v) ∧ (points ≠ [] → b.path ≠ []) ∧ opt = (0 : F) := by
  refine ⟨?_, ?_, calculatePath_optLen_zero fuel mode points bufs b opt (Or.inr hl.noCatmull) h⟩
  all_goals
    unfold calculatePath at h
    split at h
  · cases h; intro v hv; cases hv
  · simp only [] at h
    obtain ⟨st, hfold, h⟩ := Outcome.bind_eq_ok h
    cases h
    intro v hv
    have := segFold_mem fuel mode points (points.map (·.pos)) hl _ _ (by intro v hv; cases hv) st hfold v hv
    obtain ⟨cp, hcp, rfl⟩ := List.mem_map.mp this
    exact ⟨cp, hcp, rfl⟩
  · rename_i he
    intro hne
    cases points with
    | nil => exact absurd rfl hne
    | cons _ _ => simp at he
  · simp only [] at h
    obtain ⟨st, hfold, h⟩ := Outcome.bind_eq_ok h
    cases h
    intro _
    show st.path ≠ []
    obtain ⟨n, hn⟩ : ∃ n, points.length = n + 1 := by
      cases points with
      | nil => rename_i he; simp at he
      | cons _ t => exact ⟨t.length, rfl⟩
    rw [hn, List.range_succ, List.foldlM_append] at hfold
    obtain ⟨st1, h1, h2⟩ := Outcome.bind_eq_ok hfold
    simp only [List.foldlM_cons, List.foldlM_nil] at h2
    obtain ⟨st2, h2, h3⟩ := Outcome.bind_eq_ok h2
    cases h3
    have hst1 := segFold_mem fuel mode points (points.map (·.pos)) hl _ _ (by intro v hv; cases hv) st1 h1
    exact (segBody_mem fuel mode points _ st1 n hl hst1 _ h2).2 (by omega)

end Generic
/-! ## 2. the natural cumulative lengths of a finite path are `Sorted` -/

section FloatSec
open Rosu.C16 Rosu.FErr
open Float.Model Float.Model.UnpackedFloat

/-- **`natural_lengths_sorted_float`**: for a path with finite `f32` coordinates the natural cumulative lengths
`0.0 :: cumLens 0.0 path` (what `calculate_length` returns without a requested length, surplus `0.0`) are `Sorted` in the
sense of Props/C19IeeeSearch.lean (IEEE `<=` between any two positions `i ≤ j`, hence NaN-free), start with `0.0`, are all
`≥ 0`, and there are as many as path points. -/
theorem natural_lengths_sorted_float (path : List (Pos Float32)) (hfin : ∀ p ∈ path, FinitePos p) :
    Sorted (natLens (0 : Float) path) ∧ (natLens (0 : Float) path)[0]? = some (0 : Float) ∧
    (∀ v ∈ natLens (0 : Float) path, Scalar.le (0 : Float) v = true) ∧
    (path ≠ [] → (natLens (0 : Float) path).length = path.length) := by
  have hg := natLens_good_float 0 path zero_le_zero_float hfin
  refine ⟨sorted_of_adjacent _ ?_ ?_, rfl, hg.2, natLens_length 0 path⟩
  · intro i x hx; exact hg.not_nan x (List.mem_of_getElem? hx)
  · exact (mono_get _).mp hg.1

/-! ## 3. `position_at` on the curve of all-linear control points -/

section New
variable [Trig Float32]

/-- the curve `Curve::new` builds without a requested length from all-linear control points: its path consists of
control-point positions, is non-empty, and its lengths are the natural ones seeded with `0.0`. -/
theorem linear_curve_shape (fuel : Nat) (mode : GameMode) (pts : List (PathControlPoint Float32))
    (b b' : CurveBuffers Float32 Float) (c : Curve Float32 Float)
    (hl : AllLinear pts) (hne : pts ≠ [])
    (h : Curve.new fuel mode pts none b = .ok (c, b')) :
    (∀ v ∈ c.path, ∃ cp ∈ pts, cp.pos = v) ∧ c.path ≠ [] ∧ c.lengths = natLens (0 : Float) c.path := by
  obtain ⟨b1, opt, hp, hlen⟩ := C16.new_is_calculateLength fuel mode pts none b b' c h
  obtain ⟨hmem, hnon, rfl⟩ := linear_path_vertices fuel mode pts b b1 opt hl hp
  simp only [calculateLength, Outcome.pure_eq_ok, Except.ok.injEq, Prod.mk.injEq] at hlen
  obtain ⟨h1, h2⟩ := hlen
  rw [← h1, ← h2]
  exact ⟨hmem, hnon hne, rfl⟩

/-- **`linear_curve_position_err_float32_partial`** (partial only in the hypothesis `hbf`: the last — total — natural length
is finite, i.e. the `f64` running sum did not overflow; see `linear_curve_position_err_float32_statement`). Control points
all linear, finite and bounded by `2¹⁹`; the curve `Curve::new` computes without a requested length; any progress that is a
number: `position_at(progress)` returns a position within `1/4` px, per coordinate, of a point `p0 + w (p1 − p0)`,
`w ∈ [0, 1]`, of a segment between two CONSECUTIVE path vertices `p0`, `p1` (or `p1 = p0`), both of which are control-point
positions. -/
theorem linear_curve_position_err_float32_partial (fuel : Nat) (mode : GameMode) (pts : List (PathControlPoint Float32))
    (b b' : CurveBuffers Float32 Float) (c : Curve Float32 Float) (q : Float)
    (hl : AllLinear pts) (hne : pts ≠ [])
    (hbd : ∀ cp ∈ pts, Bounded19 cp.pos) (hfp : ∀ cp ∈ pts, FinitePos cp.pos)
    (h : Curve.new fuel mode pts none b = .ok (c, b'))
    (hbf : ∀ x, c.lengths.getLast? = some x → FX.Finite64 x)
    (hq : Scalar.isNaN q = false) :
    ∃ (p : Pos Float32) (k : Nat) (p0 p1 : Pos Float32) (w : ℚ),
      positionAt c.path c.lengths q = .ok p ∧
      c.path[k]? = some p0 ∧ (c.path[k + 1]? = some p1 ∨ p1 = p0) ∧
      (∃ cp ∈ pts, cp.pos = p0) ∧ (∃ cp ∈ pts, cp.pos = p1) ∧ 0 ≤ w ∧ w ≤ 1 ∧
      |toRat32 p.x - (toRat32 p0.x + w * (toRat32 p1.x - toRat32 p0.x))| < 1 / 4 ∧
      |toRat32 p.y - (toRat32 p0.y + w * (toRat32 p1.y - toRat32 p0.y))| < 1 / 4 := by
  obtain ⟨hmem, hnon, hlens⟩ := linear_curve_shape fuel mode pts b b' c hl hne h
  have hbd' : ∀ p ∈ c.path, Bounded19 p := by
    intro p hp; obtain ⟨cp, hcp, rfl⟩ := hmem p hp; exact hbd cp hcp
  have hfp' : ∀ p ∈ c.path, FinitePos p := by
    intro p hp; obtain ⟨cp, hcp, rfl⟩ := hmem p hp; exact hfp cp hcp
  obtain ⟨hs, h0, _, hlen⟩ := natural_lengths_sorted_float c.path hfp'
  rw [← hlens] at hs h0 hlen
  cases hb : c.lengths.getLast? with
  | none =>
    rw [List.getLast?_eq_none_iff] at hb
    rw [hb] at h0; cases h0
  | some bl =>
    obtain ⟨_, _, p, k, p0, p1, w, hpos, hk0, hk1, hw0, hw1, hx, hy⟩ :=
      positionAt_progress_err_float32_nofin c.path c.lengths q 0 bl hq (hlen hnon).symm hs hbd' hfp' h0 hb
        zero_le_zero_float zero_le_zero_float (hbf bl hb)
    refine ⟨p, k, p0, p1, w, hpos, hk0, hk1, hmem p0 (List.mem_of_getElem? hk0), ?_, hw0, hw1, hx, hy⟩
    rcases hk1 with hk1 | hk1
    · exact hmem p1 (List.mem_of_getElem? hk1)
    · rw [hk1]; exact hmem p0 (List.mem_of_getElem? hk0)

/-- the full statement: `linear_curve_position_err_float32_partial` WITHOUT the hypothesis that the total length is finite,
for curves of at most `2⁴⁰` path points (for points bounded by `2¹⁹` each booked length is `≤ 2²⁴`, so the `f64` running sum
cannot overflow). Not proved: see the file header (a range lemma for `f64::sqrt` is missing). -/
def linear_curve_position_err_float32_statement : Prop :=
  ∀ (fuel : Nat) (mode : GameMode) (pts : List (PathControlPoint Float32))
    (b b' : CurveBuffers Float32 Float) (c : Curve Float32 Float) (q : Float),
    AllLinear pts → pts ≠ [] → (∀ cp ∈ pts, Bounded19 cp.pos) → (∀ cp ∈ pts, FinitePos cp.pos) →
    Curve.new fuel mode pts none b = .ok (c, b') → c.path.length ≤ 2 ^ 40 → Scalar.isNaN q = false →
    ∃ (p : Pos Float32) (k : Nat) (p0 p1 : Pos Float32) (w : ℚ),
      positionAt c.path c.lengths q = .ok p ∧
      c.path[k]? = some p0 ∧ (c.path[k + 1]? = some p1 ∨ p1 = p0) ∧
      (∃ cp ∈ pts, cp.pos = p0) ∧ (∃ cp ∈ pts, cp.pos = p1) ∧ 0 ≤ w ∧ w ≤ 1 ∧
      |toRat32 p.x - (toRat32 p0.x + w * (toRat32 p1.x - toRat32 p0.x))| < 1 / 4 ∧
      |toRat32 p.y - (toRat32 p0.y + w * (toRat32 p1.y - toRat32 p0.y))| < 1 / 4

/-- the hypothesis `hbf` says that ALL lengths of the curve are finite (they are `≥ 0` and never decrease). -/
theorem hbf_iff_all_finite (fuel : Nat) (mode : GameMode) (pts : List (PathControlPoint Float32))
    (b b' : CurveBuffers Float32 Float) (c : Curve Float32 Float)
    (hl : AllLinear pts) (hne : pts ≠ []) (hfp : ∀ cp ∈ pts, FinitePos cp.pos)
    (h : Curve.new fuel mode pts none b = .ok (c, b')) :
    (∀ x, c.lengths.getLast? = some x → FX.Finite64 x) ↔ ∀ v ∈ c.lengths, FX.Finite64 v := by
  obtain ⟨hmem, hnon, hlens⟩ := linear_curve_shape fuel mode pts b b' c hl hne h
  have hfp' : ∀ p ∈ c.path, FinitePos p := by
    intro p hp; obtain ⟨cp, hcp, rfl⟩ := hmem p hp; exact hfp cp hcp
  have hg := natLens_good_float 0 c.path zero_le_zero_float hfp'
  rw [← hlens] at hg
  constructor
  · intro hb v hv
    cases hlast : c.lengths.getLast? with
    | none => rw [List.getLast?_eq_none_iff] at hlast; rw [hlast] at hv; cases hv
    | some bl =>
      have hd : dist c.lengths = bl := by unfold dist; rw [hlast]
      have := hg.le_dist v hv
      rw [hd] at this
      exact finite_of_le_finite v bl (hg.2 v hv) this (hb bl hlast)
  · intro hall x hx
    exact hall x (List.mem_of_getLast? hx)

end New
/-! ## non-vacuity: control points `(100,200) L, (107,224), (100,200)` → the demo curve, kernel-evaluated -/

section Examples

def linCps : List (PathControlPoint Float32) :=
  [⟨demoPP, some PathType.linear⟩, ⟨demoPE, none⟩, ⟨demoPP, none⟩]

theorem linCps_allLinear : AllLinear linCps := by
  intro cp hcp t ht
  simp only [linCps, List.mem_cons, List.not_mem_nil, or_false] at hcp
  rcases hcp with rfl | rfl | rfl
  · cases ht; rfl
  · cases ht
  · cases ht

theorem linCps_bounded : ∀ cp ∈ linCps, Bounded19 cp.pos := by
  intro cp hcp
  simp only [linCps, List.mem_cons, List.not_mem_nil, or_false] at hcp
  rcases hcp with rfl | rfl | rfl
  · exact demo_bounded _ (by simp [demoPath])
  · exact demo_bounded _ (by simp [demoPath])
  · exact demo_bounded _ (by simp [demoPath])

theorem linCps_finite : ∀ cp ∈ linCps, FinitePos cp.pos := by
  intro cp hcp
  simp only [linCps, List.mem_cons, List.not_mem_nil, or_false] at hcp
  rcases hcp with rfl | rfl | rfl
  · exact demo_finitePos _ (by simp [demoPath])
  · exact demo_finitePos _ (by simp [demoPath])
  · exact demo_finitePos _ (by simp [demoPath])

attribute [local instance] C16.trigStub32

/-- equality of `f32` positions is decidable coordinate-wise (for the kernel evaluation below only). -/
@[instance_reducible] def posDecEq32 : DecidableEq (Pos Float32) := fun a b =>
  decidable_of_iff (a.x = b.x ∧ a.y = b.y) (by
    cases a; cases b
    simp only [Pos.mk.injEq])
attribute [local instance] posDecEq32

/-- `Curve::new` on the demo control points (osu! mode, fuel 10, fresh buffers, no requested length) returns the demo curve
of Props/C19IeeeSearch.lean: path `(100,200), (107,224), (100,200)`, lengths `[0, 25, 50]`. -/
theorem linCps_curve : ∃ c b', Curve.new 10 GameMode.osu linCps none ({} : CurveBuffers Float32 Float) = .ok (c, b') ∧
    c.path = demoPath ∧ c.lengths = demoLens := by
  have key : ((Curve.new 10 GameMode.osu linCps none ({} : CurveBuffers Float32 Float)).toOption.map
      fun r => decide (r.1.path = demoPath ∧ r.1.lengths = demoLens)) = some true := by decide +kernel
  cases h : Curve.new 10 GameMode.osu linCps none ({} : CurveBuffers Float32 Float) with
  | error e => rw [h] at key; simp [Except.toOption] at key
  | ok r =>
    rw [h] at key
    obtain ⟨c, b'⟩ := r
    simp [Except.toOption] at key
    exact ⟨c, b', rfl, key.1, key.2⟩

/-- every hypothesis of `linear_curve_position_err_float32_partial` holds on the demo control points, progress `0.2`. -/
example : ∃ c b', Curve.new 10 GameMode.osu linCps none ({} : CurveBuffers Float32 Float) = .ok (c, b') ∧
    c.path = demoPath ∧ c.lengths = demoLens ∧
    ∃ (p : Pos Float32) (k : Nat) (p0 p1 : Pos Float32) (w : ℚ),
      positionAt c.path c.lengths 0.2 = .ok p ∧
      c.path[k]? = some p0 ∧ (c.path[k + 1]? = some p1 ∨ p1 = p0) ∧
      (∃ cp ∈ linCps, cp.pos = p0) ∧ (∃ cp ∈ linCps, cp.pos = p1) ∧ 0 ≤ w ∧ w ≤ 1 ∧
      |toRat32 p.x - (toRat32 p0.x + w * (toRat32 p1.x - toRat32 p0.x))| < 1 / 4 ∧
      |toRat32 p.y - (toRat32 p0.y + w * (toRat32 p1.y - toRat32 p0.y))| < 1 / 4 := by
  obtain ⟨c, b', h, hp, hls⟩ := linCps_curve
  refine ⟨c, b', h, hp, hls, ?_⟩
  refine linear_curve_position_err_float32_partial 10 GameMode.osu linCps {} b' c 0.2 linCps_allLinear (by simp [linCps])
    linCps_bounded linCps_finite h ?_ (by decide +kernel)
  intro x hx
  rw [hls] at hx
  cases hx
  decide +kernel

end Examples

end FloatSec

end Rosu.C19
