/-
  Props/C16IeeeBezierDiverge.lean — finding **F23** (C16 / C01): the Bezier flattening loop of `approximate_bspline`
  (src/section/hit_objects/slider/curve.rs, `while let Some(parent) = to_flatten.pop()`) **does not terminate** in IEEE
  single precision on a *finite* input. Kernel-checked on the model's `Float32` instance, for every fuel.

  The loop subdivides a Bezier piece until `bezier_is_flat_enough` (every second difference
  `p[i-1] − 2·p[i] + p[i+1]` has squared length `≤ 0.25`); there is no depth bound. Once the control points have
  magnitude `≥ 2²³` the spacing of `f32` (ulp `≥ 1`) is coarser than the tolerance, and de Casteljau subdivision
  cannot make a piece any flatter. The witness is the piece

      P = [(8388609, 0), (8388610, 0), (8388610, 0)]        (f32 bit patterns 0x4b000001, 0x4b000002, 0x4b000002)

  * `8388609 = 2²³ + 1` has an odd mantissa; the second difference of `P` is `−1`, squared length `1 > 0.25`:
    `P` is **not flat** (`stuck_not_flat`, `stuck_second_difference`);
  * the `f32` midpoint of `8388609` and `8388610` is `16777219 → 16777220` (tie, round to even) `/ 2 = 8388610`
    (`stuck_mid`), so the left half of `P` under `bezier_subdivide` is **`P` itself** and the right half is
    `R = [(8388610,0)]³` (`stuck_left_half`);
  * hence each turn of the loop pops `P` and pushes `R` and `P` again: the state after `k` turns is
    `to_flatten = [R, …, R (k times), P]` — the stack grows by one vector per turn, nothing is ever emitted
    (`bsplineLoop_step`, `bsplineLoop_turns`, `bsplineLoop_stuck`). The model's loop returns `CErr.fuel` for **every** fuel
    (`bsplineLoop_diverges_float32`); the real crate hangs and allocates without bound (observed; replay with the
    harness request `curve 0 - 4b000001:0:B 4b000002:0:- 4b000002:0:-`).

  Lifted to the public entry points: `approximate_bezier` (`approximateBezier_diverges_float32`; with arbitrary stale
  scratch buffers `approximateBezier_diverges_float32_stale`, through `bezierPure`), `calculate_subpath`,
  `calculate_path`, `Curve::new` (**`curve_new_diverges_float32`**), `BorrowedCurve::new`, `SliderPath::curve` — in
  every game mode, for every requested length, for every buffer set whose Bezier scratch vectors have equal lengths
  (the invariant of `BezierBuffers`), and for the first point typed Bezier (any degree) **or PerfectCurve** (the three
  points are collinear, `circular_arc_properties` declines and the code falls back to `approximate_bezier`). The libm
  functions are not involved: the statements hold for every `Trig` instance.

  The argument is generic in the piece (`StuckPiece`: not flat, and its own left half — three closed facts); a second
  witness shows that in two dimensions the threshold is one binade lower: `[(a,a),(b,b),(b,b)]`, `a = 4194304.5 =
  2²² + 0.5`, `b = 4194305` (`stuck2_isStuck`, `curve_new_diverges_float32_2d`).

  Reach. All coordinates are finite (`stuckCps_finite`) but `|x| ≥ 2²³`; positions decoded from an `.osu` file are
  integers within `±131072 = 2¹⁷`, control-point offsets within `2¹⁸`, so a *decoded* beatmap cannot carry this piece
  as written — it is an input of the public API (`SliderPath::new` / `Curve::new` / `HitObjectSlider` built by hand).
  So C16 / C01 "`Curve::new` is total on finite control points" is **false** of the IEEE instance without a magnitude
  bound; the exact-arithmetic termination argument (the second difference of a quadratic piece shrinks by a factor 4 per
  level) has no `f32` counterpart above `2²³` (`2²²` in two dimensions).
-/
import RosuModel.Model.Curve
import RosuModel.Model.FloatInst
import RosuModel.Lemmas.BezierPure
import RosuModel.Props.C16IeeeLen
namespace Rosu.C16
open Rosu Rosu.Curve

section BezierDiverge

/-- decidable equality of `f32` points / of outcomes, for `decide +kernel` on closed model terms (file-local). -/
local instance instDecEqPosF32 : DecidableEq (Pos Float32)
  | ⟨a, b⟩, ⟨c, d⟩ =>
    if h : a = c ∧ b = d then isTrue (by cases h.1; cases h.2; rfl)
    else isFalse (by intro e; cases e; exact h ⟨rfl, rfl⟩)

local instance instDecEqOutcome {α : Type} [DecidableEq α] : DecidableEq (Except CErr α)
  | .ok a, .ok b => if h : a = b then isTrue (h ▸ rfl) else isFalse (by intro e; cases e; exact h rfl)
  | .error a, .error b => if h : a = b then isTrue (h ▸ rfl) else isFalse (by intro e; cases e; exact h rfl)
  | .ok _, .error _ => isFalse (by intro e; cases e)
  | .error _, .ok _ => isFalse (by intro e; cases e)

/-! ### the piece -/

/-- `8388609.0_f32 = 2²³ + 1` (odd mantissa). -/
def stuckA : Float32 := Float32.ofBits 0x4b000001
/-- `8388610.0_f32 = 2²³ + 2`. -/
def stuckB : Float32 := Float32.ofBits 0x4b000002

/-- the piece `P = [(8388609,0), (8388610,0), (8388610,0)]`. -/
def stuckPiece : List (Pos Float32) := [⟨stuckA, 0⟩, ⟨stuckB, 0⟩, ⟨stuckB, 0⟩]

/-- its right half `R = [(8388610,0), (8388610,0), (8388610,0)]`. -/
def stuckRight : List (Pos Float32) := [⟨stuckB, 0⟩, ⟨stuckB, 0⟩, ⟨stuckB, 0⟩]

/-- `vec![Pos::default(); 3]`: a fresh right-child vector, and each scratch vector after `extend_exact(3)` on
`BezierBuffers::default()`. -/
def zeros3 : List (Pos Float32) := List.replicate 3 Pos.zero

/-- `BezierBuffers::default()` after `extend_exact(3)`: what `approximate_bezier` passes to `approximate_bspline`. -/
def stuckBufs0 : BezierBuffers Float32 := ⟨zeros3, zeros3, zeros3, zeros3⟩

theorem stuckBufs0_eq : ({} : BezierBuffers Float32).extendExact 3 = stuckBufs0 := rfl

/-- the bit patterns denote the integers `8388609` and `8388610` (as literals, as `i32 as f32`, and back by `as i32`). -/
theorem stuck_values :
    stuckA = (8388609 : Float32) ∧ stuckB = (8388610 : Float32) ∧
    stuckA = Scalar.ofInt 8388609 ∧ stuckB = Scalar.ofInt 8388610 ∧
    Scalar.toI32 stuckA = 8388609 ∧ Scalar.toI32 stuckB = 8388610 ∧
    stuckA = (2 : Float32) * 4194304 + 1 := by decide +kernel

/-- the second difference of `P` is `(−1, 0)`: squared length `1`, above the limit `0.25·0.25·4 = 0.25`. -/
theorem stuck_second_difference :
    Pos.lengthSquared ((⟨stuckA, 0⟩ : Pos Float32) - (⟨stuckB, 0⟩ : Pos Float32).smul (2 : Float32) + ⟨stuckB, 0⟩) =
      (1 : Float32) ∧
    (0.25 : Float32) * (0.25 : Float32) * (4 : Float32) = (0.25 : Float32) ∧
    Scalar.lt (0.25 : Float32) (1 : Float32) = true := by decide +kernel

/-- **`P` is not flat enough.** -/
theorem stuck_not_flat : bezierIsFlatEnough stuckPiece = false := by decide +kernel

/-- the `f32` midpoint of `8388609` and `8388610` is `8388610`: the sum `16777219` is a tie between `16777218` and
`16777220` and rounds to the even mantissa. -/
theorem stuck_mid :
    stuckA + stuckB = Float32.ofBits 0x4b800002 ∧ Float32.ofBits 0x4b800002 = (16777220 : Float32) ∧
    (stuckA + stuckB) / (2 : Float32) = stuckB ∧
    ((⟨stuckA, 0⟩ : Pos Float32) + ⟨stuckB, 0⟩).sdiv (2 : Float32) = ⟨stuckB, 0⟩ := by decide +kernel

/-- **the left half of `P` is `P`** (and the right half is `R`): `bezier_subdivide(P, left_child, right_child,
midpoints)` on the scratch vectors of the first turn of the loop (all zero, length 3). The left child *is* `P` — all
three entries. -/
theorem stuck_left_half :
    bezierSubdivide stuckPiece zeros3 zeros3 zeros3 = .ok (stuckPiece, stuckRight, stuckRight) := by decide +kernel

/-- the same on the scratch vectors of every later turn (`left_child = P`, `midpoints = R` from the turn before, a
fresh zero `right_child`): these contents are a fixed point. -/
theorem stuck_left_half_again :
    bezierSubdivide stuckPiece stuckPiece zeros3 stuckRight = .ok (stuckPiece, stuckRight, stuckRight) := by
  decide +kernel

/-! ### any piece that is its own left half

The argument only needs three closed facts about a 3-point piece `[p0, p1, p2]` (`StuckPiece`): it is not flat, and
`bezier_subdivide` returns it as its own left child — on the zero scratch vectors of the first turn and on the scratch
contents every later turn finds. Everything below is proved from them; the facts themselves are decided by the kernel
on the `Float32` model for the two witnesses (`stuck_isStuck`, `stuck2_isStuck`). -/

/-- `[p0, p1, p2]` is not flat and is its own left half; `R` is the right half, `M` the `midpoints` scratch left behind. -/
structure StuckPiece (p0 p1 p2 : Pos Float32) (R M : List (Pos Float32)) : Prop where
  not_flat : bezierIsFlatEnough [p0, p1, p2] = false
  first : bezierSubdivide [p0, p1, p2] zeros3 zeros3 zeros3 = .ok ([p0, p1, p2], R, M)
  again : bezierSubdivide [p0, p1, p2] [p0, p1, p2] zeros3 M = .ok ([p0, p1, p2], R, M)

/-- `circular_arc_properties` declines the three points (its first test, before any libm call). -/
def ArcDeclines (p0 p1 p2 : Pos Float32) : Prop :=
  Scalar.le (Scalar.abs ((p1.y - p0.y) * (p2.x - p0.x) - (p1.x - p0.x) * (p2.y - p0.y))) (Scalar.eps : Float32) = true

/-- the Bezier-like segment kinds: `B` (any degree) and `P` (perfect curve). -/
def BezierLike (t : PathType) : Prop := t.kind = .bspline ∨ t.kind = .perfectCurve

example : BezierLike PathType.bezier ∧ BezierLike PathType.perfect ∧ BezierLike ⟨.bspline, some 3⟩ :=
  ⟨Or.inl rfl, Or.inr rfl, Or.inl rfl⟩

/-- the control-point list `p0` typed `t`, `p1`, `p2`. -/
def cpsOf (t : PathType) (p0 p1 p2 : Pos Float32) : List (PathControlPoint Float32) :=
  [⟨p0, some t⟩, ⟨p1, none⟩, ⟨p2, none⟩]

namespace StuckPiece
variable {p0 p1 p2 : Pos Float32} {R M : List (Pos Float32)}

/-- the first turn: from the state `approximate_bspline` starts in to the invariant state. -/
theorem loop_first (h : StuckPiece p0 p1 p2 R M) (fuel : Nat) (T : List (List (Pos Float32)))
    (l r : List (Pos Float32)) :
    bsplineLoop 3 (fuel + 1) { stack := [p0, p1, p2] :: T, free := [], bufs := ⟨l, r, zeros3, zeros3⟩ } =
    bsplineLoop 3 fuel { stack := [p0, p1, p2] :: R :: T, free := [], bufs := ⟨l, r, M, [p0, p1, p2]⟩ } := by
  rw [bsplineLoop]
  simp only [h.not_flat]
  rw [if_neg (by decide)]
  show (do
      let __x ← bezierSubdivide [p0, p1, p2] zeros3 zeros3 zeros3
      let __do_lift ← sliceTo __x.fst 3
      let parent ← copyFromSlice [p0, p1, p2] __do_lift
      bsplineLoop 3 fuel
          { stack := parent :: __x.2.fst :: T, free := [],
            bufs := { left := l, right := r, midpoints := __x.2.snd, leftChild := __x.fst } }) = _
  rw [h.first]
  rfl

/-- **one turn of the loop in the invariant state**: the piece is popped, `R` and the piece are pushed, the scratch
buffers are unchanged. The rest `T` of the stack and the `left` / `right` scratch vectors are arbitrary. -/
theorem loop_step (h : StuckPiece p0 p1 p2 R M) (fuel : Nat) (T : List (List (Pos Float32)))
    (l r : List (Pos Float32)) :
    bsplineLoop 3 (fuel + 1) { stack := [p0, p1, p2] :: T, free := [], bufs := ⟨l, r, M, [p0, p1, p2]⟩ } =
    bsplineLoop 3 fuel { stack := [p0, p1, p2] :: R :: T, free := [], bufs := ⟨l, r, M, [p0, p1, p2]⟩ } := by
  rw [bsplineLoop]
  simp only [h.not_flat]
  rw [if_neg (by decide)]
  show (do
      let __x ← bezierSubdivide [p0, p1, p2] [p0, p1, p2] zeros3 M
      let __do_lift ← sliceTo __x.fst 3
      let parent ← copyFromSlice [p0, p1, p2] __do_lift
      bsplineLoop 3 fuel
          { stack := parent :: __x.2.fst :: T, free := [],
            bufs := { left := l, right := r, midpoints := __x.2.snd, leftChild := __x.fst } }) = _
  rw [h.again]
  rfl

/-- in the invariant state the loop exhausts every fuel, whatever lies below the piece on the stack. -/
theorem loop_stuck (h : StuckPiece p0 p1 p2 R M) : ∀ (fuel : Nat) (T : List (List (Pos Float32)))
    (l r : List (Pos Float32)),
    bsplineLoop 3 fuel { stack := [p0, p1, p2] :: T, free := [], bufs := ⟨l, r, M, [p0, p1, p2]⟩ } = throw .fuel
  | 0, _, _, _ => rfl
  | fuel + 1, T, l, r => by rw [h.loop_step]; exact loop_stuck h fuel _ l r

/-- `k` turns from the invariant state with the piece alone on the stack: the piece on top of `k` copies of `R`. -/
theorem loop_turns (h : StuckPiece p0 p1 p2 R M) (k fuel : Nat) (l r : List (Pos Float32)) :
    bsplineLoop 3 (fuel + k) { stack := [[p0, p1, p2]], free := [], bufs := ⟨l, r, M, [p0, p1, p2]⟩ } =
    bsplineLoop 3 fuel
      { stack := [p0, p1, p2] :: List.replicate k R, free := [], bufs := ⟨l, r, M, [p0, p1, p2]⟩ } := by
  induction k generalizing fuel with
  | zero => rfl
  | succ k ih =>
    have e : fuel + (k + 1) = (fuel + 1) + k := by omega
    rw [e, ih (fuel + 1), h.loop_step]
    rfl

/-- the loop started as `approximate_bezier` starts it returns `CErr.fuel` for every fuel. -/
theorem loop_diverges (h : StuckPiece p0 p1 p2 R M) : ∀ fuel : Nat,
    bsplineLoop 3 fuel { stack := [[p0, p1, p2]], free := [], bufs := stuckBufs0 } = throw .fuel
  | 0 => rfl
  | fuel + 1 => by
    show bsplineLoop 3 (fuel + 1)
      { stack := [[p0, p1, p2]], free := [], bufs := ⟨zeros3, zeros3, zeros3, zeros3⟩ } = _
    rw [h.loop_first]; exact h.loop_stuck fuel _ _ _

theorem approximateBspline_diverges (h : StuckPiece p0 p1 p2 R M) (fuel : Nat) :
    approximateBspline fuel [p0, p1, p2] stuckBufs0 = throw .fuel := by
  unfold approximateBspline
  show (do
    let (out, bufs) ← bsplineLoop 3 fuel { stack := [[p0, p1, p2]], free := [], bufs := stuckBufs0 }
    let last ← getI [p0, p1, p2] (← usub 3 1)
    pure (out ++ [last], bufs)) = _
  rw [h.loop_diverges]
  rfl

theorem approximateBezier_diverges (h : StuckPiece p0 p1 p2 R M) (fuel : Nat) :
    approximateBezier fuel [p0, p1, p2] ({} : BezierBuffers Float32) = throw .fuel := by
  unfold approximateBezier
  show approximateBspline fuel [p0, p1, p2] (({} : BezierBuffers Float32).extendExact 3) = _
  rw [stuckBufs0_eq]
  exact h.approximateBspline_diverges fuel

/-- with **stale scratch buffers of any contents** (the four vectors of equal length, `BezierBuffers.WF`, the invariant
`extend_exact` maintains): `approximate_bezier` does not depend on what the buffers hold (`bezierPure`). -/
theorem approximateBezier_diverges_stale (h : StuckPiece p0 p1 p2 R M) (fuel : Nat) (b : BezierBuffers Float32)
    (hb : b.WF) : approximateBezier fuel [p0, p1, p2] b = throw .fuel := by
  have h0 : ({} : BezierBuffers Float32).WF := ⟨rfl, rfl, rfl⟩
  have hp := bezierPure (P := Float32) fuel [p0, p1, p2] (by simp) b {} hb h0
  rw [h.approximateBezier_diverges] at hp
  cases hr : approximateBezier fuel [p0, p1, p2] b with
  | ok v => rw [hr] at hp; exact hp.elim
  | error e =>
    rw [hr] at hp
    have he : e = CErr.fuel := hp
    rw [he]; rfl

section Lift
variable [Trig Float] [Trig Float32]

/-- collinear points: `circular_arc_properties` returns `None` before any libm call, for every fuel. -/
theorem _root_.Rosu.C16.ArcDeclines.arc_none (ha : ArcDeclines p0 p1 p2) (fuel : Nat) :
    approximateCircularArc (F := Float) fuel p0 p1 p2 = pure none := by
  have hp : circularArcProperties (F := Float) fuel p0 p1 p2 = pure none := by
    unfold circularArcProperties
    exact if_pos ha
  unfold approximateCircularArc
  rw [hp]
  rfl

/-- `calculate_subpath` on the piece, kind Bezier or PerfectCurve, any mode, any stale (well-formed) scratch buffers. -/
theorem calculateSubpath_diverges (h : StuckPiece p0 p1 p2 R M) (ha : ArcDeclines p0 p1 p2) (fuel : Nat)
    (mode : GameMode) (kind : SplineType) (hk : kind = .bspline ∨ kind = .perfectCurve) (optLen : Float)
    (b : BezierBuffers Float32) (hb : b.WF) :
    calculateSubpath fuel mode [p0, p1, p2] kind optLen b = throw .fuel := by
  rcases hk with rfl | rfl
  · simp only [calculateSubpath, h.approximateBezier_diverges_stale fuel b hb]
    rfl
  · simp only [calculateSubpath, ha.arc_none fuel, pure_bind, h.approximateBezier_diverges_stale fuel b hb]
    rfl

/-- `calculate_path` on `p0` typed Bezier / PerfectCurve, `p1`, `p2`. -/
theorem calculatePath_diverges (h : StuckPiece p0 p1 p2 R M) (ha : ArcDeclines p0 p1 p2) (fuel : Nat)
    (mode : GameMode) (t : PathType) (ht : BezierLike t) (bufs : CurveBuffers Float32 Float) (hb : bufs.bezier.WF) :
    calculatePath fuel mode (cpsOf t p0 p1 p2) bufs = throw .fuel := by
  unfold calculatePath
  rw [if_neg (by simp [cpsOf])]
  have h3 : List.range (cpsOf t p0 p1 p2).length = [0, 1, 2] := rfl
  have hv : (cpsOf t p0 p1 p2).map (·.pos) = [p0, p1, p2] := rfl
  simp only [h3, hv, List.foldlM_cons]
  have s0 : ∀ st : SegState Float32 Float, st.start = 0 →
      segBody fuel mode (cpsOf t p0 p1 p2) [p0, p1, p2] st 0 = pure { st with path := st.path ++ [p0] } := by
    intro st hs; rw [segBody]; obtain ⟨p, o, b, s⟩ := st; cases hs; rfl
  have s1 : ∀ st : SegState Float32 Float, segBody fuel mode (cpsOf t p0 p1 p2) [p0, p1, p2] st 1 = pure st := by
    intro st; rfl
  have s2 : ∀ (path : List (Pos Float32)) (optLen : Float),
      segBody fuel mode (cpsOf t p0 p1 p2) [p0, p1, p2] ⟨path, optLen, bufs.bezier, 0⟩ 2 = throw .fuel := by
    intro path optLen
    have e : segBody fuel mode (cpsOf t p0 p1 p2) [p0, p1, p2] ⟨path, optLen, bufs.bezier, 0⟩ 2 =
        (do let (out, optLen, bez) ← calculateSubpath fuel mode [p0, p1, p2] t.kind optLen bufs.bezier
            let path' ← dedupJoint (path ++ out) path.length
            pure { path := path', optLen, bezier := bez, start := 2 }) := rfl
    rw [e, h.calculateSubpath_diverges ha fuel mode t.kind ht optLen bufs.bezier hb]; rfl
  rw [s0 _ rfl]
  simp only [pure_bind, s1]
  rw [s2]; rfl

theorem compute_diverges (h : StuckPiece p0 p1 p2 R M) (ha : ArcDeclines p0 p1 p2) (fuel : Nat)
    (mode : GameMode) (t : PathType) (ht : BezierLike t) (expected : Option Float)
    (bufs : CurveBuffers Float32 Float) (hb : bufs.bezier.WF) :
    compute fuel mode (cpsOf t p0 p1 p2) expected bufs = throw .fuel := by
  unfold compute
  rw [h.calculatePath_diverges ha fuel mode t ht bufs hb]; rfl

/-- `Curve::new`. -/
theorem curve_new_diverges (h : StuckPiece p0 p1 p2 R M) (ha : ArcDeclines p0 p1 p2) (fuel : Nat)
    (mode : GameMode) (t : PathType) (ht : BezierLike t) (expected : Option Float)
    (bufs : CurveBuffers Float32 Float) (hb : bufs.bezier.WF) :
    Curve.new fuel mode (cpsOf t p0 p1 p2) expected bufs = throw .fuel := by
  unfold Curve.new
  rw [h.compute_diverges ha fuel mode t ht expected bufs hb]; rfl

/-- `BorrowedCurve::new`. -/
theorem curve_newBorrowed_diverges (h : StuckPiece p0 p1 p2 R M) (ha : ArcDeclines p0 p1 p2) (fuel : Nat)
    (mode : GameMode) (t : PathType) (ht : BezierLike t) (expected : Option Float)
    (bufs : CurveBuffers Float32 Float) (hb : bufs.bezier.WF) :
    Curve.newBorrowed fuel mode (cpsOf t p0 p1 p2) expected bufs = throw .fuel := by
  unfold Curve.newBorrowed
  rw [h.compute_diverges ha fuel mode t ht expected bufs hb]; rfl

/-- `SliderPath::new(mode, points, expected).curve()`. -/
theorem sliderPath_curve_diverges (h : StuckPiece p0 p1 p2 R M) (ha : ArcDeclines p0 p1 p2) (fuel : Nat)
    (mode : GameMode) (t : PathType) (ht : BezierLike t) (expected : Option Float) :
    SliderPath.getCurve fuel (SliderPath.new mode (cpsOf t p0 p1 p2) expected : SliderPath Float32 Float) =
      throw .fuel := by
  unfold SliderPath.getCurve SliderPath.curveWithBufs
  show (do
    let (c, sp, _) ← (do
      let (c, bufs) ← Curve.new fuel mode (cpsOf t p0 p1 p2) expected ({} : CurveBuffers Float32 Float)
      (pure (c, { (SliderPath.new mode (cpsOf t p0 p1 p2) expected : SliderPath Float32 Float) with
          curve := some c }, bufs) :
        Outcome (Curve Float32 Float × SliderPath Float32 Float × CurveBuffers Float32 Float)))
    (pure (c, sp) : Outcome (Curve Float32 Float × SliderPath Float32 Float))) = _
  rw [h.curve_new_diverges ha fuel mode t ht expected {} ⟨rfl, rfl, rfl⟩]; rfl

end Lift
end StuckPiece

/-- `BezierBuffers.WF` is satisfiable by buffers with non-trivial stale contents (here: of a longer, earlier piece). -/
example : (⟨[⟨1, 2⟩, ⟨3, 4⟩, ⟨5, 6⟩, ⟨7, 8⟩], [⟨0, 1⟩, ⟨9, 9⟩, ⟨2, 2⟩, ⟨0, 0⟩], [⟨4, 4⟩, ⟨4, 4⟩, ⟨4, 4⟩, ⟨4, 4⟩],
    [⟨7, 7⟩, ⟨1, 7⟩, ⟨7, 1⟩, ⟨3, 3⟩]⟩ : BezierBuffers Float32).WF := by
  refine ⟨?_, ?_, ?_⟩ <;> simp only [List.length_cons, List.length_nil]

/-! ### the witness `P = [(8388609,0), (8388610,0), (8388610,0)]` -/

/-- the three facts for `P` (each a closed `Float32` computation, decided by the kernel). -/
theorem stuck_isStuck : StuckPiece ⟨stuckA, 0⟩ ⟨stuckB, 0⟩ ⟨stuckB, 0⟩ stuckRight stuckRight :=
  ⟨stuck_not_flat, stuck_left_half, stuck_left_half_again⟩

theorem stuck_arcDeclines : ArcDeclines ⟨stuckA, 0⟩ ⟨stuckB, 0⟩ ⟨stuckB, 0⟩ := by
  unfold ArcDeclines; decide +kernel

/-- **one turn of the loop**: `P` is popped, `R` and `P` are pushed, the scratch buffers are unchanged. -/
theorem bsplineLoop_step (fuel : Nat) (T : List (List (Pos Float32))) (l r : List (Pos Float32)) :
    bsplineLoop 3 (fuel + 1) { stack := stuckPiece :: T, free := [], bufs := ⟨l, r, stuckRight, stuckPiece⟩ } =
    bsplineLoop 3 fuel
      { stack := stuckPiece :: stuckRight :: T, free := [], bufs := ⟨l, r, stuckRight, stuckPiece⟩ } :=
  stuck_isStuck.loop_step fuel T l r

/-- in the invariant state the loop exhausts every fuel, whatever lies below `P` on the stack. -/
theorem bsplineLoop_stuck (fuel : Nat) (T : List (List (Pos Float32))) (l r : List (Pos Float32)) :
    bsplineLoop 3 fuel { stack := stuckPiece :: T, free := [], bufs := ⟨l, r, stuckRight, stuckPiece⟩ } =
      throw .fuel :=
  stuck_isStuck.loop_stuck fuel T l r

/-- the stack after `k` turns: `P` on top of `k` copies of `R` (the real `to_flatten` grows by one vector per turn). -/
theorem bsplineLoop_turns (k fuel : Nat) (l r : List (Pos Float32)) :
    bsplineLoop 3 (fuel + k) { stack := [stuckPiece], free := [], bufs := ⟨l, r, stuckRight, stuckPiece⟩ } =
    bsplineLoop 3 fuel
      { stack := stuckPiece :: List.replicate k stuckRight, free := [], bufs := ⟨l, r, stuckRight, stuckPiece⟩ } :=
  stuck_isStuck.loop_turns k fuel l r

/-- **the loop of `approximate_bspline` diverges on `P`**: started as `approximate_bezier` starts it (stack `[P]`, no
free vectors, the scratch buffers of `BezierBuffers::default()` extended to 3 cells), it returns `CErr.fuel` — fuel
ran out with a non-empty stack — for every fuel. -/
theorem bsplineLoop_diverges_float32 (fuel : Nat) :
    bsplineLoop 3 fuel { stack := [stuckPiece], free := [], bufs := stuckBufs0 } = throw .fuel :=
  stuck_isStuck.loop_diverges fuel

theorem approximateBspline_diverges_float32 (fuel : Nat) :
    approximateBspline fuel stuckPiece stuckBufs0 = throw .fuel :=
  stuck_isStuck.approximateBspline_diverges fuel

/-- **`approximate_bezier(P)` with `BezierBuffers::default()` never returns.** -/
theorem approximateBezier_diverges_float32 (fuel : Nat) :
    approximateBezier fuel stuckPiece ({} : BezierBuffers Float32) = throw .fuel :=
  stuck_isStuck.approximateBezier_diverges fuel

/-- the same with stale scratch buffers of any contents (equal lengths). -/
theorem approximateBezier_diverges_float32_stale (fuel : Nat) (b : BezierBuffers Float32) (hb : b.WF) :
    approximateBezier fuel stuckPiece b = throw .fuel :=
  stuck_isStuck.approximateBezier_diverges_stale fuel b hb

/-- the control-point list `(8388609,0)` typed `t`, `(8388610,0)`, `(8388610,0)`. -/
def stuckCpsOf (t : PathType) : List (PathControlPoint Float32) := cpsOf t ⟨stuckA, 0⟩ ⟨stuckB, 0⟩ ⟨stuckB, 0⟩

/-- `(8388609,0)` Bezier, `(8388610,0)`, `(8388610,0)` — the request `curve 0 - 4b000001:0:B 4b000002:0:- 4b000002:0:-`. -/
def stuckCps : List (PathControlPoint Float32) :=
  [⟨⟨stuckA, 0⟩, some PathType.bezier⟩, ⟨⟨stuckB, 0⟩, none⟩, ⟨⟨stuckB, 0⟩, none⟩]

theorem stuckCps_eq : stuckCps = stuckCpsOf PathType.bezier := rfl

/-- every coordinate is a finite `f32` (no NaN, no infinity). -/
theorem stuckCps_finite (t : PathType) : ∀ pt ∈ stuckCpsOf t, FinitePos pt.pos := by
  intro pt h
  simp only [stuckCpsOf, cpsOf, List.mem_cons, List.not_mem_nil, or_false] at h
  have ha : FinitePos (⟨stuckA, 0⟩ : Pos Float32) := by decide +kernel
  have hb : FinitePos (⟨stuckB, 0⟩ : Pos Float32) := by decide +kernel
  rcases h with rfl | rfl | rfl
  · exact ha
  · exact hb
  · exact hb

/-- far outside what a decoded `.osu` file can hold (positions within `±131072`, offsets within `262144`). -/
theorem stuck_beyond_decode_range :
    Scalar.lt (262144 : Float32) stuckA = true ∧ Scalar.le ((2 : Float32) * 4194304) stuckA = true := by
  decide +kernel

section Lift
variable [Trig Float] [Trig Float32]

/-- `calculate_subpath` on `P`, kind Bezier or PerfectCurve, any mode, any stale (well-formed) scratch buffers. -/
theorem calculateSubpath_diverges_float32 (fuel : Nat) (mode : GameMode) (kind : SplineType)
    (hk : kind = .bspline ∨ kind = .perfectCurve) (optLen : Float) (b : BezierBuffers Float32) (hb : b.WF) :
    calculateSubpath fuel mode stuckPiece kind optLen b = throw .fuel :=
  stuck_isStuck.calculateSubpath_diverges stuck_arcDeclines fuel mode kind hk optLen b hb

/-- **`calculate_path` never returns** on `(8388609,0)` typed Bezier / PerfectCurve, `(8388610,0)`, `(8388610,0)`. -/
theorem calculatePath_diverges_float32 (fuel : Nat) (mode : GameMode) (t : PathType) (ht : BezierLike t)
    (bufs : CurveBuffers Float32 Float) (hb : bufs.bezier.WF) :
    calculatePath fuel mode (stuckCpsOf t) bufs = throw .fuel :=
  stuck_isStuck.calculatePath_diverges stuck_arcDeclines fuel mode t ht bufs hb

/-- `Curve::new` on the control points typed `t` (Bezier of any degree, or PerfectCurve), with any stale buffers. -/
theorem curve_new_diverges_float32_gen (fuel : Nat) (mode : GameMode) (t : PathType) (ht : BezierLike t)
    (expected : Option Float) (bufs : CurveBuffers Float32 Float) (hb : bufs.bezier.WF) :
    Curve.new fuel mode (stuckCpsOf t) expected bufs = throw .fuel :=
  stuck_isStuck.curve_new_diverges stuck_arcDeclines fuel mode t ht expected bufs hb

/-- **F23: `Curve::new` never produces a curve** for the finite control points `(8388609,0)` Bezier, `(8388610,0)`,
`(8388610,0)`: in every game mode, for every requested length (`None` included) and every buffer set whose Bezier
scratch vectors have equal lengths (`CurveBuffers::default()` in particular), the model returns the fuel outcome
for every fuel — the Rust loop does not terminate. -/
theorem curve_new_diverges_float32 (fuel : Nat) (mode : GameMode) (expected : Option Float)
    (bufs : CurveBuffers Float32 Float) (hb : bufs.bezier.WF) :
    Curve.new fuel mode stuckCps expected bufs = throw .fuel :=
  curve_new_diverges_float32_gen fuel mode PathType.bezier (Or.inl rfl) expected bufs hb

/-- with `CurveBuffers::default()` (no hypothesis left). -/
theorem curve_new_diverges_float32_default (fuel : Nat) (mode : GameMode) (expected : Option Float) :
    Curve.new fuel mode stuckCps expected ({} : CurveBuffers Float32 Float) = throw .fuel :=
  curve_new_diverges_float32 fuel mode expected {} ⟨rfl, rfl, rfl⟩

/-- `BorrowedCurve::new`. -/
theorem curve_newBorrowed_diverges_float32 (fuel : Nat) (mode : GameMode) (t : PathType) (ht : BezierLike t)
    (expected : Option Float) (bufs : CurveBuffers Float32 Float) (hb : bufs.bezier.WF) :
    Curve.newBorrowed fuel mode (stuckCpsOf t) expected bufs = throw .fuel :=
  stuck_isStuck.curve_newBorrowed_diverges stuck_arcDeclines fuel mode t ht expected bufs hb

/-- `SliderPath::new(mode, points, expected).curve()`. -/
theorem sliderPath_curve_diverges_float32 (fuel : Nat) (mode : GameMode) (t : PathType) (ht : BezierLike t)
    (expected : Option Float) :
    SliderPath.getCurve fuel (SliderPath.new mode (stuckCpsOf t) expected : SliderPath Float32 Float) = throw .fuel :=
  stuck_isStuck.sliderPath_curve_diverges stuck_arcDeclines fuel mode t ht expected

/-- so no fuel makes `Curve::new` succeed: "total on finite control points" is false of the IEEE instance. -/
theorem curve_new_never_ok_float32 (mode : GameMode) (expected : Option Float) :
    (∀ pt ∈ stuckCps, FinitePos pt.pos) ∧
    ¬ ∃ fuel r, Curve.new fuel mode stuckCps expected ({} : CurveBuffers Float32 Float) = .ok r := by
  refine ⟨stuckCps_finite _, ?_⟩
  rintro ⟨fuel, r, h⟩
  rw [curve_new_diverges_float32_default] at h
  cases h

end Lift

/-! ### a second witness, one binade lower: 2D, `|x| = |y| = 2²² + 0.5`

In two dimensions the threshold is `2²²` (ulp `0.5`): the second difference `(−0.5, −0.5)` has squared length
`0.5 > 0.25`. `P₂ = [(a,a), (b,b), (b,b)]` with `a = 4194304.5` (`0x4a800001`, odd mantissa), `b = 4194305`
(`0x4a800002`); the midpoint `4194304.75` is a tie and rounds to `b`. (One binade lower still, ulp `0.25`, this shape
is flat.) -/

def stuck2A : Float32 := Float32.ofBits 0x4a800001
def stuck2B : Float32 := Float32.ofBits 0x4a800002

/-- `P₂ = [(4194304.5, 4194304.5), (4194305, 4194305), (4194305, 4194305)]`. -/
def stuckPiece2 : List (Pos Float32) := [⟨stuck2A, stuck2A⟩, ⟨stuck2B, stuck2B⟩, ⟨stuck2B, stuck2B⟩]
def stuckRight2 : List (Pos Float32) := [⟨stuck2B, stuck2B⟩, ⟨stuck2B, stuck2B⟩, ⟨stuck2B, stuck2B⟩]

theorem stuck2_values :
    stuck2A = (4194304.5 : Float32) ∧ stuck2B = (4194305 : Float32) ∧
    Pos.lengthSquared ((⟨stuck2A, stuck2A⟩ : Pos Float32) - (⟨stuck2B, stuck2B⟩ : Pos Float32).smul (2 : Float32) +
      ⟨stuck2B, stuck2B⟩) = (0.5 : Float32) ∧
    (stuck2A + stuck2B) / (2 : Float32) = stuck2B := by decide +kernel

theorem stuck2_isStuck :
    StuckPiece ⟨stuck2A, stuck2A⟩ ⟨stuck2B, stuck2B⟩ ⟨stuck2B, stuck2B⟩ stuckRight2 stuckRight2 :=
  ⟨by decide +kernel, by decide +kernel, by decide +kernel⟩

theorem stuck2_arcDeclines : ArcDeclines ⟨stuck2A, stuck2A⟩ ⟨stuck2B, stuck2B⟩ ⟨stuck2B, stuck2B⟩ := by
  unfold ArcDeclines; decide +kernel

/-- the same shape one binade lower (`2²¹ + 0.25`, ulp `0.25`) is flat: the loop emits it at once. -/
theorem stuck_shape_flat_below :
    bezierIsFlatEnough ([⟨Float32.ofBits 0x4a000001, Float32.ofBits 0x4a000001⟩,
      ⟨Float32.ofBits 0x4a000002, Float32.ofBits 0x4a000002⟩,
      ⟨Float32.ofBits 0x4a000002, Float32.ofBits 0x4a000002⟩] : List (Pos Float32)) = true := by decide +kernel

theorem approximateBezier_diverges_float32_2d (fuel : Nat) (b : BezierBuffers Float32) (hb : b.WF) :
    approximateBezier fuel stuckPiece2 b = throw .fuel :=
  stuck2_isStuck.approximateBezier_diverges_stale fuel b hb

/-- `Curve::new` on `P₂` (first point typed Bezier or PerfectCurve): the fuel outcome for every fuel. -/
theorem curve_new_diverges_float32_2d [Trig Float] [Trig Float32] (fuel : Nat) (mode : GameMode) (t : PathType)
    (ht : BezierLike t) (expected : Option Float) (bufs : CurveBuffers Float32 Float) (hb : bufs.bezier.WF) :
    Curve.new fuel mode (cpsOf t ⟨stuck2A, stuck2A⟩ ⟨stuck2B, stuck2B⟩ ⟨stuck2B, stuck2B⟩) expected bufs =
      throw .fuel :=
  stuck2_isStuck.curve_new_diverges stuck2_arcDeclines fuel mode t ht expected bufs hb

end BezierDiverge

end Rosu.C16
