/-
  Props/C19Lipschitz.lean — C19, `position_lipschitz` in exact arithmetic (DESIGN.md 5.19).

  `position_at` is 1-Lipschitz in arc length: `‖position_at(r) − position_at(q)‖ ≤ |r − q| · dist`, for **every** pair of
  progress values (clamping included), proved about the model functions `positionAt` / `progressToDist` /
  `idxOfDist` (std's binary-search probing sequence) / `interpolateVertices`, under explicit hypotheses:

  * `ExactArith φ ψ` — ordered-field arithmetic (Lemmas/ExactArith.lean);
  * `NormLaws nrm` — the plane norm is any function with the triangle inequality and absolute homogeneity
    (Lemmas/PolyLipschitz.lean; `L¹`, sup on `Rat × Rat`, Euclidean on `ℝ × ℝ`);
  * the curve invariants: as many lengths as points, first length `0.0` (`C16.lengths_head_zero`), lengths strictly
    increasing (`StrictSorted`), consecutive lengths more than `EPSILON` apart (otherwise `interpolate_vertices`
    deliberately snaps to the segment start — a jump of up to `EPSILON`, so the bound is false without this), and
    **each segment's booked length is at least its chord**: `‖path[i+1] − path[i]‖ ≤ len[i+1] − len[i]`.
    An inequality: the first segment of an osu!-mode Catmull path books `optimized_len` on top of its chord (F12) and
    still satisfies it. It fails when the surplus is negative by rounding (IEEE only) and for the NaN end point of F11.

  `idxOfDist_spec` (new): on strictly increasing lengths the binary search returns the number of lengths below `d`,
  hit or miss (the existing `idxOfDist_hit` covers exact hits only).
-/
import RosuModel.Props.C19
import RosuModel.Lemmas.ExactArith
import RosuModel.Lemmas.PolyLipschitz
import RosuModel.Lemmas.RealScalar
set_option linter.unusedSectionVars false
set_option linter.unusedVariables false
namespace Rosu.C19
open Rosu Rosu.Curve

variable {P F K : Type} [Scalar P] [Scalar F] [Cvt P F] [Field K] [LinearOrder K] [IsStrictOrderedRing K]
variable {φ : P → K} {ψ : F → K}

/-- a point of the model as a vector of `K × K`. -/
def vec (φ : P → K) (p : Pos P) : K × K := (φ p.x, φ p.y)

/-- vertex `j` of the path (anything beyond the end is irrelevant). -/
def ptOf (φ : P → K) (path : List (Pos P)) (j : Nat) : K × K := vec φ (path.getD j Pos.zero)

/-- cumulative length `j`. -/
def lenOf (ψ : F → K) (lengths : List F) (j : Nat) : K := ψ (lengths.getD j 0)

theorem lenOf_of_some (lengths : List F) (j : Nat) (x : F) (h : lengths[j]? = some x) :
    lenOf ψ lengths j = ψ x := by
  unfold lenOf; rw [List.getD_eq_getElem?_getD, h]; rfl

theorem lenOf_lt (lengths : List F) (j : Nat) (h : j < lengths.length) :
    lenOf ψ lengths j = ψ lengths[j] := lenOf_of_some lengths j _ (List.getElem?_eq_getElem h)

/-- `StrictSorted` in the field. -/
theorem strict_lenOf (E : ExactScalar ψ) (lengths : List F) (hs : StrictSorted lengths) (i j : Nat)
    (hij : i < j) (hj : j < lengths.length) : lenOf ψ lengths i < lenOf ψ lengths j := by
  rw [lenOf_lt lengths i (by omega), lenOf_lt lengths j hj, ← E.lt_iff]
  exact hs i j _ _ hij (List.getElem?_eq_getElem (by omega)) (List.getElem?_eq_getElem hj)

theorem mono_lenOf (E : ExactScalar ψ) (lengths : List F) (hs : StrictSorted lengths) (i j : Nat)
    (hij : i ≤ j) (hj : j < lengths.length) : lenOf ψ lengths i ≤ lenOf ψ lengths j := by
  rcases Nat.lt_or_ge i j with h | h
  · exact le_of_lt (strict_lenOf E lengths hs i j h hj)
  · have : i = j := by omega
    subst this; exact le_refl _

/-! ### the binary search on strictly increasing lengths, hit or miss -/

theorem cmpLen_gt_iff (E : ExactScalar ψ) (x d : F) : (cmpLen x d == .gt) = true ↔ ψ d < ψ x := by
  unfold cmpLen
  by_cases h1 : ψ x < ψ d
  · simp [E.lt, h1, not_lt.mpr (le_of_lt h1)]
  · by_cases h2 : ψ d < ψ x
    · simp [E.lt, h1, h2]
    · simp [E.lt, h1, h2]

theorem bsLoop_spec (E : ExactScalar ψ) (lengths : List F) (hs : StrictSorted lengths) (d : F) :
    ∀ fuel base size, size ≤ fuel → 1 ≤ size → base + size ≤ lengths.length →
      (base = 0 ∨ lenOf ψ lengths base ≤ ψ d) →
      (∀ j, base + size ≤ j → j < lengths.length → ψ d < lenOf ψ lengths j) →
      bsLoop lengths d fuel base size < lengths.length ∧
      (bsLoop lengths d fuel base size = 0 ∨ lenOf ψ lengths (bsLoop lengths d fuel base size) ≤ ψ d) ∧
      (∀ j, bsLoop lengths d fuel base size + 1 ≤ j → j < lengths.length → ψ d < lenOf ψ lengths j) := by
  intro fuel
  induction fuel with
  | zero => intro base size h1 h2; omega
  | succ n ih =>
    intro base size hf h1 hb hlo hhi
    simp only [bsLoop]
    split
    · rename_i hsz
      have hmid : base + size / 2 < lengths.length := by omega
      have hx : lengths.getD (base + size / 2) 0 = lengths[base + size / 2] := by
        rw [List.getD_eq_getElem?_getD, List.getElem?_eq_getElem hmid]; rfl
      rw [hx]
      by_cases hg : ψ d < ψ lengths[base + size / 2]
      · have hc := (cmpLen_gt_iff E lengths[base + size / 2] d).mpr hg
        simp only [hc, if_true]
        apply ih base (size - size / 2) (by omega) (by omega) (by omega) hlo
        intro j hj hjn
        have : lenOf ψ lengths (base + size / 2) ≤ lenOf ψ lengths j :=
          mono_lenOf E lengths hs _ _ (by omega) hjn
        rw [lenOf_lt lengths _ hmid] at this
        linarith
      · have hc : (cmpLen lengths[base + size / 2] d == .gt) = false := by
          cases hh : (cmpLen lengths[base + size / 2] d == .gt)
          · rfl
          · exact absurd ((cmpLen_gt_iff E _ d).mp hh) hg
        simp only [hc, Bool.false_eq_true, if_false]
        apply ih (base + size / 2) (size - size / 2) (by omega) (by omega) (by omega)
        · right; rw [lenOf_lt lengths _ hmid]; exact not_lt.mp hg
        · intro j hj hjn; exact hhi j (by omega) hjn
    · have : size = 1 := by omega
      subst this
      exact ⟨by omega, hlo, hhi⟩

/-- **`idxOfDist_spec`** (exact arithmetic): on strictly increasing cumulative lengths `idx_of_dist(d)` is the number
of lengths below `d` — std's probing sequence, hit (`Ok`) or miss (`Err`), same answer. -/
theorem idxOfDist_spec (E : ExactScalar ψ) (lengths : List F) (hs : StrictSorted lengths) (d : F) :
    IsIdx (lenOf ψ lengths) lengths.length (idxOfDist lengths d) (ψ d) := by
  unfold idxOfDist
  simp only []
  split
  · rename_i h0
    rw [h0]
    exact ⟨le_refl _, fun j hj => by omega, fun j _ hj => by omega⟩
  · rename_i hne
    obtain ⟨hb, hlo, hhi⟩ := bsLoop_spec E lengths hs d lengths.length 0 lengths.length (le_refl _) (by omega)
      (by omega) (Or.inl rfl) (fun j hj hjn => by omega)
    generalize bsLoop lengths d lengths.length 0 lengths.length = b at hb hlo hhi
    have hx : lengths.getD b 0 = lengths[b] := by
      rw [List.getD_eq_getElem?_getD, List.getElem?_eq_getElem hb]; rfl
    rw [hx]
    have hL : lenOf ψ lengths b = ψ lengths[b] := lenOf_lt lengths b hb
    unfold cmpLen
    by_cases h1 : ψ lengths[b] < ψ d
    · -- Less: `Err(base + 1)`
      simp only [E.lt, h1, decide_true, if_true]
      refine ⟨by simp; omega, ?_, ?_⟩
      · intro j hj
        have : lenOf ψ lengths j ≤ lenOf ψ lengths b := mono_lenOf E lengths hs j b (by simp at hj; omega) hb
        rw [hL] at this; linarith
      · intro j hj hjn
        exact le_of_lt (hhi j (by simpa using hj) hjn)
    · by_cases h2 : ψ d < ψ lengths[b]
      · -- Greater: only possible at `base = 0`; `Err(0)`
        simp only [E.lt, h1, h2, decide_true, decide_false, if_true, Bool.false_eq_true, if_false]
        have hb0 : b = 0 := by
          rcases hlo with h | h
          · exact h
          · rw [hL] at h; linarith
        subst hb0
        refine ⟨by simp, fun j hj => by simp at hj, ?_⟩
        intro j _ hjn
        have : lenOf ψ lengths 0 ≤ lenOf ψ lengths j := mono_lenOf E lengths hs 0 j (by omega) hjn
        rw [hL] at this
        linarith
      · -- Equal: `Ok(base)`
        simp only [E.lt, h1, h2, decide_false, Bool.false_eq_true, if_false]
        have heq : ψ lengths[b] = ψ d := le_antisymm (not_lt.mp h2) (not_lt.mp h1)
        refine ⟨by simp; omega, ?_, ?_⟩
        · intro j hj
          have := strict_lenOf E lengths hs j b (by simpa using hj) hb
          rw [hL, heq] at this; exact this
        · intro j hj hjn
          have : lenOf ψ lengths b ≤ lenOf ψ lengths j := mono_lenOf E lengths hs b j (by simpa using hj) hjn
          rw [hL, heq] at this; exact this

/-! ### `interpolate_vertices` is the polyline evaluation -/

/-- consecutive lengths are more than `EPSILON` apart (the `interpolate_vertices` guard never fires). -/
def NonDegenerate (lengths : List F) : Prop :=
  ∀ i x y, lengths[i]? = some x → lengths[i + 1]? = some y →
    Scalar.le (Scalar.abs (x - y)) (Scalar.eps : F) = false

theorem interpolate_eq_polyAt (E : ExactArith φ ψ) (path : List (Pos P)) (lengths : List F)
    (hlen : path.length = lengths.length) (hne : 1 ≤ path.length) (hdeg : NonDegenerate lengths)
    (i : Nat) (d : F) (a : Pos P) (h : interpolateVertices path lengths i d = .ok a) :
    vec φ a = polyAt (ptOf φ path) (lenOf ψ lengths) path.length i (ψ d) := by
  have hpt : ∀ j (hj : j < path.length), ptOf φ path j = vec φ path[j] := by
    intro j hj
    unfold ptOf; rw [List.getD_eq_getElem?_getD, List.getElem?_eq_getElem hj]; rfl
  unfold polyAt
  by_cases hi0 : i = 0
  · subst hi0
    rw [if_pos rfl, hpt 0 (by omega)]
    cases path with
    | nil => simp at hne
    | cons p t =>
      rw [interpolate_idx_zero] at h
      cases h; rfl
  · rw [if_neg hi0]
    split
    · rename_i hge
      have hp : path ≠ [] := by intro h0; subst h0; simp at hne
      rw [interpolate_beyond_last path lengths i d hp hge] at h
      cases h
      rw [hpt (path.length - 1) (by omega), List.getLast_eq_getElem]
    · rename_i hlt
      have hlt : i < path.length := by omega
      have hp1 : path[i]? = some path[i] := List.getElem?_eq_getElem hlt
      have hp0 : path[i - 1]? = some (path[i - 1]'(by omega)) := List.getElem?_eq_getElem (by omega)
      have hd1 : lengths[i]? = some (lengths[i]'(by omega)) := List.getElem?_eq_getElem (by omega)
      have hd0 : lengths[i - 1]? = some (lengths[i - 1]'(by omega)) := List.getElem?_eq_getElem (by omega)
      have hdg := hdeg (i - 1) _ _ hd0 (by rw [show i - 1 + 1 = i by omega]; exact hd1)
      rw [interpolate_formula path lengths i d _ _ _ _ hi0 hp1 hp0 hd0 hd1 hdg] at h
      cases h
      unfold segPt
      rw [hpt i hlt, hpt (i - 1) (by omega), lenOf_lt lengths i (by omega), lenOf_lt lengths (i - 1) (by omega)]
      unfold vec
      ext
      · simp only [Pos.add_x, Pos.smul_x, Pos.sub_x, E.p.add, E.p.mul, E.p.sub, E.down, E.f.div, E.f.sub,
          Prod.fst_add, Prod.smul_fst, Prod.fst_sub, smul_eq_mul]
        ring
      · simp only [Pos.add_y, Pos.smul_y, Pos.sub_y, E.p.add, E.p.mul, E.p.sub, E.down, E.f.div, E.f.sub,
          Prod.snd_add, Prod.smul_snd, Prod.snd_sub, smul_eq_mul]
        ring

/-! ### the theorem -/

/-- each segment's booked length is at least its chord, in the norm `nrm`. -/
def ChordBound (φ : P → K) (ψ : F → K) (nrm : K × K → K) (path : List (Pos P)) (lengths : List F) : Prop :=
  ∀ i p p' x y, path[i]? = some p → path[i + 1]? = some p' → lengths[i]? = some x → lengths[i + 1]? = some y →
    nrm (vec φ p' - vec φ p) ≤ ψ y - ψ x

theorem clamp01_lipschitz (x y : K) : |max 0 (min 1 x) - max 0 (min 1 y)| ≤ |x - y| := by
  have key : ∀ u v : K, u ≤ v → |max 0 (min 1 v) - max 0 (min 1 u)| ≤ v - u := by
    intro u v huv
    have m1 : min 1 u ≤ min 1 v := min_le_min le_rfl huv
    have m2 : max 0 (min 1 u) ≤ max 0 (min 1 v) := max_le_max le_rfl m1
    rw [abs_of_nonneg (by linarith)]
    simp only [max_def, min_def]
    split_ifs <;> linarith
  rcases le_total x y with h | h
  · rw [abs_sub_comm, abs_sub_comm x y, abs_of_nonneg (by linarith : 0 ≤ y - x)]; exact key x y h
  · rw [abs_of_nonneg (by linarith : 0 ≤ x - y)]; exact key y x h

/-- **`position_lipschitz`** (exact arithmetic, abstract plane norm): for every two progress values `q`, `r` —
inside or outside `[0, 1]` — the positions are at most `|r − q| · dist` apart. -/
theorem position_lipschitz (E : ExactArith φ ψ) {nrm : K × K → K} (Nm : NormLaws nrm)
    (path : List (Pos P)) (lengths : List F)
    (hlen : path.length = lengths.length) (h0 : lengths.head? = some (0 : F))
    (hs : StrictSorted lengths) (hdeg : NonDegenerate lengths) (hchord : ChordBound φ ψ nrm path lengths)
    (q r : F) (a b : Pos P)
    (ha : positionAt path lengths q = .ok a) (hb : positionAt path lengths r = .ok b) :
    nrm (vec φ b - vec φ a) ≤ |ψ r - ψ q| * ψ (dist lengths) := by
  have hn : 1 ≤ lengths.length := by
    cases lengths with
    | nil => simp at h0
    | cons x t => simp
  have hpoly : Poly nrm (ptOf φ path) (lenOf ψ lengths) path.length :=
    { pos := by omega
      mono := fun j hj => strict_lenOf E.f lengths hs j (j + 1) (by omega) (by omega)
      chord := fun j hj => by
        have e1 : ptOf φ path (j + 1) = vec φ path[j + 1] := by
          unfold ptOf; rw [List.getD_eq_getElem?_getD, List.getElem?_eq_getElem hj]; rfl
        have e2 : ptOf φ path j = vec φ (path[j]'(by omega)) := by
          unfold ptOf; rw [List.getD_eq_getElem?_getD, List.getElem?_eq_getElem (by omega)]; rfl
        rw [e1, e2, lenOf_lt lengths (j + 1) (by omega), lenOf_lt lengths j (by omega)]
        exact hchord j _ _ _ _ (List.getElem?_eq_getElem (by omega)) (List.getElem?_eq_getElem hj)
          (List.getElem?_eq_getElem (by omega)) (List.getElem?_eq_getElem (by omega)) }
  unfold positionAt at ha hb
  simp only [] at ha hb
  have ea := interpolate_eq_polyAt E path lengths hlen (by omega) hdeg _ _ a ha
  have eb := interpolate_eq_polyAt E path lengths hlen (by omega) hdeg _ _ b hb
  have ia := idxOfDist_spec E.f lengths hs (progressToDist lengths q)
  have ib := idxOfDist_spec E.f lengths hs (progressToDist lengths r)
  rw [← hlen] at ia ib
  have key := poly_lipschitz_abs Nm hpoly ia ib
  rw [← ea, ← eb] at key
  -- the distance travelled is at most `|r - q| * dist`
  have hD : 0 ≤ ψ (dist lengths) := by
    have e0 : lenOf ψ lengths 0 = 0 := by
      cases lengths with
      | nil => simp at h0
      | cons x t =>
        simp only [List.head?_cons, Option.some.injEq] at h0
        subst h0
        unfold lenOf
        simp only [List.getD_cons_zero]
        exact E.f.zero
    have e1 : ψ (dist lengths) = lenOf ψ lengths (lengths.length - 1) := by
      rw [lenOf_lt lengths _ (by omega)]
      unfold Curve.dist
      rw [List.getLast?_eq_getElem?, List.getElem?_eq_getElem (by omega)]
    rw [e1, ← e0]
    exact mono_lenOf E.f lengths hs 0 _ (by omega) (by omega)
  have hpd : ∀ x : F, ψ (progressToDist lengths x) = max 0 (min 1 (ψ x)) * ψ (dist lengths) := by
    intro x
    unfold progressToDist
    rw [E.f.mul, E.f.clamp01]
  rw [hpd, hpd, ← sub_mul, abs_mul, abs_of_nonneg hD] at key
  exact le_trans key (mul_le_mul_of_nonneg_right (clamp01_lipschitz _ _) hD)

/-- the form of the property text: `0 ≤ q ≤ r ≤ 1` gives `(r − q) · dist`. -/
theorem position_lipschitz_ordered (E : ExactArith φ ψ) {nrm : K × K → K} (Nm : NormLaws nrm)
    (path : List (Pos P)) (lengths : List F)
    (hlen : path.length = lengths.length) (h0 : lengths.head? = some (0 : F))
    (hs : StrictSorted lengths) (hdeg : NonDegenerate lengths) (hchord : ChordBound φ ψ nrm path lengths)
    (q r : F) (a b : Pos P) (hqr : Scalar.le q r = true)
    (ha : positionAt path lengths q = .ok a) (hb : positionAt path lengths r = .ok b) :
    nrm (vec φ b - vec φ a) ≤ ψ ((r - q) * dist lengths) := by
  have := position_lipschitz E Nm path lengths hlen h0 hs hdeg hchord q r a b ha hb
  rw [E.f.le_iff] at hqr
  rwa [abs_of_nonneg (by linarith), ← E.f.sub, ← E.f.mul] at this

/-! ### the full statement, with the hypotheses it needs, and its instances -/

/-- `position_lipschitz_statement` (Props/C19.lean) with the three curve invariants it omits — first length `0.0`,
strictly increasing lengths, consecutive lengths more than `EPSILON` apart. (Without the last one the bound is false
in exact arithmetic whenever `EPSILON > 0`: `interpolate_vertices` snaps a segment of booked length `≤ EPSILON` to its
start, a jump of up to `EPSILON`.) The norm is the model's own `Pos::distance`. -/
def position_lipschitz_full_statement (P F : Type) [Scalar P] [Scalar F] [Cvt P F] : Prop :=
  ∀ (path : List (Pos P)) (lengths : List F) (q r : F) (a b : Pos P),
    path.length = lengths.length → lengths.head? = some (0 : F) → StrictSorted lengths → NonDegenerate lengths →
    (∀ i p p' x y, path[i]? = some p → path[i + 1]? = some p' → lengths[i]? = some x → lengths[i + 1]? = some y →
      Scalar.le (Cvt.up (Pos.distance F p' p)) (y - x) = true) →
    Scalar.le 0 q = true → Scalar.le q r = true → Scalar.le r 1 = true →
    positionAt path lengths q = .ok a → positionAt path lengths r = .ok b →
    Scalar.le (Cvt.up (Pos.distance F b a)) ((r - q) * Curve.dist lengths) = true

/-- the model's `Pos::distance` seen in `K`, when `sqrt` is a square root, is a function of the difference vector. -/
theorem distance_eq (E : ExactArith φ ψ) (a b : Pos P) :
    ψ (Cvt.up (Pos.distance F b a)) =
      ψ (Scalar.sqrt (Cvt.up ((b - a).x * (b - a).x + (b - a).y * (b - a).y))) := by
  unfold Pos.distance Pos.length
  rw [E.up, E.down]

section Real
open Rosu.RealInst

/-- the Euclidean norm of `ℝ × ℝ`. -/
noncomputable def euclid (v : ℝ × ℝ) : ℝ := Real.sqrt (v.1 * v.1 + v.2 * v.2)

theorem euclid_eq_norm (v : ℝ × ℝ) : euclid v = ‖(⟨v.1, v.2⟩ : ℂ)‖ := by
  unfold euclid; rw [Complex.norm_def, Complex.normSq_apply]

theorem normLaws_euclid : NormLaws euclid where
  triangle u v := by
    rw [euclid_eq_norm, euclid_eq_norm, euclid_eq_norm]
    have : (⟨(u + v).1, (u + v).2⟩ : ℂ) = ⟨u.1, u.2⟩ + ⟨v.1, v.2⟩ := by
      apply Complex.ext <;> simp
    rw [this]
    exact norm_add_le _ _
  homog t v := by
    rw [euclid_eq_norm, euclid_eq_norm]
    have : (⟨(t • v).1, (t • v).2⟩ : ℂ) = (t : ℂ) * ⟨v.1, v.2⟩ := by
      apply Complex.ext <;> simp
    rw [this, norm_mul, Complex.norm_real, Real.norm_eq_abs]

/-- **the full statement holds over the reals**, with the model's own Euclidean `Pos::distance` (`sqrt = Real.sqrt`). -/
theorem position_lipschitz_real : position_lipschitz_full_statement ℝ ℝ := by
  intro path lengths q r a b hlen h0 hs hdeg hchord _ hqr _ ha hb
  have E := exactArith_real
  have hd : ∀ u v : Pos ℝ, id (Cvt.up (Pos.distance ℝ u v) : ℝ) = euclid (vec id u - vec id v) := by
    intro u v; rfl
  have hc : ChordBound (id : ℝ → ℝ) (id : ℝ → ℝ) euclid path lengths := by
    intro i p p' x y h1 h2 h3 h4
    have := hchord i p p' x y h1 h2 h3 h4
    rw [E.f.le_iff, hd, E.f.sub] at this
    exact this
  have := position_lipschitz_ordered E normLaws_euclid path lengths hlen h0 hs hdeg hc q r a b hqr ha hb
  rw [E.f.le_iff, hd]
  exact this

end Real

/-! ### satisfiable on `Rat` with the `L¹` norm: a concrete curve -/

section NonVacuity
open Rosu.ToyRat

/-- a concrete instance over `Rat`: path `(0,0) → (3,4) → (3,10)`, lengths `0, 7, 13` (the `L¹` chords), progress
`1/4` and `3/4`. -/
example : ∃ a b : Pos Rat,
    positionAt [(⟨0, 0⟩ : Pos Rat), ⟨3, 4⟩, ⟨3, 10⟩] ([0, 7, 13] : List Rat) (1 / 4) = .ok a ∧
    positionAt [(⟨0, 0⟩ : Pos Rat), ⟨3, 4⟩, ⟨3, 10⟩] ([0, 7, 13] : List Rat) (3 / 4) = .ok b ∧
    |b.x - a.x| + |b.y - a.y| ≤ |(3 / 4 : Rat) - 1 / 4| * 13 := by
  obtain ⟨a, ha⟩ := positionAt_total [(⟨0, 0⟩ : Pos Rat), ⟨3, 4⟩, ⟨3, 10⟩] ([0, 7, 13] : List Rat) (1 / 4)
    (by decide)
  obtain ⟨b, hb⟩ := positionAt_total [(⟨0, 0⟩ : Pos Rat), ⟨3, 4⟩, ⟨3, 10⟩] ([0, 7, 13] : List Rat) (3 / 4)
    (by decide)
  refine ⟨a, b, ha, hb, ?_⟩
  have hs : StrictSorted ([0, 7, 13] : List Rat) := by
    intro i j x y hij hx hy
    match i, j, hij with
    | 0, 1, _ => simp at hx hy; subst hx hy; decide +kernel
    | 0, 2, _ => simp at hx hy; subst hx hy; decide +kernel
    | 1, 2, _ => simp at hx hy; subst hx hy; decide +kernel
    | _, j + 3, _ => simp at hy
    | i + 1, 1, h => omega
    | i + 2, 2, h => omega
  have hdeg : NonDegenerate ([0, 7, 13] : List Rat) := by
    intro i x y hx hy
    match i with
    | 0 => simp at hx hy; subst hx hy; decide +kernel
    | 1 => simp at hx hy; subst hx hy; decide +kernel
    | i + 2 => simp at hy
  have hch : ChordBound (id : Rat → Rat) (id : Rat → Rat) (fun v : Rat × Rat => |v.1| + |v.2|)
      [(⟨0, 0⟩ : Pos Rat), ⟨3, 4⟩, ⟨3, 10⟩] ([0, 7, 13] : List Rat) := by
    intro i p p' x y h1 h2 h3 h4
    match i with
    | 0 => simp at h1 h2 h3 h4; subst h1 h2 h3 h4; simp [vec]; norm_num
    | 1 => simp at h1 h2 h3 h4; subst h1 h2 h3 h4; simp [vec]; norm_num
    | i + 2 => simp at h2
  have := position_lipschitz exactArith_rat normLaws_l1 _ _ rfl rfl hs hdeg hch (1 / 4) (3 / 4) a b ha hb
  simpa [vec, Curve.dist] using this

end NonVacuity

end Rosu.C19
